(* MurmurHash3 x86_32 over unbounded integers with the 32-bit wrap written out, and e3fp's
   hash_int64_array (little-endian bytes of an int64 array = two 32-bit words per entry).
   Independent re-implementation: agreement with the mmh3 C library is checked on every run. *)
From Coq Require Import ZArith List.
Import ListNotations.
Open Scope Z_scope.

Definition two32 : Z := 4294967296.
Definition two31 : Z := 2147483648.
Definition two64 : Z := 18446744073709551616.

Definition wrap32 (x : Z) : Z := x mod two32.

(* rotate left a value already in [0, 2^32) *)
Definition rotl32 (x r : Z) : Z := wrap32 (Z.shiftl x r) + Z.shiftr x (32 - r).

Definition mm_c1 : Z := 3432918353.   (* 0xcc9e2d51 *)
Definition mm_c2 : Z := 461845907.    (* 0x1b873593 *)

Definition mix_k (k : Z) : Z := wrap32 (rotl32 (wrap32 (k * mm_c1)) 15 * mm_c2).

Definition mix_h (h k : Z) : Z :=
  wrap32 (rotl32 (Z.lxor h (mix_k k)) 13 * 5 + 3864292196).   (* 0xe6546b64 *)

Definition fmix32 (h : Z) : Z :=
  let h := Z.lxor h (Z.shiftr h 16) in
  let h := wrap32 (h * 2246822507) in     (* 0x85ebca6b *)
  let h := Z.lxor h (Z.shiftr h 13) in
  let h := wrap32 (h * 3266489909) in     (* 0xc2b2ae35 *)
  Z.lxor h (Z.shiftr h 16).

(* hash of a sequence of 32-bit words (length in bytes = 4 * #words; no tail) *)
Definition mmh3_words (seed : Z) (ws : list Z) : Z :=
  fmix32 (Z.lxor (fold_left mix_h ws (wrap32 seed)) (wrap32 (4 * Z.of_nat (length ws)))).

Definition words_of_i64 (x : Z) : list Z := let u := x mod two64 in [u mod two32; u / two32].

Definition to_signed32 (h : Z) : Z := if h <? two31 then h else h - two32.

(* e3fp.fingerprint.fprinter.hash_int64_array *)
Definition hash_i64 (seed : Z) (xs : list Z) : Z :=
  to_signed32 (mmh3_words seed (flat_map words_of_i64 xs)).

(* signed_to_unsigned_int *)
Definition unsigned32 (a : Z) : Z := (a + two32) mod two32.
