(* Common vocabulary of all models: Python exceptions as a small enum, results. *)
From Coq Require Export String.
From Coq Require Export ZArith List Bool Lia.
Export ListNotations.
Open Scope Z_scope.

Inductive err :=
| EBits        (* E3FPBitsValueError *)
| EInvalidFp   (* E3FPInvalidFingerprintError *)
| ECounts      (* E3FPCountsError *)
| EOption      (* E3FPOptionError *)
| EKey         (* KeyError *)
| EIndex       (* IndexError *)
| EType        (* TypeError *)
| EValue       (* ValueError *)
| ERecursion   (* RecursionError *)
| EOther.

Definition err_eqb (a b : err) : bool :=
  match a, b with
  | EBits, EBits | EInvalidFp, EInvalidFp | ECounts, ECounts | EOption, EOption | EKey, EKey
  | EIndex, EIndex | EType, EType | EValue, EValue | ERecursion, ERecursion | EOther, EOther => true
  | _, _ => false
  end.

Inductive result (A : Type) :=
| Ok (a : A)
| Raises (e : err).
Arguments Ok {A} a.
Arguments Raises {A} e.

Definition rbind {A B} (r : result A) (f : A -> result B) : result B :=
  match r with Ok a => f a | Raises e => Raises e end.

Definition is_ok {A} (r : result A) : bool := match r with Ok _ => true | Raises _ => false end.

Definition result_eqb {A} (eqb : A -> A -> bool) (a b : result A) : bool :=
  match a, b with
  | Ok x, Ok y => eqb x y
  | Raises e, Raises f => err_eqb e f
  | _, _ => false
  end.

(* list equality with a boolean element test *)
Fixpoint list_eqb {A} (eqb : A -> A -> bool) (a b : list A) : bool :=
  match a, b with
  | [], [] => true
  | x :: a', y :: b' => eqb x y && list_eqb eqb a' b'
  | _, _ => false
  end.

Definition option_eqb {A} (eqb : A -> A -> bool) (a b : option A) : bool :=
  match a, b with
  | None, None => true
  | Some x, Some y => eqb x y
  | _, _ => false
  end.

Definition pair_eqb {A B} (ea : A -> A -> bool) (eb : B -> B -> bool) (a b : A * B) : bool :=
  ea (fst a) (fst b) && eb (snd a) (snd b).

Lemma list_eqb_Zeqb_eq : forall a b : list Z, list_eqb Z.eqb a b = true <-> a = b.
Proof.
  induction a as [|x a IH]; destruct b as [|y b]; simpl; split; intro H; try congruence; try reflexivity.
  - apply andb_true_iff in H. destruct H as [H1 H2]. apply Z.eqb_eq in H1. apply IH in H2. congruence.
  - inversion H; subst. rewrite Z.eqb_refl. simpl. apply IH. reflexivity.
Qed.
