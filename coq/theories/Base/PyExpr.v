(* Combinators into which harness/facts_metricsrc.py translates the scalar arithmetic of Python return expressions
   (-> Gen/MetricsSource.v).  Exact rationals.

   1. Scalar Python arithmetic: a value is `option Q`; None = ZeroDivisionError was raised while evaluating it.
      `a / b` raises when b is zero (odiv), every other operator propagates None.  `try: ... except ZeroDivisionError:
      return h` is `handle (Some h) v`; no handler is `handle None v` (the exception propagates).
   2. Square roots: `(E) ** 0.5` is not a rational.  The translator carries `c * sqrt r` symbolically and a quotient
      `n / (c * sqrt r)` is delivered as the two rationals (n / c, r) standing for (n/c) / sqrt r; dividing by it
      raises when c = 0 or r = 0 (oroot_div).
   3. numpy float division under errstate(ignore) followed by nan_to_num (array_metrics.py): np_div, np_nan_to_num.
   4. sums over the items / values of a counts dict: sum_items, sum_values.
   A few unfolding lemmas for the proofs of Proofs/MetricsSrc.v are at the end. *)
From Coq Require Import QArith Qabs Qminmax ZArith List.
Import ListNotations.
Open Scope Q_scope.

(* ---- 1. scalar Python arithmetic --------------------------------------------------------------- *)
Definition oconst (q : Q) : option Q := Some q.
Definition ovar (q : Q) : option Q := Some q.

Definition obin (f : Q -> Q -> Q) (a b : option Q) : option Q :=
  match a, b with Some x, Some y => Some (f x y) | _, _ => None end.
Definition oun (f : Q -> Q) (a : option Q) : option Q :=
  match a with Some x => Some (f x) | None => None end.

Definition oadd := obin Qplus.
Definition osub := obin Qminus.
Definition omul := obin Qmult.
Definition omax := obin Qmax.
Definition omin := obin Qmin.
Definition oneg := oun Qopp.
Definition oabs := oun Qabs.
Definition osq (a : option Q) : option Q := omul a a.        (* a ** 2 *)

(* Python `/`: ZeroDivisionError on a zero divisor *)
Definition odiv (a b : option Q) : option Q :=
  match a, b with
  | Some x, Some y => if Qeq_bool y 0 then None else Some (x / y)
  | _, _ => None
  end.

(* `x = a` followed by the rest of the block: a is evaluated first (and raises even when x is not used afterwards) *)
Definition obind {A} (a : option Q) (f : Q -> option A) : option A :=
  match a with Some x => f x | None => None end.

(* `if a == b: <t> else: <e>` on scalar values *)
Definition oif_eq {A} (a b : option Q) (t e : option A) : option A :=
  match a, b with
  | Some x, Some y => if Qeq_bool x y then t else e
  | _, _ => None
  end.

(* try: v  except ZeroDivisionError: return h      (h = None: there is no handler) *)
Definition handle {A} (h v : option A) : option A :=
  match v with Some x => Some x | None => h end.

Definition oeq (a b : option Q) : Prop :=
  match a, b with
  | Some x, Some y => x == y
  | None, None => True
  | _, _ => False
  end.

(* ---- 2. quotients by a square root -------------------------------------------------------------- *)
(* the value num / sqrt den2 as the pair (num, den2); division by sqrt 0 raises *)
Definition oroot_div (num den2 : option Q) : option (Q * Q) :=
  match num, den2 with
  | Some n, Some d => if Qeq_bool d 0 then None else Some (n, d)
  | _, _ => None
  end.

(* a rational returned by a handler, as a (num, den2) pair: q = q / sqrt 1 *)
Definition root_of_q (h : option Q) : option (Q * Q) :=
  match h with Some q => Some (q, 1) | None => None end.

Definition oeq2 (a b : option (Q * Q)) : Prop :=
  match a, b with
  | Some x, Some y => fst x == fst y /\ snd x == snd y
  | None, None => True
  | _, _ => False
  end.

(* componentwise == on tuples of rationals *)
Definition qeq2 (p q : Q * Q) : Prop := fst p == fst q /\ snd p == snd q.
Definition qeq4 (p q : Q * Q * Q * Q) : Prop :=
  fst (fst (fst p)) == fst (fst (fst q)) /\ snd (fst (fst p)) == snd (fst (fst q)) /\
  snd (fst p) == snd (fst q) /\ snd p == snd q.

(* ---- 3. numpy float division, nan_to_num --------------------------------------------------------- *)
Inductive npval := NpFin (q : Q) | NpNan | NpPosInf | NpNegInf.

Definition np_div (n d : Q) : npval :=
  if Qeq_bool d 0 then (if Qeq_bool n 0 then NpNan else if Qle_bool 0 n then NpPosInf else NpNegInf)
  else NpFin (n / d).

Definition np_dbl_max : Q := inject_Z (2 ^ 1024 - 2 ^ 971).

Definition np_nan_to_num (v : npval) : Q :=
  match v with NpFin q => q | NpNan => 0 | NpPosInf => np_dbl_max | NpNegInf => - np_dbl_max end.

Definition np_asarray {A} (x : A) : A := x.

(* num / sqrt den2 elementwise, then nan_to_num: a (num, den2) pair again (an infinite quotient becomes +-DBL_MAX / sqrt 1) *)
Inductive nproot := RFin (num den2 : Q) | RNan | RPosInf | RNegInf.

Definition np_root_div (num den2 : Q) : nproot :=
  if Qeq_bool den2 0 then (if Qeq_bool num 0 then RNan else if Qle_bool 0 num then RPosInf else RNegInf)
  else RFin num den2.

Definition np_root_nan_to_num (v : nproot) : Q * Q :=
  match v with RFin n d => (n, d) | RNan => (0, 1) | RPosInf => (np_dbl_max, 1) | RNegInf => (- np_dbl_max, 1) end.

(* comparisons of the jit-compiled loops *)
Definition qgt (a b : Q) : bool := negb (Qle_bool a b).
Definition qlt (a b : Q) : bool := negb (Qle_bool b a).

(* ---- 4. sums over a counts dict ------------------------------------------------------------------ *)
Definition sum_items (f : Z -> Q -> Q) (m : list (Z * Q)) : Q :=
  fold_right Qplus 0 (map (fun kv => f (fst kv) (snd kv)) m).
Definition sum_values (f : Q -> Q) (m : list (Z * Q)) : Q := sum_items (fun _ v => f v) m.
Definition sum_keys (f : Z -> Q) (ks : list Z) : Q := fold_right Qplus 0 (map f ks).
Definition qlength {A} (l : list A) : Q := inject_Z (Z.of_nat (length l)).      (* len(d) *)

(* the generated definitions of Gen/MetricsSource.v register themselves here (Hint Unfold) *)
Create HintDb metric_src.

(* ---- unfolding lemmas ---------------------------------------------------------------------------- *)
Lemma oeq_refl a : oeq a a.
Proof. destruct a; simpl; [reflexivity | exact I]. Qed.

Lemma oeq_some x y : x == y -> oeq (Some x) (Some y).
Proof. intro H; exact H. Qed.

Lemma oeq2_some n d n' d' : n == n' -> d == d' -> oeq2 (Some (n, d)) (Some (n', d')).
Proof. intros H1 H2; split; assumption. Qed.

Lemma sum_items_ext (f g : Z -> Q -> Q) m : (forall k v, f k v == g k v) -> sum_items f m == sum_items g m.
Proof.
  intro H. unfold sum_items. induction m as [|[k v] m IH]; simpl; [reflexivity|]. rewrite H, IH. reflexivity.
Qed.
