(* Finite sets of integers as strictly increasing lists (what np.unique returns). *)
From Coq Require Import ZArith List Bool Lia Sorting.Sorted.
Import ListNotations.
Open Scope Z_scope.

Fixpoint zinsert (x : Z) (l : list Z) : list Z :=
  match l with
  | [] => [x]
  | y :: t => if x <? y then x :: l else if x =? y then l else y :: zinsert x t
  end.

(* np.unique *)
Definition usort (l : list Z) : list Z := fold_right zinsert [] l.

Fixpoint zmem (x : Z) (l : list Z) : bool :=
  match l with [] => false | y :: t => (x =? y) || zmem x t end.

Definition zunion (a b : list Z) : list Z := usort (a ++ b).             (* np.union1d *)
Definition zinter (a b : list Z) : list Z := filter (fun x => zmem x b) a.          (* np.intersect1d, unique inputs *)
Definition zdiff (a b : list Z) : list Z := filter (fun x => negb (zmem x b)) a.    (* np.setdiff1d, unique inputs *)
Definition zxor (a b : list Z) : list Z := usort (zdiff a b ++ zdiff b a).           (* np.setxor1d, unique inputs *)

Definition ssorted (l : list Z) : Prop := StronglySorted Z.lt l.

Lemma zmem_In x l : zmem x l = true <-> In x l.
Proof.
  induction l as [|y t IH]; simpl.
  - split; [discriminate | tauto].
  - rewrite orb_true_iff, IH, Z.eqb_eq. split; intros [H|H]; auto.
Qed.

Lemma zmem_false x l : zmem x l = false <-> ~ In x l.
Proof. rewrite <- zmem_In. destruct (zmem x l); intuition congruence. Qed.

Lemma In_zinsert y x l : In y (zinsert x l) <-> y = x \/ In y l.
Proof.
  induction l as [|z t IH]; simpl.
  - intuition.
  - destruct (x <? z) eqn:E1; simpl.
    + intuition.
    + destruct (x =? z) eqn:E2; simpl.
      * apply Z.eqb_eq in E2. subst. intuition.
      * rewrite IH. intuition.
Qed.

Lemma In_usort y l : In y (usort l) <-> In y l.
Proof.
  induction l as [|x t IH]; simpl; [tauto|].
  rewrite In_zinsert, IH. intuition.
Qed.

Lemma ssorted_zinsert x l : ssorted l -> ssorted (zinsert x l).
Proof.
  unfold ssorted. induction 1 as [|z t Ht IH Hall]; simpl.
  - constructor; constructor.
  - destruct (x <? z) eqn:E1.
    + apply Z.ltb_lt in E1. constructor; [constructor; assumption|].
      constructor; [assumption|]. rewrite Forall_forall in *. intros w Hw. specialize (Hall w Hw). lia.
    + destruct (x =? z) eqn:E2.
      * constructor; assumption.
      * apply Z.ltb_ge in E1. apply Z.eqb_neq in E2. constructor; [assumption|].
        rewrite Forall_forall in *. intros w Hw. apply In_zinsert in Hw. destruct Hw as [->|Hw]; [lia|auto].
Qed.

Lemma ssorted_usort l : ssorted (usort l).
Proof.
  induction l as [|x t IH]; simpl; [constructor | apply ssorted_zinsert; exact IH].
Qed.

Lemma ssorted_filter f l : ssorted l -> ssorted (filter f l).
Proof.
  unfold ssorted. induction 1 as [|z t Ht IH Hall]; simpl; [constructor|].
  destruct (f z); [|assumption].
  constructor; [assumption|]. rewrite Forall_forall in *. intros w Hw. apply filter_In in Hw. apply Hall. tauto.
Qed.

Lemma ssorted_ext a : forall b, ssorted a -> ssorted b -> (forall x, In x a <-> In x b) -> a = b.
Proof.
  unfold ssorted. induction a as [|x a IH]; intros b Ha Hb H.
  - destruct b as [|y b]; [reflexivity|]. exfalso. apply (H y). left; reflexivity.
  - destruct b as [|y b]; [exfalso; apply (H x); left; reflexivity|].
    inversion Ha as [|? ? Ha' Fa]; subst. inversion Hb as [|? ? Hb' Fb]; subst.
    rewrite Forall_forall in Fa, Fb.
    assert (x = y).
    { destruct (proj1 (H x) (or_introl eq_refl)) as [E|E]; [congruence|].
      destruct (proj2 (H y) (or_introl eq_refl)) as [E'|E']; [congruence|].
      specialize (Fa _ E'). specialize (Fb _ E). lia. }
    subst y. f_equal. apply IH; try assumption.
    intro z. split; intro Hz.
    + destruct (proj1 (H z) (or_intror Hz)) as [E|E]; [|assumption]. subst. specialize (Fa _ Hz). lia.
    + destruct (proj2 (H z) (or_intror Hz)) as [E|E]; [|assumption]. subst. specialize (Fb _ Hz). lia.
Qed.

Lemma usort_id l : ssorted l -> usort l = l.
Proof.
  intro H. apply ssorted_ext; [apply ssorted_usort | exact H | intro; apply In_usort].
Qed.

(* membership characterisations of the four set routines *)
Lemma In_zunion x a b : In x (zunion a b) <-> In x a \/ In x b.
Proof. unfold zunion. rewrite In_usort, in_app_iff. tauto. Qed.

Lemma In_zinter x a b : In x (zinter a b) <-> In x a /\ In x b.
Proof. unfold zinter. rewrite filter_In, zmem_In. tauto. Qed.

Lemma In_zdiff x a b : In x (zdiff a b) <-> In x a /\ ~ In x b.
Proof. unfold zdiff. rewrite filter_In, negb_true_iff, zmem_false. tauto. Qed.

Lemma In_zxor x a b : In x (zxor a b) <-> (In x a /\ ~ In x b) \/ (In x b /\ ~ In x a).
Proof. unfold zxor. rewrite In_usort, in_app_iff, !In_zdiff. tauto. Qed.

Lemma ssorted_zunion a b : ssorted (zunion a b).
Proof. apply ssorted_usort. Qed.
Lemma ssorted_zinter a b : ssorted a -> ssorted (zinter a b).
Proof. apply ssorted_filter. Qed.
Lemma ssorted_zdiff a b : ssorted a -> ssorted (zdiff a b).
Proof. apply ssorted_filter. Qed.
Lemma ssorted_zxor a b : ssorted (zxor a b).
Proof. apply ssorted_usort. Qed.

Lemma ssorted_NoDup l : ssorted l -> NoDup l.
Proof.
  unfold ssorted. induction 1 as [|z t Ht IH Hall]; constructor; [|assumption].
  intro Hin. rewrite Forall_forall in Hall. specialize (Hall _ Hin). lia.
Qed.

Lemma ssorted_bounds_map f l :
  (forall x y, x < y -> f x < f y) -> ssorted l -> ssorted (map f l).
Proof.
  intros Hf. unfold ssorted. induction 1 as [|z t Ht IH Hall]; simpl; constructor; [assumption|].
  rewrite Forall_forall in *. intros w Hw. apply in_map_iff in Hw. destruct Hw as [v [<- Hv]]. apply Hf. auto.
Qed.
