(* Entry points used by the generated correspondence cases of the M1 properties (C01-C04, C12, C17, C18). *)
From Coq Require Import QArith.
From E3FP Require Import Base.Prelude Base.ZSet Base.Murmur3 Model.Geometry Model.Stereo Model.Fprint Model.E3FP
  Gen.Constants Gen.AngleTable.
Open Scope Z_scope.

Definition FUEL : nat := Z.to_nat 20000.     (* > n^2 - n for every molecule of up to 141 retained atoms (run_terminates) *)

Definition runZ (o : opts) (m : mol ZD) : result state := run ZD e3fp_consts FUEL o m.

Definition shell_obs (s : shell) : Z * Z * list Z := (s_ident s, s_center s, s_sub s).

Definition obs_leb (a b : Z * Z * list Z) : bool :=
  let '(i1, c1, _) := a in let '(i2, c2, _) := b in (i1 <? i2) || ((i1 =? i2) && (c1 <=? c2)).

(* level_shells for levels 0 .. k, each as a list sorted by (identifier, centre) *)
Definition obs_levels (st : state) : list (list (Z * Z * list Z)) :=
  map (fun l => sort_by obs_leb (map shell_obs l)) (rev (st_shells st)).

Definition obs_eqb (a b : Z * Z * list Z) : bool :=
  let '(i1, c1, s1) := a in let '(i2, c2, s2) := b in (i1 =? i2) && (c1 =? c2) && list_eqb Z.eqb s1 s2.

(* the implementation's observation: current_level and every level's (identifier, centre, substructure) set *)
Definition check_run (o : opts) (m : mol ZD) (k : Z) (expected : list (list (Z * Z * list Z))) : bool :=
  match runZ o m with
  | Ok st => (st_k st =? k) && list_eqb (list_eqb obs_eqb) (obs_levels st) expected
  | Raises _ => false
  end.

Definition check_raises (o : opts) (m : mol ZD) (e : err) : bool :=
  match runZ o m with Ok _ => false | Raises e' => err_eqb e e' end.

Definition check_fp (o : opts) (m : mol ZD) (counts : bool) (bits : Z) (req : option Z) (mask : list Z) (expected : result fp) : bool :=
  match runZ o m with
  | Ok st => result_eqb fp_obs_eqb (fingerprint_query o counts bits st req mask) expected
  | Raises e => match expected with Raises e' => err_eqb e e' | _ => false end
  end.

(* one evaluation of the run, then the level observation and any number of fingerprint queries
   (counts, bits, requested level, atom mask, what the implementation returned) *)
Definition query := (bool * Z * option Z * list Z * result fp)%type.

Definition check_query (o : opts) (st : state) (q : query) : bool :=
  let '(counts, bits, req, mask, expected) := q in
  result_eqb fp_obs_eqb (fingerprint_query o counts bits st req mask) expected.

Definition check_all (o : opts) (m : mol ZD) (k : Z) (expected : list (list (Z * Z * list Z))) (qs : list query) : bool :=
  match runZ o m with
  | Ok st => (st_k st =? k) && list_eqb (list_eqb obs_eqb) (obs_levels st) expected && forallb (check_query o st) qs
  | Raises _ => false
  end.

(* what the model computes, for replay files *)
Definition show_run (o : opts) (m : mol ZD) : result (Z * list (list (Z * Z * list Z))) :=
  match runZ o m with Ok st => Ok (st_k st, obs_levels st) | Raises e => Raises e end.

(* ---- object histories (C04) ---- *)
From E3FP Require Import Model.Fprinter.

Definition frunZ := frun ZD e3fp_consts FUEL.
Definition frun_allZ := frun_all ZD e3fp_consts FUEL.
(* the seeded-bug variant of Model/Fprinter.v: used only by the refutation `stale_levels_without_reset` *)
Definition frun_noresetZ := frun_noreset ZD e3fp_consts FUEL.

(* level_shells[l], level_shells[l+1], ... (n entries) READ FROM THE OBJECT'S DICTIONARY, each as a list sorted by
   (identifier, centre); None if a key is missing *)
Fixpoint obs_dict (d : list (Z * list shell)) (l : Z) (n : nat) : option (list (list (Z * Z * list Z))) :=
  match n with
  | O => Some []
  | S n' => match dget l d, obs_dict d (l + 1) n' with
            | Some s, Some r => Some (sort_by obs_leb (map shell_obs s) :: r)
            | _, _ => None
            end
  end.

Definition check_object (f : fprinter ZD) (k : Z) (expected : list (list (Z * Z * list Z))) : bool :=
  match f_exn ZD f, f_cur ZD f with
  | None, Some c =>
    (c =? k) && (0 <=? k) &&
    match obs_dict (f_level_shells ZD f) 0 (S (Z.to_nat k)) with
    | Some ls => list_eqb (list_eqb obs_eqb) ls expected
    | None => false
    end
  | _, _ => false
  end.

(* after the history h (identity, molecule data at call time), the implementation's observation of the LAST run:
   current_level and level_shells[0..current_level] *)
Definition check_history (o : opts) (h : list (Z * mol ZD)) (k : Z) (expected : list (list (Z * Z * list Z))) : bool :=
  check_object (frun_allZ (new_fprinter ZD o) h) k expected.

(* ... and the KEYS of the implementation's level_shells dictionary (any order): a level left over from an earlier
   conformer shows up here *)
Definition keys_agree (f : fprinter ZD) (keys : list Z) : bool :=
  list_eqb Z.eqb (usort (map fst (f_level_shells ZD f))) (usort keys) &&
  Nat.eqb (length (f_level_shells ZD f)) (length keys).

Definition check_history_keys (o : opts) (h : list (Z * mol ZD)) (k : Z) (expected : list (list (Z * Z * list Z)))
    (keys : list Z) : bool :=
  let f := frun_allZ (new_fprinter ZD o) h in
  check_object f k expected && keys_agree f keys.

(* ... and any number of get_fingerprint_at_level queries on the object after the history (explicit levels beyond
   current_level included), answered by the model through its dictionary *)
Definition check_fquery (f : fprinter ZD) (q : query) : bool :=
  let '(counts, bits, req, mask, expected) := q in
  result_eqb fp_obs_eqb (fquery ZD f counts bits req mask) expected.

Definition check_history_queries (o : opts) (h : list (Z * mol ZD)) (k : Z) (expected : list (list (Z * Z * list Z)))
    (keys : list Z) (qs : list query) : bool :=
  let f := frun_allZ (new_fprinter ZD o) h in
  check_object f k expected && keys_agree f keys && forallb (check_fquery f) qs.
