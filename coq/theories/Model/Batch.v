(* M7 - batch driver: e3fp.fingerprint.generate.run / fprints_dict_from_sdf, and the output-file rule shared with
   e3fp.conformer.generate.generate_conformers(save=True).

   Inputs are SDF files with a status: `Fails` (mol_from_sdf raises or returns None) or `Loads name loop` where `name`
   is the molecule's effective name and `loop` the result of the conformer loop of fprints_dict_from_mol (model M6:
   `Raises` = any exception inside the loop, which the code turns into {}).  What is modelled here, line by line:
     * the worker fprints_dict_from_sdf -> fprints_dict_from_mol(save = out_dir_base is not None): name check, file
       names, the all-files-exist / overwrite rule, the save block (Model/Pipeline.v: filenames, save_dict); anything
       that escapes the worker is turned into the fail value False by Parallelizer;
     * the collection loop of run(): result.get(level, result[max(result.keys())]) with
       AttributeError (False has no .get) / ValueError (max of {}) -> skip; database assembly
       FingerprintDatabase(fp_type=type(fprints[0]), level=level) + add_fingerprints + savez, only if len(fprints) > 0;
     * results are consumed in *completion order*: `run` takes that order as its argument (any permutation of the inputs);
     * the output directory is a finite map (level_dir, file) -> content; workers act on it one after the other in
       completion order (adequate for concurrent workers when no two inputs share an output path); a molecule is skipped
       when all its files exist and overwrite is off, and since repair e0cef96 a molecule that is recomputed writes only
       those of its level files that do not exist yet (unless overwrite);
     * an interrupted run: every input may have performed any prefix of its own writes (run_partial), of which a crash
       after the first k writes of a serial run is a special case (run_interrupted);
     * generate_conformers(save=True): the same rule with a single output file (cg_step).
   The abstract machine the theorems are about is `job` / run_job / run_jobs; worker_job maps an input to its job. *)
From E3FP Require Import Base.Prelude Model.Fprint Model.Pipeline.
Open Scope Z_scope.

Section Batch.
  Variable content : Type.
  Variable pickle : list fp -> content.

  (* ---- the abstract output-file machine ------------------------------------------------------------------------ *)
  (* a job: the files whose presence decides skip-vs-compute, and the writes it performs (in order) when it runs *)
  Record job := mkjob { j_files : list path; j_plan : list (path * content) }.

  Definition job_skips (overwrite : bool) (fs : fsmap content) (j : job) : bool :=
    forallb (fs_isfile fs) (j_files j) && negb overwrite.

  (* a planned write is carried out unless its file exists and overwrite is off (fs_keep:
     `if os.path.isfile(filenames[i]) and not overwrite: continue`, repair e0cef96; for a single-file job that is not
     skipped the test is vacuous) *)
  Definition job_writes (overwrite : bool) (fs : fsmap content) (j : job) : list (path * content) :=
    if job_skips overwrite fs j then [] else filter (fs_keep overwrite fs) (j_plan j).

  Definition run_job (overwrite : bool) (fs : fsmap content) (j : job) : fsmap content :=
    fs_writes fs (job_writes overwrite fs j).

  Definition run_jobs (overwrite : bool) (fs : fsmap content) (js : list job) : fsmap content :=
    fold_left (run_job overwrite) js fs.

  (* the paths written, in order *)
  Definition job_log (overwrite : bool) (fs : fsmap content) (j : job) : list path :=
    map fst (job_writes overwrite fs j).

  Fixpoint run_log (overwrite : bool) (fs : fsmap content) (js : list job) : list path :=
    match js with
    | [] => []
    | j :: t => job_log overwrite fs j ++ run_log overwrite (run_job overwrite fs j) t
    end.

  (* a job interrupted after k of its writes *)
  Definition partial_job (overwrite : bool) (fs : fsmap content) (jk : job * nat) : fsmap content :=
    fs_writes fs (firstn (snd jk) (job_writes overwrite fs (fst jk))).

  Definition run_partial (overwrite : bool) (fs : fsmap content) (jks : list (job * nat)) : fsmap content :=
    fold_left (partial_job overwrite) jks fs.

  (* a serial run that crashes after k writes in total *)
  Fixpoint run_interrupted (overwrite : bool) (fs : fsmap content) (js : list job) (k : nat) : fsmap content :=
    match js with
    | [] => fs
    | j :: t =>
      let ws := job_writes overwrite fs j in
      if (length ws <=? k)%nat then run_interrupted overwrite (fs_writes fs ws) t (k - length ws)
      else fs_writes fs (firstn k ws)
    end.

  (* ---- the fingerprint batch ------------------------------------------------------------------------------------ *)
  Record config := mkcfg {
    c_level : Z; c_all_iters : bool; c_base : option string; c_ext : string; c_overwrite : bool }.

  Inductive input := Loads (name : option string) (loop : result fdict) | Fails.
  Inductive wresult := WFalse | WDict (d : fdict).

  (* the files fprints_dict_from_mol looks at, for a named molecule *)
  Definition mol_files (cfg : config) (nm : string) : result (list path) :=
    filenames (c_base cfg) (c_level cfg) (c_all_iters cfg) nm (c_ext cfg).

  (* what the save block would write for the dict d (Model/Pipeline.v: save_dict) when no file exists, as a list of
     writes; in the all_iters branch the writes whose file exists are left out unless overwrite (mol_step) *)
  Definition save_plan (files : list path) (level : Z) (all_iters : bool) (d : fdict) : result (list (path * content)) :=
    if single_level level all_iters then
      match dict_max_key d, files with
      | None, _ => Raises EValue
      | Some mk, f0 :: _ => match dict_get d mk with Some l => Ok [(f0, pickle l)] | None => Raises EKey end
      | Some _, [] => Raises EIndex
      end
    else
      Ok (flat_map (fun f_i => match dict_get d (snd f_i) with Some l => [(fst f_i, pickle l)] | None => [] end)
                   (combine files (zrange (level + 1)))).

  (* fprints_dict_from_mol with the conformer loop abstracted (save = out_dir_base is not None), then Parallelizer's
     conversion of an escaping exception into False *)
  Definition mol_step (cfg : config) (fs : fsmap content) (name : option string) (loop : result fdict)
    : wresult * fsmap content :=
    match c_base cfg with
    | None => (WDict (match loop with Ok d => d | Raises _ => [] end), fs)
    | Some _ =>
      match name with
      | None => (WFalse, fs)                                   (* ValueError: cannot save an unnamed molecule *)
      | Some nm =>
        match mol_files cfg nm with
        | Raises _ => (WFalse, fs)
        | Ok files =>
          if forallb (fs_isfile fs) files && negb (c_overwrite cfg) then (WDict [], fs)
          else match loop with
               | Raises _ => (WDict [], fs)
               | Ok d => match save_plan files (c_level cfg) (c_all_iters cfg) d with
                         | Ok ws =>
                           (WDict d, fs_writes fs (if single_level (c_level cfg) (c_all_iters cfg) then ws
                                                   else filter (fs_keep (c_overwrite cfg) fs) ws))
                         | Raises _ => (WFalse, fs)
                         end
               end
        end
      end
    end.

  Definition worker (cfg : config) (fs : fsmap content) (i : input) : wresult * fsmap content :=
    match i with
    | Fails => (WFalse, fs)
    | Loads name loop => mol_step cfg fs name loop
    end.

  (* the job of an input (what worker does to the directory) *)
  Definition worker_job (cfg : config) (i : input) : job :=
    match c_base cfg, i with
    | Some _, Loads (Some nm) loop =>
      match mol_files cfg nm with
      | Ok files =>
        mkjob files (match loop with
                     | Ok d => match save_plan files (c_level cfg) (c_all_iters cfg) d with Ok ws => ws | Raises _ => [] end
                     | Raises _ => []
                     end)
      | Raises _ => mkjob [] []
      end
    | _, _ => mkjob [] []
    end.

  (* result.get(level, result[max(result.keys())]) under try/except (AttributeError, ValueError): continue *)
  Definition rows_of (level : Z) (r : wresult) : list fp :=
    match r with
    | WFalse => []
    | WDict d =>
      match dict_max_key d with
      | None => []
      | Some mk =>
        match dict_get d level with
        | Some l => l
        | None => match dict_get d mk with Some l => l | None => [] end
        end
      end
    end.

  Definition collect (level : Z) (rs : list wresult) : list fp :=
    fold_left (fun acc r => acc ++ rows_of level r) rs [].

  Record fpdb := mkdb { db_kind : kind; db_level : Z; db_rows : list fp }.

  Definition assemble (level : Z) (fprints : list fp) : option fpdb :=
    match fprints with
    | [] => None                                                (* len(fprints) > 0 is false: nothing is saved *)
    | x :: _ => Some (mkdb (fkind x) level fprints)
    end.

  Fixpoint run_workers (cfg : config) (fs : fsmap content) (order : list input) : list wresult * fsmap content :=
    match order with
    | [] => ([], fs)
    | i :: t =>
      let (r, fs') := worker cfg fs i in
      let (rs, fs'') := run_workers cfg fs' t in
      (r :: rs, fs'')
    end.

  (* run(): `order` = the inputs in completion order; db_file given or not *)
  Definition run (cfg : config) (fs : fsmap content) (order : list input) (db_file : bool)
    : option fpdb * fsmap content :=
    let (rs, fs') := run_workers cfg fs order in
    ((if db_file then assemble (c_level cfg) (collect (c_level cfg) rs) else None), fs').

  (* ---- conformer generation: generate_conformers(save=True) ---------------------------------------------------- *)
  (* gen = the SDF text mol_to_sdf would write, None if generation raises *)
  Definition cg_step (overwrite : bool) (fs : fsmap content) (out_file : path) (gen : option content)
    : bool * fsmap content :=                                   (* (returned something other than False, files) *)
    if fs_isfile fs out_file && negb overwrite then (false, fs)
    else match gen with
         | Some c => (true, fs_write fs (out_file, c))
         | None => (false, fs)
         end.

  Definition cg_job (out_file : path) (gen : option content) : job :=
    mkjob [out_file] (match gen with Some c => [(out_file, c)] | None => [] end).
End Batch.

Arguments mkjob {content}.
Arguments j_files {content}.
Arguments j_plan {content}.
Arguments job_skips {content}.
Arguments job_writes {content}.
Arguments run_job {content}.
Arguments run_jobs {content}.
Arguments job_log {content}.
Arguments run_log {content}.
Arguments partial_job {content}.
Arguments run_partial {content}.
Arguments run_interrupted {content}.
Arguments mkdb.
Arguments WFalse.
Arguments WDict.

(* ---- instances evaluated by the generated cases ------------------------------------------------------------------ *)
Definition x_run (cfg : config) (fs : fsmap fcontent) (order : list input) (db_file : bool) :=
  run fcontent Pickled cfg fs order db_file.

Definition db_eqb (a b : option fpdb) : bool :=
  option_eqb (fun x y => kind_eqb (db_kind x) (db_kind y) && (db_level x =? db_level y)
                         && list_eqb fp_obs_eqb (db_rows x) (db_rows y)) a b.

(* the paths the run writes (in the model's serial order) *)
Definition x_log (cfg : config) (fs : fsmap fcontent) (order : list input) : list path :=
  run_log (c_overwrite cfg) fs (map (worker_job fcontent Pickled cfg) order).
Definition paths_subset (a b : list path) : bool := forallb (fun p => existsb (path_eqb p) b) a.
Definition paths_disjoint (a b : list path) : bool := forallb (fun p => negb (existsb (path_eqb p) b)) a.

(* conformer files: the directory after a sequence of generate_conformers calls *)
Fixpoint x_cg_run (overwrite : bool) (fs : fsmap fcontent) (calls : list (path * option fcontent)) : list bool * fsmap fcontent :=
  match calls with
  | [] => ([], fs)
  | (p, g) :: t =>
    let (r, fs') := cg_step fcontent overwrite fs p g in
    let (rs, fs'') := x_cg_run overwrite fs' t in
    (r :: rs, fs'')
  end.
