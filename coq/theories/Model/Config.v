(* M9 - configuration: e3fp.config.params (read_params / write_params / update_params / get_value /
   params_to_sections_dict) and e3fp.pipeline.params_to_dicts, over Python's configparser.ConfigParser
   (default construction: delimiters '=' ':', comment prefixes '#' ';', no inline comments, strict,
   empty_lines_in_values, BasicInterpolation, optionxform = str.lower) and ast.literal_eval.

   Strings are Coq [string]s over the *modelled alphabet*: printable ASCII 0x20-0x7e, TAB and (inside option
   values and file texts) LF.  Everything outside is answered [CUnmodelled] by the classifier.

   The classifier [classify] is three-valued on purpose: a scalar class, "certainly stays a string" ([CStr]),
   or [CUnmodelled] (the string may or may not be a literal of a non-scalar type: the model makes no claim).
   It is validated against the real ast.literal_eval by the correspondence on every run.

   No proofs in this file. *)
From Coq Require Import Ascii NArith QArith Qabs.
From E3FP Require Import Base.Prelude.
Open Scope Z_scope.

(* ------------------------------------------------------------------------------------------------ characters *)
Definition cn (c : ascii) : Z := Z.of_N (N_of_ascii c).
Definition in_range (lo hi : Z) (c : ascii) : bool := (lo <=? cn c) && (cn c <=? hi).
Definition ch (n : Z) (c : ascii) : bool := cn c =? n.
Definition chr (n : Z) : ascii := ascii_of_N (Z.to_N n).

Definition is_digit : ascii -> bool := in_range 48 57.
Definition is_upper : ascii -> bool := in_range 65 90.
Definition is_lower : ascii -> bool := in_range 97 122.
Definition is_alpha (c : ascii) : bool := is_upper c || is_lower c.
Definition is_ident_start (c : ascii) : bool := is_alpha c || ch 95 c.
Definition is_ident_char (c : ascii) : bool := is_ident_start c || is_digit c.
(* str.isspace restricted to ASCII: \t \n \v \f \r, 0x1c-0x1f, space *)
Definition is_space (c : ascii) : bool := in_range 9 13 c || in_range 28 32 c.
(* the modelled alphabet *)
Definition is_modelled (c : ascii) : bool := in_range 32 126 c || ch 9 c.
Definition is_blank (c : ascii) : bool := ch 32 c || ch 9 c.
Definition lower_char (c : ascii) : ascii := if is_upper c then chr (cn c + 32) else c.

Definition c_nl : ascii := chr 10.
Definition c_tab : ascii := chr 9.
Definition nl : string := String c_nl EmptyString.

(* ------------------------------------------------------------------------------------------------ strings *)
Fixpoint sall (p : ascii -> bool) (s : string) : bool :=
  match s with EmptyString => true | String c t => p c && sall p t end.
Fixpoint sexists (p : ascii -> bool) (s : string) : bool :=
  match s with EmptyString => false | String c t => p c || sexists p t end.
Fixpoint span (p : ascii -> bool) (s : string) : string * string :=
  match s with
  | EmptyString => (EmptyString, EmptyString)
  | String c t => if p c then let (a, b) := span p t in (String c a, b) else (EmptyString, s)
  end.
Fixpoint smap (f : ascii -> ascii) (s : string) : string :=
  match s with EmptyString => EmptyString | String c t => String (f c) (smap f t) end.
Definition lower : string -> string := smap lower_char.       (* str.lower on ASCII *)
Definition slen (s : string) : Z := Z.of_nat (String.length s).
Definition sempty (s : string) : bool := match s with EmptyString => true | _ => false end.
Definition shead (p : ascii -> bool) (s : string) : bool := match s with String c _ => p c | EmptyString => false end.

Fixpoint lstrip (s : string) : string :=
  match s with String c t => if is_space c then lstrip t else s | EmptyString => EmptyString end.
Fixpoint rstrip (s : string) : string :=
  match s with
  | EmptyString => EmptyString
  | String c t => match rstrip t with
                  | EmptyString => if is_space c then EmptyString else String c EmptyString
                  | t' => String c t'
                  end
  end.
Definition strip (s : string) : string := rstrip (lstrip s).

Fixpoint sconcat (l : list string) : string :=
  match l with [] => EmptyString | x :: t => (x ++ sconcat t)%string end.
Fixpoint sjoin (sep : string) (l : list string) : string :=
  match l with [] => EmptyString | [x] => x | x :: t => (x ++ sep ++ sjoin sep t)%string end.
(* str.split(sep) for a one-character separator: always at least one piece *)
Fixpoint split_on (sep : ascii) (s : string) : list string :=
  match s with
  | EmptyString => [EmptyString]
  | String c t => let r := split_on sep t in
                  if Ascii.eqb c sep then EmptyString :: r
                  else match r with h :: tl => String c h :: tl | [] => [String c EmptyString] end
  end.
(* value.replace('\n', '\n\t') *)
Fixpoint replace_nl (s : string) : string :=
  match s with
  | EmptyString => EmptyString
  | String c t => if Ascii.eqb c c_nl then String c_nl (String c_tab (replace_nl t)) else String c (replace_nl t)
  end.
Definition has_nl (s : string) : bool := sexists (fun c => Ascii.eqb c c_nl) s.

(* ------------------------------------------------------------------------------------------------ decimal *)
Definition digit_char (d : Z) : ascii := chr (48 + d).
Definition digit_val (c : ascii) : Z := cn c - 48.

Fixpoint dec_fuel (fuel : nat) (n : Z) (acc : string) : string :=
  match fuel with
  | O => acc
  | S f => let acc' := String (digit_char (n mod 10)) acc in
           if n <? 10 then acc' else dec_fuel f (n / 10) acc'
  end.
(* str(n) for n >= 0 *)
Definition dec_nat (n : Z) : string := dec_fuel (S (Z.to_nat (Z.log2 n))) n EmptyString.
(* str(z) *)
Definition dec_Z (z : Z) : string := if z <? 0 then String "-" (dec_nat (- z)) else dec_nat z.

Fixpoint digits_val (s : string) (acc : Z) : Z :=
  match s with EmptyString => acc | String c t => digits_val t (acc * 10 + digit_val c) end.

(* CPython's limit on int <-> decimal str conversion (sys.get_int_max_str_digits(); tied to the interpreter
   by Gen/Defaults.v + Properties/C20.v int_limit_current) *)
Definition max_str_digits : Z := 4300.
Definition int_limit : Z := 10 ^ max_str_digits.

(* ------------------------------------------------------------------------------------------------ values *)
(* the supported scalar option types; a float is carried as its repr token *)
Inductive value := VInt (z : Z) | VFloat (tok : string) | VBool (b : bool) | VNone | VStr (s : string).

(* str(value); ints beyond the conversion limit raise ValueError *)
Definition py_str (v : value) : result string :=
  match v with
  | VInt z => if int_limit <=? Z.abs z then Raises EValue else Ok (dec_Z z)
  | VFloat t => Ok t
  | VBool true => Ok "True"%string
  | VBool false => Ok "False"%string
  | VNone => Ok "None"%string
  | VStr s => Ok s
  end.

(* shape of a float token: [-] int [. frac] [e (+|-) exp]; repr(float) of a finite float always has this shape
   (with a fraction or an exponent or both) *)
Record ftok := mkftok { fneg : bool; fint : string; ffrac : option string; fexp : option (bool * string) }.
Definition render_ftok (t : ftok) : string :=
  ((if fneg t then "-" else "") ++ fint t ++
   (match ffrac t with Some f => "." ++ f | None => "" end) ++
   (match fexp t with Some (neg, e) => "e" ++ (if neg then "-" else "+") ++ e | None => "" end))%string.
Definition digits_ok (s : string) : bool := negb (sempty s) && sall is_digit s.
Definition ftok_ok (t : ftok) : bool :=
  digits_ok (fint t) &&
  (match ffrac t with Some f => digits_ok f | None => true end) &&
  (match fexp t with Some (_, e) => digits_ok e | None => true end) &&
  (match ffrac t, fexp t with None, None => false | _, _ => true end).

(* ------------------------------------------------------------------------------------------------ numbers *)
(* digitpart ::= digit (["_"] digit)* ; returns the digits (underscores dropped) and the rest *)
Fixpoint dp_tail (p : ascii -> bool) (s : string) : string * string :=
  match s with
  | EmptyString => (EmptyString, EmptyString)
  | String c t =>
      if p c then let (d, r) := dp_tail p t in (String c d, r)
      else if ch 95 c then
        match t with
        | String c2 t2 => if p c2 then let (d, r) := dp_tail p t2 in (String c2 d, r) else (EmptyString, s)
        | EmptyString => (EmptyString, s)
        end
      else (EmptyString, s)
  end.
Definition scan_dp (p : ascii -> bool) (s : string) : option (string * string) :=
  match s with
  | String c t => if p c then let (d, r) := dp_tail p t in Some (String c d, r) else None
  | EmptyString => None
  end.
(* optional digitpart *)
Definition scan_dp_opt (s : string) : string * string :=
  match scan_dp is_digit s with Some x => x | None => (EmptyString, s) end.

Definition is_hex (c : ascii) : bool := is_digit c || in_range 65 70 c || in_range 97 102 c.
Definition hex_val (c : ascii) : Z :=
  if is_digit c then digit_val c else if in_range 65 70 c then cn c - 55 else cn c - 87.
Fixpoint radix_val (b : Z) (s : string) (acc : Z) : Z :=
  match s with EmptyString => acc | String c t => radix_val b t (acc * b + hex_val c) end.

Inductive num :=
| NDigits (ds : string)                        (* a bare digitpart *)
| NRadix (z : Z)                               (* 0x / 0o / 0b integer *)
| NFloat (ip fp : string) (e : Z)              (* pointfloat / exponentfloat: ip.fp * 10^e *)
| NImag
| NNone.

Definition is_e (c : ascii) : bool := ch 101 c || ch 69 c.
Definition is_j (c : ascii) : bool := ch 106 c || ch 74 c.

(* exponent ::= (e|E) [+|-] digitpart, then end or j; [s] starts after the e *)
Definition scan_exponent (ip fp s : string) : num :=
  let '(neg, s1) := match s with
                    | String c t => if ch 45 c then (true, t) else if ch 43 c then (false, t) else (false, s)
                    | EmptyString => (false, s)
                    end in
  match scan_dp is_digit s1 with
  | Some (ed, r) =>
      match r with
      | EmptyString => NFloat ip fp (if neg then - digits_val ed 0 else digits_val ed 0)
      | String c EmptyString => if is_j c then NImag else NNone
      | _ => NNone
      end
  | None => NNone
  end.

Definition after_mantissa (ip fp r : string) : num :=
  match r with
  | EmptyString => NFloat ip fp 0
  | String c r' => if is_e c then scan_exponent ip fp r'
                   else if is_j c && sempty r' then NImag else NNone
  end.

(* decinteger / floatnumber / imagnumber of the Python lexical grammar; whole-string match *)
Definition decimal_number (s : string) : num :=
  let (ip, r1) := scan_dp_opt s in
  match r1 with
  | EmptyString => if sempty ip then NNone else NDigits ip
  | String c r2 =>
      if ch 46 c then
        let (fp, r3) := scan_dp_opt r2 in
        if sempty ip && sempty fp then NNone else after_mantissa ip fp r3
      else if sempty ip then NNone
      else if is_e c then scan_exponent ip EmptyString r2
      else if is_j c && sempty r2 then NImag
      else NNone
  end.

Definition radix_number (p : ascii -> bool) (b : Z) (t : string) : num :=
  let t' := match t with String c r => if ch 95 c then r else t | EmptyString => t end in
  match scan_dp p t' with
  | Some (ds, EmptyString) => NRadix (radix_val b ds 0)
  | _ => NNone
  end.

Definition number (s : string) : num :=
  match s with
  | String c0 (String x t) =>
      if ch 48 c0 then
        if ch 120 x || ch 88 x then radix_number is_hex 16 t
        else if ch 111 x || ch 79 x then radix_number (in_range 48 55) 8 t
        else if ch 98 x || ch 66 x then radix_number (in_range 48 49) 2 t
        else decimal_number s
      else decimal_number s
  | _ => decimal_number s
  end.

(* float values as far as the comparison with the implementation needs them *)
Inductive fval := FFin (q : Q) | FPInf | FNInf | FNaN.

Definition dbl_overflow : Q := inject_Z (2 ^ 1024 - 2 ^ 970).   (* decimal values >= this round to inf *)
Definition pow10Q (e : Z) : Q := if e <? 0 then Qmake 1 (Z.to_pos (10 ^ (- e))) else inject_Z (10 ^ e).

(* value of ip.fp * 10^e (sign applied by the caller) *)
Definition mant_value (neg : bool) (ip fp : string) (e : Z) : fval :=
  let m := digits_val (ip ++ fp)%string 0 in
  let ex := e - slen fp in
  let nd := slen ip + slen fp in
  if m =? 0 then FFin 0%Q
  else if 400 <? ex then (if neg then FNInf else FPInf)
  else if ex + nd <? -400 then FFin 0%Q
  else let q := (inject_Z m * pow10Q ex)%Q in
       if Qle_bool dbl_overflow q then (if neg then FNInf else FPInf)
       else FFin (if neg then Qopp q else q).

Definition fval_close (a b : fval) : bool :=
  match a, b with
  | FFin x, FFin y => Qle_bool (Qabs (x - y)) (Qabs y * Qmake 1 (2 ^ 52) + Qmake 1 (2 ^ 1074))
  | FPInf, FPInf | FNInf, FNInf | FNaN, FNaN => true
  | _, _ => false
  end.

Fixpoint skip_blank (s : string) : string :=
  match s with String c t => if is_blank c then skip_blank t else s | EmptyString => EmptyString end.

(* sign prefix as literal_eval sees it: one + or -, optional blanks *)
Definition split_sign (s : string) : option bool * string :=
  match s with
  | String c t => if ch 45 c then (Some true, skip_blank t) else if ch 43 c then (Some false, skip_blank t) else (None, s)
  | EmptyString => (None, s)
  end.

(* value of a string the classifier answered CFloat for *)
Definition float_value (tok : string) : fval :=
  let (sg, body) := split_sign tok in
  let neg := match sg with Some true => true | _ => false end in
  match number body with
  | NFloat ip fp e => mant_value neg ip fp e
  | NDigits ds => mant_value neg ds EmptyString 0
  | _ => FNaN
  end.

(* ------------------------------------------------------------------------------------------------ literal_eval *)
Inductive cls :=
| CInt (z : Z)
| CFloat (tok : string)       (* the token; its value is [float_value tok] *)
| CBool (b : bool)
| CNone
| CStr (s : string)           (* literal_eval raises (ValueError, SyntaxError; also TypeError, MemoryError,
                                 RecursionError since edaa6d4): get_value returns the string *)
| COtherLit                   (* a literal of another type (imaginary number, Ellipsis) *)
| CUnmodelled.                (* outside the modelled fragment *)

(* decimal integer literal rule: no leading zeros unless all zeros; conversion limit *)
Definition int_literal (ds : string) : option Z :=
  if sall (ch 48) ds then Some 0
  else if shead (ch 48) ds then None
  else let z := digits_val ds 0 in if z <? int_limit then Some z else None.

Definition sgn (sg : option bool) (z : Z) : Z := match sg with Some true => - z | _ => z end.

(* [s] = optional sign + number, as a whole; None = not of that form *)
Definition classify_number (whole : string) (sg : option bool) (body : string) : option cls :=
  match number body with
  | NDigits ds => match int_literal ds with Some z => Some (CInt (sgn sg z)) | None => Some (CStr whole) end
  | NRadix z => Some (CInt (sgn sg z))
  | NFloat _ _ _ => Some (CFloat whole)
  | NImag => Some COtherLit
  | NNone => None
  end.

(* ---- a number token followed by something: enough of the tokenizer to give most such strings a verdict ---- *)
(* the rest after the longest number token at the start of s; None when s does not start with one *)
Definition exponent_rest (s : string) : option string :=          (* s starts after the e *)
  let s1 := match s with String c t => if ch 45 c || ch 43 c then t else s | EmptyString => s end in
  match scan_dp is_digit s1 with Some (_, r) => Some r | None => None end.
Definition imag_rest (r : string) : string :=
  match r with String c t => if is_j c then t else r | EmptyString => r end.
Definition after_mantissa_rest (r : string) : string :=
  match r with
  | String c r' => if is_e c then match exponent_rest r' with Some r2 => imag_rest r2 | None => r end else imag_rest r
  | EmptyString => r
  end.
Definition decimal_prefix (s : string) : option string :=
  let (ip, r1) := scan_dp_opt s in
  match r1 with
  | String c r2 =>
      if ch 46 c then let (fp, r3) := scan_dp_opt r2 in
                      if sempty ip && sempty fp then None else Some (after_mantissa_rest r3)
      else if sempty ip then None else Some (after_mantissa_rest r1)
  | EmptyString => if sempty ip then None else Some r1
  end.
Definition radix_prefix (p : ascii -> bool) (t : string) : option string :=
  let t' := match t with String c r => if ch 95 c then r else t | EmptyString => t end in
  match scan_dp p t' with Some (_, r) => Some r | None => None end.
Definition number_prefix (s : string) : option string :=
  match s with
  | String c0 (String x t) =>
      let rr := if ch 48 c0 then
                  if ch 120 x || ch 88 x then radix_prefix is_hex t
                  else if ch 111 x || ch 79 x then radix_prefix (in_range 48 55) t
                  else if ch 98 x || ch 66 x then radix_prefix (in_range 48 49) t
                  else None
                else None in
      match rr with Some r => Some r | None => decimal_prefix s end
  | _ => decimal_prefix s
  end.
(* a number token followed by [rest]: only "," (tuple), "#" (comment), "+"/"-" (complex) can continue a literal;
   anything else makes the expression a SyntaxError or a node literal_eval rejects *)
Definition classify_after_number (whole body : string) : cls :=
  match number_prefix body with
  | None => CUnmodelled
  | Some rest =>
      match skip_blank rest with
      | EmptyString => CUnmodelled
      | String c _ => if ch 44 c || ch 35 c || ch 43 c || ch 45 c then CUnmodelled else CStr whole
      end
  end.

(* characters that cannot start a Python expression (single-line source): SyntaxError; and ~ (ValueError) *)
Definition never_starts_literal (c : ascii) : bool :=
  ch 33 c || ch 35 c || ch 36 c || ch 37 c || ch 38 c || ch 41 c || ch 42 c || ch 44 c || ch 47 c ||
  ch 58 c || ch 59 c || ch 60 c || ch 61 c || ch 62 c || ch 63 c || ch 64 c || ch 92 c || ch 93 c ||
  ch 94 c || ch 96 c || ch 124 c || ch 125 c || ch 126 c.

Definition is_quote (c : ascii) : bool := ch 39 c || ch 34 c.

Definition classify_ident (s : string) : cls :=
  let (tok, rest) := span is_ident_char s in
  let rest' := skip_blank rest in
  if String.eqb tok "True" || String.eqb tok "False" || String.eqb tok "None" then
    match rest' with
    | EmptyString => if String.eqb tok "True" then CBool true else if String.eqb tok "False" then CBool false else CNone
    | String c _ => if ch 44 c || ch 35 c then CUnmodelled else CStr s
    end
  else if shead is_quote rest then CUnmodelled                        (* string prefix: r'..', b"..", f'..' *)
  else if String.eqb tok "set" && shead (ch 40) rest' then CUnmodelled (* set() *)
  else CStr s.

(* ast.literal_eval(s) as used by get_value(auto=True), for a value as configparser returns it *)
Definition classify (s : string) : cls :=
  if negb (sall is_modelled s) then CUnmodelled else
  match s with
  | EmptyString => CStr s
  | String c t =>
      if is_ident_start c then classify_ident s
      else if is_digit c then
        match classify_number s None s with Some r => r | None => classify_after_number s s end
      else if ch 46 c then
        if shead is_digit t then match classify_number s None s with Some r => r | None => classify_after_number s s end
        else match t with
             | String c2 (String c3 t3) =>
                 if ch 46 c2 && ch 46 c3 then (if sempty t3 then COtherLit else CUnmodelled) else CStr s
             | _ => CStr s
             end
      else if ch 45 c || ch 43 c then
        let body := skip_blank t in
        if shead is_ident_start body then CStr s
        else if shead is_digit body || (shead (ch 46) body && shead is_digit (match body with String _ b => b | EmptyString => body end)) then
          match classify_number s (Some (ch 45 c)) body with Some r => r | None => classify_after_number s body end
        else match body with
             | EmptyString => CStr s                                              (* a lone sign: SyntaxError *)
             | String c2 _ => if ch 45 c2 || ch 43 c2 || ch 46 c2 || never_starts_literal c2 then CStr s   (* --5, +., -~1: rejected *)
                              else CUnmodelled                                  (* sign + quote / bracket *)
             end
      else if never_starts_literal c then CStr s
      else CUnmodelled
  end.

(* class of a value of a supported type *)
Definition cls_of (v : value) : cls :=
  match v with VInt z => CInt z | VFloat t => CFloat t | VBool b => CBool b | VNone => CNone | VStr s => CStr s end.

Definition cls_eqb (a b : cls) : bool :=
  match a, b with
  | CInt x, CInt y => x =? y
  | CFloat x, CFloat y => String.eqb x y
  | CBool x, CBool y => Bool.eqb x y
  | CNone, CNone | COtherLit, COtherLit | CUnmodelled, CUnmodelled => true
  | CStr x, CStr y => String.eqb x y
  | _, _ => false
  end.

(* "plain words": file names, force-field names, identifiers ... *)
Definition is_plain_char (c : ascii) : bool := is_ident_char c || ch 46 c || ch 47 c || ch 45 c.
Definition dots_prefix (s : string) : bool :=
  match s with String a (String b (String c _)) => ch 46 a && ch 46 b && ch 46 c | _ => false end.
Definition plain_word (s : string) : bool :=
  match s with
  | EmptyString => false
  | String c t =>
      sall is_plain_char s &&
      (is_alpha c || ch 47 c || (ch 46 c && negb (shead is_digit t) && negb (dots_prefix s))) &&
      negb (String.eqb s "True" || String.eqb s "False" || String.eqb s "None")
  end.

(* ------------------------------------------------------------------------------------------------ typed getters *)
(* int(s) as configparser.getint calls it; None = ValueError *)
Definition py_int (s : string) : option Z :=
  let s := strip s in
  let '(sg, body) := match s with
                     | String c t => if ch 45 c then (Some true, t) else if ch 43 c then (Some false, t) else (None, s)
                     | EmptyString => (None, s)
                     end in
  match scan_dp is_digit body with
  | Some (ds, EmptyString) => if max_str_digits <? slen ds then None else Some (sgn sg (digits_val ds 0))
  | _ => None
  end.

(* float(s); None = ValueError *)
Definition py_float (s : string) : option fval :=
  let s := strip s in
  let '(neg, body) := match s with
                      | String c t => if ch 45 c then (true, t) else if ch 43 c then (false, t) else (false, s)
                      | EmptyString => (false, s)
                      end in
  let lb := lower body in
  if String.eqb lb "inf" || String.eqb lb "infinity" then Some (if neg then FNInf else FPInf)
  else if String.eqb lb "nan" then Some FNaN
  else match decimal_number body with
       | NDigits ds => Some (mant_value neg ds EmptyString 0)
       | NFloat ip fp e => Some (mant_value neg ip fp e)
       | _ => None
       end.

(* ConfigParser.BOOLEAN_STATES *)
Definition py_boolean (s : string) : option bool :=
  let l := lower s in
  if String.eqb l "1" || String.eqb l "yes" || String.eqb l "true" || String.eqb l "on" then Some true
  else if String.eqb l "0" || String.eqb l "no" || String.eqb l "false" || String.eqb l "off" then Some false
  else None.

(* ------------------------------------------------------------------------------------------------ one option line *)
Definition print_option (k v : string) : string := (k ++ " = " ++ replace_nl v)%string.

Definition is_delim (c : ascii) : bool := ch 61 c || ch 58 c.
(* text before the first delimiter, text after it *)
Fixpoint find_delim (s : string) : option (string * string) :=
  match s with
  | EmptyString => None
  | String c t => if is_delim c then Some (EmptyString, t)
                  else match find_delim t with Some (a, b) => Some (String c a, b) | None => None end
  end.
(* ConfigParser._optcre on a line, optionxform, value.strip() *)
Definition parse_option_line (line : string) : option (string * string) :=
  match find_delim line with
  | Some (o, v) => let o' := strip o in if sempty o' then None else Some (lower o', strip v)
  | None => None
  end.

Definition plain_key (k : string) : bool := negb (sempty k) && sall is_ident_char k.

(* ------------------------------------------------------------------------------------------------ association lists *)
Section Assoc.
  Context {A : Type}.
  Fixpoint alookup (k : string) (l : list (string * A)) : option A :=
    match l with [] => None | (k', v) :: t => if String.eqb k k' then Some v else alookup k t end.
  (* dict[k] = v : position kept when present, appended otherwise *)
  Fixpoint aset (k : string) (v : A) (l : list (string * A)) : list (string * A) :=
    match l with
    | [] => [(k, v)]
    | (k', v') :: t => if String.eqb k k' then (k, v) :: t else (k', v') :: aset k v t
    end.
  Definition ahas (k : string) (l : list (string * A)) : bool := match alookup k l with Some _ => true | None => false end.
End Assoc.

Definition section := list (string * string).          (* option -> value, insertion order *)
Definition cfg := list (string * section).              (* section name -> options, insertion order *)

Definition cfg_get (c : cfg) (sec opt : string) : option string :=
  match alookup sec c with Some s => alookup opt s | None => None end.

(* ------------------------------------------------------------------------------------------------ interpolation *)
(* BasicInterpolation.before_set: after dropping %% and %(name)s groups no % may remain *)
Fixpoint skip_to_close (s : string) (n : nat) : option (nat * string) :=   (* chars before ')' , rest after ')' *)
  match s with
  | EmptyString => None
  | String c t => if ch 41 c then Some (n, t) else skip_to_close t (S n)
  end.
Fixpoint set_ok_fuel (fuel : nat) (s : string) : bool :=
  match fuel with
  | O => true
  | S f =>
      match s with
      | EmptyString => true
      | String c t =>
          if ch 37 c then
            match t with
            | String c2 t2 =>
                if ch 37 c2 then set_ok_fuel f t2
                else if ch 40 c2 then
                  match skip_to_close t2 O with
                  | Some (S _, String c3 t3) => if ch 115 c3 then set_ok_fuel f t3 else false
                  | _ => false
                  end
                else false
            | EmptyString => false
            end
          else set_ok_fuel f t
      end
  end.
Definition set_ok (s : string) : bool := set_ok_fuel (S (String.length s)) s.

(* BasicInterpolation.before_get restricted to what the model covers: %% -> %, any other % raises
   (InterpolationSyntaxError / InterpolationMissingOptionError; references to existing options are not modelled
   and never generated) *)
Fixpoint interpolate (s : string) : result string :=
  match s with
  | EmptyString => Ok EmptyString
  | String c t =>
      if ch 37 c then
        match t with
        | String c2 t2 => if ch 37 c2 then rbind (interpolate t2) (fun r => Ok (String c r)) else Raises EOther
        | EmptyString => Raises EOther
        end
      else rbind (interpolate t) (fun r => Ok (String c r))
  end.

(* ------------------------------------------------------------------------------------------------ writing *)
(* update_params(d, params, section_name=sec): add_section if missing, set(sec, name, str(value)) in order *)
Fixpoint set_all (sec : section) (d : list (string * value)) : result section :=
  match d with
  | [] => Ok sec
  | (k, v) :: t =>
      rbind (py_str v) (fun s =>
        if set_ok s then set_all (aset (lower k) s sec) t else Raises EValue)
  end.
Definition update_params (c : cfg) (secname : string) (d : list (string * value)) : result cfg :=
  let sec := match alookup secname c with Some s => s | None => [] end in
  rbind (set_all sec d) (fun s => Ok (aset secname s c)).

Fixpoint update_all (c : cfg) (ds : list (string * list (string * value))) : result cfg :=
  match ds with
  | [] => Ok c
  | (sn, d) :: t => rbind (update_params c sn d) (fun c' => update_all c' t)
  end.

(* update_params(sections_dict, params): the sections-dict calling convention.  Since 25a2190 it runs, for every
   section in order, "add the section if missing, set(sec, name, str(value))" -- the same loop as repeated
   single-section calls -- starting from read_params(params, fill_defaults) (the empty parser when params is None) *)
Definition update_params_sections (base : cfg) (ds : list (string * list (string * value))) : result cfg :=
  update_all base ds.

(* ConfigParser.write *)
Definition render_section (name : string) (s : section) : string :=
  ("[" ++ name ++ "]" ++ nl ++ sconcat (map (fun kv => print_option (fst kv) (snd kv) ++ nl) s) ++ nl)%string.
Definition render (c : cfg) : string := sconcat (map (fun ns => render_section (fst ns) (snd ns)) c).

(* ------------------------------------------------------------------------------------------------ reading *)
(* ConfigParser._read on one file, from an empty parser *)
Definition rawsec := list (string * list string).
Record pstate := mkps { ps_secs : list (string * rawsec); ps_cur : option string; ps_opt : option string;
                        ps_indent : nat }.

Fixpoint indent_of (s : string) : nat :=
  match s with String c t => if is_space c then S (indent_of t) else O | EmptyString => O end.

(* SECTCRE = \[(?P<header>.+)\] matched at the start of the stripped line: header runs to the last ']' *)
Fixpoint upto_last_close (s : string) : option string :=
  match s with
  | EmptyString => None
  | String c t => match upto_last_close t with
                  | Some h => Some (String c h)
                  | None => if ch 93 c then Some EmptyString else None
                  end
  end.
Definition section_header (v : string) : option string :=
  match v with
  | String c t => if ch 91 c then match upto_last_close t with
                                  | Some h => if sempty h then None else Some h
                                  | None => None end
                  else None
  | EmptyString => None
  end.

Definition append_line (st : pstate) (v : string) : pstate :=
  match ps_cur st, ps_opt st with
  | Some sn, Some o =>
      match alookup sn (ps_secs st) with
      | Some sec => match alookup o sec with
                    | Some ls => mkps (aset sn (aset o (ls ++ [v])%list sec) (ps_secs st)) (ps_cur st) (ps_opt st) (ps_indent st)
                    | None => st end
      | None => st
      end
  | _, _ => st
  end.

Definition read_line (st : pstate) (line : string) : result pstate :=
  let sline := strip line in
  let is_comment := shead (fun c => ch 35 c || ch 59 c) sline in
  let v := if is_comment then EmptyString else sline in
  if sempty v then
    Ok (if negb is_comment then append_line st EmptyString else st)
  else
    let ind := indent_of line in
    let in_opt := match ps_cur st, ps_opt st with Some _, Some _ => true | _, _ => false end in
    if in_opt && (ps_indent st <? ind)%nat then Ok (append_line st v)
    else
      match section_header v with
      | Some name =>
          if ahas name (ps_secs st) then Raises EOther                 (* DuplicateSectionError *)
          else if String.eqb name "DEFAULT" then Raises EOther          (* DEFAULT section: not modelled *)
          else Ok (mkps (ps_secs st ++ [(name, [])])%list (Some name) None ind)
      | None =>
          match ps_cur st with
          | None => Raises EOther                                       (* MissingSectionHeaderError *)
          | Some sn =>
              match parse_option_line v with
              | Some (k, val) =>
                  let sec := match alookup sn (ps_secs st) with Some s => s | None => [] end in
                  if ahas k sec then Raises EOther                      (* DuplicateOptionError *)
                  else Ok (mkps (aset sn (aset k [val] sec) (ps_secs st)) (Some sn) (Some k) ind)
              | None => Raises EOther                                   (* ParsingError *)
              end
          end
      end.

Fixpoint read_lines (st : pstate) (ls : list string) : result pstate :=
  match ls with [] => Ok st | l :: t => rbind (read_line st l) (fun st' => read_lines st' t) end.

Definition join_values (s : rawsec) : section := map (fun kv => (fst kv, rstrip (sjoin nl (snd kv)))) s.

Definition parse_file (text : string) : result cfg :=
  rbind (read_lines (mkps [] None None O) (split_on c_nl text))
        (fun st => Ok (map (fun ns => (fst ns, join_values (snd ns))) (ps_secs st))).

(* a later file read into the same parser: options are set one by one, sections created on first sight *)
Definition overlay_section (base : section) (s : section) : section :=
  fold_left (fun acc kv => aset (fst kv) (snd kv) acc) s base.
Definition overlay (base : cfg) (c : cfg) : cfg :=
  fold_left (fun acc ns => aset (fst ns) (overlay_section (match alookup (fst ns) acc with Some s => s | None => [] end) (snd ns)) acc)
            c base.

(* read_params(file, fill_defaults): ConfigParser.read([defaults.cfg, file]) or ConfigParser.read([file]) *)
Definition read_params (defaults_text : string) (fill : bool) (user_text : option string) : result cfg :=
  rbind (if fill then parse_file defaults_text else Ok [])
        (fun base => match user_text with
                     | Some t => rbind (parse_file t) (fun u => Ok (overlay base u))
                     | None => Ok base
                     end).

(* ------------------------------------------------------------------------------------------------ get_value *)
(* params.get(section, option): NoSectionError / NoOptionError -> EKey; interpolation failures -> EOther *)
Definition cp_get (c : cfg) (sec opt : string) : result string :=
  match cfg_get c sec (lower opt) with
  | Some v => interpolate v
  | None => Raises EKey
  end.

(* get_value(params, sec, opt, auto=True) *)
Definition get_auto (c : cfg) (sec opt : string) : result cls :=
  rbind (cp_get c sec opt) (fun v => Ok (classify v)).

(* get_value(params, sec, opt, dtype): None = the fallback was returned *)
Definition get_int (c : cfg) (sec opt : string) : result (option Z) := rbind (cp_get c sec opt) (fun v => Ok (py_int v)).
Definition get_float (c : cfg) (sec opt : string) : result (option fval) := rbind (cp_get c sec opt) (fun v => Ok (py_float v)).
Definition get_bool (c : cfg) (sec opt : string) : result (option bool) := rbind (cp_get c sec opt) (fun v => Ok (py_boolean v)).
Definition get_str (c : cfg) (sec opt : string) : result string := cp_get c sec opt.

(* params_to_sections_dict(file, auto=True): sections in the order of the defaults file, only those it knows *)
Fixpoint classify_section (s : section) : result (list (string * cls)) :=
  match s with
  | [] => Ok []
  | (k, v) :: t => rbind (interpolate v) (fun v' => rbind (classify_section t) (fun r => Ok ((k, classify v') :: r)))
  end.
Fixpoint sections_dict (known : list string) (c : cfg) : result (list (string * list (string * cls))) :=
  match known with
  | [] => Ok []
  | sn :: t =>
      match alookup sn c with
      | Some s => rbind (classify_section s) (fun d => rbind (sections_dict t c) (fun r => Ok ((sn, d) :: r)))
      | None => sections_dict t c
      end
  end.
Definition params_to_sections_dict (defaults_text : string) (user_text : string) :=
  rbind (parse_file defaults_text) (fun dc =>
  rbind (read_params defaults_text false (Some user_text)) (fun c => sections_dict (map fst dc) c)).

(* pipeline.params_to_dicts: (conformer_generation updated with preprocessing, fingerprinting) *)
Definition dict_update {A} (a b : list (string * A)) : list (string * A) :=
  fold_left (fun acc kv => aset (fst kv) (snd kv) acc) b a.
Definition params_to_dicts (defaults_text user_text : string) :=
  rbind (params_to_sections_dict defaults_text user_text) (fun sd =>
    let g n := match alookup n sd with Some d => d | None => [] end in
    Ok (dict_update (g "conformer_generation"%string) (g "preprocessing"%string), g "fingerprinting"%string)).

(* ------------------------------------------------------------------------------------------------ the round trip *)
(* one option through update_params / write / read / get_value(auto): the key it is found under and its class *)
Definition roundtrip (k : string) (v : value) : result (string * cls) :=
  rbind (py_str v) (fun s =>
    if negb (set_ok s) then Raises EValue else
    match split_on c_nl (print_option (lower k) s) with
    | [line] => match parse_option_line line with
                | Some (k', s') => rbind (interpolate s') (fun s'' => Ok (k', classify s''))
                | None => Raises EOther
                end
    | _ => Raises EOther      (* multi-line values: file-level model only *)
    end).

(* ------------------------------------------------------------------------------------------------ observations *)
Inductive obs := OInt (z : Z) | OFloat (f : fval) | OBool (b : bool) | ONone | OStr (s : string) | OOther.

Definition cls_matches (c : cls) (o : obs) : bool :=
  match c, o with
  | CInt a, OInt b => a =? b
  | CFloat t, OFloat f => fval_close (float_value t) f
  | CBool a, OBool b => Bool.eqb a b
  | CNone, ONone => true
  | CStr a, OStr b => String.eqb a b
  | COtherLit, OOther => true
  | CUnmodelled, _ => true
  | _, _ => false
  end.
Definition is_unmodelled (c : cls) : bool := match c with CUnmodelled => true | _ => false end.

Fixpoint list_eqb2 {A B} (f : A -> B -> bool) (a : list A) (b : list B) : bool :=
  match a, b with
  | [], [] => true
  | x :: a', y :: b' => f x y && list_eqb2 f a' b'
  | _, _ => false
  end.

Definition dict_matches (m : list (string * cls)) (o : list (string * obs)) : bool :=
  list_eqb2 (fun a b => String.eqb (fst a) (fst b) && cls_matches (snd a) (snd b)) m o.
Definition sdict_matches (m : list (string * list (string * cls))) (o : list (string * list (string * obs))) : bool :=
  list_eqb2 (fun a b => String.eqb (fst a) (fst b) && dict_matches (snd a) (snd b)) m o.
Definition cfg_eqb (a b : cfg) : bool :=
  list_eqb (fun x y => String.eqb (fst x) (fst y) &&
                       list_eqb (fun p q => String.eqb (fst p) (fst q) && String.eqb (snd p) (snd q)) (snd x) (snd y)) a b.
Definition ofval_close (a b : option fval) : bool :=
  match a, b with Some x, Some y => fval_close x y | None, None => true | _, _ => false end.

(* comparison of a model result with an observed result: same exception class or matching values *)
Definition result_match {A B} (f : A -> B -> bool) (m : result A) (o : result B) : bool :=
  match m, o with
  | Ok a, Ok b => f a b
  | Raises e, Raises e' => err_eqb e e'
  | _, _ => false
  end.
Definition pair_match {A B C D} (f : A -> C -> bool) (g : B -> D -> bool) (m : A * B) (o : C * D) : bool :=
  f (fst m) (fst o) && g (snd m) (snd o).
Definition oZ_eqb (a b : option Z) : bool := option_eqb Z.eqb a b.
Definition obool_eqb (a b : option bool) : bool := option_eqb Bool.eqb a b.
