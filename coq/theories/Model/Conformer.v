(* M5 - conformer selection: e3fp.conformer.generator.ConformerGenerator (filter_conformers and the option
   state of the generator object), as the code in /repo is written now.

   What is a model input and what is an oracle:
   * `energies`  : the array returned by `get_conformer_energies` (force-field energies of the minimised pool),
                   exact rationals (the harness passes the doubles exactly);
   * `rmsd a b`  : the value `AllChem.GetBestRMS(mol, mol, confs[a].GetId(), confs[b].GetId())` would return, i.e. probe
                   conformer a fitted on reference conformer b.  The code only ever calls it with a = an already accepted
                   conformer and b = the candidate.  A `Section` variable: nothing is assumed about it in this file;
   * `order`     : the permutation returned by `np.argsort(energies)`.  NumPy's default sort is *not stable* (observed:
                   stable for n <= 16, not for n >= 17 with ties), so `filter_core` takes the permutation as an argument and
                   `filter_conformers` instantiates it with a stable insertion sort.  The theorems are proved for every
                   sorting permutation.
   Conformers are identified by their position 0..n-1 in the pool (`fit_ind`, `accepted_ind`).

   No proofs in this file. *)
From Coq Require Import QArith Qabs Sorting.Sorted.
From E3FP Require Import Base.Prelude.
Open Scope Z_scope.

(* ---- small vocabulary ------------------------------------------------------------------------------------------ *)
Definition Qlt_bool (a b : Q) : bool := negb (Qle_bool b a).

Definition nat_list_eqb (a b : list nat) : bool := list_eqb Nat.eqb a b.
Definition q_list_eqb (a b : list Q) : bool := list_eqb Qeq_bool a b.
Definition q_mat_eqb (a b : list (list Q)) : bool := list_eqb q_list_eqb a b.

Definition q_close (tol a b : Q) : bool := Qle_bool (Qabs (a - b)) tol.
Definition q_list_close (tol : Q) (a b : list Q) : bool := list_eqb (q_close tol) a b.
Definition q_mat_close (tol : Q) (a b : list (list Q)) : bool := list_eqb (q_list_close tol) a b.

Fixpoint set_nth {A} (n : nat) (v : A) (l : list A) : list A :=
  match l, n with
  | [], _ => []
  | _ :: t, O => v :: t
  | x :: t, S k => x :: set_nth k v t
  end.

(* the attributes `filter_conformers` reads from the generator object *)
Record fopts := mkfopts {
  o_first : Z;        (* self.first_conformers *)
  o_ediff : Q;        (* self.max_energy_diff, -1.0 when disabled *)
  o_cutoff : Q }.     (* self.rmsd_cutoff, -1.0 when disabled *)

(* the n x n array `rmsds`; np.zeros *)
Definition matrix := nat -> nat -> Q.
Definition mzero : matrix := fun _ _ => 0%Q.
Definition mset (m : matrix) (i j : nat) (v : Q) : matrix :=
  fun a b => if (Nat.eqb a i && Nat.eqb b j)%bool then v else m a b.

(* m[cells] = vals, cell by cell in order (fancy-index assignment) *)
Fixpoint assign (m : matrix) (cells : list (nat * nat)) (vals : list Q) : matrix :=
  match cells, vals with
  | (i, j) :: c, v :: t => assign (mset m i j v) c t
  | _, _ => m
  end.

(* ConformerGenerator.reverse_enumerate: zip(reversed(range(len(l))), reversed(l)) *)
Definition reverse_enumerate {A} (l : list A) : list (nat * A) := combine (rev (seq 0 (length l))) (rev l).

Section Filter.
  Variable rmsd : nat -> nat -> Q.
  Variable energies : list Q.
  Variable o : fopts.

  Definition en (i : nat) : Q := nth i energies 0%Q.

  (* state of the loop in filter_conformers *)
  Record fstate := mkfs {
    s_acc : list nat;         (* accepted, in order of acceptance *)
    s_rej : list nat;         (* rejected *)
    s_mat : matrix;           (* rmsds *)
    s_below : list bool }.    (* energy_below_threshold *)

  Definition finit : fstate :=
    mkfs [] [] mzero (map (fun _ => true) energies).

  (* the inner loop over reverse_enumerate(accepted): None = `break` (rejected), Some these_rmsds = the `else` branch *)
  Fixpoint rmsd_loop (fit : nat) (pairs : list (nat * nat)) (these : list Q) : option (list Q) :=
    match pairs with
    | [] => Some these
    | (j, a) :: t =>
        let r := rmsd a fit in
        if Qlt_bool r (o_cutoff o) then None else rmsd_loop fit t (set_nth j r these)
    end.

  Definition reject (s : fstate) (fit : nat) : fstate :=
    mkfs (s_acc s) (s_rej s ++ [fit]) (s_mat s) (s_below s).

  Definition step (s : fstate) (fit : nat) : fstate :=
    match s_acc s with
    | [] =>
        (* always accept the lowest-energy conformer; it defines the energy window *)
        mkfs [fit] (s_rej s) (s_mat s)
             (if negb (Qeq_bool (o_ediff o) (-1)) then map (fun e => Qle_bool e (en fit + o_ediff o)) energies
              else s_below s)
    | _ :: _ =>
        if Z.of_nat (length (s_acc s)) >=? o_first o then reject s fit
        else if negb (nth fit (s_below s) true) then reject s fit
        else
          match rmsd_loop fit (reverse_enumerate (s_acc s)) (map (fun _ => 0%Q) (s_acc s)) with
          | None => reject s fit
          | Some these =>
              let m1 := assign (s_mat s) (map (fun a => (fit, a)) (s_acc s)) these in   (* rmsds[fit_ind, accepted] = these_rmsds *)
              let m2 := assign m1 (map (fun a => (a, fit)) (s_acc s)) these in          (* rmsds[accepted, fit_ind] = these_rmsds *)
              mkfs (s_acc s ++ [fit]) (s_rej s) m2 (s_below s)
          end
    end.

  Definition run (order : list nat) : fstate := fold_left step order finit.

  (* what filter_conformers returns besides the molecule: accepted indices, energies[accepted], rmsds[np.ix_(accepted, accepted)] *)
  Definition out_of (s : fstate) : list nat * list Q * list (list Q) :=
    (s_acc s, map en (s_acc s), map (fun a => map (fun b => s_mat s a b) (s_acc s)) (s_acc s)).

  Definition filter_core (order : list nat) : list nat * list Q * list (list Q) := out_of (run order).

  (* a stable argsort: insertion of 0, 1, ..., n-1 in turn, each after the entries that are <= it *)
  Fixpoint ins (i : nat) (l : list nat) : list nat :=
    match l with
    | [] => [i]
    | j :: t => if Qle_bool (en j) (en i) then j :: ins i t else i :: l
    end.
  Fixpoint argsort_upto (n : nat) : list nat :=
    match n with O => [] | S k => ins k (argsort_upto k) end.
  Definition argsort : list nat := argsort_upto (length energies).

  Definition filter_conformers : list nat * list Q * list (list Q) := filter_core argsort.

  (* rmsds[np.triu_indices_from(rmsds, k=1)] : the strict upper triangle, row by row (sparse_rmsd=True) *)
  Fixpoint triu (rows : list (list Q)) (k : nat) : list Q :=
    match rows with
    | [] => []
    | r :: t => skipn k r ++ triu t (S k)
    end.
End Filter.

(* ---- vocabulary of the statements in Properties/C13.v ----------------------------------------------------------------- *)
(* `order` is what an argsort of `energies` may return: a permutation of 0..n-1 along which the energies do not decrease *)
Definition sorting_perm (energies : list Q) (order : list nat) : Prop :=
  NoDup order /\ (forall i, In i order <-> (i < length energies)%nat) /\
  StronglySorted (fun a b => (en energies a <= en energies b)%Q) order.

Section Outputs.
  Variable rmsd : nat -> nat -> Q.
  Variable energies : list Q.
  Variable o : fopts.
  Definition accepted (order : list nat) : list nat := fst (fst (filter_core rmsd energies o order)).
  Definition out_energies (order : list nat) : list Q := snd (fst (filter_core rmsd energies o order)).
  Definition out_rmsds (order : list nat) : list (list Q) := snd (filter_core rmsd energies o order).
End Outputs.

(* an oracle given by a table, for execution: rmsd a b = t[a][b] *)
Definition table_rmsd (t : list (list Q)) (a b : nat) : Q := nth b (nth a t []) 0%Q.

(* ---- the generator object ---------------------------------------------------------------------------------------- *)
Record gen := mkgen {
  g_num_conf : Z;            (* configured: num_conf *)
  g_first : Z;               (* configured: first *)
  g_cutoff : Q;              (* rmsd_cutoff after normalisation *)
  g_ediff : Q;               (* max_energy_diff after normalisation *)
  g_pool : Z;                (* pool_multiplier *)
  g_max_conformers : Z;      (* resolved per molecule in embed_molecule *)
  g_first_conformers : Z }.  (* resolved per molecule in embed_molecule *)

(* __init__ : arguments num_conf, first, rmsd_cutoff (None allowed), max_energy_diff (None allowed), pool_multiplier *)
Definition mk_generator (num_conf first : Z) (cutoff ediff : option Q) (pool : Z) : result gen :=
  if (num_conf <? -1) || (num_conf =? 0) then Raises EValue
  else if (first <? -1) || (first =? 0) then Raises EValue
  else
    let c := match cutoff with
             | None => (-1)%Q
             | Some c => if Qeq_bool c 0 || Qlt_bool c 0 then (-1)%Q else c     (* `not rmsd_cutoff or rmsd_cutoff < 0` *)
             end in
    let d := match ediff with
             | None => (-1)%Q
             | Some d => if Qlt_bool d 0 then (-1)%Q else d
             end in
    if pool <? 1 then Raises EValue
    else Ok (mkgen num_conf first c d pool num_conf first).

(* ConformerGenerator.get_num_conformers on the number of rotatable bonds *)
Definition get_num_conformers (nrot : Z) : Z :=
  if nrot <? 8 then 50 else if nrot <=? 12 then 200 else 300.

(* the option part of embed_molecule: returns the updated object and n_confs *)
Definition resolve (g : gen) (nrot : Z) : gen * Z :=
  let mx := if g_num_conf g =? -1 then get_num_conformers nrot else g_num_conf g in
  let fc := if g_first g =? -1 then mx else Z.min (g_first g) mx in    (* min(self.first, self.max_conformers) *)
  (mkgen (g_num_conf g) (g_first g) (g_cutoff g) (g_ediff g) (g_pool g) mx fc, mx * g_pool g).

Definition opts_of (g : gen) : fopts := mkfopts (g_first_conformers g) (g_ediff g) (g_cutoff g).

Section Generate.
  (* the RDKit side as oracles: a molecule has a number of rotatable bonds; embedding n_confs conformers (fixed seed) and
     minimising them yields a pool with these energies and this RMSD function *)
  Variable molecule : Type.
  Variable nrot : molecule -> Z.
  Variable pool_energies : molecule -> Z -> list Q.
  Variable pool_rmsd : molecule -> Z -> nat -> nat -> Q.

  (* generate_conformers with get_values=True: the object afterwards, and (max_conformers, indices, energies, rmsds) *)
  Definition generate (g : gen) (m : molecule) : gen * result (Z * (list nat * list Q * list (list Q))) :=
    let '(g', n) := resolve g (nrot m) in
    match pool_energies m n with
    | [] => (g', Raises EOther)                       (* RuntimeError: no conformers generated *)
    | es => (g', Ok (g_max_conformers g', filter_conformers (pool_rmsd m n) es (opts_of g')))
    end.

  (* one generator object fed a sequence of molecules *)
  Definition after_history (g : gen) (ms : list molecule) : gen := fold_left (fun g m => fst (generate g m)) ms g.
End Generate.

(* ---- comparison helpers used by the generated correspondence cases ------------------------------------------------ *)
Definition out_eqb (a b : list nat * list Q * list (list Q)) : bool :=
  nat_list_eqb (fst (fst a)) (fst (fst b)) && q_list_eqb (snd (fst a)) (snd (fst b)) && q_mat_eqb (snd a) (snd b).

Definition out_close (tol : Q) (a b : list nat * list Q * list (list Q)) : bool :=
  nat_list_eqb (fst (fst a)) (fst (fst b)) && q_list_close tol (snd (fst a)) (snd (fst b)) && q_mat_close tol (snd a) (snd b).

Definition gen_obs (g : gen) : Z * Z * Z * Z := (g_num_conf g, g_first g, g_max_conformers g, g_first_conformers g).
Definition gen_obs_eqb (a b : Z * Z * Z * Z) : bool :=
  match a, b with (a1, a2, a3, a4), (b1, b2, b3, b4) => (a1 =? b1) && (a2 =? b2) && (a3 =? b3) && (a4 =? b4) end.

(* energies and RMSDs compared with separate tolerances (re-measured real data) *)
Definition out_close2 (tol_e tol_r : Q) (a b : list nat * list Q * list (list Q)) : bool :=
  nat_list_eqb (fst (fst a)) (fst (fst b)) && q_list_close tol_e (snd (fst a)) (snd (fst b)) && q_mat_close tol_r (snd a) (snd b).

(* the option state of one generator object over a sequence of molecules given by their rotatable-bond counts:
   after each embed_molecule, (num_conf, first, max_conformers, first_conformers) and the n_confs asked of RDKit *)
Fixpoint resolve_trace (g : gen) (rs : list Z) : list (Z * Z * Z * Z * Z) :=
  match rs with
  | [] => []
  | r :: t => let '(g', n) := resolve g r in (gen_obs g', n) :: resolve_trace g' t
  end.

Definition trace_eqb (a b : list (Z * Z * Z * Z * Z)) : bool :=
  list_eqb (fun x y => gen_obs_eqb (fst x) (fst y) && (snd x =? snd y)) a b.

(* constructor observation: the seven attributes *)
Definition ctor_obs (g : gen) : Z * Z * Z * Z * (Q * Q * Z) :=
  (g_num_conf g, g_first g, g_max_conformers g, g_first_conformers g, (g_cutoff g, g_ediff g, g_pool g)).
Definition ctor_obs_eqb (a b : Z * Z * Z * Z * (Q * Q * Z)) : bool :=
  gen_obs_eqb (fst a) (fst b) &&
  match snd a, snd b with (c1, d1, p1), (c2, d2, p2) => Qeq_bool c1 c2 && Qeq_bool d1 d2 && (p1 =? p2) end.

(* ---- executable instance of `generate`: molecules are indices into tables the harness measured ---------------------- *)
(* pools m = (the n_confs the pool was embedded for, its energies, its RMSD table); asking for another n_confs gives no pool *)
Definition tab_energies (pools : list (Z * list Q * list (list Q))) (m : nat) (n : Z) : list Q :=
  match nth_error pools m with
  | Some (n0, es, _) => if n =? n0 then es else []
  | None => []
  end.
Definition tab_rmsd (pools : list (Z * list Q * list (list Q))) (m : nat) (n : Z) : nat -> nat -> Q :=
  match nth_error pools m with
  | Some (_, _, t) => table_rmsd t
  | None => fun _ _ => 0%Q
  end.
Definition tab_generate (nrots : list Z) (pools : list (Z * list Q * list (list Q))) (g : gen) (m : nat) :=
  generate nat (fun m => nth m nrots 0) (tab_energies pools) (tab_rmsd pools) g m.
Definition tab_after (nrots : list Z) (pools : list (Z * list Q * list (list Q))) (g : gen) (ms : list nat) : gen :=
  after_history nat (fun m => nth m nrots 0) (tab_energies pools) (tab_rmsd pools) g ms.

Definition gen_result_close2 (tol_e tol_r : Q) (a b : result (Z * (list nat * list Q * list (list Q)))) : bool :=
  result_eqb (fun x y => (fst x =? fst y) && out_close2 tol_e tol_r (snd x) (snd y)) a b.
