(* M3 - e3fp.fingerprint.db.FingerprintDatabase as a state machine over a pool of live databases.

   Two layers (DESIGN 3.3):

   (1) the abstract value `db` (what one database *is*: kind, level, bits, raw CSR rows in storage order, names,
       the name index = the defaultdict `fp_names_to_indices`, property columns) with pure helper functions
       that compute what each method computes;
   (2) the heap: database *objects* hold buffer ids for `array.data`, `array.indices`, `array.indptr` and for every
       property array; `view` reads an object's `db` out of the buffer store.  Every SciPy/NumPy call the code makes
       is given its sharing behaviour as measured with np.shares_memory on the repaired tree:
         from_array(csr, same dtype)      shares data, indices, indptr        (copy.copy, as_type(same, copy=True))
         from_array(csr, other dtype)     new data; shares indices, indptr    (as_type(other kind))
         as_type(same kind, copy=False)   returns self: the two handles denote the SAME object
         props=self.props                 the derived database holds the same property arrays (np.asanyarray)
         fold                             data.copy(), indices % bits, indptr.copy(): three fresh buffers, on which
                                          sum_duplicates() then works IN PLACE; column slice and cast allocate
         vstack (add, concat), fancy row indexing (get_subset), np.append, pickle: allocate
       The names list, the index dict and the props dict are per object (from_array does list(fp_names), builds a new
       defaultdict and a new dict; measured: never shared between two distinct objects) and are object fields here.

   Model of what the code does NOW (after the fix: commits listed in known_findings.json).  Domain restrictions of
   the model (the generators respect them, see harness/dbgen.py): CSR rows handed to from_array have no duplicate
   column inside a row; every count handed in is an integer in [0, 2^16) (sums formed by fold wrap at 2^16, as uint16 does:
   `ksum KCount`); names are None or non-empty strings; concat of databases that all lack a matrix is not modelled. *)
From Coq Require Import QArith Qround Qabs.
From E3FP Require Import Base.Prelude Base.ZSet Model.Fprint.
Open Scope Z_scope.

(* ------------------------------------------------------------------------------------------------ values *)
Inductive pval := VInt (z : Z) | VFloat (q : Q) | VBool (b : bool) | VStr (s : string).   (* one cell of a property array; the constructor is the dtype kind *)

Definition okey := option string.                      (* a fingerprint name: None or a string *)
Definition okey_eqb : okey -> okey -> bool := option_eqb String.eqb.

Definition row := list (Z * Q).                        (* one CSR row in storage order: (column, stored value) *)
Definition col := (string * list pval)%type.          (* one property column *)
Definition index := list (okey * list Z).             (* fp_names_to_indices, in insertion order *)

Record db := mkdb {
  dkind : kind;
  dlevel : option Z;
  dbits : option Z;             (* None: `array is None` *)
  drows : list row;
  dnames : list okey;
  dindex : index;
  dprops : list col }.

Definition fp_num (d : db) : nat := length (drows d).

(* a fingerprint handed to add_fingerprints: the value and its props other than "Name" (dict order) *)
Record fpin := mkfpin { fi_fp : fp; fi_props : list (string * pval) }.

(* ------------------------------------------------------------------------------------------------ dtype casts *)
Definition qnz (q : Q) : bool := negb (Qeq_bool q 0).
(* numpy cast to bool_ / uint16 (truncation; values < 2^16) / float64 *)
Definition cast_to (k : kind) (q : Q) : Q :=
  match k with KBit => if qnz q then 1%Q else 0%Q | KCount => qtrunc q | KFloat => q end.
Definition cast_row (k : kind) (r : row) : row := map (fun iv => (fst iv, cast_to k (snd iv))) r.

(* ------------------------------------------------------------------------------------------------ association lists (dicts) *)
Fixpoint aget {V} (k : string) (l : list (string * V)) : option V :=
  match l with [] => None | (k', v) :: t => if String.eqb k k' then Some v else aget k t end.
Definition amem {V} (k : string) (l : list (string * V)) : bool := match aget k l with Some _ => true | None => false end.
(* d[k] = v : replace in place or append *)
Fixpoint aset {V} (l : list (string * V)) (k : string) (v : V) : list (string * V) :=
  match l with [] => [(k, v)] | (k', v') :: t => if String.eqb k k' then (k', v) :: t else (k', v') :: aset t k v end.

(* the defaultdict(list) *)
Fixpoint idx_mem (k : okey) (ix : index) : bool :=
  match ix with [] => false | (k', _) :: t => okey_eqb k k' || idx_mem k t end.
Fixpoint idx_get (k : okey) (ix : index) : list Z :=
  match ix with [] => [] | (k', l) :: t => if okey_eqb k k' then l else idx_get k t end.
(* ix[k].append(p) *)
Fixpoint idx_append (ix : index) (k : okey) (p : Z) : index :=
  match ix with
  | [] => [(k, [p])]
  | (k', l) :: t => if okey_eqb k k' then (k', l ++ [p]) :: t else (k', l) :: idx_append t k p
  end.
(* ix[k] as an expression: a defaultdict inserts an empty list for an absent key *)
Definition dd_get (ix : index) (k : okey) : index * list Z :=
  if idx_mem k ix then (ix, idx_get k ix) else (ix ++ [(k, [])], []).
(* update_names_map(new_names, offset) *)
Fixpoint names_map (ix : index) (names : list okey) (off : Z) : index :=
  match names with [] => ix | n :: t => names_map (idx_append ix n off) t (off + 1) end.

(* ------------------------------------------------------------------------------------------------ rows <-> fingerprints *)
(* dict(zip(indices, data)): the last stored value of a column wins *)
Fixpoint rget (r : row) (i : Z) : Q :=
  match r with [] => 0%Q | (j, v) :: t => if existsb (fun jv => fst jv =? i) t then rget t i else if j =? i then v else 0%Q end.

(* fp_type.from_vector(array[i, :], level, name): a bit fingerprint takes every *stored* column (the data is ignored),
   a count/float fingerprint reads the stored values, explicit zeros included *)
Definition row_fp (k : kind) (bits : Z) (lv : option Z) (nm : okey) (r : row) : fp :=
  let idx := usort (map fst r) in
  match k with
  | KBit => mkfp KBit bits lv idx [] nm
  | _ => mkfp k bits lv idx (cbuild idx (fun i => cast_value k (rget r i))) nm
  end.

(* fprint.to_vector(sparse=True, dtype=...): one canonical row, the fingerprint's counts cast to the database's dtype *)
Definition fp_row (k : kind) (a : fp) : row := map (fun i => (i, cast_to k (cget (counts_of a) i))) (fidx a).

(* ------------------------------------------------------------------------------------------------ properties *)
(* update_props, first loop: new_props[k] = (append to the stored column) ; length check against len(fp_names) *)
Fixpoint prep_props (old : list col) (nnames : nat) (cols : list col) (append check : bool) : result (list col) :=
  match cols with
  | [] => Ok []
  | (k, v) :: t =>
    let v' := if append then match aget k old with Some o => o ++ v | None => v end else v in
    if check && negb (Nat.eqb (length v') nnames) then Raises EValue
    else rbind (prep_props old nnames t append check) (fun r => Ok ((k, v') :: r))
  end.

(* ------------------------------------------------------------------------------------------------ add_fingerprints: everything before the first mutation *)
Fixpoint check_valid (lv : option Z) (bits : Z) (fps : list fpin) : option err :=
  match fps with
  | [] => None
  | f :: t => if negb (option_eqb Z.eqb (flevel (fi_fp f)) lv) then Some EValue
              else if negb (fbits (fi_fp f) =? bits) then Some EBits
              else check_valid lv bits t
  end.

Fixpoint get_props (names : list string) (f : fpin) : result (list pval) :=
  match names with
  | [] => Ok []
  | k :: t => match aget k (fi_props f) with
              | None => Raises EKey
              | Some v => rbind (get_props t f) (fun r => Ok (v :: r))
              end
  end.

(* the loop over the batch: rows, names and per-column value lists, or the first KeyError *)
Fixpoint collect (k : kind) (pnames : list string) (fps : list fpin) : result (list row * list okey * list (list pval)) :=
  match fps with
  | [] => Ok ([], [], [])
  | f :: t => rbind (get_props pnames f) (fun pv =>
              rbind (collect k pnames t) (fun r =>
              let '(rs, ns, pvs) := r in Ok (fp_row k (fi_fp f) :: rs, fname (fi_fp f) :: ns, pv :: pvs)))
  end.

(* column j of a list of per-fingerprint value lists *)
Fixpoint transpose (pnames : list string) (pvs : list (list pval)) : list col :=
  match pnames with
  | [] => []
  | k :: t => (k, map (fun pv => match pv with v :: _ => v | [] => VInt 0 end) pvs) :: transpose t (map (@tl pval) pvs)
  end.

Record add_plan := mkplan { ap_bits : Z; ap_rows : list row; ap_names : list okey; ap_cols : list col }.

Definition add_precheck (d : db) (fps : list fpin) : result add_plan :=
  match fps with
  | [] => Raises EIndex                                             (* fprints[0] *)
  | f0 :: _ =>
    let bits := match dbits d with Some b => b | None => fbits (fi_fp f0) end in
    match check_valid (dlevel d) bits fps with
    | Some e => Raises e
    | None =>
      (* if self.fp_num > 0 or len(self.props) > 0: the database's columns, else those of the first fingerprint *)
      let pnames := if (0 <? Z.of_nat (fp_num d)) || (0 <? Z.of_nat (length (dprops d))) then map fst (dprops d) else map fst (fi_props f0) in
      rbind (collect (dkind d) pnames fps) (fun r =>
      let '(rs, ns, pvs) := r in Ok (mkplan bits rs ns (transpose pnames pvs)))
    end
  end.

(* ------------------------------------------------------------------------------------------------ get_subset *)
Fixpoint subset_pairs (ix : index) (names : list okey) : index * list (Z * okey) :=
  match names with
  | [] => (ix, [])
  | x :: t => let '(ix1, l) := dd_get ix x in
              let '(ix2, r) := subset_pairs ix1 t in (ix2, map (fun y => (y, x)) l ++ r)
  end.

Definition nth_row (rs : list row) (i : Z) : row := nth (Z.to_nat i) rs [].
Definition take_col (ps : list Z) (c : col) : col := (fst c, map (fun i => nth (Z.to_nat i) (snd c) (VInt 0)) ps).

(* ------------------------------------------------------------------------------------------------ fold *)
(* the dtype's addition: logical or / integer sum / float sum *)
(* uint16 arithmetic: sums wrap at 2^16 (COUNT_FP_DTYPE; stored counts are integers in [0, 2^16)) *)
Definition count_dtype_max : Z := 65535.
Definition wrap16 (q : Q) : Q := inject_Z (Qfloor q mod (count_dtype_max + 1)).
Definition ksum (k : kind) (vs : list Q) : Q :=
  match k with KBit => if existsb qnz vs then 1%Q else 0%Q | KCount => wrap16 (qsum vs) | KFloat => qsum vs end.
(* sort_indices + csr_sum_duplicates on one row, as the function it computes: columns ascending, the stored values of
   equal columns added in the dtype *)
Definition sum_dups (k : kind) (r : row) : row :=
  map (fun j => (j, ksum k (map snd (filter (fun iv => fst iv =? j) r)))) (usort (map fst r)).
Definition fold_row (k : kind) (nb : Z) (r : row) : row := sum_dups k (map (fun iv => (fst iv mod nb, snd iv)) r).

(* ------------------------------------------------------------------------------------------------ equality *)
(* (a - b).nnz == 0 on one pair of rows: no column where the difference of the (explicit or implicit) values is non-zero *)
Definition row_val (k : kind) (r : row) (j : Z) : Q := ksum k (map snd (filter (fun iv => fst iv =? j) r)).
Definition row_diff_zero (k : kind) (a b : row) : bool :=
  forallb (fun j => Qeq_bool (row_val k a j) (row_val k b j)) (map fst a ++ map fst b).
Fixpoint rows_diff_zero (k : kind) (a b : list row) : bool :=
  match a, b with
  | [], [] => true
  | x :: a', y :: b' => row_diff_zero k x y && rows_diff_zero k a' b'
  | _, _ => false
  end.
(* dict equality: same keys, same lists, order of insertion irrelevant *)
Definition index_eqb (a b : index) : bool :=
  Nat.eqb (length a) (length b) &&
  forallb (fun kl => idx_mem (fst kl) b && list_eqb Z.eqb (snd kl) (idx_get (fst kl) b)) a.

Definition db_eq (a b : db) : bool :=
  kind_eqb (dkind a) (dkind b) && option_eqb Z.eqb (dlevel a) (dlevel b) && option_eqb Z.eqb (dbits a) (dbits b)
  && Nat.eqb (fp_num a) (fp_num b) && index_eqb (dindex a) (dindex b)
  && match dbits a, dbits b with
     | None, None => true                       (* self.array is other.array: None is None *)
     | Some _, Some _ => rows_diff_zero (dkind a) (drows a) (drows b)
     | _, _ => false
     end.

(* ================================================================================================ the heap *)
Inductive buf := BQ (l : list Q) | BZ (l : list Z) | BP (l : list pval).

Definition getQ (bs : list buf) (i : nat) : list Q := match nth_error bs i with Some (BQ l) => l | _ => [] end.
Definition getZ (bs : list buf) (i : nat) : list Z := match nth_error bs i with Some (BZ l) => l | _ => [] end.
Definition getP (bs : list buf) (i : nat) : list pval := match nth_error bs i with Some (BP l) => l | _ => [] end.

Record csr := mkcsr { cdata : nat; cind : nat; cptr : nat; cbits : Z }.       (* buffer ids; shape[1] *)

Record obj := mkobj {
  okind : kind;
  olevel : option Z;
  oarr : option csr;
  onames : list okey;
  oindex : index;
  oprops : list (string * nat) }.                                              (* props dict: key -> buffer id *)

Record state := mkst { bufs : list buf; objs : list obj; pool : list nat }.   (* pool: handle -> object id *)

Definition init : state := mkst [] [] [].

(* --- CSR encoding: data, indices, indptr *)
Definition enc_data (rs : list row) : list Q := concat (map (map (@snd Z Q)) rs).
Definition enc_idx (rs : list row) : list Z := concat (map (map (@fst Z Q)) rs).
Fixpoint enc_ptr (off : Z) (rs : list row) : list Z :=
  match rs with [] => [off] | r :: t => off :: enc_ptr (off + Z.of_nat (length r)) t end.

Fixpoint ptr_lens (p : list Z) : list nat :=
  match p with
  | a :: t => match t with b :: _ => Z.to_nat (b - a) :: ptr_lens t | [] => [] end
  | [] => []
  end.
Fixpoint read_rows (lens : list nat) (idx : list Z) (dat : list Q) : list row :=
  match lens with
  | [] => []
  | n :: t => combine (firstn n idx) (firstn n dat) :: read_rows t (skipn n idx) (skipn n dat)
  end.

Definition view_rows (bs : list buf) (c : csr) : list row :=
  read_rows (ptr_lens (getZ bs (cptr c))) (getZ bs (cind c)) (getQ bs (cdata c)).

Definition view (bs : list buf) (o : obj) : db :=
  mkdb (okind o) (olevel o) (option_map cbits (oarr o))
       (match oarr o with Some c => view_rows bs c | None => [] end)
       (onames o) (oindex o) (map (fun kc => (fst kc, getP bs (snd kc))) (oprops o)).

(* --- allocation *)
Definition alloc_csr (bs : list buf) (rs : list row) (bits : Z) : list buf * csr :=
  let d := length bs in
  (bs ++ [BQ (enc_data rs); BZ (enc_idx rs); BZ (enc_ptr 0 rs)], mkcsr d (S d) (S (S d)) bits).

Fixpoint alloc_cols (bs : list buf) (cols : list col) : list buf * list (string * nat) :=
  match cols with
  | [] => (bs, [])
  | (k, v) :: t => let '(bs1, r) := alloc_cols (bs ++ [BP v]) t in (bs1, (k, length bs) :: r)
  end.

(* self.props[k] = array for every prepared column: a new array each, the dict updated in place *)
Fixpoint store_cols (bs : list buf) (ps : list (string * nat)) (cols : list col) : list buf * list (string * nat) :=
  match cols with
  | [] => (bs, ps)
  | (k, v) :: t => store_cols (bs ++ [BP v]) (aset ps k (length bs)) t
  end.

(* in-place write of one buffer *)
Fixpoint write (bs : list buf) (i : nat) (b : buf) : list buf :=
  match bs, i with
  | [], _ => []
  | _ :: t, O => b :: t
  | x :: t, S j => x :: write t j b
  end.

(* csr.sum_duplicates(): rewrites the three buffers of the matrix in place *)
Definition sum_duplicates_inplace (k : kind) (bs : list buf) (c : csr) : list buf :=
  let rs := map (sum_dups k) (view_rows bs c) in
  write (write (write bs (cdata c) (BQ (enc_data rs))) (cind c) (BZ (enc_idx rs))) (cptr c) (BZ (enc_ptr 0 rs)).

(* --- from_array once the matrix exists: db.fp_names = list(names); update_names_map(); update_props(props) *)
Definition props_fit (bs : list buf) (ps : list (string * nat)) (n : nat) : bool :=
  forallb (fun kc => match aget (fst kc) ps with Some i => Nat.eqb (length (getP bs i)) n | None => true end) ps.   (* props_dict.items() *)

Definition push_obj (s : state) (bs : list buf) (o : obj) : state :=
  mkst bs (objs s ++ [o]) (pool s ++ [length (objs s)]).

Inductive out :=
| ONone
| ONew (h : nat)                                   (* handle of the database returned *)
| OFp (f : fp) (ps : list (string * pval))        (* db[i] *)
| OFps (l : list (fp * list (string * pval)))     (* db[name] ; iteration (no props) *)
| OBool (b : bool)
| OQ (q : Q)
| OZ (z : Z).

Definition new_handle (s : state) : nat := length (pool s).

(* a database built from data the operation computed: everything freshly allocated *)
Definition new_db_fresh (s : state) (k : kind) (lv : option Z) (bits : Z) (rs : list row) (names : list okey) (cols : list col)
  : state * result out :=
  (* from_array: one name per row, then update_props(props): every column one cell per name - both ValueError, nothing built *)
  if negb (Nat.eqb (length names) (length rs) && forallb (fun c => Nat.eqb (length (snd c)) (length names)) cols) then (s, Raises EValue)
  else let '(bs1, c) := alloc_csr (bufs s) rs bits in
       let '(bs2, ps) := alloc_cols bs1 cols in
       (push_obj s bs2 (mkobj k lv (Some c) names (names_map [] names 0) ps), Ok (ONew (new_handle s))).

(* a database built on an existing matrix and existing property arrays *)
Definition new_db_shared (s : state) (bs : list buf) (k : kind) (lv : option Z) (c : csr) (names : list okey) (ps : list (string * nat))
  : state * result out :=
  if negb (Nat.eqb (length names) (length (view_rows bs c)) && props_fit bs ps (length names)) then (s, Raises EValue)
  else (push_obj s bs (mkobj k lv (Some c) names (names_map [] names 0) ps), Ok (ONew (new_handle s))).

(* csr_matrix(array, dtype=dtype): the identity on buffers when the dtype is unchanged, otherwise a new data buffer *)
Definition csr_astype (bs : list buf) (c : csr) (from to : kind) : list buf * csr :=
  if kind_eqb from to then (bs, c)
  else (bs ++ [BQ (map (cast_to to) (getQ bs (cdata c)))], mkcsr (length bs) (cind c) (cptr c) (cbits c)).

(* ------------------------------------------------------------------------------------------------ operations *)
Inductive metric := MTanimoto | MDice | MCosine | MPearson | MSoergel.

Inductive op :=
| OpNew (k : kind) (lv : option Z)                                         (* FingerprintDatabase(fp_type, level) *)
| OpFromArray (k : kind) (lv : option Z) (bits : Z) (dense : bool) (rs : list row) (names : list okey) (cols : list col)
| OpAdd (h : nat) (fps : list fpin)
| OpSetProp (h : nat) (key : string) (vals : list pval)
| OpUpdateProps (h : nat) (cols : list col) (append : bool)                (* update_props(props_dict, append=...) *)
| OpSubset (h : nat) (names : list okey)
| OpAsType (h : nat) (k : kind) (copy : bool)
| OpFold (h : nat) (nb : Z) (k : option kind)
| OpCopy (h : nat)
| OpPickle (h : nat)                                                       (* pickle.loads(pickle.dumps(db)) / deepcopy *)
| OpReload (h : nat) (fpz : bool)                                         (* savez + load (.fpz)  /  save + load (.fps, pickle) *)
| OpConcat (hs : list nat)
| OpGetInt (h : nat) (i : Z)
| OpGetName (h : nat) (nm : string)
| OpIter (h : nat)
| OpEq (h1 h2 : nat)
| OpDensity (h : nat) (i : option Z)
| OpLen (h : nat)
| OpMetric (m : metric) (h1 h2 : nat).

Definition set_obj (l : list obj) (i : nat) (o : obj) : list obj :=
  (fix go (l : list obj) (i : nat) := match l, i with [] , _ => [] | _ :: t, O => o :: t | x :: t, S j => x :: go t j end) l i.

Definition lookup (s : state) (h : nat) : option (nat * obj) :=
  match nth_error (pool s) h with
  | Some oid => match nth_error (objs s) oid with Some o => Some (oid, o) | None => None end
  | None => None
  end.

(* --- add_fingerprints *)
Definition h_add (s : state) (oid : nat) (o : obj) (fps : list fpin) : state * result out :=
  let d := view (bufs s) o in
  match add_precheck d fps with
  | Raises e => (s, Raises e)
  | Ok p =>
    (* self.array = vstack([self.array] + rows).tocsr() ; fp_names += names ; update_names_map(names, offset=old_fp_num) *)
    let '(bs1, c) := alloc_csr (bufs s) (drows d ++ ap_rows p) (ap_bits p) in
    let o1 := mkobj (okind o) (olevel o) (Some c) (onames o ++ ap_names p)
                    (names_map (oindex o) (ap_names p) (Z.of_nat (fp_num d))) (oprops o) in
    (* update_props(new_props, append=True) *)
    match prep_props (dprops d) (length (onames o1)) (ap_cols p) true true with
    | Raises e => (mkst bs1 (set_obj (objs s) oid o1) (pool s), Raises e)
    | Ok cols => let '(bs2, ps) := store_cols bs1 (oprops o) cols in
                 (mkst bs2 (set_obj (objs s) oid (mkobj (okind o1) (olevel o1) (oarr o1) (onames o1) (oindex o1) ps)) (pool s), Ok ONone)
    end
  end.

(* --- update_props(cols) / set_prop(key, vals) *)
Definition h_update_props (s : state) (oid : nat) (o : obj) (cols : list col) (append : bool) : state * result out :=
  let d := view (bufs s) o in
  match prep_props (dprops d) (length (onames o)) cols append true with
  | Raises e => (s, Raises e)
  | Ok cs => let '(bs1, ps) := store_cols (bufs s) (oprops o) cs in
             (mkst bs1 (set_obj (objs s) oid (mkobj (okind o) (olevel o) (oarr o) (onames o) (oindex o) ps)) (pool s), Ok ONone)
  end.

(* --- get_subset *)
Definition h_subset (s : state) (oid : nat) (o : obj) (names : list okey) : state * result out :=
  let d := view (bufs s) o in
  if existsb (fun x => negb (idx_mem x (oindex o))) names then (s, Raises EValue)
  else let '(ix1, pairs) := subset_pairs (oindex o) names in
       let s1 := mkst (bufs s) (set_obj (objs s) oid (mkobj (okind o) (olevel o) (oarr o) (onames o) ix1 (oprops o))) (pool s) in
       match pairs with
       | [] => (s1, Raises EValue)                                       (* zip of an empty list cannot be unpacked *)
       | _ => let ps := map fst pairs in
              match dbits d with
              | None => (s1, Raises EType)
              | Some b => new_db_fresh s1 (okind o) (olevel o) b (map (nth_row (drows d)) ps) (map snd pairs) (map (take_col ps) (dprops d))
              end
       end.

(* --- as_type / __copy__ *)
Definition h_astype (s : state) (oid : nat) (o : obj) (k : kind) (copy : bool) : state * result out :=
  if kind_eqb k (okind o) && negb copy then (mkst (bufs s) (objs s) (pool s ++ [oid]), Ok (ONew (new_handle s)))     (* return self *)
  else match oarr o with
       | None => (s, Raises EOther)                                      (* None.dtype *)
       | Some c => let '(bs1, c1) := csr_astype (bufs s) c (okind o) k in
                   new_db_shared s bs1 k (olevel o) c1 (onames o) (oprops o)
       end.

(* --- fold *)
Definition h_fold (s : state) (oid : nat) (o : obj) (nb : Z) (ko : option kind) : state * result out :=
  match oarr o with
  | None => (s, Raises EType)                                            (* bits > None *)
  | Some c =>
    let bits := cbits c in
    if bits <? nb then (s, Raises EBits)
    else if nb =? 0 then (s, Raises EOther)                              (* ZeroDivisionError *)
    else if negb (pow2_ratio bits nb) then (s, Raises EBits)
    else
      let k := match ko with Some k => k | None => okind o end in
      let bs := bufs s in
      let d0 := length bs in
      (* csr_matrix((data.copy(), indices % bits, indptr.copy()), shape) *)
      let bs1 := bs ++ [BQ (getQ bs (cdata c)); BZ (map (fun i => i mod nb) (getZ bs (cind c))); BZ (getZ bs (cptr c))] in
      let t := mkcsr d0 (S d0) (S (S d0)) bits in
      let bs2 := sum_duplicates_inplace (okind o) bs1 t in
      (* fold_arr[:, :bits].tocsr() *)
      let '(bs3, c3) := alloc_csr bs2 (map (filter (fun iv => fst iv <? nb)) (view_rows bs2 t)) nb in
      (* data.astype(dtype, copy=False) ; from_array(fold_arr, fp_names, fp_type, level, props=self.props) *)
      let '(bs4, c4) := csr_astype bs3 c3 (okind o) k in
      new_db_shared s bs4 k (olevel o) c4 (onames o) (oprops o)
  end.

(* --- concat *)
Fixpoint concat_props (acc : list col) (cols : list col) : list col :=
  match cols with
  | [] => acc
  | (k, v) :: t => concat_props (aset acc k (match aget k acc with Some o => o ++ v | None => v end)) t
  end.

Fixpoint concat_loop (lv : option Z) (bits : option Z) (k : kind) (ds : list db) (rows : list row) (names : list okey) (props : list col)
  : result (list row * list okey * list col) :=
  match ds with
  | [] => Ok (rows, names, props)
  | d :: t =>
    if negb (option_eqb Z.eqb (dlevel d) lv) then Raises EType
    else if negb (option_eqb Z.eqb (dbits d) bits) then Raises EType
    else if negb (kind_eqb (dkind d) k) then Raises EType
    else concat_loop lv bits k t (rows ++ drows d) (names ++ dnames d) (concat_props props (dprops d))
  end.

Fixpoint lookup_all (s : state) (hs : list nat) : option (list obj) :=
  match hs with
  | [] => Some []
  | h :: t => match lookup s h, lookup_all s t with Some (_, o), Some r => Some (o :: r) | _, _ => None end
  end.

Definition h_concat (s : state) (os : list obj) : state * result out :=
  let ds := map (view (bufs s)) os in
  match ds with
  | [] => (s, Raises EIndex)
  | d0 :: _ =>
    match concat_loop (dlevel d0) (dbits d0) (dkind d0) ds [] [] [] with
    | Raises e => (s, Raises e)
    | Ok (rows, names, props) =>
      match dbits d0 with
      | None => (s, Raises EOther)              (* vstack of None blocks: outside the model's domain *)
      | Some b =>
        if negb (forallb (fun c => Nat.eqb (length (snd c)) (length rows)) props) then (s, Raises EValue)
        else let '(bs1, c) := alloc_csr (bufs s) rows b in
             let '(bs2, ps) := alloc_cols bs1 props in
             (push_obj s bs2 (mkobj (dkind d0) (dlevel d0) (Some c) names (names_map [] names 0) ps), Ok (ONew (new_handle s)))
      end
    end
  end.

(* --- __getitem__ / __iter__ *)
Definition row_props (d : db) (i : nat) : list (string * pval) := map (fun c => (fst c, nth i (snd c) (VInt 0))) (dprops d).

Definition fprint_at (d : db) (bits : Z) (i : nat) : fp * list (string * pval) :=
  (row_fp (dkind d) bits (dlevel d) (nth i (dnames d) None) (nth i (drows d) []), row_props d i).

Definition get_int (d : db) (i : Z) : result out :=
  match dbits d with
  | None => Raises EType                                                 (* None[i, :] *)
  | Some b =>
    let n := Z.of_nat (fp_num d) in
    if (i <? - n) || (n <=? i) then Raises EIndex
    else let j := Z.to_nat (if i <? 0 then i + n else i) in
         let '(f, ps) := fprint_at d b j in Ok (OFp f ps)
  end.

Definition h_getname (s : state) (oid : nat) (o : obj) (nm : string) : state * result out :=
  let d := view (bufs s) o in
  if negb (idx_mem (Some nm) (oindex o)) then (s, Raises EKey)
  else let '(ix1, l) := dd_get (oindex o) (Some nm) in
       let s1 := mkst (bufs s) (set_obj (objs s) oid (mkobj (okind o) (olevel o) (oarr o) (onames o) ix1 (oprops o))) (pool s) in
       match dbits d with
       | None => (s1, Raises EType)
       | Some b => (s1, Ok (OFps (map (fun i => fprint_at d b (Z.to_nat i)) l)))
       end.

Definition iter_db (d : db) : result out :=
  match dbits d with
  | None => Ok (OFps [])
  | Some b => Ok (OFps (map (fun i => (fst (fprint_at d b i), [])) (seq 0 (fp_num d))))
  end.

(* --- get_density *)
Definition nnz (d : db) : Z := Z.of_nat (length (List.concat (drows d))).
Definition density (d : db) (i : option Z) : result out :=
  match dbits d with
  | None => Raises EOther                                                (* AttributeError *)
  | Some b =>
    let n := Z.of_nat (fp_num d) in
    match i with
    | Some j => if n =? 0 then Raises EOther
                else Ok (OQ (inject_Z (Z.of_nat (length (filter (fun iv => fst iv =? j) (List.concat (drows d))))) / inject_Z n))
    | None => if b * n =? 0 then Raises EOther else Ok (OQ (inject_Z (nnz d) / inject_Z (b * n)))
    end
  end.

(* --- dense / sparse input of from_array: a dense array keeps its non-zero cells, then the dtype cast *)
Definition input_rows (k : kind) (dense : bool) (rs : list row) : list row :=
  map (fun r => cast_row k (if dense then filter (fun iv => qnz (snd iv)) r else r)) rs.

(* --- metrics on two databases: as_type(fp_type, copy=False) where the measure asks for it, csr_matrix(array, copy=False,
   dtype=float) (copied when not canonical - the repaired defect), then pure computations: nothing reachable is written *)
Definition h_metric (s : state) (m : metric) (o1 o2 : obj) : state * result out :=
  match oarr o1, oarr o2 with
  | Some c1, Some c2 => if cbits c1 =? cbits c2 then (s, Ok ONone) else (s, Raises EBits)
  | None, None => (s, Raises EOther)
  | _, _ => (s, Raises EBits)
  end.

(* --- pickle.loads(pickle.dumps(db)) / copy.deepcopy(db): __getstate__ / __setstate__, everything new *)
Definition h_pickle (s : state) (ob : obj) : state * result out :=
  match dbits (view (bufs s) ob) with
  | Some b =>
    let '(bs1, c) := alloc_csr (bufs s) (drows (view (bufs s) ob)) b in
    let '(bs2, ps) := alloc_cols bs1 (dprops (view (bufs s) ob)) in
    (push_obj s bs2 (mkobj (okind ob) (olevel ob) (Some c) (onames ob) (names_map [] (onames ob) 0) ps), Ok (ONew (new_handle s)))
  | None =>
    let '(bs2, ps) := alloc_cols (bufs s) (dprops (view (bufs s) ob)) in
    (push_obj s bs2 (mkobj (okind ob) (olevel ob) None (onames ob) (names_map [] (onames ob) 0) ps), Ok (ONew (new_handle s)))
  end.

Definition step (s : state) (o : op) : state * result out :=
  match o with
  | OpNew k lv => (push_obj s (bufs s) (mkobj k lv None [] [] []), Ok (ONew (new_handle s)))
  | OpFromArray k lv bits dense rs names cols => new_db_fresh s k lv bits (input_rows k dense rs) names cols
  | OpAdd h fps => match lookup s h with Some (oid, ob) => h_add s oid ob fps | None => (s, Raises EOther) end
  | OpSetProp h key vals => match lookup s h with Some (oid, ob) => h_update_props s oid ob [(key, vals)] false | None => (s, Raises EOther) end
  | OpUpdateProps h cols ap => match lookup s h with Some (oid, ob) => h_update_props s oid ob cols ap | None => (s, Raises EOther) end
  | OpSubset h names => match lookup s h with Some (oid, ob) => h_subset s oid ob names | None => (s, Raises EOther) end
  | OpAsType h k copy => match lookup s h with Some (oid, ob) => h_astype s oid ob k copy | None => (s, Raises EOther) end
  | OpCopy h => match lookup s h with Some (oid, ob) => h_astype s oid ob (okind ob) true | None => (s, Raises EOther) end
  | OpFold h nb ko => match lookup s h with Some (oid, ob) => h_fold s oid ob nb ko | None => (s, Raises EOther) end
  | OpPickle h => match lookup s h with Some (_, ob) => h_pickle s ob | None => (s, Raises EOther) end
  | OpReload h fpz => match lookup s h with
                      | Some (_, ob) => if fpz && (match oarr ob with None => true | Some _ => false end)
                                        then (s, Raises EOther)               (* savez: None.data *)
                                        else h_pickle s ob                    (* everything read from the file is new *)
                      | None => (s, Raises EOther) end
  | OpConcat hs => match lookup_all s hs with Some os => h_concat s os | None => (s, Raises EOther) end
  | OpGetInt h i => match lookup s h with Some (_, ob) => (s, get_int (view (bufs s) ob) i) | None => (s, Raises EOther) end
  | OpGetName h nm => match lookup s h with Some (oid, ob) => h_getname s oid ob nm | None => (s, Raises EOther) end
  | OpIter h => match lookup s h with Some (_, ob) => (s, iter_db (view (bufs s) ob)) | None => (s, Raises EOther) end
  | OpEq h1 h2 => match lookup s h1, lookup s h2 with
                  | Some (_, a), Some (_, b) => (s, Ok (OBool (db_eq (view (bufs s) a) (view (bufs s) b))))
                  | _, _ => (s, Raises EOther) end
  | OpDensity h i => match lookup s h with Some (_, ob) => (s, density (view (bufs s) ob) i) | None => (s, Raises EOther) end
  | OpLen h => match lookup s h with Some (_, ob) => (s, Ok (OZ (Z.of_nat (fp_num (view (bufs s) ob))))) | None => (s, Raises EOther) end
  | OpMetric m h1 h2 => match lookup s h1, lookup s h2 with
                        | Some (_, a), Some (_, b) => h_metric s m a b
                        | _, _ => (s, Raises EOther) end
  end.

Fixpoint run (s : state) (ops : list op) : state :=
  match ops with [] => s | o :: t => run (fst (step s o)) t end.

(* the database a handle denotes *)
Definition handle_db (s : state) (h : nat) : option db :=
  match lookup s h with Some (_, o) => Some (view (bufs s) o) | None => None end.

(* ------------------------------------------------------------------------------------------------ abstraction *)
(* what a database contains: per row its name, its stored row and its property values *)
Definition entry := (okey * row * list (string * pval))%type.
Definition abs (d : db) : list entry :=
  map (fun i => (nth i (dnames d) None, nth i (drows d) [], row_props d i)) (seq 0 (fp_num d)).

(* ================================================================================================ observation (correspondence) *)
Definition pval_eqb (a b : pval) : bool :=
  match a, b with
  | VInt x, VInt y => x =? y
  | VFloat x, VFloat y => Qeq_bool x y
  | VBool x, VBool y => Bool.eqb x y
  | VStr x, VStr y => String.eqb x y
  | _, _ => false
  end.
Definition row_eqb (a b : row) : bool := list_eqb (fun x y => (fst x =? fst y) && Qeq_bool (snd x) (snd y)) a b.
Definition cols_eqb (a b : list col) : bool :=
  Nat.eqb (length a) (length b) &&
  forallb (fun c => match aget (fst c) b with Some v => list_eqb pval_eqb (snd c) v | None => false end) a.
Definition index_obs_eqb (a b : index) : bool :=
  list_eqb (fun x y => okey_eqb (fst x) (fst y) && list_eqb Z.eqb (snd x) (snd y)) a b.
Definition db_obs_eqb (a b : db) : bool :=
  kind_eqb (dkind a) (dkind b) && option_eqb Z.eqb (dlevel a) (dlevel b) && option_eqb Z.eqb (dbits a) (dbits b)
  && list_eqb row_eqb (drows a) (drows b) && list_eqb okey_eqb (dnames a) (dnames b)
  && index_obs_eqb (dindex a) (dindex b) && cols_eqb (dprops a) (dprops b).

Definition kv_eqb (a b : list (string * pval)) : bool :=
  Nat.eqb (length a) (length b) &&
  forallb (fun c => match aget (fst c) b with Some v => pval_eqb (snd c) v | None => false end) a.
Definition fpp_eqb (a b : fp * list (string * pval)) : bool := fp_obs_eqb (fst a) (fst b) && kv_eqb (snd a) (snd b).

Definition out_eqb (a b : out) : bool :=
  match a, b with
  | ONone, ONone => true
  | ONew x, ONew y => Nat.eqb x y
  | OFp f p, OFp g q => fpp_eqb (f, p) (g, q)
  | OFps l, OFps m => list_eqb fpp_eqb l m
  | OBool x, OBool y => Bool.eqb x y
  | OQ x, OQ y => q_close (Qmake 1 1000000000) x y
  | OZ x, OZ y => x =? y
  | _, _ => false
  end.

(* what the harness records after every step for every live handle: the database, db[i] for every i, == against
   every live handle *)
Record live_obs := mklive { lo_handle : nat; lo_db : db; lo_items : list (fp * list (string * pval)); lo_eq : list bool }.

Definition items_of (d : db) : list (fp * list (string * pval)) :=
  match dbits d with Some b => map (fprint_at d b) (seq 0 (fp_num d)) | None => [] end.

Definition live_ok (s : state) (live : list nat) (e : live_obs) : bool :=
  match handle_db s (lo_handle e) with
  | None => false
  | Some d => db_obs_eqb d (lo_db e) && list_eqb fpp_eqb (items_of d) (lo_items e)
              && list_eqb Bool.eqb (map (fun h => match handle_db s h with Some d' => db_eq d d' | None => false end) live) (lo_eq e)
  end.

(* one recorded step: the operation, the implementation's outcome, the observations of every live handle afterwards *)
Definition trace_step := (op * result out * list live_obs)%type.

(* index of the first step at which model and implementation differ; -1 when the whole history agrees *)
Fixpoint first_divergence (s : state) (tr : list trace_step) (n : Z) : Z :=
  match tr with
  | [] => -1
  | (o, r, obs) :: t =>
    let '(s1, r1) := step s o in
    if result_eqb out_eqb r1 r && forallb (live_ok s1 (map lo_handle obs)) obs then first_divergence s1 t (n + 1) else n
  end.

Definition history_ok (tr : list trace_step) : bool := first_divergence init tr 0 =? -1.
