(* M3 (I/O part) - e3fp.fingerprint.db.FingerprintDatabase: savez / load, the deprecated pickle path
   (__getstate__ / __setstate__), update_names_map and savetxt, as coded in /repo/src/e3fp/fingerprint/db.py.

   Self-contained on purpose (Model/Db.v, the state machine of the database, is written separately): a database is the
   value record `db` below - the raw CSR triple exactly as SciPy holds it (no canonical form is assumed: unsorted or
   duplicate column indices and explicit zeros are representable), the name list with None, the name index
   (fp_names_to_indices, in dict insertion order) and the property columns as NumPy arrays.

   NumPy arrays are `array_value`s: dtype, 0-d flag and payload.  Numeric payloads are integers: bool as 0/1, integer
   dtypes as themselves, floats as their IEEE-754 bit pattern (so that "lossless" means bit-exact, NaN/inf/-0.0 included).
   `<U` arrays hold the strings *as NumPy returns them*, i.e. without trailing NUL characters (np.array(['a\0'])[0] == 'a').
   Strings are byte strings (UTF-8); the `<U` width counts code points.

   The archive (np.savez_compressed / np.load(allow_pickle=True)) and pickle are NOT modelled: they are the functions
   `npz_write/npz_read`, `pkl_dumps/pkl_loads` of Section Files, and the theorems assume they round-trip (trusted base). *)
From Coq Require Import Ascii.
From E3FP Require Import Base.Prelude.
Open Scope Z_scope.

(* ---- vocabulary -------------------------------------------------------------------------------------------------- *)
Inductive fpkind := KBit | KCount | KFloat.        (* Fingerprint | CountFingerprint | FloatFingerprint *)

Definition fpkind_eqb (a b : fpkind) : bool :=
  match a, b with KBit, KBit | KCount, KCount | KFloat, KFloat => true | _, _ => false end.

(* the NumPy dtypes that occur: bool, intN, uintN, floatN (N in bytes), <U width, object *)
Inductive dtype := DBool | DInt (bytes : Z) | DUInt (bytes : Z) | DFloat (bytes : Z) | DStr (width : Z) | DObj.

Definition dtype_eqb (a b : dtype) : bool :=
  match a, b with
  | DBool, DBool | DObj, DObj => true
  | DInt x, DInt y | DUInt x, DUInt y | DFloat x, DFloat y | DStr x, DStr y => x =? y
  | _, _ => false
  end.

(* the Python objects found inside object arrays *)
Inductive pyobj := ONone | OStr (s : string) | OKind (k : fpkind).

Definition pyobj_eqb (a b : pyobj) : bool :=
  match a, b with
  | ONone, ONone => true
  | OStr s, OStr t => String.eqb s t
  | OKind k, OKind l => fpkind_eqb k l
  | _, _ => false
  end.

Inductive payload := PNum (v : list Z) | PStr (v : list string) | PObj (v : list pyobj).

Definition payload_eqb (a b : payload) : bool :=
  match a, b with
  | PNum v, PNum w => list_eqb Z.eqb v w
  | PStr v, PStr w => list_eqb String.eqb v w
  | PObj v, PObj w => list_eqb pyobj_eqb v w
  | _, _ => false
  end.

Record array_value := mkarr { a_dtype : dtype; a_scalar : bool (* 0-d *); a_pay : payload }.

Definition array_eqb (a b : array_value) : bool :=
  dtype_eqb (a_dtype a) (a_dtype b) && Bool.eqb (a_scalar a) (a_scalar b) && payload_eqb (a_pay a) (a_pay b).

Definition a_len (a : array_value) : Z :=
  match a_pay a with PNum v => Z.of_nat (length v) | PStr v => Z.of_nat (length v) | PObj v => Z.of_nat (length v) end.

(* a Python dict with str keys, in insertion order *)
Definition dict := list (string * array_value).

Fixpoint dict_set (d : dict) (k : string) (v : array_value) : dict :=
  match d with
  | [] => [(k, v)]
  | (k', v') :: t => if String.eqb k k' then (k, v) :: t else (k', v') :: dict_set t k v
  end.

Fixpoint dict_get (d : dict) (k : string) : option array_value :=
  match d with
  | [] => None
  | (k', v) :: t => if String.eqb k k' then Some v else dict_get t k
  end.

Definition dict_of_list (l : dict) : dict := fold_left (fun d kv => dict_set d (fst kv) (snd kv)) l [].

Definition dict_eqb (a b : dict) : bool := list_eqb (pair_eqb String.eqb array_eqb) a b.

Definition name := option string.          (* a fingerprint name: str or None *)
Definition name_eqb : name -> name -> bool := option_eqb String.eqb.
Definition index := list (name * list Z).  (* fp_names_to_indices (defaultdict(list)), insertion order *)

Record db := mkdb {
  d_kind : fpkind;                 (* fp_type *)
  d_level : option Z;              (* level (None allowed) *)
  d_name : option string;          (* database name *)
  d_nrows : Z; d_bits : Z;         (* array.shape *)
  d_idxw : Z;                      (* byte width of array.indices / array.indptr: 4 (int32) or 8 (int64) *)
  d_data : list Z;                 (* array.data, dtype = kind_dtype d_kind (from_array and add_fingerprints both cast) *)
  d_indices : list Z;              (* array.indices *)
  d_indptr : list Z;               (* array.indptr *)
  d_names : list name;             (* fp_names *)
  d_index : index;                 (* fp_names_to_indices *)
  d_props : dict }.                (* props: key -> ndarray *)

Definition index_eqb (a b : index) : bool := list_eqb (pair_eqb name_eqb (list_eqb Z.eqb)) a b.

Definition db_eqb (a b : db) : bool :=
  fpkind_eqb (d_kind a) (d_kind b) && option_eqb Z.eqb (d_level a) (d_level b) &&
  option_eqb String.eqb (d_name a) (d_name b) && (d_nrows a =? d_nrows b) && (d_bits a =? d_bits b) &&
  (d_idxw a =? d_idxw b) && list_eqb Z.eqb (d_data a) (d_data b) && list_eqb Z.eqb (d_indices a) (d_indices b) &&
  list_eqb Z.eqb (d_indptr a) (d_indptr b) && list_eqb name_eqb (d_names a) (d_names b) &&
  index_eqb (d_index a) (d_index b) && dict_eqb (d_props a) (d_props b).

(* dtype_from_fptype: FP_DTYPE = bool, COUNT_FP_DTYPE = uint16, FLOAT_FP_DTYPE = float64 *)
Definition kind_dtype (k : fpkind) : dtype :=
  match k with KBit => DBool | KCount => DUInt 2 | KFloat => DFloat 8 end.

(* ---- strings ----------------------------------------------------------------------------------------------------- *)
Definition bytes_to_string (l : list Z) : string :=
  fold_right (fun z s => String (ascii_of_nat (Z.to_nat z)) s) EmptyString l.

Definition is_nul (c : ascii) : bool := Ascii.eqb c zero.

(* what NumPy hands back for a string stored in a <U array: trailing NULs are gone *)
Fixpoint strip_nul (s : string) : string :=
  match s with
  | EmptyString => EmptyString
  | String c r => match strip_nul r with
                  | EmptyString => if is_nul c then EmptyString else String c EmptyString
                  | r' => String c r'
                  end
  end.

(* number of code points of a UTF-8 byte string: bytes that are not continuation bytes 10xxxxxx *)
Definition is_cont (c : ascii) : bool :=
  match c with Ascii _ _ _ _ _ _ b6 b7 => b7 && negb b6 end.

Fixpoint ulen (s : string) : Z :=
  match s with EmptyString => 0 | String c r => (if is_cont c then 0 else 1) + ulen r end.

Definition starts_underscore (s : string) : bool :=
  match s with String c _ => Ascii.eqb c "_"%char | EmptyString => false end.   (* k.startswith("_") *)

Definition drop1 (s : string) : string := match s with String _ r => r | EmptyString => EmptyString end.  (* k[1:] *)

Definition prefix_key (k : string) : string := String "_"%char k.               (* "_" + str(k) *)

(* ---- the name index ---------------------------------------------------------------------------------------------- *)
(* self.fp_names_to_indices[name].append(i): defaultdict(list) *)
Fixpoint idx_append (ix : index) (n : name) (i : Z) : index :=
  match ix with
  | [] => [(n, [i])]
  | (m, l) :: t => if name_eqb n m then (m, l ++ [i]) :: t else (m, l) :: idx_append t n i
  end.

(* update_names_map(new_names, offset) *)
Fixpoint update_names_map (ix : index) (new_names : list name) (offset : Z) : index :=
  match new_names with
  | [] => ix
  | n :: t => update_names_map (idx_append ix n offset) t (offset + 1)
  end.

(* update_names_map() on an empty map: what from_array, __setstate__ and concat do *)
Definition names_index (ns : list name) : index := update_names_map [] ns 0.

Fixpoint idx_get (ix : index) (n : name) : list Z :=
  match ix with [] => [] | (m, l) :: t => if name_eqb n m then l else idx_get t n end.

(* add_fingerprints called once per batch on an initially empty database: the pair (fp_names, fp_names_to_indices) *)
Definition add_batch (st : list name * index) (batch : list name) : list name * index :=
  (fst st ++ batch, update_names_map (snd st) batch (Z.of_nat (length (fst st)))).

Definition add_batches (bs : list (list name)) : list name * index := fold_left add_batch bs ([], []).

(* ---- savez ------------------------------------------------------------------------------------------------------- *)
Definition all_some (ns : list name) : bool := forallb (fun n => match n with Some _ => true | None => false end) ns.

Definition name_obj (n : name) : pyobj := match n with None => ONone | Some s => OStr s end.

Definition max_ulen (ss : list string) : Z := fold_right (fun s m => Z.max (ulen s) m) 1 ss.

(* np.array(self.fp_names): a <U array when every name is a str, an object array as soon as one is None;
   np.array([]) is an empty float64 array *)
Definition names_array (ns : list name) : array_value :=
  match ns with
  | [] => mkarr (DFloat 8) false (PNum [])
  | _ => if all_some ns
         then let ss := flat_map (fun n => match n with Some s => [s] | None => [] end) ns in
              mkarr (DStr (max_ulen ss)) false (PStr (map strip_nul ss))
         else mkarr DObj false (PObj (map name_obj ns))
  end.

(* np.asanyarray(self.level): 0-d int64, or 0-d object for None *)
Definition level_array (l : option Z) : array_value :=
  match l with Some z => mkarr (DInt 8) true (PNum [z]) | None => mkarr DObj true (PObj [ONone]) end.

Definition dbname_array (n : option string) : array_value :=
  match n with
  | Some s => mkarr (DStr (Z.max 1 (ulen s))) true (PStr [strip_nul s])
  | None => mkarr DObj true (PObj [ONone])
  end.

Definition fixed_part (x : db) : dict :=
  [ ("data"%string, mkarr (kind_dtype (d_kind x)) false (PNum (d_data x)));
    ("shape"%string, mkarr (DInt 8) false (PNum [d_nrows x; d_bits x]));
    ("indices"%string, mkarr (DInt (d_idxw x)) false (PNum (d_indices x)));
    ("indptr"%string, mkarr (DInt (d_idxw x)) false (PNum (d_indptr x)));
    ("fp_names"%string, names_array (d_names x));
    ("level"%string, level_array (d_level x));
    ("name"%string, dbname_array (d_name x));
    ("fp_type"%string, mkarr DObj true (PObj [OKind (d_kind x)])) ].

Definition fixed_keys : list string :=
  ["data"; "shape"; "indices"; "indptr"; "fp_names"; "level"; "name"; "fp_type"]%string.

(* array_dict = {...}; for k, v in self.props.items(): array_dict["_" + str(k)] = v *)
Definition savez (x : db) : dict :=
  fold_left (fun d kv => dict_set d (prefix_key (fst kv)) (snd kv)) (d_props x) (fixed_part x).

(* ---- load -------------------------------------------------------------------------------------------------------- *)
Definition get_key (d : dict) (k : string) : result array_value :=
  match dict_get d k with Some a => Ok a | None => Raises EKey end.

Definition num_of (a : array_value) : result (list Z) :=
  match a_pay a with PNum v => Ok v | _ => Raises EOther end.

(* ndarray.item(): the single element (a Python int for a numeric array) *)
Inductive pyval := VObj (o : pyobj) | VInt (z : Z).

Definition item_of (a : array_value) : result pyval :=
  match a_pay a with
  | PNum [z] => Ok (VInt z)
  | PStr [s] => Ok (VObj (OStr s))
  | PObj [o] => Ok (VObj o)
  | _ => Raises EValue
  end.

Fixpoint names_of_objs (l : list pyobj) : result (list name) :=
  match l with
  | [] => Ok []
  | o :: t => rbind (names_of_objs t) (fun r =>
                match o with ONone => Ok (None :: r) | OStr s => Ok (Some s :: r) | OKind _ => Raises EOther end)
  end.

(* list(fp_names) *)
Definition names_of_array (a : array_value) : result (list name) :=
  match a_pay a with
  | PStr v => Ok (map Some v)
  | PObj v => names_of_objs v
  | PNum [] => Ok []
  | PNum _ => Raises EOther        (* numeric names: not modelled *)
  end.

Definition int32_max : Z := 2147483647.
Definition fits_int32 (z : Z) : bool := (- int32_max - 1 <=? z) && (z <=? int32_max).

(* scipy.sparse get_index_dtype((indices, indptr), maxval=max(shape), check_contents=True) *)
Definition canon_idxw (nrows bits : Z) (indices indptr : list Z) : Z :=
  if (Z.max nrows bits <=? int32_max) && forallb fits_int32 indices && forallb fits_int32 indptr then 4 else 8.

(* csr_matrix(array, dtype=dtype): only the casts that can be reached are given a value *)
Definition cast_data (from to : dtype) (v : list Z) : result (list Z) :=
  if dtype_eqb from to then Ok v
  else match from, to with
       | (DInt _ | DUInt _), DBool => Ok (map (fun z => if z =? 0 then 0 else 1) v)
       | DBool, (DInt _ | DUInt _) => Ok v
       | _, _ => Raises EOther
       end.

(* update_props(props) of from_array: every column is checked (shape[0] == len(fp_names)) before any is stored *)
Fixpoint check_props (ps : dict) (n : Z) : result unit :=
  match ps with
  | [] => Ok tt
  | (_, a) :: t => if a_scalar a then Raises EIndex
                   else if a_len a =? n then check_props t n else Raises EValue
  end.

Definition kind_of_dtype (dt : dtype) : fpkind :=      (* fptype_from_dtype, falling back to Fingerprint *)
  match dt with DUInt 2 => KCount | DFloat 8 => KFloat | _ => KBit end.

Definition load (d : dict) : result db :=
  let props_dict := dict_of_list (map (fun kv => (drop1 (fst kv), snd kv))
                                      (filter (fun kv => starts_underscore (fst kv)) d)) in
  let rest := filter (fun kv => negb (starts_underscore (fst kv))) d in
  rbind (get_key rest "data") (fun a_data =>
  rbind (get_key rest "indices") (fun a_indices =>
  rbind (get_key rest "indptr") (fun a_indptr =>
  rbind (get_key rest "shape") (fun a_shape =>
  rbind (num_of a_data) (fun data =>
  rbind (num_of a_indices) (fun indices =>
  rbind (num_of a_indptr) (fun indptr =>
  rbind (num_of a_shape) (fun shape =>
  match shape with
  | [nrows; bits] =>
    rbind (get_key rest "fp_names") (fun a_names =>
    rbind (get_key rest "fp_type") (fun a_type =>
    rbind (get_key rest "level") (fun a_level =>
    rbind (get_key rest "name") (fun a_name =>
    rbind (rbind (item_of a_type) (fun v => match v with
           | VObj (OKind k) => Ok k
           | VObj ONone => Ok (kind_of_dtype (a_dtype a_data))
           | _ => Raises EInvalidFp
           end)) (fun kind =>
    rbind (rbind (item_of a_level) (fun v => match v with
           | VInt z => Ok (Some z)
           | VObj ONone => Ok None
           | _ => Raises EOther                  (* other level objects: not modelled *)
           end)) (fun level =>
    rbind (rbind (item_of a_name) (fun v => match v with
           | VObj (OStr s) => Ok (Some s)
           | VObj ONone => Ok None
           | _ => Raises EOther                  (* other name objects: not modelled *)
           end)) (fun dbname =>
    rbind (cast_data (a_dtype a_data) (kind_dtype kind) data) (fun data' =>
    rbind (names_of_array a_names) (fun names =>
    rbind (check_props props_dict (Z.of_nat (length names))) (fun _ =>
    Ok (mkdb kind level dbname nrows bits (canon_idxw nrows bits indices indptr) data' indices indptr
             names (names_index names) (dict_of_list props_dict))))))))))))
  | _ => Raises EOther
  end)))))))).

(* ---- pickle path (deprecated save / load of .fps files) ------------------------------------------------------------ *)
(* __getstate__: everything but the name index *)
Record pstate := mkpstate {
  ps_name : option string; ps_kind : fpkind; ps_level : option Z;
  ps_nrows : Z; ps_bits : Z; ps_idxw : Z; ps_data : list Z; ps_indices : list Z; ps_indptr : list Z;
  ps_names : list name;
  ps_props : option dict }.       (* None: a pickle written before props existed *)

Definition getstate (x : db) : pstate :=
  mkpstate (d_name x) (d_kind x) (d_level x) (d_nrows x) (d_bits x) (d_idxw x) (d_data x) (d_indices x) (d_indptr x)
           (d_names x) (Some (d_props x)).

(* __setstate__: update __dict__, fresh defaultdict, update_names_map(), props default *)
Definition setstate (s : pstate) : db :=
  mkdb (ps_kind s) (ps_level s) (ps_name s) (ps_nrows s) (ps_bits s) (ps_idxw s) (ps_data s) (ps_indices s) (ps_indptr s)
       (ps_names s) (update_names_map [] (ps_names s) 0)
       (match ps_props s with Some p => p | None => [] end).

Definition pstate_eqb (a b : pstate) : bool :=
  db_eqb (setstate a) (setstate b) &&
  match ps_props a, ps_props b with Some _, Some _ | None, None => true | _, _ => false end.

(* ---- files: the two formats, over an unmodelled archive / pickle ---------------------------------------------------- *)
Section Files.
  Variables zfile pfile : Type.
  Variable npz_write : dict -> zfile.      (* np.savez_compressed(f, **array_dict) *)
  Variable npz_read : zfile -> dict.       (* dict(np.load(fn, allow_pickle=True).items()) *)
  Variable pkl_dumps : pstate -> pfile.    (* pkl.dump(self, f): pickles __getstate__() *)
  Variable pkl_loads : pfile -> pstate.

  Definition savez_file (x : db) : zfile := npz_write (savez x).
  Definition load_fpz (f : zfile) : result db := load (npz_read f).
  Definition save_file (x : db) : pfile := pkl_dumps (getstate x).
  Definition load_fps (f : pfile) : db := setstate (pkl_loads f).

  (* n save/load cycles *)
  Fixpoint cycles_fpz (n : nat) (x : db) : result db :=
    match n with O => Ok x | S m => rbind (load_fpz (savez_file x)) (cycles_fpz m) end.
  Fixpoint cycles_fps (n : nat) (x : db) : db :=
    match n with O => x | S m => cycles_fps m (load_fps (save_file x)) end.
End Files.

(* without the files: the dictionary / state handed over directly *)
Fixpoint cycles_dict (n : nat) (x : db) : result db :=
  match n with O => Ok x | S m => rbind (load (savez x)) (cycles_dict m) end.

(* ---- savetxt ----------------------------------------------------------------------------------------------------- *)
Fixpoint zeros (n : nat) : string := match n with O => EmptyString | S k => String "0"%char (zeros k) end.

(* "0" * j : empty for j <= 0 *)
Definition py_zeros (j : Z) : string := zeros (Z.to_nat j).

(* np.diff *)
Fixpoint diffs (l : list Z) : list Z :=
  match l with
  | a :: (b :: _) as t => (b - a) :: diffs t
  | _ => []
  end.

(* "1".join(["0" * j for j in np.diff(np.r_[-1, indices, self.bits]) - 1]) *)
Definition row_string (indices : list Z) (bits : Z) : string :=
  String.concat "1" (map (fun dlt => py_zeros (dlt - 1)) (diffs ((-1) :: indices ++ [bits]))).

(* l[a:b] for 0 <= a *)
Definition slice {A} (l : list A) (a b : Z) : list A := firstn (Z.to_nat (b - a)) (skipn (Z.to_nat a) l).

Definition nl : string := String (ascii_of_nat 10) EmptyString.

(* the loop body for rows i, i+1, ... (n of them); the text written so far is lost to the caller on an exception
   (the file keeps the complete lines written before it) *)
Fixpoint savetxt_rows (x : db) (with_names : bool) (n : nat) (i : nat) : result string :=
  match n with
  | O => Ok EmptyString
  | S n' =>
    match nth_error (d_indptr x) i, nth_error (d_indptr x) (S i) with
    | Some a, Some b =>
      let bs := row_string (slice (d_indices x) a b) (d_bits x) in
      match nth_error (d_names x) i with
      | None => Raises EIndex
      | Some nm =>
        rbind (if with_names
               then match nm with Some s => Ok (bs ++ " " ++ s)%string | None => Raises EType end
               else Ok bs) (fun line =>
        rbind (savetxt_rows x with_names n' (S i)) (fun rest => Ok (line ++ nl ++ rest)%string))
      end
    | _, _ => Raises EIndex
    end
  end.

Definition savetxt (x : db) (with_names : bool) : result string :=
  match d_kind x with
  | KBit => savetxt_rows x with_names (Z.to_nat (d_nrows x)) 0
  | _ => Raises EInvalidFp
  end.

(* rows of the matrix, as column-index lists, in row order *)
Fixpoint rows_from (indices : list Z) (indptr : list Z) : list (list Z) :=
  match indptr with
  | a :: (b :: _) as t => slice indices a b :: rows_from indices t
  | _ => []
  end.

Definition rows (x : db) : list (list Z) := rows_from (d_indices x) (d_indptr x).

(* ---- well-formedness: what every database built through the API satisfies (checked on every generated database) --- *)
Definition nul_clean (s : string) : bool := String.eqb (strip_nul s) s.

Fixpoint nodupb (l : list string) : bool :=
  match l with [] => true | k :: t => negb (existsb (String.eqb k) t) && nodupb t end.

Definition wfb (x : db) : bool :=
  nodupb (map fst (d_props x)) &&
  (d_idxw x =? canon_idxw (d_nrows x) (d_bits x) (d_indices x) (d_indptr x)) &&
  index_eqb (d_index x) (names_index (d_names x)) &&
  forallb (fun n => match n with Some s => nul_clean s | None => true end) (d_names x) &&
  match d_name x with Some s => nul_clean s | None => true end &&
  forallb (fun kv => negb (a_scalar (snd kv)) && (a_len (snd kv) =? Z.of_nat (length (d_names x)))) (d_props x).
