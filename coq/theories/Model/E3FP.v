(* M1 - the E3FP fingerprinting core: e3fp.fingerprint.fprinter.Fingerprinter for one (molecule, conformer, options).

   Input `mol`: what the code reads from RDKit (atom getters, bonds with their bond-type tag, coordinates).
   `run` performs initialize_mol (heavy-atom / floating filters, bond codes, invariants, level-0 hashes),
   the shell iteration of Fingerprinter.__next__ / ShellsGenerator (neighbour sets from squared distances,
   atom_tuples_from_shell, identifier hashing, duplicate-substructure removal in (identifier, atom) order,
   set union under Shell.__eq__, the three stopping rules) and the queries get_shells_at_level /
   get_fingerprint_at_level.  See DESIGN.md Appendix A. *)
From Coq Require Import QArith.
From E3FP Require Import Base.Prelude Base.ZSet Base.Murmur3 Model.Geometry Model.Stereo Model.Fprint Gen.Constants.
Open Scope Z_scope.

Record opts := mkopts {
  o_level : Z;          (* -1: until convergence (None is mapped to -1 by the constructor) *)
  o_mnum : Z; o_mden : Z;   (* radius_multiplier = mnum / mden, exact value of the double, mden > 0 *)
  o_stereo : bool;
  o_remdup : bool;      (* remove_duplicate_substructs *)
  o_incl : bool;        (* include_disconnected *)
  o_rdkit : bool;       (* rdkit_invariants *)
  o_exfloat : bool }.   (* exclude_floating *)

(* association lists keyed by atom index *)
Definition amap (A : Type) := list (Z * A).
Fixpoint aget {A} (d : A) (m : amap A) (k : Z) : A :=
  match m with [] => d | (k', v) :: t => if k =? k' then v else aget d t k end.

Fixpoint lookup_bond (t : bond_tag) (tab : list (bond_tag * Z)) : option Z :=
  match tab with
  | [] => None
  | (t', c) :: r =>
    if (match t, t' with
        | BtNone, BtNone | BtSingle, BtSingle | BtDouble, BtDouble | BtTriple, BtTriple
        | BtAromatic, BtAromatic | BtOther, BtOther => true | _, _ => false end)
    then Some c else lookup_bond t r
  end.

Definition lex3_leb (a b : Z * Z * Z) : bool :=
  let '(a1, a2, a3) := a in let '(b1, b2, b3) := b in
  (a1 <? b1) || ((a1 =? b1) && ((a2 <? b2) || ((a2 =? b2) && (a3 <=? b3)))).

Definition zlist_eqb := list_eqb Z.eqb.
Definition zpair_eqb (a b : Z * Z) : bool := (fst a =? fst b) && (snd a =? snd b).
Definition zpair_leb (a b : Z * Z) : bool := (fst a <? fst b) || ((fst a =? fst b) && (snd a <=? snd b)).

Section Core.
Variable D : ringdict.
Variable C : sconsts.
Notation T := (F D).
Notation V := (vec D).
Local Notation "a *' b" := (fmul D a b) (at level 40, left associativity).
Local Notation zF := (fofZ D).

Record atom := mkatom {
  a_idx : Z;       (* GetIdx *)
  a_num : Z;       (* GetAtomicNum *)
  a_deg : Z;       (* number of heavy-atom neighbours (the floating-atom test) *)
  a_tdeg : Z;      (* GetTotalDegree *)
  a_tval : Z;      (* GetTotalValence *)
  a_nh : Z;        (* GetTotalNumHs(includeNeighbors=True) *)
  a_mass : Z;      (* int(GetMass) *)
  a_charge : Z;    (* GetFormalCharge *)
  a_ring : Z;      (* int(IsInRing) *)
  a_dmass : Z;     (* int(GetMass - periodic-table weight) *)
  a_pos : V }.

Record mol := mkmol {
  m_atoms : list atom;                       (* in index order *)
  m_bonds : list (Z * Z * bond_tag);         (* begin, end, type *)
  m_unit2 : T }.                             (* (1 Angstrom)^2 in coordinate units *)

Definition daylight_inv (a : atom) : list Z :=
  [a_tdeg a - a_nh a; a_tval a - a_nh a; a_num a; a_mass a; a_charge a; a_nh a; a_ring a].
Definition rdkit_inv (a : atom) : list Z :=
  [a_num a; a_tdeg a; a_nh a; a_charge a; a_dmass a; a_ring a].

(* initialize_mol: atoms retained *)
Definition retained (o : opts) (m : mol) : list atom :=
  let heavy := filter (fun a => 1 <? a_num a) (m_atoms m) in
  if o_exfloat o && (1 <? Z.of_nat (length heavy))%Z
  then filter (fun a => (1 <? a_num a) && (0 <? a_deg a)) (m_atoms m)
  else heavy.

Definition bond_between (m : mol) (a b : Z) : option bond_tag :=
  match find (fun e => let '(x, y, _) := e in ((x =? a) && (y =? b)) || ((x =? b) && (y =? a))) (m_bonds m) with
  | Some (_, _, t) => Some t
  | None => None
  end.

(* BOND_TYPES[bond type or None]; None = the bond type is not in the table (KeyError) *)
Definition conn_code (m : mol) (a b : Z) : option Z :=
  match bond_between m a b with
  | Some t => lookup_bond t bond_types_table
  | None => lookup_bond BtNone bond_types_table
  end.

(* ---- the scene: everything the iteration consults ------------------------------------------- *)
Record link := mklink { lk_b : Z; lk_d2 : T; lk_vec : V; lk_conn : Z; lk_bonded : bool }.

Record scene := mkscene {
  sc_atoms : list Z;                 (* retained atom indices, increasing *)
  sc_ident0 : amap Z;                (* level-0 identifiers *)
  sc_links : amap (list link);       (* for each atom: every other retained atom *)
  sc_unit2 : T }.

Definition pos_of (ats : list atom) (i : Z) : V :=
  match find (fun a => a_idx a =? i) ats with Some a => a_pos a | None => vzero D end.

Definition scene_of (o : opts) (m : mol) : result scene :=
  let ats := retained o m in
  let ids := map a_idx ats in
  match ids with
  | [] => Raises EValue        (* squareform(pdist([])) *)
  | _ =>
    let mk_links (a : atom) : option (list link) :=
      fold_right (fun b acc =>
        match acc with
        | None => None
        | Some l =>
          if a_idx b =? a_idx a then Some l
          else match conn_code m (a_idx a) (a_idx b) with
               | None => None
               | Some c => let v := vsub D (a_pos b) (a_pos a) in
                           Some (mklink (a_idx b) (dot D v v) v c
                                  (match bond_between m (a_idx a) (a_idx b) with Some _ => true | None => false end) :: l)
               end
        end) (Some []) ats in
    let links := fold_right (fun a acc =>
        match acc, mk_links a with
        | Some l, Some ls => Some ((a_idx a, ls) :: l)
        | _, _ => None
        end) (Some []) ats in
    match links with
    | None => Raises EKey      (* bond type outside BOND_TYPES *)
    | Some ls =>
      Ok (mkscene ids
            (map (fun a => (a_idx a, hash_i64 mmh3_seed (if o_rdkit o then rdkit_inv a else daylight_inv a))) ats)
            ls (m_unit2 m))
    end
  end.

(* ---- one level ------------------------------------------------------------------------------ *)
Record lvl := mklvl {
  l_ident : amap Z;                    (* identifier of every atom's shell at this level *)
  l_sub : amap (list Z);               (* substructure (sorted atom set) *)
  l_mem : amap (list (Z * Z));         (* member shells as (atom, canonical level), sorted *)
  l_canon : amap Z }.                  (* Shell.__eq__ class: least level with the same member set *)

Record shell := mkshell { s_center : Z; s_canon : Z; s_ident : Z; s_sub : list Z }.

Record state := mkstate {
  st_k : Z;                            (* current_level *)
  st_levels : list lvl;                (* most recent first; length = k+1 *)
  st_past : list (list Z);             (* past_substructs *)
  st_shells : list (list shell) }.     (* level_shells[k], level_shells[k-1], ... *)

Variable o : opts.
Variable sc : scene.

Definition links_of (a : Z) : list link := aget [] (sc_links sc) a.

(* get_match_atoms at radius k * multiplier: d <= k*mult  <=>  0 <= k*mult  and  d^2 * mden^2 <= k^2 * mnum^2 * unit2 *)
Definition near (k : Z) (l : link) : bool :=
  (0 <=? k * o_mnum o) &&       (* a negative radius (negative multiplier) contains nothing: distances are >= 0 *)
  fleb D (lk_d2 l *' zF (o_mden o * o_mden o)) (zF (k * k * (o_mnum o * o_mnum o)) *' sc_unit2 sc).

Definition nbrs (k : Z) (a : Z) : list link :=
  filter (fun l => near k l && (o_incl o || lk_bonded l)) (links_of a).

Definition level0 : lvl :=
  mklvl (sc_ident0 sc)
        (map (fun a => (a, [a])) (sc_atoms sc))
        (map (fun a => (a, [])) (sc_atoms sc))
        (map (fun a => (a, 0)) (sc_atoms sc)).

(* atom_tuples_from_shell + identifier_from_shell *)
Definition ident_next (k : Z) (prev : lvl) (a : Z) (nb_links : list link) : Z :=
  let ns := sort_by (fun x y => key2_leb (nb_key D x) (nb_key D y))
              (map (fun l => mknb (lk_conn l) (aget 0 (l_ident prev) (lk_b l)) (lk_vec l)) nb_links) in
  let tuples :=
    if o_stereo o
    then sort_by lex3_leb (map (fun xc => (nb_conn (fst xc), nb_ident (fst xc), snd xc))
                               (combine ns (codes D C (sc_unit2 sc) ns)))
    else sort_by lex3_leb (map (fun x => (nb_conn x, nb_ident x, 0)) ns) in
  let flat := if o_stereo o
              then flat_map (fun t => let '(c, i, s) := t in [c; i; s]) tuples
              else flat_map (fun t => let '(c, i, _) := t in [c; i]) tuples in
  hash_i64 mmh3_seed (k :: aget 0 (l_ident prev) a :: flat).

(* least level j (0 .. k) at which atom a had the member set ms; `hist` = levels oldest first *)
Fixpoint canon_search (a : Z) (ms : list (Z * Z)) (hist : list lvl) (j : Z) (dflt : Z) : Z :=
  match hist with
  | [] => dflt
  | l :: t => if list_eqb zpair_eqb (aget [] (l_mem l) a) ms then j else canon_search a ms t (j + 1) dflt
  end.

Definition next_level (k : Z) (levels : list lvl) : lvl :=
  match levels with
  | [] => level0
  | prev :: _ =>
    let per_atom := map (fun a =>
        let nl := nbrs k a in
        let ms := sort_by zpair_leb (map (fun l => (lk_b l, aget 0 (l_canon prev) (lk_b l))) nl) in
        (a, (ident_next k prev a nl,
             usort (a :: flat_map (fun l => aget [] (l_sub prev) (lk_b l)) nl),
             ms,
             canon_search a ms (rev levels) 0 k))) (sc_atoms sc) in
    mklvl (map (fun x => (fst x, fst (fst (fst (snd x))))) per_atom)
          (map (fun x => (fst x, snd (fst (fst (snd x))))) per_atom)
          (map (fun x => (fst x, snd (fst (snd x)))) per_atom)
          (map (fun x => (fst x, snd (snd x))) per_atom)
  end.

Definition shell_of (l : lvl) (a : Z) : shell :=
  mkshell a (aget 0 (l_canon l) a) (aget 0 (l_ident l) a) (aget [] (l_sub l) a).

Definition init_state : state :=
  mkstate 0 [level0] (map (fun a => [a]) (sc_atoms sc)) [map (shell_of level0) (sc_atoms sc)].

Definition mem_sub (s : list Z) (past : list (list Z)) : bool := existsb (zlist_eqb s) past.

Definition same_shell (x y : shell) : bool := (s_center x =? s_center y) && (s_canon x =? s_canon y).

(* duplicate-substructure filter over the shells sorted by (identifier, centre) *)
Fixpoint dedup (cands : list shell) (past : list (list Z)) : list shell * list (list Z) :=
  match cands with
  | [] => ([], past)
  | s :: t =>
    if mem_sub (s_sub s) past then dedup t past
    else let '(acc, p) := dedup t (s_sub s :: past) in (s :: acc, p)
  end.

(* level_shells[k-1].union(set(accepted)) under Shell.__eq__ *)
Fixpoint union_shells (old : list shell) (new : list shell) : list shell :=
  match new with
  | [] => old
  | s :: t => if existsb (same_shell s) old then union_shells old t else union_shells (old ++ [s]) t
  end.

Inductive outcome := Continue (st : state) | Stop (st : state).

Definition all_full (l : lvl) : bool :=
  forallb (fun a => Nat.eqb (length (aget [] (l_sub l) a)) (length (sc_atoms sc))) (sc_atoms sc).

(* one call of Fingerprinter.__next__ after level 0 *)
Definition step (st : state) : outcome :=
  match st_levels st, st_shells st with
  | cur :: _, cur_shells :: _ =>
    if negb (o_level o =? -1) && (o_level o <=? st_k st) then Stop st
    else if o_remdup o && all_full cur then Stop st
    else
      let k' := st_k st + 1 in
      let nl := next_level k' (st_levels st) in
      let cands := sort_by (fun x y => zpair_leb (s_ident x, s_center x) (s_ident y, s_center y))
                     (map (shell_of nl) (sc_atoms sc)) in
      let '(acc, past') := if o_remdup o then dedup cands (st_past st) else (cands, st_past st) in
      let new_shells := union_shells cur_shells acc in
      if Nat.eqb (length new_shells) (length cur_shells) then Stop st
      else Continue (mkstate k' (nl :: st_levels st) past' (new_shells :: st_shells st))
  | _, _ => Stop st
  end.

Fixpoint iterate (fuel : nat) (st : state) : option state :=
  match fuel with
  | O => None                                     (* out of fuel *)
  | S f => match step st with Stop s => Some s | Continue s => iterate f s end
  end.

End Core.

(* ---- the run and its queries ------------------------------------------------------------------ *)
Section Run.
Variable D : ringdict.
Variable C : sconsts.

Definition check_opts (o : opts) : bool := negb ((o_level o =? -1) && negb (o_remdup o)).

(* Fingerprinter(...).run(conf, mol); fuel is a bound on the number of iterations *)
Definition run (fuel : nat) (o : opts) (m : mol D) : result (state) :=
  if negb (check_opts o) then Raises EOther
  else rbind (scene_of D o m) (fun sc =>
       match iterate D C o sc fuel (init_state D sc) with
       | Some st => Ok st
       | None => Raises ERecursion        (* out of fuel: excluded by the termination theorem *)
       end).

(* level_shells as an association list level -> shells *)
Definition shells_at_true (st : state) (lv : Z) : list shell :=
  nth (Z.to_nat (st_k st - lv)) (st_shells st) [].

(* get_shells_at_level(level, atom_mask): resolution of -1 / None / levels not generated *)
Definition resolve_level (o : opts) (st : state) (req : option Z) : Z * option Z :=
  (* returns (true_level, label); the label handed to the fingerprint is the request itself (None and -1 included) *)
  let unresolved := match req with None => true | Some l => (l =? -1) || negb ((0 <=? l) && (l <=? st_k st)) end in
  if unresolved then (st_k st, req)
  else match req with Some l => (l, req) | None => (st_k st, req) end.

Definition disjointb (a b : list Z) : bool := forallb (fun x => negb (zmem x b)) a.

Definition shells_query (o : opts) (st : state) (req : option Z) (mask : list Z) : list shell :=
  let tl := fst (resolve_level o st req) in
  filter (fun s => disjointb (s_sub s) mask) (shells_at_true st tl).

(* get_fingerprint_at_level(level, bits, atom_mask) for a fingerprinter created with `counts`, `bits0` *)
Definition fingerprint_query (o : opts) (counts : bool) (bits : Z) (st : state) (req : option Z) (mask : list Z) : result fp :=
  let label := snd (resolve_level o st req) in
  let ids := map (fun s => unsigned32 (s_ident s)) (shells_query o st req mask) in
  rbind (if counts then mk_count_from_indices KCount ids fprinter_bits label None
         else mk_bit ids fprinter_bits label None)
        (fun f => fp_fold f bits 0).
End Run.
