(* M8 - conformer and SMILES files: e3fp.conformer.util, as the code in /repo is written now.

   Three parts:
   1. SMILES tables on byte strings (`text` = list of byte values, UTF-8): iter_to_smiles / dict_to_smiles /
      smiles_generator / smiles_to_dict.
   2. The energy codec: "{:.4f}" and the "|"-joined `_ConfEnergies` property.  A formatted energy is modelled as an
      integer number of 1e-4 units; float -> "{:.4f}" is round-half-even on the exact value of the double (Python
      formats correctly rounded).  Abstractions, named in the check's trusted base: the sign of a negative zero
      ("-0.0000") is dropped; float(s) of a 4-decimal string is taken to be exactly n/10^4 (the nearest double formats back
      to the same string for |n| < 2^52).
   3. mol_to_sdf / mol_from_sdf: the conformer-limit loops and the save / clear / restore dance on the property map.
      RDKit's SDWriter + ForwardSDMolSupplier are `Section` variables: `G` what identifies the molecule, `C` one conformer's
      coordinates, `rt4 : C -> C` what a coordinate block becomes through write + read (4 decimals).  Properties travel as
      strings; the reader always defines `_Name` (the title line, possibly empty).

   No proofs in this file. *)
From Coq Require Import QArith Qround Qabs.
From E3FP Require Import Base.Prelude.
Open Scope Z_scope.

(* ================================================================================================================== *)
(* 1. SMILES tables                                                                                                    *)
Definition text := list Z.

Definition is_nl (c : Z) : bool := (c =? 10) || (c =? 13).                   (* universal newlines of text mode *)
(* str.split() / str.isspace on the ASCII range; is_nl c implies is_ws c *)
Definition is_ws (c : Z) : bool := (c =? 32) || ((9 <=? c) && (c <=? 13)) || ((28 <=? c) && (c <=? 31)).

(* split at every character satisfying p, keeping empty pieces *)
Fixpoint split_on (p : Z -> bool) (s : text) : list text :=
  match s with
  | [] => [[]]
  | c :: r =>
      let t := split_on p r in
      if p c then [] :: t else match t with h :: t' => (c :: h) :: t' | [] => [[c]] end
  end.

Definition nonempty (t : text) : bool := match t with [] => false | _ => true end.
(* str.split() also splits at the non-ASCII white space of Unicode: U+0085, U+00A0, U+1680, U+2000..U+200A, U+2028, U+2029,
   U+202F, U+205F, U+3000.  On the UTF-8 bytes of a (valid) file: the number of bytes of such a character encoded at the head
   of s, 0 if there is none.  All of them start with one of the lead bytes C2, E1, E2, E3. *)
Definition uws_len (s : text) : nat :=
  match s with
  | a :: b :: r =>
      if (a =? 194) && ((b =? 133) || (b =? 160)) then 2%nat
      else match r with
           | c :: _ =>
               if ((a =? 225) && (b =? 154) && (c =? 128))
                  || ((a =? 226) && (b =? 128) && (((128 <=? c) && (c <=? 138)) || (c =? 168) || (c =? 169) || (c =? 175)))
                  || ((a =? 226) && (b =? 129) && (c =? 159))
                  || ((a =? 227) && (b =? 128) && (c =? 128))
               then 3%nat else 0%nat
           | [] => 0%nat
           end
  | _ => 0%nat
  end.

(* every non-ASCII white-space character replaced by one space; `skip` = bytes of the current one still to drop *)
Fixpoint norm_ws_aux (skip : nat) (s : text) : text :=
  match s with
  | [] => []
  | a :: t =>
      match skip with
      | S k => norm_ws_aux k t
      | O => match uws_len s with
             | O => a :: norm_ws_aux 0 t
             | S k => 32 :: norm_ws_aux k t
             end
      end
  end.
Definition norm_ws (s : text) : text := norm_ws_aux 0 s.

Definition split_ws (s : text) : list text := filter nonempty (split_on is_ws (norm_ws s)).   (* line.rstrip("\r\n").split() *)
Definition lines (s : text) : list text := split_on is_nl s.

(* smiles_generator: (smiles, name) for every line with at least two fields *)
Definition smiles_generator (file : text) : list (text * text) :=
  flat_map (fun l => match split_ws l with a :: b :: _ => [(a, b)] | _ => [] end) (lines file).

Fixpoint text_eqb (a b : text) : bool :=
  match a, b with
  | [], [] => true
  | x :: a', y :: b' => (x =? y) && text_eqb a' b'
  | _, _ => false
  end.

(* a Python dict name -> smiles in insertion order *)
Definition sdict := list (text * text).
Fixpoint dget (n : text) (d : sdict) : option text :=
  match d with [] => None | (k, v) :: t => if text_eqb n k then Some v else dget n t end.
Fixpoint dset (n v : text) (d : sdict) : sdict :=
  match d with
  | [] => [(n, v)]
  | (k, w) :: t => if text_eqb n k then (k, v) :: t else (k, w) :: dset n v t
  end.
Definition tmem (x : text) (l : list text) : bool := existsb (text_eqb x) l.

Definition smiles_to_dict (file : text) (unique has_header : bool) : result sdict :=
  let entries := smiles_generator file in
  rbind (if has_header then match entries with [] => Raises EOther (* StopIteration *) | _ :: t => Ok t end else Ok entries)
        (fun es =>
           if unique then
             Ok (fst (fold_left (fun (st : sdict * list text) (e : text * text) =>
                                   let '(d, used) := st in let '(s, n) := e in
                                   match dget n d with
                                   | None => if tmem s used then st else (d ++ [(n, s)], s :: used)
                                   | Some _ => st
                                   end) es ([], [])))
           else Ok (fold_left (fun d (e : text * text) => dset (snd e) (fst e) d) es [])).

(* iter_to_smiles: "{smiles} {name}\n" for every (name, smiles) *)
Definition iter_to_smiles (entries : list (text * text)) : text :=
  flat_map (fun e => snd e ++ [32] ++ fst e ++ [10]) entries.

(* sorted(dict.items()): tuples compare by name, then by smiles; code-point order = byte order in UTF-8 *)
Fixpoint text_leb (a b : text) : bool :=
  match a, b with
  | [], _ => true
  | _ :: _, [] => false
  | x :: a', y :: b' => (x <? y) || ((x =? y) && text_leb a' b')
  end.
Definition entry_leb (a b : text * text) : bool :=
  if text_eqb (fst a) (fst b) then text_leb (snd a) (snd b) else text_leb (fst a) (fst b).
Fixpoint einsert (e : text * text) (l : list (text * text)) : list (text * text) :=
  match l with [] => [e] | x :: t => if entry_leb e x then e :: l else x :: einsert e t end.
Definition esort (l : list (text * text)) : list (text * text) := fold_right einsert [] l.

Definition dict_to_smiles (d : sdict) : text := iter_to_smiles (esort d).

Definition entries_eqb (a b : list (text * text)) : bool := list_eqb (pair_eqb text_eqb text_eqb) a b.

(* a token the reader returns unchanged: non-empty and free of white space *)
(* a byte that may start the UTF-8 encoding of a non-ASCII white-space character *)
Definition is_uws_lead (c : Z) : bool := (c =? 194) || (c =? 225) || (c =? 226) || (c =? 227).
(* a sufficient byte-level condition: no ASCII white space and none of the four lead bytes (so names may use e.g. Latin-1
   letters U+00C0.. (lead C3), Greek, Cyrillic, CJK from U+4000, but not U+0080..U+00BF, U+1000..U+3FFF) *)
Definition good_token (t : text) : Prop :=
  t <> [] /\ forallb (fun c => negb (is_ws c) && negb (is_uws_lead c)) t = true.
Definition good_token_b (t : text) : bool := nonempty t && forallb (fun c => negb (is_ws c) && negb (is_uws_lead c)) t.

(* ================================================================================================================== *)
(* 2. energy codec                                                                                                     *)
Definition round_half_even (q : Q) : Z :=
  let f := Qfloor q in
  match Qcompare (q - inject_Z f) (1 # 2) with
  | Lt => f
  | Gt => f + 1
  | Eq => if Z.even f then f else f + 1
  end.

Definition fmt4 (q : Q) : Z := round_half_even (q * 10000).       (* "{:.4f}".format(e), as a number of 1e-4 units *)
Definition parse4 (n : Z) : Q := n # 10000.                       (* float("d.dddd") *)

(* one "|"-separated field of `_ConfEnergies`, or the value of an `Energy` property *)
Inductive etok :=
| Canon (n : Z)        (* the spelling "{:.4f}" produces for n units *)
| Raw (q : Q)          (* any other spelling float() accepts, of value q, e.g. "1.5" or "4e0" *)
| Bad.                 (* a spelling float() rejects *)

Definition tok_float (t : etok) : result Q :=
  match t with Canon n => Ok (parse4 n) | Raw q => Ok q | Bad => Raises EValue end.

Fixpoint floats (l : list etok) : result (list Q) :=
  match l with
  | [] => Ok []
  | t :: r => rbind (tok_float t) (fun q => rbind (floats r) (fun qs => Ok (q :: qs)))
  end.

Definition canon (q : Q) : etok := Canon (fmt4 q).
Definition join_energies (es : list Q) : list etok := map canon es.      (* "|".join("{:.4f}".format(e) for e in energies) *)

Definition etok_eqb (a b : etok) : bool :=
  match a, b with
  | Canon n, Canon m => n =? m
  | Raw p, Raw q => Qeq_bool p q
  | Bad, Bad => true
  | _, _ => false
  end.

(* ================================================================================================================== *)
(* 3. molecules, properties, SD records                                                                                *)
Inductive pval :=
| PStr (s : text)              (* any string that is not an energy spelling *)
| PEn (l : list etok)          (* a "|"-joined energy string; [] is the empty string *)
| PE (t : etok).               (* a single energy spelling *)

Definition pval_eqb (a b : pval) : bool :=
  match a, b with
  | PStr s, PStr t => text_eqb s t
  | PEn l, PEn m => list_eqb etok_eqb l m
  | PE s, PE t => etok_eqb s t
  | _, _ => false
  end.

Definition props := list (string * pval).
Definition K_CE : string := "_ConfEnergies".
Definition K_E : string := "Energy".
Definition K_NAME : string := "_Name".

Fixpoint pget (k : string) (p : props) : option pval :=
  match p with [] => None | (k', v) :: t => if String.eqb k k' then Some v else pget k t end.
Definition pclear (k : string) (p : props) : props := filter (fun e => negb (String.eqb k (fst e))) p.
Definition pset (k : string) (v : pval) (p : props) : props := (k, v) :: pclear k p.

(* two property maps hold the same values under the same keys *)
Definition props_eqb (a b : props) : bool :=
  forallb (fun k => option_eqb pval_eqb (pget k a) (pget k b)) (map fst a ++ map fst b).

(* get_conformer_energies_from_mol *)
Definition get_conformer_energies (p : props) : result (option (list Q)) :=
  match pget K_CE p with
  | None => Ok None
  | Some (PEn []) => Raises EValue                     (* "".split("|") = [""], float("") *)
  | Some (PEn l) => rbind (floats l) (fun qs => Ok (Some qs))
  | Some (PE t) => rbind (tok_float t) (fun q => Ok (Some [q]))
  | Some (PStr _) => Raises EValue
  end.

(* add_conformer_energies_to_mol *)
Definition add_conformer_energies (p : props) (es : list Q) : props := pset K_CE (PEn (join_energies es)) p.

(* no line feed in a string value: what the SD format can carry on one title line / in a data item without RDKit editing it *)
Definition text_safe (t : text) : bool := forallb (fun c => negb (c =? 10)) t.
Definition pval_safe (v : pval) : bool := match v with PStr s => text_safe s | _ => true end.
Definition sd_safe (p : props) : bool := forallb (fun e => pval_safe (snd e)) p.
Definition title_ok (p : props) : bool := match pget K_NAME p with Some (PStr s) => text_safe s | _ => true end.

Definition limit_active (l : option Z) : bool := match l with None => false | Some n => negb (n =? -1) end.
Definition limit_val (l : option Z) : Z := match l with None => 0 | Some n => n end.

Section SD.
  Variable G : Type.
  Variable C : Type.
  Variable rt4 : C -> C.
  (* what a property map becomes through SDWriter + supplier; assumed (Section hypothesis of the theorems) to be the identity
     on maps without line feeds (`sd_safe`): RDKit drops a value containing a blank line and strips a trailing line feed *)
  Variable codec : props -> props.

  Record conformer := mkconf { c_id : Z; c_xyz : C }.
  Record mol := mkmol { m_graph : G; m_props : props; m_confs : list conformer }.
  (* one record of an SD file: the molecule, every property it carried when written (title line = _Name), one coordinate block *)
  Record sdrec := mkrec { r_graph : G; r_props : props; r_xyz : C }.

  (* the loop of mol_to_sdf over enumerate(conf_ids): j is the position.  Returns the property map after the loop and the
     records written *)
  Fixpoint write_loop (g : G) (es : option (list Q)) (lim : option Z) (p : props) (j : Z) (cs : list conformer) : props * list sdrec :=
    match cs with
    | [] => (p, [])
    | c :: t =>
        if limit_active lim && (j >=? limit_val lim) then (p, [])
        else
          let p' := match es with
                    | Some l => match nth_error l (Z.to_nat j) with
                                | Some e => pset K_E (PE (canon e)) p       (* conf_energies[j]; IndexError: pass *)
                                | None => p
                                end
                    | None => p                                              (* TypeError: pass *)
                    end in
          let '(pf, recs) := write_loop g es lim p' (j + 1) t in
          (pf, mkrec g p' (c_xyz c) :: recs)
    end.

  (* mol_to_sdf: the molecule afterwards and the file *)
  Definition mol_to_sdf (m : mol) (conf_num : option Z) : result (mol * list sdrec) :=
    rbind (get_conformer_energies (m_props m)) (fun es =>
      let p0 := pclear K_CE (m_props m) in
      let '(pf, recs) := write_loop (m_graph m) es conf_num p0 0 (m_confs m) in
      let p1 := pclear K_E pf in
      let p2 := match es with Some l => add_conformer_energies p1 l | None => p1 end in
      match m_confs m with
      | [] => Raises EOther                   (* UnboundLocalError from the closing log line: `i` was never bound *)
      | _ => Ok (mkmol (m_graph m) p2 (m_confs m), recs)
      end).

  (* energies gathered while reading: every record that has an Energy property contributes float(value) *)
  Fixpoint read_energies (recs : list sdrec) : result (list Q) :=
    match recs with
    | [] => Ok []
    | r :: t =>
        match pget K_E (r_props r) with
        | None => read_energies t
        | Some (PE tk) => rbind (tok_float tk) (fun q => rbind (read_energies t) (fun qs => Ok (q :: qs)))
        | Some _ => Raises EValue
        end
    end.

  Fixpoint renumber (j : Z) (recs : list sdrec) : list conformer :=
    match recs with [] => [] | r :: t => mkconf j (rt4 (r_xyz r)) :: renumber (j + 1) t end.

  (* the supplier defines _Name from the title line *)
  Definition reader_props (p : props) : props :=
    match pget K_NAME p with Some _ => p | None => pset K_NAME (PStr []) p end.

  Definition decode_rec (r : sdrec) : sdrec := mkrec (r_graph r) (codec (r_props r)) (r_xyz r).

  (* mol_from_sdf; `fallback` = os.path.basename(sdf_file).split(".sdf")[0] *)
  Definition mol_from_sdf (file : list sdrec) (conf_num : option Z) (fallback : text) : result mol :=
    let taken := match conf_num with
                 | None => file
                 | Some n => if n <? 0 then file else firstn (Z.to_nat n) file      (* `if i == conf_num: break` *)
                 end in
    match map decode_rec taken with
    | [] => Raises EOther                                                           (* AttributeError on None *)
    | r0 :: _ =>
        (* a title containing a line feed shifts the mol block: the supplier returns None, `None.HasProp` raises AttributeError *)
        if negb (forallb (fun r => title_ok (r_props r)) taken) then Raises EOther else
        let taken := map decode_rec taken in
        rbind (read_energies taken) (fun es =>
          let p := reader_props (r_props r0) in
          let p := match pget K_NAME p with Some _ => p | None => pset K_NAME (PStr fallback) p end in
          let p := match es with [] => p | _ => pclear K_E (add_conformer_energies p es) end in
          Ok (mkmol (r_graph r0) p (renumber 0 taken)))
    end.
End SD.

(* ---- executable instance used by the generated correspondence cases ------------------------------------------------ *)
(* molecule identity = an integer the harness assigns to a canonical isomeric SMILES; coordinates = the exact doubles *)
Definition qclose (tol a b : Q) : bool := Qle_bool (Qabs.Qabs (a - b)) tol.
Definition rt4c (xyz : list Q) : list Q := map (fun q => parse4 (fmt4 q)) xyz.      (* "%10.4f" and back *)
Definition cmol := mol Z (list Q).
Definition cconf (i : Z) (x : list Q) : conformer (list Q) := mkconf (list Q) i x.
Definition cmk (g : Z) (p : props) (cs : list (conformer (list Q))) : cmol := mkmol Z (list Q) g p cs.
Definition conf_close (tol : Q) (a b : conformer (list Q)) : bool :=
  (c_id _ a =? c_id _ b) && list_eqb (qclose tol) (c_xyz _ a) (c_xyz _ b).
Definition mol_close (tol : Q) (a b : cmol) : bool :=
  (m_graph _ _ a =? m_graph _ _ b) && props_eqb (m_props _ _ a) (m_props _ _ b) &&
  list_eqb (conf_close tol) (m_confs _ _ a) (m_confs _ _ b).
(* mol_to_sdf then mol_from_sdf: the molecule after the write and the molecule read back *)
Definition write_read (m : cmol) (wl rl : option Z) (fallback : text) : result (cmol * cmol) :=
  rbind (mol_to_sdf Z (list Q) m wl) (fun mr =>
    rbind (mol_from_sdf Z (list Q) rt4c (fun p => p) (snd mr) rl fallback) (fun r => Ok (fst mr, r))).
Definition wr_close (tol : Q) (a b : cmol * cmol) : bool := mol_close 0 (fst a) (fst b) && mol_close tol (snd a) (snd b).
Definition sdict_result_eqb (a b : result sdict) : bool := result_eqb entries_eqb a b.
