(* M2 - fingerprint values: e3fp.fingerprint.fprint (Fingerprint / CountFingerprint / FloatFingerprint).

   A fingerprint is modelled as an immutable value.  `fidx` is the `indices` array (np.unique output: strictly
   increasing), `fcnt` the `_counts` dict of count/float fingerprints as an association list sorted by key (for a
   bit fingerprint the `counts` property is derived: 1 for every index, and `fcnt` is empty).  Count values are exact
   rationals; CountFingerprint's `int(v)` in the counts setter is `qtrunc`.  The two fields are stored separately
   because the code stores them separately (and has let them drift apart: see known_findings.json, C11 floordiv). *)
From Coq Require Import QArith Qround Qabs.
From E3FP Require Import Base.Prelude Base.ZSet.
Open Scope Z_scope.

Inductive kind := KBit | KCount | KFloat.

Definition kind_eqb (a b : kind) : bool :=
  match a, b with KBit, KBit | KCount, KCount | KFloat, KFloat => true | _, _ => false end.

Definition cmap := list (Z * Q).

Record fp := mkfp {
  fkind : kind;
  fbits : Z;
  flevel : option Z;          (* None = Python None *)
  fidx : list Z;
  fcnt : cmap;
  fname : option string }.

(* ---- count maps ------------------------------------------------------------------------------ *)
Fixpoint cget (m : cmap) (i : Z) : Q :=
  match m with
  | [] => 0%Q
  | (k, v) :: t => if i =? k then v else cget t i
  end.

Definition ckeys (m : cmap) : list Z := map fst m.

(* dict built from a key list and a value function *)
Definition cbuild (ks : list Z) (f : Z -> Q) : cmap := map (fun k => (k, f k)) ks.

(* int(v): truncation toward zero, as an integer-valued rational *)
Definition qtrunc (q : Q) : Q := inject_Z (Z.quot (Qnum q) (Zpos (Qden q))).

(* the counts setter of each class *)
Definition cast_value (k : kind) (q : Q) : Q :=
  match k with KFloat => q | _ => qtrunc q end.

Definition bit_counts (idx : list Z) : cmap := cbuild idx (fun _ => 1%Q).

(* the `counts` property *)
Definition counts_of (a : fp) : cmap :=
  match fkind a with KBit => bit_counts (fidx a) | _ => fcnt a end.

(* get_count *)
Definition get_count (a : fp) (i : Z) : Q :=
  match fkind a with
  | KBit => if zmem i (fidx a) then 1%Q else 0%Q
  | _ => cget (fcnt a) i
  end.

Definition qsum (l : list Q) : Q := fold_right Qplus 0%Q l.

(* ---- constructors ---------------------------------------------------------------------------- *)
(* Fingerprint(indices, bits, level): any index >= bits is rejected (negative ones are not) *)
Definition mk_bit (idx : list Z) (bits : Z) (level : option Z) (name : option string) : result fp :=
  if existsb (fun i => bits <=? i) idx then Raises EBits
  else Ok (mkfp KBit bits level (usort idx) [] name).

(* CountFingerprint(indices, counts=None, ...): multiplicities of the index list *)
Definition count_occ_Z (i : Z) (l : list Z) : Z := Z.of_nat (length (filter (Z.eqb i) l)).

Definition mk_count_from_indices (k : kind) (idx : list Z) (bits : Z) (level : option Z) (name : option string) : result fp :=
  if existsb (fun i => bits <=? i) idx then Raises EBits
  else let u := usort idx in
       Ok (mkfp k bits level u (cbuild u (fun i => inject_Z (count_occ_Z i idx))) name).

(* CountFingerprint(indices, counts=dict, ...): keys of counts must equal the unique indices *)
Definition mk_count (k : kind) (idx : list Z) (cnt : cmap) (bits : Z) (level : option Z) (name : option string) : result fp :=
  if existsb (fun i => bits <=? i) idx then Raises EBits
  else let u := usort idx in
       if negb (forallb (fun x => zmem x u) (ckeys cnt)) then Raises ECounts
       else if negb (forallb (fun x => zmem x (ckeys cnt)) u) then Raises ECounts
       else Ok (mkfp k bits level u (cbuild (usort (ckeys cnt)) (fun i => cast_value k (cget cnt i))) name).

(* CountFingerprint(counts=dict) : from_counts *)
Definition mk_from_counts (k : kind) (cnt : cmap) (bits : Z) (level : option Z) (name : option string) : result fp :=
  let u := usort (ckeys cnt) in
  if existsb (fun i => bits <=? i) u then Raises EBits
  else Ok (mkfp k bits level u (cbuild u (fun i => cast_value k (cget cnt i))) name).

(* cls.from_fingerprint(fp): copy / conversion (props, hence the name, are copied) *)
Definition from_fingerprint (k : kind) (a : fp) : result fp :=
  match k with
  | KBit => mk_bit (fidx a) (fbits a) (flevel a) (fname a)
  | _ => let c := filter (fun kv => negb (Qle_bool (snd kv) 0)) (counts_of a) in
         mk_from_counts k c (fbits a) (flevel a) (fname a)
  end.

(* ---- set operators (defined on the base class; results are plain bit fingerprints, level -1) ----- *)
Definition minus1 : option Z := Some (-1).

Definition bit_binop (op : list Z -> list Z -> list Z) (a b : fp) : result fp :=
  if negb (fbits a =? fbits b) then Raises EBits
  else mk_bit (op (fidx a) (fidx b)) (fbits a) minus1 None.

Definition fp_or := bit_binop zunion.
Definition fp_and := bit_binop zinter.
Definition fp_xor := bit_binop zxor.
Definition fp_bit_sub := bit_binop zdiff.
Definition fp_bit_add := bit_binop zunion.

(* ---- count arithmetic -------------------------------------------------------------------------- *)
Definition is_count_like (a : fp) : bool := match fkind a with KBit => false | _ => true end.

Definition result_kind (a b : fp) : kind := match fkind b with KFloat => KFloat | _ => fkind a end.

Definition merged_level (a b : fp) : option Z :=
  if option_eqb Z.eqb (flevel a) (flevel b) then flevel a else minus1.

Definition cmap_pointwise (f : Q -> Q -> Q) (a b : cmap) : cmap :=
  cbuild (zunion (ckeys a) (ckeys b)) (fun k => f (cget a k) (cget b k)).

Definition count_binop (f : Q -> Q -> Q) (a b : fp) : result fp :=
  if negb (is_count_like a) then Raises EOther       (* not this method: dispatch below *)
  else if negb (is_count_like b) then Raises EInvalidFp
  else if negb (fbits a =? fbits b) then Raises EBits
  else let k := result_kind a b in
       let c := cmap_pointwise f (fcnt a) (fcnt b) in
       mk_count k (ckeys c) c (fbits a) (merged_level a b) None.

(* a + b / a - b as Python dispatches them *)
Definition fp_add (a b : fp) : result fp :=
  match fkind a with KBit => fp_bit_add a b | _ => count_binop Qplus a b end.
Definition fp_sub (a b : fp) : result fp :=
  match fkind a with KBit => fp_bit_sub a b | _ => count_binop Qminus a b end.

(* scalar operators (count / float only) *)
Definition set_counts (k : kind) (a : fp) (c : cmap) : fp :=
  mkfp (fkind a) (fbits a) (flevel a) (fidx a) (cbuild (ckeys c) (fun i => cast_value k (cget c i))) (fname a).

Definition fp_mul (a : fp) (x : Q) : result fp :=
  rbind (from_fingerprint (fkind a) a) (fun cf =>
  Ok (set_counts (fkind a) cf (map (fun kv => (fst kv, (snd kv * x)%Q)) (fcnt a)))).

(* a / x: the copy is made first, then every count is divided: ZeroDivisionError (EOther) only if there is a count *)
Definition fp_div (a : fp) (x : Q) : result fp :=
  rbind (from_fingerprint KFloat a) (fun cf =>
  if Qeq_bool x 0 && negb (match fcnt a with [] => true | _ => false end) then Raises EOther else
  Ok (set_counts KFloat cf (map (fun kv => (fst kv, (snd kv / x)%Q)) (fcnt a)))).

(* a // x: counts v >= x are kept and divided: ZeroDivisionError (EOther) only if x = 0 and some count is >= 0 *)
Definition fp_floordiv (a : fp) (x : Q) : result fp :=
  rbind (from_fingerprint KCount a) (fun cf =>
  let kept := filter (fun kv => Qle_bool x (snd kv)) (fcnt a) in
  if Qeq_bool x 0 && negb (match kept with [] => true | _ => false end) then Raises EOther else
  let c := map (fun kv => (fst kv, (snd kv / x)%Q)) kept in
  let cf' := set_counts KCount cf c in
  Ok (mkfp (fkind cf') (fbits cf') (flevel cf') (usort (ckeys c)) (fcnt cf') (fname cf'))).

(* add(fprints, weights) / mean(fprints, weights) *)
Definition any_float (l : list fp) : bool := existsb (fun a => kind_eqb (fkind a) KFloat) l.

Fixpoint wsum (l : list fp) (w : list Q) (i : Z) : Q :=
  match l, w with
  | a :: l', x :: w' => (cget (counts_of a) i * x + wsum l' w' i)%Q
  | _, _ => 0%Q
  end.

Definition all_keys (l : list fp) : list Z := usort (concat (map (fun a => ckeys (counts_of a)) l)).

Definition ones (n : nat) : list Q := repeat 1%Q n.

(* every member must have the length of the first one (checked before anything else) *)
Definition batch_bits_ok (l : list fp) : bool :=
  match l with [] => true | a0 :: _ => forallb (fun a => fbits a =? fbits a0) l end.

Definition batch_add (l : list fp) (w : option (list Q)) : result (option fp) :=
  match l with
  | [] => Ok None
  | a0 :: _ =>
    if negb (batch_bits_ok l) then Raises EBits else
    match w with
    | None =>
      let k := if any_float l then KFloat else KCount in
      let c := cbuild (all_keys l) (wsum l (ones (length l))) in
      rbind (mk_count k (ckeys c) c (fbits a0) (flevel a0) None) (fun r => Ok (Some r))
    | Some ws =>
      if negb (Nat.eqb (length ws) (length l)) then Raises EValue
      else let c := cbuild (all_keys l) (wsum l ws) in
           rbind (mk_count KFloat (ckeys c) c (fbits a0) (flevel a0) None) (fun r => Ok (Some r))
    end
  end.

Definition batch_mean (l : list fp) (w : option (list Q)) : result (option fp) :=
  match w with
  | Some ws =>
    let s := qsum ws in
    if Qeq_bool s 0 then Raises EValue
    else batch_add l (Some (map (fun x => (x / s)%Q) ws))
  | None =>
    match l with
    | [] => Raises EType       (* None / 0 *)
    | _ => rbind (batch_add l None) (fun r =>
           match r with
           | Some s => rbind (fp_div s (inject_Z (Z.of_nat (length l)))) (fun m => Ok (Some m))
           | None => Raises EType
           end)
    end
  end.

(* ---- folding ------------------------------------------------------------------------------------ *)
(* np.log2(bits / newbits).is_integer(): the ratio is a power of two.  The first definition (with fuel) is kept for
   compatibility only; `pow2_ratio` is fuel-free: bits = nb * 2^floor(log2(bits / nb)).  Proofs/FprintFold.v shows
   pow2_ratio bits nb = true <-> 0 < nb /\ exists k >= 0, bits = nb * 2^k.  (The code computes the ratio in double
   precision, which is exact for bits <= 2^53; e3fp's largest length is 2^32.) *)
Fixpoint pow2_ratio_fuel (fuel : nat) (bits nb : Z) : bool :=
  match fuel with
  | O => false
  | S f => if bits =? nb then true else if bits <? nb then false else pow2_ratio_fuel f bits (2 * nb)
  end.
Definition pow2_ratio (bits nb : Z) : bool := (0 <? nb) && (bits =? nb * 2 ^ Z.log2 (bits / nb)).

Definition fold_index (method bits nb i : Z) : Z :=
  if method =? 0 then i mod nb else i / (bits / nb).

(* the checks of Fingerprint.fold, in the order of the code: bits > self.bits; self.bits / bits (ZeroDivisionError for
   bits = 0, reported as EOther); log2(ratio).is_integer() (false also for a negative ratio: log2 gives nan); method *)
Definition fold_check (a : fp) (nb method : Z) : option err :=
  if fbits a <? nb then Some EBits
  else if nb =? 0 then Some EOther
  else if negb (pow2_ratio (fbits a) nb) then Some EBits
  else if negb ((method =? 0) || (method =? 1)) then Some EOption
  else None.

(* the original positions that land on folded position j *)
Definition fibre (a : fp) (nb method j : Z) : list Z :=
  filter (fun i => fold_index method (fbits a) nb i =? j) (fidx a).

(* Fingerprint.fold / CountFingerprint.fold with the default counts_method (sum) *)
Definition fp_fold (a : fp) (nb method : Z) : result fp :=
  match fold_check a nb method with
  | Some e => Raises e
  | None =>
    let f := fold_index method (fbits a) nb in
    let fi := usort (map f (fidx a)) in
    match fkind a with
    | KBit => Ok (mkfp KBit nb (flevel a) fi [] (fname a))
    | k => let c := cbuild fi (fun j => cast_value k (qsum (map (get_count a) (filter (fun i => f i =? j) (fidx a))))) in
           Ok (mkfp k nb (flevel a) fi c (fname a))
    end
  end.

(* the documented option counts_method=<function> of CountFingerprint.fold, for the built-ins sum (default), max, min.
   Fingerprint.fold itself has no such keyword: TypeError. *)
Inductive cmethod := CMSum | CMMax | CMMin.

Definition qmax (x y : Q) : Q := if Qle_bool x y then y else x.
Definition qmin (x y : Q) : Q := if Qle_bool x y then x else y.
(* max(list) / min(list) of a non-empty list (every fibre of a folded position is non-empty); [] is never passed *)
Definition qreduce (f : Q -> Q -> Q) (l : list Q) : Q :=
  match l with [] => 0%Q | x :: t => fold_left f t x end.
Definition creduce (cm : cmethod) (l : list Q) : Q :=
  match cm with CMSum => qsum l | CMMax => qreduce qmax l | CMMin => qreduce qmin l end.

Definition fp_fold_cm (cm : cmethod) (a : fp) (nb method : Z) : result fp :=
  match fkind a with
  | KBit => Raises EType
  | k =>
    match fold_check a nb method with
    | Some e => Raises e
    | None =>
      let f := fold_index method (fbits a) nb in
      let fi := usort (map f (fidx a)) in
      let c := cbuild fi (fun j => cast_value k (creduce cm (map (get_count a) (filter (fun i => f i =? j) (fidx a))))) in
      Ok (mkfp k nb (flevel a) fi c (fname a))
    end
  end.

(* the recorded unfolding map: folded position -> set of original positions *)
Definition unfold_map (a : fp) (nb method : Z) : list (Z * list Z) :=
  let f := fold_index method (fbits a) nb in
  map (fun j => (j, filter (fun i => f i =? j) (fidx a))) (usort (map f (fidx a))).

(* the source's recorded folding map (get_folding_index_map after a fold that was not served from the cache):
   original position -> folded position *)
Definition folding_map (a : fp) (nb method : Z) : list (Z * Z) :=
  map (fun i => (i, fold_index method (fbits a) nb i)) (fidx a).

(* ---- equality ------------------------------------------------------------------------------------ *)
Definition cmap_eqb (a b : cmap) : bool :=
  list_eqb (fun x y => (fst x =? fst y) && Qeq_bool (snd x) (snd y)) a b.

(* == as coded (after the repair of the np.in1d defect): same class, level, bits, indices (bit) / counts (count) *)
Definition fp_eq (a b : fp) : result bool :=
  match fkind a with
  | KBit => Ok (option_eqb Z.eqb (flevel a) (flevel b) && (fbits a =? fbits b) && kind_eqb (fkind a) (fkind b)
                && list_eqb Z.eqb (fidx a) (fidx b))
  | _ => if negb (is_count_like b) then Raises EInvalidFp
         else Ok (option_eqb Z.eqb (flevel a) (flevel b) && (fbits a =? fbits b) && cmap_eqb (fcnt a) (fcnt b)
                  && kind_eqb (fkind a) (fkind b))
  end.

(* ---- observation (what the correspondence compares) --------------------------------------------- *)
Definition fp_obs_eqb (a b : fp) : bool :=
  kind_eqb (fkind a) (fkind b) && (fbits a =? fbits b) && option_eqb Z.eqb (flevel a) (flevel b)
  && list_eqb Z.eqb (fidx a) (fidx b) && cmap_eqb (counts_of a) (counts_of b)
  && option_eqb String.eqb (fname a) (fname b).

(* tolerant variant for float-valued results: |x - y| <= tol * max(1, |y|) *)
Definition q_close (tol x y : Q) : bool :=
  Qle_bool (Qabs (x - y)) (tol * (if Qle_bool 1 (Qabs y) then Qabs y else 1))%Q.
Definition cmap_close (tol : Q) (a b : cmap) : bool :=
  list_eqb (fun x y => (fst x =? fst y) && q_close tol (snd x) (snd y)) a b.
Definition fp_obs_close (tol : Q) (a b : fp) : bool :=
  kind_eqb (fkind a) (fkind b) && (fbits a =? fbits b) && option_eqb Z.eqb (flevel a) (flevel b)
  && list_eqb Z.eqb (fidx a) (fidx b) && cmap_close tol (counts_of a) (counts_of b)
  && option_eqb String.eqb (fname a) (fname b).

(* observations of the two index maps recorded by fold *)
Definition umap_eqb (a b : list (Z * list Z)) : bool :=
  list_eqb (fun x y => (fst x =? fst y) && list_eqb Z.eqb (snd x) (snd y)) a b.
Definition fmap_eqb (a b : list (Z * Z)) : bool :=
  list_eqb (fun x y => (fst x =? fst y) && (snd x =? snd y)) a b.
