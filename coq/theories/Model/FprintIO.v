(* M2, second part - representations of a fingerprint value and the comparison operators as Python dispatches them:
   e3fp.fingerprint.fprint  to_vector/from_vector (dense, CSR), to_bitstring/from_bitstring, to_rdkit/from_rdkit,
   __getstate__/__setstate__, save/load, and `==`/`!=`.

   The value type `fp`, the constructors (`mk_bit`, `mk_count`, `mk_count_from_indices`, `mk_from_counts`), `from_fingerprint`
   and `fp_eq` are those of Model/Fprint.v.  Definitions only (no proofs here): lemmas are in Proofs/FprintEq.v,
   Proofs/FprintIO.v and Proofs/FprintConv.v. *)
From Coq Require Import QArith Qround Qabs Ascii.
From E3FP Require Import Base.Prelude Base.ZSet Model.Fprint Gen.Constants.
Open Scope Z_scope.

(* ---- `!=`, and the operators as Python calls them ------------------------------------------------ *)
(* __ne__ of both classes: (isinstance check, then) `not self.__eq__(other)` *)
Definition fp_ne (a b : fp) : result bool := rbind (fp_eq a b) (fun r => Ok (negb r)).

(* type(b) is a proper subclass of type(a): Python then tries the reflected method of b first, and since neither
   __eq__ nor __ne__ ever returns NotImplemented that call decides. *)
Definition strict_subkind (kb ka : kind) : bool :=
  match ka, kb with KBit, KCount | KBit, KFloat | KCount, KFloat => true | _, _ => false end.

Definition py_eq (a b : fp) : result bool := if strict_subkind (fkind b) (fkind a) then fp_eq b a else fp_eq a b.
Definition py_ne (a b : fp) : result bool := if strict_subkind (fkind b) (fkind a) then fp_ne b a else fp_ne a b.

(* ---- well-formed fingerprints (the class invariant the documentation states) ---------------------- *)
(* indices strictly increasing and inside [0, bits); for count/float fingerprints the keys of the counts dict are
   the indices, in the same order, and every count is positive; a CountFingerprint's counts are integers in canonical
   form (what the counts setter `int(v)` produces); a bit fingerprint has no counts dict; the length is not negative. *)
Record wf_fp (a : fp) : Prop := mk_wf {
  wf_sorted : ssorted (fidx a);
  wf_range : forall i, In i (fidx a) -> 0 <= i < fbits a;
  wf_keys : match fkind a with KBit => fcnt a = [] | _ => ckeys (fcnt a) = fidx a end;
  wf_pos : forall kv, In kv (fcnt a) -> (0 < snd kv)%Q;
  wf_int : fkind a = KCount -> forall kv, In kv (fcnt a) -> Qden (snd kv) = 1%positive;
  wf_bits : 0 <= fbits a }.

(* the same, without positivity of the counts (what subtraction can produce) *)
Record wf_fp_signed (a : fp) : Prop := mk_wfs {
  wfs_sorted : ssorted (fidx a);
  wfs_range : forall i, In i (fidx a) -> 0 <= i < fbits a;
  wfs_keys : match fkind a with KBit => fcnt a = [] | _ => ckeys (fcnt a) = fidx a end;
  wfs_int : fkind a = KCount -> forall kv, In kv (fcnt a) -> Qden (snd kv) = 1%positive;
  wfs_bits : 0 <= fbits a }.

Fixpoint sorted_ltb (l : list Z) : bool :=
  match l with
  | x :: ((y :: _) as t) => (x <? y) && sorted_ltb t
  | _ => true
  end.

(* executable well-formedness (used by the correspondence on every generated input) *)
Definition wf_fpb (a : fp) : bool :=
  sorted_ltb (fidx a) && forallb (fun i => (0 <=? i) && (i <? fbits a)) (fidx a)
  && match fkind a with KBit => match fcnt a with [] => true | _ => false end | _ => list_eqb Z.eqb (ckeys (fcnt a)) (fidx a) end
  && forallb (fun kv => negb (Qle_bool (snd kv) 0)) (fcnt a)
  && match fkind a with KCount => forallb (fun kv => Pos.eqb (Qden (snd kv)) 1) (fcnt a) | _ => true end
  && (0 <=? fbits a).

(* same content: everything `==` is documented to look at (the name is not part of it) *)
Definition cmap_equiv (a b : cmap) : Prop := Forall2 (fun x y => fst x = fst y /\ Qeq (snd x) (snd y)) a b.

Definition fp_content_same (a b : fp) : Prop :=
  fkind a = fkind b /\ fbits a = fbits b /\ flevel a = flevel b /\ fidx a = fidx b /\ cmap_equiv (fcnt a) (fcnt b).

(* same observable value (content and name) *)
Definition fp_same (a b : fp) : Prop := fp_content_same a b /\ fname a = fname b.

Definition set_meta (a : fp) (lv : option Z) (nm : option string) : fp :=
  mkfp (fkind a) (fbits a) lv (fidx a) (fcnt a) nm.

(* ---- keyword conventions shared by the from_* classmethods ---------------------------------------- *)
(* `level=-1` default of every from_*: None = keyword not passed *)
Definition level_arg (l : option (option Z)) : option Z := match l with None => minus1 | Some x => x end.
(* `if name:` - the empty string is not stored *)
Definition name_arg (n : option string) : option string :=
  match n with Some EmptyString => None | _ => n end.

(* ---- positions 0 .. n-1 ------------------------------------------------------------------------- *)
Fixpoint zrange_from (start : Z) (n : nat) : list Z :=
  match n with O => [] | S m => start :: zrange_from (start + 1) m end.
Definition zrange (n : Z) : list Z := zrange_from 0 (Z.to_nat n).

Fixpoint rmap {A B} (f : A -> result B) (l : list A) : result (list B) :=
  match l with
  | [] => Ok []
  | x :: t => rbind (f x) (fun y => rbind (rmap f t) (fun ys => Ok (y :: ys)))
  end.

(* ---- NumPy value types of a vector ---------------------------------------------------------------- *)
Inductive dtype := DBool | DUint16 | DFloat64.

Definition default_dtype (k : kind) : dtype := match k with KBit => DBool | KCount => DUint16 | KFloat => DFloat64 end.

(* conversion of one stored count (a Python int for bit/count fingerprints, a Python float for float fingerprints) to
   the vector's dtype.  NumPy 2 refuses Python integers outside the dtype's range (OverflowError -> EOther).
   Float values with dtype uint16 are not modelled (C-cast semantics) and never generated. *)
Definition cast_dtype (dt : dtype) (q : Q) : result Q :=
  match dt with
  | DBool => Ok (if Qeq_bool q 0 then 0%Q else 1%Q)
  | DUint16 => if Qle_bool 0 q && Qle_bool q (inject_Z count_dtype_max) then Ok q else Raises EOther
  | DFloat64 => Ok q
  end.

Definition pick_dtype (dt : option dtype) (a : fp) : dtype :=
  match dt with Some d => d | None => default_dtype (fkind a) end.

(* `[counts[i] for i in self.indices]`: KeyError when indices and counts keys have drifted apart *)
Definition counts_lookup_ok (a : fp) : bool :=
  match fkind a with KBit => true | _ => forallb (fun i => zmem i (ckeys (fcnt a))) (fidx a) end.

(* ---- dense vector: to_vector(sparse=False, dtype) / from_vector(ndarray) ---------------------------- *)
(* bitvector[self.indices] = values: an index >= bits or < -bits is an IndexError (-> E3FPBitsValueError); an index
   in [-bits, 0) addresses position bits+index (NumPy), the later assignment wins (indices are ascending). *)
Definition dense_value (a : fp) (p : Z) : Q :=
  if zmem p (fidx a) then get_count a p
  else if zmem (p - fbits a) (fidx a) then get_count a (p - fbits a) else 0%Q.

Definition to_dense (dt : option dtype) (a : fp) : result (list Q) :=
  if negb (counts_lookup_ok a) then Raises EKey
  else if existsb (fun i => (fbits a <=? i) || (i <? - fbits a)) (fidx a) then Raises EBits
  else rbind (rmap (cast_dtype (pick_dtype dt a)) (map (get_count a) (fidx a))) (fun _ =>
       rmap (fun p => cast_dtype (pick_dtype dt a) (dense_value a p)) (zrange (fbits a))).

(* np.where(vector): positions holding a non-zero value, with that value *)
Definition nonzero_entries (v : list Q) : list (Z * Q) :=
  filter (fun kv => negb (Qeq_bool (snd kv) 0)) (combine (zrange (Z.of_nat (length v))) v).

(* dict(zip(indices, counts)): a later entry for the same key replaces an earlier one *)
Fixpoint last_value (es : list (Z * Q)) (i : Z) : Q :=
  match es with
  | [] => 0%Q
  | (k, v) :: t => if zmem i (map fst t) then last_value t i else if i =? k then v else 0%Q
  end.
Definition dict_of (es : list (Z * Q)) : cmap := cbuild (usort (map fst es)) (last_value es).

(* cls.from_indices(indices, counts=counts, bits=.., level=.., name=..): Fingerprint ignores `counts` *)
Definition from_entries (k : kind) (es : list (Z * Q)) (bits : Z) (lv : option Z) (nm : option string) : result fp :=
  match k with
  | KBit => mk_bit (map fst es) bits lv nm
  | _ => mk_count k (map fst es) (dict_of es) bits lv nm
  end.

Definition from_dense (k : kind) (v : list Q) (kw_bits : option Z) (lv : option (option Z)) (nm : option string) : result fp :=
  let bits := match kw_bits with Some b => b | None => Z.of_nat (length v) end in
  from_entries k (nonzero_entries v) bits (level_arg lv) (name_arg nm).

(* compressed presentation of a dense vector (harness side: keeps the case files small) *)
Definition dense_expand (n : Z) (es : list (Z * Q)) : list Q := map (cget es) (zrange n).
Definition dense_compress (v : list Q) : Z * list (Z * Q) := (Z.of_nat (length v), nonzero_entries v).

(* ---- sparse vector: one CSR row = its stored (column, value) pairs in storage order ------------------- *)
Record csr := mkcsr { c_ncols : Z; c_entries : list (Z * Q) }.

(* csr_matrix((values, (zeros, indices)), shape=(1, bits), dtype): a column outside [0, bits) is a ValueError
   (-> E3FPBitsValueError); stored order = order of `indices` *)
Definition to_csr (dt : option dtype) (a : fp) : result csr :=
  if negb (counts_lookup_ok a) then Raises EKey
  else if existsb (fun i => (fbits a <=? i) || (i <? 0)) (fidx a) then Raises EBits
  else rbind (rmap (cast_dtype (pick_dtype dt a)) (map (get_count a) (fidx a))) (fun vs =>
       Ok (mkcsr (fbits a) (combine (fidx a) vs))).

(* from_vector(csr): reads .indices and .data as stored - explicit zeros are entries, unsorted columns are accepted,
   of duplicate columns the last value is kept (not the sum) *)
Definition from_csr (k : kind) (m : csr) (kw_bits : option Z) (lv : option (option Z)) (nm : option string) : result fp :=
  let bits := match kw_bits with Some b => b | None => c_ncols m end in
  from_entries k (c_entries m) bits (level_arg lv) (name_arg nm).

(* ---- bit string ------------------------------------------------------------------------------------ *)
Definition bit_char (q : Q) : ascii := if Qeq_bool q 0 then "0"%char else "1"%char.

Definition to_bitstring (a : fp) : result string :=
  rbind (to_dense (Some DBool) a) (fun v => Ok (string_of_list_ascii (map bit_char v))).

(* [i for i, char in enumerate(bitstring) if char != "0"] *)
Definition on_positions (cs : list ascii) : list Z :=
  map fst (filter (fun pc => negb (Ascii.eqb (snd pc) "0"%char)) (combine (zrange (Z.of_nat (length cs))) cs)).

(* cls.from_indices(indices, level=level, bits=...) : count classes give every listed position the count 1 *)
Definition from_index_list (k : kind) (idx : list Z) (bits : Z) (lv : option Z) (nm : option string) : result fp :=
  match k with
  | KBit => mk_bit idx bits lv nm
  | _ => mk_count_from_indices k idx bits lv nm
  end.

Definition from_bitstring (k : kind) (s : string) (kw_bits : option Z) (lv : option (option Z)) (nm : option string) : result fp :=
  let cs := list_ascii_of_string s in
  let bits := match kw_bits with Some b => b | None => Z.of_nat (length cs) end in
  from_index_list k (on_positions cs) bits (level_arg lv) (name_arg nm).

(* ---- RDKit bit vectors ------------------------------------------------------------------------------ *)
Record rdk := mkrdk { r_sparse : bool; r_len : Z; r_on : list Z }.   (* SparseBitVect? / GetNumBits / GetOnBits *)

Definition rdkit_max : Z := 2 ^ 31 - 1.
Definition rdkit_explicit_below : Z := 100000.

(* SetBitsFromList raises IndexError for a position >= length *)
Definition to_rdkit (a : fp) : result rdk :=
  let len := Z.min (fbits a) rdkit_max in
  let on := map (fun i => i mod rdkit_max) (fidx a) in
  if existsb (fun i => len <=? i) on then Raises EIndex
  else Ok (mkrdk (negb (fbits a <? rdkit_explicit_below)) len (usort on)).

(* from_rdkit(v, **kwargs): `bits=` among the keywords collides with the positional use (TypeError);
   level is only what is passed *)
Definition from_rdkit (k : kind) (r : rdk) (kw_bits : option Z) (lv : option (option Z)) (nm : option string) : result fp :=
  match kw_bits with
  | Some _ => Raises EType
  | None =>
    let bits := if r_len r =? 2 ^ 32 - 1 then 2 ^ 32 else r_len r in
    from_index_list k (r_on r) bits (level_arg lv) (name_arg nm)
  end.

(* ---- objects with their property dictionary; pickle -------------------------------------------------- *)
(* other entries of `props` (key, canonical rendering of the value), sorted by key; "Name" lives in fname *)
Record fpx := mkfpx { xfp : fp; xprops : list (string * string) }.

(* the state dictionary: for count kinds the code means to drop the index array (`k not in ("indices",)`) but the
   attribute is called `_indices`, so it is kept; __setstate__ of count kinds overwrites it with sorted(counts) *)
Record pstate := mkpstate {
  st_kind : kind; st_indices : list Z; st_bits : Z; st_level : option Z; st_counts : cmap;
  st_name : option string; st_props : list (string * string) }.

Definition getstate (x : fpx) : pstate :=
  let a := xfp x in
  mkpstate (fkind a) (fidx a) (fbits a) (flevel a) (fcnt a) (fname a) (xprops x).

Definition setstate (s : pstate) : fpx :=
  let idx := match st_kind s with KBit => st_indices s | _ => usort (ckeys (st_counts s)) end in
  mkfpx (mkfp (st_kind s) (st_bits s) (st_level s) idx (st_counts s) (st_name s)) (st_props s).

Definition pickle_roundtrip (x : fpx) : fpx := setstate (getstate x).

(* cls.from_fingerprint(fp): all props are copied *)
Definition from_fingerprint_x (k : kind) (x : fpx) : result fpx :=
  rbind (from_fingerprint k (xfp x)) (fun r => Ok (mkfpx r (xprops x))).

(* save(f, fp) then load(f, update_structure): the three extensions differ only by a lossless byte codec *)
Definition file_roundtrip (update_structure : bool) (x : fpx) : result fpx :=
  let y := pickle_roundtrip x in
  if update_structure then from_fingerprint_x (fkind (xfp y)) y else Ok y.

(* savez(f, *fps) then loadz(f, update_structure) *)
Definition filez_roundtrip (update_structure : bool) (xs : list fpx) : result (list fpx) :=
  rmap (file_roundtrip update_structure) xs.

(* The same with the byte level made explicit.  pickle and the file layer (smart_open + gzip / bz2 by extension,
   pickles written one after the other, read back until EOFError) are not modelled: they are parameters, and the
   theorems about them assume exactly that loads inverts dumps and that reading a written file returns the written
   pickles.  `pickle_roundtrip`, `file_roundtrip`, `filez_roundtrip` above are these functions at the identity codec
   (that is what the correspondence evaluates). *)
Inductive file_ext := XPkl | XGz | XBz2.      (* .fp.pkl / .fp.gz / .fp.bz2 *)

Definition update_structure_x (u : bool) (y : fpx) : result fpx :=
  if u then from_fingerprint_x (fkind (xfp y)) y else Ok y.

Section Codec.
  Variables pbytes fbytes : Type.
  Variable pkl_dumps : pstate -> pbytes.                      (* pickle.dumps(fp, protocol) : pickles __getstate__() *)
  Variable pkl_loads : pbytes -> pstate.                      (* pickle.loads *)
  Variable file_write : file_ext -> list pbytes -> fbytes.    (* with smart_open.open(f, "wb"): one dump per fingerprint *)
  Variable file_read : file_ext -> fbytes -> list pbytes.     (* with smart_open.open(f, "rb"): load until EOFError *)

  Definition pickle_via (x : fpx) : fpx := setstate (pkl_loads (pkl_dumps (getstate x))).

  Definition filez_via (e : file_ext) (u : bool) (xs : list fpx) : result (list fpx) :=
    rmap (fun b => update_structure_x u (setstate (pkl_loads b)))
         (file_read e (file_write e (map (fun x => pkl_dumps (getstate x)) xs))).

  (* load(f): the first fingerprint of the file, None for an empty file *)
  Definition file_via (e : file_ext) (u : bool) (x : fpx) : result (option fpx) :=
    rbind (filez_via e u [x]) (fun ys => Ok (hd_error ys)).
End Codec.

(* ---- index array ------------------------------------------------------------------------------------ *)
(* cls.from_indices(fp.indices, [counts=fp.counts,] bits=fp.bits, level=.., name=..) *)
Definition from_indices_of (a : fp) (lv : option (option Z)) (nm : option string) : result fp :=
  match fkind a with
  | KBit => mk_bit (fidx a) (fbits a) (level_arg lv) (name_arg nm)
  | k => mk_count k (fidx a) (fcnt a) (fbits a) (level_arg lv) (name_arg nm)
  end.

(* ---- observation helpers for the correspondence ------------------------------------------------------ *)
Definition qlist_eqb (a b : list Q) : bool := list_eqb Qeq_bool a b.
Definition entries_eqb (a b : list (Z * Q)) : bool := cmap_eqb a b.
Definition result_map {A B} (f : A -> B) (r : result A) : result B :=
  match r with Ok a => Ok (f a) | Raises e => Raises e end.
Definition dense_c_eqb (a b : Z * list (Z * Q)) : bool := (fst a =? fst b) && entries_eqb (snd a) (snd b).
Definition csr_eqb (a b : csr) : bool := (c_ncols a =? c_ncols b) && entries_eqb (c_entries a) (c_entries b).
Definition rdk_eqb (a b : rdk) : bool :=
  Bool.eqb (r_sparse a) (r_sparse b) && (r_len a =? r_len b) && list_eqb Z.eqb (r_on a) (r_on b).
Definition props_eqb (a b : list (string * string)) : bool :=
  list_eqb (fun x y => String.eqb (fst x) (fst y) && String.eqb (snd x) (snd y)) a b.
Definition fpx_obs_eqb (a b : fpx) : bool := fp_obs_eqb (xfp a) (xfp b) && props_eqb (xprops a) (xprops b).

(* support by value: positions whose count is not zero *)
Definition nz_support (a : fp) : list Z := filter (fun i => negb (Qeq_bool (get_count a i) 0)) (fidx a).
