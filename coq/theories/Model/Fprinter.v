(* M1 object layer: one Fingerprinter object across a history of run() calls (fprinter.py:151-183 after the repair
   "run resets conformer state on every run").

   What survives from one run() to the next is decided by object identity: `mol is not self.mol` triggers
   reset_mol + initialize_mol (atoms, bound atoms, connectivity, level-0 identifiers are recomputed from the molecule);
   otherwise those molecule-level tables are REUSED and only the conformer-level state is reset.  Coordinates are always
   read afresh for the retained atoms.  A Python object is modelled as an identity token plus the data it holds at the
   time of the call (the same object may hold different data later: RDKit molecules are mutable). *)
From Coq Require Import QArith.
From E3FP Require Import Base.Prelude Model.Geometry Model.Stereo Model.Fprint Model.E3FP.
Open Scope Z_scope.
Open Scope Z_scope.

Section Fprinter.
Variable D : ringdict.
Variable C : sconsts.
Variable fuel : nat.

(* molecule-level data of `base` with the coordinates of `cur` (looked up by atom index) *)
Definition with_positions (base cur : mol D) : mol D :=
  mkmol D (map (fun a => mkatom D (a_idx D a) (a_num D a) (a_deg D a) (a_tdeg D a) (a_tval D a) (a_nh D a) (a_mass D a) (a_charge D a)
                            (a_ring D a) (a_dmass D a) (pos_of D (m_atoms D cur) (a_idx D a))) (m_atoms D base))
        (m_bonds D base) (m_unit2 D cur).

Record fprinter := mkfprinter {
  f_opts : opts;
  f_mol : option (Z * mol D);          (* identity of self.mol and the data initialize_mol saw *)
  f_last : option (result state) }.    (* outcome of the last run (level_shells etc.) *)

Definition new_fprinter (o : opts) : fprinter := mkfprinter o None None.

(* run(conf, mol): `id` is the identity of the molecule object, `m` what it holds now (with the conformer's coordinates) *)
Definition frun (f : fprinter) (id : Z) (m : mol D) : fprinter :=
  let base := match f_mol f with
              | Some (id', m') => if id =? id' then m' else m
              | None => m
              end in
  mkfprinter (f_opts f) (Some (id, base)) (Some (run D C fuel (f_opts f) (with_positions base m))).

Definition frun_all (f : fprinter) (h : list (Z * mol D)) : fprinter :=
  fold_left (fun f x => frun f (fst x) (snd x)) h f.

(* get_fingerprint_at_level on the object: reads f_last, writes nothing *)
Definition fquery (f : fprinter) (counts : bool) (bits : Z) (req : option Z) (mask : list Z) : result fp :=
  match f_last f with
  | Some (Ok st) => fingerprint_query (f_opts f) counts bits st req mask
  | Some (Raises e) => Raises e
  | None => Raises EIndex
  end.

(* same molecule-level data (everything but coordinates and the length unit) *)
Definition same_topology (a b : mol D) : Prop :=
  m_bonds D a = m_bonds D b /\
  map (fun x => (a_idx D x, a_num D x, a_deg D x, a_tdeg D x, a_tval D x, a_nh D x, a_mass D x, a_charge D x, a_ring D x, a_dmass D x)) (m_atoms D a)
  = map (fun x => (a_idx D x, a_num D x, a_deg D x, a_tdeg D x, a_tval D x, a_nh D x, a_mass D x, a_charge D x, a_ring D x, a_dmass D x)) (m_atoms D b).

End Fprinter.
