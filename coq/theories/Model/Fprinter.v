(* M1 object layer: one Fingerprinter object across a history of run() calls (fprinter.py:151-205, 270-365, 368-446,
   496-501, after the repair "run resets conformer state on every run").

   The object state is explicit.  Molecule-level: `self.mol` (identity) with the tables initialize_mol derives from it
   (atoms, bound_atoms_dict, connectivity, init_identifiers: all functions of the molecule data seen at that time).
   Conformer-level: the dictionary `level_shells` (level -> set of shells; a Python dict, so stale keys are
   representable), `past_substructs`, and `current_level` (= shells_gen.level, None while shells_gen is None).
   reset_mol / reset_conf clear exactly what the code clears.  What survives from one run() to the next is decided by
   object identity: `mol is not self.mol` triggers reset_mol + initialize_mol; otherwise the molecule-level tables are
   REUSED and only reset_conf runs.  Coordinates are always read afresh for the retained atoms.  A Python object is
   modelled as an identity token plus the data it holds at the time of the call (the same object may hold different data
   later: RDKit molecules are mutable).

   The iteration itself (`for i in iter(self): pass`, i.e. __next__ until StopIteration) is Model/E3FP.v's `run`; its
   effect on the object is the WRITE `self.level_shells[self.current_level] = level_shells` for every level it reaches
   (0 .. k, overwriting), all other keys of the dictionary being left alone.  __next__ reads `level_shells[l-1]` only
   after having written it in the same run, so entries left over from an earlier run do not influence the iteration; it
   reads `past_substructs` from the start, which is why reset_conf must have emptied it (the iteration of Model/E3FP.v
   starts from the empty set). *)
From Coq Require Import QArith.
From E3FP Require Import Base.Prelude Base.ZSet Base.Murmur3 Model.Geometry Model.Stereo Model.Fprint Gen.Constants Model.E3FP.
Open Scope Z_scope.

(* ---- Python dict with integer keys (insertion-ordered association list, one entry per key) ---- *)
Section Dict.
Context {A : Type}.

Fixpoint dget (k : Z) (d : list (Z * A)) : option A :=
  match d with
  | [] => None
  | (k', v) :: t => if k =? k' then Some v else dget k t
  end.

Definition dmem (k : Z) (d : list (Z * A)) : bool := match dget k d with Some _ => true | None => false end.

(* d[k] = v : overwrite in place, or append a new key *)
Fixpoint dset (k : Z) (v : A) (d : list (Z * A)) : list (Z * A) :=
  match d with
  | [] => [(k, v)]
  | (k', v') :: t => if k =? k' then (k, v) :: t else (k', v') :: dset k v t
  end.

(* d[l] = x0; d[l+1] = x1; ... in this order *)
Fixpoint dset_from (l : Z) (vs : list A) (d : list (Z * A)) : list (Z * A) :=
  match vs with
  | [] => d
  | v :: t => dset_from (l + 1) t (dset l v d)
  end.

(* {l: x0, l+1: x1, ...} *)
Fixpoint enum_from (l : Z) (vs : list A) : list (Z * A) :=
  match vs with
  | [] => []
  | v :: t => (l, v) :: enum_from (l + 1) t
  end.
End Dict.

Section Fprinter.
Variable D : ringdict.
Variable C : sconsts.
Variable fuel : nat.

(* molecule-level data of `base` with the coordinates of `cur` (looked up by atom index) *)
Definition with_positions (base cur : mol D) : mol D :=
  mkmol D (map (fun a => mkatom D (a_idx D a) (a_num D a) (a_deg D a) (a_tdeg D a) (a_tval D a) (a_nh D a) (a_mass D a) (a_charge D a)
                            (a_ring D a) (a_dmass D a) (pos_of D (m_atoms D cur) (a_idx D a))) (m_atoms D base))
        (m_bonds D base) (m_unit2 D cur).

Record fprinter := mkfprinter {
  f_opts : opts;
  (* molecule-level *)
  f_mol : option Z;                           (* identity of self.mol (None after __init__) *)
  f_tables : option (mol D);                  (* atoms, bound_atoms_dict, connectivity, init_identifiers: the data
                                                 initialize_mol saw; None = cleared by reset_mol *)
  (* conformer-level *)
  f_level_shells : list (Z * list shell);     (* self.level_shells *)
  f_past : list (list Z);                     (* self.past_substructs *)
  f_cur : option Z;                           (* self.current_level (shells_gen.level; None if shells_gen is None) *)
  (* not object state: the exception the last run() call propagated to its caller, if any *)
  f_exn : option err }.

(* reset_conf(): level_shells = {}, past_substructs = set(), shells_gen = None (all_shells, atom_coords,
   identifiers_to_shells are not observed by the queries modelled here) *)
Definition reset_conf (f : fprinter) : fprinter :=
  mkfprinter (f_opts f) (f_mol f) (f_tables f) [] [] None (f_exn f).

(* reset_mol(): atoms = None, bound_atoms_dict = connectivity = init_identifiers = {}, then reset_conf().
   `self.mol` itself is NOT cleared by reset_mol (only __init__ sets it to None); the tables derived from it are. *)
Definition reset_mol (f : fprinter) : fprinter :=
  reset_conf (mkfprinter (f_opts f) (f_mol f) None (f_level_shells f) (f_past f) (f_cur f) (f_exn f)).

(* __init__: self.mol = None; self.reset() *)
Definition new_fprinter (o : opts) : fprinter := mkfprinter o None None [] [] None None.

(* initialize_mol(mol): self.mol = mol and the molecule-level tables computed from what the object holds now *)
Definition initialize_mol (f : fprinter) (id : Z) (m : mol D) : fprinter :=
  mkfprinter (f_opts f) (Some id) (Some m) (f_level_shells f) (f_past f) (f_cur f) (f_exn f).

(* `mol is self.mol` *)
Definition same_mol (f : fprinter) (id : Z) : bool :=
  match f_mol f with Some id' => id =? id' | None => false end.


(* the writes `self.level_shells[l] = ...` of one iteration, l = 0 .. k in this order (st_shells is newest first) *)
Definition store (st : state) (d : list (Z * list shell)) : list (Z * list shell) :=
  dset_from 0 (rev (st_shells st)) d.

(* initialize_conformer(conf) and `for i in iter(self): pass` on an object whose resets have been done.
   If anything raises (initialize_mol: bond type outside the table; initialize_conformer: no atom retained), it does so
   before the first __next__ completes: the conformer-level state stays as the resets left it.
   The iteration sees the cached molecule-level tables with the coordinates of the conformer passed now
   (atoms = None: coords_from_atoms raises TypeError; not reachable through `frun`). *)
Definition set_exn (f : fprinter) (e : err) : fprinter :=
  mkfprinter (f_opts f) (f_mol f) (f_tables f) (f_level_shells f) (f_past f) (f_cur f) (Some e).

Definition iterate_conf (f : fprinter) (m : mol D) : fprinter :=
  match f_tables f with
  | None => set_exn f EType
  | Some base =>
    match run D C fuel (f_opts f) (with_positions base m) with
    | Ok st => mkfprinter (f_opts f) (f_mol f) (f_tables f) (store st (f_level_shells f)) (st_past st) (Some (st_k st)) None
    | Raises e => set_exn f e
    end
  end.

(* run(conf, mol): `id` is the identity of the molecule object, `m` what it holds now (with the conformer's coordinates)
     if mol is not self.mol: self.reset_mol(); self.initialize_mol(mol)
     else: self.reset_conf()
     self.initialize_conformer(conf); for i in iter(self): pass *)
Definition frun (f : fprinter) (id : Z) (m : mol D) : fprinter :=
  let f1 := if same_mol f id then reset_conf f else initialize_mol (reset_mol f) id m in
  iterate_conf f1 m.

Definition frun_all (f : fprinter) (h : list (Z * mol D)) : fprinter :=
  fold_left (fun f x => frun f (fst x) (snd x)) h f.

(* ---- SEEDED-BUG VARIANT, used only in the refutation `stale_levels_without_reset` (Proofs/FprinterHistory.v) ----
   `self.level_shells = {}` moved from reset_conf() to reset_mol(): a new molecule object still clears the dictionary,
   another conformer of the same molecule object does not. *)
Definition reset_conf_noreset (f : fprinter) : fprinter :=
  mkfprinter (f_opts f) (f_mol f) (f_tables f) (f_level_shells f) [] None (f_exn f).
Definition reset_mol_noreset (f : fprinter) : fprinter :=
  reset_conf_noreset (mkfprinter (f_opts f) (f_mol f) None [] (f_past f) (f_cur f) (f_exn f)).
Definition frun_noreset (f : fprinter) (id : Z) (m : mol D) : fprinter :=
  let f1 := if same_mol f id then reset_conf_noreset f else initialize_mol (reset_mol_noreset f) id m in
  iterate_conf f1 m.
(* ---- end of the seeded-bug variant ---- *)

(* get_shells_at_level(level, exact=False) before the atom mask:
     if level in (-1, None) or level not in self.level_shells:
         if len(self.level_shells) == 0: raise IndexError
         true_level = self.current_level
     else: true_level = level
     shells = self.level_shells[true_level]          (KeyError if absent) *)
Definition fshells (f : fprinter) (req : option Z) : result (list shell) :=
  let d := f_level_shells f in
  let lookup (t : Z) := match dget t d with Some s => Ok s | None => Raises EKey end in
  let via_current :=
    match d with
    | [] => Raises EIndex
    | _ :: _ => match f_cur f with Some c => lookup c | None => Raises EKey end
    end in
  match req with
  | None => via_current
  | Some l => if (l =? -1) || negb (dmem l d) then via_current else lookup l
  end.

(* get_fingerprint_at_level(level, bits, atom_mask) on the object: reads the dictionary, writes nothing; the label of
   the fingerprint is the request itself *)
Definition fquery (f : fprinter) (counts : bool) (bits : Z) (req : option Z) (mask : list Z) : result fp :=
  rbind (fshells f req) (fun shells =>
    let ids := map (fun s => unsigned32 (s_ident s)) (filter (fun s => disjointb (s_sub s) mask) shells) in
    rbind (if counts then mk_count_from_indices KCount ids fprinter_bits req None
           else mk_bit ids fprinter_bits req None)
          (fun x => fp_fold x bits 0)).

(* the conformer-level state together with the outcome of the call, and what a fresh object shows after one run *)
Definition conf_state (f : fprinter) : list (Z * list shell) * list (list Z) * option Z * option err :=
  (f_level_shells f, f_past f, f_cur f, f_exn f).

Definition fresh_state (r : result state) : list (Z * list shell) * list (list Z) * option Z * option err :=
  match r with
  | Ok st => (store st [], st_past st, Some (st_k st), None)
  | Raises e => ([], [], None, Some e)
  end.

(* same molecule-level data (everything but coordinates and the length unit) *)
Definition same_topology (a b : mol D) : Prop :=
  m_bonds D a = m_bonds D b /\
  map (fun x => (a_idx D x, a_num D x, a_deg D x, a_tdeg D x, a_tval D x, a_nh D x, a_mass D x, a_charge D x, a_ring D x, a_dmass D x)) (m_atoms D a)
  = map (fun x => (a_idx D x, a_num D x, a_deg D x, a_tdeg D x, a_tval D x, a_nh D x, a_mass D x, a_charge D x, a_ring D x, a_dmass D x)) (m_atoms D b).

End Fprinter.
