(* M1 geometry: division-free, root-free 3-vectors over a ring dictionary.

   Every decision the fingerprinting code takes through sqrt / arccos / modular angles is expressed in the models as
   the sign of a polynomial in dot products and triple products (DESIGN.md 3.2).  The dictionary is a record so that
   the same definitions run at Z (coordinates = exact doubles scaled to integers) and are proved for every
   law-abiding dictionary, the reals included. *)
From Coq Require Import ZArith List Bool.
Import ListNotations.
Open Scope Z_scope.

Record ringdict := mkring {
  F : Type;
  f0 : F; f1 : F;
  fadd : F -> F -> F;
  fmul : F -> F -> F;
  fsub : F -> F -> F;
  fopp : F -> F;
  feqb : F -> F -> bool;
  fleb : F -> F -> bool;     (* a <= b *)
  fofZ : Z -> F }.

Definition ZD : ringdict := mkring Z 0 1 Z.add Z.mul Z.sub Z.opp Z.eqb Z.leb (fun z => z).

Section Vec.
Variable D : ringdict.
Notation T := (F D).
Local Notation "a +' b" := (fadd D a b) (at level 50, left associativity).
Local Notation "a *' b" := (fmul D a b) (at level 40, left associativity).
Local Notation "a -' b" := (fsub D a b) (at level 50, left associativity).

Definition fltb (a b : T) : bool := negb (fleb D b a).     (* a < b *)

Record vec := mkvec { vx : T; vy : T; vz : T }.

Definition vzero : vec := mkvec (f0 D) (f0 D) (f0 D).
Definition vadd (u v : vec) : vec := mkvec (vx u +' vx v) (vy u +' vy v) (vz u +' vz v).
Definition vsub (u v : vec) : vec := mkvec (vx u -' vx v) (vy u -' vy v) (vz u -' vz v).
Definition vscl (a : T) (u : vec) : vec := mkvec (a *' vx u) (a *' vy u) (a *' vz u).
Definition dot (u v : vec) : T := vx u *' vx v +' vy u *' vy v +' vz u *' vz v.
Definition det3 (u v w : vec) : T :=
  vx u *' (vy v *' vz w -' vz v *' vy w)
  -' vy u *' (vx v *' vz w -' vz v *' vx w)
  +' vz u *' (vx v *' vy w -' vy v *' vx w).
Definition veqb (u v : vec) : bool := feqb D (vx u) (vx v) && feqb D (vy u) (vy v) && feqb D (vz u) (vz v).
Definition vis0 (u : vec) : bool := veqb u vzero.
Definition vsum (l : list vec) : vec := fold_right vadd vzero l.
Definition sq (a : T) : T := a *' a.

(* 3x3 matrices as three rows; action on vectors *)
Record mat := mkmat { r1 : vec; r2 : vec; r3 : vec }.
Definition mv (M : mat) (u : vec) : vec := mkvec (dot (r1 M) u) (dot (r2 M) u) (dot (r3 M) u).
Definition mdet (M : mat) : T := det3 (r1 M) (r2 M) (r3 M).
End Vec.

Arguments mkvec {D} _ _ _.
Arguments vx {D} _.
Arguments vy {D} _.
Arguments vz {D} _.
Arguments mkmat {D} _ _ _.
