(* M4 - similarity measures: e3fp.fingerprint.metrics (dispatcher), fprint_metrics (fingerprint pairs),
   array_metrics (dense arrays and CSR matrices).

   Exact rationals.  A value that contains a square root (cosine, Pearson) is carried as a `rooted` pair
   (num, den2) standing for the real number num / sqrt den2 (and 0 when den2 = 0).  Two such values are compared
   through their signed square `rsq r = num*|num| / den2`, a rational: t |-> t*|t| is strictly increasing on the
   reals, so (for den2 >= 0) two rooted values denote the same real iff their signed squares are equal, and
   v <= w iff rsq v <= rsq w.  No real numbers, no axioms.

   Part 1: the five definitions on dense vectors (list Q of equal length) with the convention "zero denominator
   scores 0".  Part 2: the fifteen code paths as coded (fingerprint pair / dense array / CSR).  Part 3: the
   dispatcher of metrics/__init__.py and _check_array_pair of array_metrics.py.  No proofs here. *)
From Coq Require Import QArith Qabs Qminmax.
From E3FP Require Import Base.Prelude Base.ZSet Model.Fprint.
Open Scope Z_scope.

(* ================================================================================================ *)
(* Part 1. Definitions                                                                              *)
(* ================================================================================================ *)
Definition vec := list Q.

Fixpoint zipw {A} (f : Q -> Q -> A) (x y : vec) : list A :=
  match x, y with
  | a :: x', b :: y' => f a b :: zipw f x' y'
  | _, _ => []
  end.

(* sums are kept in lowest terms (Qred q == q): without it the denominators of a 64-term sum multiply up and
   vm_compute on binary positives becomes infeasible; Proofs/Metrics.v shows qsumr l == qsum l *)
Definition qsumr (l : list Q) : Q := fold_right (fun x acc => Qred (x + acc)) 0%Q l.

Definition dot (x y : vec) : Q := qsumr (zipw Qmult x y).

Definition nz (q : Q) : bool := negb (Qeq_bool q 0).
Definition b01 (b : bool) : Q := if b then 1%Q else 0%Q.

(* number of positions set in both / in either / in one vector *)
Definition n_and (x y : vec) : Q := qsumr (zipw (fun a b => b01 (nz a && nz b)) x y).
Definition n_or (x y : vec) : Q := qsumr (zipw (fun a b => b01 (nz a || nz b)) x y).
Definition n_on (x : vec) : Q := qsumr (map (fun a => b01 (nz a)) x).

(* n / d with the convention of the property: a zero denominator scores 0 *)
Definition sdiv (n d : Q) : Q := if Qeq_bool d 0 then 0%Q else (n / d)%Q.

(* Tanimoto and Dice: the "binary measures", defined on the binarised vectors *)
Definition tanimoto_def (x y : vec) : Q := sdiv (n_and x y) (n_or x y).
Definition dice_def (x y : vec) : Q := sdiv (2 * n_and x y) (n_on x + n_on y).

(* Soergel similarity: 1 - sum|x-y| / sum max(x,y) *)
Definition sum_absdiff (x y : vec) : Q := qsumr (zipw (fun a b => Qabs (a - b)) x y).
Definition sum_max (x y : vec) : Q := qsumr (zipw Qmax x y).
Definition soergel_def (x y : vec) : Q :=
  if Qeq_bool (sum_max x y) 0 then 0%Q else (1 - sum_absdiff x y / sum_max x y)%Q.

(* rooted values *)
Record rooted := mkr { rnum : Q; rden2 : Q }.
Definition rzero : rooted := mkr 0 1.
Definition rsq (r : rooted) : Q :=
  if Qeq_bool (rden2 r) 0 then 0%Q else (rnum r * Qabs (rnum r) / rden2 r)%Q.

(* cosine = x.y / sqrt((x.x)(y.y)) *)
Definition cosine_def (x y : vec) : rooted := mkr (dot x y) (dot x x * dot y y).

(* Pearson = sum (x-mx)(y-my) / sqrt(sum (x-mx)^2 * sum (y-my)^2) *)
Definition qlen {A} (l : list A) : Q := inject_Z (Z.of_nat (length l)).
Definition mean (x : vec) : Q := (qsumr x / qlen x)%Q.
Definition center (x : vec) : vec := map (fun v => (v - mean x)%Q) x.
Definition pearson_def (x y : vec) : rooted :=
  let cx := center x in let cy := center y in mkr (dot cx cy) (dot cx cx * dot cy cy).

(* ================================================================================================ *)
(* Part 2a. Fingerprint-pair paths (fprint_metrics.py)                                              *)
(* ================================================================================================ *)
(* np.intersect1d(fp1.indices, fp2.indices, assume_unique=True).shape[0]; bit_count = indices.shape[0] *)
Definition fp_tanimoto (a b : fp) : Q :=
  let i := qlen (zinter (fidx a) (fidx b)) in
  let d := (qlen (fidx a) + qlen (fidx b) - i)%Q in
  if Qeq_bool d 0 then 0%Q (* ZeroDivisionError *) else (i / d)%Q.

Definition fp_dice (a b : fp) : Q :=
  let i := qlen (zinter (fidx a) (fidx b)) in
  let d := (qlen (fidx a) + qlen (fidx b))%Q in
  if Qeq_bool d 0 then 0%Q else (2 * i / d)%Q.

(* diff_counts_dict: keys of either counts dict, value a - b *)
Definition diff_keys (a b : fp) : list Z := zunion (ckeys (counts_of a)) (ckeys (counts_of b)).

Definition fp_soergel (a b : fp) : Q :=
  if negb (is_count_like a || is_count_like b) then fp_tanimoto a b
  else
    let ks := diff_keys a b in
    match ks with
    | [] => 0%Q
    | _ =>
      let sad := qsumr (map (fun k => Qabs (cget (counts_of a) k - cget (counts_of b) k)) ks) in
      let smax := qsumr (map (fun k => Qmax (get_count a k) (get_count b k)) ks) in
      if Qeq_bool smax 0 then 0%Q else (1 - sad / smax)%Q
    end.

Definition fp_dot (a b : fp) : Q := qsumr (map (fun kv => (snd kv * get_count b (fst kv))%Q) (counts_of a)).
Definition fp_sumsq (a : fp) : Q := qsumr (map (fun kv => (snd kv * snd kv)%Q) (counts_of a)).

Definition fp_cosine (a b : fp) : rooted :=
  let n2 := (fp_sumsq a * fp_sumsq b)%Q in
  if Qeq_bool n2 0 then rzero (* ZeroDivisionError *) else mkr (fp_dot a b) n2.

(* Fingerprint.mean = bit_count / bits ; CountFingerprint.mean = sum(counts) / bits *)
Definition fp_mean (a : fp) : Q :=
  match fkind a with
  | KBit => (qlen (fidx a) / inject_Z (fbits a))%Q
  | _ => (qsumr (map snd (fcnt a)) / inject_Z (fbits a))%Q
  end.
(* the square of std(); CountFingerprint.std clamps the variance at 0 before the root *)
Definition fp_var (a : fp) : Q :=
  let m := fp_mean a in
  match fkind a with
  | KBit => (m * (1 - m))%Q
  | _ => Qmax (qsumr (map (fun kv => (snd kv * snd kv)%Q) (fcnt a)) / inject_Z (fbits a) - m * m)%Q 0%Q
  end.

Definition fp_pearson (a b : fp) : rooted :=
  if (fbits a =? 0) || (fbits b =? 0) then rzero
  else
    let d2 := (fp_var a * fp_var b)%Q in
    if Qeq_bool d2 0 then rzero
    else mkr (fp_dot a b / inject_Z (fbits a) - fp_mean a * fp_mean b) d2.

(* ================================================================================================ *)
(* Part 2b. Dense array paths (array_metrics.py on ndarray, after astype(float))                    *)
(* ================================================================================================ *)
(* float division followed by np.nan_to_num: 0/0 = nan -> 0, x/0 = +-inf -> +-DBL_MAX *)
Definition DBL_MAX : Q := inject_Z (2 ^ 1024 - 2 ^ 971).
Definition fdiv (n d : Q) : Q :=
  if Qeq_bool d 0 then (if Qeq_bool n 0 then 0%Q else if Qle_bool 0 n then DBL_MAX else (- DBL_MAX)%Q)
  else (n / d)%Q.

(* _get_bitcount_arrays: the "bit counts" are row sums of the float array, XYbits the dot products *)
Definition arr_tanimoto (x y : vec) : Q := fdiv (dot x y) (qsumr x + qsumr y - dot x y).
Definition arr_dice (x y : vec) : Q := fdiv (2 * dot x y) (qsumr x + qsumr y).

(* nan_to_num(1 - cdist(X, Y, "cosine")) *)
Definition arr_cosine (x y : vec) : rooted :=
  let n2 := (dot x x * dot y y)%Q in
  if Qeq_bool n2 0 then rzero else mkr (dot x y) n2.

(* np.corrcoef(X, Y): rows centred, c = X X^T / (n-1), r_ij = c_ij / sqrt(c_ii c_jj); nan_to_num *)
Definition arr_pearson (x y : vec) : rooted :=
  let n1 := (qlen x - 1)%Q in
  if Qeq_bool n1 0 then rzero
  else
    let cx := center x in let cy := center y in
    let d2 := ((dot cx cx / n1) * (dot cy cy / n1))%Q in
    if Qeq_bool d2 0 then rzero else mkr (dot cx cy / n1) d2.

(* _dense_soergel *)
Definition qpos (d : Q) : bool := negb (Qle_bool d 0).    (* d > 0 *)

Fixpoint dsoergel_loop (x y : vec) (sad smax : Q) : Q * Q :=
  match x, y with
  | a :: x', b :: y' =>
    let d := (a - b)%Q in
    if qpos d then dsoergel_loop x' y' (sad + d)%Q (smax + a)%Q
    else dsoergel_loop x' y' (sad - d)%Q (smax + b)%Q
  | _, _ => (sad, smax)
  end.

Definition soergel_finish (p : Q * Q) : Q :=
  if Qeq_bool (snd p) 0 then 0%Q else (1 - fst p / snd p)%Q.

Definition arr_soergel (x y : vec) : Q := soergel_finish (dsoergel_loop x y 0 0).

(* ================================================================================================ *)
(* Part 2c. CSR paths.  A row is the slice data[indptr[i]:indptr[i+1]], indices[...] as stored:      *)
(* any order, explicit zeros, possibly duplicate column indices.                                     *)
(* ================================================================================================ *)
Definition row := list (Z * Q).

(* the entry of the matrix at column i (duplicates add up: toarray()) *)
Fixpoint rget (r : row) (i : Z) : Q :=
  match r with
  | [] => 0%Q
  | (j, v) :: t => if i =? j then (v + rget t i)%Q else rget t i
  end.

Fixpoint zrange_from (s : Z) (n : nat) : list Z :=
  match n with O => [] | S k => s :: zrange_from (s + 1) k end.
Definition zrange (n : Z) : list Z := zrange_from 0 (Z.to_nat n).

Definition expand (n : Z) (r : row) : vec := map (rget r) (zrange n).

Definition rsum (r : row) : Q := qsumr (map snd r).                   (* np.sum(X, axis=1) *)
Definition rdot (r s : row) : Q := qsumr (map (fun kv => (snd kv * rget s (fst kv))%Q) r).   (* (X * Y.T) *)
(* scipy.sparse.linalg.norm(X, axis=1) ^ 2: duplicates are summed before squaring, i.e. sum_i (entry i)^2 = r . r *)
Definition rsumsq (r : row) : Q := rdot r r.

Definition sp_tanimoto (r s : row) : Q := fdiv (rdot r s) (rsum r + rsum s - rdot r s).
Definition sp_dice (r s : row) : Q := fdiv (2 * rdot r s) (rsum r + rsum s).

(* _sparse_cosine *)
Definition sp_cosine (r s : row) : rooted :=
  let n2 := (rsumsq r * rsumsq s)%Q in
  if Qeq_bool n2 0 then rzero else mkr (rdot r s) n2.

(* sparse Pearson: vstack, X - X.mean(axis=1) (dense), (X X^T)/(n-1), cov / outer(d, d), nan_to_num *)
Definition sp_pearson (n : Z) (r s : row) : rooted :=
  let n1 := (inject_Z n - 1)%Q in
  if Qeq_bool n1 0 then rzero
  else
    let mr := (rsum r / inject_Z n)%Q in let ms := (rsum s / inject_Z n)%Q in
    let cx := map (fun v => (v - mr)%Q) (expand n r) in
    let cy := map (fun v => (v - ms)%Q) (expand n s) in
    let d2 := ((dot cx cx / n1) * (dot cy cy / n1))%Q in
    if Qeq_bool d2 0 then rzero else mkr (dot cx cy / n1) d2.

(* X.sum_duplicates() on a private copy (done when the matrix is not in canonical format; the identity on a
   canonical one): per row, the distinct column indices in increasing order, each with the sum of its entries.
   Explicit zeros (stored or arising from the sum) stay. *)
Definition rcanon (r : row) : row := map (fun k => (k, rget r k)) (usort (map fst r)).

(* the two tail loops *)
Fixpoint stail (r : row) (sad smax : Q) : Q * Q :=
  match r with
  | [] => (sad, smax)
  | (_, v) :: t => stail t (sad + v)%Q (smax + v)%Q
  end.

(* the merge loop of _sparse_soergel followed by its two tail loops *)
Fixpoint smerge (rx : row) : row -> Q -> Q -> Q * Q :=
  fix inner (ry : row) (sad smax : Q) {struct ry} : Q * Q :=
    match rx with
    | [] => stail ry sad smax
    | (i, v) :: rx' =>
      match ry with
      | [] => stail rx sad smax
      | (j, w) :: ry' =>
        if i <? j then smerge rx' ry (sad + v)%Q (smax + v)%Q
        else if j <? i then inner ry' (sad + w)%Q (smax + w)%Q
        else
          let d := (v - w)%Q in
          if qpos d then smerge rx' ry' (sad + d)%Q (smax + v)%Q
          else smerge rx' ry' (sad - d)%Q (smax + w)%Q
      end
    end.

(* one entry of S: empty-row short-cuts, then merge on the rows as given (canonicalised by soergel() beforehand) *)
Definition sp_soergel_rows (rx ry : row) : Q :=
  match rx, ry with
  | [], _ => 0%Q
  | _, [] => 0%Q
  | _, _ => soergel_finish (smerge rx ry 0 0)
  end.

(* array_metrics.soergel on CSR input: canonicalise both, then the kernel *)
Definition sp_soergel (rx ry : row) : Q := sp_soergel_rows (rcanon rx) (rcanon ry).

(* ================================================================================================ *)
(* Part 3. Calling conventions                                                                      *)
(* ================================================================================================ *)
Inductive metric := MTanimoto | MDice | MCosine | MPearson | MSoergel.

Inductive value := VQ (q : Q) | VR (r : rooted).

Inductive mres := Scalar (v : value) | Matrix (m : list (list value)).

Definition pairwise {A} (f : A -> A -> value) (X Y : list A) : mres :=
  Matrix (map (fun x => map (fun y => f x y) Y) X).

(* ---- array_metrics.<m>(X, Y=None) -------------------------------------------------------------- *)
Inductive arr :=
| Dense (w : Z) (rows : list vec)
| Sparse (w : Z) (rows : list row).

Definition arr_width (a : arr) : Z := match a with Dense w _ => w | Sparse w _ => w end.
Definition arr_sparse (a : arr) : bool := match a with Sparse _ _ => true | _ => false end.

(* csr_matrix(dense): non-zero entries in column order *)
Fixpoint row_of_vec_from (s : Z) (x : vec) : row :=
  match x with
  | [] => []
  | v :: t => if nz v then (s, v) :: row_of_vec_from (s + 1) t else row_of_vec_from (s + 1) t
  end.
Definition row_of_vec (x : vec) : row := row_of_vec_from 0 x.

Definition to_sparse_rows (a : arr) : list row :=
  match a with Dense _ rows => map row_of_vec rows | Sparse _ rows => rows end.

Definition dense_metric (m : metric) (x y : vec) : value :=
  match m with
  | MTanimoto => VQ (arr_tanimoto x y)
  | MDice => VQ (arr_dice x y)
  | MCosine => VR (arr_cosine x y)
  | MPearson => VR (arr_pearson x y)
  | MSoergel => VQ (arr_soergel x y)
  end.

Definition sparse_metric (m : metric) (w : Z) (r s : row) : value :=
  match m with
  | MTanimoto => VQ (sp_tanimoto r s)
  | MDice => VQ (sp_dice r s)
  | MCosine => VR (sp_cosine r s)
  | MPearson => VR (sp_pearson w r s)
  | MSoergel => VQ (sp_soergel r s)
  end.

(* _check_array_pair + the measure; Y = None compares X with itself *)
Definition array_metric (m : metric) (X : arr) (Y : option arr) : result mres :=
  let Y' := match Y with Some y => y | None => X end in
  if negb (arr_width X =? arr_width Y') then Raises EValue
  else if arr_sparse X || arr_sparse Y' then
    Ok (pairwise (sparse_metric m (arr_width X)) (to_sparse_rows X) (to_sparse_rows Y'))
  else
    match X, Y' with
    | Dense _ rx, Dense _ ry => Ok (pairwise (dense_metric m) rx ry)
    | _, _ => Raises EOther
    end.

(* ---- metrics.<m>(A, B=None) -------------------------------------------------------------------- *)
Record mdb := mkdb { dkind : kind; dlevel : option Z; dwidth : Z; drows : list row }.

Inductive item := IFp (f : fp) | IDb (d : mdb) | IOther.

Definition item_bits (it : item) : option Z :=
  match it with IFp f => Some (fbits f) | IDb d => Some (dwidth d) | IOther => None end.
Definition is_db (it : item) : bool := match it with IDb _ => true | _ => false end.

(* astype to the vector dtype of a fingerprint class as the dispatcher uses it: to bool (non-zero) for Tanimoto/Dice,
   otherwise to the fingerprint's own dtype (uint16 of integer counts < 2^16, float64), which changes nothing *)
Definition cast_dtype (k : kind) (v : Q) : Q :=
  match k with KBit => b01 (nz v) | _ => v end.

(* fprint.to_vector(sparse=True, dtype=...): one entry per index, in index order *)
Definition fp_row (k : kind) (a : fp) : row :=
  map (fun i => (i, cast_dtype k (cget (counts_of a) i))) (fidx a).

(* FingerprintDatabase(fp_type, level=item.level).add_fingerprints([item]) *)
Definition db_of_fp (k : kind) (a : fp) : mdb := mkdb k (flevel a) (fbits a) [fp_row k a].

(* db.as_type(fp_type, copy=False) *)
Definition db_as_type (k : kind) (d : mdb) : mdb :=
  if kind_eqb k (dkind d) then d
  else mkdb k (dlevel d) (dwidth d) (map (map (fun e => (fst e, cast_dtype k (snd e)))) (drows d)).

Definition cast_type (m : metric) : option kind :=
  match m with MTanimoto | MDice => Some KBit | _ => None end.

Definition check_item (fp_type : option kind) (force_db : bool) (it : item) : item :=
  match it with
  | IFp f => if force_db then IDb (db_of_fp (match fp_type with Some k => k | None => fkind f end) f) else it
  | IDb d => match fp_type with Some k => IDb (db_as_type k d) | None => it end
  | IOther => it
  end.

Definition fp_metric (m : metric) (a b : fp) : value :=
  match m with
  | MTanimoto => VQ (fp_tanimoto a b)
  | MDice => VQ (fp_dice a b)
  | MCosine => VR (fp_cosine a b)
  | MPearson => VR (fp_pearson a b)
  | MSoergel => VQ (fp_soergel a b)
  end.

Definition dispatch (m : metric) (A : item) (B : option item) : result mres :=
  let bits_check :=
    match B with
    | None => None
    | Some b =>
      match item_bits A, item_bits b with
      | Some x, Some y => if x =? y then None else Some EBits
      | _, _ => Some EType
      end
    end in
  match bits_check with
  | Some e => Raises e
  | None =>
    let force := is_db A || match B with Some b => is_db b | None => false end in
    let A' := check_item (cast_type m) force A in
    let B' := match B with None => A' | Some b => check_item (cast_type m) force b end in
    match A', B' with
    | IFp a, IFp b => Ok (Scalar (fp_metric m a b))
    | IDb da, IDb db_ => array_metric m (Sparse (dwidth da) (drows da)) (Some (Sparse (dwidth db_) (drows db_)))
    | _, _ => Raises EOther      (* AttributeError: no .array *)
    end
  end.

(* ================================================================================================ *)
(* Observation / comparison helpers used by the correspondence                                      *)
(* ================================================================================================ *)
(* is the implementation's float f within tol of the real number denoted by r?  s(t) = t|t| is increasing, so
   f - tol <= v <= f + tol  iff  s(f - tol) <= s(v) <= s(f + tol), and s(v) = rsq r. *)
Definition ssq (t : Q) : Q := (t * Qabs t)%Q.
Definition r_close (tol f : Q) (r : rooted) : bool :=
  Qle_bool (ssq (f - tol)) (rsq r) && Qle_bool (rsq r) (ssq (f + tol)).

Definition value_close (tol f : Q) (v : value) : bool :=
  match v with VQ q => q_close tol f q | VR r => r_close tol f r end.

Fixpoint list_close {A B} (c : A -> B -> bool) (a : list A) (b : list B) : bool :=
  match a, b with
  | [], [] => true
  | x :: a', y :: b' => c x y && list_close c a' b'
  | _, _ => false
  end.

(* implementation observation: a scalar float or a matrix of floats (exact rationals); in a masked matrix the entries
   None are not compared (Pearson with a constant non-zero operand: 0/0, decided by round-off in the implementation) *)
Inductive obsv := OScalar (f : Q) | OMatrix (m : list (list Q)) | OMasked (m : list (list (option Q))).

Definition opt_close (tol : Q) (f : option Q) (v : value) : bool :=
  match f with None => true | Some x => value_close tol x v end.

Definition mres_close (tol : Q) (o : obsv) (r : mres) : bool :=
  match o, r with
  | OScalar f, Scalar v => value_close tol f v
  | OMatrix fm, Matrix vm => list_close (list_close (value_close tol)) fm vm
  | OMasked fm, Matrix vm => list_close (list_close (opt_close tol)) fm vm
  | _, _ => false
  end.

Definition res_close (tol : Q) (o : result obsv) (r : result mres) : bool :=
  match o, r with
  | Ok a, Ok b => mres_close tol a b
  | Raises e, Raises f => err_eqb e f
  | _, _ => false
  end.

(* the definitions as a measure on dense vectors, for the direct property check *)
Definition def_metric (m : metric) (x y : vec) : value :=
  match m with
  | MTanimoto => VQ (tanimoto_def x y)
  | MDice => VQ (dice_def x y)
  | MCosine => VR (cosine_def x y)
  | MPearson => VR (pearson_def x y)
  | MSoergel => VQ (soergel_def x y)
  end.

Definition def_pairwise (m : metric) (X Y : list vec) : mres := pairwise (def_metric m) X Y.
Definition def_scalar (m : metric) (x y : vec) : mres := Scalar (def_metric m x y).
