(* M6 - entry points: e3fp.pipeline, e3fp.fingerprint.generate.fprints_dict_from_mol, conformer.util.MolItemName.

   What is modelled (the code of the repaired tree, line by line):
     * MolItemName.from_str / to_conf_name: a character-level matcher for MOL_ITEM_REGEX
         (?P<mol_name>.+?)(?:-(?P<proto_state_num>\d+))?(?:_(?P<conf_num>\d+))?$
       (lazy mol name = shortest non-empty newline-free prefix whose remainder matches the two optional groups up to
       `$`; `$` also matches before one trailing newline; int() of the digit groups; "{}{}{:d}" printing);
     * fprints_dict_from_mol: level/bits normalisation, the save-path construction, the all-files-exist / overwrite
       rule, the conformer loop with the `first` cut-off and its index bookkeeping (the count that is logged), the
       level range, naming, the per-level dict (insertion ordered), any exception inside the loop -> {}, the two save
       branches;
     * pipeline.fprints_from_fprints_dict / fprints_from_mol / fprints_from_sdf / fprints_from_smiles; the default
       `confgen_params={}` object of fprints_from_smiles is explicit state (smiles_step).
   What is a parameter: the per-conformer fingerprinting function (model M1, built separately) `fprint`, the conformer
   generator `confgen`, the SDF reader, pickle.  Not modelled: touch_dir (directories), logging other than the
   "Generated N fingerprints" count, file-system errors inside savez (they make the function return {}).
   Strings are byte strings: a name with non-ASCII *digits* (which Python's \d accepts) is outside the model. *)
From Coq Require Import Ascii NArith DecimalString DecimalN.
From E3FP Require Import Base.Prelude Model.Fprint Gen.PipelineFacts.
Open Scope Z_scope.

(* ---- decimal printing / reading ------------------------------------------------------------------------ *)
Definition chars := list ascii.

(* "{:d}".format(z) *)
Definition dec (z : Z) : string :=
  if z <? 0 then String "-" (NilEmpty.string_of_uint (N.to_uint (Z.to_N (- z))))
  else NilEmpty.string_of_uint (N.to_uint (Z.to_N z)).

Definition is_nl (c : ascii) : bool := Ascii.eqb c "010"%char.

Definition is_digit (c : ascii) : bool :=
  match c with
  | "0" | "1" | "2" | "3" | "4" | "5" | "6" | "7" | "8" | "9" => true
  | _ => false
  end%char.

(* int(d) for a run of ASCII digits *)
Definition digits_value (d : chars) : Z :=
  match NilEmpty.uint_of_string (string_of_list_ascii d) with
  | Some u => Z.of_N (N.of_uint u)
  | None => 0
  end.

(* ---- MOL_ITEM_REGEX -------------------------------------------------------------------------------------- *)
(* \d+ is greedy; giving digits back can never help because what follows a digit group must be "_" or the end *)
Fixpoint span_digits (s : chars) : chars * chars :=
  match s with
  | c :: t => if is_digit c then let (d, r) := span_digits t in (c :: d, r) else ([], s)
  | [] => ([], [])
  end.

(* `$` without re.MULTILINE: at the end, or just before a newline that ends the string *)
Definition at_end (s : chars) : bool :=
  match s with
  | [] => true
  | [c] => is_nl c
  | _ => false
  end.

(* (?:_(\d+))?$   -- Some cf: matched, cf = the conf_num group *)
Definition match_conf (s : chars) : option (option Z) :=
  match s with
  | c :: t =>
    if Ascii.eqb c "_" then
      let (d, r) := span_digits t in
      match d with
      | [] => None
      | _ => if at_end r then Some (Some (digits_value d)) else None
      end
    else if at_end s then Some None else None
  | [] => Some None
  end.

(* (?:-(\d+))?(?:_(\d+))?$ *)
Definition match_rest (s : chars) : option (option Z * option Z) :=
  let skip := match match_conf s with Some cf => Some (None, cf) | None => None end in
  match s with
  | c :: t =>
    if Ascii.eqb c "-" then
      let (d, r) := span_digits t in
      match d with
      | [] => skip
      | _ => match match_conf r with
             | Some cf => Some (Some (digits_value d), cf)
             | None => skip
             end
      end
    else skip
  | [] => skip
  end.

(* (.+?) followed by the rest: the shortest non-empty prefix without "\n" whose remainder matches *)
Fixpoint scan_name (s : chars) : option (chars * option Z * option Z) :=
  match s with
  | [] => None
  | c :: t =>
    if is_nl c then None
    else match match_rest t with
         | Some (p, cf) => Some ([c], p, cf)
         | None => match scan_name t with
                   | Some (m, p, cf) => Some (c :: m, p, cf)
                   | None => None
                   end
         end
  end.

Record mol_item := mkitem { mi_mol : string; mi_proto : option Z; mi_conf : option Z }.

(* MolItemName.from_str: no match -> re.match returns None -> AttributeError *)
Definition from_str (s : string) : result mol_item :=
  match scan_name (list_ascii_of_string s) with
  | Some (m, p, cf) => Ok (mkitem (string_of_list_ascii m) p cf)
  | None => Raises EOther
  end.

Definition proto_name (mi : mol_item) : string :=
  match mi_proto mi with
  | Some p => (mi_mol mi ++ proto_name_delim ++ dec p)%string
  | None => mi_mol mi
  end.

Definition to_conf_name (mi : mol_item) (conf_num : option Z) : string :=
  match conf_num with
  | Some j => (proto_name mi ++ conf_name_delim ++ dec j)%string
  | None => proto_name mi
  end.

Definition mol_item_eqb (a b : mol_item) : bool :=
  String.eqb (mi_mol a) (mi_mol b) && option_eqb Z.eqb (mi_proto a) (mi_proto b) && option_eqb Z.eqb (mi_conf a) (mi_conf b).

(* fprint.name = MolItemName.from_str(name).to_conf_name(j) *)
Definition conf_name_of (name : string) (j : Z) : result string :=
  rbind (from_str name) (fun mi => Ok (to_conf_name mi (Some j))).

(* ---- per-level dict (insertion ordered, like a Python dict) ------------------------------------------------ *)
Definition fdict := list (Z * list fp).

Fixpoint dict_get (d : fdict) (k : Z) : option (list fp) :=
  match d with
  | [] => None
  | (k', l) :: t => if k =? k' then Some l else dict_get t k
  end.

(* d.setdefault(k, []).append(x) *)
Fixpoint dict_append (d : fdict) (k : Z) (x : fp) : fdict :=
  match d with
  | [] => [(k, [x])]
  | (k', l) :: t => if k =? k' then (k', l ++ [x]) :: t else (k', l) :: dict_append t k x
  end.

(* max(d.keys()): None stands for the ValueError on an empty dict *)
Definition dict_max_key (d : fdict) : option Z :=
  match d with
  | [] => None
  | (k, _) :: t => Some (fold_left Z.max (map fst t) k)
  end.

Definition with_name (x : fp) (n : option string) : fp :=
  mkfp (fkind x) (fbits x) (flevel x) (fidx x) (fcnt x) n.

Fixpoint zrange_from (lo : Z) (n : nat) : list Z :=
  match n with O => [] | S m => lo :: zrange_from (lo + 1) m end.
(* range(n) *)
Definition zrange (n : Z) : list Z := zrange_from 0 (Z.to_nat n).

(* ---- file state ------------------------------------------------------------------------------------------------ *)
(* a path is (directory, file name); the newest binding wins *)
Definition path := (string * string)%type.
Definition path_eqb (a b : path) : bool := String.eqb (fst a) (fst b) && String.eqb (snd a) (snd b).

Section Files.
  Variable content : Type.
  Definition fsmap := list (path * content).
  Fixpoint fs_lookup (fs : fsmap) (p : path) : option content :=
    match fs with
    | [] => None
    | (q, c) :: t => if path_eqb p q then Some c else fs_lookup t p
    end.
  Definition fs_isfile (fs : fsmap) (p : path) : bool :=
    match fs_lookup fs p with Some _ => true | None => false end.
  Definition fs_write (fs : fsmap) (w : path * content) : fsmap := w :: fs.
  Definition fs_writes (fs : fsmap) (ws : list (path * content)) : fsmap := fold_left fs_write ws fs.
  (* `if os.path.isfile(f) and not overwrite: continue`: a write is carried out unless its file exists and overwrite is off *)
  Definition fs_keep (overwrite : bool) (fs : fsmap) (w : path * content) : bool :=
    negb (fs_isfile fs (fst w) && negb overwrite).
End Files.
Arguments fs_lookup {content}.
Arguments fs_isfile {content}.
Arguments fs_write {content}.
Arguments fs_writes {content}.
Arguments fs_keep {content}.

(* "{!s}".format(out_dir_base) *)
Definition str_of_base (b : option string) : string := match b with Some s => s | None => "None"%string end.

Definition normal_level (l : option Z) : Z := match l with Some l => l | None => -1 end.
Definition normal_bits (b : option Z) : Z :=
  match b with
  | None => fprinter_bits_const
  | Some b => if b =? -1 then fprinter_bits_const else b
  end.

Definition single_level (level : Z) (all_iters : bool) : bool := (level =? -1) || negb all_iters.

Definition level_range (level : Z) (all_iters : bool) : list Z :=
  if single_level level all_iters then [level] else zrange (level + 1).

(* the list `filenames`; the all_iters branch formats out_dir_base with {:s}: TypeError for None *)
Definition filenames (base : option string) (level : Z) (all_iters : bool) (name ext : string) : result (list path) :=
  let file := (name ++ ext)%string in
  if single_level level all_iters then
    Ok [(String.append (str_of_base base) (if level =? -1 then "_complete"%string else dec level), file)]
  else match zrange (level + 1) with
       | [] => Ok []
       | r => match base with
              | None => Raises EType
              | Some b => Ok (map (fun i => ((b ++ dec i)%string, file)) r)
              end
       end.

(* ---- entry points ------------------------------------------------------------------------------------------------ *)
Section Entry.
  Variable conformer : Type.
  Variable opts : Type.        (* the seven fingerprinter options that are passed through untouched *)
  (* fprint o bits c L k = Fingerprinter(bits=bits, level=L, **o).run(c, mol) ; get_fingerprint_at_level(k) *)
  Variable fprint : opts -> Z -> conformer -> Z -> Z -> result fp.
  (* fp_init o bits L = the constructor Fingerprinter(bits=bits, level=L, **o): it is called outside the try, so its
     exception (level -1 together with remove_duplicate_substructs=False) propagates *)
  Variable fp_init : opts -> Z -> Z -> result unit.
  Variable content : Type.
  Variable pickle : list fp -> content.     (* what savez writes *)

  Record mol := mkmol { mname : option string; mconfs : list conformer }.

  Record fargs := mkfargs {
    a_bits : option Z; a_level : option Z; a_first : Z; a_opts : opts;
    a_out_dir_base : option string; a_out_ext : string; a_save : bool; a_all_iters : bool; a_overwrite : bool }.

  (* one conformer: every level of the range, named, appended to its list *)
  Fixpoint level_steps (o : opts) (bits level : Z) (name : option string) (j : Z) (c : conformer)
           (levels : list Z) (d : fdict) : result fdict :=
    match levels with
    | [] => Ok d
    | i :: rest =>
      rbind (fprint o bits c level i) (fun x =>
      rbind (match name with
             | Some s => rbind (conf_name_of s j) (fun n => Ok (with_name x (Some n)))
             | None => Ok x
             end) (fun x' =>
      level_steps o bits level name j c rest (dict_append d i x')))
    end.

  (* for j, conf in enumerate(confs): if j == first: j -= 1; break ...   returns the dict and the final j *)
  Fixpoint conf_loop (o : opts) (bits level : Z) (all_iters : bool) (name : option string) (first : Z)
           (j : Z) (confs : list conformer) (d : fdict) : result (fdict * Z) :=
    match confs with
    | [] => Ok (d, j - 1)
    | c :: t =>
      if j =? first then Ok (d, j - 1)
      else rbind (level_steps o bits level name j c (level_range level all_iters) d)
                 (fun d' => conf_loop o bits level all_iters name first (j + 1) t d')
    end.

  Record outcome (A : Type) := mkout { o_val : result A; o_fs : fsmap content; o_logged : option Z }.
  Arguments mkout {A}.
  Arguments o_val {A}.
  Arguments o_fs {A}.
  Arguments o_logged {A}.

  (* the save block after the loop *)
  Definition save_dict (fs : fsmap content) (files : list path) (level : Z) (all_iters overwrite : bool) (d : fdict)
    : result (fsmap content) :=
    if single_level level all_iters then
      match dict_max_key d, files with
      | None, _ => Raises EValue                        (* max() of an empty dict, outside the try *)
      | Some mk, f0 :: _ =>
        match dict_get d mk with Some l => Ok (fs_write fs (f0, pickle l)) | None => Raises EKey end
      | Some _, [] => Raises EIndex
      end
    else
      (* for i, fprints in sorted(d.items()):
             if os.path.isfile(filenames[i]) and not overwrite: continue      (repair e0cef96)
             savez(filenames[i])
         keys are 0..level, written in level order *)
      Ok (fold_left (fun acc f_i =>
                       match dict_get d (snd f_i) with
                       | Some l => if fs_isfile acc (fst f_i) && negb overwrite then acc
                                   else fs_write acc (fst f_i, pickle l)
                       | None => acc
                       end)
                    (combine files (zrange (level + 1))) fs).

  (* `if mol.HasProp("_Name") and mol.GetProp("_Name")`: an empty name counts as no name (repair 712315f) *)
  Definition effective_name (m : mol) : option string :=
    match mname m with
    | Some EmptyString => None
    | n => n
    end.

  Definition fprints_dict_from_mol (fs : fsmap content) (m : mol) (a : fargs) : outcome fdict :=
    let name := effective_name m in
    let level := normal_level (a_level a) in
    let bits := normal_bits (a_bits a) in
    let compute (files : list path) :=
        match fp_init (a_opts a) bits level, mconfs m with
        | Raises e, _ => mkout (Raises e) fs None
        | Ok _, [] => mkout (Ok []) fs None             (* `j` unbound at the log line: NameError, caught: {} *)
        | Ok _, confs =>
          match conf_loop (a_opts a) bits level (a_all_iters a) name (a_first a) 0 confs [] with
          | Raises _ => mkout (Ok []) fs None           (* except Exception: return {} *)
          | Ok (d, j) =>
            if a_save a then
              match save_dict fs files level (a_all_iters a) (a_overwrite a) d with
              | Ok fs' => mkout (Ok d) fs' (Some (j + 1))
              | Raises e => mkout (Raises e) fs (Some (j + 1))
              end
            else mkout (Ok d) fs (Some (j + 1))
          end
        end in
    if a_save a then
      match name with
      | None => mkout (Raises EValue) fs None
      | Some nm =>
        match filenames (a_out_dir_base a) level (a_all_iters a) nm (a_out_ext a) with
        | Raises e => mkout (Raises e) fs None
        | Ok files =>
          if forallb (fs_isfile fs) files && negb (a_overwrite a) then mkout (Ok []) fs None
          else compute files
        end
      end
    else compute [].

  (* pipeline.fprints_from_fprints_dict: d.get(level, d[max(d.keys())]) - the default is evaluated first *)
  Definition fprints_from_fprints_dict (d : fdict) (level : option Z) : result (list fp) :=
    match dict_max_key d with
    | None => Raises EValue
    | Some mk =>
      match dict_get d mk with
      | None => Raises EKey
      | Some dflt =>
        match level with
        | Some l => match dict_get d l with Some x => Ok x | None => Ok dflt end
        | None => Ok dflt
        end
      end
    end.

  (* a kwargs dict entry: absent, None, or a value *)
  Inductive param (A : Type) := PAbsent | PNone | PVal (a : A).
  Arguments PAbsent {A}.
  Arguments PNone {A}.
  Arguments PVal {A} a.

  Record fparams := mkfparams {
    p_bits : param Z; p_level : param Z; p_first : option Z; p_opts : opts;
    p_out_dir_base : option string; p_out_ext : option string; p_all_iters : option bool; p_overwrite : option bool }.

  Definition popt {A} (p : param A) (dflt : A) : option A :=
    match p with PAbsent => Some dflt | PNone => None | PVal a => Some a end.
  Definition odef {A} (o : option A) (dflt : A) : A := match o with Some a => a | None => dflt end.

  (* fprints_dict_from_mol(mol, save=save, **fprint_params) *)
  Definition args_of_params (p : fparams) (save : bool) : fargs :=
    mkfargs (popt (p_bits p) fd_bits_def) (popt (p_level p) fd_level_def) (odef (p_first p) fd_first_def) (p_opts p)
            (p_out_dir_base p) (odef (p_out_ext p) fd_out_ext_def) save (odef (p_all_iters p) false)
            (odef (p_overwrite p) false).

  (* fprint_params.get("level", -1) *)
  Definition params_level (p : fparams) : option Z := popt (p_level p) pl_get_level_def.

  Definition fprints_from_mol (fs : fsmap content) (m : mol) (p : fparams) (save : bool) : outcome (list fp) :=
    let r := fprints_dict_from_mol fs m (args_of_params p save) in
    mkout (rbind (o_val r) (fun d => fprints_from_fprints_dict d (params_level p))) (o_fs r) (o_logged r).

  (* fprints_from_sdf: mol_from_sdf then fprints_from_mol; the reader is a parameter *)
  Variable sdf_file : Type.
  Variable read_sdf : sdf_file -> result mol.

  Definition fprints_from_sdf (fs : fsmap content) (f : sdf_file) (p : fparams) (save : bool) : outcome (list fp) :=
    match read_sdf f with
    | Ok m => fprints_from_mol fs m p save
    | Raises e => mkout (Raises e) fs None
    end.

  (* ---- fprints_from_smiles and its default-argument dict ---------------------------------------------------- *)
  Definition cparams := list (string * Z).        (* a confgen_params dict: insertion ordered, integer values *)
  Fixpoint cp_has (d : cparams) (k : string) : bool :=
    match d with [] => false | (k', _) :: t => String.eqb k k' || cp_has t k end.
  Fixpoint cp_set (d : cparams) (k : string) (v : Z) : cparams :=
    match d with
    | [] => [(k, v)]
    | (k', v') :: t => if String.eqb k k' then (k', v) :: t else (k', v') :: cp_set t k v
    end.

  (* conformer generation from (smiles, name) under a confgen_params dict: mol_from_smiles + generate_conformers *)
  Variable smiles : Type.
  Variable confgen : cparams -> bool -> smiles -> string -> result (list conformer).

  Record smiles_call := mkcall {
    c_smiles : smiles; c_name : string;
    c_confgen : option cparams;                    (* None: the argument is omitted, the default object is used *)
    c_fparams : fparams; c_save : bool }.

  (* the state is the content of the function's default `confgen_params` object.
     Current code: `confgen_params = dict(confgen_params)` before the write, so the write goes to a fresh copy. *)
  Definition smiles_effective (dflt : cparams) (c : smiles_call) : cparams :=
    let arg := match c_confgen c with Some d => d | None => dflt end in
    if negb (c_save c) && negb (cp_has arg "first")
    then cp_set arg "first" (odef (p_first (c_fparams c)) pl_get_first_def)
    else arg.

  Definition smiles_step (dflt : cparams) (c : smiles_call) : cparams * cparams :=
    (dflt, smiles_effective dflt c).                (* (default object afterwards, params used by this call) *)

  (* the code before commit 996117d wrote into the argument itself: kept to document what the repair removed *)
  Definition smiles_step_inplace (dflt : cparams) (c : smiles_call) : cparams * cparams :=
    let eff := smiles_effective dflt c in
    match c_confgen c with
    | None => (eff, eff)
    | Some _ => (dflt, eff)
    end.

  Definition fprints_from_smiles_with (step : cparams -> smiles_call -> cparams * cparams)
             (fs : fsmap content) (dflt : cparams) (c : smiles_call) : cparams * outcome (list fp) :=
    let (dflt', eff) := step dflt c in
    (dflt', match confgen eff (c_save c) (c_smiles c) (c_name c) with
            | Ok confs => fprints_from_mol fs (mkmol (Some (c_name c)) confs) (c_fparams c) (c_save c)
            | Raises e => mkout (Raises e) fs None
            end).

  Definition fprints_from_smiles := fprints_from_smiles_with smiles_step.

  (* a history of calls from a given content of the default object; file state threaded through *)
  Fixpoint smiles_history (step : cparams -> smiles_call -> cparams * cparams)
           (fs : fsmap content) (dflt : cparams) (cs : list smiles_call)
    : cparams * fsmap content * list (result (list fp)) :=
    match cs with
    | [] => (dflt, fs, [])
    | c :: t =>
      let (dflt', r) := fprints_from_smiles_with step fs dflt c in
      let '(dflt'', fs'', rs) := smiles_history step (o_fs r) dflt' t in
      (dflt'', fs'', o_val r :: rs)
    end.
End Entry.

Arguments mkmol {conformer}.
Arguments mname {conformer}.
Arguments mconfs {conformer}.
Arguments mkfargs {opts}.
Arguments mkout {content A}.
Arguments o_val {content A}.
Arguments o_fs {content A}.
Arguments o_logged {content A}.
Arguments PAbsent {A}.
Arguments PNone {A}.
Arguments PVal {A} a.
Arguments mkfparams {opts}.
Arguments mkcall {opts smiles}.
Arguments a_bits {opts}. Arguments a_level {opts}. Arguments a_first {opts}. Arguments a_opts {opts}.
Arguments a_out_dir_base {opts}. Arguments a_out_ext {opts}. Arguments a_save {opts}. Arguments a_all_iters {opts}.
Arguments a_overwrite {opts}.
Arguments p_bits {opts}. Arguments p_level {opts}. Arguments p_first {opts}. Arguments p_opts {opts}.
Arguments p_out_dir_base {opts}. Arguments p_out_ext {opts}. Arguments p_all_iters {opts}. Arguments p_overwrite {opts}.
Arguments c_smiles {opts smiles}. Arguments c_name {opts smiles}. Arguments c_confgen {opts smiles}.
Arguments c_fparams {opts smiles}. Arguments c_save {opts smiles}.

(* ---- observation helpers for the correspondence ------------------------------------------------------------- *)
Definition fdict_eqb (a b : fdict) : bool :=
  list_eqb (fun x y => (fst x =? fst y) && list_eqb fp_obs_eqb (snd x) (snd y)) a b.

(* concrete file content used by the cases: a sentinel, or a pickled list of fingerprints *)
Inductive fcontent := Sentinel (tag : Z) | Pickled (l : list fp).
Definition fcontent_eqb (a b : fcontent) : bool :=
  match a, b with
  | Sentinel x, Sentinel y => x =? y
  | Pickled x, Pickled y => list_eqb fp_obs_eqb x y
  | _, _ => false
  end.
(* loadz *)
Definition unpickle (c : fcontent) : option (list fp) := match c with Pickled l => Some l | Sentinel _ => None end.

(* a per-conformer table recorded from direct Fingerprinter use: (bits, conformer id, run level, query level) -> fp *)
Definition fp_table := list ((Z * Z * Z * Z) * result fp).
Fixpoint table_get (t : fp_table) (b j l k : Z) : result fp :=
  match t with
  | [] => Raises EKey
  | ((b', j', l', k'), x) :: r =>
    if (b =? b') && (j =? j') && (l =? l') && (k =? k') then x else table_get r b j l k
  end.

(* instances evaluated by the generated cases: conformers are numbered, options are opaque, files hold `fcontent` *)
Definition x_fprint (t : fp_table) (o : unit) (b c l k : Z) : result fp := table_get t b c l k.
Definition x_init (i : result unit) (o : unit) (b l : Z) : result unit := i.
Definition x_dict (t : fp_table) (i : result unit) := fprints_dict_from_mol Z unit (x_fprint t) (x_init i) fcontent Pickled.
Definition x_from_mol (t : fp_table) (i : result unit) := fprints_from_mol Z unit (x_fprint t) (x_init i) fcontent Pickled.
Definition x_from_sdf (t : fp_table) (i : result unit) (fs : fsmap fcontent) (m : result (@mol Z)) :=
  fprints_from_sdf Z unit (x_fprint t) (x_init i) fcontent Pickled unit (fun _ => m) fs tt.

Fixpoint name_lookup {A} (l : list (string * A)) (k : string) : option A :=
  match l with [] => None | (k', v) :: t => if String.eqb k k' then Some v else name_lookup t k end.
(* the recorded conformer lists of a history of SMILES calls, by molecule name *)
Definition x_confgen (rec : list (string * result (list Z))) (eff : cparams) (save : bool) (s : unit) (name : string)
  : result (list Z) :=
  match name_lookup rec name with Some r => r | None => Raises EKey end.
Definition x_smiles_history (t : fp_table) (rec : list (string * result (list Z))) (inplace : bool) :=
  smiles_history Z unit (x_fprint t) (x_init (Ok tt)) fcontent Pickled unit (x_confgen rec)
                 (if inplace then smiles_step_inplace unit unit else smiles_step unit unit).

Definition cparams_eqb (a b : cparams) : bool :=
  list_eqb (fun x y => String.eqb (fst x) (fst y) && (snd x =? snd y)) a b.

(* every listed path holds the listed content (None: no such file) *)
Definition fs_agrees (fs : fsmap fcontent) (obs : list (path * option fcontent)) : bool :=
  forallb (fun pc => option_eqb fcontent_eqb (fs_lookup fs (fst pc)) (snd pc)) obs.
