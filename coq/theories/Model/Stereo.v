(* M1 stereo codes of one shell: fprinter.stereo_indicators_from_shell / pick_y / pick_z /
   quad_indicators_from_coords, in root-free form (DESIGN.md 3.2 table, Appendix A).

   Input: the neighbours of the centre atom, already stably sorted by (bond code, identifier), each with its
   centred coordinate vector.  Output: one code per neighbour, aligned. *)
From Coq Require Import ZArith List Bool.
From E3FP Require Import Model.Geometry.
Import ListNotations.
Open Scope Z_scope.

(* constants of the algorithm as exact rationals num/den (den > 0) *)
(* the table of angle-bin thresholds as a search tree (in-order = increasing k), so that a bin costs ~8 comparisons *)
Inductive btree := BLeaf | BNode (l : btree) (nd : Z * Z) (r : btree).
Fixpoint bsize (t : btree) : Z :=
  match t with BLeaf => 0 | BNode l _ r => bsize l + 1 + bsize r end.
Fixpoint bflatten (t : btree) : list (Z * Z) :=
  match t with BLeaf => [] | BNode l x r => bflatten l ++ x :: bflatten r end.
(* number of entries passing `test`, for a test that is downward closed along the in-order sequence *)
Fixpoint brank (test : Z * Z -> bool) (t : btree) : Z :=
  match t with
  | BLeaf => 0
  | BNode l x r => if test x then bsize l + 1 + brank test r else brank test l
  end.

Record sconsts := mksconsts {
  sc_sin2 : btree;           (* sin^2(k * Z_AXIS_PRECISION) for k = 1 .. floor((pi/2)/Z_AXIS_PRECISION) *)
  sc_cos2cone : Z * Z;       (* cos^2(POLAR_CONE_RAD) *)
  sc_yprec2 : Z * Z }.       (* Y_AXIS_PRECISION^2 *)

(* insertion sort; inserting in front of equal elements makes fold_right-sorting stable *)
Section Sort.
Variable A : Type.
Variable leb : A -> A -> bool.
Fixpoint insert_by (x : A) (l : list A) : list A :=
  match l with
  | [] => [x]
  | y :: t => if leb x y then x :: l else y :: insert_by x t
  end.
Definition sort_by (l : list A) : list A := fold_right insert_by [] l.
End Sort.
Arguments insert_by {A} leb x l.
Arguments sort_by {A} leb l.

(* index of the first element whose key occurs exactly once (get_first_unique_tuple_inds on a key-sorted list) *)
Section FirstUnique.
Variable K : Type.
Variable keqb : K -> K -> bool.
Definition count_key (k : K) (l : list K) : nat := length (filter (keqb k) l).
Fixpoint first_unique_from (all l : list K) (i : nat) : option nat :=
  match l with
  | [] => None
  | k :: t => if Nat.eqb (count_key k all) 1 then Some i else first_unique_from all t (S i)
  end.
Definition first_unique (l : list K) : option nat := first_unique_from l l 0.
End FirstUnique.
Arguments first_unique {K} keqb l.

Definition key2_eqb (a b : Z * Z) : bool := (fst a =? fst b) && (snd a =? snd b).
Definition key2_leb (a b : Z * Z) : bool := (fst a <? fst b) || ((fst a =? fst b) && (snd a <=? snd b)).

Definition lex4_leb (a b : Z * Z * Z * Z) : bool :=
  let '(a1, a2, a3, a4) := a in let '(b1, b2, b3, b4) := b in
  (a1 <? b1) || ((a1 =? b1) && ((a2 <? b2) || ((a2 =? b2) && ((a3 <? b3) || ((a3 =? b3) && (a4 <=? b4)))))).

Section Codes.
Variable D : ringdict.
Variable C : sconsts.
Variable unit2 : F D.       (* square of one length unit (1 Angstrom) in coordinate units *)
Notation T := (F D).
Notation V := (vec D).
Local Notation "a *' b" := (fmul D a b) (at level 40, left associativity).
Local Notation "a -' b" := (fsub D a b) (at level 50, left associativity).
Local Notation zF := (fofZ D).

Record nb := mknb { nb_conn : Z; nb_ident : Z; nb_vec : V }.

Definition nb_key (x : nb) : Z * Z := (nb_conn x, nb_ident x).

Definition nth_vec (l : list nb) (i : nat) : V :=
  match nth_error l i with Some x => nb_vec x | None => vzero D end.

(* pick_y: first neighbour with a unique (bond, identifier) key; else element 0 when there are exactly two
   neighbours; else the mean vector (here: the sum, a positive multiple) unless it is shorter than Y_AXIS_PRECISION *)
Definition pick_y (ns : list nb) : option (V * option nat) :=
  match first_unique key2_eqb (map nb_key ns) with
  | Some i => Some (nth_vec ns i, Some i)
  | None =>
    if Nat.eqb (length ns) 2 then Some (nth_vec ns 0, Some 0%nat)
    else let s := vsum D (map nb_vec ns) in
         let n := Z.of_nat (length ns) in
         (* not (|s/n| < yprec)  <=>  n^2 * yprec2 * unit2 <= |s|^2 *)
         if fleb D (zF (n * n * fst (sc_yprec2 C)) *' unit2) (zF (snd (sc_yprec2 C)) *' dot D s s)
         then Some (s, None) else None
  end.

Definition sign_of (uy : T) : Z := if fleb D (f0 D) uy then 1 else -1.

(* int(|long_angle| / Z_AXIS_PRECISION): number of table entries with sin^2(k dz) * |u|^2|y|^2 <= (u.y)^2 *)
Definition bin_of (uy uu yy : T) : Z :=
  let den := uu *' yy in let num := uy *' uy in
  brank (fun nd => fleb D (zF (fst nd) *' den) (zF (snd nd) *' num)) (sc_sin2 C).

(* pi/2 - |long_angle| < POLAR_CONE_RAD  <=>  (u.y)^2 > cos^2(cone) |u|^2 |y|^2 *)
Definition is_pole (uy uu yy : T) : bool :=
  negb (feqb D uu (f0 D)) &&
  fltb D (zF (fst (sc_cos2cone C)) *' (uu *' yy)) (zF (snd (sc_cos2cone C)) *' (uy *' uy)).

(* quadrant of v around y, measured from the (scaled) z vector Zv; 2 3 4 5 *)
Definition quad_of (y Zv v : V) (yy : T) : Z :=
  let a := dot D v Zv in
  let b := det3 D y Zv v in
  if feqb D a (f0 D) && feqb D b (f0 D) then 2
  else if fltb D (b *' b) (a *' a *' yy) then (if fltb D (f0 D) a then 2 else 4)
  else (if fltb D (f0 D) b then 5 else 3).

Definition opt_nat_eqb (a : option nat) (i : nat) : bool :=
  match a with Some j => Nat.eqb i j | None => false end.

Definition indexed {A} (l : list A) : list (nat * A) := combine (seq 0 (length l)) l.

(* pick_z: among the neighbours that are neither the y atom nor on the centre, sorted by
   (angle bin, bond, identifier, position), the first whose (bin, bond) is unique *)
Definition pick_z (ns : list nb) (y : V) (yind : option nat) : option nat :=
  let yy := dot D y y in
  let cand := sort_by lex4_leb
    (flat_map (fun ix =>
       let i := fst ix in let v := nb_vec (snd ix) in
       if negb (feqb D (dot D v v) (f0 D)) && negb (opt_nat_eqb yind i)
       then [(bin_of (dot D v y) (dot D v v) yy, nb_conn (snd ix), nb_ident (snd ix), Z.of_nat i)] else [])
     (indexed ns)) in
  match first_unique key2_eqb (map (fun t => let '(b, c, _, _) := t in (b, c)) cand) with
  | Some j => match nth_error cand j with Some (_, _, _, i) => Some (Z.to_nat i) | None => None end
  | None => None
  end.

Definition codes (ns : list nb) : list Z :=
  match pick_y ns with
  | None => map (fun _ => 0) ns
  | Some (y, yind) =>
    let yy := dot D y y in
    let zsel := pick_z ns y yind in
    let Zv := match zsel with
              | Some m => let vm := nth_vec ns m in vsub D (vscl D yy vm) (vscl D (dot D vm y) y)
              | None => vzero D end in
    map (fun ix =>
      let i := fst ix in let v := nb_vec (snd ix) in
      let uy := dot D v y in let uu := dot D v v in
      if feqb D uu (f0 D) then 0          (* the neighbour sits on the centre atom: |v|^2 = 0 *)
      else if is_pole uy uu yy then sign_of uy
      else match zsel with
           | None => 0
           | Some _ => (if opt_nat_eqb yind i then 2 else quad_of y Zv v yy) * sign_of uy
           end)
    (indexed ns)
  end.
End Codes.

Arguments mknb {D} _ _ _.
Arguments nb_conn {D} _.
Arguments nb_ident {D} _.
Arguments nb_vec {D} _.
