(* Certificate of Gen/AngleTable.v against the real sine and cosine (C02, constants of the stereo encoding).

   Gen/AngleTable.v (regenerated from the constants in the source tree on every run) holds the rational thresholds used
   by Model/Stereo.v in place of `arccos`/angle comparisons:
     sin2_table[k-1] ~ sin^2 (k * Z_AXIS_PRECISION)   k = 1 .. 157,   cos2_cone ~ cos^2 (pi/36).
   Here every entry is checked against the real functions with the Interval tactic: the absolute error is below
   2^-48, the table stops exactly where k * Z_AXIS_PRECISION passes pi/2, and POLAR_CONE_RAD is the double nearest pi/36.
   This file uses the axioms of the standard library's real numbers (see Print Assumptions at the end); it is kept
   apart so that it is rebuilt only when Gen/AngleTable.v or Gen/Constants.v change. *)
From Coq Require Import ZArith List QArith Reals Qreals.
From Interval Require Import Tactic.
From E3FP Require Import Model.Geometry Model.Stereo Gen.Constants Gen.AngleTable.
Import ListNotations.
Open Scope Z_scope.

Fixpoint numbering (l : list (Z * Z)) (k : Z) : list (Z * (Z * Z)) :=
  match l with [] => [] | x :: t => (k, x) :: numbering t (k + 1) end.

Open Scope R_scope.

(* the exact value of the double Z_AXIS_PRECISION *)
Definition zprec : R := Q2R z_axis_precision.

Definition entry_ok (e : Z * (Z * Z)) : Prop :=
  let '(k, (n, d)) := e in Rabs (IZR n / IZR d - (sin (IZR k * zprec)) ^ 2) <= / 2 ^ 48.

Ltac cert_entries :=
  repeat (apply Forall_cons;
          [ cbv beta iota zeta delta [entry_ok zprec Q2R z_axis_precision Qnum Qden]; interval with (i_prec 80) | ]);
  apply Forall_nil.

Theorem sin2_table_certified : Forall entry_ok (numbering sin2_table 1).
Proof.
  let l := eval vm_compute in (numbering sin2_table 1) in change (numbering sin2_table 1) with l.
  cert_entries.
Qed.

(* the table has an entry for every k with k * Z_AXIS_PRECISION <= pi/2 and no other *)
Theorem sin2_table_complete :
  IZR (Z.of_nat (length sin2_table)) * zprec < PI / 2 < (IZR (Z.of_nat (length sin2_table)) + 1) * zprec.
Proof.
  let n := eval vm_compute in (Z.of_nat (length sin2_table)) in change (Z.of_nat (length sin2_table)) with n.
  cbv delta [zprec Q2R z_axis_precision Qnum Qden]. split; interval with (i_prec 80).
Qed.

Theorem cos2_cone_certified :
  Rabs (IZR (fst cos2_cone) / IZR (snd cos2_cone) - (cos (PI / 36)) ^ 2) <= / 2 ^ 48.
Proof. cbv delta [cos2_cone fst snd] iota beta. interval with (i_prec 80). Qed.

(* POLAR_CONE_RAD (a double with unit in the last place 2^-56) is within half a unit of pi/36 *)
Theorem polar_cone_certified : Rabs (Q2R polar_cone_rad - PI / 36) <= / 2 ^ 57.
Proof. cbv delta [Q2R polar_cone_rad Qnum Qden] iota beta. interval with (i_prec 80). Qed.

(* readable form: entry k of the table, as a real number, approximates sin^2(k * Z_AXIS_PRECISION) *)
Corollary sin2_table_entry (k : nat) (n d : Z) :
  nth_error sin2_table k = Some (n, d) ->
  Rabs (IZR n / IZR d - (sin (IZR (Z.of_nat k + 1) * zprec)) ^ 2) <= / 2 ^ 48.
Proof.
  intro H.
  assert (G : forall l s j, nth_error l j = Some (n, d) -> Forall entry_ok (numbering l s) -> entry_ok ((s + Z.of_nat j)%Z, (n, d))).
  { induction l as [|x t IH]; intros s j Hj HF; [destruct j; discriminate|].
    simpl in HF. inversion HF as [|? ? Hx Ht]; subst. destruct j as [|j]; simpl in Hj.
    - inversion Hj; subst. rewrite Z.add_0_r. exact Hx.
    - replace (s + Z.of_nat (S j))%Z with ((s + 1) + Z.of_nat j)%Z by (rewrite Nat2Z.inj_succ; ring). apply IH; assumption. }
  specialize (G sin2_table 1%Z k H sin2_table_certified). unfold entry_ok in G.
  replace (Z.of_nat k + 1)%Z with (1 + Z.of_nat k)%Z by ring. exact G.
Qed.

Print Assumptions sin2_table_certified.
Print Assumptions sin2_table_complete.
Print Assumptions cos2_cone_certified.
Print Assumptions polar_cone_certified.
Print Assumptions sin2_table_entry.
