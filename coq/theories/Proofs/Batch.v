(* Lemmas about Model/Batch.v: the output-file machine (jobs), interruption and resume, the collection loop. *)
From Coq Require Import Permutation.
From E3FP Require Import Base.Prelude Model.Fprint Model.Pipeline Model.Batch Proofs.PipelineFs.
Open Scope Z_scope.

Lemma path_eq_dec (p q : path) : {p = q} + {p <> q}.
Proof. decide equality; apply String.string_dec. Qed.

Lemma forallb_ext_in {A} (f g : A -> bool) l : (forall x, In x l -> f x = g x) -> forallb f l = forallb g l.
Proof.
  induction l as [|a t IH]; simpl; intro H; [reflexivity|]. rewrite (H a (or_introl eq_refl)), IH; [reflexivity|].
  intros; apply H; auto.
Qed.

Lemma NoDup_app_disjoint {A} (a b : list A) x : NoDup (a ++ b) -> In x a -> ~ In x b.
Proof.
  induction a as [|y a IH]; simpl; intros H Hin; [tauto|]. inversion H as [|? ? Hy Hnd]; subst.
  destruct Hin as [->|Hin]; [intro Q; apply Hy; apply in_or_app; auto|apply IH; assumption].
Qed.

Lemma NoDup_app_l {A} (a b : list A) : NoDup (a ++ b) -> NoDup a.
Proof. induction a as [|y a IH]; simpl; intro H; [constructor|]. inversion H; subst. constructor; [intro Q; apply H2; apply in_or_app; auto|auto]. Qed.

Lemma NoDup_app_r {A} (a b : list A) : NoDup (a ++ b) -> NoDup b.
Proof. induction a as [|y a IH]; simpl; intro H; [exact H|]. inversion H; subst. auto. Qed.

Lemma in_map_fst_firstn {A B} (l : list (A * B)) k x : In x (map fst (firstn k l)) -> In x (map fst l).
Proof.
  revert k. induction l as [|a t IH]; intros [|k]; simpl; try tauto. intros [H|H]; [auto|right; eapply IH; eauto].
Qed.

Lemma in_firstn {A} (l : list A) k x : In x (firstn k l) -> In x l.
Proof. revert k. induction l as [|a t IH]; intros [|k]; simpl; try tauto. intros [H|H]; [auto|right; eapply IH; eauto]. Qed.

Lemma NoDup_map_fst_firstn {A B} (l : list (A * B)) k : NoDup (map fst l) -> NoDup (map fst (firstn k l)).
Proof.
  revert k. induction l as [|a t IH]; intros [|k]; simpl; intro H; try constructor.
  - inversion H; subst. intro Q. apply H2. eapply in_map_fst_firstn; eauto.
  - inversion H; subst. auto.
Qed.

Lemma NoDup_fst_functional {A B} (l : list (A * B)) p c c' :
  NoDup (map fst l) -> In (p, c) l -> In (p, c') l -> c = c'.
Proof.
  induction l as [|[q d] t IH]; simpl; intros H H1 H2; [tauto|]. inversion H as [|? ? Hq Hnd]; subst.
  destruct H1 as [E1|H1], H2 as [E2|H2].
  - congruence.
  - inversion E1; subst. exfalso. apply Hq. change p with (fst (p, c')). apply in_map. exact H2.
  - inversion E2; subst. exfalso. apply Hq. change p with (fst (p, c)). apply in_map. exact H1.
  - auto.
Qed.

Section Jobs.
  Variable content : Type.
  Notation job := (job content).
  Implicit Types (fs : fsmap content) (j : job).

  (* ---- vocabulary of the statements ------------------------------------------------------------------------------ *)
  (* a job writes only files it looks at, each once *)
  Definition wf_job j : Prop := incl (map fst (j_plan j)) (j_files j) /\ NoDup (map fst (j_plan j)).
  (* a molecule that is fingerprinted successfully writes every one of its files; a failing one writes none *)
  Definition complete j : Prop := map fst (j_plan j) = j_files j.
  Definition all_or_nothing j : Prop := j_plan j = [] \/ complete j.
  (* no two jobs share an output path (molecule names are distinct), no job lists a path twice *)
  Definition disjoint (js : list job) : Prop := NoDup (flat_map j_files js).
  Definition agree (ps : list path) (a b : fsmap content) : Prop := forall p, In p ps -> fs_lookup a p = fs_lookup b p.
  (* files already present hold what the jobs would write (e.g. they come from an earlier run on the same inputs) *)
  Definition consistent fs (js : list job) : Prop :=
    forall j, In j js -> forall p c, In (p, c) (j_plan j) -> fs_lookup fs p = None \/ fs_lookup fs p = Some c.
  Definition all_exist fs j : Prop := forall p, In p (j_files j) -> fs_isfile fs p = true.

  Lemma agree_refl ps a : agree ps a a. Proof. intros p _. reflexivity. Qed.
  Lemma agree_sym ps a b : agree ps a b -> agree ps b a. Proof. intros H p Hp. symmetry. auto. Qed.
  Lemma agree_trans ps a b c : agree ps a b -> agree ps b c -> agree ps a c.
  Proof. intros H1 H2 p Hp. rewrite (H1 p Hp). auto. Qed.

  Lemma skip_agree ow a b j : agree (j_files j) a b -> job_skips ow a j = job_skips ow b j.
  Proof.
    intro H. unfold job_skips. f_equal. apply forallb_ext_in. intros p Hp. unfold fs_isfile. rewrite (H p Hp). reflexivity.
  Qed.

  Lemma skips_all_exist ow fs j : job_skips ow fs j = true -> all_exist fs j.
  Proof. unfold job_skips. rewrite andb_true_iff. intros [H _] p Hp. rewrite forallb_forall in H. auto. Qed.

  Lemma all_exist_skips fs j : all_exist fs j -> job_skips false fs j = true.
  Proof. intro H. unfold job_skips. rewrite andb_true_r. apply forallb_forall. exact H. Qed.

  Lemma skips_overwrite fs j : job_skips true fs j = false.
  Proof. unfold job_skips. apply andb_false_r. Qed.

  (* ---- one (possibly interrupted) job ---------------------------------------------------------------------------- *)
  Lemma run_job_partial ow fs j : run_job ow fs j = partial_job ow fs (j, length (j_plan j)).
  Proof. unfold run_job, partial_job. simpl. rewrite firstn_all. reflexivity. Qed.

  Lemma frame_partial ow fs j k p : wf_job j -> ~ In p (j_files j) -> fs_lookup (partial_job ow fs (j, k)) p = fs_lookup fs p.
  Proof.
    intros [Hinc _] Hp. unfold partial_job. simpl. destruct (job_skips ow fs j); [reflexivity|].
    apply lookup_writes_notin. intro Q. apply Hp, Hinc. eapply in_map_fst_firstn; eauto.
  Qed.

  Lemma local_partial ow a b j k :
    wf_job j -> agree (j_files j) a b -> agree (j_files j) (partial_job ow a (j, k)) (partial_job ow b (j, k)).
  Proof.
    intros [Hinc Hnd] H. unfold partial_job. simpl. rewrite (skip_agree ow a b j H).
    destruct (job_skips ow b j); [exact H|]. intros p Hp.
    destruct (in_dec path_eq_dec p (map fst (firstn k (j_plan j)))) as [Hin|Hin].
    - apply in_map_iff in Hin. destruct Hin as ([q c] & E & Hin). simpl in E. subst q.
      rewrite !(lookup_writes_in content (firstn k (j_plan j)) _ p c); auto using NoDup_map_fst_firstn.
    - rewrite !lookup_writes_notin by exact Hin. auto.
  Qed.

  (* ---- a list of jobs --------------------------------------------------------------------------------------------- *)
  Definition jobs_of (jks : list (job * nat)) : list job := map fst jks.

  Lemma frame_partials ow jks : forall fs p,
    (forall j, In j (jobs_of jks) -> wf_job j) -> ~ In p (flat_map j_files (jobs_of jks)) ->
    fs_lookup (run_partial ow fs jks) p = fs_lookup fs p.
  Proof.
    unfold run_partial. induction jks as [|[j k] t IH]; intros fs p Hwf Hp; simpl; [reflexivity|].
    simpl in Hp. rewrite IH.
    - apply frame_partial; [apply Hwf; simpl; auto|intro Q; apply Hp; apply in_or_app; auto].
    - intros j' Hj'. apply Hwf. simpl. auto.
    - intro Q. apply Hp. apply in_or_app. auto.
  Qed.

  Lemma char_partials ow jks : forall fs j k,
    disjoint (jobs_of jks) -> (forall j, In j (jobs_of jks) -> wf_job j) -> In (j, k) jks ->
    agree (j_files j) (run_partial ow fs jks) (partial_job ow fs (j, k)).
  Proof.
    unfold run_partial. induction jks as [|[j0 k0] t IH]; intros fs j k Hd Hwf Hin; [destruct Hin|].
    simpl fold_left. unfold disjoint in Hd. simpl in Hd.
    assert (Hwft : forall j', In j' (jobs_of t) -> wf_job j') by (intros; apply Hwf; simpl; auto).
    destruct Hin as [E|Hin].
    - inversion E; subst j0 k0. intros p Hp.
      apply (frame_partials ow t (partial_job ow fs (j, k)) p Hwft).
      eapply NoDup_app_disjoint; eauto.
    - assert (Hjt : In j (jobs_of t)) by (unfold jobs_of; change j with (fst (j, k)); apply in_map; exact Hin).
      eapply agree_trans.
      + apply (IH (partial_job ow fs (j0, k0)) j k); [exact (NoDup_app_r _ _ Hd)|exact Hwft|exact Hin].
      + apply local_partial; [apply Hwft; exact Hjt|].
        intros p Hp. apply frame_partial; [apply Hwf; simpl; auto|].
        intro Q. apply (NoDup_app_disjoint _ _ p Hd Q). apply in_flat_map. exists j. auto.
  Qed.

  Definition full (js : list job) : list (job * nat) := map (fun j => (j, length (j_plan j))) js.

  Lemma jobs_of_full js : jobs_of (full js) = js.
  Proof. unfold jobs_of, full. rewrite map_map. simpl. apply map_id. Qed.

  Lemma run_jobs_partial ow js : forall fs, run_jobs ow fs js = run_partial ow fs (full js).
  Proof.
    unfold run_jobs, run_partial. induction js as [|j t IH]; intro fs; simpl; [reflexivity|].
    rewrite IH, run_job_partial. reflexivity.
  Qed.

  Lemma frame_jobs ow js fs p :
    (forall j, In j js -> wf_job j) -> ~ In p (flat_map j_files js) -> fs_lookup (run_jobs ow fs js) p = fs_lookup fs p.
  Proof.
    intros Hwf Hp. rewrite run_jobs_partial. apply frame_partials; rewrite jobs_of_full; assumption.
  Qed.

  Lemma char_jobs ow js fs j :
    disjoint js -> (forall j, In j js -> wf_job j) -> In j js ->
    agree (j_files j) (run_jobs ow fs js) (run_job ow fs j).
  Proof.
    intros Hd Hwf Hin. rewrite run_jobs_partial, run_job_partial.
    apply char_partials; rewrite ?jobs_of_full; try assumption.
    unfold full. apply in_map_iff. exists j. auto.
  Qed.

  Lemma disjoint_perm js js' : Permutation js js' -> disjoint js -> disjoint js'.
  Proof. intros H Hd. unfold disjoint in *. eapply Permutation_NoDup; [|exact Hd]. apply Permutation_flat_map. exact H. Qed.

  (* ---- the resume / overwrite theorems ----------------------------------------------------------------------------- *)
  (* the final directory does not depend on the order in which the inputs complete *)
  Lemma files_schedule_independent ow fs js js' p :
    disjoint js -> (forall j, In j js -> wf_job j) -> Permutation js js' ->
    fs_lookup (run_jobs ow fs js') p = fs_lookup (run_jobs ow fs js) p.
  Proof.
    intros Hd Hwf Hperm.
    assert (Hd' : disjoint js') by (eapply disjoint_perm; eauto).
    assert (Hwf' : forall j, In j js' -> wf_job j) by (intros j Hj; apply Hwf; eapply Permutation_in; [apply Permutation_sym|]; eauto).
    destruct (in_dec path_eq_dec p (flat_map j_files js)) as [Hin|Hin].
    - apply in_flat_map in Hin. destruct Hin as (j & Hj & Hp).
      rewrite (char_jobs ow js' fs j Hd' Hwf' (Permutation_in _ Hperm Hj) p Hp).
      rewrite (char_jobs ow js fs j Hd Hwf Hj p Hp). reflexivity.
    - rewrite !frame_jobs; auto.
      intro Q. apply Hin. eapply Permutation_in; [apply Permutation_flat_map; apply Permutation_sym; exact Hperm|exact Q].
  Qed.

  (* no-overwrite run: a molecule whose files all exist is skipped - its files keep their content ... *)
  Lemma resume_preserves_content fs js j :
    disjoint js -> (forall j, In j js -> wf_job j) -> In j js -> all_exist fs j ->
    agree (j_files j) (run_jobs false fs js) fs.
  Proof.
    intros Hd Hwf Hin Hex. eapply agree_trans; [apply char_jobs; eauto|].
    unfold run_job. rewrite (all_exist_skips fs j Hex). apply agree_refl.
  Qed.

  (* ... and are not written at all; files outside every job are never written *)
  Lemma resume_preserves_log js : forall fs p,
    disjoint js -> (forall j, In j js -> wf_job j) -> In p (run_log false fs js) ->
    exists j, In j js /\ In p (j_files j) /\ job_skips false fs j = false.
  Proof.
    induction js as [|j0 t IH]; intros fs p Hd Hwf Hin; simpl in Hin; [destruct Hin|].
    apply in_app_or in Hin. unfold disjoint in Hd. simpl in Hd. destruct Hin as [Hin|Hin].
    - exists j0. unfold job_log in Hin. destruct (job_skips false fs j0) eqn:E; [destruct Hin|].
      split; [simpl; auto|]. split; [|reflexivity]. apply (proj1 (Hwf j0 (or_introl eq_refl))). exact Hin.
    - destruct (IH (run_job false fs j0) p (NoDup_app_r _ _ Hd) (fun j Hj => Hwf j (or_intror Hj)) Hin) as (j & Hj & Hp & Hs).
      exists j. split; [simpl; auto|]. split; [exact Hp|].
      transitivity (job_skips false (run_job false fs j0) j); [|exact Hs]. apply skip_agree.
      intros q Hq. symmetry. rewrite run_job_partial. apply frame_partial; [apply Hwf; simpl; auto|].
      intro Q. apply (NoDup_app_disjoint _ _ q Hd Q). apply in_flat_map. exists j. auto.
  Qed.

  Lemma resume_preserves_written fs js j p :
    disjoint js -> (forall j, In j js -> wf_job j) -> In j js -> all_exist fs j -> In p (j_files j) ->
    ~ In p (run_log false fs js).
  Proof.
    intros Hd Hwf Hin Hex Hp Q. destruct (resume_preserves_log js fs p Hd Hwf Q) as (j' & Hj' & Hp' & Hs).
    assert (j' = j \/ j' <> j) as [->|Hne].
    { destruct (in_dec path_eq_dec p (j_files j')); [|tauto].
      (* both list p: by disjointness they are the same element of the list or p occurs twice *)
      clear -Hd Hin Hj' Hp Hp'. unfold disjoint in Hd. induction js as [|a t IH]; [destruct Hin|].
      simpl in Hd. destruct Hin as [->|Hin], Hj' as [->|Hj'].
      - left; reflexivity.
      - exfalso. apply (NoDup_app_disjoint _ _ p Hd Hp). apply in_flat_map. exists j'. auto.
      - exfalso. apply (NoDup_app_disjoint _ _ p Hd Hp'). apply in_flat_map. exists j. auto.
      - apply IH; [exact (NoDup_app_r _ _ Hd)|assumption|assumption]. }
    - rewrite (all_exist_skips fs j Hex) in Hs. discriminate.
    - (* two different jobs listing p: impossible *)
      clear -Hd Hin Hj' Hp Hp' Hne. unfold disjoint in Hd. induction js as [|a t IH]; [destruct Hin|].
      simpl in Hd. destruct Hin as [->|Hin], Hj' as [->|Hj'].
      + congruence.
      + apply (NoDup_app_disjoint _ _ p Hd Hp). apply in_flat_map. exists j'. auto.
      + apply (NoDup_app_disjoint _ _ p Hd Hp'). apply in_flat_map. exists j. auto.
      + apply IH; [exact (NoDup_app_r _ _ Hd)|assumption|assumption].
  Qed.

  Lemma outside_untouched ow fs js p :
    (forall j, In j js -> wf_job j) -> ~ In p (flat_map j_files js) -> fs_lookup (run_jobs ow fs js) p = fs_lookup fs p.
  Proof. apply frame_jobs. Qed.

  (* after the run every molecule that can be fingerprinted has all its files *)
  Lemma resume_completes ow fs js j :
    disjoint js -> (forall j, In j js -> wf_job j) -> In j js -> complete j -> all_exist (run_jobs ow fs js) j.
  Proof.
    intros Hd Hwf Hin Hc p Hp. unfold fs_isfile. rewrite (char_jobs ow js fs j Hd Hwf Hin p Hp).
    unfold run_job. destruct (job_skips ow fs j) eqn:E.
    - apply (skips_all_exist ow fs j E p Hp).
    - unfold complete in Hc. rewrite <- Hc in Hp. apply in_map_iff in Hp. destruct Hp as ([q c] & Eq & Hpc). simpl in Eq. subst q.
      rewrite (lookup_writes_in content (j_plan j) fs p c (proj2 (Hwf j Hin)) Hpc). reflexivity.
  Qed.

  (* with overwrite every planned file is regenerated *)
  Lemma overwrite_regenerates fs js j p c :
    disjoint js -> (forall j, In j js -> wf_job j) -> In j js -> In (p, c) (j_plan j) ->
    fs_lookup (run_jobs true fs js) p = Some c /\ In p (run_log true fs js).
  Proof.
    intros Hd Hwf Hin Hpc.
    assert (Hp : In p (j_files j)).
    { apply (proj1 (Hwf j Hin)). change p with (fst (p, c)). apply in_map. exact Hpc. }
    split.
    - rewrite (char_jobs true js fs j Hd Hwf Hin p Hp). unfold run_job. rewrite skips_overwrite.
      apply lookup_writes_in; [exact (proj2 (Hwf j Hin))|exact Hpc].
    - clear Hd Hwf Hp. revert fs. induction js as [|a t IH]; intro fs; [destruct Hin|]. simpl. apply in_or_app.
      destruct Hin as [->|Hin].
      + left. unfold job_log. rewrite skips_overwrite. change p with (fst (p, c)). apply in_map. exact Hpc.
      + right. apply IH. exact Hin.
  Qed.

  (* ---- interruption ------------------------------------------------------------------------------------------------ *)
  Lemma resume_one_job fs j k :
    wf_job j -> all_or_nothing j ->
    (forall p c, In (p, c) (j_plan j) -> fs_lookup fs p = None \/ fs_lookup fs p = Some c) ->
    agree (j_files j) (run_job false (partial_job false fs (j, k)) j) (run_job false fs j).
  Proof.
    intros [Hinc Hnd] Haon Hcons. unfold partial_job. simpl fst. simpl snd.
    destruct (job_skips false fs j) eqn:E; [apply agree_refl|].
    destruct Haon as [Hnil|Hc].
    - rewrite Hnil. rewrite firstn_nil. unfold fs_writes. simpl. apply agree_refl.
    - intros p Hp. unfold run_job at 2. rewrite E.
      assert (Hpm : In p (map fst (j_plan j))) by (rewrite Hc; exact Hp).
      apply in_map_iff in Hpm. destruct Hpm as ([q c] & Eq & Hpc). simpl in Eq. subst q.
      rewrite (lookup_writes_in content (j_plan j) fs p c Hnd Hpc).
      unfold run_job. destruct (job_skips false (fs_writes fs (firstn k (j_plan j))) j) eqn:E2.
      + destruct (in_dec path_eq_dec p (map fst (firstn k (j_plan j)))) as [Hin|Hin].
        * apply in_map_iff in Hin. destruct Hin as ([q c'] & Eq & Hin). simpl in Eq. subst q.
          rewrite (lookup_writes_in content (firstn k (j_plan j)) fs p c' (NoDup_map_fst_firstn _ k Hnd) Hin).
          f_equal. eapply NoDup_fst_functional; [exact Hnd|eapply in_firstn; exact Hin|exact Hpc].
        * pose proof (skips_all_exist false _ j E2 p Hp) as Hex. unfold fs_isfile in Hex.
          rewrite lookup_writes_notin in * by exact Hin.
          destruct (Hcons p c Hpc) as [Hn|Hs]; [rewrite Hn in Hex; discriminate|exact Hs].
      + apply lookup_writes_in; assumption.
  Qed.

  (* every molecule may have been interrupted after any number of its own writes (any pool interleaving, any crash
     point); the re-run may complete the inputs in any order: the final directory is that of an uninterrupted run *)
  Lemma crash_then_resume fs jks js' p :
    let js := jobs_of jks in
    disjoint js -> (forall j, In j js -> wf_job j) -> (forall j, In j js -> all_or_nothing j) ->
    consistent fs js -> Permutation js js' ->
    fs_lookup (run_jobs false (run_partial false fs jks) js') p = fs_lookup (run_jobs false fs js) p.
  Proof.
    intros js Hd Hwf Haon Hcons Hperm.
    assert (Hd' : disjoint js') by (eapply disjoint_perm; eauto).
    assert (Hwf' : forall j, In j js' -> wf_job j) by (intros j Hj; apply Hwf; eapply Permutation_in; [apply Permutation_sym|]; eauto).
    destruct (in_dec path_eq_dec p (flat_map j_files js)) as [Hin|Hin].
    - apply in_flat_map in Hin. destruct Hin as (j & Hj & Hp).
      rewrite (char_jobs false js' _ j Hd' Hwf' (Permutation_in _ Hperm Hj) p Hp).
      rewrite (char_jobs false js fs j Hd Hwf Hj p Hp).
      pose proof Hj as Hjk. unfold js, jobs_of in Hjk. apply in_map_iff in Hjk. destruct Hjk as ([j1 k] & E & Hjk). simpl in E. subst j1.
      rewrite <- (resume_one_job fs j k (Hwf j Hj) (Haon j Hj) (Hcons j Hj) p Hp).
      rewrite !run_job_partial. apply local_partial; [apply Hwf; exact Hj| |exact Hp].
      apply char_partials; assumption.
    - rewrite frame_jobs; [|exact Hwf'|].
      + rewrite frame_partials; [|exact Hwf|exact Hin]. rewrite frame_jobs; auto.
      + intro Q. apply Hin. eapply Permutation_in; [apply Permutation_flat_map; apply Permutation_sym; exact Hperm|exact Q].
  Qed.

  (* a serial run that crashes after k writes is one of those interrupted states *)
  Fixpoint prefix_counts (fs : fsmap content) (js : list job) (k : nat) : list nat :=
    match js with
    | [] => []
    | j :: t =>
      let ws := if job_skips false fs j then [] else j_plan j in
      if (length ws <=? k)%nat then length (j_plan j) :: prefix_counts (fs_writes fs ws) t (k - length ws)
      else k :: map (fun _ => 0%nat) t
    end.

  Lemma run_partial_zero (t : list job) : forall fs, run_partial false fs (combine t (map (fun _ => 0%nat) t)) = fs.
  Proof.
    unfold run_partial. induction t as [|j t IH]; intro fs; simpl; [reflexivity|].
    unfold partial_job at 2. simpl. destruct (job_skips false fs j); apply IH.
  Qed.

  Lemma run_interrupted_partial js : forall fs k,
    run_interrupted false fs js k = run_partial false fs (combine js (prefix_counts fs js k)).
  Proof.
    induction js as [|j t IH]; intros fs k; simpl; [reflexivity|].
    destruct (Nat.leb _ k) eqn:E.
    - unfold run_partial. simpl. rewrite IH. unfold run_partial. f_equal.
      unfold partial_job. simpl. destruct (job_skips false fs j); [reflexivity|]. rewrite firstn_all. reflexivity.
    - unfold run_partial. simpl.
      assert (Q : partial_job false fs (j, k) = fs_writes fs (firstn k (if job_skips false fs j then [] else j_plan j))).
      { unfold partial_job. simpl. destruct (job_skips false fs j); [rewrite firstn_nil; reflexivity|reflexivity]. }
      rewrite Q. symmetry. exact (run_partial_zero t _).
  Qed.

  Lemma prefix_counts_length js : forall fs k, length (prefix_counts fs js k) = length js.
  Proof.
    induction js as [|j t IH]; intros fs k; simpl; [reflexivity|].
    destruct (Nat.leb _ k); simpl; [rewrite IH; reflexivity|rewrite map_length; reflexivity].
  Qed.

  Lemma jobs_of_combine js ks : length ks = length js -> jobs_of (combine js ks) = js.
  Proof.
    unfold jobs_of. revert ks. induction js as [|j t IH]; intros [|k ks]; simpl; intro H; try reflexivity; try discriminate.
    rewrite IH; [reflexivity|lia].
  Qed.

  Lemma crash_then_resume_serial fs js js' k p :
    disjoint js -> (forall j, In j js -> wf_job j) -> (forall j, In j js -> all_or_nothing j) ->
    consistent fs js -> Permutation js js' ->
    fs_lookup (run_jobs false (run_interrupted false fs js k) js') p = fs_lookup (run_jobs false fs js) p.
  Proof.
    intros Hd Hwf Haon Hcons Hperm. rewrite run_interrupted_partial.
    pose proof (jobs_of_combine js (prefix_counts fs js k) (prefix_counts_length js fs k)) as E.
    pose proof (crash_then_resume fs (combine js (prefix_counts fs js k)) js' p) as Q. cbv zeta in Q.
    rewrite E in Q. apply Q; assumption.
  Qed.

  (* all_iters: a molecule with some but not all of its level files is recomputed and ALL its files are written again *)
  Lemma partial_molecule_rewritten fs j p :
    In p (j_files j) -> fs_isfile fs p = false -> job_log false fs j = map fst (j_plan j).
  Proof.
    intros Hp Hmiss. unfold job_log, job_skips. rewrite andb_true_r.
    destruct (forallb (fs_isfile fs) (j_files j)) eqn:E; [|reflexivity].
    rewrite forallb_forall in E. rewrite (E p Hp) in Hmiss. discriminate.
  Qed.
End Jobs.
