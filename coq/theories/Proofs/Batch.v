(* Lemmas about Model/Batch.v: the output-file machine (jobs), interruption and resume, the collection loop. *)
From Coq Require Import Permutation.
From E3FP Require Import Base.Prelude Model.Fprint Model.Pipeline Model.Batch Proofs.PipelineFs.
Open Scope Z_scope.

Lemma path_eq_dec (p q : path) : {p = q} + {p <> q}.
Proof. decide equality; apply String.string_dec. Qed.

Lemma forallb_ext_in {A} (f g : A -> bool) l : (forall x, In x l -> f x = g x) -> forallb f l = forallb g l.
Proof.
  induction l as [|a t IH]; simpl; intro H; [reflexivity|]. rewrite (H a (or_introl eq_refl)), IH; [reflexivity|].
  intros; apply H; auto.
Qed.

Lemma NoDup_app_disjoint {A} (a b : list A) x : NoDup (a ++ b) -> In x a -> ~ In x b.
Proof.
  induction a as [|y a IH]; simpl; intros H Hin; [tauto|]. inversion H as [|? ? Hy Hnd]; subst.
  destruct Hin as [->|Hin]; [intro Q; apply Hy; apply in_or_app; auto|apply IH; assumption].
Qed.

Lemma NoDup_app_l {A} (a b : list A) : NoDup (a ++ b) -> NoDup a.
Proof. induction a as [|y a IH]; simpl; intro H; [constructor|]. inversion H; subst. constructor; [intro Q; apply H2; apply in_or_app; auto|auto]. Qed.

Lemma NoDup_app_r {A} (a b : list A) : NoDup (a ++ b) -> NoDup b.
Proof. induction a as [|y a IH]; simpl; intro H; [exact H|]. inversion H; subst. auto. Qed.

Lemma in_map_fst_firstn {A B} (l : list (A * B)) k x : In x (map fst (firstn k l)) -> In x (map fst l).
Proof.
  revert k. induction l as [|a t IH]; intros [|k]; simpl; try tauto. intros [H|H]; [auto|right; eapply IH; eauto].
Qed.

Lemma in_firstn {A} (l : list A) k x : In x (firstn k l) -> In x l.
Proof. revert k. induction l as [|a t IH]; intros [|k]; simpl; try tauto. intros [H|H]; [auto|right; eapply IH; eauto]. Qed.

Lemma NoDup_map_fst_firstn {A B} (l : list (A * B)) k : NoDup (map fst l) -> NoDup (map fst (firstn k l)).
Proof.
  revert k. induction l as [|a t IH]; intros [|k]; simpl; intro H; try constructor.
  - inversion H; subst. intro Q. apply H2. eapply in_map_fst_firstn; eauto.
  - inversion H; subst. auto.
Qed.

Lemma NoDup_fst_functional {A B} (l : list (A * B)) p c c' :
  NoDup (map fst l) -> In (p, c) l -> In (p, c') l -> c = c'.
Proof.
  induction l as [|[q d] t IH]; simpl; intros H H1 H2; [tauto|]. inversion H as [|? ? Hq Hnd]; subst.
  destruct H1 as [E1|H1], H2 as [E2|H2].
  - congruence.
  - inversion E1; subst. exfalso. apply Hq. change p with (fst (p, c')). apply in_map. exact H2.
  - inversion E2; subst. exfalso. apply Hq. change p with (fst (p, c)). apply in_map. exact H1.
  - auto.
Qed.

Lemma filter_length_le {A} (f : A -> bool) l : (length (filter f l) <= length l)%nat.
Proof. induction l as [|a t IH]; simpl; [lia|]. destruct (f a); simpl; lia. Qed.

Section Jobs.
  Variable content : Type.
  Notation job := (job content).
  Implicit Types (fs : fsmap content) (j : job).

  (* ---- vocabulary of the statements ------------------------------------------------------------------------------ *)
  (* a job writes only files it looks at, each once *)
  Definition wf_job j : Prop := incl (map fst (j_plan j)) (j_files j) /\ NoDup (map fst (j_plan j)).
  (* a molecule that is fingerprinted successfully plans a write for every one of its files; a failing one plans none *)
  Definition complete j : Prop := map fst (j_plan j) = j_files j.
  Definition all_or_nothing j : Prop := j_plan j = [] \/ complete j.
  (* no two jobs share an output path (molecule names are distinct), no job lists a path twice *)
  Definition disjoint (js : list job) : Prop := NoDup (flat_map j_files js).
  Definition agree (ps : list path) (a b : fsmap content) : Prop := forall p, In p ps -> fs_lookup a p = fs_lookup b p.
  Definition all_exist fs j : Prop := forall p, In p (j_files j) -> fs_isfile fs p = true.

  Lemma agree_refl ps a : agree ps a a. Proof. intros p _. reflexivity. Qed.
  Lemma agree_trans ps a b c : agree ps a b -> agree ps b c -> agree ps a c.
  Proof. intros H1 H2 p Hp. rewrite (H1 p Hp). auto. Qed.

  Lemma skip_agree ow a b j : agree (j_files j) a b -> job_skips ow a j = job_skips ow b j.
  Proof.
    intro H. unfold job_skips. f_equal. apply forallb_ext_in. intros p Hp. unfold fs_isfile. rewrite (H p Hp). reflexivity.
  Qed.

  Lemma skips_all_exist ow fs j : job_skips ow fs j = true -> all_exist fs j.
  Proof. unfold job_skips. rewrite andb_true_iff. intros [H _] p Hp. rewrite forallb_forall in H. auto. Qed.

  Lemma skips_overwrite fs j : job_skips true fs j = false.
  Proof. unfold job_skips. apply andb_false_r. Qed.

  (* for a well-formed job the skip test is subsumed by the per-file test *)
  Lemma job_writes_filter ow fs j : wf_job j -> job_writes ow fs j = filter (fs_keep ow fs) (j_plan j).
  Proof.
    intros [Hinc _]. unfold job_writes. destruct (job_skips ow fs j) eqn:E; [|reflexivity].
    unfold job_skips in E. apply andb_true_iff in E. destruct E as [Eall Eow]. rewrite forallb_forall in Eall.
    symmetry. induction (j_plan j) as [|w t IH]; [reflexivity|]. simpl.
    assert (K : fs_keep ow fs w = false).
    { unfold fs_keep. rewrite (Eall (fst w)), Eow; [reflexivity|]. apply Hinc. simpl. auto. }
    rewrite K. apply IH. intros x Hx. apply Hinc. simpl. auto.
  Qed.

  Lemma job_writes_agree ow a b j : wf_job j -> agree (j_files j) a b -> job_writes ow a j = job_writes ow b j.
  Proof.
    intros Hwf H. rewrite !job_writes_filter by exact Hwf. apply keep_ext. intros w Hw. unfold fs_isfile.
    rewrite (H (fst w)); [reflexivity|]. apply (proj1 Hwf). apply in_map. exact Hw.
  Qed.

  Lemma job_writes_paths ow fs j p : wf_job j -> In p (map fst (job_writes ow fs j)) -> In p (j_files j).
  Proof. intros Hwf H. rewrite job_writes_filter in H by exact Hwf. apply (proj1 Hwf). eapply in_map_fst_filter; eauto. Qed.

  Lemma job_writes_nodup ow fs j : wf_job j -> NoDup (map fst (job_writes ow fs j)).
  Proof. intro Hwf. rewrite job_writes_filter by exact Hwf. apply NoDup_map_fst_filter. exact (proj2 Hwf). Qed.

  (* ---- one (possibly interrupted) job ---------------------------------------------------------------------------- *)
  Lemma run_job_partial ow fs j : run_job ow fs j = partial_job ow fs (j, length (j_plan j)).
  Proof.
    unfold run_job, partial_job. simpl. rewrite firstn_all2; [reflexivity|].
    unfold job_writes. destruct (job_skips ow fs j); simpl; [lia|]. apply filter_length_le.
  Qed.

  Lemma frame_partial ow fs j k p : wf_job j -> ~ In p (j_files j) -> fs_lookup (partial_job ow fs (j, k)) p = fs_lookup fs p.
  Proof.
    intros Hwf Hp. unfold partial_job. simpl.
    apply lookup_writes_notin. intro Q. apply Hp. eapply job_writes_paths; [exact Hwf|]. eapply in_map_fst_firstn; eauto.
  Qed.

  Lemma local_partial ow a b j k :
    wf_job j -> agree (j_files j) a b -> agree (j_files j) (partial_job ow a (j, k)) (partial_job ow b (j, k)).
  Proof.
    intros Hwf H. unfold partial_job. simpl. rewrite (job_writes_agree ow a b j Hwf H). intros p Hp.
    destruct (in_dec path_eq_dec p (map fst (firstn k (job_writes ow b j)))) as [Hin|Hin].
    - apply in_map_iff in Hin. destruct Hin as ([q c] & E & Hin). simpl in E. subst q.
      rewrite !(lookup_writes_in content (firstn k (job_writes ow b j)) _ p c); auto using NoDup_map_fst_firstn, job_writes_nodup.
    - rewrite !lookup_writes_notin by exact Hin. auto.
  Qed.

  (* ---- a list of jobs --------------------------------------------------------------------------------------------- *)
  Definition jobs_of (jks : list (job * nat)) : list job := map fst jks.

  Lemma frame_partials ow jks : forall fs p,
    (forall j, In j (jobs_of jks) -> wf_job j) -> ~ In p (flat_map j_files (jobs_of jks)) ->
    fs_lookup (run_partial ow fs jks) p = fs_lookup fs p.
  Proof.
    unfold run_partial. induction jks as [|[j k] t IH]; intros fs p Hwf Hp; simpl; [reflexivity|].
    simpl in Hp. rewrite IH.
    - apply frame_partial; [apply Hwf; simpl; auto|intro Q; apply Hp; apply in_or_app; auto].
    - intros j' Hj'. apply Hwf. simpl. auto.
    - intro Q. apply Hp. apply in_or_app. auto.
  Qed.

  Lemma char_partials ow jks : forall fs j k,
    disjoint (jobs_of jks) -> (forall j, In j (jobs_of jks) -> wf_job j) -> In (j, k) jks ->
    agree (j_files j) (run_partial ow fs jks) (partial_job ow fs (j, k)).
  Proof.
    unfold run_partial. induction jks as [|[j0 k0] t IH]; intros fs j k Hd Hwf Hin; [destruct Hin|].
    simpl fold_left. unfold disjoint in Hd. simpl in Hd.
    assert (Hwft : forall j', In j' (jobs_of t) -> wf_job j') by (intros; apply Hwf; simpl; auto).
    destruct Hin as [E|Hin].
    - inversion E; subst j0 k0. intros p Hp.
      apply (frame_partials ow t (partial_job ow fs (j, k)) p Hwft).
      eapply NoDup_app_disjoint; eauto.
    - assert (Hjt : In j (jobs_of t)) by (unfold jobs_of; change j with (fst (j, k)); apply in_map; exact Hin).
      eapply agree_trans.
      + apply (IH (partial_job ow fs (j0, k0)) j k); [exact (NoDup_app_r _ _ Hd)|exact Hwft|exact Hin].
      + apply local_partial; [apply Hwft; exact Hjt|].
        intros p Hp. apply frame_partial; [apply Hwf; simpl; auto|].
        intro Q. apply (NoDup_app_disjoint _ _ p Hd Q). apply in_flat_map. exists j. auto.
  Qed.

  Definition full (js : list job) : list (job * nat) := map (fun j => (j, length (j_plan j))) js.

  Lemma jobs_of_full js : jobs_of (full js) = js.
  Proof. unfold jobs_of, full. rewrite map_map. simpl. apply map_id. Qed.

  Lemma run_jobs_partial ow js : forall fs, run_jobs ow fs js = run_partial ow fs (full js).
  Proof.
    unfold run_jobs, run_partial. induction js as [|j t IH]; intro fs; simpl; [reflexivity|].
    rewrite IH, run_job_partial. reflexivity.
  Qed.

  Lemma frame_jobs ow js fs p :
    (forall j, In j js -> wf_job j) -> ~ In p (flat_map j_files js) -> fs_lookup (run_jobs ow fs js) p = fs_lookup fs p.
  Proof.
    intros Hwf Hp. rewrite run_jobs_partial. apply frame_partials; rewrite jobs_of_full; assumption.
  Qed.

  Lemma char_jobs ow js fs j :
    disjoint js -> (forall j, In j js -> wf_job j) -> In j js ->
    agree (j_files j) (run_jobs ow fs js) (run_job ow fs j).
  Proof.
    intros Hd Hwf Hin. rewrite run_jobs_partial, run_job_partial.
    apply char_partials; rewrite ?jobs_of_full; try assumption.
    unfold full. apply in_map_iff. exists j. auto.
  Qed.

  Lemma disjoint_perm js js' : Permutation js js' -> disjoint js -> disjoint js'.
  Proof. intros H Hd. unfold disjoint in *. eapply Permutation_NoDup; [|exact Hd]. apply Permutation_flat_map. exact H. Qed.

  (* ---- the resume / overwrite theorems ----------------------------------------------------------------------------- *)
  (* the final directory does not depend on the order in which the inputs complete *)
  Lemma files_schedule_independent ow fs js js' p :
    disjoint js -> (forall j, In j js -> wf_job j) -> Permutation js js' ->
    fs_lookup (run_jobs ow fs js') p = fs_lookup (run_jobs ow fs js) p.
  Proof.
    intros Hd Hwf Hperm.
    assert (Hd' : disjoint js') by (eapply disjoint_perm; eauto).
    assert (Hwf' : forall j, In j js' -> wf_job j) by (intros j Hj; apply Hwf; eapply Permutation_in; [apply Permutation_sym|]; eauto).
    destruct (in_dec path_eq_dec p (flat_map j_files js)) as [Hin|Hin].
    - apply in_flat_map in Hin. destruct Hin as (j & Hj & Hp).
      rewrite (char_jobs ow js' fs j Hd' Hwf' (Permutation_in _ Hperm Hj) p Hp).
      rewrite (char_jobs ow js fs j Hd Hwf Hj p Hp). reflexivity.
    - rewrite !frame_jobs; auto.
      intro Q. apply Hin. eapply Permutation_in; [apply Permutation_flat_map; apply Permutation_sym; exact Hperm|exact Q].
  Qed.

  (* no-overwrite run: EVERY file that exists keeps its content and is not written - whatever the jobs are *)
  Lemma job_keeps_existing fs j p :
    fs_isfile fs p = true -> fs_lookup (run_job false fs j) p = fs_lookup fs p /\ ~ In p (job_log false fs j).
  Proof.
    intro H.
    assert (Q : ~ In p (map fst (job_writes false fs j))).
    { unfold job_writes. destruct (job_skips false fs j); [intros []|]. apply keep_skipped. rewrite H. reflexivity. }
    split; [apply lookup_writes_notin; exact Q|exact Q].
  Qed.

  Lemma resume_preserves js : forall fs p,
    fs_isfile fs p = true ->
    fs_lookup (run_jobs false fs js) p = fs_lookup fs p /\ ~ In p (run_log false fs js).
  Proof.
    unfold run_jobs. induction js as [|j t IH]; intros fs p H; simpl; [split; [reflexivity|intros []]|].
    destruct (job_keeps_existing fs j p H) as [K1 K2].
    assert (H' : fs_isfile (run_job false fs j) p = true) by (unfold fs_isfile in *; rewrite K1; exact H).
    destruct (IH (run_job false fs j) p H') as [I1 I2]. split.
    - rewrite I1. exact K1.
    - intro Q. apply in_app_or in Q. tauto.
  Qed.

  (* so whatever a no-overwrite run writes was missing before the run *)
  Lemma resume_writes_only_missing js fs p : In p (run_log false fs js) -> fs_isfile fs p = false.
  Proof.
    intro H. destruct (fs_isfile fs p) eqn:E; [|reflexivity]. exfalso. exact (proj2 (resume_preserves js fs p E) H).
  Qed.

  Lemma outside_untouched ow fs js p :
    (forall j, In j js -> wf_job j) -> ~ In p (flat_map j_files js) -> fs_lookup (run_jobs ow fs js) p = fs_lookup fs p.
  Proof. apply frame_jobs. Qed.

  (* what one job leaves at a planned path *)
  Lemma run_job_planned ow fs j p c :
    wf_job j -> In (p, c) (j_plan j) ->
    fs_lookup (run_job ow fs j) p = if fs_isfile fs p && negb ow then fs_lookup fs p else Some c.
  Proof.
    intros Hwf Hpc. unfold run_job. rewrite job_writes_filter by exact Hwf.
    destruct (fs_isfile fs p && negb ow) eqn:E.
    - apply lookup_kept_writes_existing. exact E.
    - apply lookup_kept_writes_new; [exact (proj2 Hwf)|exact Hpc|exact E].
  Qed.

  (* after the run every molecule that can be fingerprinted has all its files *)
  Lemma resume_completes ow fs js j :
    disjoint js -> (forall j, In j js -> wf_job j) -> In j js -> complete j -> all_exist (run_jobs ow fs js) j.
  Proof.
    intros Hd Hwf Hin Hc p Hp. unfold fs_isfile. rewrite (char_jobs ow js fs j Hd Hwf Hin p Hp).
    unfold complete in Hc. rewrite <- Hc in Hp. apply in_map_iff in Hp. destruct Hp as ([q c] & Eq & Hpc). simpl in Eq. subst q.
    rewrite (run_job_planned ow fs j p c (Hwf j Hin) Hpc). destruct (fs_isfile fs p && negb ow) eqn:E; [|reflexivity].
    apply andb_true_iff in E. destruct E as [E _]. unfold fs_isfile in E. destruct (fs_lookup fs p); [reflexivity|discriminate].
  Qed.

  (* with overwrite every planned file is regenerated *)
  Lemma overwrite_regenerates fs js j p c :
    disjoint js -> (forall j, In j js -> wf_job j) -> In j js -> In (p, c) (j_plan j) ->
    fs_lookup (run_jobs true fs js) p = Some c /\ In p (run_log true fs js).
  Proof.
    intros Hd Hwf Hin Hpc.
    assert (Hp : In p (j_files j)).
    { apply (proj1 (Hwf j Hin)). change p with (fst (p, c)). apply in_map. exact Hpc. }
    split.
    - rewrite (char_jobs true js fs j Hd Hwf Hin p Hp), (run_job_planned true fs j p c (Hwf j Hin) Hpc).
      rewrite andb_false_r. reflexivity.
    - clear Hd Hp. revert fs. induction js as [|a t IH]; intro fs; [destruct Hin|]. simpl. apply in_or_app.
      destruct Hin as [->|Hin].
      + left. unfold job_log. rewrite job_writes_filter by (apply Hwf; simpl; auto). rewrite keep_overwrite.
        change p with (fst (p, c)). apply in_map. exact Hpc.
      + right. apply IH; [intros; apply Hwf; simpl; auto|exact Hin].
  Qed.

  (* a half-written molecule (all_iters): its missing files are written, its existing ones are neither changed nor written *)
  Lemma partial_molecule_completed fs j p c :
    wf_job j -> In (p, c) (j_plan j) -> fs_isfile fs p = false ->
    fs_lookup (run_job false fs j) p = Some c /\ In p (job_log false fs j) /\
    (forall q, fs_isfile fs q = true -> fs_lookup (run_job false fs j) q = fs_lookup fs q /\ ~ In q (job_log false fs j)).
  Proof.
    intros Hwf Hpc Hm. split; [|split].
    - rewrite (run_job_planned false fs j p c Hwf Hpc), Hm. reflexivity.
    - unfold job_log. rewrite job_writes_filter by exact Hwf. change p with (fst (p, c)). apply in_map.
      apply keep_kept; [exact Hpc|rewrite Hm; reflexivity].
    - intros q Hq. apply job_keeps_existing. exact Hq.
  Qed.

  (* ---- interruption ------------------------------------------------------------------------------------------------ *)
  Lemma resume_one_job fs j k :
    wf_job j -> agree (j_files j) (run_job false (partial_job false fs (j, k)) j) (run_job false fs j).
  Proof.
    intros Hwf p Hp. set (fs1 := partial_job false fs (j, k)).
    assert (Hfs1 : fs1 = fs_writes fs (firstn k (filter (fs_keep false fs) (j_plan j)))).
    { unfold fs1, partial_job. simpl. rewrite job_writes_filter by exact Hwf. reflexivity. }
    destruct (in_dec path_eq_dec p (map fst (j_plan j))) as [Hin|Hin].
    - apply in_map_iff in Hin. destruct Hin as ([q c] & Eq & Hpc). simpl in Eq. subst q.
      rewrite (run_job_planned false fs1 j p c Hwf Hpc), (run_job_planned false fs j p c Hwf Hpc). rewrite !andb_true_r.
      destruct (fs_isfile fs p) eqn:E.
      + (* existed before: never written *)
        assert (L1 : fs_lookup fs1 p = fs_lookup fs p).
        { rewrite Hfs1. apply lookup_writes_notin. intro Q. apply in_map_fst_firstn in Q.
          revert Q. apply keep_skipped. rewrite E. reflexivity. }
        unfold fs_isfile. rewrite L1. unfold fs_isfile in E. rewrite E. destruct (fs_lookup fs p); [reflexivity|discriminate].
      + (* missing before: written by the interrupted run or by the re-run, with the planned content *)
        destruct (in_dec path_eq_dec p (map fst (firstn k (filter (fs_keep false fs) (j_plan j))))) as [Hw|Hw].
        * apply in_map_iff in Hw. destruct Hw as ([q c'] & Eq & Hw). simpl in Eq. subst q.
          assert (c' = c).
          { eapply NoDup_fst_functional; [exact (proj2 Hwf)| |exact Hpc]. apply in_firstn in Hw. apply filter_In in Hw. tauto. }
          subst c'.
          assert (L1 : fs_lookup fs1 p = Some c).
          { rewrite Hfs1. apply lookup_writes_in; [apply NoDup_map_fst_firstn, NoDup_map_fst_filter; exact (proj2 Hwf)|exact Hw]. }
          unfold fs_isfile. rewrite L1. reflexivity.
        * assert (L1 : fs_lookup fs1 p = fs_lookup fs p) by (rewrite Hfs1; apply lookup_writes_notin; exact Hw).
          unfold fs_isfile. rewrite L1. unfold fs_isfile in E. rewrite E. reflexivity.
    - assert (N1 : forall fs', ~ In p (map fst (job_writes false fs' j))).
      { intros fs' Q. apply Hin. rewrite job_writes_filter in Q by exact Hwf. eapply in_map_fst_filter; eauto. }
      unfold run_job. rewrite !lookup_writes_notin by apply N1.
      rewrite Hfs1. apply lookup_writes_notin. intro Q. apply Hin. apply in_map_fst_firstn in Q. eapply in_map_fst_filter; eauto.
  Qed.

  (* every molecule may have been interrupted after any number of its own writes (any pool interleaving, any crash
     point); the re-run may complete the inputs in any order: the final directory is that of an uninterrupted run *)
  Lemma crash_then_resume fs jks js' p :
    let js := jobs_of jks in
    disjoint js -> (forall j, In j js -> wf_job j) -> Permutation js js' ->
    fs_lookup (run_jobs false (run_partial false fs jks) js') p = fs_lookup (run_jobs false fs js) p.
  Proof.
    intros js Hd Hwf Hperm.
    assert (Hd' : disjoint js') by (eapply disjoint_perm; eauto).
    assert (Hwf' : forall j, In j js' -> wf_job j) by (intros j Hj; apply Hwf; eapply Permutation_in; [apply Permutation_sym|]; eauto).
    destruct (in_dec path_eq_dec p (flat_map j_files js)) as [Hin|Hin].
    - apply in_flat_map in Hin. destruct Hin as (j & Hj & Hp).
      rewrite (char_jobs false js' _ j Hd' Hwf' (Permutation_in _ Hperm Hj) p Hp).
      rewrite (char_jobs false js fs j Hd Hwf Hj p Hp).
      pose proof Hj as Hjk. unfold js, jobs_of in Hjk. apply in_map_iff in Hjk. destruct Hjk as ([j1 k] & E & Hjk). simpl in E. subst j1.
      rewrite <- (resume_one_job fs j k (Hwf j Hj) p Hp).
      rewrite !run_job_partial. apply local_partial; [apply Hwf; exact Hj| |exact Hp].
      apply char_partials; assumption.
    - rewrite frame_jobs; [|exact Hwf'|].
      + rewrite frame_partials; [|exact Hwf|exact Hin]. rewrite frame_jobs; auto.
      + intro Q. apply Hin. eapply Permutation_in; [apply Permutation_flat_map; apply Permutation_sym; exact Hperm|exact Q].
  Qed.

  (* a serial run that crashes after k writes is one of those interrupted states *)
  Fixpoint prefix_counts (fs : fsmap content) (js : list job) (k : nat) : list nat :=
    match js with
    | [] => []
    | j :: t =>
      let ws := job_writes false fs j in
      if (length ws <=? k)%nat then length ws :: prefix_counts (fs_writes fs ws) t (k - length ws)
      else k :: map (fun _ => 0%nat) t
    end.

  Lemma run_partial_zero (t : list job) : forall fs, run_partial false fs (combine t (map (fun _ => 0%nat) t)) = fs.
  Proof.
    unfold run_partial. induction t as [|j t IH]; intro fs; simpl; [reflexivity|].
    unfold partial_job at 2. simpl. apply IH.
  Qed.

  Lemma run_interrupted_partial js : forall fs k,
    run_interrupted false fs js k = run_partial false fs (combine js (prefix_counts fs js k)).
  Proof.
    induction js as [|j t IH]; intros fs k; simpl; [reflexivity|].
    destruct (Nat.leb _ k) eqn:E.
    - unfold run_partial. simpl. rewrite IH. unfold run_partial. f_equal.
      unfold partial_job. simpl. rewrite firstn_all. reflexivity.
    - unfold run_partial. simpl.
      assert (Q : partial_job false fs (j, k) = fs_writes fs (firstn k (job_writes false fs j))) by reflexivity.
      rewrite Q. symmetry. exact (run_partial_zero t _).
  Qed.

  Lemma prefix_counts_length js : forall fs k, length (prefix_counts fs js k) = length js.
  Proof.
    induction js as [|j t IH]; intros fs k; simpl; [reflexivity|].
    destruct (Nat.leb _ k); simpl; [rewrite IH; reflexivity|rewrite map_length; reflexivity].
  Qed.

  Lemma jobs_of_combine js ks : length ks = length js -> jobs_of (combine js ks) = js.
  Proof.
    unfold jobs_of. revert ks. induction js as [|j t IH]; intros [|k ks]; simpl; intro H; try reflexivity; try discriminate.
    rewrite IH; [reflexivity|lia].
  Qed.

  Lemma crash_then_resume_serial fs js js' k p :
    disjoint js -> (forall j, In j js -> wf_job j) -> Permutation js js' ->
    fs_lookup (run_jobs false (run_interrupted false fs js k) js') p = fs_lookup (run_jobs false fs js) p.
  Proof.
    intros Hd Hwf Hperm. rewrite run_interrupted_partial.
    pose proof (jobs_of_combine js (prefix_counts fs js k) (prefix_counts_length js fs k)) as E.
    pose proof (crash_then_resume fs (combine js (prefix_counts fs js k)) js' p) as Q. cbv zeta in Q.
    rewrite E in Q. apply Q; assumption.
  Qed.
End Jobs.
