(* Lemmas tying the fingerprint batch of Model/Batch.v (worker, collection loop, database) and generate_conformers to the
   abstract job machine of Proofs/Batch.v. *)
From Coq Require Import Permutation.
From E3FP Require Import Base.Prelude Model.Fprint Model.Pipeline Model.Batch.
From E3FP Require Import Proofs.PipelineNames Proofs.Pipeline Proofs.PipelineFs Proofs.PipelineSpec Proofs.Batch.
Open Scope Z_scope.

Section Run.
  Variable content : Type.
  Variable pickle : list fp -> content.

  Notation worker := (worker content pickle).
  Notation worker_job := (worker_job content pickle).
  Notation run := (run content pickle).
  Notation run_workers := (run_workers content pickle).
  Notation save_plan := (save_plan content pickle).

  (* ---- the worker acts on the directory as its job does ---------------------------------------------------------- *)
  Lemma single_files cfg nm files :
    single_level (c_level cfg) (c_all_iters cfg) = true -> mol_files cfg nm = Ok files -> exists f0, files = [f0].
  Proof. unfold mol_files, filenames. intros ->. intro H. inversion H. eauto. Qed.

  Lemma worker_is_job cfg fs i : snd (worker cfg fs i) = run_job (c_overwrite cfg) fs (worker_job cfg i).
  Proof.
    unfold worker, worker_job, mol_step, run_job, job_writes, job_skips. destruct i as [name loop|].
    - destruct (c_base cfg) as [b|]; simpl.
      + destruct name as [nm|]; simpl.
        * destruct (mol_files cfg nm) as [files|e] eqn:Ef; simpl.
          -- destruct (forallb (fs_isfile fs) files && negb (c_overwrite cfg)) eqn:Esk; [reflexivity|].
             destruct loop as [d|e]; simpl; [|reflexivity].
             destruct (save_plan files (c_level cfg) (c_all_iters cfg) d) as [ws|e] eqn:Es; [|reflexivity]. simpl.
             destruct (single_level (c_level cfg) (c_all_iters cfg)) eqn:Esl; [|reflexivity].
             (* one file, not skipped: the per-file test is vacuous *)
             destruct (single_files cfg nm files Esl Ef) as [f0 ->]. unfold Batch.save_plan in Es. rewrite Esl in Es.
             destruct (dict_max_key d); [|discriminate]. destruct (dict_get d z); [|discriminate]. inversion Es. simpl.
             unfold fs_keep. simpl. simpl in Esk. rewrite andb_true_r in Esk. rewrite Esk. reflexivity.
          -- destruct (negb (c_overwrite cfg)); reflexivity.
        * destruct (negb (c_overwrite cfg)); reflexivity.
      + destruct (negb (c_overwrite cfg)); reflexivity.
    - destruct (c_base cfg); simpl; destruct (negb (c_overwrite cfg)); reflexivity.
  Qed.

  Lemma run_workers_fs cfg order : forall fs,
    snd (run_workers cfg fs order) = run_jobs (c_overwrite cfg) fs (map (worker_job cfg) order).
  Proof.
    induction order as [|i t IH]; intro fs; simpl; [reflexivity|].
    pose proof (worker_is_job cfg fs i) as W. destruct (worker cfg fs i) as [r fs']. simpl in W.
    specialize (IH fs'). destruct (run_workers cfg fs' t) as [rs fs'']. simpl in *. rewrite IH, W. reflexivity.
  Qed.

  Lemma failing_input_no_job cfg : worker_job cfg (Fails) = mkjob [] [].
  Proof. unfold worker_job. destruct (c_base cfg); reflexivity. Qed.

  (* ---- the jobs are well formed ------------------------------------------------------------------------------------ *)
  Lemma filenames_multi b level ai nm ext :
    single_level level ai = false ->
    filenames (Some b) level ai nm ext = Ok (map (fun i => ((b ++ dec i)%string, (nm ++ ext)%string)) (zrange (level + 1))).
  Proof. intro H. unfold filenames. rewrite H. destruct (zrange (level + 1)); reflexivity. Qed.

  Lemma filenames_nodup base level ai nm ext files :
    0 <= level \/ single_level level ai = true ->
    filenames base level ai nm ext = Ok files -> NoDup files.
  Proof.
    intros Hl. unfold filenames. destruct (single_level level ai) eqn:Es.
    - intro H. inversion H. constructor; [intros []|constructor].
    - destruct Hl as [Hl|Hl]; [|discriminate].
      destruct (zrange (level + 1)) as [|r0 r] eqn:Er; [intro H; inversion H; constructor|].
      destruct base as [b|]; [|discriminate]. intro H. injection H as <-.
      change (NoDup (map (fun i => ((b ++ dec i)%string, (nm ++ ext)%string)) (r0 :: r))). rewrite <- Er.
      assert (G : forall r, NoDup r -> (forall i, In i r -> 0 <= i) ->
                  NoDup (map (fun i => ((b ++ dec i)%string, (nm ++ ext)%string)) r)).
      { clear. induction r as [|i r IH]; intros Hnd Hpos; simpl; constructor.
        - inversion Hnd as [|? ? Hi Hnd']; subst. intro Q. apply in_map_iff in Q. destruct Q as (i' & E & Hi').
          inversion E as [E']. apply append_inj_l in E'. apply dec_injective in E'; [subst; contradiction| |]; apply Hpos; simpl; auto.
        - inversion Hnd; subst. apply IH; [assumption|intros; apply Hpos; simpl; auto]. }
      apply G; [apply zrange_from_nodup|intros i Hi; apply zrange_in in Hi; lia].
  Qed.

  Lemma flat_map_plan_incl (d : fdict) : forall (files : list path) (r : list Z),
    incl (map fst (flat_map (fun f_i : path * Z => match dict_get d (snd f_i) with
                                                   | Some l => [(fst f_i, pickle l)]
                                                   | None => []
                                                   end) (combine files r))) files.
  Proof.
    induction files as [|f files IH]; intros [|i r]; simpl; try (intros x []).
    destruct (dict_get d i); simpl.
    - intros x [<-|H]; [left; reflexivity|right; eapply IH; eauto].
    - intros x H. right. eapply IH; eauto.
  Qed.

  Lemma flat_map_plan_nodup (d : fdict) : forall (files : list path) (r : list Z),
    NoDup files ->
    NoDup (map fst (flat_map (fun f_i : path * Z => match dict_get d (snd f_i) with
                                                    | Some l => [(fst f_i, pickle l)]
                                                    | None => []
                                                    end) (combine files r))).
  Proof.
    induction files as [|f files IH]; intros [|i r] Hnd; simpl; try constructor.
    inversion Hnd as [|? ? Hf Hnd']; subst. destruct (dict_get d i); simpl.
    - constructor; [|apply IH; exact Hnd']. intro Q. apply Hf. eapply flat_map_plan_incl; eauto.
    - apply IH; exact Hnd'.
  Qed.

  Lemma save_plan_wf files level ai d ws :
    NoDup files -> save_plan files level ai d = Ok ws -> incl (map fst ws) files /\ NoDup (map fst ws).
  Proof.
    intros Hnd. unfold save_plan. destruct (single_level level ai).
    - destruct (dict_max_key d) as [mk|]; [|discriminate]. destruct files as [|f0 rest]; [discriminate|].
      destruct (dict_get d mk); [|discriminate]. intro H. inversion H. simpl. split.
      + intros x [<-|[]]. left. reflexivity.
      + constructor; [intros []|constructor].
    - intro H. inversion H. split; [apply flat_map_plan_incl|apply flat_map_plan_nodup; exact Hnd].
  Qed.

  Definition level_ok (cfg : config) : Prop := 0 <= c_level cfg \/ single_level (c_level cfg) (c_all_iters cfg) = true.

  Lemma worker_job_wf cfg i : level_ok cfg -> wf_job content (worker_job cfg i).
  Proof.
    intro Hl. unfold worker_job, wf_job.
    assert (E0 : incl (map fst (@nil (path * content))) [] /\ NoDup (map fst (@nil (path * content)))).
    { split; [intros x []|constructor]. }
    destruct (c_base cfg) as [b|]; [|exact E0]. destruct i as [[nm|] loop|]; try exact E0.
    destruct (mol_files cfg nm) as [files|e] eqn:Ef; [|exact E0]. simpl.
    pose proof (filenames_nodup _ _ _ _ _ _ Hl Ef) as Hnd.
    destruct loop as [d|e]; [|split; [intros x []|constructor]].
    destruct (save_plan files (c_level cfg) (c_all_iters cfg) d) as [ws|e] eqn:Es; [|split; [intros x []|constructor]].
    exact (save_plan_wf _ _ _ _ _ Hnd Es).
  Qed.

  (* the conformer loop either produced nothing, or a list for every level of the range (Proofs/Pipeline.v: dict_spec) *)
  Definition input_ok (cfg : config) (i : input) : Prop :=
    match i with
    | Loads _ (Ok d) => d = [] \/ map fst d = level_range (c_level cfg) (c_all_iters cfg)
    | _ => True
    end.

  Lemma dict_get_key (d : fdict) k : In k (map fst d) -> exists l, dict_get d k = Some l.
  Proof.
    induction d as [|[k' l] t IH]; simpl; [tauto|]. intros [->|H].
    - rewrite Z.eqb_refl. eauto.
    - destruct (k =? k'); eauto.
  Qed.

  Lemma flat_map_plan_complete (d : fdict) : forall (files : list path) (r : list Z),
    length files = length r -> (forall k, In k r -> In k (map fst d)) ->
    map fst (flat_map (fun f_i : path * Z => match dict_get d (snd f_i) with
                                             | Some l => [(fst f_i, pickle l)]
                                             | None => []
                                             end) (combine files r)) = files.
  Proof.
    induction files as [|f files IH]; intros [|i r] Hlen Hk; simpl in *; try reflexivity; try discriminate.
    destruct (dict_get_key d i (Hk i (or_introl eq_refl))) as [l ->]. simpl. f_equal. apply IH; [lia|auto].
  Qed.

  Lemma fold_max_in l : forall k, In (fold_left Z.max l k) (k :: l).
  Proof.
    induction l as [|a r IH]; intro k; simpl; [auto|].
    destruct (IH (Z.max k a)) as [E|Hr].
    - destruct (Z.max_spec k a) as [[_ M]|[_ M]]; rewrite M in *; auto.
    - auto.
  Qed.

  Lemma dict_max_key_in (d : fdict) mk : dict_max_key d = Some mk -> In mk (map fst d).
  Proof.
    destruct d as [|[k0 l0] t]; simpl; [discriminate|]. intro H. inversion H.
    destruct (fold_max_in (map fst t) k0) as [E|Hr]; auto.
  Qed.

  Lemma worker_job_all_or_nothing cfg i : input_ok cfg i -> all_or_nothing content (worker_job cfg i).
  Proof.
    intro Hok. unfold worker_job, all_or_nothing, complete.
    destruct (c_base cfg) as [b|] eqn:Eb; [|left; reflexivity]. destruct i as [[nm|] loop|]; try (left; reflexivity).
    destruct (mol_files cfg nm) as [files|e] eqn:Ef; [|left; reflexivity]. simpl.
    destruct loop as [d|e]; [|left; reflexivity].
    destruct (save_plan files (c_level cfg) (c_all_iters cfg) d) as [ws|e] eqn:Es; [|left; reflexivity].
    simpl in Hok. unfold save_plan in Es. unfold mol_files in Ef. rewrite Eb in Ef.
    destruct (single_level (c_level cfg) (c_all_iters cfg)) eqn:Esl.
    - unfold filenames in Ef. rewrite Esl in Ef. inversion Ef; subst files. destruct (dict_max_key d) as [mk|]; [|discriminate].
      destruct (dict_get d mk); [|discriminate]. inversion Es. right. reflexivity.
    - rewrite (filenames_multi b _ _ nm (c_ext cfg) Esl) in Ef. inversion Ef; subst files. inversion Es.
      destruct Hok as [->|Hkeys].
      + left. clear. generalize (zrange (c_level cfg + 1)) at 2.
        induction (map (fun i : Z => ((b ++ dec i)%string, (nm ++ c_ext cfg)%string)) (zrange (c_level cfg + 1))) as [|f t IH];
          intros [|i r]; simpl; auto.
      + right. unfold level_range in Hkeys. rewrite Esl in Hkeys.
        apply flat_map_plan_complete; [apply map_length|]. intros k Hk. rewrite Hkeys. exact Hk.
  Qed.

  (* ---- distinct molecule names give disjoint output paths -------------------------------------------------------- *)
  Lemma append_inj_r (a b e : string) : (a ++ e)%string = (b ++ e)%string -> a = b.
  Proof.
    intro H. apply (f_equal list_ascii_of_string) in H. rewrite !list_ascii_app in H. apply app_inv_tail in H.
    rewrite <- (string_of_list_ascii_of_string a), <- (string_of_list_ascii_of_string b), H. reflexivity.
  Qed.

  Lemma NoDup_app_intro {A} (a b : list A) : NoDup a -> NoDup b -> (forall x, In x a -> ~ In x b) -> NoDup (a ++ b).
  Proof.
    induction a as [|x a IH]; simpl; intros Ha Hb Hd; [exact Hb|]. inversion Ha; subst. constructor.
    - intro Q. apply in_app_or in Q. destruct Q as [Q|Q]; [contradiction|]. apply (Hd x); auto.
    - apply IH; auto.
  Qed.

  Lemma mol_files_snd cfg nm files p : mol_files cfg nm = Ok files -> In p files -> snd p = (nm ++ c_ext cfg)%string.
  Proof.
    unfold mol_files. destruct (single_level (c_level cfg) (c_all_iters cfg)) eqn:Es.
    - unfold filenames. rewrite Es. intro H. inversion H. intros [<-|[]]. reflexivity.
    - destruct (c_base cfg) as [b|].
      + rewrite (filenames_multi b _ _ nm (c_ext cfg) Es). intro H. inversion H. intro Hin.
        apply in_map_iff in Hin. destruct Hin as (i & <- & _). reflexivity.
      + unfold filenames. rewrite Es. destruct (zrange (c_level cfg + 1)); [intro H; inversion H; intros []|discriminate].
  Qed.

  Definition saved_names (order : list input) : list string :=
    flat_map (fun i => match i with Loads (Some nm) _ => [nm] | _ => [] end) order.

  Lemma worker_job_files cfg i p :
    In p (j_files (worker_job cfg i)) -> exists nm loop files, i = Loads (Some nm) loop /\ mol_files cfg nm = Ok files /\ In p files.
  Proof.
    unfold worker_job. destruct (c_base cfg); [|intros []]. destruct i as [[nm|] loop|]; try (intros []).
    destruct (mol_files cfg nm) as [files|e] eqn:E; [|intros []]. simpl. intro H. exists nm, loop, files. auto.
  Qed.

  Lemma jobs_disjoint cfg order :
    level_ok cfg -> NoDup (saved_names order) -> disjoint content (map (worker_job cfg) order).
  Proof.
    intros Hl. unfold disjoint. induction order as [|i t IH]; simpl; intro Hnd; [constructor|].
    apply NoDup_app_intro.
    - destruct (worker_job_wf cfg i Hl) as [_ _]. unfold worker_job.
      destruct (c_base cfg); [|constructor]. destruct i as [[nm|] loop|]; try constructor.
      destruct (mol_files cfg nm) as [files|e] eqn:E; [|constructor]. simpl. exact (filenames_nodup _ _ _ _ _ _ Hl E).
    - apply IH. eapply NoDup_app_r. exact Hnd.
    - intros p Hp Q. destruct (worker_job_files cfg i p Hp) as (nm & loop & files & -> & Ef & Hin).
      apply in_flat_map in Q. destruct Q as (j & Hj & Hpj). apply in_map_iff in Hj. destruct Hj as (i' & <- & Hi').
      destruct (worker_job_files cfg i' p Hpj) as (nm' & loop' & files' & -> & Ef' & Hin').
      pose proof (mol_files_snd cfg nm files p Ef Hin) as S1. pose proof (mol_files_snd cfg nm' files' p Ef' Hin') as S2.
      rewrite S1 in S2. apply append_inj_r in S2. subst nm'. simpl in Hnd. inversion Hnd as [|? ? Hnot _]; subst.
      apply Hnot. unfold saved_names. apply in_flat_map. exists (Loads (Some nm) loop'). split; [exact Hi'|left; reflexivity].
  Qed.

  (* ---- the collection loop and the database ----------------------------------------------------------------------- *)
  Lemma collect_flat_map level rs : collect level rs = flat_map (rows_of level) rs.
  Proof.
    unfold collect. rewrite <- (app_nil_l (flat_map _ rs)). generalize (@nil fp).
    induction rs as [|r t IH]; intro acc; simpl; [rewrite app_nil_r; reflexivity|].
    rewrite IH, app_assoc. reflexivity.
  Qed.

  Lemma collect_perm level rs rs' : Permutation rs rs' -> Permutation (collect level rs) (collect level rs').
  Proof. intro H. rewrite !collect_flat_map. apply Permutation_flat_map. exact H. Qed.

  (* without an output directory the workers do not touch the file state and do not depend on it *)
  Definition result_of (cfg : config) (i : input) : wresult := fst (worker cfg [] i).

  Lemma worker_nosave cfg fs i : c_base cfg = None -> worker cfg fs i = (result_of cfg i, fs).
  Proof.
    intro H. unfold result_of, worker, mol_step. destruct i as [name loop|]; [|reflexivity]. rewrite H. reflexivity.
  Qed.

  Lemma run_workers_nosave cfg order : forall fs,
    c_base cfg = None -> run_workers cfg fs order = (map (result_of cfg) order, fs).
  Proof.
    induction order as [|i t IH]; intros fs H; simpl; [reflexivity|].
    rewrite (worker_nosave cfg fs i H), (IH fs H). reflexivity.
  Qed.

  Definition db_same_rows (a b : option fpdb) : Prop :=
    match a, b with
    | Some x, Some y => Permutation (db_rows x) (db_rows y) /\ db_level x = db_level y /\
                        (forall K, (forall r, In r (db_rows x) -> fkind r = K) -> db_kind x = K /\ db_kind y = K)
    | None, None => True
    | _, _ => False
    end.

  Lemma assemble_perm level l l' : Permutation l l' -> db_same_rows (assemble level l) (assemble level l').
  Proof.
    intro H. unfold assemble, db_same_rows. destruct l as [|x t], l' as [|y t'].
    - exact I.
    - apply Permutation_nil in H. discriminate.
    - apply Permutation_sym, Permutation_nil in H. discriminate.
    - simpl. split; [exact H|]. split; [reflexivity|]. intros K HK. split; [apply HK; simpl; auto|].
      apply HK. change (In y (x :: t)). eapply Permutation_in; [apply Permutation_sym; exact H|left; reflexivity].
  Qed.

  Lemma db_schedule_independent cfg fs order order' :
    c_base cfg = None -> Permutation order order' ->
    db_same_rows (fst (run cfg fs order true)) (fst (run cfg fs order' true)).
  Proof.
    intros Hb Hp. unfold Batch.run. rewrite !(run_workers_nosave cfg _ fs Hb). simpl.
    apply assemble_perm, collect_perm, Permutation_map. exact Hp.
  Qed.

  (* replacing any of the inputs by unreadable files removes exactly their fingerprints *)
  Definition spoil (ibs : list (input * bool)) : list (input) :=
    map (fun ib : input * bool => if snd ib then Fails else fst ib) ibs.
  Definition survivors (ibs : list (input * bool)) : list (input) :=
    map fst (filter (fun ib : input * bool => negb (snd ib)) ibs).

  Lemma failure_isolated cfg fs ibs :
    c_base cfg = None ->
    fst (run cfg fs (spoil ibs) true) = fst (run cfg fs (survivors ibs) true).
  Proof.
    intro Hb. unfold Batch.run. rewrite !(run_workers_nosave cfg _ fs Hb). simpl. f_equal.
    rewrite !collect_flat_map. unfold spoil, survivors.
    induction ibs as [|[i b] t IH]; simpl; [reflexivity|]. destruct b; simpl.
    - rewrite <- IH. unfold result_of at 1. simpl. reflexivity.
    - rewrite IH. reflexivity.
  Qed.

  (* ---- the batch-level statements: run() on a directory -------------------------------------------------------------- *)
  Notation jobs cfg order := (map (worker_job cfg) order).

  Lemma run_fs cfg fs order db : snd (run cfg fs order db) = run_jobs (c_overwrite cfg) fs (jobs cfg order).
  Proof.
    unfold Batch.run. pose proof (run_workers_fs cfg order fs) as H.
    destruct (run_workers cfg fs order) as [rs fs']. simpl in *. exact H.
  Qed.

  Lemma jobs_wf cfg order : level_ok cfg -> forall j, In j (jobs cfg order) -> wf_job content j.
  Proof. intros Hl j Hj. apply in_map_iff in Hj. destruct Hj as (i & <- & _). apply worker_job_wf. exact Hl. Qed.

  Lemma jobs_aon cfg order :
    (forall i, In i order -> input_ok cfg i) -> forall j, In j (jobs cfg order) -> all_or_nothing content j.
  Proof. intros Hok j Hj. apply in_map_iff in Hj. destruct Hj as (i & <- & Hi). apply worker_job_all_or_nothing. auto. Qed.

  Lemma batch_files_schedule_independent cfg fs order order' db db' p :
    level_ok cfg -> NoDup (saved_names order) -> Permutation order order' ->
    fs_lookup (snd (run cfg fs order' db')) p = fs_lookup (snd (run cfg fs order db)) p.
  Proof.
    intros Hl Hnd Hp. rewrite !run_fs.
    apply files_schedule_independent; [apply jobs_disjoint; assumption|apply jobs_wf; exact Hl|apply Permutation_map; exact Hp].
  Qed.

  (* no-overwrite run: every file that exists keeps its content and is not written (no premise on the inputs at all) *)
  Lemma batch_resume_preserves cfg fs order db p :
    c_overwrite cfg = false -> fs_isfile fs p = true ->
    fs_lookup (snd (run cfg fs order db)) p = fs_lookup fs p /\ ~ In p (run_log false fs (jobs cfg order)).
  Proof. intros Ho Hp. rewrite run_fs, Ho. apply resume_preserves. exact Hp. Qed.

  Lemma batch_resume_completes cfg fs order db i :
    level_ok cfg -> NoDup (saved_names order) -> In i order -> complete content (worker_job cfg i) ->
    all_exist content (snd (run cfg fs order db)) (worker_job cfg i).
  Proof.
    intros Hl Hnd Hi Hc. rewrite run_fs.
    apply resume_completes; [apply jobs_disjoint; assumption|apply jobs_wf; exact Hl|apply in_map; exact Hi|exact Hc].
  Qed.

  Lemma batch_overwrite_regenerates cfg fs order db i p c :
    c_overwrite cfg = true -> level_ok cfg -> NoDup (saved_names order) -> In i order ->
    In (p, c) (j_plan (worker_job cfg i)) ->
    fs_lookup (snd (run cfg fs order db)) p = Some c /\ In p (run_log true fs (jobs cfg order)).
  Proof.
    intros Ho Hl Hnd Hi Hpc. rewrite run_fs, Ho.
    apply (overwrite_regenerates content fs _ (worker_job cfg i) p c (jobs_disjoint cfg order Hl Hnd) (jobs_wf cfg order Hl));
      [apply in_map; exact Hi|exact Hpc].
  Qed.

  Lemma batch_crash_then_resume cfg fs order order' ks db db' p :
    c_overwrite cfg = false -> level_ok cfg -> NoDup (saved_names order) ->
    length ks = length order -> Permutation order order' ->
    fs_lookup (snd (run cfg (run_partial false fs (combine (jobs cfg order) ks)) order' db')) p
    = fs_lookup (snd (run cfg fs order db)) p.
  Proof.
    intros Ho Hl Hnd Hlen Hp. rewrite !run_fs, Ho.
    pose proof (crash_then_resume content fs (combine (jobs cfg order) ks) (jobs cfg order') p) as Q. cbv zeta in Q.
    rewrite (jobs_of_combine content (jobs cfg order) ks) in Q by (rewrite map_length; exact Hlen).
    apply Q; [apply jobs_disjoint; assumption|apply jobs_wf; exact Hl|apply Permutation_map; exact Hp].
  Qed.

  Lemma batch_crash_then_resume_serial cfg fs order order' k db db' p :
    c_overwrite cfg = false -> level_ok cfg -> NoDup (saved_names order) -> Permutation order order' ->
    fs_lookup (snd (run cfg (run_interrupted false fs (jobs cfg order) k) order' db')) p
    = fs_lookup (snd (run cfg fs order db)) p.
  Proof.
    intros Ho Hl Hnd Hp. rewrite !run_fs, Ho.
    apply crash_then_resume_serial; [apply jobs_disjoint; assumption|apply jobs_wf; exact Hl|apply Permutation_map; exact Hp].
  Qed.

  (* with both a database and an output directory, a molecule that is skipped contributes nothing to the database *)
  Lemma skipped_not_in_db cfg fs nm loop files :
    c_base cfg <> None -> mol_files cfg nm = Ok files -> forallb (fs_isfile fs) files = true -> c_overwrite cfg = false ->
    rows_of (c_level cfg) (fst (worker cfg fs (Loads (Some nm) loop))) = [].
  Proof.
    intros Hb Hf Hex Ho. unfold worker, mol_step. destruct (c_base cfg); [|congruence]. rewrite Hf, Hex, Ho. reflexivity.
  Qed.

  (* ---- database together with an output directory: equal to the database-only result unless the run is a resumed one -- *)
  Definition nosave (cfg : config) : config := mkcfg (c_level cfg) (c_all_iters cfg) None (c_ext cfg) (c_overwrite cfg).
  Definition named_input (i : input) : Prop := match i with Loads None _ => False | _ => True end.
  (* no molecule is skipped because all its files exist (a fresh output directory, or overwrite) *)
  Definition not_resumed (cfg : config) (fs : fsmap content) (i : input) : Prop :=
    j_files (worker_job cfg i) = [] \/ job_skips (c_overwrite cfg) fs (worker_job cfg i) = false.

  Lemma worker_rows_fresh cfg fs i :
    level_ok cfg -> c_base cfg <> None -> named_input i -> not_resumed cfg fs i ->
    rows_of (c_level cfg) (fst (worker cfg fs i)) = rows_of (c_level cfg) (result_of (nosave cfg) i).
  Proof.
    intros Hl Hb Hn Hr. unfold result_of, worker. destruct i as [[nm|] loop|]; [|destruct Hn|reflexivity].
    unfold mol_step, not_resumed, worker_job, job_skips in *. simpl c_base. simpl c_level.
    destruct (c_base cfg) as [b|] eqn:Eb; [|congruence].
    unfold mol_files in *. rewrite Eb in *.
    destruct (filenames (Some b) (c_level cfg) (c_all_iters cfg) nm (c_ext cfg)) as [files|e] eqn:Ef.
    - simpl in Hr.
      assert (Hskip : forallb (fs_isfile fs) files && negb (c_overwrite cfg) = false).
      { destruct Hr as [Hnil|Hs]; [|exact Hs]. exfalso. subst files. unfold filenames in Ef.
        destruct (single_level (c_level cfg) (c_all_iters cfg)) eqn:Es; [discriminate Ef|].
        destruct Hl as [Hl|Hl]; [|unfold level_ok in Hl; congruence].
        assert (Q : In 0 (zrange (c_level cfg + 1))) by (apply zrange_in; lia).
        destruct (zrange (c_level cfg + 1)) eqn:Er; [destruct Q|discriminate Ef]. }
      rewrite Hskip. destruct loop as [d|e]; [|reflexivity]. simpl.
      destruct (save_plan files (c_level cfg) (c_all_iters cfg) d) as [ws|e] eqn:Es; [reflexivity|].
      simpl. unfold Batch.save_plan in Es. destruct (single_level (c_level cfg) (c_all_iters cfg)) eqn:Esl; [|discriminate].
      destruct (dict_max_key d) as [mk|] eqn:Em; [|reflexivity].
      exfalso. destruct files as [|f0 rest].
      + unfold filenames in Ef. rewrite Esl in Ef. discriminate Ef.
      + destruct (dict_get_key d mk (dict_max_key_in d mk Em)) as [l El]. rewrite El in Es. discriminate Es.
    - unfold filenames in Ef. destruct (single_level (c_level cfg) (c_all_iters cfg)); [discriminate Ef|].
      destruct (zrange (c_level cfg + 1)); discriminate Ef.
  Qed.

  Lemma run_workers_rows_fresh cfg order : forall fs,
    level_ok cfg -> NoDup (saved_names order) -> c_base cfg <> None ->
    (forall i, In i order -> named_input i) -> (forall i, In i order -> not_resumed cfg fs i) ->
    flat_map (rows_of (c_level cfg)) (fst (run_workers cfg fs order))
    = flat_map (rows_of (c_level cfg)) (map (result_of (nosave cfg)) order).
  Proof.
    induction order as [|i0 t IH]; intros fs Hl Hnd Hb Hn Hr; simpl; [reflexivity|].
    pose proof (worker_rows_fresh cfg fs i0 Hl Hb (Hn i0 (or_introl eq_refl)) (Hr i0 (or_introl eq_refl))) as W.
    pose proof (worker_is_job cfg fs i0) as J.
    destruct (worker cfg fs i0) as [r fs1]. simpl in W, J.
    assert (Hr1 : forall i, In i t -> not_resumed cfg fs1 i).
    { intros i Hi. destruct (Hr i (or_intror Hi)) as [Hnil|Hs]; [left; exact Hnil|right].
      rewrite <- Hs. apply skip_agree. intros p Hp. rewrite J, run_job_partial.
      apply frame_partial; [apply worker_job_wf; exact Hl|].
      pose proof (jobs_disjoint cfg (i0 :: t) Hl Hnd) as Hd. unfold disjoint in Hd. simpl in Hd.
      intro Q. apply (NoDup_app_disjoint _ _ p Hd Q). apply in_flat_map. exists (worker_job cfg i). split; [apply in_map; exact Hi|exact Hp]. }
    assert (Hnd1 : NoDup (saved_names t)) by (unfold saved_names in *; simpl in Hnd; eapply NoDup_app_r; exact Hnd).
    specialize (IH fs1 Hl Hnd1 Hb (fun i Hi => Hn i (or_intror Hi)) Hr1).
    destruct (run_workers cfg fs1 t) as [rs fs2]. simpl in *. rewrite W, IH. reflexivity.
  Qed.

  Lemma db_with_files_partial cfg fs order :
    level_ok cfg -> NoDup (saved_names order) -> c_base cfg <> None ->
    (forall i, In i order -> named_input i) -> (forall i, In i order -> not_resumed cfg fs i) ->
    fst (run cfg fs order true) = fst (run (nosave cfg) fs order true).
  Proof.
    intros Hl Hnd Hb Hn Hr. unfold Batch.run.
    pose proof (run_workers_rows_fresh cfg order fs Hl Hnd Hb Hn Hr) as Q.
    rewrite (run_workers_nosave (nosave cfg) order fs eq_refl).
    destruct (run_workers cfg fs order) as [rs fs']. simpl in *. rewrite !collect_flat_map, Q. reflexivity.
  Qed.

  (* ---- generate_conformers(save=True) is the same machine with one file ------------------------------------------ *)
  Lemma cg_is_job ow fs out_file gen :
    snd (cg_step content ow fs out_file gen) = run_job ow fs (cg_job content out_file gen).
  Proof.
    unfold cg_step, run_job, job_writes, job_skips, cg_job. cbn [j_files j_plan forallb].
    rewrite andb_true_r. destruct (fs_isfile fs out_file && negb ow) eqn:E; [reflexivity|].
    destruct gen as [c|]; [|reflexivity]. cbn [filter]. unfold fs_keep. cbn [fst]. rewrite E. reflexivity.
  Qed.

  Lemma cg_job_wf out_file gen : wf_job content (cg_job content out_file gen) /\ all_or_nothing content (cg_job content out_file gen).
  Proof.
    unfold wf_job, all_or_nothing, complete, cg_job. destruct gen; simpl.
    - split; [split; [intros x H; exact H|constructor; [intros []|constructor]]|right; reflexivity].
    - split; [split; [intros x []|constructor]|left; reflexivity].
  Qed.

  Lemma cg_refuses ow fs out_file gen : fs_isfile fs out_file = true -> ow = false -> cg_step content ow fs out_file gen = (false, fs).
  Proof. intros H ->. unfold cg_step. rewrite H. reflexivity. Qed.
End Run.

(* ---- what does NOT hold: witnesses ---------------------------------------------------------------------------------- *)
Definition pa : path := ("out0"%string, "m.fp.bz2"%string).
Definition pb : path := ("out1"%string, "m.fp.bz2"%string).
Definition two_level_job : job Z := mkjob [pa; pb] [(pa, 1); (pb, 2)].

(* all_iters, level 1: the level-1 file exists (with some other content), the level-0 file is missing.  The all-files-
   exist test fails, the molecule is recomputed, and since repair e0cef96 only the missing file is written: the existing
   one keeps its content and is not in the write log.  (Before the repair both files were written.) *)
Lemma partial_molecule_existing_file_untouched :
  let fs := [(pb, 99)] in
  fs_lookup (run_job false fs two_level_job) pb = Some 99 /\ fs_lookup (run_job false fs two_level_job) pa = Some 1 /\
  job_log false fs two_level_job = [pa].
Proof. repeat split; reflexivity. Qed.

(* a stale level-1 file and a crash right after the level-0 file was written: the stale file survives the re-run - exactly
   as it survives an uninterrupted no-overwrite run, so no hypothesis on the content of existing files is needed *)
Lemma crash_with_stale_file_kept :
  let fs := [(pb, 99)] in
  fs_lookup (run_jobs false (run_partial false fs [(two_level_job, 1%nat)]) [two_level_job]) pb = Some 99 /\
  fs_lookup (run_jobs false fs [two_level_job]) pb = Some 99.
Proof. split; reflexivity. Qed.

(* without `disjoint` (two inputs with the same molecule name): the directory depends on the completion order *)
Lemma shared_path_schedule_dependent :
  let j1 : job Z := mkjob [pa] [(pa, 1)] in
  let j2 : job Z := mkjob [pa] [(pa, 2)] in
  fs_lookup (run_jobs true [] [j1; j2]) pa = Some 2 /\ fs_lookup (run_jobs true [] [j2; j1]) pa = Some 1 /\
  fs_lookup (run_jobs false [] [j1; j2]) pa = Some 1 /\ fs_lookup (run_jobs false [] [j2; j1]) pa = Some 2.
Proof. repeat split; reflexivity. Qed.

(* run() with both a database and an output directory, resumed: only the recomputed molecule reaches the database *)
Lemma resumed_db_incomplete :
  let x := mkfp KBit 8 (Some 2) [1] [] (Some "a_0"%string) in
  let y := mkfp KBit 8 (Some 2) [2] [] (Some "b_0"%string) in
  let cfg := mkcfg 2 false (Some "o"%string) ".fp" false in
  let inputs := [Loads (Some "a"%string) (Ok [(2, [x])]); Loads (Some "b"%string) (Ok [(2, [y])])] in
  let fresh := run Z (fun l => Z.of_nat (length l)) cfg [] inputs true in
  let resumed := run Z (fun l => Z.of_nat (length l)) cfg [(("o2"%string, "a.fp"%string), 1)] inputs true in
  option_map db_rows (fst fresh) = Some [x; y] /\ option_map db_rows (fst resumed) = Some [y].
Proof. split; reflexivity. Qed.
