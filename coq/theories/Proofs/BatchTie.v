(* The worker of Model/Batch.v (M7) is fprints_dict_from_mol of Model/Pipeline.v (M6) with the conformer loop abstracted. *)
From E3FP Require Import Base.Prelude Model.Fprint Model.Pipeline Model.Batch.
From E3FP Require Import Proofs.PipelineNames Proofs.Pipeline Proofs.PipelineFs Proofs.PipelineSpec Proofs.Batch Proofs.BatchRun.
Open Scope Z_scope.

Section Tie.
  Variable conformer : Type.
  Variable opts : Type.
  Variable fprint : opts -> Z -> conformer -> Z -> Z -> result fp.
  Variable fp_init : opts -> Z -> Z -> result unit.
  Variable content : Type.
  Variable pickle : list fp -> content.

  Lemma combine_fst_incl {A B} (l : list A) (r : list B) x : In x (map fst (combine l r)) -> In x l.
  Proof.
    revert r. induction l as [|a t IH]; intros [|b r]; simpl; try tauto. intros [H|H]; [auto|right; eapply IH; eauto].
  Qed.

  Lemma combine_fst_nodup {A B} (l : list A) (r : list B) : NoDup l -> NoDup (map fst (combine l r)).
  Proof.
    revert r. induction l as [|a t IH]; intros [|b r] H; simpl; try constructor.
    - inversion H; subst. intro Q. apply H2. eapply combine_fst_incl; eauto.
    - inversion H; subst. auto.
  Qed.

  (* the save block of M6 (exists test on the running state) performs the writes M7 attributes to the worker *)
  Lemma save_dict_plan fs files level ai ow d :
    NoDup files ->
    save_dict content pickle fs files level ai ow d
    = match save_plan content pickle files level ai d with
      | Ok ws => Ok (fs_writes fs (if single_level level ai then ws else filter (fs_keep ow fs) ws))
      | Raises e => Raises e
      end.
  Proof.
    intro Hnd. unfold save_dict, save_plan. destruct (single_level level ai).
    - destruct (dict_max_key d) as [mk|]; [|reflexivity]. destruct files as [|f0 rest]; [reflexivity|].
      destruct (dict_get d mk); reflexivity.
    - f_equal. rewrite (fold_save_filter content pickle d ow) by (apply combine_fst_nodup; exact Hnd). reflexivity.
  Qed.

  (* the abstraction of a molecule and its arguments as a batch input *)
  Definition loop_of (m : mol conformer) (a : fargs opts) : result fdict :=
    match mconfs m with
    | [] => Raises EOther
    | confs =>
      match conf_loop conformer opts fprint (a_opts a) (normal_bits (a_bits a)) (normal_level (a_level a)) (a_all_iters a)
                      (effective_name conformer m) (a_first a) 0 confs [] with
      | Ok (d, _) => Ok d
      | Raises e => Raises e
      end
    end.

  Definition cfg_of (a : fargs opts) : config :=
    mkcfg (normal_level (a_level a)) (a_all_iters a) (if a_save a then a_out_dir_base a else None) (a_out_ext a) (a_overwrite a).

  Lemma worker_is_dict_from_mol fs (m : mol conformer) (a : fargs opts) :
    fp_init (a_opts a) (normal_bits (a_bits a)) (normal_level (a_level a)) = Ok tt ->
    (a_save a = true -> a_out_dir_base a <> None) ->
    level_ok (cfg_of a) ->
    let out := fprints_dict_from_mol conformer opts fprint fp_init content pickle fs m a in
    let r := mol_step content pickle (cfg_of a) fs (effective_name conformer m) (loop_of m a) in
    o_fs out = snd r /\
    match fst r with
    | WDict d => o_val out = Ok d
    | WFalse => exists e, o_val out = Raises e
    end.
  Proof.
    intros Hi Hb Hlv. cbv zeta. unfold fprints_dict_from_mol, mol_step, cfg_of, loop_of, mol_files.
    cbn [c_base c_level c_all_iters c_ext c_overwrite].
    rewrite Hi. destruct (a_save a) eqn:Es.
    - destruct (a_out_dir_base a) as [b|] eqn:Eb; [|exfalso; apply Hb; reflexivity].
      destruct (effective_name conformer m) as [nm|]; [|simpl; split; [reflexivity|eauto]].
      destruct (filenames (Some b) (normal_level (a_level a)) (a_all_iters a) nm (a_out_ext a)) as [files|e] eqn:Ef; [|simpl; eauto].
      assert (Hnd : NoDup files) by (exact (filenames_nodup _ _ _ _ _ _ Hlv Ef)).
      destruct (forallb (fs_isfile fs) files && negb (a_overwrite a)); [simpl; auto|].
      destruct (mconfs m) as [|c0 t]; [simpl; auto|].
      match goal with |- context [conf_loop ?A ?B ?C ?D ?E ?F ?G ?H ?I ?J ?K ?L] =>
        destruct (conf_loop A B C D E F G H I J K L) as [[d j]|e] end; [|simpl; auto].
      rewrite (save_dict_plan _ _ _ _ _ _ Hnd).
      destruct (save_plan content pickle files (normal_level (a_level a)) (a_all_iters a) d); simpl; eauto.
    - destruct (mconfs m) as [|c0 t]; [simpl; auto|].
      match goal with |- context [conf_loop ?A ?B ?C ?D ?E ?F ?G ?H ?I ?J ?K ?L] =>
        destruct (conf_loop A B C D E F G H I J K L) as [[d j]|e] end; simpl; auto.
  Qed.
  (* ---- the keys of the dict the loop builds: none, or exactly the level range (hypothesis input_ok of C15) -------- *)
  Lemma dict_append_keys_in d : forall k x, In k (map fst d) -> map fst (dict_append d k x) = map fst d.
  Proof.
    induction d as [|[k' l] t IH]; intros k x H; simpl in *; [tauto|].
    destruct (k =? k') eqn:E; simpl; [reflexivity|]. f_equal. apply IH. destruct H as [H|H]; [apply Z.eqb_neq in E; congruence|exact H].
  Qed.

  Lemma dict_append_keys_new d : forall k x, ~ In k (map fst d) -> map fst (dict_append d k x) = map fst d ++ [k].
  Proof.
    induction d as [|[k' l] t IH]; intros k x H; simpl in *; [reflexivity|].
    destruct (k =? k') eqn:E; [apply Z.eqb_eq in E; subst; tauto|]. simpl. f_equal. apply IH. tauto.
  Qed.

  Lemma level_steps_keys_same o bits level name j c levels : forall d d',
    level_steps conformer opts fprint o bits level name j c levels d = Ok d' ->
    (forall k, In k levels -> In k (map fst d)) -> map fst d' = map fst d.
  Proof.
    induction levels as [|i rest IH]; intros d d' H Hin; simpl in H; [inversion H; reflexivity|].
    destruct (fprint o bits c level i) as [x|e]; simpl in H; [|discriminate].
    destruct (match name with Some s => rbind (conf_name_of s j) (fun n => Ok (with_name x (Some n))) | None => Ok x end) as [x'|e];
      simpl in H; [|discriminate].
    rewrite (IH _ _ H).
    - apply dict_append_keys_in. apply Hin. left. reflexivity.
    - intros k Hk. rewrite dict_append_keys_in by (apply Hin; left; reflexivity). apply Hin. right. exact Hk.
  Qed.

  Lemma level_steps_keys_new o bits level name j c levels : forall d d',
    level_steps conformer opts fprint o bits level name j c levels d = Ok d' ->
    NoDup (map fst d ++ levels) -> map fst d' = map fst d ++ levels.
  Proof.
    induction levels as [|i rest IH]; intros d d' H Hnd; simpl in H; [inversion H; rewrite app_nil_r; reflexivity|].
    destruct (fprint o bits c level i) as [x|e]; simpl in H; [|discriminate].
    destruct (match name with Some s => rbind (conf_name_of s j) (fun n => Ok (with_name x (Some n))) | None => Ok x end) as [x'|e];
      simpl in H; [|discriminate].
    assert (Hi : ~ In i (map fst d)).
    { apply NoDup_remove_2 in Hnd. intro Q. apply Hnd. apply in_or_app. auto. }
    rewrite (IH _ _ H); rewrite (dict_append_keys_new d i x' Hi), <- app_assoc; [reflexivity|exact Hnd].
  Qed.

  Lemma conf_loop_keys o bits level ai name first confs : forall j d d' j',
    conf_loop conformer opts fprint o bits level ai name first j confs d = Ok (d', j') ->
    map fst d = [] \/ map fst d = level_range level ai ->
    map fst d' = [] \/ map fst d' = level_range level ai.
  Proof.
    induction confs as [|c t IH]; intros j d d' j' H Hk; simpl in H; [inversion H; subst; exact Hk|].
    destruct (j =? first); [inversion H; subst; exact Hk|].
    destruct (level_steps conformer opts fprint o bits level name j c (level_range level ai) d) as [d1|e] eqn:E; simpl in H; [|discriminate].
    apply (IH _ _ _ _ H). right. destruct Hk as [Hk|Hk].
    - rewrite (level_steps_keys_new _ _ _ _ _ _ _ _ _ E); rewrite Hk; [reflexivity|apply level_range_nodup].
    - rewrite (level_steps_keys_same _ _ _ _ _ _ _ _ _ E); [exact Hk|]. intros k Hin. rewrite Hk. exact Hin.
  Qed.

  Lemma loop_of_input_ok (m : mol conformer) (a : fargs opts) :
    input_ok (cfg_of a) (Loads (effective_name conformer m) (loop_of m a)).
  Proof.
    unfold input_ok, loop_of. destruct (mconfs m) as [|c0 t]; [exact I|].
    match goal with |- context [conf_loop ?A1 ?A2 ?A3 ?A4 ?A5 ?A6 ?A7 ?A8 ?A9 ?A10 ?A11 ?A12] =>
      destruct (conf_loop A1 A2 A3 A4 A5 A6 A7 A8 A9 A10 A11 A12) as [[d j]|e] eqn:Eloop end; [|exact I].
    destruct (conf_loop_keys _ _ _ _ _ _ _ _ _ _ _ Eloop (or_introl eq_refl)) as [Hk|Hk].
    - left. destruct d; [reflexivity|discriminate].
    - right. exact Hk.
  Qed.
End Tie.
