(* Lemmas about the option codec of Model/Config.v: decimal printing and re-reading, the literal classifier on
   the strings str() produces, one "key = value" line. *)
From Coq Require Import Ascii NArith ZArith List Bool Lia ZifyBool.
From E3FP Require Import Base.Prelude Model.Config.
Open Scope Z_scope.

(* ------------------------------------------------------------------------------------------------ characters *)
Lemma cn_bound : forall c, 0 <= cn c < 256.
Proof. intro c. unfold cn. pose proof (N_ascii_bounded c). lia. Qed.

Lemma cn_chr : forall n, 0 <= n < 256 -> cn (chr n) = n.
Proof. intros n H. unfold cn, chr. rewrite N_ascii_embedding by lia. lia. Qed.

Lemma cn_inj : forall a b, cn a = cn b -> a = b.
Proof.
  intros a b H. unfold cn in H. apply N2Z.inj in H.
  rewrite <- (ascii_N_embedding a), <- (ascii_N_embedding b). now rewrite H.
Qed.

Ltac chars := unfold is_plain_char, is_ident_char, is_ident_start, is_alpha, is_upper, is_lower, is_digit, is_space,
  is_modelled, is_blank, is_delim, is_quote, is_e, is_j, never_starts_literal, in_range, ch in *.

Lemma digit_char_cn : forall d, 0 <= d < 10 -> cn (digit_char d) = 48 + d.
Proof. intros. unfold digit_char. apply cn_chr. lia. Qed.

Lemma digit_char_digit : forall d, 0 <= d < 10 -> is_digit (digit_char d) = true.
Proof. intros d H. chars. rewrite digit_char_cn by lia. lia. Qed.

Lemma digit_char_val : forall d, 0 <= d < 10 -> digit_val (digit_char d) = d.
Proof. intros. unfold digit_val. rewrite digit_char_cn by lia. lia. Qed.

(* ------------------------------------------------------------------------------------------------ strings *)
Lemma app_nil_r_s : forall s, (s ++ "")%string = s.
Proof. induction s; simpl; congruence. Qed.

Lemma app_assoc_s : forall a b c, ((a ++ b) ++ c)%string = (a ++ (b ++ c))%string.
Proof. induction a; simpl; intros; congruence. Qed.

Lemma sall_app : forall p a b, sall p (a ++ b)%string = sall p a && sall p b.
Proof. induction a; simpl; intros; auto. rewrite IHa. now rewrite andb_assoc. Qed.

Lemma sall_impl : forall (p q : ascii -> bool) s, (forall c, p c = true -> q c = true) -> sall p s = true -> sall q s = true.
Proof.
  induction s; simpl; intros Hpq H; auto. apply andb_true_iff in H. destruct H as [H1 H2].
  rewrite (Hpq _ H1). simpl. auto.
Qed.

Lemma slen_app : forall a b, slen (a ++ b)%string = slen a + slen b.
Proof.
  intros. unfold slen. induction a; cbn [append String.length]; lia.
Qed.

Lemma slen_nonneg : forall s, 0 <= slen s.
Proof. intro. unfold slen. lia. Qed.

Lemma digits_val_app : forall a b acc, digits_val (a ++ b)%string acc = digits_val b (digits_val a acc).
Proof. induction a; simpl; intros; auto. Qed.

Lemma shead_app : forall p a b, sempty a = false -> shead p (a ++ b)%string = shead p a.
Proof. intros p [|c a] b H; simpl in *; congruence. Qed.

Lemma sempty_app : forall a b, sempty a = false -> sempty (a ++ b)%string = false.
Proof. intros [|c a] b H; simpl in *; congruence. Qed.

(* ------------------------------------------------------------------------------------------------ decimal *)
Lemma dec_fuel_ok : forall fuel n acc, 0 <= n -> n < 2 ^ Z.of_nat fuel -> fuel <> O ->
  exists ds, dec_fuel fuel n acc = (ds ++ acc)%string /\ digits_ok ds = true /\
             (forall a, digits_val ds a = a * 10 ^ slen ds + n) /\
             (0 < n -> shead (ch 48) ds = false).
Proof.
  induction fuel as [|f IH]; intros n acc Hn Hlt Hf; [congruence|].
  cbn [dec_fuel]. destruct (n <? 10) eqn:E.
  - exists (String (digit_char (n mod 10)) EmptyString). assert (n mod 10 = n) by (apply Z.mod_small; lia).
    rewrite H. repeat split.
    + unfold digits_ok. simpl. rewrite digit_char_digit by lia. reflexivity.
    + intro a. simpl. rewrite digit_char_val by lia. unfold slen. simpl. lia.
    + intro Hp. simpl. unfold ch. rewrite digit_char_cn by lia. clear - Hp. lia.
  - assert (Hf0 : f <> O).
    { intro; subst f. simpl in Hlt. lia. }
    assert (Hq : 0 <= n / 10) by (apply Z.div_pos; lia).
    assert (Hq2 : n / 10 < 2 ^ Z.of_nat f).
    { rewrite Nat2Z.inj_succ, Z.pow_succ_r in Hlt by lia.
      apply Z.div_lt_upper_bound; lia. }
    destruct (IH (n / 10) (String (digit_char (n mod 10)) acc) Hq Hq2 Hf0) as [ds [E1 [E2 [E3 E4]]]].
    exists (ds ++ String (digit_char (n mod 10)) EmptyString)%string.
    assert (Hm : 0 <= n mod 10 < 10) by (apply Z.mod_pos_bound; lia).
    unfold digits_ok in *. apply andb_true_iff in E2. destruct E2 as [E2a E2b].
    repeat split.
    + rewrite E1, app_assoc_s. reflexivity.
    + rewrite sall_app, E2b. simpl. rewrite digit_char_digit by lia.
      rewrite sempty_app; [reflexivity|]. destruct (sempty ds); simpl in *; congruence.
    + intro a. rewrite digits_val_app, E3. simpl. rewrite digit_char_val by lia.
      rewrite slen_app. unfold slen at 2. simpl String.length.
      replace (Z.of_nat 1) with 1 by reflexivity.
      rewrite Z.pow_add_r by (try apply slen_nonneg; lia).
      rewrite Z.pow_1_r. pose proof (Z.div_mod n 10 ltac:(lia)) as Hdm.
      set (q := n / 10) in *. set (r := n mod 10) in *. unfold slen. rewrite Hdm. ring.
    + intro Hp. rewrite shead_app.
      * apply E4. apply Z.div_str_pos. lia.
      * destruct (sempty ds); simpl in *; congruence.
Qed.

Lemma dec_nat_ok : forall n, 0 <= n ->
  digits_ok (dec_nat n) = true /\ digits_val (dec_nat n) 0 = n /\ (0 < n -> shead (ch 48) (dec_nat n) = false).
Proof.
  intros n Hn. unfold dec_nat.
  assert (Hlt : n < 2 ^ Z.of_nat (S (Z.to_nat (Z.log2 n)))).
  { rewrite Nat2Z.inj_succ, Z2Nat.id by apply Z.log2_nonneg.
    destruct (Z.eq_dec n 0) as [->|Hz]; [reflexivity|]. apply Z.log2_spec. lia. }
  destruct (dec_fuel_ok _ n EmptyString Hn Hlt ltac:(congruence)) as [ds [E1 [E2 [E3 E4]]]].
  rewrite E1, app_nil_r_s. repeat split; auto. rewrite E3. lia.
Qed.

(* ------------------------------------------------------------------------------------------------ digit parts *)
Definition stops (r : string) : bool :=
  match r with EmptyString => true | String c _ => negb (is_digit c) && negb (ch 95 c) end.

Lemma dp_tail_app : forall ds r, sall is_digit ds = true -> stops r = true ->
  dp_tail is_digit (ds ++ r)%string = (ds, r).
Proof.
  induction ds as [|c ds IH]; intros r Hd Hs.
  - simpl. destruct r as [|c r]; [reflexivity|]. simpl in Hs. apply andb_true_iff in Hs. destruct Hs as [H1 H2].
    cbn [dp_tail]. destruct (is_digit c); [discriminate|]. destruct (ch 95 c); [discriminate|]. reflexivity.
  - simpl in Hd. apply andb_true_iff in Hd. destruct Hd as [H1 H2].
    simpl. rewrite H1, (IH r H2 Hs). reflexivity.
Qed.

Lemma scan_dp_app : forall ds r, digits_ok ds = true -> stops r = true ->
  scan_dp is_digit (ds ++ r)%string = Some (ds, r).
Proof.
  intros [|c ds] r Hd Hs; unfold digits_ok in Hd; simpl in Hd; [discriminate|].
  apply andb_true_iff in Hd. destruct Hd as [H1 H2].
  simpl. rewrite H1, (dp_tail_app ds r H2 Hs). reflexivity.
Qed.

Lemma scan_dp_opt_app : forall ds r, digits_ok ds = true -> stops r = true -> scan_dp_opt (ds ++ r)%string = (ds, r).
Proof. intros. unfold scan_dp_opt. now rewrite scan_dp_app. Qed.

Lemma scan_dp_all : forall ds, digits_ok ds = true -> scan_dp is_digit ds = Some (ds, EmptyString).
Proof. intros. rewrite <- (app_nil_r_s ds) at 1. now apply scan_dp_app. Qed.

(* [number] takes the decimal branch unless the second character announces a radix *)
Definition no_radix (s : string) : bool :=
  match s with
  | String _ (String x _) => negb (ch 120 x || ch 88 x || ch 111 x || ch 79 x || ch 98 x || ch 66 x)
  | _ => true
  end.

Lemma number_decimal : forall s, no_radix s = true -> number s = decimal_number s.
Proof.
  intros [|c0 [|x t]] H; try reflexivity. simpl in H. unfold number.
  destruct (ch 48 c0); [|reflexivity].
  destruct (ch 120 x), (ch 88 x), (ch 111 x), (ch 79 x), (ch 98 x), (ch 66 x); simpl in *; try discriminate; reflexivity.
Qed.

Lemma digits_no_radix : forall ds r, digits_ok ds = true -> (forall c r', r = String c r' -> ch 46 c = true \/ is_e c = true) ->
  no_radix (ds ++ r)%string = true.
Proof.
  intros [|c0 ds] r Hd Hr; unfold digits_ok in Hd; simpl in Hd; [discriminate|].
  apply andb_true_iff in Hd. destruct Hd as [_ Hd].
  destruct ds as [|x ds]; simpl.
  - destruct r as [|x r']; [reflexivity|]. destruct (Hr x r' eq_refl) as [H|H]; chars; lia.
  - simpl in Hd. apply andb_true_iff in Hd. destruct Hd as [Hx _]. chars. lia.
Qed.

Lemma number_digits : forall ds, digits_ok ds = true -> number ds = NDigits ds.
Proof.
  intros ds Hd. rewrite number_decimal.
  - unfold decimal_number. rewrite <- (app_nil_r_s ds) at 1. rewrite scan_dp_opt_app by auto.
    unfold digits_ok in Hd. destruct (sempty ds); simpl in *; [discriminate|reflexivity].
  - rewrite <- (app_nil_r_s ds). apply digits_no_radix; auto. intros; discriminate.
Qed.

Lemma zeros_val : forall ds acc, sall (ch 48) ds = true -> digits_val ds acc = acc * 10 ^ slen ds.
Proof.
  induction ds as [|c ds IH]; intros acc H.
  - unfold slen; simpl. lia.
  - simpl in H. apply andb_true_iff in H. destruct H as [H1 H2]. simpl digits_val. rewrite IH by auto.
    unfold digit_val. unfold ch in H1. assert (cn c = 48) by lia. rewrite H.
    unfold slen. simpl String.length. rewrite Nat2Z.inj_succ, Z.pow_succ_r by lia. lia.
Qed.

Lemma int_literal_dec : forall n, 0 <= n -> n < int_limit -> int_literal (dec_nat n) = Some n.
Proof.
  intros n Hn Hl. destruct (dec_nat_ok n Hn) as [H1 [H2 H3]]. unfold int_literal.
  destruct (sall (ch 48) (dec_nat n)) eqn:Ez.
  - rewrite zeros_val in H2 by auto. f_equal. lia.
  - assert (0 < n).
    { destruct (Z.eq_dec n 0) as [->|]; [|lia]. vm_compute in Ez. discriminate. }
    rewrite H3 by auto. rewrite H2. destruct (n <? int_limit) eqn:E; [reflexivity|lia].
Qed.

Lemma digits_modelled : forall ds, sall is_digit ds = true -> sall is_modelled ds = true.
Proof. intros. eapply sall_impl; [|eassumption]. intros c Hc. chars. lia. Qed.

Lemma classify_nat : forall n, 0 <= n -> n < int_limit -> classify (dec_nat n) = CInt n.
Proof.
  intros n Hn Hl. destruct (dec_nat_ok n Hn) as [H1 [H2 H3]].
  pose proof H1 as Hd. unfold digits_ok in Hd. apply andb_true_iff in Hd. destruct Hd as [Hne Hall].
  pose proof (number_digits _ H1) as Hnum. pose proof (int_literal_dec n Hn Hl) as Hil.
  unfold classify. rewrite (digits_modelled _ Hall). simpl negb. cbv iota.
  destruct (dec_nat n) as [|c t]; [discriminate|].
  simpl in Hall. apply andb_true_iff in Hall. destruct Hall as [Hc Ht].
  assert (is_ident_start c = false) by (chars; lia). rewrite H, Hc.
  unfold classify_number. rewrite Hnum, Hil. reflexivity.
Qed.

Lemma classify_int : forall z, Z.abs z < int_limit -> classify (dec_Z z) = CInt z.
Proof.
  intros z Hl. unfold dec_Z. destruct (z <? 0) eqn:Ez.
  - assert (Hn : 0 <= - z) by lia. destruct (dec_nat_ok (- z) Hn) as [H1 [H2 H3]].
    pose proof H1 as Hd. unfold digits_ok in Hd. apply andb_true_iff in Hd. destruct Hd as [Hne Hall].
    pose proof (number_digits _ H1) as Hnum. pose proof (int_literal_dec (- z) Hn ltac:(lia)) as Hil.
    unfold classify. cbn [sall]. rewrite (digits_modelled _ Hall).
    replace (is_modelled "-") with true by reflexivity. simpl negb. cbv iota.
    replace (is_ident_start "-") with false by reflexivity.
    replace (is_digit "-") with false by reflexivity.
    replace (ch 46 "-") with false by reflexivity.
    replace (ch 45 "-") with true by reflexivity. simpl orb. cbv iota.
    destruct (dec_nat (- z)) as [|c t]; [discriminate|].
    simpl in Hall. apply andb_true_iff in Hall. destruct Hall as [Hc Ht].
    assert (Hb : is_blank c = false) by (chars; lia).
    assert (Hi : is_ident_start c = false) by (chars; lia).
    cbn [skip_blank]. rewrite Hb. cbn [shead]. rewrite Hi, Hc. simpl orb. cbv iota.
    unfold classify_number. rewrite Hnum, Hil. simpl. f_equal. lia.
  - apply classify_nat; lia.
Qed.

Lemma py_str_int : forall z, Z.abs z < int_limit -> py_str (VInt z) = Ok (dec_Z z).
Proof. intros. unfold py_str. destruct (int_limit <=? Z.abs z) eqn:E; [lia|reflexivity]. Qed.

Lemma py_str_int_beyond : forall z, int_limit <= Z.abs z -> py_str (VInt z) = Raises EValue.
Proof. intros. unfold py_str. destruct (int_limit <=? Z.abs z) eqn:E; [reflexivity|lia]. Qed.

Lemma print_parse_int : forall z s, py_str (VInt z) = Ok s -> classify s = CInt z.
Proof.
  intros z s H. unfold py_str in H. destruct (int_limit <=? Z.abs z) eqn:E; [discriminate|].
  inversion H; subst. apply classify_int. lia.
Qed.

(* ------------------------------------------------------------------------------------------------ float tokens *)
Lemma digits_ok_parts : forall ds, digits_ok ds = true -> sempty ds = false /\ sall is_digit ds = true.
Proof. unfold digits_ok. intros ds H. apply andb_true_iff in H. destruct H. destruct (sempty ds); simpl in *; auto; discriminate. Qed.

Definition exp_part (x : option (bool * string)) : string :=
  match x with Some (neg, e) => ("e" ++ (if neg then "-" else "+") ++ e)%string | None => EmptyString end.
Definition frac_part (x : option string) : string :=
  match x with Some f => ("." ++ f)%string | None => EmptyString end.

Lemma scan_exponent_ok : forall ip fp (neg : bool) e, digits_ok e = true ->
  exists z, scan_exponent ip fp ((if neg then "-" else "+") ++ e)%string = NFloat ip fp z.
Proof.
  intros ip fp neg e He. unfold scan_exponent.
  destruct neg; simpl; rewrite (scan_dp_all e He); eexists; reflexivity.
Qed.

Lemma stops_exp : forall x, (match x with Some (_, e) => digits_ok e | None => true end) = true -> stops (exp_part x) = true.
Proof. intros [[neg e]|] H; reflexivity. Qed.

Lemma after_mantissa_ok : forall ip fp x, (match x with Some (_, e) => digits_ok e | None => true end) = true ->
  exists z, after_mantissa ip fp (exp_part x) = NFloat ip fp z.
Proof.
  intros ip fp [[neg e]|] H; simpl.
  - replace (is_e "e") with true by reflexivity. apply scan_exponent_ok. auto.
  - eexists; reflexivity.
Qed.

Lemma number_ftok_body : forall ip fr ex,
  digits_ok ip = true ->
  (match fr with Some f => digits_ok f | None => true end) = true ->
  (match ex with Some (_, e) => digits_ok e | None => true end) = true ->
  (fr = None -> ex = None -> False) ->
  exists z fp, number (ip ++ frac_part fr ++ exp_part ex)%string = NFloat ip fp z.
Proof.
  intros ip fr ex Hip Hfr Hex Hne.
  destruct (digits_ok_parts _ Hip) as [Hipe Hipd].
  rewrite number_decimal.
  - unfold decimal_number. rewrite scan_dp_opt_app; auto.
    + destruct fr as [f|]; simpl frac_part.
      * simpl append. cbv beta iota. replace (ch 46 ".") with true by reflexivity. cbv beta iota.
        rewrite scan_dp_opt_app by (auto using stops_exp). rewrite Hipe. simpl andb. cbv iota.
        destruct (after_mantissa_ok ip f ex Hex) as [z Hz]. eauto.
      * destruct ex as [[neg e]|]; [|exfalso; auto]. simpl append. cbv beta iota.
        replace (ch 46 "e") with false by reflexivity. rewrite Hipe. cbv beta iota.
        replace (is_e "e") with true by reflexivity.
        destruct (scan_exponent_ok ip EmptyString neg e Hex) as [z Hz]. eauto.
    + destruct fr as [f|]; [reflexivity|]. destruct ex as [[neg e]|]; [reflexivity|exfalso; auto].
  - apply digits_no_radix; auto. intros c r' Hr.
    destruct fr as [f|]; simpl in Hr.
    + inversion Hr; subst. left; reflexivity.
    + destruct ex as [[neg e]|]; [|exfalso; auto]. simpl in Hr. inversion Hr; subst. right; reflexivity.
Qed.

Lemma modelled_ftok_body : forall ip fr ex,
  digits_ok ip = true ->
  (match fr with Some f => digits_ok f | None => true end) = true ->
  (match ex with Some (_, e) => digits_ok e | None => true end) = true ->
  sall is_modelled (ip ++ frac_part fr ++ exp_part ex)%string = true.
Proof.
  intros ip fr ex Hip Hfr Hex.
  rewrite !sall_app. rewrite (digits_modelled ip) by (apply digits_ok_parts; auto). simpl.
  assert (sall is_modelled (frac_part fr) = true).
  { destruct fr as [f|]; [|reflexivity]. simpl. rewrite (digits_modelled f) by (apply digits_ok_parts; auto). reflexivity. }
  assert (sall is_modelled (exp_part ex) = true).
  { destruct ex as [[neg e]|]; [|reflexivity]. unfold exp_part. rewrite !sall_app.
    rewrite (digits_modelled e) by (apply digits_ok_parts; auto). destruct neg; reflexivity. }
  rewrite H, H0. reflexivity.
Qed.

Lemma print_parse_float_token : forall t, ftok_ok t = true -> classify (render_ftok t) = CFloat (render_ftok t).
Proof.
  intros [neg ip fr ex] H. unfold ftok_ok in H. simpl in H.
  apply andb_true_iff in H. destruct H as [H Hne]. apply andb_true_iff in H. destruct H as [H Hex].
  apply andb_true_iff in H. destruct H as [Hip Hfr].
  assert (Hne' : fr = None -> ex = None -> False) by (intros -> ->; discriminate).
  destruct (number_ftok_body ip fr ex Hip Hfr Hex Hne') as [z [fp Hnum]].
  pose proof (modelled_ftok_body ip fr ex Hip Hfr Hex) as Hmod.
  destruct (digits_ok_parts _ Hip) as [Hipe Hipd].
  unfold render_ftok. simpl fneg; simpl fint; simpl ffrac; simpl fexp.
  change (match fr with Some f => ("." ++ f)%string | None => ""%string end) with (frac_part fr).
  change (match ex with Some (neg0, e) => ("e" ++ (if neg0 then "-" else "+") ++ e)%string | None => ""%string end) with (exp_part ex).
  set (body := (ip ++ frac_part fr ++ exp_part ex)%string) in *.
  assert (Hb : exists c t, body = String c t /\ is_digit c = true).
  { subst body. destruct ip as [|c ip']; [discriminate|]. simpl in Hipd. apply andb_true_iff in Hipd. destruct Hipd.
    simpl. eauto. }
  destruct Hb as [c [t [Eb Hc]]].
  destruct neg.
  - simpl append. unfold classify. cbn [sall]. rewrite Hmod.
    replace (is_modelled "-") with true by reflexivity. simpl negb. cbv iota.
    replace (is_ident_start "-") with false by reflexivity.
    replace (is_digit "-") with false by reflexivity.
    replace (ch 46 "-") with false by reflexivity.
    replace (ch 45 "-") with true by reflexivity. simpl orb. cbv iota.
    rewrite Eb. assert (Hbl : is_blank c = false) by (chars; lia).
    assert (Hi : is_ident_start c = false) by (chars; lia).
    cbn [skip_blank]. rewrite Hbl. cbn [shead]. rewrite Hi, Hc. simpl orb. cbv iota.
    unfold classify_number. rewrite <- Eb, Hnum. reflexivity.
  - simpl append. unfold classify. rewrite Hmod. simpl negb. cbv iota. rewrite Eb.
    assert (Hi : is_ident_start c = false) by (chars; lia). rewrite Hi, Hc.
    unfold classify_number. rewrite <- Eb, Hnum. reflexivity.
Qed.
