(* Coherence of the three sets of defaults, over the tables regenerated into Gen/Defaults.v on every run. *)
From Coq Require Import Ascii ZArith List Bool Lia QArith.
From E3FP Require Import Base.Prelude Model.Config Gen.Defaults.
Open Scope Z_scope.

Definition fval_same (a b : fval) : bool :=
  match a, b with
  | FFin x, FFin y => Qeq_bool x y
  | FPInf, FPInf | FNInf, FNInf => true
  | _, _ => false
  end.

(* typed comparison of a Python default with the class of the file's raw value: 2 and '2' differ, None and -1.0
   differ, floats are compared by the exact decimal value of their repr token *)
Definition dval_matches (d : dval) (c : cls) : bool :=
  match d, c with
  | DInt a, CInt b => a =? b
  | DFloat t, CFloat u => fval_same (float_value t) (float_value u)
  | DBool a, CBool b => Bool.eqb a b
  | DNone, CNone => true
  | DStr a, CStr b => String.eqb a b
  | _, _ => false
  end.

Definition is_bits (sec opt : string) : bool := String.eqb sec "fingerprinting" && String.eqb opt "bits".

(* what the default of the parameter named like option [sec].[opt] must be *)
Definition expected (sec opt raw : string) : cls :=
  if is_bits sec opt then CInt unfolded_bits else classify raw.

Definition entry := (string * (list string * list (string * dval)))%type.

Definition entry_coherent (sec opt raw : string) (e : entry) : bool :=
  let '(_, (secs, ps)) := e in
  if existsb (String.eqb sec) secs then
    match alookup opt ps with Some d => dval_matches d (expected sec opt raw) | None => true end
  else true.

Definition option_coherent (o : string * string * string) : bool :=
  let '(sec, opt, raw) := o in forallb (entry_coherent sec opt raw) entry_points.

Definition all_options : list (string * string * string) :=
  flat_map (fun ns => map (fun kv => (fst ns, fst kv, snd kv)) (snd ns)) defaults_cfg_parsed.

Definition covered (o : string * string * string) : bool :=
  let '(sec, opt, _) := o in
  existsb (fun e : entry => let '(_, (secs, ps)) := e in existsb (String.eqb sec) secs && ahas opt ps) entry_points.

Definition scalar_cls (c : cls) : bool :=
  match c with CInt _ | CFloat _ | CBool _ | CNone | CStr _ => true | _ => false end.

(* lifting of the finite check (decided by vm_compute in Properties/C20.v, over the tables of this run) *)
Lemma defaults_coherent_of_check : forallb option_coherent all_options = true ->
  forall sec opt raw name secs ps d,
  In (sec, opt, raw) all_options -> In (name, (secs, ps)) entry_points ->
  existsb (String.eqb sec) secs = true -> alookup opt ps = Some d ->
  dval_matches d (expected sec opt raw) = true.
Proof.
  intros H sec opt raw name secs ps d Ho He Hs Hd.
  rewrite forallb_forall in H. specialize (H _ Ho).
  unfold option_coherent in H. rewrite forallb_forall in H. specialize (H _ He).
  unfold entry_coherent in H. rewrite Hs, Hd in H. exact H.
Qed.

Definition orphans : list (string * string) :=
  map (fun o => (fst (fst o), snd (fst o))) (filter (fun o => negb (covered o)) all_options).
