(* Lemmas about Model/Config.v, continued: plain words stay strings, one option through print / parse /
   classify, layering of files. *)
From Coq Require Import Ascii NArith ZArith List Bool Lia ZifyBool.
From E3FP Require Import Base.Prelude Model.Config Proofs.ConfigCodec.
Open Scope Z_scope.

(* ------------------------------------------------------------------------------------------------ span *)
Lemma span_spec : forall p s a b, span p s = (a, b) ->
  s = (a ++ b)%string /\ sall p a = true /\ shead p b = false.
Proof.
  induction s as [|c s IH]; intros a b H; simpl in H.
  - inversion H; subst. auto.
  - destruct (p c) eqn:E.
    + destruct (span p s) as [a' b'] eqn:E2. inversion H; subst.
      destruct (IH a' b eq_refl) as [H1 [H2 H3]]. simpl. rewrite E, H2. subst s. auto.
    + inversion H; subst. simpl. rewrite E. auto.
Qed.

Lemma skip_blank_id : forall s, shead is_blank s = false -> skip_blank s = s.
Proof. intros [|c s] H; simpl in *; [reflexivity|]. now rewrite H. Qed.

Lemma string_eqb_refl : forall s, String.eqb s s = true.
Proof. intro. apply String.eqb_refl. Qed.

(* ------------------------------------------------------------------------------------------------ plain words *)
Lemma plain_modelled : forall s, sall is_plain_char s = true -> sall is_modelled s = true.
Proof. intros. eapply sall_impl; [|eassumption]. intros c Hc. chars. lia. Qed.

(* what follows the leading identifier of a plain word is empty or starts with one of . / - *)
Lemma plain_rest_head : forall b, sall is_plain_char b = true -> shead is_ident_char b = false ->
  shead is_blank b = false /\ shead is_quote b = false /\ shead (ch 40) b = false /\
  shead (fun c => ch 44 c || ch 35 c) b = false.
Proof.
  intros [|c b] Hp Hi; simpl in *; auto.
  apply andb_true_iff in Hp. destruct Hp as [Hp _]. chars. repeat split; lia.
Qed.

Lemma classify_ident_plain : forall s, sall is_plain_char s = true ->
  (String.eqb s "True" || String.eqb s "False" || String.eqb s "None") = false ->
  classify_ident s = CStr s.
Proof.
  intros s Hp Hk. unfold classify_ident.
  destruct (span is_ident_char s) as [tok rest] eqn:E.
  destruct (span_spec _ _ _ _ E) as [Hs [Ht Hr]].
  assert (Hpr : sall is_plain_char rest = true).
  { rewrite Hs, sall_app in Hp. apply andb_true_iff in Hp. tauto. }
  destruct (plain_rest_head rest Hpr Hr) as [H1 [H2 [H3 H4]]].
  rewrite (skip_blank_id rest H1).
  destruct (String.eqb tok "True" || String.eqb tok "False" || String.eqb tok "None") eqn:Ek.
  - destruct rest as [|c r].
    + rewrite app_nil_r_s in Hs. subst tok. congruence.
    + simpl in H4. rewrite H4. reflexivity.
  - rewrite H2, H3. rewrite andb_false_r. reflexivity.
Qed.

Lemma print_parse_str : forall s, plain_word s = true -> classify s = CStr s.
Proof.
  intros s H. unfold plain_word in H. destruct s as [|c t]; [discriminate|].
  apply andb_true_iff in H. destruct H as [H Hk]. apply andb_true_iff in H. destruct H as [Hp Hc].
  apply negb_true_iff in Hk.
  unfold classify. rewrite (plain_modelled _ Hp). simpl negb. cbv iota.
  destruct (is_ident_start c) eqn:Ei.
  - apply classify_ident_plain; auto.
  - assert (Ha : is_alpha c = false) by (chars; lia). rewrite Ha in Hc. simpl in Hc.
    destruct (ch 47 c) eqn:E47.
    + assert (is_digit c = false) by (chars; lia). assert (ch 46 c = false) by (chars; lia).
      assert (ch 45 c || ch 43 c = false) by (chars; lia).
      assert (never_starts_literal c = true) by (chars; lia).
      rewrite H, H0, H1, H2. reflexivity.
    + simpl in Hc. apply andb_true_iff in Hc. destruct Hc as [Hc Hdots]. apply andb_true_iff in Hc. destruct Hc as [H46 Hd].
      apply negb_true_iff in Hd. apply negb_true_iff in Hdots.
      assert (is_digit c = false) by (chars; lia). rewrite H, H46, Hd.
      destruct t as [|c2 [|c3 t3]]; try reflexivity.
      destruct (ch 46 c2 && ch 46 c3) eqn:E; [|reflexivity].
      exfalso. apply andb_true_iff in E. destruct E as [E2 E3].
      assert (c = "."%char) by (apply cn_inj; unfold ch in *; change (cn ".") with 46; lia).
      assert (c2 = "."%char) by (apply cn_inj; unfold ch in *; change (cn ".") with 46; lia).
      assert (c3 = "."%char) by (apply cn_inj; unfold ch in *; change (cn ".") with 46; lia).
      subst. unfold dots_prefix in Hdots. simpl in Hdots. discriminate.
Qed.

(* ------------------------------------------------------------------------------------------------ one line *)
Definition no_char (p : ascii -> bool) (s : string) : bool := sall (fun c => negb (p c)) s.

Lemma find_delim_app : forall a b, no_char is_delim a = true ->
  find_delim (a ++ String "=" b)%string = Some (a, b).
Proof.
  induction a as [|c a IH]; intros b H; simpl.
  - reflexivity.
  - unfold no_char in H. simpl in H. apply andb_true_iff in H. destruct H as [H1 H2].
    apply negb_true_iff in H1. rewrite H1. rewrite IH by exact H2. reflexivity.
Qed.

Lemma lstrip_id : forall s, shead is_space s = false -> lstrip s = s.
Proof. intros [|c s] H; simpl in *; [reflexivity|]. now rewrite H. Qed.

Lemma rstrip_nospace : forall s, no_char is_space s = true -> rstrip s = s.
Proof.
  induction s as [|c s IH]; intro H; [reflexivity|].
  unfold no_char in H. simpl in H. apply andb_true_iff in H. destruct H as [H1 H2]. apply negb_true_iff in H1.
  simpl. rewrite IH by exact H2. destruct s; [now rewrite H1|reflexivity].
Qed.

Lemma rstrip_app_space : forall s, no_char is_space s = true -> rstrip (s ++ " ")%string = s.
Proof.
  induction s as [|c s IH]; intro H; [reflexivity|].
  unfold no_char in H. simpl in H. apply andb_true_iff in H. destruct H as [H1 H2]. apply negb_true_iff in H1.
  simpl. rewrite IH by exact H2. destruct s; [now rewrite H1|reflexivity].
Qed.

Lemma key_chars : forall k, sall is_ident_char k = true ->
  no_char is_space k = true /\ no_char is_delim k = true /\ no_char (fun c => Ascii.eqb c c_nl) k = true.
Proof.
  intros k H. unfold no_char. repeat split; (eapply sall_impl; [|exact H]); intros c Hc; apply negb_true_iff.
  - chars; lia.
  - chars; lia.
  - apply Ascii.eqb_neq. intro; subst c. vm_compute in Hc. discriminate.
Qed.

Lemma no_char_app : forall p a b, no_char p (a ++ b)%string = no_char p a && no_char p b.
Proof. intros. apply sall_app. Qed.

Lemma parse_print_line : forall k v, plain_key k = true ->
  parse_option_line (k ++ " = " ++ v)%string = Some (lower k, strip v).
Proof.
  intros k v Hk. unfold plain_key in Hk. apply andb_true_iff in Hk. destruct Hk as [Hne Hall].
  destruct (key_chars k Hall) as [Hs [Hd _]].
  unfold parse_option_line.
  replace (k ++ " = " ++ v)%string with ((k ++ " ") ++ String "=" (String " " v))%string
    by (rewrite app_assoc_s; reflexivity).
  assert (Hst : strip (k ++ " ")%string = k).
  { unfold strip. rewrite lstrip_id.
    - now apply rstrip_app_space.
    - destruct k as [|c k]; [discriminate|]. simpl. unfold no_char in Hs. simpl in Hs.
      apply andb_true_iff in Hs. destruct Hs as [Hs _]. now apply negb_true_iff in Hs. }
  rewrite find_delim_app.
  - cbv zeta. rewrite Hst. destruct (sempty k) eqn:E; [discriminate|]. reflexivity.
  - rewrite no_char_app, Hd. reflexivity.
Qed.

Lemma replace_nl_id : forall s, has_nl s = false -> replace_nl s = s.
Proof.
  induction s as [|c s IH]; intro H; [reflexivity|].
  unfold has_nl in H. simpl in H. apply orb_false_iff in H. destruct H as [H1 H2].
  simpl. rewrite H1, IH by exact H2. reflexivity.
Qed.

Lemma split_on_none : forall sep s, sexists (fun c => Ascii.eqb c sep) s = false -> split_on sep s = [s].
Proof.
  induction s as [|c s IH]; intro H; [reflexivity|].
  simpl in H. apply orb_false_iff in H. destruct H as [H1 H2].
  simpl. rewrite H1, IH by exact H2. reflexivity.
Qed.

Lemma sexists_app : forall p a b, sexists p (a ++ b)%string = sexists p a || sexists p b.
Proof. induction a; simpl; intros; auto. rewrite IHa. now rewrite orb_assoc. Qed.

Lemma no_char_sexists : forall p s, no_char p s = true -> sexists p s = false.
Proof.
  induction s as [|c s IH]; intro H; [reflexivity|].
  unfold no_char in H. simpl in H. apply andb_true_iff in H. destruct H as [H1 H2]. apply negb_true_iff in H1.
  simpl. rewrite H1. now apply IH.
Qed.

Lemma no_percent_set_ok : forall fuel s, sexists (ch 37) s = false -> set_ok_fuel fuel s = true.
Proof.
  induction fuel as [|f IH]; intros s H; [reflexivity|].
  destruct s as [|c s]; [reflexivity|]. simpl in H. apply orb_false_iff in H. destruct H as [H1 H2].
  simpl. rewrite H1. now apply IH.
Qed.

Lemma no_percent_interpolate : forall s, sexists (ch 37) s = false -> interpolate s = Ok s.
Proof.
  induction s as [|c s IH]; intro H; [reflexivity|].
  simpl in H. apply orb_false_iff in H. destruct H as [H1 H2].
  simpl. rewrite H1, IH by exact H2. reflexivity.
Qed.

Lemma lower_lower_char : forall c, lower_char (lower_char c) = lower_char c.
Proof.
  intro c. unfold lower_char. destruct (is_upper c) eqn:E; [|now rewrite E].
  assert (is_upper (chr (cn c + 32)) = false).
  { pose proof (cn_bound c). chars. rewrite cn_chr by lia. lia. }
  now rewrite H.
Qed.

Lemma lower_idem : forall s, lower (lower s) = lower s.
Proof. unfold lower. induction s; cbn [smap]; [reflexivity|]. rewrite lower_lower_char. f_equal. exact IHs. Qed.

Lemma lower_ident : forall k, sall is_ident_char k = true -> sall is_ident_char (lower k) = true.
Proof.
  induction k as [|c k IH]; intro H; [reflexivity|].
  simpl in H. apply andb_true_iff in H. destruct H as [H1 H2]. unfold lower in *. cbn [smap sall]. rewrite IH by exact H2.
  rewrite andb_true_r. unfold lower_char. destruct (is_upper c) eqn:E; [|exact H1].
  pose proof (cn_bound c). chars. rewrite cn_chr by lia. lia.
Qed.

Lemma plain_key_lower : forall k, plain_key k = true -> plain_key (lower k) = true.
Proof.
  intros k H. unfold plain_key in *. apply andb_true_iff in H. destruct H as [H1 H2].
  rewrite lower_ident by exact H2. destruct k; [discriminate|reflexivity].
Qed.

(* a value string that survives the line format unchanged *)
Definition line_safe (s : string) : bool :=
  negb (has_nl s) && negb (sexists (ch 37) s) && String.eqb (strip s) s.

Lemma roundtrip_line_safe : forall k v s, plain_key k = true -> py_str v = Ok s -> line_safe s = true ->
  roundtrip k v = Ok (lower k, classify s).
Proof.
  intros k v s Hk Hs Hsafe. unfold line_safe in Hsafe.
  apply andb_true_iff in Hsafe. destruct Hsafe as [Hsafe Hstrip]. apply andb_true_iff in Hsafe.
  destruct Hsafe as [Hnl Hpc]. apply negb_true_iff in Hnl. apply negb_true_iff in Hpc.
  apply String.eqb_eq in Hstrip.
  unfold roundtrip. rewrite Hs. simpl rbind. unfold set_ok. rewrite no_percent_set_ok by exact Hpc. simpl negb. cbv iota.
  unfold print_option. rewrite replace_nl_id by exact Hnl.
  pose proof (plain_key_lower k Hk) as Hkl.
  assert (Hk2 := Hkl). unfold plain_key in Hk2. apply andb_true_iff in Hk2. destruct Hk2 as [_ Hall].
  destruct (key_chars _ Hall) as [_ [_ Hknl]].
  rewrite split_on_none.
  - rewrite parse_print_line by exact Hkl. rewrite lower_idem, Hstrip.
    rewrite no_percent_interpolate by exact Hpc. reflexivity.
  - rewrite !sexists_app. rewrite (no_char_sexists _ _ Hknl). unfold has_nl in Hnl. rewrite Hnl. reflexivity.
Qed.

(* strings made of non-blank characters other than % and newline are line safe *)
Definition token_char (c : ascii) : bool := negb (is_space c) && negb (ch 37 c).

Lemma strip_token : forall s, sall token_char s = true -> strip s = s.
Proof.
  intros s H. unfold strip. assert (Hs : no_char is_space s = true).
  { unfold no_char. eapply sall_impl; [|exact H]. intros c Hc. unfold token_char in Hc. apply andb_true_iff in Hc. tauto. }
  rewrite lstrip_id.
  - now apply rstrip_nospace.
  - destruct s as [|c s]; [reflexivity|]. unfold no_char in Hs. simpl in Hs. apply andb_true_iff in Hs.
    destruct Hs as [Hs _]. now apply negb_true_iff in Hs.
Qed.

Lemma token_line_safe : forall s, sall token_char s = true -> line_safe s = true.
Proof.
  intros s H. unfold line_safe. rewrite strip_token by exact H. rewrite String.eqb_refl, andb_true_r.
  assert (H1 : has_nl s = false).
  { unfold has_nl. apply no_char_sexists. unfold no_char. eapply sall_impl; [|exact H]. intros c Hc.
    apply negb_true_iff. apply Ascii.eqb_neq. intro; subst c. vm_compute in Hc. discriminate. }
  assert (H2 : sexists (ch 37) s = false).
  { apply no_char_sexists. unfold no_char. eapply sall_impl; [|exact H]. intros c Hc. unfold token_char in Hc.
    apply andb_true_iff in Hc. tauto. }
  rewrite H1, H2. reflexivity.
Qed.

Lemma digits_token : forall s, sall is_digit s = true -> sall token_char s = true.
Proof. intros. eapply sall_impl; [|eassumption]. intros c Hc. unfold token_char. chars. lia. Qed.

Lemma plain_token : forall s, sall is_plain_char s = true -> sall token_char s = true.
Proof. intros. eapply sall_impl; [|eassumption]. intros c Hc. unfold token_char. chars. lia. Qed.

Lemma dec_Z_token : forall z, sall token_char (dec_Z z) = true.
Proof.
  intro z. unfold dec_Z. destruct (z <? 0) eqn:E.
  - simpl. destruct (dec_nat_ok (- z) ltac:(lia)) as [H _]. apply digits_ok_parts in H. destruct H as [_ H].
    rewrite (digits_token _ H). reflexivity.
  - destruct (dec_nat_ok z ltac:(lia)) as [H _]. apply digits_ok_parts in H. destruct H as [_ H].
    now apply digits_token.
Qed.

Lemma ftok_token : forall t, ftok_ok t = true -> sall token_char (render_ftok t) = true.
Proof.
  intros [neg ip fr ex] H. unfold ftok_ok in H. simpl in H.
  apply andb_true_iff in H. destruct H as [H Hne]. apply andb_true_iff in H. destruct H as [H Hex].
  apply andb_true_iff in H. destruct H as [Hip Hfr].
  unfold render_ftok. cbn [fneg fint ffrac fexp]. rewrite !sall_app.
  apply digits_ok_parts in Hip. destruct Hip as [_ Hip].
  repeat (apply andb_true_iff; split).
  - destruct neg; reflexivity.
  - now apply digits_token.
  - destruct fr as [f|]; [|reflexivity]. apply digits_ok_parts in Hfr. destruct Hfr as [_ Hfr]. simpl.
    now apply digits_token.
  - destruct ex as [[n e]|]; [|reflexivity]. apply digits_ok_parts in Hex. destruct Hex as [_ Hex].
    rewrite !sall_app. rewrite (digits_token _ Hex). destruct n; reflexivity.
Qed.

(* ------------------------------------------------------------------------------------------------ typed round trip *)
Definition key_ok (k : string) : bool := plain_key k && String.eqb (lower k) k.

Lemma typed_rt_int : forall k z, key_ok k = true -> Z.abs z < int_limit -> roundtrip k (VInt z) = Ok (k, CInt z).
Proof.
  intros k z Hk Hz. unfold key_ok in Hk. apply andb_true_iff in Hk. destruct Hk as [Hk Hl]. apply String.eqb_eq in Hl.
  rewrite (roundtrip_line_safe k _ (dec_Z z) Hk (py_str_int z Hz) (token_line_safe _ (dec_Z_token z))).
  rewrite Hl, classify_int by exact Hz. reflexivity.
Qed.

Lemma typed_rt_float : forall k t, key_ok k = true -> ftok_ok t = true ->
  roundtrip k (VFloat (render_ftok t)) = Ok (k, CFloat (render_ftok t)).
Proof.
  intros k t Hk Ht. unfold key_ok in Hk. apply andb_true_iff in Hk. destruct Hk as [Hk Hl]. apply String.eqb_eq in Hl.
  rewrite (roundtrip_line_safe k (VFloat (render_ftok t)) (render_ftok t) Hk eq_refl (token_line_safe _ (ftok_token t Ht))).
  rewrite Hl, print_parse_float_token by exact Ht. reflexivity.
Qed.

Lemma typed_rt_bool : forall k b, key_ok k = true -> roundtrip k (VBool b) = Ok (k, CBool b).
Proof.
  intros k b Hk. unfold key_ok in Hk. apply andb_true_iff in Hk. destruct Hk as [Hk Hl]. apply String.eqb_eq in Hl.
  destruct b.
  - rewrite (roundtrip_line_safe k (VBool true) "True" Hk eq_refl eq_refl). now rewrite Hl.
  - rewrite (roundtrip_line_safe k (VBool false) "False" Hk eq_refl eq_refl). now rewrite Hl.
Qed.

Lemma typed_rt_none : forall k, key_ok k = true -> roundtrip k VNone = Ok (k, CNone).
Proof.
  intros k Hk. unfold key_ok in Hk. apply andb_true_iff in Hk. destruct Hk as [Hk Hl]. apply String.eqb_eq in Hl.
  rewrite (roundtrip_line_safe k VNone "None" Hk eq_refl eq_refl). now rewrite Hl.
Qed.

(* strings: exactly those that the line format keeps and the classifier leaves alone *)
Definition str_safe (s : string) : bool := line_safe s && cls_eqb (classify s) (CStr s).

Lemma cls_eqb_eq : forall a b, cls_eqb a b = true -> a = b.
Proof.
  intros [] [] H; simpl in H; try discriminate; try reflexivity.
  - f_equal. lia.
  - f_equal. now apply String.eqb_eq.
  - f_equal. now apply Bool.eqb_prop.
  - f_equal. now apply String.eqb_eq.
Qed.

Lemma typed_rt_str : forall k s, key_ok k = true -> str_safe s = true -> roundtrip k (VStr s) = Ok (k, CStr s).
Proof.
  intros k s Hk Hs. unfold key_ok in Hk. apply andb_true_iff in Hk. destruct Hk as [Hk Hl]. apply String.eqb_eq in Hl.
  unfold str_safe in Hs. apply andb_true_iff in Hs. destruct Hs as [H1 H2]. apply cls_eqb_eq in H2.
  rewrite (roundtrip_line_safe k (VStr s) s Hk eq_refl H1). now rewrite Hl, H2.
Qed.

Lemma plain_word_safe : forall s, plain_word s = true -> str_safe s = true.
Proof.
  intros s H. unfold str_safe. rewrite (print_parse_str s H). simpl. rewrite String.eqb_refl, andb_true_r.
  apply token_line_safe. apply plain_token. unfold plain_word in H. destruct s; [discriminate|].
  apply andb_true_iff in H. destruct H as [H _]. apply andb_true_iff in H. tauto.
Qed.

(* the supported scalar values *)
Definition supported (v : value) : bool :=
  match v with
  | VInt z => Z.abs z <? int_limit
  | VFloat t => String.eqb t "inf" || String.eqb t "-inf" || String.eqb t "nan" ||
                cls_eqb (classify t) (CFloat t) && sall token_char t
  | VBool _ | VNone => true
  | VStr s => sall is_modelled s || has_nl s
  end.

(* ... and those for which the round trip is exact *)
Definition rt_exact (v : value) : bool :=
  match v with
  | VInt z => Z.abs z <? int_limit
  | VFloat t => cls_eqb (classify t) (CFloat t) && sall token_char t
  | VBool _ | VNone => true
  | VStr s => str_safe s
  end.

Lemma typed_rt_partial : forall k v, key_ok k = true -> rt_exact v = true -> roundtrip k v = Ok (k, cls_of v).
Proof.
  intros k v Hk Hv. destruct v as [z|t|b| |s]; simpl in Hv.
  - apply typed_rt_int; auto. lia.
  - apply andb_true_iff in Hv. destruct Hv as [H1 H2]. apply cls_eqb_eq in H1.
    pose proof Hk as Hk'. unfold key_ok in Hk'. apply andb_true_iff in Hk'. destruct Hk' as [Hk1 Hl]. apply String.eqb_eq in Hl.
    rewrite (roundtrip_line_safe k (VFloat t) t Hk1 eq_refl (token_line_safe _ H2)). simpl. now rewrite Hl, H1.
  - now apply typed_rt_bool.
  - now apply typed_rt_none.
  - now apply typed_rt_str.
Qed.

Lemma typed_rt_refuted :
  (exists k v, plain_key k = true /\ supported v = true /\ rt_exact v = true /\ roundtrip k v <> Ok (k, cls_of v)) /\
  (exists k v, key_ok k = true /\ supported v = true /\ roundtrip k v <> Ok (k, cls_of v)).
Proof.
  split.
  - exists "Bits"%string, (VInt 1024). repeat split; try reflexivity. vm_compute. discriminate.
  - exists "out_dir"%string, (VStr "None"). repeat split; try reflexivity. vm_compute. discriminate.
Qed.

(* each class of the format-inherent losses, with its witness *)
Lemma typed_rt_witnesses :
  roundtrip "Bits" (VInt 1024) = Ok ("bits"%string, CInt 1024) /\
  roundtrip "out_dir" (VStr "None") = Ok ("out_dir"%string, CNone) /\
  roundtrip "out_dir" (VStr "1e5") = Ok ("out_dir"%string, CFloat "1e5") /\
  roundtrip "out_dir" (VStr " padded ") = Ok ("out_dir"%string, CStr "padded") /\
  roundtrip "rmsd_cutoff" (VFloat "inf") = Ok ("rmsd_cutoff"%string, CStr "inf") /\
  roundtrip "rmsd_cutoff" (VFloat "nan") = Ok ("rmsd_cutoff"%string, CStr "nan") /\
  roundtrip "out_dir" (VStr "50%") = Raises EValue /\
  roundtrip "out_dir" (VStr "%(x)s") = Raises EOther /\
  roundtrip "out_dir" (VStr "a%%b") = Ok ("out_dir"%string, CStr "a%b").
Proof. vm_compute. repeat split; reflexivity. Qed.

(* ------------------------------------------------------------------------------------------------ layering *)
Section AssocLemmas.
  Context {A : Type}.
  Lemma alookup_aset_same : forall k (v : A) l, alookup k (aset k v l) = Some v.
  Proof.
    induction l as [|[k' v'] l IH]; simpl.
    - now rewrite String.eqb_refl.
    - destruct (String.eqb k k') eqn:E; simpl; [now rewrite String.eqb_refl|now rewrite E].
  Qed.
  Lemma alookup_aset_other : forall k k' (v : A) l, k <> k' -> alookup k (aset k' v l) = alookup k l.
  Proof.
    intros k k' v l Hne. induction l as [|[k2 v2] l IH]; simpl.
    - destruct (String.eqb k k') eqn:E; [apply String.eqb_eq in E; congruence|reflexivity].
    - destruct (String.eqb k' k2) eqn:E; simpl.
      + apply String.eqb_eq in E. subst k2.
        destruct (String.eqb k k') eqn:E2; [apply String.eqb_eq in E2; congruence|reflexivity].
      + destruct (String.eqb k k2); auto.
  Qed.
End AssocLemmas.

Fixpoint keys_unique {A} (l : list (string * A)) : bool :=
  match l with [] => true | (k, _) :: t => negb (ahas k t) && keys_unique t end.
Definition cfg_wf (c : cfg) : bool := keys_unique c && forallb (fun ns => keys_unique (snd ns)) c.

Lemma overlay_section_lookup : forall s base k, keys_unique s = true ->
  alookup k (overlay_section base s) = match alookup k s with Some v => Some v | None => alookup k base end.
Proof.
  unfold overlay_section. induction s as [|[k1 v1] s IH]; intros base k Hu; [reflexivity|].
  simpl in Hu. apply andb_true_iff in Hu. destruct Hu as [Hn Hu]. apply negb_true_iff in Hn.
  simpl fold_left. rewrite IH by exact Hu. simpl alookup.
  destruct (String.eqb k k1) eqn:E.
  - apply String.eqb_eq in E. subst k1. unfold ahas in Hn. destruct (alookup k s); [discriminate|].
    apply alookup_aset_same.
  - destruct (alookup k s); [reflexivity|]. apply alookup_aset_other. intro; subst. now rewrite String.eqb_refl in E.
Qed.

Definition sec_or_empty (c : cfg) (sn : string) : section := match alookup sn c with Some s => s | None => [] end.

Lemma overlay_lookup : forall u base sn, keys_unique u = true ->
  alookup sn (overlay base u) =
  match alookup sn u with Some s => Some (overlay_section (sec_or_empty base sn) s) | None => alookup sn base end.
Proof.
  unfold overlay. induction u as [|[n1 s1] u IH]; intros base sn Hu; [reflexivity|].
  simpl in Hu. apply andb_true_iff in Hu. destruct Hu as [Hn Hu]. apply negb_true_iff in Hn.
  simpl fold_left. rewrite IH by exact Hu. simpl alookup.
  destruct (String.eqb sn n1) eqn:E.
  - apply String.eqb_eq in E. subst n1. unfold ahas in Hn. destruct (alookup sn u); [discriminate|].
    rewrite alookup_aset_same. reflexivity.
  - assert (sn <> n1) by (intro; subst; now rewrite String.eqb_refl in E).
    unfold sec_or_empty. rewrite alookup_aset_other by exact H. reflexivity.
Qed.

Lemma overlay_get : forall base u sn k, cfg_wf u = true ->
  cfg_get (overlay base u) sn k = match cfg_get u sn k with Some v => Some v | None => cfg_get base sn k end.
Proof.
  intros base u sn k Hwf. unfold cfg_wf in Hwf. apply andb_true_iff in Hwf. destruct Hwf as [Hu Hs].
  unfold cfg_get. rewrite overlay_lookup by exact Hu.
  destruct (alookup sn u) as [s|] eqn:E; [|reflexivity].
  assert (keys_unique s = true).
  { rewrite forallb_forall in Hs. clear - E Hs. induction u as [|[n s'] u IH]; [discriminate|].
    simpl in E. destruct (String.eqb sn n).
    - inversion E; subst. apply (Hs (n, s)). now left.
    - apply IH; auto. intros x Hx. apply Hs. now right. }
  rewrite overlay_section_lookup by exact H. unfold sec_or_empty.
  destruct (alookup k s); [reflexivity|]. destruct (alookup sn base); reflexivity.
Qed.

Lemma layering_spec : forall dt fill ut d u c sn k v,
  parse_file dt = Ok d -> parse_file ut = Ok u -> cfg_wf u = true ->
  read_params dt fill (Some ut) = Ok c ->
  cfg_get u sn k = Some v -> cfg_get c sn k = Some v.
Proof.
  intros dt fill ut d u c sn k v Hd Hu Hwf Hr Hg. unfold read_params in Hr.
  destruct fill; rewrite ?Hd in Hr; simpl in Hr; rewrite Hu in Hr; simpl in Hr; inversion Hr; subst;
    rewrite overlay_get by exact Hwf; now rewrite Hg.
Qed.

Lemma fallback_spec : forall dt fill ut d u c sn k,
  parse_file dt = Ok d -> parse_file ut = Ok u -> cfg_wf u = true ->
  read_params dt fill (Some ut) = Ok c ->
  cfg_get u sn k = None -> cfg_get c sn k = if fill then cfg_get d sn k else None.
Proof.
  intros dt fill ut d u c sn k Hd Hu Hwf Hr Hg. unfold read_params in Hr.
  destruct fill; rewrite ?Hd in Hr; simpl in Hr; rewrite Hu in Hr; simpl in Hr; inversion Hr; subst;
    rewrite overlay_get by exact Hwf; rewrite Hg; reflexivity.
Qed.

(* ------------------------------------------------------------------------------------------------ parse_file yields unique keys *)
Lemma ahas_aset_other : forall {A} k k' (v : A) l, k <> k' -> ahas k (aset k' v l) = ahas k l.
Proof. intros. unfold ahas. now rewrite alookup_aset_other. Qed.

Lemma keys_unique_aset : forall {A} k (v : A) l, keys_unique l = true -> keys_unique (aset k v l) = true.
Proof.
  induction l as [|[k' v'] l IH]; intro H; [reflexivity|].
  simpl in H. apply andb_true_iff in H. destruct H as [H1 H2]. simpl.
  destruct (String.eqb k k') eqn:E.
  - apply String.eqb_eq in E. subst k'. simpl. now rewrite H1, H2.
  - simpl. rewrite ahas_aset_other, H1, IH; auto. intro; subst. now rewrite String.eqb_refl in E.
Qed.

Lemma ahas_app_new : forall {A} k k' (v : A) l, ahas k (l ++ [(k', v)])%list = ahas k l || String.eqb k k'.
Proof.
  unfold ahas. induction l as [|[k2 v2] l IH]; simpl.
  - destruct (String.eqb k k'); reflexivity.
  - destruct (String.eqb k k2); [reflexivity|exact IH].
Qed.

Lemma keys_unique_app_new : forall {A} k (v : A) l, keys_unique l = true -> ahas k l = false ->
  keys_unique (l ++ [(k, v)])%list = true.
Proof.
  induction l as [|[k' v'] l IH]; intros H Hn; [reflexivity|].
  simpl in H. apply andb_true_iff in H. destruct H as [H1 H2].
  unfold ahas in Hn. simpl in Hn. destruct (String.eqb k k') eqn:E; [discriminate|].
  simpl. rewrite ahas_app_new. apply negb_true_iff in H1. rewrite H1. simpl.
  assert (String.eqb k' k = false).
  { destruct (String.eqb k' k) eqn:E2; [|reflexivity]. apply String.eqb_eq in E2. subst. now rewrite String.eqb_refl in E. }
  rewrite H. simpl. apply IH; auto.
Qed.

Definition secs_wf {A} (l : list (string * list (string * A))) : bool :=
  keys_unique l && forallb (fun ns => keys_unique (snd ns)) l.

Lemma forallb_aset : forall {A} (P : A -> bool) k v (l : list (string * A)),
  forallb (fun kv => P (snd kv)) l = true -> P v = true -> forallb (fun kv => P (snd kv)) (aset k v l) = true.
Proof.
  induction l as [|[k' v'] l IH]; intros H Hv; simpl.
  - now rewrite Hv.
  - simpl in H. apply andb_true_iff in H. destruct H as [H1 H2].
    destruct (String.eqb k k'); simpl; [now rewrite Hv, H2|]. now rewrite H1, IH.
Qed.

Lemma forallb_alookup : forall {A} (P : A -> bool) k (l : list (string * A)) v,
  forallb (fun kv => P (snd kv)) l = true -> alookup k l = Some v -> P v = true.
Proof.
  induction l as [|[k' v'] l IH]; intros v H Hl; [discriminate|].
  simpl in H. apply andb_true_iff in H. destruct H as [H1 H2]. simpl in Hl.
  destruct (String.eqb k k'); [inversion Hl; subst; exact H1|eauto].
Qed.

Lemma secs_wf_aset : forall {A} sn (s : list (string * A)) l, secs_wf l = true -> keys_unique s = true ->
  secs_wf (aset sn s l) = true.
Proof.
  intros A sn s l H Hs. unfold secs_wf in *. apply andb_true_iff in H. destruct H as [H1 H2].
  rewrite keys_unique_aset by exact H1.
  rewrite (forallb_aset (fun s => keys_unique s) sn s l H2 Hs). reflexivity.
Qed.

Lemma sec_unique : forall {A} sn (l : list (string * list (string * A))) s, secs_wf l = true -> alookup sn l = Some s ->
  keys_unique s = true.
Proof.
  intros A sn l s H Hl. unfold secs_wf in H. apply andb_true_iff in H. destruct H as [_ H].
  exact (forallb_alookup (fun s => keys_unique s) sn l s H Hl).
Qed.

Lemma append_line_wf : forall st v, secs_wf (ps_secs st) = true -> secs_wf (ps_secs (append_line st v)) = true.
Proof.
  intros st v H. unfold append_line. destruct (ps_cur st) as [sn|]; [|exact H]. destruct (ps_opt st) as [o|]; [|exact H].
  destruct (alookup sn (ps_secs st)) as [sec|] eqn:E; [|exact H].
  destruct (alookup o sec) as [ls|]; [|exact H]. simpl.
  apply secs_wf_aset; auto. apply keys_unique_aset. eapply sec_unique; eauto.
Qed.

Lemma read_line_wf : forall st line st', secs_wf (ps_secs st) = true -> read_line st line = Ok st' ->
  secs_wf (ps_secs st') = true.
Proof.
  intros st line st' H Hr. unfold read_line in Hr.
  destruct (sempty _) in Hr.
  - inversion Hr; subst. destruct (negb _); [now apply append_line_wf|exact H].
  - destruct (_ && _) in Hr.
    + inversion Hr; subst. now apply append_line_wf.
    + destruct (section_header _) as [name|] in Hr.
      * destruct (ahas name (ps_secs st)) eqn:En; [discriminate|].
        destruct (String.eqb name "DEFAULT"); [discriminate|]. inversion Hr; subst. simpl.
        unfold secs_wf in *. apply andb_true_iff in H. destruct H as [H1 H2].
        apply andb_true_iff; split; [apply keys_unique_app_new; auto|].
        rewrite forallb_app. apply andb_true_iff; split; [exact H2|reflexivity].
      * destruct (ps_cur st) as [sn|]; [|discriminate].
        destruct (parse_option_line _) as [[k val]|]; [|discriminate].
        destruct (ahas k _) eqn:Ek; [discriminate|]. inversion Hr; subst. simpl.
        apply secs_wf_aset; auto. apply keys_unique_aset.
        destruct (alookup sn (ps_secs st)) eqn:E; [eapply sec_unique; eauto|reflexivity].
Qed.

Lemma read_lines_wf : forall ls st st', secs_wf (ps_secs st) = true -> read_lines st ls = Ok st' ->
  secs_wf (ps_secs st') = true.
Proof.
  induction ls as [|l ls IH]; intros st st' H Hr; simpl in Hr.
  - inversion Hr; subst; exact H.
  - destruct (read_line st l) as [st1|] eqn:E; [|discriminate]. simpl in Hr.
    eapply IH; [|exact Hr]. eapply read_line_wf; eauto.
Qed.

Lemma keys_unique_map : forall {A B} (f : A -> B) (l : list (string * A)),
  keys_unique (map (fun kv => (fst kv, f (snd kv))) l) = keys_unique l.
Proof.
  induction l as [|[k v] l IH]; [reflexivity|]. simpl. rewrite IH. f_equal. f_equal.
  unfold ahas. clear. induction l as [|[k' v'] l IH]; [reflexivity|]. simpl. destruct (String.eqb k k'); auto.
Qed.

Lemma parse_file_wf : forall text c, parse_file text = Ok c -> cfg_wf c = true.
Proof.
  intros text c H. unfold parse_file in H.
  destruct (read_lines _ _) as [st|] eqn:E; [|discriminate]. simpl in H. inversion H; subst.
  pose proof (read_lines_wf _ _ _ (eq_refl : secs_wf (ps_secs (mkps [] None None O)) = true) E) as Hwf.
  unfold secs_wf in Hwf. apply andb_true_iff in Hwf. destruct Hwf as [H1 H2].
  unfold cfg_wf. apply andb_true_iff; split; [rewrite (keys_unique_map join_values); exact H1|].
  rewrite forallb_forall in *. intros [n s] Hin. apply in_map_iff in Hin. destruct Hin as [[n' s'] [Heq Hin]].
  simpl in Heq. inversion Heq; subst. simpl. unfold join_values.
  rewrite (keys_unique_map (fun ls => rstrip (sjoin nl ls))). exact (H2 _ Hin).
Qed.

Lemma layering : forall dt fill ut d u c sn k v,
  parse_file dt = Ok d -> parse_file ut = Ok u -> read_params dt fill (Some ut) = Ok c ->
  cfg_get u sn k = Some v -> cfg_get c sn k = Some v.
Proof. intros dt fill ut d u c sn k v Hd Hu Hr Hg. exact (layering_spec dt fill ut d u c sn k v Hd Hu (parse_file_wf _ _ Hu) Hr Hg). Qed.

Lemma fallback : forall dt fill ut d u c sn k,
  parse_file dt = Ok d -> parse_file ut = Ok u -> read_params dt fill (Some ut) = Ok c ->
  cfg_get u sn k = None -> cfg_get c sn k = if fill then cfg_get d sn k else None.
Proof. intros dt fill ut d u c sn k Hd Hu Hr Hg. exact (fallback_spec dt fill ut d u c sn k Hd Hu (parse_file_wf _ _ Hu) Hr Hg). Qed.

(* ------------------------------------------------------------------------------------------------ small cases *)
Lemma print_parse_bool : forall b s, py_str (VBool b) = Ok s -> classify s = CBool b.
Proof. intros [] s H; inversion H; reflexivity. Qed.

Lemma print_parse_none : forall s, py_str VNone = Ok s -> classify s = CNone.
Proof. intros s H; inversion H; reflexivity. Qed.

Lemma nonfinite_tokens_are_strings :
  classify "inf" = CStr "inf" /\ classify "-inf" = CStr "-inf" /\ classify "nan" = CStr "nan".
Proof. repeat split; reflexivity. Qed.

Lemma typed_rt_plain_word : forall k s, key_ok k = true -> plain_word s = true -> roundtrip k (VStr s) = Ok (k, CStr s).
Proof. intros k s Hk Hs. apply typed_rt_str; [exact Hk|]. apply plain_word_safe; exact Hs. Qed.

(* the unrestricted statement over the supported scalar types, and its refutation *)
Definition typed_rt_statement : Prop :=
  forall k v, plain_key k = true -> supported v = true -> roundtrip k v = Ok (k, cls_of v).

Lemma typed_rt_false : ~ typed_rt_statement.
Proof.
  intro H. specialize (H "out_dir"%string (VStr "None") eq_refl eq_refl). vm_compute in H. discriminate.
Qed.
