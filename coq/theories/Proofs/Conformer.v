(* Lemmas about Model/Conformer.v (M5), used by Properties/C13.v. *)
From Coq Require Import QArith Qabs Sorting.Sorted Lia.
From E3FP Require Import Base.Prelude Model.Conformer.
Open Scope Z_scope.

(* ---- booleans on Q ----------------------------------------------------------------------------------------------- *)
Lemma Qlt_bool_true a b : Qlt_bool a b = true <-> (a < b)%Q.
Proof.
  unfold Qlt_bool. rewrite negb_true_iff. split; intro H.
  - apply Qnot_le_lt. intro C. apply Qle_bool_iff in C. congruence.
  - destruct (Qle_bool b a) eqn:E; [|reflexivity]. apply Qle_bool_iff in E. exfalso. apply (Qlt_not_le _ _ H E).
Qed.

Lemma Qlt_bool_false a b : Qlt_bool a b = false <-> (b <= a)%Q.
Proof.
  unfold Qlt_bool. rewrite negb_false_iff. apply Qle_bool_iff.
Qed.

(* ---- subsequences ------------------------------------------------------------------------------------------------ *)
Inductive subseq {A} : list A -> list A -> Prop :=
| sub_nil : subseq [] []
| sub_skip x l1 l2 : subseq l1 l2 -> subseq l1 (x :: l2)
| sub_take x l1 l2 : subseq l1 l2 -> subseq (x :: l1) (x :: l2).

Lemma subseq_nil_l {A} (l : list A) : subseq [] l.
Proof. induction l; constructor; assumption. Qed.

Lemma subseq_refl {A} (l : list A) : subseq l l.
Proof. induction l; constructor; assumption. Qed.

Lemma subseq_snoc_skip {A} (a l : list A) x : subseq a l -> subseq a (l ++ [x]).
Proof. induction 1; simpl; try (constructor; assumption). apply sub_skip, sub_nil. Qed.

Lemma subseq_snoc_take {A} (a l : list A) x : subseq a l -> subseq (a ++ [x]) (l ++ [x]).
Proof. induction 1; simpl; try (constructor; assumption). apply sub_take, sub_nil. Qed.

Lemma subseq_In {A} (a l : list A) : subseq a l -> forall x, In x a -> In x l.
Proof. induction 1; simpl; intros y Hy; auto. destruct Hy; auto. Qed.

Lemma subseq_NoDup {A} (a l : list A) : subseq a l -> NoDup l -> NoDup a.
Proof.
  induction 1; intro N; auto.
  - inversion N; auto.
  - inversion N; subst. constructor; auto. intro C. apply H2. eapply subseq_In; eauto.
Qed.

Lemma subseq_length {A} (a l : list A) : subseq a l -> (length a <= length l)%nat.
Proof. induction 1; simpl; lia. Qed.

Lemma subseq_sorted {A} (R : A -> A -> Prop) (a l : list A) : subseq a l -> StronglySorted R l -> StronglySorted R a.
Proof.
  induction 1; intro S; auto.
  - inversion S; auto.
  - inversion S; subst. constructor; auto. rewrite Forall_forall in *. intros y Hy. apply H3. eapply subseq_In; eauto.
Qed.

(* ---- ForallOrdPairs helpers -------------------------------------------------------------------------------------- *)
Lemma FOP_snoc {A} (R : A -> A -> Prop) l x :
  ForallOrdPairs R l -> Forall (fun a => R a x) l -> ForallOrdPairs R (l ++ [x]).
Proof.
  induction 1 as [|a l Ha Hl IH]; intro F; simpl.
  - constructor; constructor.
  - inversion F; subst. constructor; [|auto].
    apply Forall_app. split; [assumption|]. constructor; [assumption|constructor].
Qed.

Lemma FOP_impl_In {A} (R R' : A -> A -> Prop) l :
  ForallOrdPairs R l -> (forall a b, In a l -> In b l -> R a b -> R' a b) -> ForallOrdPairs R' l.
Proof.
  induction 1 as [|a l Ha Hl IH]; intro H; constructor.
  - rewrite Forall_forall in *. intros b Hb. apply H; simpl; auto.
  - apply IH. intros x y Hx Hy. apply H; simpl; auto.
Qed.

Lemma FOP_nth {A} (R : A -> A -> Prop) l d :
  ForallOrdPairs R l -> forall i j, (i < j)%nat -> (j < length l)%nat -> R (nth i l d) (nth j l d).
Proof.
  induction 1 as [|a l Ha Hl IH]; intros i j Hij Hj; simpl in *; [lia|].
  destruct j as [|j]; [lia|]. destruct i as [|i].
  - rewrite Forall_forall in Ha. apply Ha. apply nth_In. lia.
  - apply IH; lia.
Qed.

(* ---- set_nth / reverse_enumerate / assign ------------------------------------------------------------------------ *)
Lemma set_nth_app {A} (l : list A) z t v : set_nth (length l) v (l ++ z :: t) = l ++ v :: t.
Proof. induction l; simpl; [reflexivity| f_equal; assumption]. Qed.

Lemma reverse_enumerate_snoc {A} (l : list A) a : reverse_enumerate (l ++ [a]) = (length l, a) :: reverse_enumerate l.
Proof.
  unfold reverse_enumerate. rewrite app_length. simpl. rewrite Nat.add_1_r, seq_S. simpl.
  rewrite !rev_unit. reflexivity.
Qed.

Lemma length_snoc_inv {A B} (l : list A) (acc : list B) a :
  length l = length (acc ++ [a]) -> exists l' z, l = l' ++ [z] /\ length l' = length acc.
Proof.
  intro H. rewrite app_length in H. simpl in H.
  destruct (@exists_last _ l) as [l' [z E]].
  - intro C. subst. simpl in H. lia.
  - exists l', z. split; [assumption|]. subst. rewrite app_length in H. simpl in H. lia.
Qed.

Lemma mset_eq m i j v : mset m i j v i j = v.
Proof. unfold mset. rewrite !Nat.eqb_refl. reflexivity. Qed.

Lemma mset_neq m i j v a b : (a, b) <> (i, j) -> mset m i j v a b = m a b.
Proof.
  intro H. unfold mset. destruct (Nat.eqb a i) eqn:E1; [|reflexivity]. destruct (Nat.eqb b j) eqn:E2; [|reflexivity].
  apply Nat.eqb_eq in E1, E2. subst. congruence.
Qed.

Lemma assign_notin cells : forall vals m a b, ~ In (a, b) cells -> assign m cells vals a b = m a b.
Proof.
  induction cells as [|[i j] c IH]; intros vals m a b H; simpl; [reflexivity|].
  destruct vals as [|v t]; [reflexivity|].
  rewrite IH; [|intro C; apply H; right; assumption].
  apply mset_neq. intro C. apply H. left. congruence.
Qed.

Lemma assign_hit (g : nat -> nat * nat) (f : nat -> Q) :
  (forall x y, g x = g y -> x = y) ->
  forall acc m a, NoDup acc -> In a acc -> assign m (map g acc) (map f acc) (fst (g a)) (snd (g a)) = f a.
Proof.
  intros Hg. induction acc as [|a0 acc IH]; intros m a N Hin; [destruct Hin|].
  inversion N; subst. simpl. destruct (g a0) as [i j] eqn:E.
  destruct Hin as [->|Hin].
  - rewrite assign_notin.
    + rewrite E. simpl. apply mset_eq.
    + rewrite in_map_iff. intros [y [Hy Hy']]. rewrite <- surjective_pairing in Hy. apply Hg in Hy. subst. contradiction.
  - apply IH; assumption.
Qed.

Lemma nth_map_true {A} (l : list A) r : nth r (map (fun _ => true) l) true = true.
Proof. revert r. induction l; destruct r; simpl; auto. Qed.

Lemma NoDup_snoc_inv {A} (l : list A) x : NoDup (l ++ [x]) -> NoDup l /\ ~ In x l.
Proof. intro N. apply NoDup_remove in N. rewrite app_nil_r in N. exact N. Qed.

Section Argsort.
  Variable energies : list Q.

  Notation sorting_perm := (sorting_perm energies).

  (* ---- the stable argsort is a sorting permutation --------------------------------------------------------------- *)
  Notation en := (en energies).
  Notation ins := (ins energies).
  Notation argsort_upto := (argsort_upto energies).

  Lemma In_ins i l x : In x (ins i l) <-> x = i \/ In x l.
  Proof.
    induction l as [|j t IH]; simpl; [intuition|].
    destruct (Qle_bool (en j) (en i)); simpl; [rewrite IH|]; intuition.
  Qed.

  Lemma NoDup_ins i l : ~ In i l -> NoDup l -> NoDup (ins i l).
  Proof.
    induction l as [|j t IH]; simpl; intros Hi N.
    - constructor; [intros []|constructor].
    - destruct (Qle_bool (en j) (en i)).
      + inversion N; subst. constructor.
        * rewrite In_ins. intros [->|C]; [apply Hi; left; reflexivity|contradiction].
        * apply IH; [intro C; apply Hi; right; assumption|assumption].
      + constructor; assumption.
  Qed.

  Lemma sorted_ins i l :
    StronglySorted (fun a b => (en a <= en b)%Q) l -> StronglySorted (fun a b => (en a <= en b)%Q) (ins i l).
  Proof.
    induction 1 as [|j t Ht IH Hall]; simpl.
    - constructor; constructor.
    - destruct (Qle_bool (en j) (en i)) eqn:E.
      + apply Qle_bool_iff in E. constructor; [assumption|].
        rewrite Forall_forall in *. intros y Hy. apply In_ins in Hy. destruct Hy as [->|Hy]; auto.
      + assert (L : (en i < en j)%Q).
        { apply Qnot_le_lt. intro C. apply Qle_bool_iff in C. congruence. }
        constructor; [constructor; assumption|].
        constructor; [apply Qlt_le_weak; assumption|].
        rewrite Forall_forall in *. intros y Hy. apply Qle_trans with (en j); [apply Qlt_le_weak; assumption|auto].
  Qed.

  Lemma argsort_upto_spec n :
    NoDup (argsort_upto n) /\ (forall i, In i (argsort_upto n) <-> (i < n)%nat) /\
    StronglySorted (fun a b => (en a <= en b)%Q) (argsort_upto n).
  Proof.
    induction n as [|n (N & R & S)]; simpl.
    - split; [constructor|]. split; [intro i; split; [intros []|lia]|constructor].
    - split; [|split].
      + apply NoDup_ins; [rewrite R; lia|assumption].
      + intro i. rewrite In_ins, R. lia.
      + apply sorted_ins. assumption.
  Qed.

  Lemma argsort_sorting_perm : sorting_perm (argsort energies).
  Proof. apply argsort_upto_spec. Qed.
End Argsort.

Section Filter.
  Variable rmsd : nat -> nat -> Q.
  Variable energies : list Q.
  Variable o : fopts.

  Notation en := (en energies).
  Notation step := (step rmsd energies o).
  Notation run := (run rmsd energies o).
  Notation rmsd_loop := (rmsd_loop rmsd o).
  Notation finit := (finit energies).
  Notation sorting_perm := (sorting_perm energies).

  Lemma rmsd_loop_gen fit : forall acc these tail, length these = length acc ->
    rmsd_loop fit (reverse_enumerate acc) (these ++ tail) =
    if existsb (fun a => Qlt_bool (rmsd a fit) (o_cutoff o)) acc then None
    else Some (map (fun a => rmsd a fit) acc ++ tail).
  Proof.
    induction acc as [|a acc IH] using rev_ind; intros these tail H.
    - destruct these; [|discriminate]. reflexivity.
    - destruct (length_snoc_inv _ _ _ H) as [th [z [-> Hl]]].
      rewrite reverse_enumerate_snoc. simpl.
      rewrite existsb_app. simpl. rewrite orb_false_r.
      destruct (Qlt_bool (rmsd a fit) (o_cutoff o)) eqn:E.
      + rewrite orb_true_r. reflexivity.
      + rewrite orb_false_r. rewrite <- app_assoc. simpl. rewrite <- Hl, set_nth_app.
        rewrite IH by assumption. rewrite map_app, <- app_assoc. reflexivity.
  Qed.

  Lemma rmsd_loop_spec fit acc :
    rmsd_loop fit (reverse_enumerate acc) (map (fun _ => 0%Q) acc) =
    if existsb (fun a => Qlt_bool (rmsd a fit) (o_cutoff o)) acc then None else Some (map (fun a => rmsd a fit) acc).
  Proof.
    pose proof (rmsd_loop_gen fit acc (map (fun _ => 0%Q) acc) [] (map_length _ _)) as H.
    rewrite !app_nil_r in H. exact H.
  Qed.

  (* ---- one step of the loop -------------------------------------------------------------------------------------- *)
  Definition row_cells (fit : nat) (acc : list nat) := map (fun a => (fit, a)) acc.
  Definition col_cells (fit : nat) (acc : list nat) := map (fun a => (a, fit)) acc.

  Inductive step_case (s : fstate) (x : nat) : Prop :=
  | SC_first :
      s_acc s = [] -> s_acc (step s x) = [x] -> s_rej (step s x) = s_rej s -> s_mat (step s x) = s_mat s ->
      s_below (step s x) = (if negb (Qeq_bool (o_ediff o) (-1)) then map (fun e => Qle_bool e (en x + o_ediff o)) energies
                            else s_below s) -> step_case s x
  | SC_reject :
      s_acc s <> [] -> step s x = reject s x ->
      (o_first o <= Z.of_nat (length (s_acc s)) \/ nth x (s_below s) true = false \/
       exists a, In a (s_acc s) /\ (rmsd a x < o_cutoff o)%Q) -> step_case s x
  | SC_accept :
      s_acc s <> [] -> Z.of_nat (length (s_acc s)) < o_first o -> nth x (s_below s) true = true ->
      (forall a, In a (s_acc s) -> (o_cutoff o <= rmsd a x)%Q) ->
      s_acc (step s x) = s_acc s ++ [x] -> s_rej (step s x) = s_rej s -> s_below (step s x) = s_below s ->
      s_mat (step s x) = assign (assign (s_mat s) (row_cells x (s_acc s)) (map (fun a => rmsd a x) (s_acc s)))
                                (col_cells x (s_acc s)) (map (fun a => rmsd a x) (s_acc s)) -> step_case s x.

  Definition step_body (s : fstate) (x : nat) : fstate :=
    if Z.of_nat (length (s_acc s)) >=? o_first o then reject s x
    else if negb (nth x (s_below s) true) then reject s x
    else match rmsd_loop x (reverse_enumerate (s_acc s)) (map (fun _ => 0%Q) (s_acc s)) with
         | None => reject s x
         | Some these =>
             mkfs (s_acc s ++ [x]) (s_rej s)
                  (assign (assign (s_mat s) (row_cells x (s_acc s)) these) (col_cells x (s_acc s)) these) (s_below s)
         end.

  Lemma step_nonempty s x : s_acc s <> [] -> step s x = step_body s x.
  Proof.
    intro H. unfold Conformer.step, step_body, row_cells, col_cells. destruct (s_acc s); [contradiction|reflexivity].
  Qed.

  Lemma step_empty s x : s_acc s = [] ->
    step s x = mkfs [x] (s_rej s) (s_mat s)
                 (if negb (Qeq_bool (o_ediff o) (-1)) then map (fun e => Qle_bool e (en x + o_ediff o)) energies else s_below s).
  Proof. intro H. unfold Conformer.step. rewrite H. reflexivity. Qed.

  Lemma step_spec s x : step_case s x.
  Proof.
    destruct (s_acc s) as [|a0 t] eqn:Ea.
    - apply SC_first; try assumption; rewrite (step_empty s x Ea); reflexivity.
    - assert (Hne : s_acc s <> []) by (rewrite Ea; discriminate).
      clear Ea a0 t.
      pose proof (step_nonempty s x Hne) as HS. unfold step_body in HS.
      destruct (Z.of_nat (length (s_acc s)) >=? o_first o) eqn:E1.
      + apply SC_reject; [assumption|assumption|left; lia].
      + destruct (nth x (s_below s) true) eqn:E2; simpl in HS.
        * rewrite rmsd_loop_spec in HS.
          destruct (existsb (fun a => Qlt_bool (rmsd a x) (o_cutoff o)) (s_acc s)) eqn:E3.
          -- apply SC_reject; [assumption|assumption|].
             right; right. apply existsb_exists in E3. destruct E3 as [a [Ha Hlt]]. exists a. split; [assumption|].
             apply Qlt_bool_true. assumption.
          -- assert (Hall : forall a, In a (s_acc s) -> (o_cutoff o <= rmsd a x)%Q).
             { intros a Ha. apply Qlt_bool_false. destruct (Qlt_bool (rmsd a x) (o_cutoff o)) eqn:E4; [|reflexivity].
               assert (existsb (fun a => Qlt_bool (rmsd a x) (o_cutoff o)) (s_acc s) = true) by (apply existsb_exists; eauto).
               congruence. }
             apply SC_accept; try assumption; try lia; rewrite HS; reflexivity.
        * apply SC_reject; [assumption|assumption|right; left; assumption].
  Qed.

  Lemma run_snoc l x : run (l ++ [x]) = step (run l) x.
  Proof. unfold Conformer.run. rewrite fold_left_app. reflexivity. Qed.

  Lemma run_ind (P : list nat -> fstate -> Prop) :
    P [] finit -> (forall pre x, P pre (run pre) -> P (pre ++ [x]) (step (run pre) x)) -> forall l, P l (run l).
  Proof.
    intros H0 HS l. induction l as [|x l IH] using rev_ind; [exact H0|]. rewrite run_snoc. apply HS. exact IH.
  Qed.

  Lemma step_acc_ext s x : s_acc (step s x) = s_acc s \/ s_acc (step s x) = s_acc s ++ [x].
  Proof.
    destruct (step_spec s x) as [E E' _ _ _|_ E _|_ _ _ _ E _ _ _].
    - right. rewrite E, E'. reflexivity.
    - left. rewrite E. reflexivity.
    - right. assumption.
  Qed.

  (* accepted is a subsequence of the order processed so far *)
  Lemma acc_subseq l : subseq (s_acc (run l)) l.
  Proof.
    apply (run_ind (fun l s => subseq (s_acc s) l)); [constructor|].
    intros pre x IH. destruct (step_acc_ext (run pre) x) as [E|E]; rewrite E.
    - apply subseq_snoc_skip. assumption.
    - apply subseq_snoc_take. assumption.
  Qed.

  Lemma acc_prefix pre : forall post, exists t, s_acc (run (pre ++ post)) = s_acc (run pre) ++ t.
  Proof.
    induction post as [|x post IH] using rev_ind.
    - exists []. rewrite !app_nil_r. reflexivity.
    - destruct IH as [t Ht]. rewrite app_assoc, run_snoc.
      destruct (step_acc_ext (run (pre ++ post)) x) as [E|E]; rewrite E, Ht.
      + exists t. reflexivity.
      + exists (t ++ [x]). rewrite app_assoc. reflexivity.
  Qed.

  (* every index processed is accepted or rejected, and nothing else is *)
  Lemma acc_rej_partition l : forall x, In x l <-> In x (s_acc (run l)) \/ In x (s_rej (run l)).
  Proof.
    apply (run_ind (fun l s => forall x, In x l <-> In x (s_acc s) \/ In x (s_rej s))).
    - simpl. tauto.
    - intros pre y IH x. rewrite in_app_iff, IH. simpl.
      destruct (step_spec (run pre) y) as [E E' R _ _|_ E _|_ _ _ _ E R _ _].
      + rewrite E', R, E. simpl. tauto.
      + rewrite E. simpl. rewrite in_app_iff. simpl. tauto.
      + rewrite E, R. rewrite in_app_iff. simpl. tauto.
  Qed.

  Lemma acc_first l : (l = [] /\ s_acc (run l) = []) \/ exists x l' t, l = x :: l' /\ s_acc (run l) = x :: t.
  Proof.
    apply (run_ind (fun l s => (l = [] /\ s_acc s = []) \/ exists x l' t, l = x :: l' /\ s_acc s = x :: t)).
    - left. split; reflexivity.
    - intros pre y [[-> E]|[x [l' [t [-> E]]]]]; right.
      + exists y, [], []. split; [reflexivity|].
        destruct (step_spec (run []) y) as [_ E' _ _ _|C _ _|C _ _ _ _ _ _ _]; try contradiction. assumption.
      + destruct (step_acc_ext (run (x :: l')) y) as [E'|E']; rewrite E', E.
        * exists x, (l' ++ [y]), t. split; reflexivity.
        * exists x, (l' ++ [y]), (t ++ [y]). split; reflexivity.
  Qed.

  (* pairwise separation of the accepted, earlier against later *)
  Lemma acc_far_ordered l : ForallOrdPairs (fun a b => (o_cutoff o <= rmsd a b)%Q) (s_acc (run l)).
  Proof.
    apply (run_ind (fun l s => ForallOrdPairs (fun a b => (o_cutoff o <= rmsd a b)%Q) (s_acc s))); [constructor|].
    intros pre x IH.
    destruct (step_spec (run pre) x) as [_ E _ _ _|_ E _|_ _ _ Hall E _ _ _].
    - rewrite E. constructor; constructor.
    - rewrite E. assumption.
    - rewrite E. apply FOP_snoc; [assumption|]. apply Forall_forall. assumption.
  Qed.

  Lemma acc_count l : Z.of_nat (length (s_acc (run l))) <= Z.max 1 (o_first o).
  Proof.
    apply (run_ind (fun l s => Z.of_nat (length (s_acc s)) <= Z.max 1 (o_first o))); [simpl; lia|].
    intros pre x IH.
    destruct (step_spec (run pre) x) as [_ E _ _ _|_ E _|_ Hlt _ _ E _ _ _].
    - rewrite E. simpl. lia.
    - rewrite E. assumption.
    - rewrite E, app_length. simpl. lia.
  Qed.

  (* the energy window: once the first conformer a0 is accepted the mask is the one computed from it, and everything accepted later passed it *)
  Definition window_mask (a0 : nat) : list bool :=
    if negb (Qeq_bool (o_ediff o) (-1)) then map (fun e => Qle_bool e (en a0 + o_ediff o)) energies
    else map (fun _ => true) energies.

  Lemma acc_window_mask l : forall a0 t, s_acc (run l) = a0 :: t ->
    s_below (run l) = window_mask a0 /\ forall a, In a t -> nth a (window_mask a0) true = true.
  Proof.
    apply (run_ind (fun l s => forall a0 t, s_acc s = a0 :: t ->
                     s_below s = window_mask a0 /\ forall a, In a t -> nth a (window_mask a0) true = true)).
    - intros a0 t H. discriminate.
    - intros pre x IH a0 t H.
      destruct (step_spec (run pre) x) as [E0 E _ _ B|_ E _|Hne _ Hb _ E _ B _].
      + rewrite E in H. inversion H; subst. split; [|intros a []].
        rewrite B. unfold window_mask. destruct (negb (Qeq_bool (o_ediff o) (-1))); [reflexivity|].
        (* the state before was the initial mask: no conformer accepted yet means nothing processed *)
        destruct (acc_first pre) as [[-> _]|[y [l' [t' [_ C]]]]]; [reflexivity|congruence].
      + rewrite E in *. apply IH. assumption.
      + rewrite E in H. rewrite B.
        destruct (s_acc (run pre)) as [|b0 t0] eqn:Ea; [contradiction|].
        simpl in H. inversion H; subst. destruct (IH _ _ eq_refl) as [IB IT]. split; [assumption|].
        intros a Ha. apply in_app_iff in Ha. destruct Ha as [Ha|[<-|[]]]; [auto|]. rewrite <- IB. assumption.
  Qed.

  Lemma window_mask_sound a0 a : ~ (o_ediff o == -1)%Q -> (a < length energies)%nat ->
    nth a (window_mask a0) true = true -> (en a <= en a0 + o_ediff o)%Q.
  Proof.
    intros Hd Ha H. unfold window_mask in H.
    assert (E : Qeq_bool (o_ediff o) (-1) = false).
    { destruct (Qeq_bool (o_ediff o) (-1)) eqn:E; [|reflexivity]. exfalso. apply Hd. apply Qeq_bool_iff. assumption. }
    rewrite E in H. simpl in H.
    rewrite (nth_indep _ true (Qle_bool 0 (en a0 + o_ediff o))) in H by (rewrite map_length; assumption).
    rewrite (map_nth (fun e => Qle_bool e (en a0 + o_ediff o)) energies 0%Q a) in H.
    apply Qle_bool_iff in H. exact H.
  Qed.

  (* ---- the RMSD matrix ------------------------------------------------------------------------------------------- *)
  Lemma in_row_cells x acc a b : In (a, b) (row_cells x acc) <-> a = x /\ In b acc.
  Proof.
    unfold row_cells. rewrite in_map_iff. split.
    - intros [y [E H]]. inversion E; subst. auto.
    - intros [-> H]. exists b. auto.
  Qed.

  Lemma in_col_cells x acc a b : In (a, b) (col_cells x acc) <-> b = x /\ In a acc.
  Proof.
    unfold col_cells. rewrite in_map_iff. split.
    - intros [y [E H]]. inversion E; subst. auto.
    - intros [-> H]. exists a. auto.
  Qed.

  Definition mat_inv (s : fstate) : Prop :=
    (forall a b, ~ In a (s_acc s) \/ ~ In b (s_acc s) \/ a = b -> s_mat s a b = 0%Q) /\
    ForallOrdPairs (fun a b => s_mat s a b = rmsd a b /\ s_mat s b a = rmsd a b) (s_acc s).

  Lemma mat_invariant l : NoDup l -> mat_inv (run l).
  Proof.
    apply (run_ind (fun l s => NoDup l -> mat_inv s)).
    - intros _. split; [reflexivity|constructor].
    - intros pre x IH N.
      destruct (NoDup_snoc_inv _ _ N) as [Npre Hx].
      specialize (IH Npre). destruct IH as [Z0 FP].
      assert (Hxa : ~ In x (s_acc (run pre))) by (intro C; apply Hx; eapply subseq_In; [apply acc_subseq|exact C]).
      assert (Nacc : NoDup (s_acc (run pre))) by (eapply subseq_NoDup; [apply acc_subseq|assumption]).
      destruct (step_spec (run pre) x) as [E0 E _ M _|_ E _|_ _ _ _ E _ _ M].
      + split.
        * intros a b _. rewrite M. apply Z0. left. rewrite E0. intros [].
        * rewrite E. constructor; constructor.
      + rewrite E. split; assumption.
      + split.
        * intros a b H. rewrite M.
          rewrite assign_notin, assign_notin.
          -- apply Z0. rewrite E in H. rewrite !in_app_iff in H. simpl in H. tauto.
          -- rewrite in_row_cells. intros [-> Hb]. rewrite E in H. rewrite !in_app_iff in H. simpl in H.
             destruct H as [H|[H|H]]; [tauto|tauto|]. subst. contradiction.
          -- rewrite in_col_cells. intros [-> Ha]. rewrite E in H. rewrite !in_app_iff in H. simpl in H.
             destruct H as [H|[H|H]]; [tauto|tauto|]. subst. contradiction.
        * rewrite E. apply FOP_snoc.
          -- apply (FOP_impl_In _ _ _ FP). intros a b Ha Hb [H1 H2]. rewrite M.
             rewrite !assign_notin; [split; assumption| | | |];
               rewrite ?in_row_cells, ?in_col_cells; intros [-> C]; contradiction.
          -- apply Forall_forall. intros a Ha. rewrite M. split.
             ++ (* (a, x) is a cell of the column assignment *)
                apply (assign_hit (fun a => (a, x)) (fun a => rmsd a x)); [intros u v Huv; congruence|assumption|assumption].
             ++ (* (x, a): untouched by the column assignment, set by the row assignment *)
                rewrite assign_notin by (rewrite in_col_cells; intros [-> C]; contradiction).
                apply (assign_hit (fun a => (x, a)) (fun a => rmsd a x)); [intros u v Huv; congruence|assumption|assumption].
  Qed.

  (* ---- statements about the returned triple ---------------------------------------------------------------------- *)
  Notation accepted := (accepted rmsd energies o).
  Notation out_energies := (out_energies rmsd energies o).
  Notation out_rmsds := (out_rmsds rmsd energies o).

  Lemma accepted_run order : accepted order = s_acc (run order).
  Proof. reflexivity. Qed.

  Lemma accepted_subseq order : subseq (accepted order) order.
  Proof. apply acc_subseq. Qed.

  Lemma accepted_nodup order : NoDup order -> NoDup (accepted order).
  Proof. intro N. eapply subseq_NoDup; [apply accepted_subseq|assumption]. Qed.

  Lemma accepted_subset order i : In i (accepted order) -> In i order.
  Proof. apply subseq_In, accepted_subseq. Qed.

  Lemma accepted_in_range order i : sorting_perm order -> In i (accepted order) -> (i < length energies)%nat.
  Proof. intros (_ & R & _) H. apply R. apply accepted_subset. assumption. Qed.

  Lemma accepted_sorted_idx order :
    StronglySorted (fun a b => (en a <= en b)%Q) order -> StronglySorted (fun a b => (en a <= en b)%Q) (accepted order).
  Proof. apply subseq_sorted, accepted_subseq. Qed.

  Lemma sorted_map {A B} (R : B -> B -> Prop) (f : A -> B) l :
    StronglySorted (fun a b => R (f a) (f b)) l -> StronglySorted R (map f l).
  Proof.
    induction 1; simpl; constructor; auto. rewrite Forall_forall in *. intros y Hy. apply in_map_iff in Hy.
    destruct Hy as [z [<- Hz]]. auto.
  Qed.

  Lemma energies_reported order : out_energies order = map en (accepted order).
  Proof. reflexivity. Qed.

  Lemma accepted_sorted order : sorting_perm order -> StronglySorted Qle (out_energies order).
  Proof. intros (_ & _ & S). rewrite energies_reported. apply sorted_map. apply accepted_sorted_idx. assumption. Qed.

  Lemma accepted_far_ordered order : ForallOrdPairs (fun a b => (o_cutoff o <= rmsd a b)%Q) (accepted order).
  Proof. apply acc_far_ordered. Qed.

  Lemma accepted_far order : (forall a b, rmsd a b == rmsd b a)%Q ->
    forall a b, In a (accepted order) -> In b (accepted order) -> a <> b -> (o_cutoff o <= rmsd a b)%Q.
  Proof.
    intros Sym a b Ha Hb Hab.
    destruct (ForallOrdPairs_In (accepted_far_ordered order) a b Ha Hb) as [E|[H|H]]; [contradiction|assumption|].
    rewrite Sym. assumption.
  Qed.

  Lemma accepted_le_first order : Z.of_nat (length (accepted order)) <= Z.max 1 (o_first o).
  Proof. apply acc_count. Qed.

  Lemma accepted_le_pool order : NoDup order -> (forall i, In i order -> (i < length energies)%nat) ->
    (length (accepted order) <= length energies)%nat.
  Proof.
    intros N R. pose proof (subseq_length _ _ (accepted_subseq order)) as H.
    assert (length order <= length energies)%nat; [|lia].
    rewrite <- (seq_length (length energies) 0). apply NoDup_incl_length; [assumption|].
    intros i Hi. apply in_seq. specialize (R i Hi). lia.
  Qed.

  Lemma lowest_first order : sorting_perm order -> order <> [] ->
    exists a0 t, accepted order = a0 :: t /\ a0 = hd 0%nat order /\ forall i, (i < length energies)%nat -> (en a0 <= en i)%Q.
  Proof.
    intros (N & R & S) Hne.
    destruct (acc_first order) as [[-> _]|[x [l' [t [-> E]]]]]; [contradiction|].
    exists x, t. split; [exact E|]. split; [reflexivity|].
    intros i Hi. apply R in Hi. destruct Hi as [<-|Hi]; [apply Qle_refl|].
    inversion S; subst. rewrite Forall_forall in H2. auto.
  Qed.

  Lemma accepted_window order : sorting_perm order -> ~ (o_ediff o == -1)%Q ->
    forall a0 t, accepted order = a0 :: t -> forall a, In a t -> (en a <= en a0 + o_ediff o)%Q.
  Proof.
    intros SP Hd a0 t E a Ha.
    destruct (acc_window_mask order a0 t E) as [_ H].
    apply window_mask_sound; [assumption| |auto].
    apply (accepted_in_range order); [assumption|]. rewrite E. right. assumption.
  Qed.

  Lemma accepted_window_all order : sorting_perm order -> ~ (o_ediff o == -1)%Q -> (0 <= o_ediff o)%Q ->
    forall a0 t, accepted order = a0 :: t -> forall a, In a (accepted order) -> (en a <= en a0 + o_ediff o)%Q.
  Proof.
    intros SP Hd Hpos a0 t E a Ha. rewrite E in Ha. destruct Ha as [<-|Ha].
    - rewrite <- (Qplus_0_r (en a0)) at 1. apply Qplus_le_r. assumption.
    - eapply accepted_window; eauto.
  Qed.

  Lemma out_rmsds_nth order i j : (i < length (accepted order))%nat -> (j < length (accepted order))%nat ->
    nth j (nth i (out_rmsds order) []) 0%Q = s_mat (run order) (nth i (accepted order) 0%nat) (nth j (accepted order) 0%nat).
  Proof.
    intros Hi Hj. unfold out_rmsds, filter_core, out_of. simpl. fold (accepted order). rewrite accepted_run in *.
    set (acc := s_acc (run order)) in *. set (m := s_mat (run order)).
    rewrite (nth_indep _ [] (map (fun b => m 0%nat b) acc)) by (rewrite map_length; assumption).
    rewrite (map_nth (fun a => map (fun b => m a b) acc) acc 0%nat i).
    rewrite (nth_indep _ 0%Q (m (nth i acc 0%nat) 0%nat)) by (rewrite map_length; assumption).
    rewrite (map_nth (fun b => m (nth i acc 0%nat) b) acc 0%nat j). reflexivity.
  Qed.

  Lemma out_rmsds_shape order :
    length (out_rmsds order) = length (accepted order) /\
    forall r, In r (out_rmsds order) -> length r = length (accepted order).
  Proof.
    unfold out_rmsds, filter_core, out_of. simpl. fold (accepted order). rewrite accepted_run. split.
    - apply map_length.
    - intros r Hr. apply in_map_iff in Hr. destruct Hr as [a [<- _]]. apply map_length.
  Qed.

  Lemma rmsd_reported order : NoDup order ->
    forall i j, (i < length (accepted order))%nat -> (j < length (accepted order))%nat ->
    nth j (nth i (out_rmsds order) []) 0%Q =
    if Nat.eqb i j then 0%Q
    else rmsd (nth (Nat.min i j) (accepted order) 0%nat) (nth (Nat.max i j) (accepted order) 0%nat).
  Proof.
    intros N i j Hi Hj. rewrite out_rmsds_nth by assumption.
    destruct (mat_invariant order N) as [Z0 FP]. rewrite <- accepted_run in *.
    destruct (Nat.eqb i j) eqn:E.
    - apply Nat.eqb_eq in E. subst. apply Z0. right; right. reflexivity.
    - apply Nat.eqb_neq in E.
      destruct (Nat.lt_ge_cases i j) as [L|G].
      + rewrite Nat.min_l, Nat.max_r by lia.
        apply (FOP_nth _ _ 0%nat FP i j L Hj).
      + assert (L : (j < i)%nat) by lia. rewrite Nat.min_r, Nat.max_l by lia.
        apply (FOP_nth _ _ 0%nat FP j i L Hi).
  Qed.

  Lemma rmsd_reported_sym order : NoDup order -> (forall a b, rmsd a b == rmsd b a)%Q -> (forall a, rmsd a a == 0)%Q ->
    forall i j, (i < length (accepted order))%nat -> (j < length (accepted order))%nat ->
    (nth j (nth i (out_rmsds order) []) 0%Q == rmsd (nth i (accepted order) 0%nat) (nth j (accepted order) 0%nat))%Q.
  Proof.
    intros N Sym Diag i j Hi Hj. rewrite rmsd_reported by assumption.
    destruct (Nat.eqb i j) eqn:E.
    - apply Nat.eqb_eq in E. subst. symmetry. apply Diag.
    - apply Nat.eqb_neq in E. destruct (Nat.lt_ge_cases i j) as [L|G].
      + rewrite Nat.min_l, Nat.max_r by lia. reflexivity.
      + rewrite Nat.min_r, Nat.max_l by lia. apply Sym.
  Qed.

  Lemma accepted_nodup_subset order : sorting_perm order ->
    NoDup (accepted order) /\ (forall i, In i (accepted order) -> (i < length energies)%nat) /\ subseq (accepted order) order.
  Proof.
    intro SP. split; [apply accepted_nodup; apply SP|]. split; [intro i; apply accepted_in_range; assumption|apply accepted_subseq].
  Qed.

  Lemma rmsd_reported_full order : NoDup order ->
    (length (out_rmsds order) = length (accepted order) /\
     forall r, In r (out_rmsds order) -> length r = length (accepted order)) /\
    forall i j, (i < length (accepted order))%nat -> (j < length (accepted order))%nat ->
      nth j (nth i (out_rmsds order) []) 0%Q =
      if Nat.eqb i j then 0%Q
      else rmsd (nth (Nat.min i j) (accepted order) 0%nat) (nth (Nat.max i j) (accepted order) 0%nat).
  Proof. intro N. split; [apply out_rmsds_shape|apply rmsd_reported; assumption]. Qed.

  (* every rejected conformer broke one of the three rules with respect to the conformers accepted when its turn came *)
  Lemma maximality order pre r post : order = pre ++ r :: post -> NoDup order -> ~ In r (accepted order) ->
    exists A t, s_acc (run pre) = A /\ accepted order = A ++ t /\ A <> [] /\
      (o_first o <= Z.of_nat (length A) \/
       (~ (o_ediff o == -1)%Q /\ (r < length energies)%nat /\ ~ (en r <= en (hd 0%nat A) + o_ediff o)%Q) \/
       (length energies <= r)%nat \/
       exists a, In a A /\ (rmsd a r < o_cutoff o)%Q).
  Proof.
    intros -> N Hr.
    assert (E1 : pre ++ r :: post = (pre ++ [r]) ++ post) by (rewrite <- app_assoc; reflexivity).
    destruct (acc_prefix (pre ++ [r]) post) as [t Ht]. rewrite <- E1 in Ht. rewrite run_snoc in Ht.
    rewrite accepted_run in Hr. rewrite Ht in Hr.
    destruct (step_spec (run pre) r) as [_ E _ _ _|Hne E Why|_ _ _ _ E _ _ _].
    - exfalso. apply Hr. rewrite E. left. reflexivity.
    - exists (s_acc (run pre)), t. split; [reflexivity|]. split; [rewrite accepted_run, Ht, E; reflexivity|]. split; [assumption|].
      destruct Why as [H|[H|H]]; [left; assumption| |right; right; right; assumption].
      destruct (s_acc (run pre)) as [|a0 t0] eqn:Ea; [contradiction|].
      destruct (acc_window_mask pre a0 t0 Ea) as [B _]. rewrite B in H. simpl.
      destruct (Nat.lt_ge_cases r (length energies)) as [L|G]; [|right; right; left; assumption].
      right; left. unfold window_mask in H.
      destruct (Qeq_bool (o_ediff o) (-1)) eqn:Eq; simpl in H.
      + exfalso. rewrite nth_map_true in H. discriminate.
      + split; [intro C; apply Qeq_bool_iff in C; congruence|]. split; [assumption|].
        rewrite (nth_indep _ true (Qle_bool 0 (en a0 + o_ediff o))) in H by (rewrite map_length; assumption).
        rewrite (map_nth (fun e => Qle_bool e (en a0 + o_ediff o)) energies 0%Q r) in H.
        intro C. apply Qle_bool_iff in C. fold (en r) in H. congruence.
    - exfalso. apply Hr. rewrite E. apply in_app_iff. left. apply in_app_iff. right. left. reflexivity.
  Qed.

End Filter.

(* ---- the generator object ---------------------------------------------------------------------------------------- *)
Definition cfg (g : gen) : Z * Z * Q * Q * Z := (g_num_conf g, g_first g, g_cutoff g, g_ediff g, g_pool g).

Lemma cfg_inv g g' : cfg g = cfg g' ->
  g_num_conf g = g_num_conf g' /\ g_first g = g_first g' /\ g_cutoff g = g_cutoff g' /\ g_ediff g = g_ediff g' /\ g_pool g = g_pool g'.
Proof. unfold cfg. intro H. inversion H. auto. Qed.

Lemma resolve_cfg g r : cfg (fst (resolve g r)) = cfg g.
Proof. reflexivity. Qed.

Lemma resolve_only_cfg g g' r : cfg g = cfg g' -> resolve g r = resolve g' r.
Proof. intro H. apply cfg_inv in H. destruct H as (H1 & H2 & H3 & H4 & H5). unfold resolve. rewrite H1, H2, H3, H4, H5. reflexivity. Qed.

Lemma mk_generator_wf nc f c d p g : mk_generator nc f c d p = Ok g ->
  g_num_conf g = nc /\ g_first g = f /\ g_pool g = p /\ (nc = -1 \/ 1 <= nc) /\ (f = -1 \/ 1 <= f) /\ 1 <= p /\
  (g_ediff g = (-1)%Q \/ (0 <= g_ediff g)%Q) /\ (g_cutoff g = (-1)%Q \/ (0 < g_cutoff g)%Q) /\
  g_max_conformers g = nc /\ g_first_conformers g = f.
Proof.
  unfold mk_generator.
  destruct ((nc <? -1) || (nc =? 0)) eqn:E1; [discriminate|].
  destruct ((f <? -1) || (f =? 0)) eqn:E2; [discriminate|].
  destruct (p <? 1) eqn:E3; [discriminate|].
  intro H. inversion H; subst; clear H. simpl.
  apply orb_false_iff in E1, E2. destruct E1 as [A1 A2]. destruct E2 as [B1 B2].
  repeat split; try lia.
  - destruct d as [d|]; [|left; reflexivity]. destruct (Qlt_bool d 0) eqn:E; [left; reflexivity|right]. apply Qlt_bool_false. assumption.
  - destruct c as [c|]; [|left; reflexivity].
    destruct (Qeq_bool c 0) eqn:Ea; simpl; [left; reflexivity|].
    destruct (Qlt_bool c 0) eqn:Eb; [left; reflexivity|right].
    apply Qlt_bool_false in Eb. apply Qle_lt_or_eq in Eb. destruct Eb as [L|Eq]; [assumption|].
    exfalso. symmetry in Eq. apply Qeq_bool_iff in Eq. congruence.
Qed.

Lemma get_num_conformers_pos r : 50 <= get_num_conformers r.
Proof. unfold get_num_conformers. destruct (r <? 8); [lia|]. destruct (r <=? 12); lia. Qed.

Lemma get_num_conformers_spec r :
  (r < 8 -> get_num_conformers r = 50) /\ (8 <= r <= 12 -> get_num_conformers r = 200) /\ (12 < r -> get_num_conformers r = 300).
Proof.
  unfold get_num_conformers. destruct (r <? 8) eqn:A; destruct (r <=? 12) eqn:B; repeat split; intros; lia.
Qed.

Section Generate.
  Variable molecule : Type.
  Variable nrot : molecule -> Z.
  Variable pool_energies : molecule -> Z -> list Q.
  Variable pool_rmsd : molecule -> Z -> nat -> nat -> Q.

  Notation generate := (generate molecule nrot pool_energies pool_rmsd).
  Notation after_history := (after_history molecule nrot pool_energies pool_rmsd).

  Lemma generate_only_cfg g g' m : cfg g = cfg g' -> generate g m = generate g' m.
  Proof. intro H. unfold Conformer.generate. rewrite (resolve_only_cfg g g' (nrot m) H). reflexivity. Qed.

  Lemma generate_cfg g m : cfg (fst (generate g m)) = cfg g.
  Proof.
    unfold Conformer.generate. pose proof (resolve_cfg g (nrot m)) as H.
    destruct (resolve g (nrot m)) as [g' n]. simpl in H. destruct (pool_energies m n); simpl; assumption.
  Qed.

  Lemma after_history_cfg ms : forall g, cfg (after_history g ms) = cfg g.
  Proof.
    induction ms as [|m ms IH]; intro g; [reflexivity|].
    unfold Conformer.after_history. simpl. fold (after_history (fst (generate g m)) ms).
    rewrite IH. apply generate_cfg.
  Qed.

  (* what one generator object returns for a molecule (and the state it is left in) does not depend on what it processed before *)
  Lemma generator_reusable g ms m : generate (after_history g ms) m = generate g m.
  Proof. apply generate_only_cfg, after_history_cfg. Qed.

  (* the resolved values are functions of the configured ones and of the current molecule *)
  Lemma generate_resolved g m :
    let g' := fst (generate g m) in
    g_max_conformers g' = (if g_num_conf g =? -1 then get_num_conformers (nrot m) else g_num_conf g) /\
    g_first_conformers g' = (if g_first g =? -1 then g_max_conformers g' else Z.min (g_first g) (g_max_conformers g')).
  Proof.
    unfold Conformer.generate, resolve. simpl.
    destruct (pool_energies m _); simpl; split; reflexivity.
  Qed.

  Lemma generate_count g m g' mx acc es M :
    (g_num_conf g = -1 \/ 1 <= g_num_conf g) -> (g_first g = -1 \/ 1 <= g_first g) ->
    generate g m = (g', Ok (mx, (acc, es, M))) ->
    mx = g_max_conformers g' /\ 1 <= mx /\
    Z.of_nat (length acc) <= (if g_first g =? -1 then mx else Z.min (g_first g) mx) /\
    (length acc <= length (pool_energies m (mx * g_pool g)))%nat.
  Proof.
    intros Hn Hf. unfold Conformer.generate, resolve.
    set (mxv := if g_num_conf g =? -1 then get_num_conformers (nrot m) else g_num_conf g).
    set (fc := if g_first g =? -1 then mxv else Z.min (g_first g) mxv).
    assert (Hmx : 1 <= mxv).
    { unfold mxv. destruct (g_num_conf g =? -1) eqn:E; [pose proof (get_num_conformers_pos (nrot m)); lia|lia]. }
    destruct (pool_energies m (mxv * g_pool g)) as [|e t] eqn:Ep; intro H; inversion H; subst; clear H.
    simpl. split; [reflexivity|]. split; [assumption|].
    split.
    - pose proof (accepted_le_first (pool_rmsd m (mxv * g_pool g)) (e :: t)
                    (opts_of (mkgen (g_num_conf g) (g_first g) (g_cutoff g) (g_ediff g) (g_pool g) mxv fc))
                    (argsort (e :: t))) as H.
      unfold accepted, filter_conformers in *. simpl o_first in H.
      assert (1 <= fc) by (unfold fc; destruct (g_first g =? -1) eqn:E; lia).
      eapply Z.le_trans; [exact H|]. fold fc. lia.
    - rewrite Ep. destruct (argsort_sorting_perm (e :: t)) as (Nd & Rg & _).
      apply (accepted_le_pool (pool_rmsd m (mxv * g_pool g)) (e :: t)
               (opts_of (mkgen (g_num_conf g) (g_first g) (g_cutoff g) (g_ediff g) (g_pool g) mxv fc)) (argsort (e :: t))).
      + exact Nd.
      + intros i Hi. apply Rg. exact Hi.
  Qed.
  Lemma generate_count_mk nc f c d p g0 ms m g' mx acc es M :
    mk_generator nc f c d p = Ok g0 ->
    generate (after_history g0 ms) m = (g', Ok (mx, (acc, es, M))) ->
    mx = (if nc =? -1 then get_num_conformers (nrot m) else nc) /\ 1 <= mx /\
    Z.of_nat (length acc) <= (if f =? -1 then mx else Z.min f mx) /\
    (length acc <= length (pool_energies m (mx * p)))%nat.
  Proof.
    intros Hmk Hg. rewrite generator_reusable in Hg. apply mk_generator_wf in Hmk.
    destruct Hmk as (A & B & C & D & E & _).
    pose proof (generate_count g0 m g' mx acc es M) as H. rewrite A, B in H. specialize (H D E Hg).
    destruct H as (H1 & H2 & H3 & H4). rewrite C in H4.
    split; [|split; [assumption|split; assumption]].
    pose proof (generate_resolved g0 m) as R. rewrite Hg in R. simpl in R. destruct R as [R _]. rewrite A in R. congruence.
  Qed.
  Lemma accepted_le_max nc f c d p g0 ms m g' mx acc es M :
    mk_generator nc f c d p = Ok g0 ->
    generate (after_history g0 ms) m = (g', Ok (mx, (acc, es, M))) ->
    Z.of_nat (length acc) <= mx.
  Proof.
    intros Hmk Hg. destruct (generate_count_mk nc f c d p g0 ms m g' mx acc es M Hmk Hg) as (_ & _ & H & _).
    destruct (f =? -1); lia.
  Qed.
End Generate.

