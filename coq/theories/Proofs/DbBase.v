(* Basic facts about the buffer store and the CSR encoding of Model/Db.v. *)
From Coq Require Import QArith Lia.
From E3FP Require Import Base.Prelude Base.ZSet Model.Fprint Model.Db.
Open Scope Z_scope.

(* ---- tactics *)
Ltac dmatch :=
  match goal with
  | H : context [match ?x with _ => _ end] |- _ => destruct x eqn:?
  | |- context [match ?x with _ => _ end] => destruct x eqn:?
  end.
Ltac inv H := inversion H; subst; clear H.

(* ---- buffers *)
Lemma getQ_app bs e i : (i < length bs)%nat -> getQ (bs ++ e) i = getQ bs i.
Proof. intro H. unfold getQ. rewrite nth_error_app1 by exact H. reflexivity. Qed.
Lemma getZ_app bs e i : (i < length bs)%nat -> getZ (bs ++ e) i = getZ bs i.
Proof. intro H. unfold getZ. rewrite nth_error_app1 by exact H. reflexivity. Qed.
Lemma getP_app bs e i : (i < length bs)%nat -> getP (bs ++ e) i = getP bs i.
Proof. intro H. unfold getP. rewrite nth_error_app1 by exact H. reflexivity. Qed.

Lemma nth_error_app_len {A} (l : list A) x t : nth_error (l ++ x :: t) (length l) = Some x.
Proof. rewrite nth_error_app2 by lia. rewrite Nat.sub_diag. reflexivity. Qed.
Lemma nth_error_app_len1 {A} (l : list A) x y t : nth_error (l ++ x :: y :: t) (S (length l)) = Some y.
Proof. rewrite nth_error_app2 by lia. replace (S (length l) - length l)%nat with 1%nat by lia. reflexivity. Qed.
Lemma nth_error_app_len2 {A} (l : list A) x y z t : nth_error (l ++ x :: y :: z :: t) (S (S (length l))) = Some z.
Proof. rewrite nth_error_app2 by lia. replace (S (S (length l)) - length l)%nat with 2%nat by lia. reflexivity. Qed.

(* ---- CSR encoding round trip *)
Lemma ptr_lens_enc rs : forall off, ptr_lens (enc_ptr off rs) = map (@length _) rs.
Proof.
  induction rs as [|r t IH]; intro off; [reflexivity|].
  simpl. specialize (IH (off + Z.of_nat (length r))).
  destruct t as [|r' t']; simpl in *.
  - f_equal. lia.
  - rewrite IH. f_equal. lia.
Qed.

Lemma firstn_app_exact {A} (a b : list A) : firstn (length a) (a ++ b) = a.
Proof. rewrite firstn_app, Nat.sub_diag, firstn_all. simpl. apply app_nil_r. Qed.
Lemma skipn_app_exact {A} (a b : list A) : skipn (length a) (a ++ b) = b.
Proof. rewrite skipn_app, Nat.sub_diag, skipn_all. reflexivity. Qed.

Lemma combine_fst_snd {A B} (l : list (A * B)) : combine (map fst l) (map snd l) = l.
Proof. induction l as [|[a b] t IH]; simpl; congruence. Qed.

Lemma read_rows_cons (r : row) lens idx dat :
  read_rows (length r :: lens) (map fst r ++ idx) (map snd r ++ dat) = r :: read_rows lens idx dat.
Proof.
  simpl.
  assert (H1 : firstn (length r) (map fst r ++ idx) = map fst r) by (rewrite <- (map_length fst r) at 1; apply firstn_app_exact).
  assert (H2 : firstn (length r) (map snd r ++ dat) = map snd r) by (rewrite <- (map_length snd r) at 1; apply firstn_app_exact).
  assert (H3 : skipn (length r) (map fst r ++ idx) = idx) by (rewrite <- (map_length fst r) at 1; apply skipn_app_exact).
  assert (H4 : skipn (length r) (map snd r ++ dat) = dat) by (rewrite <- (map_length snd r) at 1; apply skipn_app_exact).
  rewrite H1, H2, H3, H4, combine_fst_snd. reflexivity.
Qed.

Lemma read_rows_enc rs : read_rows (map (@length _) rs) (enc_idx rs) (enc_data rs) = rs.
Proof.
  unfold enc_idx, enc_data. induction rs as [|r t IH]; [reflexivity|].
  cbn [map concat]. rewrite read_rows_cons, IH. reflexivity.
Qed.

Lemma view_rows_alloc bs rs bits e :
  view_rows ((bs ++ [BQ (enc_data rs); BZ (enc_idx rs); BZ (enc_ptr 0 rs)]) ++ e) (mkcsr (length bs) (S (length bs)) (S (S (length bs))) bits) = rs.
Proof.
  unfold view_rows, getZ, getQ. cbn [cdata cind cptr].
  rewrite <- !app_assoc. cbn [app].
  rewrite nth_error_app_len, nth_error_app_len1, nth_error_app_len2.
  rewrite ptr_lens_enc. apply read_rows_enc.
Qed.

Lemma read_rows_length lens idx dat : length (read_rows lens idx dat) = length lens.
Proof. revert idx dat. induction lens; intros; simpl; [|rewrite IHlens]; reflexivity. Qed.

(* number of rows is decided by indptr alone *)
Lemma view_rows_length bs c : length (view_rows bs c) = length (ptr_lens (getZ bs (cptr c))).
Proof. apply read_rows_length. Qed.

(* dtype cast of the data buffer = cast of every row *)
Lemma read_rows_cast f lens : forall idx dat,
  read_rows lens idx (map f dat) = map (map (fun iv => (fst iv, f (snd iv)))) (read_rows lens idx dat).
Proof.
  induction lens as [|n t IH]; intros idx dat; [reflexivity|].
  simpl. rewrite firstn_map, skipn_map, IH. f_equal.
  generalize (firstn n idx) (firstn n dat). clear.
  induction l as [|i l IH]; intros [|d l0]; simpl; try reflexivity. rewrite IH. reflexivity.
Qed.

(* ---- in-place writes *)
Lemma write_length bs i b : length (write bs i b) = length bs.
Proof. revert i. induction bs; intros [|i]; simpl; try reflexivity; rewrite IHbs; reflexivity. Qed.

Lemma write_app_fresh bs l j b : write (bs ++ l) (length bs + j) b = bs ++ write l j b.
Proof. induction bs; simpl; [reflexivity|]. rewrite IHbs. reflexivity. Qed.

(* ---- allocation only appends *)
Lemma alloc_cols_app cols : forall bs, exists e, fst (alloc_cols bs cols) = bs ++ e.
Proof.
  induction cols as [|[k v] t IH]; intro bs; simpl.
  - exists []. symmetry; apply app_nil_r.
  - destruct (IH (bs ++ [BP v])) as [e He]. destruct (alloc_cols (bs ++ [BP v]) t) as [bs1 r]. simpl in *.
    exists (BP v :: e). rewrite He, <- app_assoc. reflexivity.
Qed.

Lemma store_cols_app cols : forall bs ps, exists e, fst (store_cols bs ps cols) = bs ++ e.
Proof.
  induction cols as [|[k v] t IH]; intros bs ps; simpl.
  - exists []. symmetry; apply app_nil_r.
  - destruct (IH (bs ++ [BP v]) (aset ps k (length bs))) as [e He]. exists (BP v :: e). rewrite He, <- app_assoc. reflexivity.
Qed.

(* what alloc_cols stores can be read back *)
Lemma alloc_cols_view cols : forall bs bs1 ps e,
  alloc_cols bs cols = (bs1, ps) ->
  map (fun kc => (fst kc, getP (bs1 ++ e) (snd kc))) ps = cols /\ Forall (fun kc => (snd kc < length bs1)%nat) ps.
Proof.
  induction cols as [|[k v] t IH]; intros bs bs1 ps e H; simpl in H.
  - inv H. split; constructor.
  - destruct (alloc_cols (bs ++ [BP v]) t) as [bs2 r] eqn:E. inv H.
    destruct (alloc_cols_app t (bs ++ [BP v])) as [e2 He2]. rewrite E in He2. simpl in He2. subst bs1.
    destruct (IH _ _ _ e E) as [IH1 IH2]. split.
    + simpl. rewrite IH1. f_equal. f_equal. unfold getP. rewrite <- !app_assoc. cbn [app]. rewrite nth_error_app_len. reflexivity.
    + constructor; [|exact IH2]. simpl. rewrite !app_length. simpl. lia.
Qed.

(* ---- objects *)
Lemma set_obj_length l i o : length (set_obj l i o) = length l.
Proof. unfold set_obj. revert i. induction l; intros [|i]; simpl; try reflexivity; rewrite IHl; reflexivity. Qed.

Lemma set_obj_same l i o : nth_error l i = Some o -> set_obj l i o = l.
Proof. unfold set_obj. revert i. induction l; intros [|i] H; simpl in *; try discriminate; [inv H; reflexivity|]. rewrite IHl by exact H. reflexivity. Qed.

Lemma set_obj_other l i j o : i <> j -> nth_error (set_obj l i o) j = nth_error l j.
Proof. unfold set_obj. revert i j. induction l; intros [|i] [|j] H; simpl; try reflexivity; try congruence. apply IHl. congruence. Qed.

Lemma set_obj_at l i o : (i < length l)%nat -> nth_error (set_obj l i o) i = Some o.
Proof. unfold set_obj. revert i. induction l; intros [|i] H; simpl in *; try lia; [reflexivity|]. apply IHl. lia. Qed.

Lemma obj_eta o : mkobj (okind o) (olevel o) (oarr o) (onames o) (oindex o) (oprops o) = o.
Proof. destruct o; reflexivity. Qed.

(* ---- the defaultdict: reads of present keys change nothing *)
Lemma dd_get_present ix k : idx_mem k ix = true -> dd_get ix k = (ix, idx_get k ix).
Proof. intro H. unfold dd_get. rewrite H. reflexivity. Qed.

Lemma subset_pairs_present names : forall ix,
  forallb (fun x => idx_mem x ix) names = true -> fst (subset_pairs ix names) = ix.
Proof.
  induction names as [|x t IH]; intros ix H; simpl in *; [reflexivity|].
  apply andb_true_iff in H. destruct H as [H1 H2].
  rewrite (dd_get_present _ _ H1). specialize (IH ix H2).
  destruct (subset_pairs ix t) as [ix2 r]. simpl in *. exact IH.
Qed.

Lemma existsb_negb_false {A} (f : A -> bool) l : existsb (fun x => negb (f x)) l = false -> forallb f l = true.
Proof.
  induction l; simpl; intro H; [reflexivity|]. apply orb_false_iff in H. destruct H as [H1 H2].
  apply negb_false_iff in H1. rewrite H1, IHl by exact H2. reflexivity.
Qed.
