(* Database folding (C07), casts (C17) and equality (C09) on the database model. *)
From Coq Require Import QArith Qround Lia Sorting.Sorted.
From E3FP Require Import Base.Prelude Base.ZSet Model.Fprint Model.Db Proofs.DbBase Proofs.DbRefuse Proofs.DbInv Proofs.DbFrame Proofs.DbSpec.
Open Scope Z_scope.

Lemma usort_map_usort f l : usort (map f (usort l)) = usort (map f l).
Proof.
  apply ssorted_ext; [apply ssorted_usort | apply ssorted_usort |].
  intro x. rewrite !In_usort, !in_map_iff. split; intros (y & <- & Hy); exists y; (split; [reflexivity|]).
  - exact (proj1 (In_usort y l) Hy).
  - exact (proj2 (In_usort y l) Hy).
Qed.

(* one row: columns of the folded row = ascending distinct remainders *)
Lemma fold_row_cols k nb r : map fst (fold_row k nb r) = usort (map (fun i => i mod nb) (map fst r)).
Proof. unfold fold_row, sum_dups. rewrite !map_map. simpl. rewrite map_id. reflexivity. Qed.

Lemma fold_row_sorted k nb r : ssorted (map fst (fold_row k nb r)).
Proof. rewrite fold_row_cols. apply ssorted_usort. Qed.

Lemma fold_row_range k nb r : 0 < nb -> forall j, In j (map fst (fold_row k nb r)) -> 0 <= j < nb.
Proof.
  intros Hnb j. rewrite fold_row_cols, In_usort, in_map_iff. intros (i & <- & _). apply Z.mod_pos_bound. exact Hnb.
Qed.

(* C07 db_fold_rows: the fingerprint read from the folded row has the set bits of the folded fingerprint of the source row
   (Model/Fprint.v fp_fold, method 0), for every kind; values: see db_fold_values / correspondence *)
Theorem db_fold_rows k k' bits lv nm nb r a' :
  fp_fold (row_fp k bits lv nm r) nb 0 = Ok a' ->
  fidx (row_fp k' nb lv nm (fold_row k nb r)) = fidx a' /\ fbits a' = nb /\ flevel a' = lv /\ fname a' = nm.
Proof.
  intro H. unfold fp_fold in H. destruct (fold_check _ nb 0); [discriminate|].
  assert (Hi : fidx (row_fp k' nb lv nm (fold_row k nb r)) = usort (map (fun i => i mod nb) (map fst r))).
  { unfold row_fp. destruct k'; cbn [fidx]; rewrite fold_row_cols; apply usort_id; apply ssorted_usort. }
  assert (Hs : fidx (row_fp k bits lv nm r) = usort (map fst r)) by (unfold row_fp; destruct k; reflexivity).
  assert (Hf : forall i, fold_index 0 (fbits (row_fp k bits lv nm r)) nb i = i mod nb) by (intro; reflexivity).
  rewrite Hi. unfold row_fp in H. destruct k; cbn [fkind fidx fbits flevel fname] in H; inv H; cbn [fidx fbits flevel fname];
    rewrite usort_map_usort; repeat split; reflexivity.
Qed.

(* the value stored at a folded column: the dtype's sum over the fibre, in storage order *)
Theorem db_fold_values k nb r j :
  In j (map fst (fold_row k nb r)) ->
  rget (fold_row k nb r) j = ksum k (map snd (filter (fun iv => fst iv mod nb =? j) r)).
Proof.
  intro Hin. unfold fold_row, sum_dups in *.
  set (r' := map (fun iv => (fst iv mod nb, snd iv)) r) in *.
  assert (Hs : ssorted (usort (map fst r'))) by apply ssorted_usort.
  assert (Hval : forall l, ssorted l -> In j l ->
            rget (map (fun j0 => (j0, ksum k (map snd (filter (fun iv => fst iv =? j0) r')))) l) j
            = ksum k (map snd (filter (fun iv => fst iv =? j) r'))).
  { induction l as [|x t IH]; intros Hsl Hj; [destruct Hj|].
    inversion Hsl as [|? ? Hst Hall]; subst. cbn [map rget].
    destruct (existsb (fun jv => fst jv =? j) (map (fun j0 => (j0, ksum k (map snd (filter (fun iv => fst iv =? j0) r')))) t)) eqn:Ex.
    - apply existsb_exists in Ex. destruct Ex as ([j1 v1] & Hin1 & Heq). simpl in Heq. apply Z.eqb_eq in Heq. subst j1.
      apply in_map_iff in Hin1. destruct Hin1 as (j2 & Hj2 & Hin2). inv Hj2. apply IH; assumption.
    - destruct Hj as [->|Hj]; [rewrite Z.eqb_refl; reflexivity|].
      exfalso. assert (existsb (fun jv => fst jv =? j) (map (fun j0 => (j0, ksum k (map snd (filter (fun iv => fst iv =? j0) r')))) t) = true).
      { apply existsb_exists. eexists. split; [apply in_map_iff; exists j; split; [reflexivity | exact Hj] | simpl; apply Z.eqb_refl]. }
      congruence. }
  rewrite map_map in Hin. simpl in Hin. rewrite map_id in Hin.
  rewrite (Hval _ Hs Hin). f_equal. subst r'. clear. induction r as [|[i v] t IH]; simpl; [reflexivity|].
  destruct (i mod nb =? j); simpl; rewrite IH; reflexivity.
Qed.

Lemma read_rows_mapidx f lens : forall idx dat,
  read_rows lens (map f idx) dat = map (map (fun iv => (f (fst iv), snd iv))) (read_rows lens idx dat).
Proof.
  induction lens as [|n t IH]; intros idx dat; [reflexivity|].
  simpl. rewrite firstn_map, skipn_map, IH. f_equal.
  generalize (firstn n idx) (firstn n dat). clear.
  induction l as [|i l IH]; intros [|d l0]; simpl; try reflexivity. rewrite IH. reflexivity.
Qed.

(* C07 db_fold_frame: folding creates a new database and leaves every database of the pool, the source included, unchanged *)
Theorem db_fold_frame s h nb ko g d :
  state_ok s -> handle_db s g = Some d -> handle_db (fst (step s (OpFold h nb ko))) g = Some d.
Proof. intros Hs Hg. apply reads_do_not_change; auto. Qed.

(* what the folded database holds: row-wise fold_row of the source (in the source dtype), then the cast to the requested type *)
Theorem db_fold_view s h oid o nb ko s' hn :
  state_ok s -> lookup s h = Some (oid, o) -> step s (OpFold h nb ko) = (s', Ok (ONew hn)) ->
  let k' := match ko with Some k => k | None => okind o end in
  exists d', handle_db s' hn = Some d' /\ dkind d' = k' /\ dbits d' = Some nb /\ dlevel d' = olevel o /\ dnames d' = onames o
    /\ drows d' = map (fun r => (if kind_eqb (okind o) k' then (fun x => x) else cast_row k') (filter (fun iv => fst iv <? nb) (fold_row (okind o) nb r)))
                      (drows (view (bufs s) o)).
Proof.
  intros Hs Hl H k'. pose proof (lookup_nth _ _ _ _ Hl) as Ho. cbn [step] in H. rewrite Hl in H. unfold h_fold in H.
  destruct (Hs _ _ Ho) as ((Hr1 & Hr2) & Hf & Hn & Hi).
  destruct (oarr o) as [c|] eqn:Ea; [|inv H].
  destruct (cbits c <? nb); [inv H|]. destruct (nb =? 0); [inv H|]. destruct (negb (pow2_ratio (cbits c) nb)); [inv H|].
  cbv zeta in H. rewrite sum_duplicates_fresh in H.
  set (bs1 := bufs s ++ [BQ (getQ (bufs s) (cdata c)); BZ (map (fun i => i mod nb) (getZ (bufs s) (cind c))); BZ (getZ (bufs s) (cptr c))]) in *.
  set (t := mkcsr (length (bufs s)) (S (length (bufs s))) (S (S (length (bufs s)))) (cbits c)) in *.
  assert (Hv1 : view_rows bs1 t = map (map (fun iv => (fst iv mod nb, snd iv))) (view_rows (bufs s) c)).
  { subst bs1 t. unfold view_rows, getZ, getQ. cbn [cdata cind cptr]. rewrite nth_error_app_len, nth_error_app_len1, nth_error_app_len2.
    fold (getZ (bufs s) (cptr c)) (getZ (bufs s) (cind c)) (getQ (bufs s) (cdata c)).
    apply read_rows_mapidx. }
  set (rs1 := map (sum_dups (okind o)) (view_rows bs1 t)) in *.
  set (bs2 := bufs s ++ [BQ (enc_data rs1); BZ (enc_idx rs1); BZ (enc_ptr 0 rs1)]) in *.
  assert (Hv2 : view_rows bs2 t = rs1).
  { subst bs2 t. rewrite <- (app_nil_r (_ ++ [_; _; _])). apply view_rows_alloc. }
  rewrite Hv2 in H. unfold alloc_csr in H.
  set (rs3 := map (filter (fun iv => fst iv <? nb)) rs1) in *.
  set (bs3 := bs2 ++ [BQ (enc_data rs3); BZ (enc_idx rs3); BZ (enc_ptr 0 rs3)]) in *.
  set (c3 := mkcsr (length bs2) (S (length bs2)) (S (S (length bs2))) nb) in *.
  fold k' in H. destruct (csr_astype bs3 c3 (okind o) k') as [bs4 c4] eqn:Ec.
  assert (Hc3 : (cdata c3 < length bs3 /\ cind c3 < length bs3 /\ cptr c3 < length bs3)%nat).
  { subst c3 bs3. cbn [cdata cind cptr]. rewrite app_length. simpl. lia. }
  destruct (csr_astype_spec _ _ _ _ _ _ Ec Hc3) as (e & -> & Hc4 & Hp & Hii & Hb & Hq).
  unfold new_db_shared in H. destruct (negb (_ && props_fit _ _ _)); [inv H|]. inv H.
  eexists. split; [unfold handle_db, new_handle; rewrite lookup_pushed; reflexivity|].
  unfold push_obj. cbn [bufs]. unfold view at 1 2 3 4 5. cbn [dkind dbits dlevel dnames drows okind olevel oarr onames option_map].
  rewrite Hb. cbn [cbits c3]. repeat split.
  assert (Hv3 : view_rows bs3 c3 = rs3).
  { subst bs3 c3. rewrite <- (app_nil_r (_ ++ [_; _; _])). apply view_rows_alloc. }
  unfold view_rows. rewrite Hp, Hii, Hq, !getZ_app by tauto.
  unfold view at 1. cbn [drows]. rewrite Ea.
  assert (Hrs3 : rs3 = map (fun r => filter (fun iv => fst iv <? nb) (fold_row (okind o) nb r)) (view_rows (bufs s) c)).
  { subst rs3 rs1. rewrite Hv1, !map_map. reflexivity. }
  destruct (kind_eqb (okind o) k').
  - fold (view_rows bs3 c3). rewrite Hv3, Hrs3. reflexivity.
  - rewrite read_rows_cast. fold (view_rows bs3 c3). rewrite Hv3, Hrs3, map_map. reflexivity.
Qed.

(* ---- C17: casts keep the support *)
Lemma cast_row_support k r : map fst (cast_row k r) = map fst r.
Proof. unfold cast_row. rewrite map_map. reflexivity. Qed.

Lemma fp_row_support k a : map fst (fp_row k a) = fidx a.
Proof. unfold fp_row. rewrite map_map. simpl. apply map_id. Qed.

(* the value stored for a set position: bit -> truth value, count -> truncation, float -> unchanged *)
Lemma cast_to_values q :
  cast_to KFloat q = q /\ cast_to KCount q = qtrunc q /\ cast_to KBit q = (if Qeq_bool q 0 then 0%Q else 1%Q).
Proof. unfold cast_to, qnz. destruct (Qeq_bool q 0); auto. Qed.

(* ---- C09: database equality as coded *)
Theorem db_eq_spec a b :
  db_eq a b = true <->
  dkind a = dkind b /\ dlevel a = dlevel b /\ dbits a = dbits b /\ fp_num a = fp_num b /\ index_eqb (dindex a) (dindex b) = true
  /\ (dbits a <> None -> rows_diff_zero (dkind a) (drows a) (drows b) = true).
Proof.
  unfold db_eq. rewrite !andb_true_iff. split.
  - intros (((((H1 & H2) & H3) & H4) & H5) & H6).
    apply kind_eqb_eq in H1. apply option_eqb_Z_eq in H2. apply option_eqb_Z_eq in H3. apply Nat.eqb_eq in H4.
    repeat split; auto. intro Hn. rewrite <- H3 in H6. destruct (dbits a); [exact H6 | congruence].
  - intros (H1 & H2 & H3 & H4 & H5 & H6). rewrite H1, H2, H3, H4, kind_eqb_refl, !option_eqb_Z_refl, Nat.eqb_refl, H5.
    repeat split. rewrite <- H3, <- H1. destruct (dbits a) eqn:E; [apply H6; congruence | reflexivity].
Qed.

Lemma row_diff_zero_refl k r : row_diff_zero k r r = true.
Proof. unfold row_diff_zero. apply forallb_forall. intros j _. apply Qeq_bool_iff. reflexivity. Qed.

Lemma rows_diff_zero_refl k rs : rows_diff_zero k rs rs = true.
Proof. induction rs; simpl; [reflexivity|]. rewrite row_diff_zero_refl, IHrs. reflexivity. Qed.

Lemma fold_rows_wf k nb r : 0 < nb ->
  ssorted (map fst (fold_row k nb r)) /\ forall j, In j (map fst (fold_row k nb r)) -> 0 <= j < nb.
Proof. intro H. split; [apply fold_row_sorted | apply fold_row_range; exact H]. Qed.


(* ---- the representability limit of COUNT_FP_DTYPE (uint16): sums formed by folding a count database wrap at 2^16 *)
Lemma qsum_inject zs : (qsum (map inject_Z zs) == inject_Z (fold_right Z.add 0%Z zs))%Q.
Proof.
  induction zs as [|z t IH]; simpl; [reflexivity|]. rewrite IH, inject_Z_plus. reflexivity.
Qed.

Lemma wrap16_small q z : (q == inject_Z z)%Q -> 0 <= z <= count_dtype_max -> wrap16 q = inject_Z z.
Proof.
  intros Hq Hz. unfold wrap16. rewrite (Qfloor_comp _ _ Hq), Qfloor_Z. f_equal. apply Z.mod_small. unfold count_dtype_max in *. lia.
Qed.

(* db_fold_values, premise form: while every folded sum stays <= count_dtype_max the stored count IS the sum over the fibre *)
Theorem db_fold_count_no_overflow zs :
  0 <= fold_right Z.add 0 zs <= count_dtype_max ->
  ksum KCount (map inject_Z zs) = inject_Z (fold_right Z.add 0 zs).
Proof. intro H. unfold ksum. apply wrap16_small; [apply qsum_inject | exact H]. Qed.

(* ... and beyond it the stored count is the sum modulo 2^16 (what uint16 arithmetic gives) *)
Theorem db_fold_count_wraps zs :
  ksum KCount (map inject_Z zs) = inject_Z (fold_right Z.add 0 zs mod (count_dtype_max + 1)).
Proof. unfold ksum, wrap16. rewrite (Qfloor_comp _ _ (qsum_inject zs)), Qfloor_Z. reflexivity. Qed.

Example fold_overflow_example :
  fold_row KCount 8 [(1, inject_Z 40000); (9, inject_Z 40000)] = [(1, inject_Z 14464)]
  /\ fold_row KCount 8 [(1, inject_Z 30000); (9, inject_Z 30000)] = [(1, inject_Z 60000)].
Proof. vm_compute. split; reflexivity. Qed.
