(* Ownership: no operation writes a buffer or an object that another live database can reach. *)
From Coq Require Import QArith Lia.
From E3FP Require Import Base.Prelude Base.ZSet Model.Fprint Model.Db Proofs.DbBase Proofs.DbRefuse Proofs.DbInv.
Open Scope Z_scope.

(* the object an operation may modify *)
Definition target_of (s : state) (o : op) : option nat :=
  match o with
  | OpAdd h _ | OpSetProp h _ _ | OpUpdateProps h _ _ => match lookup s h with Some (oid, _) => Some oid | None => None end
  | _ => None
  end.

Definition is_mutator (o : op) : bool :=
  match o with OpAdd _ _ | OpSetProp _ _ _ | OpUpdateProps _ _ _ => true | _ => false end.

(* s' extends s: the buffer store and the pool only grow, every object except possibly `tgt` is untouched *)
Definition ext (s s' : state) (tgt : option nat) : Prop :=
  (exists e, bufs s' = bufs s ++ e)
  /\ (forall i o, nth_error (objs s) i = Some o -> Some i <> tgt -> nth_error (objs s') i = Some o)
  /\ (exists p, pool s' = pool s ++ p).

Lemma ext_refl s tgt : ext s s tgt.
Proof. repeat split; [exists []; symmetry; apply app_nil_r | auto | exists []; symmetry; apply app_nil_r]. Qed.

Lemma ext_push s bs' o tgt : (exists e, bs' = bufs s ++ e) -> ext s (push_obj s bs' o) tgt.
Proof.
  intros He. unfold push_obj. repeat split; cbn [bufs objs pool]; [exact He | | eauto].
  intros i x Hi _. rewrite nth_error_app1; [exact Hi|]. apply nth_error_Some. congruence.
Qed.

Lemma ext_set s bs' oid o : (exists e, bs' = bufs s ++ e) -> ext s (mkst bs' (set_obj (objs s) oid o) (pool s)) (Some oid).
Proof.
  intros He. repeat split; cbn [bufs objs pool]; [exact He | | exists []; symmetry; apply app_nil_r].
  intros i x Hi Hne. rewrite set_obj_other; [exact Hi | congruence].
Qed.

Lemma ext_alias s oid tgt : ext s (mkst (bufs s) (objs s) (pool s ++ [oid])) tgt.
Proof. repeat split; cbn [bufs objs pool]; [exists []; symmetry; apply app_nil_r | auto | eauto]. Qed.

Lemma app_app_ex {A} (a b c : list A) : exists e, (a ++ b) ++ c = a ++ e.
Proof. exists (b ++ c). symmetry. apply app_assoc. Qed.

Lemma new_db_fresh_ext s k lv bits rs names cols tgt : ext s (fst (new_db_fresh s k lv bits rs names cols)) tgt.
Proof.
  unfold new_db_fresh. destruct (negb _); [apply ext_refl|]. unfold alloc_csr.
  destruct (alloc_cols _ cols) as [bs2 ps] eqn:Ea. cbn [fst].
  destruct (alloc_cols_app cols (bufs s ++ [BQ (enc_data rs); BZ (enc_idx rs); BZ (enc_ptr 0 rs)])) as [e He]. rewrite Ea in He. simpl in He.
  apply ext_push. rewrite He. apply app_app_ex.
Qed.

Lemma new_db_shared_ext s bs k lv c names ps tgt : (exists e, bs = bufs s ++ e) -> ext s (fst (new_db_shared s bs k lv c names ps)) tgt.
Proof. intro He. unfold new_db_shared. destruct (negb _); [apply ext_refl|]. cbn [fst]. apply ext_push. exact He. Qed.

Lemma csr_astype_app bs c f t : exists e, fst (csr_astype bs c f t) = bs ++ e.
Proof. unfold csr_astype. destruct (kind_eqb f t); simpl; [exists []; symmetry; apply app_nil_r | eauto]. Qed.

Lemma h_astype_ext s oid o k cp tgt : ext s (fst (h_astype s oid o k cp)) tgt.
Proof.
  unfold h_astype. destruct (_ && _); [apply ext_alias|]. destruct (oarr o); [|apply ext_refl].
  destruct (csr_astype_app (bufs s) c (okind o) k) as [e He]. destruct (csr_astype (bufs s) c (okind o) k) as [bs1 c1]. simpl in He.
  apply new_db_shared_ext. eauto.
Qed.

Lemma h_fold_ext s oid o nb ko tgt : ext s (fst (h_fold s oid o nb ko)) tgt.
Proof.
  unfold h_fold. destruct (oarr o) as [c|]; [|apply ext_refl].
  destruct (cbits c <? nb); [apply ext_refl|]. destruct (nb =? 0); [apply ext_refl|]. destruct (negb _); [apply ext_refl|].
  cbv zeta. rewrite sum_duplicates_fresh. unfold alloc_csr.
  match goal with |- context [csr_astype ?b ?c3 ?f ?t] => destruct (csr_astype_app b c3 f t) as [e He]; destruct (csr_astype b c3 f t) as [bs4 c4] end.
  simpl in He. apply new_db_shared_ext. rewrite He. rewrite <- !app_assoc. eauto.
Qed.

Lemma h_add_ext s oid o fps : ext s (fst (h_add s oid o fps)) (Some oid).
Proof.
  unfold h_add. destruct (add_precheck _ fps); [|apply ext_refl]. unfold alloc_csr. cbv beta iota zeta.
  destruct (prep_props _ _ _ true true).
  - match goal with |- context [store_cols ?b ?p ?r] => destruct (store_cols_app r b p) as [e He]; destruct (store_cols b p r) as [bs2 ps] end.
    simpl in He. cbn [fst]. apply ext_set. rewrite He. apply app_app_ex.
  - cbn [fst]. apply ext_set. eauto.
Qed.

Lemma h_update_props_ext s oid o cols ap : ext s (fst (h_update_props s oid o cols ap)) (Some oid).
Proof.
  unfold h_update_props. destruct (prep_props _ _ cols ap true); [|apply ext_refl].
  match goal with |- context [store_cols ?b ?p ?r] => destruct (store_cols_app r b p) as [e He]; destruct (store_cols b p r) as [bs2 ps] end.
  simpl in He. cbn [fst]. apply ext_set. eauto.
Qed.

Lemma h_subset_ext s oid o names tgt : nth_error (objs s) oid = Some o -> ext s (fst (h_subset s oid o names)) tgt.
Proof.
  intro Ho. unfold h_subset. destruct (existsb _ names) eqn:Ex; [apply ext_refl|].
  apply existsb_negb_false in Ex. pose proof (subset_pairs_present names (oindex o) Ex) as Hp.
  destruct (subset_pairs (oindex o) names) as [ix1 pairs]. simpl in Hp. subst ix1. rewrite (same_state _ _ _ Ho).
  destruct pairs; [apply ext_refl|]. destruct (dbits _); [|apply ext_refl]. apply new_db_fresh_ext.
Qed.

Lemma h_pickle_ext s o tgt : ext s (fst (h_pickle s o)) tgt.
Proof.
  unfold h_pickle. destruct (dbits _).
  - unfold alloc_csr.
    match goal with |- context [alloc_cols ?b ?cs] => destruct (alloc_cols_app cs b) as [e He]; destruct (alloc_cols b cs) as [bs2 ps] end.
    simpl in He. cbn [fst]. apply ext_push. rewrite He. apply app_app_ex.
  - match goal with |- context [alloc_cols ?b ?cs] => destruct (alloc_cols_app cs b) as [e He]; destruct (alloc_cols b cs) as [bs2 ps] end.
    simpl in He. cbn [fst]. apply ext_push. eauto.
Qed.

Lemma h_concat_ext s os tgt : ext s (fst (h_concat s os)) tgt.
Proof.
  unfold h_concat. destruct (map _ os) as [|d0 dt]; [apply ext_refl|].
  destruct (concat_loop _ _ _ _ _ _ _) as [[[rows names] props]|]; [|apply ext_refl].
  destruct (dbits d0); [|apply ext_refl]. destruct (negb _); [apply ext_refl|]. unfold alloc_csr.
  match goal with |- context [alloc_cols ?b ?cs] => destruct (alloc_cols_app cs b) as [e He]; destruct (alloc_cols b cs) as [bs2 ps] end.
  simpl in He. cbn [fst]. apply ext_push. rewrite He. apply app_app_ex.
Qed.

Lemma h_getname_same s oid o nm : nth_error (objs s) oid = Some o -> fst (h_getname s oid o nm) = s.
Proof.
  intro Ho. unfold h_getname. destruct (idx_mem (Some nm) (oindex o)) eqn:Em; simpl; [|reflexivity].
  rewrite (dd_get_present _ _ Em), (same_state _ _ _ Ho). cbn [view dbits]. destruct (oarr o); reflexivity.
Qed.

(* lookups, iteration, comparison, density, length and the similarity measures return the state they were given *)
Definition is_pure_read (o : op) : bool :=
  match o with OpGetInt _ _ | OpGetName _ _ | OpIter _ | OpEq _ _ | OpDensity _ _ | OpLen _ | OpMetric _ _ _ => true | _ => false end.

Theorem pure_reads_change_nothing s o : is_pure_read o = true -> fst (step s o) = s.
Proof.
  intro H. destruct o; try discriminate; simpl.
  - destruct (lookup s h) as [[? ?]|]; reflexivity.
  - destruct (lookup s h) as [[oid ob]|] eqn:El; [|reflexivity]. apply h_getname_same. eapply lookup_nth. exact El.
  - destruct (lookup s h) as [[? ?]|]; reflexivity.
  - destruct (lookup s h1) as [[? ?]|]; [destruct (lookup s h2) as [[? ?]|]|]; reflexivity.
  - destruct (lookup s h) as [[? ?]|]; reflexivity.
  - destruct (lookup s h) as [[? ?]|]; reflexivity.
  - destruct (lookup s h1) as [[? ?]|]; [destruct (lookup s h2) as [[? ?]|]|]; try reflexivity.
    unfold h_metric. repeat dmatch; reflexivity.
Qed.

Theorem step_ext s o : ext s (fst (step s o)) (target_of s o).
Proof.
  destruct o; try (rewrite pure_reads_change_nothing by reflexivity; apply ext_refl); cbn [step target_of].
  - cbn [fst]. apply ext_push. exists []. symmetry. apply app_nil_r.
  - apply new_db_fresh_ext.
  - destruct (lookup s h) as [[oid ob]|]; [apply h_add_ext | apply ext_refl].
  - destruct (lookup s h) as [[oid ob]|]; [apply h_update_props_ext | apply ext_refl].
  - destruct (lookup s h) as [[oid ob]|]; [apply h_update_props_ext | apply ext_refl].
  - destruct (lookup s h) as [[oid ob]|] eqn:El; [apply h_subset_ext; eapply lookup_nth; exact El | apply ext_refl].
  - destruct (lookup s h) as [[oid ob]|]; [apply h_astype_ext | apply ext_refl].
  - destruct (lookup s h) as [[oid ob]|]; [apply h_fold_ext | apply ext_refl].
  - destruct (lookup s h) as [[oid ob]|]; [apply h_astype_ext | apply ext_refl].
  - destruct (lookup s h) as [[oid ob]|]; [apply h_pickle_ext | apply ext_refl].
  - destruct (lookup s h) as [[oid ob]|]; [|apply ext_refl]. destruct (fpz && _); [apply ext_refl | apply h_pickle_ext].
  - destruct (lookup_all s hs); [apply h_concat_ext | apply ext_refl].
Qed.

(* what a handle denotes survives every extension that does not target its object *)
Lemma handle_db_ext s s' tgt h oid o :
  state_ok s -> ext s s' tgt -> lookup s h = Some (oid, o) -> Some oid <> tgt ->
  lookup s' h = Some (oid, o) /\ handle_db s' h = Some (view (bufs s) o).
Proof.
  intros Hs ((e & He) & Ho & (p & Hp)) Hl Hne.
  pose proof (lookup_nth _ _ _ _ Hl) as Hn.
  assert (Hl' : lookup s' h = Some (oid, o)).
  { unfold lookup in *. destruct (nth_error (pool s) h) as [x|] eqn:E; [|discriminate].
    rewrite Hp, nth_error_app1 by (apply nth_error_Some; congruence). rewrite E.
    destruct (nth_error (objs s) x) eqn:E2; [|discriminate]. inv Hl. rewrite (Ho _ _ E2 Hne). reflexivity. }
  split; [exact Hl'|]. unfold handle_db. rewrite Hl', He. f_equal. apply view_app. destruct (Hs _ _ Hn) as (Hr & _). exact Hr.
Qed.

(* C05 snapshots_independent, one step: an operation leaves every database unchanged that is not the very object it is applied to *)
Theorem snapshots_independent_step s o h oid ob :
  state_ok s -> lookup s h = Some (oid, ob) -> Some oid <> target_of s o ->
  handle_db (fst (step s o)) h = Some (view (bufs s) ob).
Proof. intros Hs Hl Hne. eapply handle_db_ext; eauto using step_ext. Qed.

(* ... at any point of any history *)
Theorem snapshots_independent ops o h oid ob :
  let s := run init ops in
  lookup s h = Some (oid, ob) -> Some oid <> target_of s o ->
  handle_db (fst (step s o)) h = handle_db s h.
Proof.
  intros s Hl Hne. rewrite (snapshots_independent_step s o h oid ob); auto.
  - unfold handle_db. rewrite Hl. reflexivity.
  - apply run_ok. apply init_ok.
Qed.

(* C05 reads_do_not_change: every operation other than add_fingerprints / set_prop / update_props - lookups (also of absent
   names), iteration, ==, density, len, similarity, fold, get_subset, as_type, copy, pickle, concat - leaves every database
   of the pool as it was, hence also the outcome of == between any two of them *)
Theorem reads_do_not_change s o h d :
  state_ok s -> is_mutator o = false -> handle_db s h = Some d -> handle_db (fst (step s o)) h = Some d.
Proof.
  intros Hs Hm Hh. unfold handle_db in Hh. destruct (lookup s h) as [[oid ob]|] eqn:El; [|discriminate]. inv Hh.
  eapply snapshots_independent_step; [exact Hs | exact El |]. destruct o; simpl in *; try discriminate; congruence.
Qed.

Theorem reads_keep_eq s o h1 h2 d1 d2 :
  state_ok s -> is_mutator o = false -> handle_db s h1 = Some d1 -> handle_db s h2 = Some d2 ->
  exists d1' d2', handle_db (fst (step s o)) h1 = Some d1' /\ handle_db (fst (step s o)) h2 = Some d2'
                  /\ abs d1' = abs d1 /\ db_eq d1' d2' = db_eq d1 d2.
Proof.
  intros Hs Hm H1 H2. exists d1, d2. rewrite (reads_do_not_change s o h1 d1), (reads_do_not_change s o h2 d2); auto.
Qed.
