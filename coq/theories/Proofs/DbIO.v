(* Lemmas about Model/DbIO.v (used by Properties/C08.v): dictionaries and the "_" prefix, savez/load normal form,
   the name index, the pickle path. The text export is in Proofs/DbIOText.v. *)
From Coq Require Import Ascii.
From E3FP Require Import Base.Prelude Model.DbIO.
Open Scope Z_scope.

(* ---- boolean equalities reflect equality ------------------------------------------------------------------------- *)
Lemma list_eqb_spec {A} (eqb : A -> A -> bool) :
  (forall x y, eqb x y = true <-> x = y) -> forall a b, list_eqb eqb a b = true <-> a = b.
Proof.
  intros He. induction a as [|x a IH]; destruct b as [|y b]; simpl; split; intro H; try congruence; try reflexivity.
  - apply andb_true_iff in H. destruct H as [H1 H2]. apply He in H1. apply IH in H2. congruence.
  - inversion H; subst. apply andb_true_iff. split; [apply He; reflexivity | apply IH; reflexivity].
Qed.

Lemma option_eqb_spec {A} (eqb : A -> A -> bool) :
  (forall x y, eqb x y = true <-> x = y) -> forall a b, option_eqb eqb a b = true <-> a = b.
Proof.
  intros He [x|] [y|]; simpl; split; intro H; try congruence; try reflexivity.
  - apply He in H. congruence.
  - inversion H; subst. apply He. reflexivity.
Qed.

Lemma pair_eqb_spec {A B} (ea : A -> A -> bool) (eb : B -> B -> bool) :
  (forall x y, ea x y = true <-> x = y) -> (forall x y, eb x y = true <-> x = y) ->
  forall a b, pair_eqb ea eb a b = true <-> a = b.
Proof.
  intros Ha Hb [a1 b1] [a2 b2]. unfold pair_eqb. simpl. rewrite andb_true_iff, Ha, Hb. split; intro H.
  - destruct H; congruence.
  - inversion H; auto.
Qed.

Lemma name_eqb_spec (a b : name) : name_eqb a b = true <-> a = b.
Proof. apply option_eqb_spec. apply String.eqb_eq. Qed.

Lemma name_eqb_refl (a : name) : name_eqb a a = true.
Proof. apply name_eqb_spec. reflexivity. Qed.

Lemma index_eqb_spec (a b : index) : index_eqb a b = true <-> a = b.
Proof.
  apply list_eqb_spec. apply pair_eqb_spec; [apply name_eqb_spec|]. apply list_eqb_spec. apply Z.eqb_eq.
Qed.

Lemma nodupb_NoDup l : nodupb l = true -> NoDup l.
Proof.
  induction l as [|k t IH]; simpl; intro H; constructor.
  - apply andb_true_iff in H. destruct H as [H _]. apply negb_true_iff in H. intro Hin.
    assert (existsb (String.eqb k) t = true) by (apply existsb_exists; exists k; split; [assumption | apply String.eqb_refl]).
    congruence.
  - apply IH. apply andb_true_iff in H. tauto.
Qed.

Lemma dtype_eqb_refl d : dtype_eqb d d = true.
Proof. destruct d; simpl; auto using Z.eqb_refl. Qed.

(* ---- dictionaries ------------------------------------------------------------------------------------------------ *)
Lemma dict_set_notin (d : dict) k v : ~ In k (map fst d) -> dict_set d k v = d ++ [(k, v)].
Proof.
  induction d as [|[k' v'] t IH]; simpl; intro H; [reflexivity|].
  destruct (String.eqb k k') eqn:E.
  - apply String.eqb_eq in E. subst. tauto.
  - rewrite IH by tauto. reflexivity.
Qed.

Lemma dict_set_app_notin (d1 d2 : dict) k v : ~ In k (map fst d1) -> dict_set (d1 ++ d2) k v = d1 ++ dict_set d2 k v.
Proof.
  induction d1 as [|[k' v'] t IH]; simpl; intro H; [reflexivity|].
  destruct (String.eqb k k') eqn:E.
  - apply String.eqb_eq in E. subst. tauto.
  - rewrite IH by tauto. reflexivity.
Qed.

Lemma dict_set_keys (d : dict) k v k' : In k' (map fst (dict_set d k v)) -> k' = k \/ In k' (map fst d).
Proof.
  induction d as [|[k1 v1] t IH]; cbn [dict_set map fst In].
  - intros [H|[]]; auto.
  - destruct (String.eqb k k1) eqn:E; cbn [map fst In].
    + intros [H|H]; auto.
    + intros [H|H]; auto. apply IH in H. tauto.
Qed.

Lemma fold_set_nodup (l acc : dict) :
  NoDup (map fst l) -> (forall k, In k (map fst l) -> ~ In k (map fst acc)) ->
  fold_left (fun d kv => dict_set d (fst kv) (snd kv)) l acc = acc ++ l.
Proof.
  revert acc. induction l as [|[k v] t IH]; simpl; intros acc Hnd Hdis; [symmetry; apply app_nil_r|].
  inversion Hnd as [|? ? Hk Ht]; subst.
  rewrite dict_set_notin by (apply Hdis; left; reflexivity).
  rewrite IH; [rewrite <- app_assoc; reflexivity | assumption |].
  intros k' Hk' Hin. rewrite map_app, in_app_iff in Hin. simpl in Hin. destruct Hin as [Hin|[Hin|[]]].
  - apply (Hdis k'); [right; assumption | assumption].
  - subst. tauto.
Qed.

Lemma dict_of_list_nodup (l : dict) : NoDup (map fst l) -> dict_of_list l = l.
Proof. intro H. unfold dict_of_list. rewrite fold_set_nodup; [reflexivity | assumption | intros ? ? []]. Qed.

(* ---- the prefix -------------------------------------------------------------------------------------------------- *)
Definition prefixed (kv : string * array_value) : string * array_value := (prefix_key (fst kv), snd kv).

Lemma drop1_prefix k : drop1 (prefix_key k) = k.
Proof. reflexivity. Qed.

Lemma prefix_starts k : starts_underscore (prefix_key k) = true.
Proof. reflexivity. Qed.

Lemma prefix_inj k k' : prefix_key k = prefix_key k' -> k = k'.
Proof. unfold prefix_key. intro H. inversion H. reflexivity. Qed.

Lemma prefix_not_fixed k : ~ In (prefix_key k) fixed_keys.
Proof. unfold prefix_key, fixed_keys. simpl. intros H. repeat (destruct H as [H|H]; [discriminate H|]). exact H. Qed.

Lemma fixed_keys_plain : forallb (fun k => negb (starts_underscore k)) fixed_keys = true.
Proof. reflexivity. Qed.

Lemma fixed_part_keys x : map fst (fixed_part x) = fixed_keys.
Proof. reflexivity. Qed.

Lemma NoDup_fixed_keys : NoDup fixed_keys.
Proof. apply nodupb_NoDup. reflexivity. Qed.

Lemma NoDup_map_prefix ks : NoDup ks -> NoDup (map prefix_key ks).
Proof.
  induction 1 as [|k t Hk Ht IH]; simpl; constructor; [|assumption].
  intro Hin. apply in_map_iff in Hin. destruct Hin as [k' [E Hk']]. apply prefix_inj in E. subst. tauto.
Qed.

Lemma map_fst_prefixed (ps : dict) : map fst (map prefixed ps) = map prefix_key (map fst ps).
Proof. rewrite !map_map. reflexivity. Qed.

(* the fixed part is never overwritten, whatever the property names are; the property part is a dictionary of its own *)
Lemma savez_split x : savez x = fixed_part x ++ dict_of_list (map prefixed (d_props x)).
Proof.
  unfold savez, dict_of_list.
  assert (G : forall ps acc,
             fold_left (fun d kv => dict_set d (prefix_key (fst kv)) (snd kv)) ps (fixed_part x ++ acc) =
             fixed_part x ++ fold_left (fun d kv => dict_set d (fst kv) (snd kv)) (map prefixed ps) acc).
  { induction ps as [|[k v] t IH]; intro acc; cbn [fold_left map prefixed fst snd]; [reflexivity|].
    rewrite dict_set_app_notin by (rewrite fixed_part_keys; apply prefix_not_fixed). apply IH. }
  specialize (G (d_props x) []). rewrite app_nil_r in G. exact G.
Qed.

Lemma savez_nodup x : NoDup (map fst (d_props x)) -> savez x = fixed_part x ++ map prefixed (d_props x).
Proof.
  intro H. rewrite savez_split, dict_of_list_nodup; [reflexivity|].
  rewrite map_fst_prefixed. apply NoDup_map_prefix. exact H.
Qed.

Lemma savez_keys x :
  NoDup (map fst (d_props x)) -> map fst (savez x) = fixed_keys ++ map prefix_key (map fst (d_props x)).
Proof. intro H. rewrite savez_nodup by exact H. rewrite map_app, fixed_part_keys, map_fst_prefixed. reflexivity. Qed.

Lemma savez_keys_NoDup x : NoDup (map fst (d_props x)) -> NoDup (map fst (savez x)).
Proof.
  intro H. rewrite savez_keys by exact H.
  assert (G : forall l1 l2 : list string, NoDup l1 -> NoDup l2 -> (forall k, In k l1 -> ~ In k l2) -> NoDup (l1 ++ l2)).
  { induction l1 as [|a l1 IH]; simpl; intros l2 H1 H2 Hd; [assumption|].
    inversion H1; subst. constructor.
    - rewrite in_app_iff. intros [Hi|Hi]; [tauto|]. apply (Hd a); [left; reflexivity | assumption].
    - apply IH; try assumption. intros k Hk. apply Hd. right. assumption. }
  apply G; [apply NoDup_fixed_keys | apply NoDup_map_prefix; exact H |].
  intros k Hk Hin. apply in_map_iff in Hin. destruct Hin as [k' [E _]]. subst. exact (prefix_not_fixed k' Hk).
Qed.

(* the statement of C08 savez_keys_disjoint *)
Lemma savez_keys_disjoint_lemma :
  (forall k, ~ In (prefix_key k) fixed_keys) /\
  (forall k, drop1 (prefix_key k) = k /\ starts_underscore (prefix_key k) = true) /\
  (forall k k', prefix_key k = prefix_key k' -> k = k') /\
  (forall k, In k fixed_keys -> starts_underscore k = false) /\
  (forall x, exists rest, savez x = fixed_part x ++ rest /\ forall k, In k (map fst rest) -> starts_underscore k = true).
Proof.
  split; [exact prefix_not_fixed|]. split; [intro k; split; reflexivity|]. split; [exact prefix_inj|]. split.
  - intros k Hk. pose proof fixed_keys_plain as H. rewrite forallb_forall in H. specialize (H k Hk).
    apply negb_true_iff in H. exact H.
  - intro x. exists (dict_of_list (map prefixed (d_props x))). split; [apply savez_split|].
    (* every key of a dictionary built by dict_set from prefixed keys is prefixed *)
    unfold dict_of_list.
    assert (G : forall l acc, (forall k, In k (map fst acc) -> starts_underscore k = true) ->
                forall k, In k (map fst (fold_left (fun d kv => dict_set d (fst kv) (snd kv)) (map prefixed l) acc)) ->
                          starts_underscore k = true).
    { induction l as [|[k0 v0] t IH]; cbn [map fold_left prefixed fst snd]; intros acc Hacc k Hk; [auto|].
      apply (IH (dict_set acc (prefix_key k0) v0)); [|exact Hk].
      intros k' Hk'. apply dict_set_keys in Hk'. destruct Hk' as [->|Hk']; [reflexivity | apply Hacc; exact Hk']. }
    apply G. intros k [].
Qed.

(* ---- strings ----------------------------------------------------------------------------------------------------- *)
Lemma strip_nul_idem s : strip_nul (strip_nul s) = strip_nul s.
Proof.
  induction s as [|c r IH]; simpl; [reflexivity|].
  destruct (strip_nul r) as [|d r'] eqn:E.
  - destruct (is_nul c) eqn:Ec; simpl; [reflexivity|]. rewrite Ec. reflexivity.
  - simpl in *. rewrite IH. reflexivity.
Qed.

Lemma nul_clean_spec s : nul_clean s = true <-> strip_nul s = s.
Proof. unfold nul_clean. apply String.eqb_eq. Qed.

(* ---- names through the archive ----------------------------------------------------------------------------------- *)
Definition norm_names (ns : list name) : list name :=
  if all_some ns then map (option_map strip_nul) ns else ns.

Lemma names_of_objs_map ns : names_of_objs (map name_obj ns) = Ok ns.
Proof. induction ns as [|[s|] t IH]; simpl; [reflexivity| |]; rewrite IH; reflexivity. Qed.

Lemma all_some_strings ns :
  all_some ns = true ->
  map Some (map strip_nul (flat_map (fun n : name => match n with Some s => [s] | None => [] end) ns)) =
  map (option_map strip_nul) ns.
Proof.
  induction ns as [|[s|] t IH]; simpl; intro H; [reflexivity| |discriminate].
  rewrite IH by exact H. reflexivity.
Qed.

Lemma names_roundtrip ns : names_of_array (names_array ns) = Ok (norm_names ns).
Proof.
  unfold norm_names, names_array. destruct ns as [|n t]; [reflexivity|].
  destruct (all_some (n :: t)) eqn:E.
  - unfold names_of_array. cbn [a_pay]. rewrite all_some_strings by exact E. reflexivity.
  - unfold names_of_array. cbn [a_pay]. apply names_of_objs_map.
Qed.

Lemma all_some_norm ns : all_some (map (option_map strip_nul) ns) = all_some ns.
Proof. induction ns as [|[s|] t IH]; simpl; auto. Qed.

Lemma norm_names_idem ns : norm_names (norm_names ns) = norm_names ns.
Proof.
  unfold norm_names. destruct (all_some ns) eqn:E.
  - rewrite all_some_norm, E, map_map. apply map_ext. intros [s|]; simpl; [rewrite strip_nul_idem|]; reflexivity.
  - rewrite E. reflexivity.
Qed.

Lemma norm_names_length ns : length (norm_names ns) = length ns.
Proof. unfold norm_names. destruct (all_some ns); [apply map_length | reflexivity]. Qed.

Lemma norm_names_clean ns :
  forallb (fun n : name => match n with Some s => nul_clean s | None => true end) ns = true -> norm_names ns = ns.
Proof.
  intro H. unfold norm_names. destruct (all_some ns); [|reflexivity].
  induction ns as [|[s|] t IH]; simpl in *; [reflexivity| |].
  - apply andb_true_iff in H. destruct H as [H1 H2]. apply nul_clean_spec in H1. rewrite H1, IH by exact H2. reflexivity.
  - rewrite IH by exact H. reflexivity.
Qed.

(* ---- one cycle through the dictionary: normal form ----------------------------------------------------------------- *)
Definition normalize (x : db) : db :=
  mkdb (d_kind x) (d_level x) (option_map strip_nul (d_name x)) (d_nrows x) (d_bits x)
       (canon_idxw (d_nrows x) (d_bits x) (d_indices x) (d_indptr x)) (d_data x) (d_indices x) (d_indptr x)
       (norm_names (d_names x)) (names_index (norm_names (d_names x))) (d_props x).

Lemma filter_prefixed_true (ps : dict) : filter (fun kv => starts_underscore (fst kv)) (map prefixed ps) = map prefixed ps.
Proof. induction ps as [|[k v] t IH]; simpl; [reflexivity|]. rewrite IH. reflexivity. Qed.

Lemma filter_prefixed_false (ps : dict) : filter (fun kv => negb (starts_underscore (fst kv))) (map prefixed ps) = [].
Proof. induction ps as [|[k v] t IH]; simpl; [reflexivity|]. exact IH. Qed.

Lemma unprefix_prefixed (ps : dict) : map (fun kv => (drop1 (fst kv), snd kv)) (map prefixed ps) = ps.
Proof. rewrite map_map. rewrite <- (map_id ps) at 2. apply map_ext. intros [k v]. reflexivity. Qed.

Lemma cast_same d v : cast_data d d v = Ok v.
Proof. unfold cast_data. rewrite dtype_eqb_refl. reflexivity. Qed.

Lemma load_savez_normal x :
  NoDup (map fst (d_props x)) ->
  load (savez x) = rbind (check_props (d_props x) (Z.of_nat (length (d_names x)))) (fun _ => Ok (normalize x)).
Proof.
  intro Hnd. rewrite savez_nodup by exact Hnd. unfold load.
  rewrite !filter_app, filter_prefixed_true, filter_prefixed_false, app_nil_r.
  change (filter (fun kv : string * array_value => starts_underscore (fst kv)) (fixed_part x)) with (@nil (string * array_value)).
  change (filter (fun kv : string * array_value => negb (starts_underscore (fst kv))) (fixed_part x)) with (fixed_part x).
  cbn [app]. rewrite unprefix_prefixed.
  rewrite (dict_of_list_nodup _ Hnd).
  change (get_key (fixed_part x) "data") with (Ok (mkarr (kind_dtype (d_kind x)) false (PNum (d_data x)))).
  change (get_key (fixed_part x) "indices") with (Ok (mkarr (DInt (d_idxw x)) false (PNum (d_indices x)))).
  change (get_key (fixed_part x) "indptr") with (Ok (mkarr (DInt (d_idxw x)) false (PNum (d_indptr x)))).
  change (get_key (fixed_part x) "shape") with (Ok (mkarr (DInt 8) false (PNum [d_nrows x; d_bits x]))).
  change (get_key (fixed_part x) "fp_names") with (Ok (names_array (d_names x))).
  change (get_key (fixed_part x) "fp_type") with (Ok (mkarr DObj true (PObj [OKind (d_kind x)]))).
  change (get_key (fixed_part x) "level") with (Ok (level_array (d_level x))).
  change (get_key (fixed_part x) "name") with (Ok (dbname_array (d_name x))).
  cbn [rbind num_of a_pay item_of a_dtype].
  rewrite cast_same. cbn [rbind].
  rewrite names_roundtrip. cbn [rbind].
  rewrite norm_names_length.
  rewrite (dict_of_list_nodup _ Hnd).
  assert (HL : rbind (item_of (level_array (d_level x)))
                 (fun v => match v with VInt z => Ok (Some z) | VObj ONone => Ok None | _ => Raises EOther end) = Ok (d_level x))
    by (destruct (d_level x); reflexivity).
  assert (HN : rbind (item_of (dbname_array (d_name x)))
                 (fun v => match v with VObj (OStr s) => Ok (Some s) | VObj ONone => Ok None | _ => Raises EOther end)
               = Ok (option_map strip_nul (d_name x)))
    by (destruct (d_name x); reflexivity).
  rewrite HL, HN. cbn [rbind]. unfold normalize. reflexivity.
Qed.

Lemma check_props_ok (ps : dict) n :
  forallb (fun kv => negb (a_scalar (snd kv)) && (a_len (snd kv) =? n)) ps = true -> check_props ps n = Ok tt.
Proof.
  induction ps as [|[k a] t IH]; simpl; intro H; [reflexivity|].
  apply andb_true_iff in H. destruct H as [H1 H2]. apply andb_true_iff in H1. destruct H1 as [Hs Hl].
  apply negb_true_iff in Hs. rewrite Hs, Hl. apply IH. exact H2.
Qed.

Lemma wfb_parts x :
  wfb x = true ->
  NoDup (map fst (d_props x)) /\
  d_idxw x = canon_idxw (d_nrows x) (d_bits x) (d_indices x) (d_indptr x) /\
  d_index x = names_index (d_names x) /\
  norm_names (d_names x) = d_names x /\
  option_map strip_nul (d_name x) = d_name x /\
  check_props (d_props x) (Z.of_nat (length (d_names x))) = Ok tt.
Proof.
  unfold wfb. rewrite !andb_true_iff. intros [[[[[H1 H2] H3] H4] H5] H6].
  split; [apply nodupb_NoDup; exact H1|]. split; [apply Z.eqb_eq; exact H2|].
  split; [apply index_eqb_spec; exact H3|]. split; [apply norm_names_clean; exact H4|].
  split; [destruct (d_name x); simpl; [apply nul_clean_spec in H5; rewrite H5|]; reflexivity|].
  apply check_props_ok. exact H6.
Qed.

Lemma normalize_wf x : wfb x = true -> normalize x = x.
Proof.
  intro H. apply wfb_parts in H. destruct H as (_ & Hw & Hi & Hn & Hm & _).
  unfold normalize. rewrite Hn, Hm, <- Hw, <- Hi. destruct x; reflexivity.
Qed.

(* load (savez db) = db *)
Lemma load_savez_id_lemma x : wfb x = true -> load (savez x) = Ok x.
Proof.
  intro H. pose proof (wfb_parts x H) as (Hnd & _ & _ & _ & _ & Hc).
  rewrite load_savez_normal by exact Hnd. rewrite Hc. cbn [rbind]. rewrite normalize_wf by exact H. reflexivity.
Qed.

Lemma normalize_idem x : normalize (normalize x) = normalize x.
Proof.
  unfold normalize. cbn [d_kind d_level d_name d_nrows d_bits d_indices d_indptr d_data d_names d_props].
  rewrite norm_names_idem. f_equal. destruct (d_name x); simpl; [rewrite strip_nul_idem|]; reflexivity.
Qed.

Lemma rbind_ok_r {A} (r : result A) : rbind r Ok = r.
Proof. destruct r; reflexivity. Qed.

(* n >= 1 cycles = 1 cycle, for every database value whose props are a dictionary (also when the load is refused) *)
Lemma cycles_dict_idem x n : NoDup (map fst (d_props x)) -> cycles_dict (S n) x = cycles_dict 1 x.
Proof.
  intro Hnd. cbn [cycles_dict]. rewrite rbind_ok_r, load_savez_normal by exact Hnd.
  destruct (check_props (d_props x) (Z.of_nat (length (d_names x)))) as [[]|e] eqn:Hc; cbn [rbind]; [|reflexivity].
  assert (G : forall m, cycles_dict m (normalize x) = Ok (normalize x)).
  { induction m as [|m IH]; [reflexivity|]. cbn [cycles_dict].
    rewrite load_savez_normal by exact Hnd.
    cbn [normalize d_props d_names]. rewrite norm_names_length, Hc. cbn [rbind].
    change (mkdb (d_kind x) (d_level x) (option_map strip_nul (d_name x)) (d_nrows x) (d_bits x)
       (canon_idxw (d_nrows x) (d_bits x) (d_indices x) (d_indptr x)) (d_data x) (d_indices x) (d_indptr x)
       (norm_names (d_names x)) (names_index (norm_names (d_names x))) (d_props x)) with (normalize x).
    rewrite normalize_idem. exact IH. }
  apply G.
Qed.

(* ---- the name index ---------------------------------------------------------------------------------------------- *)
Lemma update_names_map_app ix a b off :
  update_names_map ix (a ++ b) off = update_names_map (update_names_map ix a off) b (off + Z.of_nat (length a)).
Proof.
  revert ix off. induction a as [|n a IH]; intros ix off.
  - simpl. f_equal. lia.
  - cbn [app update_names_map length]. rewrite IH. f_equal. lia.
Qed.

(* building the index batch by batch (add_fingerprints) = rebuilding it in one pass (from_array, __setstate__, load) *)
Lemma index_batches_lemma bs : snd (add_batches bs) = names_index (fst (add_batches bs)).
Proof.
  unfold add_batches.
  assert (G : forall bs st, snd st = names_index (fst st) ->
                            snd (fold_left add_batch bs st) = names_index (fst (fold_left add_batch bs st))).
  { induction bs0 as [|b bs0 IH]; intros st Hst; [exact Hst|].
    simpl. apply IH. unfold add_batch. cbn [fst snd]. unfold names_index in *.
    rewrite update_names_map_app, Hst. reflexivity. }
  apply G. reflexivity.
Qed.

(* what the index answers: the positions of the name, ascending *)
Fixpoint positions (n : name) (ns : list name) (off : Z) : list Z :=
  match ns with
  | [] => []
  | m :: t => (if name_eqb n m then [off] else []) ++ positions n t (off + 1)
  end.

Lemma idx_get_append ix m i n :
  idx_get (idx_append ix m i) n = if name_eqb n m then idx_get ix n ++ [i] else idx_get ix n.
Proof.
  induction ix as [|[k l] t IH]; simpl.
  - destruct (name_eqb n m); reflexivity.
  - destruct (name_eqb m k) eqn:E1; simpl.
    + apply name_eqb_spec in E1. subst k. destruct (name_eqb n m); reflexivity.
    + destruct (name_eqb n k) eqn:E2.
      * apply name_eqb_spec in E2. subst k. destruct (name_eqb n m) eqn:E3; [|reflexivity].
        apply name_eqb_spec in E3. subst. rewrite name_eqb_refl in E1. discriminate.
      * exact IH.
Qed.

Lemma idx_get_update ix ns off n :
  idx_get (update_names_map ix ns off) n = idx_get ix n ++ positions n ns off.
Proof.
  revert ix off. induction ns as [|m t IH]; intros ix off; simpl; [symmetry; apply app_nil_r|].
  rewrite IH, idx_get_append. destruct (name_eqb n m); simpl; [rewrite <- app_assoc|]; reflexivity.
Qed.

Lemma index_lookup_lemma ns n : idx_get (names_index ns) n = positions n ns 0.
Proof. unfold names_index. rewrite idx_get_update. reflexivity. Qed.

Lemma positions_spec n ns off i :
  In i (positions n ns off) <-> exists k, nth_error ns k = Some n /\ i = off + Z.of_nat k.
Proof.
  revert off. induction ns as [|m t IH]; intro off; simpl.
  - split; [intros [] | intros [k [H _]]; destruct k; discriminate].
  - rewrite in_app_iff, IH. split.
    + intros [H|[k [Hk ->]]].
      * destruct (name_eqb n m) eqn:E; [|destruct H]. destruct H as [<-|[]]. apply name_eqb_spec in E. subst.
        exists 0%nat. split; [reflexivity | simpl; lia].
      * exists (S k). split; [exact Hk | lia].
    + intros [[|k] [Hk ->]].
      * left. simpl in Hk. inversion Hk; subst. rewrite name_eqb_refl. left. simpl. lia.
      * right. exists k. split; [exact Hk | lia].
Qed.

(* ---- pickle path -------------------------------------------------------------------------------------------------- *)
Lemma setstate_getstate x : d_index x = names_index (d_names x) -> setstate (getstate x) = x.
Proof. intro H. destruct x; simpl in *. subst. reflexivity. Qed.

Lemma setstate_getstate_idem x : setstate (getstate (setstate (getstate x))) = setstate (getstate x).
Proof. destruct x; reflexivity. Qed.

Section FilesProofs.
  Variables zfile pfile : Type.
  Variable npz_write : dict -> zfile.
  Variable npz_read : zfile -> dict.
  Variable pkl_dumps : pstate -> pfile.
  Variable pkl_loads : pfile -> pstate.
  (* trusted: what NumPy reads from an archive is the dictionary that was written (keys distinct: they are zip members) *)
  Hypothesis npz_roundtrip : forall d, NoDup (map fst d) -> npz_read (npz_write d) = d.
  Hypothesis pkl_roundtrip : forall s, pkl_loads (pkl_dumps s) = s.

  Lemma fpz_cycle x : NoDup (map fst (d_props x)) -> load_fpz _ npz_read (savez_file _ npz_write x) = load (savez x).
  Proof. intro H. unfold load_fpz, savez_file. rewrite npz_roundtrip; [reflexivity | apply savez_keys_NoDup; exact H]. Qed.

  Lemma load_fpz_id x : wfb x = true -> load_fpz _ npz_read (savez_file _ npz_write x) = Ok x.
  Proof. intro H. rewrite fpz_cycle by (apply wfb_parts in H; tauto). apply load_savez_id_lemma. exact H. Qed.

  Lemma load_fps_id x : wfb x = true -> load_fps _ pkl_loads (save_file _ pkl_dumps x) = x.
  Proof. intro H. unfold load_fps, save_file. rewrite pkl_roundtrip. apply setstate_getstate. apply wfb_parts in H. tauto. Qed.

  Lemma cycles_fpz_dict n x :
    NoDup (map fst (d_props x)) -> cycles_fpz _ npz_write npz_read n x = cycles_dict n x.
  Proof.
    revert x. induction n as [|n IH]; intros x H; [reflexivity|]. cbn [cycles_fpz cycles_dict].
    rewrite fpz_cycle by exact H. rewrite load_savez_normal by exact H.
    destruct (check_props (d_props x) (Z.of_nat (length (d_names x)))) as [[]|e]; cbn [rbind]; [|reflexivity].
    apply IH. exact H.
  Qed.

  Lemma cycles_fpz_idem n x :
    NoDup (map fst (d_props x)) -> cycles_fpz _ npz_write npz_read (S n) x = cycles_fpz _ npz_write npz_read 1 x.
  Proof. intro H. rewrite !cycles_fpz_dict by exact H. apply cycles_dict_idem. exact H. Qed.

  Lemma cycles_fps_idem n x : cycles_fps _ pkl_dumps pkl_loads (S n) x = cycles_fps _ pkl_dumps pkl_loads 1 x.
  Proof.
    cbn [cycles_fps]. unfold load_fps, save_file. rewrite pkl_roundtrip.
    induction n as [|n IH]; [reflexivity|]. cbn [cycles_fps]. unfold load_fps, save_file in *.
    rewrite pkl_roundtrip, setstate_getstate_idem. exact IH.
  Qed.
End FilesProofs.

(* the index answers a name with exactly its positions *)
Lemma index_lookup_spec_lemma ns n i :
  In i (idx_get (names_index ns) n) <-> exists k, nth_error ns k = Some n /\ i = Z.of_nat k.
Proof. rewrite index_lookup_lemma, positions_spec. split; intros [k [H ->]]; exists k; split; auto. Qed.

Lemma pickle_id_batches_lemma x bs : (d_names x, d_index x) = add_batches bs -> setstate (getstate x) = x.
Proof.
  intro H. apply setstate_getstate. pose proof (index_batches_lemma bs) as G. rewrite <- H in G. exact G.
Qed.

(* ---- outside the hypotheses: a name ending in NUL is cut by the <U array ------------------------------------------- *)
Definition nul_witness : db :=
  mkdb KBit (Some 5) (Some "n"%string) 2 8 4 [1; 1] [1; 2] [0; 1; 2]
       [Some (bytes_to_string [97; 0]); Some "b"%string]
       (names_index [Some (bytes_to_string [97; 0]); Some "b"%string]) [].

Lemma load_savez_nul_refuted_lemma :
  exists x y, load (savez x) = Ok y /\ d_names y <> d_names x /\ d_index y <> d_index x.
Proof.
  exists nul_witness. eexists. split; [vm_compute; reflexivity|]. split; vm_compute; intro H; discriminate H.
Qed.
