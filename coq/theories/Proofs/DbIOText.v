(* Lemmas about the text export of Model/DbIO.v (savetxt): the run-length construction of a row's bit string and
   the row loop. Used by Properties/C08.v. *)
From Coq Require Import Ascii.
From E3FP Require Import Base.Prelude Base.ZSet Model.DbIO.
Open Scope Z_scope.

(* ---- strings ----------------------------------------------------------------------------------------------------- *)
Lemma length_append (a b : string) : String.length (a ++ b) = (String.length a + String.length b)%nat.
Proof. induction a as [|c a IH]; simpl; [reflexivity | rewrite IH; reflexivity]. Qed.

Lemma length_zeros n : String.length (zeros n) = n.
Proof. induction n as [|n IH]; simpl; [reflexivity | rewrite IH; reflexivity]. Qed.

Lemma get_zeros n k : (k < n)%nat -> String.get k (zeros n) = Some "0"%char.
Proof.
  revert k. induction n as [|n IH]; intros k H; [lia|]. destruct k as [|k]; simpl; [reflexivity|]. apply IH. lia.
Qed.

(* ---- the row string, unfolded ------------------------------------------------------------------------------------ *)
(* zeros up to the next set column, a "1", and so on; after the last column zeros up to the length *)
Fixpoint rs (prev : Z) (idx : list Z) (bits : Z) : string :=
  match idx with
  | [] => py_zeros (bits - prev - 1)
  | i :: t => (py_zeros (i - prev - 1) ++ "1" ++ rs i t bits)%string
  end.

Lemma diffs_cons2 a b t : diffs (a :: b :: t) = (b - a) :: diffs (b :: t).
Proof. reflexivity. Qed.

Lemma join_rs prev idx bits :
  String.concat "1" (map (fun dlt => py_zeros (dlt - 1)) (diffs (prev :: idx ++ [bits]))) = rs prev idx bits.
Proof.
  revert prev. induction idx as [|i t IH]; intro prev.
  - cbn [app diffs map String.concat rs]. reflexivity.
  - cbn [app rs]. rewrite diffs_cons2. cbn [map].
    specialize (IH i). destruct t as [|j t']; cbn [app] in *.
    + rewrite diffs_cons2 in *. cbn [map String.concat diffs] in *. rewrite <- IH. reflexivity.
    + rewrite diffs_cons2 in *. cbn [map] in *.
      cbn [String.concat]. cbn [String.concat] in IH. rewrite IH. reflexivity.
Qed.

Lemma row_string_rs idx bits : row_string idx bits = rs (-1) idx bits.
Proof. unfold row_string. apply join_rs. Qed.

(* ---- specification for strictly increasing columns ----------------------------------------------------------------- *)
Lemma rs_spec idx : forall prev bits,
  ssorted idx -> (forall i, In i idx -> prev < i < bits) -> prev < bits ->
  Z.of_nat (String.length (rs prev idx bits)) = bits - prev - 1 /\
  forall k, 0 <= k < bits - prev - 1 ->
            String.get (Z.to_nat k) (rs prev idx bits) = Some (if zmem (prev + 1 + k) idx then "1"%char else "0"%char).
Proof.
  induction idx as [|i t IH]; intros prev bits Hs Hb Hpb.
  - cbn [rs zmem]. unfold py_zeros. rewrite length_zeros. split; [lia|].
    intros k Hk. apply get_zeros. lia.
  - unfold ssorted in Hs. inversion Hs as [|? ? Hs' Hall]; subst. rewrite Forall_forall in Hall.
    assert (Hi : prev < i < bits) by (apply Hb; left; reflexivity).
    destruct (IH i bits Hs') as [IHlen IHget].
    { intros j Hj. split; [apply Hall; exact Hj | apply Hb; right; exact Hj]. }
    { lia. }
    cbn [rs]. unfold py_zeros. set (g := Z.to_nat (i - prev - 1)).
    assert (Hg : Z.of_nat g = i - prev - 1) by (unfold g; lia).
    split.
    + rewrite !length_append, length_zeros. cbn [String.length]. lia.
    + intros k Hk. cbn [zmem].
      destruct (Z.lt_trichotomy k (i - prev - 1)) as [Hlt|[Heq|Hgt]].
      * (* inside the run of zeros *)
        rewrite <- append_correct1 by (rewrite length_zeros; lia).
        rewrite get_zeros by lia.
        assert (E1 : (prev + 1 + k =? i) = false) by (apply Z.eqb_neq; lia). rewrite E1. cbn [orb].
        assert (E2 : zmem (prev + 1 + k) t = false).
        { apply zmem_false. intro Hin. specialize (Hall _ Hin). lia. }
        rewrite E2. reflexivity.
      * (* the set column itself *)
        assert (E1 : (prev + 1 + k =? i) = true) by (apply Z.eqb_eq; lia). rewrite E1. cbn [orb].
        replace (Z.to_nat k) with (0 + String.length (zeros g))%nat by (rewrite length_zeros; lia).
        rewrite <- append_correct2. reflexivity.
      * (* to the right of it: the rest of the row *)
        assert (E1 : (prev + 1 + k =? i) = false) by (apply Z.eqb_neq; lia). rewrite E1. cbn [orb].
        replace (Z.to_nat k) with (S (Z.to_nat (k - (i - prev - 1) - 1)) + String.length (zeros g))%nat
          by (rewrite length_zeros; lia).
        rewrite <- append_correct2. cbn [append String.get].
        rewrite IHget by lia. replace (i + 1 + (k - (i - prev - 1) - 1)) with (prev + 1 + k) by lia. reflexivity.
Qed.

Lemma row_string_spec idx bits :
  ssorted idx -> (forall i, In i idx -> 0 <= i < bits) -> 0 <= bits ->
  String.length (row_string idx bits) = Z.to_nat bits /\
  forall i, 0 <= i < bits ->
            String.get (Z.to_nat i) (row_string idx bits) = Some (if zmem i idx then "1"%char else "0"%char).
Proof.
  intros Hs Hb Hbits. rewrite row_string_rs.
  destruct (rs_spec idx (-1) bits Hs) as [Hl Hg].
  { intros i Hi. specialize (Hb i Hi). lia. }
  { lia. }
  split; [lia|]. intros i Hi. rewrite Hg by lia. replace (-1 + 1 + i) with i by lia. reflexivity.
Qed.

(* ---- the row loop ------------------------------------------------------------------------------------------------ *)
Definition name_text (n : name) : string := match n with Some s => s | None => EmptyString end.

Definition line (with_names : bool) (bits : Z) (r : list Z) (n : name) : string :=
  if with_names then (row_string r bits ++ " " ++ name_text n)%string else row_string r bits.

(* every line is terminated by a newline *)
Definition text_of (ls : list string) : string := fold_right (fun l acc => (l ++ nl ++ acc)%string) EmptyString ls.

Lemma skipn_nth_error {A} (l : list A) i a : nth_error l i = Some a -> skipn i l = a :: skipn (S i) l.
Proof.
  revert i. induction l as [|x l IH]; intros [|i] H; try discriminate.
  - inversion H; reflexivity.
  - simpl in H. apply IH in H. exact H.
Qed.

Lemma nth_error_some {A} (l : list A) i : (i < length l)%nat -> exists a, nth_error l i = Some a.
Proof. intro H. destruct (nth_error l i) eqn:E; [eauto|]. apply nth_error_None in E. lia. Qed.

Lemma savetxt_rows_spec x wn : forall n i,
  length (d_indptr x) = (i + n + 1)%nat -> length (d_names x) = (i + n)%nat ->
  (wn = true -> forall nm, In nm (d_names x) -> nm <> None) ->
  savetxt_rows x wn n i =
  Ok (text_of (map (fun rn => line wn (d_bits x) (fst rn) (snd rn))
                   (combine (rows_from (d_indices x) (skipn i (d_indptr x))) (skipn i (d_names x))))).
Proof.
  induction n as [|n IH]; intros i Hp Hn Hnames.
  - cbn [savetxt_rows]. rewrite (skipn_all2 (d_names x)) by lia. rewrite combine_nil. reflexivity.
  - cbn [savetxt_rows].
    destruct (nth_error_some (d_indptr x) i) as [a Ha]; [lia|].
    destruct (nth_error_some (d_indptr x) (S i)) as [b Hb]; [lia|].
    destruct (nth_error_some (d_names x) i) as [nm Hnm]; [lia|].
    rewrite Ha, Hb, Hnm.
    rewrite (skipn_nth_error _ _ _ Ha), (skipn_nth_error _ _ _ Hnm).
    pose proof (skipn_nth_error _ _ _ Hb) as Hsk.
    assert (Hrows : rows_from (d_indices x) (a :: skipn (S i) (d_indptr x)) =
                    slice (d_indices x) a b :: rows_from (d_indices x) (skipn (S i) (d_indptr x))).
    { rewrite Hsk. reflexivity. }
    rewrite Hrows. cbn [combine map fst snd text_of fold_right].
    rewrite (IH (S i)) by (try lia; assumption). cbn [rbind].
    unfold line at 1. destruct wn.
    + destruct nm as [s|].
      * cbn [rbind name_text]. reflexivity.
      * exfalso. apply (Hnames eq_refl None); [eapply nth_error_In; exact Hnm | reflexivity].
    + cbn [rbind]. reflexivity.
Qed.

Lemma savetxt_lines_lemma x wn :
  d_kind x = KBit -> length (d_indptr x) = S (Z.to_nat (d_nrows x)) -> length (d_names x) = Z.to_nat (d_nrows x) ->
  (wn = true -> forall nm, In nm (d_names x) -> nm <> None) ->
  savetxt x wn = Ok (text_of (map (fun rn => line wn (d_bits x) (fst rn) (snd rn)) (combine (rows x) (d_names x)))).
Proof.
  intros Hk Hp Hn Hnames. unfold savetxt. rewrite Hk.
  rewrite (savetxt_rows_spec x wn (Z.to_nat (d_nrows x)) 0) by (try lia; assumption). reflexivity.
Qed.

Lemma savetxt_kind_lemma x wn : d_kind x <> KBit -> savetxt x wn = Raises EInvalidFp.
Proof. unfold savetxt. destruct (d_kind x); congruence. Qed.

(* ---- outside the hypotheses: what the construction does with columns that are not strictly increasing --------------- *)
(* a pair of neighbours i >= j contributes "0" * (j - i - 1) = "" : the "1" is written, the string gets longer *)
Lemma savetxt_unsorted_refuted_lemma :
  exists idx bits, (forall i, In i idx -> 0 <= i < bits) /\ NoDup idx /\
                   String.length (row_string idx bits) <> Z.to_nat bits.
Proof.
  exists [5; 1], 8. split; [|split].
  - simpl. intros i [<-|[<-|[]]]; lia.
  - constructor; [simpl; intros [H|[]]; discriminate H|]. constructor; [intros []|constructor].
  - vm_compute. intro H. discriminate H.
Qed.

Lemma savetxt_duplicate_refuted_lemma :
  exists idx bits, (forall i, In i idx -> 0 <= i < bits) /\
                   String.length (row_string idx bits) <> Z.to_nat bits.
Proof.
  exists [3; 3], 8. split.
  - simpl. intros i [<-|[<-|[]]]; lia.
  - vm_compute. intro H. discriminate H.
Qed.
