(* The invariant of the database pool (Model/Db.v) and its preservation by every operation. *)
From Coq Require Import QArith Lia.
From E3FP Require Import Base.Prelude Base.ZSet Model.Fprint Model.Db Proofs.DbBase Proofs.DbRefuse.
Open Scope Z_scope.

Definition refs_ok (bs : list buf) (o : obj) : Prop :=
  match oarr o with Some c => (cdata c < length bs /\ cind c < length bs /\ cptr c < length bs)%nat | None => onames o = [] end
  /\ Forall (fun kc => (snd kc < length bs)%nat) (oprops o).

Definition obj_ok (bs : list buf) (o : obj) : Prop :=
  refs_ok bs o
  /\ props_fit bs (oprops o) (length (onames o)) = true
  /\ length (onames o) = fp_num (view bs o)
  /\ oindex o = names_map [] (onames o) 0.

Definition state_ok (s : state) : Prop := forall oid o, nth_error (objs s) oid = Some o -> obj_ok (bufs s) o.

(* ---- stability under allocation *)
Lemma view_rows_app bs e c :
  (cdata c < length bs /\ cind c < length bs /\ cptr c < length bs)%nat -> view_rows (bs ++ e) c = view_rows bs c.
Proof. intros (H1 & H2 & H3). unfold view_rows. rewrite !getZ_app, getQ_app by assumption. reflexivity. Qed.

Lemma view_app bs e o : refs_ok bs o -> view (bs ++ e) o = view bs o.
Proof.
  intros [Ha Hp]. unfold view. f_equal.
  - destruct (oarr o); [apply view_rows_app; exact Ha | reflexivity].
  - apply map_ext_in. intros kc Hin. rewrite Forall_forall in Hp. rewrite getP_app by (apply Hp; exact Hin). reflexivity.
Qed.

Lemma forallb_ext_in' {A} (f g : A -> bool) l : (forall x, In x l -> f x = g x) -> forallb f l = forallb g l.
Proof.
  induction l as [|a t IH]; intro H; simpl; [reflexivity|].
  rewrite (H a (or_introl eq_refl)), IH; [reflexivity|]. intros x Hx. apply H. right. exact Hx.
Qed.

Lemma props_fit_app bs e ps n : Forall (fun kc => (snd kc < length bs)%nat) ps -> props_fit (bs ++ e) ps n = props_fit bs ps n.
Proof.
  intro Hp. unfold props_fit. apply forallb_ext_in'. intros kc Hin.
  destruct (aget (fst kc) ps) eqn:E; [|reflexivity].
  apply aget_In in E. rewrite Forall_forall in Hp. specialize (Hp _ E). simpl in Hp. rewrite getP_app by exact Hp. reflexivity.
Qed.

Lemma Forall_lt_app (ps : list (string * nat)) a b :
  Forall (fun kc => (snd kc < a)%nat) ps -> (a <= b)%nat -> Forall (fun kc => (snd kc < b)%nat) ps.
Proof. intros H L. eapply Forall_impl; [|exact H]. simpl. intros; lia. Qed.

Lemma obj_ok_app bs e o : obj_ok bs o -> obj_ok (bs ++ e) o.
Proof.
  intros (Hr & Hf & Hn & Hi). pose proof Hr as [Ha Hp].
  repeat split; try assumption.
  - destruct (oarr o); [rewrite app_length; lia | exact Ha].
  - eapply Forall_lt_app; [exact Hp | rewrite app_length; lia].
  - rewrite props_fit_app by exact Hp. exact Hf.
  - rewrite view_app by exact Hr. exact Hn.
Qed.

Lemma set_obj_cases l i o j x : nth_error (set_obj l i o) j = Some x -> (j = i /\ x = o) \/ nth_error l j = Some x.
Proof.
  destruct (Nat.eq_dec i j) as [->|Hne].
  - intro H. destruct (Nat.lt_ge_cases j (length l)) as [L|L].
    + rewrite set_obj_at in H by exact L. inv H. left; auto.
    + assert (Hx : nth_error (set_obj l j o) j <> None) by congruence.
      apply nth_error_Some in Hx. rewrite set_obj_length in Hx. lia.
  - rewrite set_obj_other by exact Hne. auto.
Qed.

Lemma push_ok s e o : state_ok s -> obj_ok (bufs s ++ e) o -> state_ok (push_obj s (bufs s ++ e) o).
Proof.
  intros Hs Ho oid x H. unfold push_obj in *. cbn [objs bufs] in *.
  destruct (Nat.lt_ge_cases oid (length (objs s))) as [L|L].
  - rewrite nth_error_app1 in H by exact L. apply obj_ok_app. eapply Hs; eassumption.
  - rewrite nth_error_app2 in H by exact L. destruct (oid - length (objs s))%nat as [|n]; simpl in H; [inv H; exact Ho|].
    destruct n; discriminate.
Qed.

Lemma set_ok s e oid o : state_ok s -> obj_ok (bufs s ++ e) o -> state_ok (mkst (bufs s ++ e) (set_obj (objs s) oid o) (pool s)).
Proof.
  intros Hs Ho j x H. cbn [objs bufs] in *. apply set_obj_cases in H. destruct H as [[_ ->]|H]; [exact Ho|].
  apply obj_ok_app. eapply Hs; eassumption.
Qed.

(* ---- the name index *)
Lemma names_map_app a : forall ix b off, names_map ix (a ++ b) off = names_map (names_map ix a off) b (off + Z.of_nat (length a)).
Proof.
  induction a as [|x a IH]; intros ix b off; simpl.
  - f_equal. lia.
  - rewrite IH. f_equal. lia.
Qed.

(* ---- association lists *)
Lemma aget_aset {V} (ps : list (string * V)) k i k' : aget k' (aset ps k i) = if String.eqb k' k then Some i else aget k' ps.
Proof.
  induction ps as [|[k0 v0] t IH]; simpl.
  - destruct (String.eqb k' k); reflexivity.
  - destruct (String.eqb k k0) eqn:E; simpl.
    + apply String.eqb_eq in E. subst k0. destruct (String.eqb k' k); reflexivity.
    + destruct (String.eqb k' k0) eqn:E2.
      * apply String.eqb_eq in E2. subst k0. rewrite String.eqb_sym, E. reflexivity.
      * exact IH.
Qed.

Lemma In_aset {V} (ps : list (string * V)) k i x : In x (aset ps k i) -> x = (k, i) \/ In x ps.
Proof.
  induction ps as [|[k0 v0] t IH]; simpl; intro H.
  - destruct H as [<-|[]]. auto.
  - destruct (String.eqb k k0) eqn:E; simpl in H.
    + apply String.eqb_eq in E. subst k0. destruct H as [<-|H]; auto.
    + destruct H as [<-|H]; [auto|]. destruct (IH H); auto.
Qed.

Lemma aget_keys {V} k (l : list (string * V)) v : aget k l = Some v -> In k (map fst l).
Proof. intro H. apply aget_In in H. apply (in_map fst) in H. exact H. Qed.

(* ---- storing columns *)
Lemma store_cols_fit N : forall cols bs ps bs' ps',
  store_cols bs ps cols = (bs', ps') ->
  (forall c, In c cols -> length (snd c) = N) ->
  Forall (fun kc => (snd kc < length bs)%nat) ps ->
  (forall k i, aget k ps = Some i -> length (getP bs i) = N \/ In k (map fst cols)) ->
  Forall (fun kc => (snd kc < length bs')%nat) ps' /\ (forall k i, aget k ps' = Some i -> length (getP bs' i) = N).
Proof.
  induction cols as [|[k v] t IH]; intros bs ps bs' ps' H Hc Hp Hl; simpl in H.
  - inv H. split; [exact Hp|]. intros k i Hk. destruct (Hl _ _ Hk) as [?|[]]. assumption.
  - eapply IH; [exact H | | |].
    + intros c Hin. apply Hc. right. exact Hin.
    + rewrite Forall_forall. intros x Hin. apply In_aset in Hin. rewrite app_length. simpl.
      destruct Hin as [->|Hin]; [simpl; lia|]. rewrite Forall_forall in Hp. specialize (Hp _ Hin). lia.
    + intros k' i Hk. rewrite aget_aset in Hk. destruct (String.eqb k' k) eqn:E.
      * inv Hk. left. unfold getP. rewrite nth_error_app_len. apply (Hc (k, v)). left. reflexivity.
      * pose proof (aget_In _ _ _ Hk) as Hin. rewrite Forall_forall in Hp. specialize (Hp _ Hin). simpl in Hp.
        rewrite getP_app by exact Hp. destruct (Hl _ _ Hk) as [?|Hin2]; [auto|].
        simpl in Hin2. destruct Hin2 as [<-|?]; [rewrite String.eqb_refl in E; discriminate | auto].
Qed.

Lemma fit_of_lookup bs ps N : (forall k i, aget k ps = Some i -> length (getP bs i) = N) -> props_fit bs ps N = true.
Proof.
  intro H. unfold props_fit. apply forallb_forall. intros kc _. destruct (aget (fst kc) ps) eqn:E; [|reflexivity].
  apply Nat.eqb_eq. eapply H. exact E.
Qed.

Lemma lookup_of_fit bs ps N k i : props_fit bs ps N = true -> aget k ps = Some i -> length (getP bs i) = N.
Proof.
  intros Hf Hk. unfold props_fit in Hf. rewrite forallb_forall in Hf. specialize (Hf _ (aget_In _ _ _ Hk)). simpl in Hf.
  rewrite Hk in Hf. apply Nat.eqb_eq. exact Hf.
Qed.

Lemma prep_props_keys old n append check : forall cols r, prep_props old n cols append check = Ok r -> map fst r = map fst cols.
Proof.
  induction cols as [|[k v] t IH]; intros r H; simpl in H; [inv H; reflexivity|].
  dmatch; [discriminate|]. destruct (prep_props old n t append check) eqn:E; simpl in H; [|discriminate]. inv H.
  simpl. f_equal. apply IH. reflexivity.
Qed.

Lemma prep_props_len old n append : forall cols r c, prep_props old n cols append true = Ok r -> In c r -> length (snd c) = n.
Proof.
  induction cols as [|[k v] t IH]; intros r c H Hin; simpl in H; [inv H; destruct Hin|].
  destruct (negb (_ =? n)%nat) eqn:E; simpl in H; [discriminate|].
  destruct (prep_props old n t append true) eqn:E2; simpl in H; [|discriminate]. inv H.
  destruct Hin as [<-|Hin]; [|eapply IH; [reflexivity|exact Hin]].
  simpl. apply negb_false_iff, Nat.eqb_eq in E. exact E.
Qed.

Lemma transpose_keys names : forall pvs, map fst (transpose names pvs) = names.
Proof. induction names; intros; simpl; [|rewrite IHnames]; reflexivity. Qed.

(* ---- fresh databases *)
Lemma alloc_cols_fit cols bs bs1 ps n :
  alloc_cols bs cols = (bs1, ps) -> forallb (fun c => Nat.eqb (length (snd c)) n) cols = true -> props_fit bs1 ps n = true.
Proof.
  intros H Hc. destruct (alloc_cols_view cols bs bs1 ps [] H) as [Hv _]. rewrite app_nil_r in Hv.
  apply fit_of_lookup. intros k i Hk.
  assert (In (k, getP bs1 i) cols) as Hin.
  { rewrite <- Hv. apply aget_In in Hk. apply (in_map (fun kc => (fst kc, getP bs1 (snd kc)))) in Hk. exact Hk. }
  rewrite forallb_forall in Hc. specialize (Hc _ Hin). simpl in Hc. apply Nat.eqb_eq. exact Hc.
Qed.

Lemma alloc_cols_nil cols bs bs1 ps : alloc_cols bs cols = (bs1, ps) -> cols = [] -> ps = [].
Proof. intros H ->. simpl in H. inv H. reflexivity. Qed.

Lemma new_db_fresh_ok s k lv bits rs names cols : state_ok s -> state_ok (fst (new_db_fresh s k lv bits rs names cols)).
Proof.
  intros Hs. unfold new_db_fresh.
  destruct (negb _) eqn:Ec; [exact Hs|].
  apply negb_false_iff, andb_true_iff in Ec. destruct Ec as [Hlen Ec]. apply Nat.eqb_eq in Hlen. unfold alloc_csr.
  destruct (alloc_cols (bufs s ++ [BQ (enc_data rs); BZ (enc_idx rs); BZ (enc_ptr 0 rs)]) cols) as [bs2 ps] eqn:Ea. cbn [fst].
  destruct (alloc_cols_app cols (bufs s ++ [BQ (enc_data rs); BZ (enc_idx rs); BZ (enc_ptr 0 rs)])) as [e He]. rewrite Ea in He. simpl in He.
  rewrite He, <- app_assoc. apply push_ok; [exact Hs|]. rewrite app_assoc, <- He.
  destruct (alloc_cols_view cols _ _ _ [] Ea) as [_ Hf].
  repeat split; cbn [oarr oprops onames oindex cdata cind cptr].
  - rewrite He, !app_length. simpl. lia.
  - rewrite He, !app_length. simpl. lia.
  - rewrite He, !app_length. simpl. lia.
  - exact Hf.
  - eapply alloc_cols_fit; eassumption.
  - unfold fp_num, view. cbn [drows oarr]. rewrite He, view_rows_alloc. exact Hlen.
Qed.

(* ---- databases on existing buffers *)
Lemma new_db_shared_ok s e k lv c names ps :
  state_ok s ->
  (cdata c < length (bufs s ++ e) /\ cind c < length (bufs s ++ e) /\ cptr c < length (bufs s ++ e))%nat ->
  Forall (fun kc => (snd kc < length (bufs s ++ e))%nat) ps ->
  state_ok (fst (new_db_shared s (bufs s ++ e) k lv c names ps)).
Proof.
  intros Hs Hc Hp. unfold new_db_shared.
  destruct (negb _) eqn:Ef; [exact Hs|]. apply negb_false_iff, andb_true_iff in Ef. destruct Ef as [Hn Ef]. apply Nat.eqb_eq in Hn.
  cbn [fst]. apply push_ok; [exact Hs|]. repeat split; cbn [oarr oprops onames oindex]; try tauto.
Qed.

Lemma csr_astype_spec bs c from to bs1 c1 :
  csr_astype bs c from to = (bs1, c1) ->
  (cdata c < length bs /\ cind c < length bs /\ cptr c < length bs)%nat ->
  exists e, bs1 = bs ++ e /\ (cdata c1 < length bs1 /\ cind c1 < length bs1 /\ cptr c1 < length bs1)%nat
            /\ cptr c1 = cptr c /\ cind c1 = cind c /\ cbits c1 = cbits c
            /\ getQ bs1 (cdata c1) = (if kind_eqb from to then getQ bs (cdata c) else map (cast_to to) (getQ bs (cdata c))).
Proof.
  intros H Hc. unfold csr_astype in H. destruct (kind_eqb from to).
  - inv H. exists []. rewrite app_nil_r. repeat split; tauto.
  - inv H. eexists. split; [reflexivity|]. cbn [cdata cind cptr cbits]. rewrite app_length. simpl.
    repeat split; try lia. unfold getQ at 1. rewrite nth_error_app_len. reflexivity.
Qed.

Lemma nth_error_lookup s h oid o : lookup s h = Some (oid, o) -> nth_error (objs s) oid = Some o.
Proof. apply lookup_nth. Qed.

Lemma h_astype_ok s oid o k cp : state_ok s -> nth_error (objs s) oid = Some o -> state_ok (fst (h_astype s oid o k cp)).
Proof.
  intros Hs Ho. unfold h_astype. destruct (kind_eqb k (okind o) && negb cp); [exact Hs|].
  destruct (oarr o) as [c|] eqn:Ea; [|exact Hs].
  destruct (Hs _ _ Ho) as ((Hr1 & Hr2) & Hf & Hn & Hi). rewrite Ea in Hr1.
  destruct (csr_astype (bufs s) c (okind o) k) as [bs1 c1] eqn:Ec.
  destruct (csr_astype_spec _ _ _ _ _ _ Ec Hr1) as (e & -> & Hc1 & Hp & _ & _ & _).
  apply new_db_shared_ok; try assumption.
  - eapply Forall_lt_app; [exact Hr2 | rewrite app_length; lia].
Qed.

(* ---- fold *)
Lemma sum_duplicates_fresh k bs a b c bits :
  let t := mkcsr (length bs) (S (length bs)) (S (S (length bs))) bits in
  let rs := map (sum_dups k) (view_rows (bs ++ [a; b; c]) t) in
  sum_duplicates_inplace k (bs ++ [a; b; c]) t = bs ++ [BQ (enc_data rs); BZ (enc_idx rs); BZ (enc_ptr 0 rs)].
Proof.
  intros t rs. unfold sum_duplicates_inplace. fold rs. cbn [cdata cind cptr t].
  replace (length bs) with (length bs + 0)%nat at 1 by lia. rewrite write_app_fresh. cbn [write].
  replace (S (length bs)) with (length bs + 1)%nat at 1 by lia. rewrite write_app_fresh. cbn [write].
  replace (S (S (length bs))) with (length bs + 2)%nat at 1 by lia. rewrite write_app_fresh. cbn [write]. reflexivity.
Qed.

Lemma h_fold_ok s oid o nb ko : state_ok s -> nth_error (objs s) oid = Some o -> state_ok (fst (h_fold s oid o nb ko)).
Proof.
  intros Hs Ho. unfold h_fold. destruct (oarr o) as [c|] eqn:Ea; [|exact Hs].
  destruct (cbits c <? nb); [exact Hs|]. destruct (nb =? 0); [exact Hs|]. destruct (negb (pow2_ratio (cbits c) nb)); [exact Hs|].
  cbv zeta. rewrite sum_duplicates_fresh.
  destruct (Hs _ _ Ho) as ((Hr1 & Hr2) & Hf & Hn & Hi). rewrite Ea in Hr1.
  set (bs1 := bufs s ++ [BQ (getQ (bufs s) (cdata c)); BZ (map (fun i => i mod nb) (getZ (bufs s) (cind c))); BZ (getZ (bufs s) (cptr c))]).
  set (t := mkcsr (length (bufs s)) (S (length (bufs s))) (S (S (length (bufs s)))) (cbits c)).
  set (rs1 := map (sum_dups (okind o)) (view_rows bs1 t)).
  set (bs2 := bufs s ++ [BQ (enc_data rs1); BZ (enc_idx rs1); BZ (enc_ptr 0 rs1)]).
  assert (Hv2 : view_rows bs2 t = rs1).
  { subst bs2 t. rewrite <- (app_nil_r (_ ++ [_; _; _])). apply view_rows_alloc. }
  rewrite Hv2. unfold alloc_csr.
  set (rs3 := map (filter (fun iv => fst iv <? nb)) rs1).
  set (bs3 := bs2 ++ [BQ (enc_data rs3); BZ (enc_idx rs3); BZ (enc_ptr 0 rs3)]).
  set (c3 := mkcsr (length bs2) (S (length bs2)) (S (S (length bs2))) nb).
  destruct (csr_astype bs3 c3 (okind o) (match ko with Some k => k | None => okind o end)) as [bs4 c4] eqn:Ec.
  assert (Hc3 : (cdata c3 < length bs3 /\ cind c3 < length bs3 /\ cptr c3 < length bs3)%nat).
  { subst c3 bs3. cbn [cdata cind cptr]. rewrite app_length. simpl. lia. }
  destruct (csr_astype_spec _ _ _ _ _ _ Ec Hc3) as (e & -> & Hc4 & Hp & _ & _ & _).
  assert (Hb : bs3 ++ e = bufs s ++ ([BQ (enc_data rs1); BZ (enc_idx rs1); BZ (enc_ptr 0 rs1)] ++ [BQ (enc_data rs3); BZ (enc_idx rs3); BZ (enc_ptr 0 rs3)] ++ e)).
  { subst bs3 bs2. rewrite <- !app_assoc. reflexivity. }
  rewrite Hb in *. apply new_db_shared_ok; try assumption.
  - eapply Forall_lt_app; [exact Hr2 | rewrite app_length; lia].
Qed.

(* ---- add_fingerprints *)
Lemma h_add_ok s oid o fps : state_ok s -> nth_error (objs s) oid = Some o -> state_ok (fst (h_add s oid o fps)).
Proof.
  intros Hs Ho. unfold h_add.
  destruct (add_precheck (view (bufs s) o) fps) as [p|e0] eqn:Hp; [|exact Hs].
  destruct (Hs _ _ Ho) as ((Hr1 & Hr2) & Hf & Hn & Hi).
  unfold add_precheck in Hp. destruct fps as [|f0 t]; [discriminate|].
  destruct (check_valid _ _ (f0 :: t)); [discriminate|].
  set (pn := if (0 <? Z.of_nat (fp_num (view (bufs s) o))) || (0 <? Z.of_nat (length (dprops (view (bufs s) o)))) then map fst (dprops (view (bufs s) o)) else map fst (fi_props f0)) in *.
  destruct (collect (dkind (view (bufs s) o)) pn (f0 :: t)) as [[[rs ns] pvs]|] eqn:Ec; simpl in Hp; [|discriminate]. inv Hp.
  destruct (collect_lengths _ _ _ _ _ _ Ec) as (L1 & L2 & L3).
  cbn [ap_names ap_cols ap_rows ap_bits onames]. unfold alloc_csr. cbv beta iota zeta. cbn [onames okind olevel oarr oindex].
  set (rows' := drows (view (bufs s) o) ++ rs).
  set (bits' := match dbits (view (bufs s) o) with Some b => b | None => fbits (fi_fp f0) end).
  set (bs1 := bufs s ++ [BQ (enc_data rows'); BZ (enc_idx rows'); BZ (enc_ptr 0 rows')]).
  (* update_props(new_props, append=True) cannot fail: every column is extended by one value per new fingerprint *)
  destruct (prep_props_append_ok (dprops (view (bufs s) o)) (length (onames o)) (length (f0 :: t)) (transpose pn pvs)) as [r Hr].
  { intros c0 Hin. destruct (transpose_spec _ _ _ Hin) as [T1 T2]. split; [congruence|].
    subst pn. destruct ((0 <? Z.of_nat (fp_num (view (bufs s) o))) || (0 <? Z.of_nat (length (dprops (view (bufs s) o))))) eqn:E0.
    - right. apply aget_in_keys. exact T2.
    - left. apply orb_false_iff in E0. destruct E0 as [E0 _]. apply Z.ltb_ge in E0. lia. }
  { intros k o1 Hk. cbn [view dprops] in Hk. eapply props_fit_len; eassumption. }
  assert (Epp : prep_props (dprops (view (bufs s) o)) (length (onames o ++ ns)) (transpose pn pvs) true true = Ok r).
  { rewrite app_length, L2. exact Hr. }
  rewrite Epp.
  destruct (store_cols bs1 (oprops o) r) as [bs2 ps] eqn:Es. cbn [fst].
  destruct (store_cols_app r bs1 (oprops o)) as [e2 He2]. rewrite Es in He2. simpl in He2.
  assert (Hb : bs2 = bufs s ++ ([BQ (enc_data rows'); BZ (enc_idx rows'); BZ (enc_ptr 0 rows')] ++ e2)).
  { rewrite He2. subst bs1. rewrite <- app_assoc. reflexivity. }
  destruct (store_cols_fit (length (onames o ++ ns)) r bs1 (oprops o) bs2 ps Es) as [Hp2 Hl2].
  - intros c Hin. eapply prep_props_len; eassumption.
  - eapply Forall_lt_app; [exact Hr2 | subst bs1; rewrite app_length; lia].
  - intros k i Hk. right. rewrite (prep_props_keys _ _ _ _ _ _ Epp), transpose_keys. subst pn.
    destruct ((0 <? Z.of_nat (fp_num (view (bufs s) o))) || (0 <? Z.of_nat (length (dprops (view (bufs s) o))))) eqn:E0.
    + cbn [view dprops]. rewrite map_map. simpl. eapply aget_keys. exact Hk.
    + apply orb_false_iff in E0. destruct E0 as [_ E0]. apply Z.ltb_ge in E0. cbn [view dprops] in E0. rewrite map_length in E0.
      destruct (oprops o); [discriminate | simpl in E0; lia].
  - rewrite Hb. apply set_ok; [exact Hs|]. rewrite <- Hb.
    repeat split; cbn [oarr oprops onames oindex cdata cind cptr].
    + rewrite Hb, !app_length. simpl. lia.
    + rewrite Hb, !app_length. simpl. lia.
    + rewrite Hb, !app_length. simpl. lia.
    + exact Hp2.
    + apply fit_of_lookup. exact Hl2.
    + unfold fp_num, view. cbn [drows oarr]. rewrite He2. subst bs1. rewrite view_rows_alloc. subst rows'.
      rewrite !app_length, L1, L2. f_equal. exact Hn.
    + rewrite Hi, names_map_app. f_equal. rewrite Hn. lia.
Qed.

(* ---- update_props / set_prop *)
Lemma h_update_props_ok s oid o cols ap :
  state_ok s -> nth_error (objs s) oid = Some o -> state_ok (fst (h_update_props s oid o cols ap)).
Proof.
  intros Hs Ho. unfold h_update_props.
  destruct (prep_props (dprops (view (bufs s) o)) (length (onames o)) cols ap true) as [r|] eqn:Epp; [|exact Hs].
  destruct (Hs _ _ Ho) as ((Hr1 & Hr2) & Hf & Hn & Hi).
  destruct (store_cols (bufs s) (oprops o) r) as [bs1 ps] eqn:Es. cbn [fst].
  destruct (store_cols_app r (bufs s) (oprops o)) as [e He2]. rewrite Es in He2. simpl in He2. subst bs1.
  destruct (store_cols_fit (length (onames o)) r (bufs s) (oprops o) _ ps Es) as [Hp2 Hl2].
  - intros c Hin. eapply prep_props_len; eassumption.
  - exact Hr2.
  - intros k i Hk. left. eapply lookup_of_fit; eassumption.
  - apply set_ok; [exact Hs|]. repeat split; cbn [oarr oprops onames oindex].
    + destruct (oarr o); [rewrite app_length; lia | exact Hr1].
    + exact Hp2.
    + apply fit_of_lookup. exact Hl2.
    + unfold fp_num, view. cbn [drows oarr]. unfold fp_num, view in Hn. cbn [drows] in Hn.
      destruct (oarr o) eqn:Ea; [|exact Hn]. rewrite view_rows_app; [exact Hn | exact Hr1].
    + exact Hi.
Qed.

(* ---- get_subset / db[name]: the index is read, never extended *)
Lemma same_state s oid o : nth_error (objs s) oid = Some o ->
  mkst (bufs s) (set_obj (objs s) oid (mkobj (okind o) (olevel o) (oarr o) (onames o) (oindex o) (oprops o))) (pool s) = s.
Proof. intro Ho. rewrite obj_eta, (set_obj_same _ _ _ Ho). destruct s; reflexivity. Qed.

Lemma h_subset_ok s oid o names : state_ok s -> nth_error (objs s) oid = Some o -> state_ok (fst (h_subset s oid o names)).
Proof.
  intros Hs Ho. unfold h_subset.
  destruct (existsb (fun x => negb (idx_mem x (oindex o))) names) eqn:Ex; [exact Hs|].
  apply existsb_negb_false in Ex. pose proof (subset_pairs_present names (oindex o) Ex) as Hp.
  destruct (subset_pairs (oindex o) names) as [ix1 pairs]. simpl in Hp. subst ix1.
  rewrite (same_state _ _ _ Ho).
  destruct pairs as [|p0 pt] eqn:Epairs; [exact Hs|]. rewrite <- Epairs.
  destruct (dbits (view (bufs s) o)); [|exact Hs].
  apply new_db_fresh_ok. exact Hs.
Qed.

Lemma h_getname_ok s oid o nm : state_ok s -> nth_error (objs s) oid = Some o -> state_ok (fst (h_getname s oid o nm)).
Proof.
  intros Hs Ho. unfold h_getname. destruct (idx_mem (Some nm) (oindex o)) eqn:Em; simpl; [|exact Hs].
  rewrite (dd_get_present _ _ Em), (same_state _ _ _ Ho). cbn [view dbits]. destruct (oarr o); exact Hs.
Qed.

(* ---- pickle *)
Lemma alloc_cols_fit' cols bs bs1 ps n :
  alloc_cols bs cols = (bs1, ps) -> (forall k v, aget k cols = Some v -> length v = n) -> props_fit bs1 ps n = true.
Proof.
  intros H Hc. destruct (alloc_cols_view cols bs bs1 ps [] H) as [Hv _]. rewrite app_nil_r in Hv.
  apply fit_of_lookup. intros k i Hk. apply (Hc k). rewrite <- Hv, aget_map, Hk. reflexivity.
Qed.

Lemma h_pickle_ok s oid o : state_ok s -> nth_error (objs s) oid = Some o -> state_ok (fst (h_pickle s o)).
Proof.
  intros Hs Ho. unfold h_pickle.
  destruct (Hs _ _ Ho) as ((Hr1 & Hr2) & Hf & Hn & Hi).
  assert (Hcols : forall k v, aget k (dprops (view (bufs s) o)) = Some v -> length v = length (onames o)).
  { intros k v Hk. cbn [view dprops] in Hk. eapply props_fit_len; eassumption. }
  destruct (dbits (view (bufs s) o)) as [b|] eqn:Eb.
  - unfold alloc_csr.
    set (bs1 := bufs s ++ [BQ (enc_data (drows (view (bufs s) o))); BZ (enc_idx (drows (view (bufs s) o))); BZ (enc_ptr 0 (drows (view (bufs s) o)))]).
    destruct (alloc_cols bs1 (dprops (view (bufs s) o))) as [bs2 ps] eqn:Ea. cbn [fst].
    destruct (alloc_cols_app (dprops (view (bufs s) o)) bs1) as [e He2]. rewrite Ea in He2. simpl in He2.
    destruct (alloc_cols_view _ _ _ _ [] Ea) as [_ Hp2].
    assert (Hb : bs2 = bufs s ++ ([BQ (enc_data (drows (view (bufs s) o))); BZ (enc_idx (drows (view (bufs s) o))); BZ (enc_ptr 0 (drows (view (bufs s) o)))] ++ e)).
    { rewrite He2. subst bs1. rewrite <- app_assoc. reflexivity. }
    rewrite Hb. apply push_ok; [exact Hs|]. rewrite <- Hb.
    repeat split; cbn [oarr oprops onames oindex cdata cind cptr].
    + rewrite Hb, !app_length. simpl. lia.
    + rewrite Hb, !app_length. simpl. lia.
    + rewrite Hb, !app_length. simpl. lia.
    + exact Hp2.
    + eapply alloc_cols_fit'; eassumption.
    + unfold fp_num at 1. unfold view at 1. cbn [drows oarr]. rewrite He2. subst bs1. rewrite view_rows_alloc. exact Hn.
  - destruct (alloc_cols (bufs s) (dprops (view (bufs s) o))) as [bs2 ps] eqn:Ea. cbn [fst].
    destruct (alloc_cols_app (dprops (view (bufs s) o)) (bufs s)) as [e He2]. rewrite Ea in He2. simpl in He2. subst bs2.
    destruct (alloc_cols_view _ _ _ _ [] Ea) as [_ Hp2].
    assert (Hnil : onames o = []).
    { unfold view in Eb. cbn [dbits] in Eb. destruct (oarr o); [discriminate | exact Hr1]. }
    apply push_ok; [exact Hs|].
    repeat split; cbn [oarr oprops onames oindex].
    + exact Hnil.
    + exact Hp2.
    + eapply alloc_cols_fit'; eassumption.
    + rewrite Hnil. reflexivity.
Qed.

(* ---- concat *)
Lemma concat_props_nil acc : concat_props acc [] = acc.
Proof. reflexivity. Qed.

Lemma concat_loop_inv lv bits k : forall ds rows names props rows' names' props',
  Forall (fun d => length (dnames d) = length (drows d)) ds ->
  length rows = length names ->
  concat_loop lv bits k ds rows names props = Ok (rows', names', props') ->
  length rows' = length names'.
Proof.
  induction ds as [|d t IH]; intros rows names props rows' names' props' Hd Hl H; simpl in H.
  - inv H. auto.
  - repeat (dmatch; [discriminate|]). inv Hd.
    eapply IH; [exact H3 | | exact H]. rewrite !app_length. lia.
Qed.

Lemma lookup_all_nth s hs : forall os, lookup_all s hs = Some os -> Forall (fun o => exists oid, nth_error (objs s) oid = Some o) os.
Proof.
  induction hs as [|h t IH]; intros os H; simpl in H; [inv H; constructor|].
  destruct (lookup s h) as [[oid o]|] eqn:El; [|discriminate].
  destruct (lookup_all s t) eqn:Et; [|discriminate]. inv H. constructor; [|apply IH; reflexivity].
  exists oid. eapply lookup_nth. exact El.
Qed.

Lemma h_concat_ok s os : state_ok s -> Forall (fun o => exists oid, nth_error (objs s) oid = Some o) os -> state_ok (fst (h_concat s os)).
Proof.
  intros Hs Hos. unfold h_concat. destruct (map (view (bufs s)) os) as [|d0 dt] eqn:Eds; [exact Hs|].
  destruct (concat_loop (dlevel d0) (dbits d0) (dkind d0) (d0 :: dt) [] [] []) as [[[rows names] props]|] eqn:El; [|exact Hs].
  destruct (dbits d0); [|exact Hs].
  destruct (negb (forallb (fun c => (length (snd c) =? length rows)%nat) props)) eqn:Ef; [exact Hs|]. apply negb_false_iff in Ef.
  assert (Hl : length rows = length names).
  { eapply concat_loop_inv with (rows := []) (names := []) (props := []); [ | reflexivity | exact El].
    rewrite <- Eds. rewrite Forall_forall. intros d Hin. apply in_map_iff in Hin. destruct Hin as (o & <- & Hin).
    rewrite Forall_forall in Hos. destruct (Hos _ Hin) as [oid Ho]. destruct (Hs _ _ Ho) as (_ & _ & Hn & _).
    cbn [view dnames drows dprops]. exact Hn. }
  unfold alloc_csr.
  set (bs1 := bufs s ++ [BQ (enc_data rows); BZ (enc_idx rows); BZ (enc_ptr 0 rows)]).
  destruct (alloc_cols bs1 props) as [bs2 ps] eqn:Ea. cbn [fst].
  destruct (alloc_cols_app props bs1) as [e He2]. rewrite Ea in He2. simpl in He2.
  destruct (alloc_cols_view _ _ _ _ [] Ea) as [_ Hp2].
  assert (Hb : bs2 = bufs s ++ ([BQ (enc_data rows); BZ (enc_idx rows); BZ (enc_ptr 0 rows)] ++ e)).
  { rewrite He2. subst bs1. rewrite <- app_assoc. reflexivity. }
  rewrite Hb. apply push_ok; [exact Hs|]. rewrite <- Hb.
  repeat split; cbn [oarr oprops onames oindex cdata cind cptr].
  - rewrite Hb, !app_length. simpl. lia.
  - rewrite Hb, !app_length. simpl. lia.
  - rewrite Hb, !app_length. simpl. lia.
  - exact Hp2.
  - eapply alloc_cols_fit; [exact Ea|]. rewrite <- Hl. exact Ef.
  - unfold fp_num, view. cbn [drows oarr]. rewrite He2. subst bs1. rewrite view_rows_alloc. symmetry. exact Hl.
Qed.

(* ---- every operation *)
Theorem step_ok s o : state_ok s -> state_ok (fst (step s o)).
Proof.
  intros Hs. destruct o; cbn [step].
  - cbn [fst]. rewrite <- (app_nil_r (bufs s)). apply push_ok; [exact Hs|]. rewrite app_nil_r.
    repeat split; cbn [oarr oprops onames oindex]; auto.
  - apply new_db_fresh_ok. exact Hs.
  - destruct (lookup s h) as [[oid ob]|] eqn:El; [|exact Hs]. apply h_add_ok; eauto using lookup_nth.
  - destruct (lookup s h) as [[oid ob]|] eqn:El; [|exact Hs]. apply h_update_props_ok; eauto using lookup_nth.
  - destruct (lookup s h) as [[oid ob]|] eqn:El; [|exact Hs]. apply h_update_props_ok; eauto using lookup_nth.
  - destruct (lookup s h) as [[oid ob]|] eqn:El; [|exact Hs]. apply h_subset_ok; eauto using lookup_nth.
  - destruct (lookup s h) as [[oid ob]|] eqn:El; [|exact Hs]. apply h_astype_ok; eauto using lookup_nth.
  - destruct (lookup s h) as [[oid ob]|] eqn:El; [|exact Hs]. apply h_fold_ok; eauto using lookup_nth.
  - destruct (lookup s h) as [[oid ob]|] eqn:El; [|exact Hs]. apply h_astype_ok; eauto using lookup_nth.
  - destruct (lookup s h) as [[oid ob]|] eqn:El; [|exact Hs]. eapply h_pickle_ok; eauto using lookup_nth.
  - destruct (lookup s h) as [[oid ob]|] eqn:El; [|exact Hs]. destruct (fpz && _); [exact Hs|]. eapply h_pickle_ok; eauto using lookup_nth.
  - destruct (lookup_all s hs) eqn:El; [|exact Hs]. apply h_concat_ok; [exact Hs | eapply lookup_all_nth; exact El].
  - destruct (lookup s h) as [[oid ob]|]; exact Hs.
  - destruct (lookup s h) as [[oid ob]|] eqn:El; [|exact Hs]. apply h_getname_ok; eauto using lookup_nth.
  - destruct (lookup s h) as [[oid ob]|]; exact Hs.
  - destruct (lookup s h1) as [[? ?]|]; [destruct (lookup s h2) as [[? ?]|]|]; exact Hs.
  - destruct (lookup s h) as [[oid ob]|]; exact Hs.
  - destruct (lookup s h) as [[oid ob]|]; exact Hs.
  - destruct (lookup s h1) as [[? ?]|]; [destruct (lookup s h2) as [[? ?]|]|]; try exact Hs.
    unfold h_metric. repeat dmatch; exact Hs.
Qed.

Lemma init_ok : state_ok init.
Proof. intros oid o H. destruct oid; discriminate. Qed.

(* the invariant holds after ANY operation list: no hypothesis on the operations *)
Theorem run_ok : forall ops s, state_ok s -> state_ok (run s ops).
Proof.
  induction ops as [|o t IH]; intros s Hs; simpl; [exact Hs|]. apply IH. apply step_ok. exact Hs.
Qed.

Lemma state_ok_aligned s : state_ok s -> aligned s.
Proof. intros Hs oid o Ho. destruct (Hs _ _ Ho) as (_ & Hf & Hn & _). auto. Qed.

Theorem refusal_atomic_any_history ops o s' e :
  step (run init ops) o = (s', Raises e) -> s' = run init ops.
Proof.
  intros H. eapply refusal_atomic; [|exact H].
  apply state_ok_aligned. apply run_ok. apply init_ok.
Qed.
