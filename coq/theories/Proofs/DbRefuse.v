(* C16: refusals of add_fingerprints / set_prop / update_props / concat, and atomicity of every refusal. *)
From Coq Require Import QArith Lia.
From E3FP Require Import Base.Prelude Base.ZSet Model.Fprint Model.Db Proofs.DbBase.
Open Scope Z_scope.

(* the length/level a batch is checked against, and the property columns every member must carry *)
Definition batch_bits (d : db) (fps : list fpin) : Z :=
  match dbits d with Some b => b | None => match fps with f0 :: _ => fbits (fi_fp f0) | [] => 0 end end.
Definition required_props (d : db) (fps : list fpin) : list string :=
  if (0 <? Z.of_nat (fp_num d)) || (0 <? Z.of_nat (length (dprops d))) then map fst (dprops d)
  else match fps with f0 :: _ => map fst (fi_props f0) | [] => [] end.

(* every object's property arrays have one cell per name, and there is one name per row *)
Definition aligned (s : state) : Prop :=
  forall oid o, nth_error (objs s) oid = Some o ->
    props_fit (bufs s) (oprops o) (length (onames o)) = true /\ length (onames o) = fp_num (view (bufs s) o).

(* ---- validity check *)
Lemma check_valid_bits lv bits pre f post :
  fbits (fi_fp f) <> bits -> exists e, check_valid lv bits (pre ++ f :: post) = Some e.
Proof.
  intro H. induction pre as [|g pre IH]; simpl.
  - destruct (option_eqb Z.eqb (flevel (fi_fp f)) lv); simpl; [|eauto].
    apply Z.eqb_neq in H. rewrite H. simpl. eauto.
  - destruct (negb (option_eqb Z.eqb (flevel (fi_fp g)) lv)); [eauto|].
    destruct (negb (fbits (fi_fp g) =? bits)); [eauto|]. exact IH.
Qed.

Lemma option_eqb_Z_neq a b : a <> b -> option_eqb Z.eqb a b = false.
Proof.
  destruct a as [x|], b as [y|]; simpl; intro H; try reflexivity; try congruence.
  apply Z.eqb_neq. congruence.
Qed.
Lemma option_eqb_Z_refl a : option_eqb Z.eqb a a = true.
Proof. destruct a; simpl; [apply Z.eqb_refl | reflexivity]. Qed.
Lemma option_eqb_Z_eq a b : option_eqb Z.eqb a b = true -> a = b.
Proof. destruct a, b; simpl; intro H; try discriminate; [apply Z.eqb_eq in H; congruence | reflexivity]. Qed.
Lemma kind_eqb_refl k : kind_eqb k k = true.
Proof. destruct k; reflexivity. Qed.
Lemma kind_eqb_eq a b : kind_eqb a b = true -> a = b.
Proof. destruct a, b; simpl; intro; congruence. Qed.

Lemma check_valid_level lv bits pre f post :
  flevel (fi_fp f) <> lv -> exists e, check_valid lv bits (pre ++ f :: post) = Some e.
Proof.
  intro H. induction pre as [|g pre IH]; simpl.
  - rewrite (option_eqb_Z_neq _ _ H). simpl. eauto.
  - destruct (negb (option_eqb Z.eqb (flevel (fi_fp g)) lv)); [eauto|].
    destruct (negb (fbits (fi_fp g) =? bits)); [eauto|]. exact IH.
Qed.

Lemma add_precheck_invalid d fps e :
  check_valid (dlevel d) (batch_bits d fps) fps = Some e -> add_precheck d fps = Raises e.
Proof.
  unfold add_precheck, batch_bits. destruct fps as [|f0 t]; [simpl; discriminate|].
  intro H. rewrite H. reflexivity.
Qed.

Lemma h_add_precheck_raises s oid o fps e :
  add_precheck (view (bufs s) o) fps = Raises e -> h_add s oid o fps = (s, Raises e).
Proof. intro H. unfold h_add. rewrite H. reflexivity. Qed.

Lemma add_refuses_wrong_bits s h oid o pre f post :
  lookup s h = Some (oid, o) ->
  fbits (fi_fp f) <> batch_bits (view (bufs s) o) (pre ++ f :: post) ->
  exists e, step s (OpAdd h (pre ++ f :: post)) = (s, Raises e).
Proof.
  intros Hl Hb. simpl. rewrite Hl.
  destruct (check_valid_bits (dlevel (view (bufs s) o)) _ pre f post Hb) as [e He].
  exists e. apply h_add_precheck_raises. apply add_precheck_invalid. exact He.
Qed.

Lemma add_refuses_wrong_level s h oid o pre f post :
  lookup s h = Some (oid, o) ->
  flevel (fi_fp f) <> olevel o ->
  exists e, step s (OpAdd h (pre ++ f :: post)) = (s, Raises e).
Proof.
  intros Hl Hb. simpl. rewrite Hl.
  destruct (check_valid_level (dlevel (view (bufs s) o)) (batch_bits (view (bufs s) o) (pre ++ f :: post)) pre f post Hb) as [e He].
  exists e. apply h_add_precheck_raises. apply add_precheck_invalid. exact He.
Qed.

(* ---- missing property *)
Lemma get_props_missing names f k : In k names -> aget k (fi_props f) = None -> exists e, get_props names f = Raises e.
Proof.
  induction names as [|n t IH]; intros Hin Hk; [destruct Hin|].
  simpl. destruct (aget n (fi_props f)) eqn:E; [|eauto].
  destruct Hin as [->|Hin]; [congruence|]. destruct (IH Hin Hk) as [e He]. rewrite He. simpl. eauto.
Qed.

Lemma collect_missing kd names fps f k :
  In f fps -> In k names -> aget k (fi_props f) = None -> exists e, collect kd names fps = Raises e.
Proof.
  induction fps as [|g t IH]; intros Hf Hk Hm; [destruct Hf|].
  simpl. destruct Hf as [->|Hf].
  - destruct (get_props_missing names f k Hk Hm) as [e He]. rewrite He. simpl. eauto.
  - destruct (get_props names g); simpl; [|eauto].
    destruct (IH Hf Hk Hm) as [e He]. rewrite He. simpl. eauto.
Qed.

Lemma add_refuses_missing_prop s h oid o fps f k :
  lookup s h = Some (oid, o) ->
  In f fps -> In k (required_props (view (bufs s) o) fps) -> aget k (fi_props f) = None ->
  exists e, step s (OpAdd h fps) = (s, Raises e).
Proof.
  intros Hl Hf Hk Hm. simpl. rewrite Hl.
  assert (exists e, add_precheck (view (bufs s) o) fps = Raises e) as [e He].
  { unfold add_precheck. destruct fps as [|f0 t]; [eauto|].
    destruct (check_valid _ _ (f0 :: t)); [eauto|].
    unfold required_props in Hk.
    destruct (collect_missing (dkind (view (bufs s) o)) _ (f0 :: t) f k Hf Hk Hm) as [e He].
    rewrite He. simpl. eauto. }
  exists e. apply h_add_precheck_raises. exact He.
Qed.

(* ---- set_prop / update_props *)
(* the column update_props would store for c: the values given, or with append=True the stored column extended by them *)
Definition effective_col (old : list col) (append : bool) (c : col) : list pval :=
  if append then match aget (fst c) old with Some o => o ++ snd c | None => snd c end else snd c.

Lemma prep_props_bad_len old n append pre c post :
  length (effective_col old append c) <> n -> prep_props old n (pre ++ c :: post) append true = Raises EValue.
Proof.
  intro H. induction pre as [|[k v] pre IH]; simpl.
  - destruct c as [k v]. unfold effective_col in H. simpl in *. apply Nat.eqb_neq in H. rewrite H. reflexivity.
  - destruct (negb (_ =? n)%nat); [reflexivity|]. rewrite IH. reflexivity.
Qed.

Lemma update_props_refuses_len s h oid o pre c post append :
  lookup s h = Some (oid, o) ->
  length (effective_col (dprops (view (bufs s) o)) append c) <> length (onames o) ->
  step s (OpUpdateProps h (pre ++ c :: post) append) = (s, Raises EValue).
Proof.
  intros Hl H. cbn [step]. rewrite Hl. unfold h_update_props. rewrite (prep_props_bad_len _ _ _ pre c post H). reflexivity.
Qed.

Lemma set_prop_refuses_len s h oid o key vals :
  lookup s h = Some (oid, o) -> length vals <> length (onames o) ->
  step s (OpSetProp h key vals) = (s, Raises EValue).
Proof.
  intros Hl H. cbn [step]. rewrite Hl. unfold h_update_props.
  rewrite (prep_props_bad_len _ _ false [] (key, vals) [] H). reflexivity.
Qed.

(* ---- concat *)
Definition compatible (d0 d : db) : bool :=
  option_eqb Z.eqb (dlevel d) (dlevel d0) && option_eqb Z.eqb (dbits d) (dbits d0) && kind_eqb (dkind d) (dkind d0).

Lemma concat_loop_incompatible lv bits k ds d :
  In d ds ->
  option_eqb Z.eqb (dlevel d) lv && option_eqb Z.eqb (dbits d) bits && kind_eqb (dkind d) k = false ->
  forall rows names props, concat_loop lv bits k ds rows names props = Raises EType.
Proof.
  induction ds as [|x t IH]; intros Hin Hc rows names props; [destruct Hin|].
  simpl. destruct (option_eqb Z.eqb (dlevel x) lv) eqn:E1; [|reflexivity].
  destruct (option_eqb Z.eqb (dbits x) bits) eqn:E2; [|reflexivity].
  destruct (kind_eqb (dkind x) k) eqn:E3; [|reflexivity]. simpl.
  destruct Hin as [->|Hin]; [rewrite E1, E2, E3 in Hc; discriminate|]. apply IH; assumption.
Qed.

Lemma concat_refuses s hs o0 os o :
  lookup_all s hs = Some (o0 :: os) -> In o (o0 :: os) ->
  compatible (view (bufs s) o0) (view (bufs s) o) = false ->
  step s (OpConcat hs) = (s, Raises EType).
Proof.
  intros Hl Hin Hc. simpl. rewrite Hl. unfold h_concat. cbn [map].
  rewrite (concat_loop_incompatible _ _ _ (view (bufs s) o0 :: map (view (bufs s)) os) (view (bufs s) o)); [reflexivity| |exact Hc].
  change (view (bufs s) o0 :: map (view (bufs s)) os) with (map (view (bufs s)) (o0 :: os)). apply in_map. exact Hin.
Qed.

(* a property column that does not cover all rows of the result *)
Lemma concat_refuses_props s hs o0 os rows names props b :
  lookup_all s hs = Some (o0 :: os) ->
  concat_loop (olevel o0) (dbits (view (bufs s) o0)) (okind o0) (map (view (bufs s)) (o0 :: os)) [] [] [] = Ok (rows, names, props) ->
  dbits (view (bufs s) o0) = Some b ->
  forallb (fun c => Nat.eqb (length (snd c)) (length rows)) props = false ->
  step s (OpConcat hs) = (s, Raises EValue).
Proof.
  intros Hl Hloop Hb Hf. simpl. rewrite Hl. unfold h_concat. cbn [map] in *. cbn [dlevel dkind view] in *.
  rewrite Hloop. cbn [dbits view] in *. rewrite Hb, Hf. reflexivity.
Qed.

(* ---- atomicity *)
Lemma aget_map {V W} (g : V -> W) k (l : list (string * V)) :
  aget k (map (fun kc => (fst kc, g (snd kc))) l) = option_map g (aget k l).
Proof. induction l as [|[k' v] t IH]; simpl; [reflexivity|]. destruct (String.eqb k k'); [reflexivity|exact IH]. Qed.

Lemma aget_in_keys {V} k (l : list (string * V)) : In k (map fst l) -> exists v, aget k l = Some v.
Proof.
  induction l as [|[k' v] t IH]; simpl; intro H; [destruct H|].
  destruct (String.eqb k k') eqn:E; [eauto|]. destruct H as [H|H]; [subst; rewrite String.eqb_refl in E; discriminate|auto].
Qed.

Lemma aget_In {V} k (l : list (string * V)) v : aget k l = Some v -> In (k, v) l.
Proof.
  induction l as [|[k' v'] t IH]; simpl; intro H; [discriminate|].
  destruct (String.eqb k k') eqn:E; [apply String.eqb_eq in E; inv H; left; reflexivity | right; auto].
Qed.

Lemma props_fit_len bs ps n k o :
  props_fit bs ps n = true -> aget k (map (fun kc => (fst kc, getP bs (snd kc))) ps) = Some o -> length o = n.
Proof.
  intros Hf Ha. rewrite aget_map in Ha. destruct (aget k ps) eqn:E; [|discriminate]. inv Ha.
  pose proof (aget_In _ _ _ E) as Hin. unfold props_fit in Hf. rewrite forallb_forall in Hf. specialize (Hf _ Hin). simpl in Hf.
  rewrite E in Hf. apply Nat.eqb_eq in Hf. exact Hf.
Qed.

Lemma transpose_spec names : forall pvs c, In c (transpose names pvs) -> length (snd c) = length pvs /\ In (fst c) names.
Proof.
  induction names as [|k t IH]; intros pvs c H; simpl in H; [destruct H|].
  destruct H as [<-|H]; simpl.
  - rewrite map_length. auto.
  - destruct (IH _ _ H) as [H1 H2]. rewrite map_length in H1. auto.
Qed.

Lemma collect_lengths kd names fps : forall rs ns pvs,
  collect kd names fps = Ok (rs, ns, pvs) -> length rs = length fps /\ length ns = length fps /\ length pvs = length fps.
Proof.
  induction fps as [|f t IH]; intros rs ns pvs H; simpl in H.
  - inv H. auto.
  - destruct (get_props names f); simpl in H; [|discriminate].
    destruct (collect kd names t) as [[[rs' ns'] pvs']|] eqn:E; simpl in H; [|discriminate]. inv H.
    destruct (IH _ _ _ eq_refl) as (H1 & H2 & H3). simpl. auto.
Qed.

Lemma prep_props_append_ok old n m cols :
  (forall c, In c cols -> length (snd c) = m /\ (n = 0%nat \/ exists o, aget (fst c) old = Some o)) ->
  (forall k o, aget k old = Some o -> length o = n) ->
  exists r, prep_props old (n + m) cols true true = Ok r.
Proof.
  intros Hc Ho. induction cols as [|[k v] t IH]; simpl; [eauto|].
  destruct (Hc (k, v) (or_introl eq_refl)) as [Hl Hk]. simpl in Hl, Hk.
  assert (Hlen : length (match aget k old with Some o => o ++ v | None => v end) = (n + m)%nat).
  { destruct (aget k old) as [o|] eqn:E.
    - rewrite app_length, (Ho _ _ E), Hl. reflexivity.
    - destruct Hk as [->|[o Ho']]; [simpl; exact Hl|discriminate]. }
  rewrite Hlen, Nat.eqb_refl. simpl.
  destruct IH as [r Hr]; [intros c Hin; apply Hc; right; exact Hin|]. rewrite Hr. simpl. eauto.
Qed.

Lemma h_add_atomic s oid o fps s' e :
  nth_error (objs s) oid = Some o -> aligned s -> h_add s oid o fps = (s', Raises e) -> s' = s.
Proof.
  intros Ho Hal H. unfold h_add in H.
  destruct (add_precheck (view (bufs s) o) fps) as [p|e0] eqn:Hp; [|inv H; reflexivity].
  exfalso.
  destruct (Hal _ _ Ho) as [Hfit Hnum].
  unfold add_precheck in Hp. destruct fps as [|f0 t]; [discriminate|].
  destruct (check_valid _ _ (f0 :: t)); [discriminate|].
  set (pn := if (0 <? Z.of_nat (fp_num (view (bufs s) o))) || (0 <? Z.of_nat (length (dprops (view (bufs s) o)))) then map fst (dprops (view (bufs s) o)) else map fst (fi_props f0)) in *.
  destruct (collect (dkind (view (bufs s) o)) pn (f0 :: t)) as [[[rs ns] pvs]|] eqn:Ec; simpl in Hp; [|discriminate]. inv Hp.
  destruct (collect_lengths _ _ _ _ _ _ Ec) as (L1 & L2 & L3).
  cbn [ap_names ap_cols ap_rows ap_bits onames] in H. unfold alloc_csr in H. cbv beta iota zeta in H. cbn [onames] in H.
  destruct (prep_props_append_ok (dprops (view (bufs s) o)) (length (onames o)) (length (f0 :: t)) (transpose pn pvs)) as [r Hr].
  - intros c0 Hin. destruct (transpose_spec _ _ _ Hin) as [T1 T2]. split; [congruence|].
    subst pn. destruct ((0 <? Z.of_nat (fp_num (view (bufs s) o))) || (0 <? Z.of_nat (length (dprops (view (bufs s) o))))) eqn:E0.
    + right. apply aget_in_keys. exact T2.
    + left. apply orb_false_iff in E0. destruct E0 as [E0 _]. apply Z.ltb_ge in E0. lia.
  - intros k o1 Hk. cbn [view dprops] in Hk. eapply props_fit_len; eassumption.
  - rewrite app_length, L2 in H. rewrite Hr in H.
    dmatch. discriminate.
Qed.

Lemma h_subset_atomic s oid o names s' e :
  nth_error (objs s) oid = Some o -> h_subset s oid o names = (s', Raises e) -> s' = s.
Proof.
  intros Ho H. unfold h_subset in H.
  destruct (existsb (fun x => negb (idx_mem x (oindex o))) names) eqn:Ex; [inv H; reflexivity|].
  apply existsb_negb_false in Ex. pose proof (subset_pairs_present names (oindex o) Ex) as Hs.
  destruct (subset_pairs (oindex o) names) as [ix1 pairs]. simpl in Hs. subst ix1.
  rewrite obj_eta, (set_obj_same _ _ _ Ho) in H.
  assert (Hs : mkst (bufs s) (objs s) (pool s) = s) by (destruct s; reflexivity). rewrite Hs in H.
  destruct pairs; [inv H; reflexivity|].
  destruct (dbits (view (bufs s) o)); [|inv H; reflexivity].
  unfold new_db_fresh in H. dmatch; [inv H; reflexivity|].
  repeat dmatch. discriminate.
Qed.

Lemma h_getname_atomic s oid o nm s' e :
  nth_error (objs s) oid = Some o -> h_getname s oid o nm = (s', Raises e) -> s' = s.
Proof.
  intros Ho H. unfold h_getname in H.
  destruct (idx_mem (Some nm) (oindex o)) eqn:Em; simpl in H; [|inv H; reflexivity].
  rewrite (dd_get_present _ _ Em) in H.
  rewrite obj_eta, (set_obj_same _ _ _ Ho) in H.
  assert (Hs : mkst (bufs s) (objs s) (pool s) = s) by (destruct s; reflexivity). rewrite Hs in H.
  repeat dmatch; inv H; reflexivity.
Qed.

Lemma lookup_nth s h oid o : lookup s h = Some (oid, o) -> nth_error (objs s) oid = Some o.
Proof.
  unfold lookup. destruct (nth_error (pool s) h); [|discriminate].
  destruct (nth_error (objs s) n) eqn:E; [|discriminate]. intro H. inv H. exact E.
Qed.

Lemma new_db_shared_atomic s bs k lv c names ps s' e : new_db_shared s bs k lv c names ps = (s', Raises e) -> s' = s.
Proof. unfold new_db_shared. intro H. dmatch; inv H. reflexivity. Qed.

Lemma new_db_fresh_atomic s k lv bits rs names cols s' e : new_db_fresh s k lv bits rs names cols = (s', Raises e) -> s' = s.
Proof. unfold new_db_fresh. intro H. dmatch; [inv H; reflexivity|]. repeat dmatch. discriminate. Qed.

Theorem refusal_atomic s o s' e : aligned s -> step s o = (s', Raises e) -> s' = s.
Proof.
  intros Hal H. destruct o; simpl in H.
  - inv H.
  - eapply new_db_fresh_atomic; eassumption.
  - destruct (lookup s h) as [[oid ob]|] eqn:El; [|inv H; reflexivity].
    eapply h_add_atomic; eauto using lookup_nth.
  - destruct (lookup s h) as [[oid ob]|] eqn:El; [|inv H; reflexivity].
    unfold h_update_props in H. repeat dmatch; inv H; reflexivity.
  - destruct (lookup s h) as [[oid ob]|] eqn:El; [|inv H; reflexivity].
    unfold h_update_props in H. repeat dmatch; inv H; reflexivity.
  - destruct (lookup s h) as [[oid ob]|] eqn:El; [|inv H; reflexivity].
    eapply h_subset_atomic; eauto using lookup_nth.
  - destruct (lookup s h) as [[oid ob]|] eqn:El; [|inv H; reflexivity].
    unfold h_astype in H. destruct (kind_eqb k (okind ob) && negb copy); [inv H|].
    destruct (oarr ob); [|inv H; reflexivity]. destruct (csr_astype (bufs s) c (okind ob) k).
    eapply new_db_shared_atomic; eassumption.
  - destruct (lookup s h) as [[oid ob]|] eqn:El; [|inv H; reflexivity].
    unfold h_fold in H. destruct (oarr ob); [|inv H; reflexivity].
    repeat dmatch; try (inv H; reflexivity); eapply new_db_shared_atomic; eassumption.
  - destruct (lookup s h) as [[oid ob]|] eqn:El; [|inv H; reflexivity].
    unfold h_astype in H. rewrite kind_eqb_refl in H. simpl in H.
    destruct (oarr ob); [|inv H; reflexivity]. destruct (csr_astype (bufs s) c (okind ob) (okind ob)).
    eapply new_db_shared_atomic; eassumption.
  - destruct (lookup s h) as [[oid ob]|] eqn:El; [|inv H; reflexivity].
    unfold h_pickle in H. repeat dmatch; inv H.
  - destruct (lookup s h) as [[oid ob]|] eqn:El; [|inv H; reflexivity].
    destruct (fpz && _); [inv H; reflexivity|]. unfold h_pickle in H. repeat dmatch; inv H.
  - destruct (lookup_all s hs); [|inv H; reflexivity].
    unfold h_concat in H. repeat dmatch; inv H; reflexivity.
  - destruct (lookup s h) as [[oid ob]|]; inv H; reflexivity.
  - destruct (lookup s h) as [[oid ob]|] eqn:El; [|inv H; reflexivity].
    eapply h_getname_atomic; eauto using lookup_nth.
  - destruct (lookup s h) as [[oid ob]|]; inv H; reflexivity.
  - destruct (lookup s h1) as [[? ?]|]; [destruct (lookup s h2) as [[? ?]|]|]; inv H; reflexivity.
  - destruct (lookup s h) as [[oid ob]|]; inv H; reflexivity.
  - destruct (lookup s h) as [[oid ob]|]; inv H; reflexivity.
  - destruct (lookup s h1) as [[? ?]|]; [destruct (lookup s h2) as [[? ?]|]|]; try (inv H; reflexivity).
    unfold h_metric in H. repeat dmatch; inv H; reflexivity.
Qed.
