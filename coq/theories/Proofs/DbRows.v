(* C05 rows_wf: over any history whose inputs are well formed, every stored row has strictly increasing columns below bits. *)
From Coq Require Import QArith Lia Sorting.Sorted.
From E3FP Require Import Base.Prelude Base.ZSet Model.Fprint Model.Db
  Proofs.DbBase Proofs.DbRefuse Proofs.DbInv Proofs.DbFrame Proofs.DbSpec Proofs.DbFold.
Open Scope Z_scope.

Definition row_sorted (b : Z) (r : row) : Prop := ssorted (map fst r) /\ forall j, In j (map fst r) -> 0 <= j < b.
Definition rows_wf (bs : list buf) (o : obj) : Prop :=
  match oarr o with Some c => Forall (row_sorted (cbits c)) (view_rows bs c) | None => True end.
Definition rows_ok (s : state) : Prop := forall oid o, nth_error (objs s) oid = Some o -> rows_wf (bufs s) o.

(* well-formed inputs: fingerprints as every constructor of fprint.py builds them (np.unique indices, 0 <= i < bits);
   from_array given canonical rows (columns ascending, within the width) *)
Definition fp_wf (a : fp) : Prop := ssorted (fidx a) /\ forall i, In i (fidx a) -> 0 <= i < fbits a.
Definition op_wf (o : op) : Prop :=
  match o with
  | OpFromArray _ _ bits _ rs _ _ => Forall (row_sorted bits) rs
  | OpAdd _ fps => Forall (fun f => fp_wf (fi_fp f)) fps
  | _ => True
  end.

Lemma row_sorted_nil b : row_sorted b [].
Proof. split; [constructor | intros j []]. Qed.

Lemma ssorted_fst_filter (f : Z * Q -> bool) r : ssorted (map fst r) -> ssorted (map fst (filter f r)).
Proof.
  unfold ssorted. induction r as [|[i v] t IH]; simpl; intro H; [constructor|].
  inversion H as [|? ? Ht Hall]; subst. destruct (f (i, v)); simpl; [|apply IH; exact Ht].
  constructor; [apply IH; exact Ht|]. rewrite Forall_forall in *. intros x Hx. apply Hall.
  apply in_map_iff in Hx. destruct Hx as ([j w] & <- & Hin). apply filter_In in Hin. apply in_map_iff. exists (j, w). split; [reflexivity|tauto].
Qed.

Lemma row_sorted_filter b f r : row_sorted b r -> row_sorted b (filter f r).
Proof.
  intros [H1 H2]. split; [apply ssorted_fst_filter; exact H1|]. intros j Hj. apply H2.
  apply in_map_iff in Hj. destruct Hj as (x & <- & Hin). apply filter_In in Hin. apply in_map. tauto.
Qed.

Lemma row_sorted_cast b k r : row_sorted b r -> row_sorted b (cast_row k r).
Proof. unfold row_sorted. rewrite cast_row_support. auto. Qed.

Lemma row_sorted_fold k nb r : 0 < nb -> row_sorted nb (fold_row k nb r).
Proof. intro H. destruct (fold_rows_wf k nb r H). split; assumption. Qed.

Lemma Forall_nth_row b rs i : Forall (row_sorted b) rs -> row_sorted b (nth_row rs i).
Proof.
  intro H. unfold nth_row. destruct (nth_in_or_default (Z.to_nat i) rs []) as [Hin| ->]; [|apply row_sorted_nil].
  rewrite Forall_forall in H. apply H. exact Hin.
Qed.

(* ---- stability *)
Lemma rows_wf_app bs e o : refs_ok bs o -> rows_wf bs o -> rows_wf (bs ++ e) o.
Proof.
  intros [Ha _] H. unfold rows_wf in *. destruct (oarr o); [|exact I]. rewrite view_rows_app by exact Ha. exact H.
Qed.

Lemma push_rows s e o : state_ok s -> rows_ok s -> rows_wf (bufs s ++ e) o -> rows_ok (push_obj s (bufs s ++ e) o).
Proof.
  intros Hs Hr Ho oid x H. unfold push_obj in *. cbn [objs bufs] in *.
  destruct (Nat.lt_ge_cases oid (length (objs s))) as [L|L].
  - rewrite nth_error_app1 in H by exact L. apply rows_wf_app; [destruct (Hs _ _ H) as (R & _); exact R | eapply Hr; eassumption].
  - rewrite nth_error_app2 in H by exact L. destruct (oid - length (objs s))%nat as [|n]; simpl in H; [inv H; exact Ho|]. destruct n; discriminate.
Qed.

Lemma set_rows s e oid o : state_ok s -> rows_ok s -> rows_wf (bufs s ++ e) o -> rows_ok (mkst (bufs s ++ e) (set_obj (objs s) oid o) (pool s)).
Proof.
  intros Hs Hr Ho j x H. cbn [objs bufs] in *. apply set_obj_cases in H. destruct H as [[_ ->]|H]; [exact Ho|].
  apply rows_wf_app; [destruct (Hs _ _ H) as (R & _); exact R | eapply Hr; eassumption].
Qed.

(* ---- fresh databases *)
Lemma new_db_fresh_rows s k lv bits rs names cols :
  state_ok s -> rows_ok s -> Forall (row_sorted bits) rs -> rows_ok (fst (new_db_fresh s k lv bits rs names cols)).
Proof.
  intros Hs Hr Hrs. unfold new_db_fresh. destruct (negb _); [exact Hr|]. unfold alloc_csr.
  destruct (alloc_cols (bufs s ++ [BQ (enc_data rs); BZ (enc_idx rs); BZ (enc_ptr 0 rs)]) cols) as [bs2 ps] eqn:Ea. cbn [fst].
  destruct (alloc_cols_app cols (bufs s ++ [BQ (enc_data rs); BZ (enc_idx rs); BZ (enc_ptr 0 rs)])) as [e He]. rewrite Ea in He. simpl in He.
  rewrite He, <- app_assoc. apply push_rows; [exact Hs | exact Hr|]. rewrite app_assoc.
  unfold rows_wf. cbn [oarr cbits]. rewrite view_rows_alloc. exact Hrs.
Qed.

(* ---- casts on shared buffers *)
Lemma csr_astype_rows bs c from to bs1 c1 :
  csr_astype bs c from to = (bs1, c1) ->
  (cdata c < length bs /\ cind c < length bs /\ cptr c < length bs)%nat ->
  cbits c1 = cbits c /\ view_rows bs1 c1 = (if kind_eqb from to then view_rows bs c else map (cast_row to) (view_rows bs c)).
Proof.
  intros H Hc. destruct (csr_astype_spec _ _ _ _ _ _ H Hc) as (e & -> & Hc1 & Hp & Hi & Hb & Hq). split; [exact Hb|].
  unfold view_rows. rewrite Hp, Hi, Hq, !getZ_app by tauto. destruct (kind_eqb from to); [reflexivity|]. apply read_rows_cast.
Qed.

Lemma Forall_cast_if b (cond : bool) k rs :
  Forall (row_sorted b) rs -> Forall (row_sorted b) (if cond then rs else map (cast_row k) rs).
Proof.
  intro H. destruct cond; [exact H|]. rewrite Forall_forall in *. intros r Hr. apply in_map_iff in Hr. destruct Hr as (x & <- & Hx).
  apply row_sorted_cast. apply H. exact Hx.
Qed.

Lemma new_db_shared_rows s e k lv c names ps :
  state_ok s -> rows_ok s -> Forall (row_sorted (cbits c)) (view_rows (bufs s ++ e) c) ->
  rows_ok (fst (new_db_shared s (bufs s ++ e) k lv c names ps)).
Proof.
  intros Hs Hr Hc. unfold new_db_shared. destruct (negb _); [exact Hr|]. cbn [fst]. apply push_rows; assumption.
Qed.

Lemma h_astype_rows s oid o k cp : state_ok s -> rows_ok s -> nth_error (objs s) oid = Some o -> rows_ok (fst (h_astype s oid o k cp)).
Proof.
  intros Hs Hr Ho. unfold h_astype. destruct (_ && _); [exact Hr|].
  destruct (oarr o) as [c|] eqn:Ea; [|exact Hr].
  destruct (Hs _ _ Ho) as ((Hr1 & Hr2) & _). rewrite Ea in Hr1. pose proof (Hr _ _ Ho) as Hw. unfold rows_wf in Hw. rewrite Ea in Hw.
  destruct (csr_astype (bufs s) c (okind o) k) as [bs1 c1] eqn:Ec.
  destruct (csr_astype_rows _ _ _ _ _ _ Ec Hr1) as [Hb Hv].
  destruct (csr_astype_app (bufs s) c (okind o) k) as [e He]. rewrite Ec in He. simpl in He. subst bs1.
  apply new_db_shared_rows; [exact Hs | exact Hr|]. rewrite Hv, Hb. apply Forall_cast_if. exact Hw.
Qed.

(* ---- fold *)
Lemma h_fold_rows s oid o nb ko : state_ok s -> rows_ok s -> nth_error (objs s) oid = Some o -> rows_ok (fst (h_fold s oid o nb ko)).
Proof.
  intros Hs Hr Ho. unfold h_fold. destruct (oarr o) as [c|] eqn:Ea; [|exact Hr].
  destruct (cbits c <? nb); [exact Hr|]. destruct (nb =? 0); [exact Hr|].
  destruct (negb (pow2_ratio (cbits c) nb)) eqn:Ep; [exact Hr|].
  assert (Hnb : 0 < nb).
  { apply negb_false_iff in Ep. unfold pow2_ratio in Ep. apply andb_true_iff in Ep. destruct Ep as [Ep _]. apply Z.ltb_lt. exact Ep. }
  cbv zeta. rewrite sum_duplicates_fresh.
  destruct (Hs _ _ Ho) as ((Hr1 & Hr2) & _). rewrite Ea in Hr1.
  set (bs1 := bufs s ++ [BQ (getQ (bufs s) (cdata c)); BZ (map (fun i => i mod nb) (getZ (bufs s) (cind c))); BZ (getZ (bufs s) (cptr c))]).
  set (t := mkcsr (length (bufs s)) (S (length (bufs s))) (S (S (length (bufs s)))) (cbits c)).
  assert (Hv1 : view_rows bs1 t = map (map (fun iv => (fst iv mod nb, snd iv))) (view_rows (bufs s) c)).
  { subst bs1 t. unfold view_rows, getZ, getQ. cbn [cdata cind cptr]. rewrite nth_error_app_len, nth_error_app_len1, nth_error_app_len2.
    fold (getZ (bufs s) (cptr c)) (getZ (bufs s) (cind c)) (getQ (bufs s) (cdata c)). apply read_rows_mapidx. }
  set (rs1 := map (sum_dups (okind o)) (view_rows bs1 t)).
  set (bs2 := bufs s ++ [BQ (enc_data rs1); BZ (enc_idx rs1); BZ (enc_ptr 0 rs1)]).
  assert (Hv2 : view_rows bs2 t = rs1).
  { subst bs2 t. rewrite <- (app_nil_r (_ ++ [_; _; _])). apply view_rows_alloc. }
  rewrite Hv2. unfold alloc_csr.
  set (rs3 := map (filter (fun iv => fst iv <? nb)) rs1).
  set (bs3 := bs2 ++ [BQ (enc_data rs3); BZ (enc_idx rs3); BZ (enc_ptr 0 rs3)]).
  set (c3 := mkcsr (length bs2) (S (length bs2)) (S (S (length bs2))) nb).
  set (k' := match ko with Some k => k | None => okind o end).
  destruct (csr_astype bs3 c3 (okind o) k') as [bs4 c4] eqn:Ec.
  assert (Hc3 : (cdata c3 < length bs3 /\ cind c3 < length bs3 /\ cptr c3 < length bs3)%nat).
  { subst c3 bs3. cbn [cdata cind cptr]. rewrite app_length. simpl. lia. }
  destruct (csr_astype_rows _ _ _ _ _ _ Ec Hc3) as [Hb Hv].
  destruct (csr_astype_app bs3 c3 (okind o) k') as [e He]. rewrite Ec in He. simpl in He. subst bs4.
  assert (Hv3 : view_rows bs3 c3 = rs3).
  { subst bs3 c3. rewrite <- (app_nil_r (_ ++ [_; _; _])). apply view_rows_alloc. }
  assert (Hrs3 : Forall (row_sorted nb) rs3).
  { subst rs3 rs1. rewrite Hv1, !map_map. rewrite Forall_forall. intros r Hin. apply in_map_iff in Hin. destruct Hin as (x & <- & _).
    apply row_sorted_filter. apply (row_sorted_fold (okind o) nb x Hnb). }
  assert (Hbs : bs3 ++ e = bufs s ++ ([BQ (enc_data rs1); BZ (enc_idx rs1); BZ (enc_ptr 0 rs1)] ++ [BQ (enc_data rs3); BZ (enc_idx rs3); BZ (enc_ptr 0 rs3)] ++ e)).
  { subst bs3 bs2. rewrite <- !app_assoc. reflexivity. }
  rewrite Hbs in *. apply new_db_shared_rows; [exact Hs | exact Hr|]. rewrite Hv, Hb, Hv3. cbn [cbits c3]. apply Forall_cast_if. exact Hrs3.
Qed.

(* ---- add_fingerprints *)
Lemma check_valid_ok lv bits fps : check_valid lv bits fps = None -> Forall (fun f => fbits (fi_fp f) = bits) fps.
Proof.
  induction fps as [|f t IH]; simpl; intro H; [constructor|].
  destruct (negb (option_eqb Z.eqb (flevel (fi_fp f)) lv)); [discriminate|].
  destruct (fbits (fi_fp f) =? bits) eqn:E; simpl in H; [|discriminate]. apply Z.eqb_eq in E. constructor; auto.
Qed.

Lemma fp_row_sorted k a b : fp_wf a -> fbits a = b -> row_sorted b (fp_row k a).
Proof. intros [H1 H2] <-. unfold row_sorted. rewrite fp_row_support. auto. Qed.

Lemma h_add_rows s oid o fps :
  state_ok s -> rows_ok s -> nth_error (objs s) oid = Some o -> Forall (fun f => fp_wf (fi_fp f)) fps -> rows_ok (fst (h_add s oid o fps)).
Proof.
  intros Hs Hr Ho Hw. unfold h_add.
  destruct (add_precheck (view (bufs s) o) fps) as [p|e0] eqn:Hp; [|exact Hr].
  unfold add_precheck in Hp. destruct fps as [|f0 t]; [discriminate|].
  destruct (check_valid _ _ (f0 :: t)) eqn:Ecv; [discriminate|].
  match type of Hp with context [collect ?k ?pn ?l] => destruct (collect k pn l) as [[[rs ns] pvs]|] eqn:Ec; simpl in Hp; [|discriminate] end.
  inv Hp. destruct (collect_rows_names _ _ _ _ _ _ Ec) as [Hrs _]. apply check_valid_ok in Ecv.
  cbn [ap_names ap_cols ap_rows ap_bits onames]. unfold alloc_csr. cbv beta iota zeta. cbn [onames okind olevel oarr oindex].
  set (bits' := match dbits (view (bufs s) o) with Some b => b | None => fbits (fi_fp f0) end) in *.
  assert (Hnew : Forall (row_sorted bits') (drows (view (bufs s) o) ++ rs)).
  { apply Forall_app. split.
    - pose proof (Hr _ _ Ho) as Hold. unfold rows_wf in Hold. subst bits'. unfold view. cbn [drows dbits].
      destruct (oarr o); [exact Hold | constructor].
    - rewrite Hrs. rewrite Forall_forall in *. intros r Hin. apply in_map_iff in Hin. destruct Hin as (f & <- & Hf).
      apply fp_row_sorted; [apply Hw; exact Hf | apply Ecv; exact Hf]. }
  destruct (prep_props _ _ _ true true) as [r|].
  - match goal with |- context [store_cols ?b ?pp ?rr] => destruct (store_cols_app rr b pp) as [e2 He2]; destruct (store_cols b pp rr) as [bs2 ps] end.
    simpl in He2. cbn [fst]. rewrite He2, <- app_assoc. apply set_rows; [exact Hs | exact Hr|]. rewrite app_assoc.
    unfold rows_wf. cbn [oarr cbits]. rewrite view_rows_alloc. exact Hnew.
  - cbn [fst]. apply set_rows; [exact Hs | exact Hr|]. unfold rows_wf. cbn [oarr cbits].
    rewrite <- (app_nil_r (_ ++ [_; _; _])). rewrite view_rows_alloc. exact Hnew.
Qed.

Lemma h_update_props_rows s oid o cols ap : state_ok s -> rows_ok s -> nth_error (objs s) oid = Some o -> rows_ok (fst (h_update_props s oid o cols ap)).
Proof.
  intros Hs Hr Ho. unfold h_update_props. destruct (prep_props _ _ cols ap true) as [r|]; [|exact Hr].
  match goal with |- context [store_cols ?b ?pp ?rr] => destruct (store_cols_app rr b pp) as [e He]; destruct (store_cols b pp rr) as [bs1 ps] end.
  simpl in He. subst bs1. cbn [fst]. apply set_rows; [exact Hs | exact Hr|].
  pose proof (Hr _ _ Ho) as Hw. destruct (Hs _ _ Ho) as ((Hr1 & _) & _). unfold rows_wf in *. cbn [oarr].
  destruct (oarr o); [|exact I]. rewrite view_rows_app by exact Hr1. exact Hw.
Qed.

Lemma h_subset_rows s oid o names : state_ok s -> rows_ok s -> nth_error (objs s) oid = Some o -> rows_ok (fst (h_subset s oid o names)).
Proof.
  intros Hs Hr Ho. unfold h_subset. destruct (existsb _ names) eqn:Ex; [exact Hr|].
  apply existsb_negb_false in Ex. pose proof (subset_pairs_present names (oindex o) Ex) as Hp.
  destruct (subset_pairs (oindex o) names) as [ix1 pairs]. simpl in Hp. subst ix1. rewrite (same_state _ _ _ Ho).
  destruct pairs; [exact Hr|]. destruct (dbits (view (bufs s) o)) as [b|] eqn:Eb; [|exact Hr].
  apply new_db_fresh_rows; [exact Hs | exact Hr|].
  pose proof (Hr _ _ Ho) as Hw. unfold rows_wf in Hw. unfold view in *. cbn [dbits drows] in *.
  destruct (oarr o); [|discriminate]. simpl in Eb. inv Eb.
  rewrite Forall_forall. intros r Hin. apply in_map_iff in Hin. destruct Hin as (i & <- & _). apply Forall_nth_row. exact Hw.
Qed.

Lemma h_pickle_rows s oid o : state_ok s -> rows_ok s -> nth_error (objs s) oid = Some o -> rows_ok (fst (h_pickle s o)).
Proof.
  intros Hs Hr Ho. unfold h_pickle. pose proof (Hr _ _ Ho) as Hw. unfold rows_wf in Hw.
  destruct (dbits (view (bufs s) o)) as [b|] eqn:Eb.
  - unfold alloc_csr.
    match goal with |- context [alloc_cols ?bb ?cs] => destruct (alloc_cols_app cs bb) as [e He]; destruct (alloc_cols bb cs) as [bs2 ps] end.
    simpl in He. cbn [fst]. rewrite He, <- app_assoc. apply push_rows; [exact Hs | exact Hr|]. rewrite app_assoc.
    unfold rows_wf. cbn [oarr cbits]. rewrite view_rows_alloc. unfold view in *. cbn [dbits drows] in *.
    destruct (oarr o); [|discriminate]. simpl in Eb. inv Eb. exact Hw.
  - match goal with |- context [alloc_cols ?bb ?cs] => destruct (alloc_cols_app cs bb) as [e He]; destruct (alloc_cols bb cs) as [bs2 ps] end.
    simpl in He. subst bs2. cbn [fst]. apply push_rows; [exact Hs | exact Hr|]. exact I.
Qed.

Lemma concat_loop_rows lv b k : forall ds rows names props rows' names' props',
  Forall (fun d => forall b', dbits d = Some b' -> Forall (row_sorted b') (drows d)) ds ->
  Forall (row_sorted b) rows ->
  concat_loop lv (Some b) k ds rows names props = Ok (rows', names', props') -> Forall (row_sorted b) rows'.
Proof.
  induction ds as [|d t IH]; intros rows names props rows' names' props' Hd Hrows H; simpl in H.
  - inv H. exact Hrows.
  - destruct (negb (option_eqb Z.eqb (dlevel d) lv)); [discriminate|].
    destruct (option_eqb Z.eqb (dbits d) (Some b)) eqn:E; simpl in H; [|discriminate].
    destruct (negb (kind_eqb (dkind d) k)); [discriminate|]. inv Hd.
    apply option_eqb_Z_eq in E. eapply IH; [exact H3 | | exact H]. apply Forall_app. split; [exact Hrows | apply H2; exact E].
Qed.

Lemma h_concat_rows s os :
  state_ok s -> rows_ok s -> Forall (fun o => exists oid, nth_error (objs s) oid = Some o) os -> rows_ok (fst (h_concat s os)).
Proof.
  intros Hs Hr Hos. unfold h_concat. destruct (map (view (bufs s)) os) as [|d0 dt] eqn:Eds; [exact Hr|].
  destruct (dbits d0) as [b|] eqn:Eb.
  2:{ destruct (concat_loop _ _ _ _ _ _ _) as [[[? ?] ?]|]; exact Hr. }
  destruct (concat_loop (dlevel d0) (Some b) (dkind d0) (d0 :: dt) [] [] []) as [[[rows names] props]|] eqn:El; [|exact Hr].
  destruct (negb _); [exact Hr|].
  assert (Hrows : Forall (row_sorted b) rows).
  { eapply concat_loop_rows; [ | constructor | exact El]. rewrite <- Eds. rewrite Forall_forall. intros d Hin.
    apply in_map_iff in Hin. destruct Hin as (o & <- & Hin). rewrite Forall_forall in Hos. destruct (Hos _ Hin) as [oid Ho].
    pose proof (Hr _ _ Ho) as Hw. unfold rows_wf in Hw. intros b' Hb'. unfold view in *. cbn [dbits drows] in *.
    destruct (oarr o); [|discriminate]. simpl in Hb'. inv Hb'. exact Hw. }
  unfold alloc_csr.
  match goal with |- context [alloc_cols ?bb ?cs] => destruct (alloc_cols_app cs bb) as [e He]; destruct (alloc_cols bb cs) as [bs2 ps] end.
  simpl in He. cbn [fst]. rewrite He, <- app_assoc. apply push_rows; [exact Hs | exact Hr|]. rewrite app_assoc.
  unfold rows_wf. cbn [oarr cbits]. rewrite view_rows_alloc. exact Hrows.
Qed.

Lemma input_rows_sorted k dense bits rs : Forall (row_sorted bits) rs -> Forall (row_sorted bits) (input_rows k dense rs).
Proof.
  intro H. unfold input_rows. rewrite Forall_forall in *. intros r Hin. apply in_map_iff in Hin. destruct Hin as (x & <- & Hx).
  apply row_sorted_cast. destruct dense; [apply row_sorted_filter|]; apply H; exact Hx.
Qed.

Theorem step_rows s o : state_ok s -> rows_ok s -> op_wf o -> rows_ok (fst (step s o)).
Proof.
  intros Hs Hr Hw. destruct o; try (rewrite pure_reads_change_nothing by reflexivity; exact Hr); cbn [step].
  - cbn [fst]. rewrite <- (app_nil_r (bufs s)). apply push_rows; [exact Hs | exact Hr | exact I].
  - apply new_db_fresh_rows; [exact Hs | exact Hr | apply input_rows_sorted; exact Hw].
  - destruct (lookup s h) as [[oid ob]|] eqn:El; [|exact Hr]. apply h_add_rows; eauto using lookup_nth.
  - destruct (lookup s h) as [[oid ob]|] eqn:El; [|exact Hr]. apply h_update_props_rows; eauto using lookup_nth.
  - destruct (lookup s h) as [[oid ob]|] eqn:El; [|exact Hr]. apply h_update_props_rows; eauto using lookup_nth.
  - destruct (lookup s h) as [[oid ob]|] eqn:El; [|exact Hr]. apply h_subset_rows; eauto using lookup_nth.
  - destruct (lookup s h) as [[oid ob]|] eqn:El; [|exact Hr]. apply h_astype_rows; eauto using lookup_nth.
  - destruct (lookup s h) as [[oid ob]|] eqn:El; [|exact Hr]. apply h_fold_rows; eauto using lookup_nth.
  - destruct (lookup s h) as [[oid ob]|] eqn:El; [|exact Hr]. apply h_astype_rows; eauto using lookup_nth.
  - destruct (lookup s h) as [[oid ob]|] eqn:El; [|exact Hr]. eapply h_pickle_rows; eauto using lookup_nth.
  - destruct (lookup s h) as [[oid ob]|] eqn:El; [|exact Hr]. destruct (fpz && _); [exact Hr|]. eapply h_pickle_rows; eauto using lookup_nth.
  - destruct (lookup_all s hs) eqn:El; [|exact Hr]. apply h_concat_rows; [exact Hs | exact Hr | eapply lookup_all_nth; exact El].
Qed.

Lemma run_rows : forall ops s, state_ok s -> rows_ok s -> Forall op_wf ops -> rows_ok (run s ops).
Proof.
  induction ops as [|o t IH]; intros s Hs Hr Hw; simpl; [exact Hr|].
  inv Hw. apply IH; [apply step_ok; assumption | apply step_rows; assumption | assumption].
Qed.

(* C05 rows_wf: after any history with well-formed inputs, every row of every database of the pool has strictly increasing
   columns in [0, bits); a database without matrix has no rows *)
Theorem rows_wf_any_history ops : Forall op_wf ops -> forall h d, handle_db (run init ops) h = Some d ->
  match dbits d with
  | Some b => Forall (fun r => ssorted (map fst r) /\ forall j, In j (map fst r) -> 0 <= j < b) (drows d)
  | None => drows d = []
  end.
Proof.
  intros Hw h d Hh.
  assert (Hr : rows_ok (run init ops)).
  { apply run_rows; [apply init_ok | intros oid o H; destruct oid; discriminate | exact Hw]. }
  unfold handle_db in Hh. destruct (lookup (run init ops) h) as [[oid o]|] eqn:El; [|discriminate]. inv Hh.
  pose proof (Hr _ _ (lookup_nth _ _ _ _ El)) as H. unfold rows_wf in H. unfold view. cbn [dbits drows].
  destruct (oarr o); [exact H | reflexivity].
Qed.
