(* Refinement: what each operation of Model/Db.v does to the contents of the databases (C05, C17). *)
From Coq Require Import QArith Lia Sorting.Sorted.
From E3FP Require Import Base.Prelude Base.ZSet Model.Fprint Model.Db Proofs.DbBase Proofs.DbRefuse Proofs.DbInv Proofs.DbFrame.
Open Scope Z_scope.

(* ---- the name index *)
Lemma okey_eqb_eq a b : okey_eqb a b = true <-> a = b.
Proof.
  unfold okey_eqb. destruct a as [x|], b as [y|]; simpl; split; intro H; try discriminate; try reflexivity.
  - apply String.eqb_eq in H. congruence.
  - inv H. apply String.eqb_refl.
Qed.
Lemma okey_eqb_refl a : okey_eqb a a = true.
Proof. apply okey_eqb_eq. reflexivity. Qed.

(* rows carrying the name k, in row order *)
Fixpoint positions (k : okey) (names : list okey) (off : Z) : list Z :=
  match names with
  | [] => []
  | n :: t => (if okey_eqb k n then [off] else []) ++ positions k t (off + 1)
  end.

Lemma idx_get_append ix k p k' :
  idx_get k' (idx_append ix k p) = if okey_eqb k' k then idx_get k' ix ++ [p] else idx_get k' ix.
Proof.
  induction ix as [|[k0 l0] t IH]; simpl.
  - destruct (okey_eqb k' k); reflexivity.
  - destruct (okey_eqb k k0) eqn:E; simpl.
    + apply okey_eqb_eq in E. subst k0. destruct (okey_eqb k' k); reflexivity.
    + destruct (okey_eqb k' k0) eqn:E2.
      * apply okey_eqb_eq in E2. subst k0. destruct (okey_eqb k' k) eqn:E3; [|reflexivity].
        apply okey_eqb_eq in E3. subst. rewrite okey_eqb_refl in E. discriminate.
      * exact IH.
Qed.

Lemma idx_get_names_map names : forall ix off k, idx_get k (names_map ix names off) = idx_get k ix ++ positions k names off.
Proof.
  induction names as [|n t IH]; intros ix off k; simpl; [symmetry; apply app_nil_r|].
  rewrite IH, idx_get_append. destruct (okey_eqb k n); simpl; [rewrite <- app_assoc|]; reflexivity.
Qed.

Lemma idx_mem_append ix k p k' : idx_mem k' (idx_append ix k p) = okey_eqb k' k || idx_mem k' ix.
Proof.
  induction ix as [|[k0 l0] t IH]; simpl; [reflexivity|].
  destruct (okey_eqb k k0) eqn:E; simpl.
  - apply okey_eqb_eq in E. subst k0. destruct (okey_eqb k' k); reflexivity.
  - rewrite IH. destruct (okey_eqb k' k0), (okey_eqb k' k); reflexivity.
Qed.

Lemma idx_mem_names_map names : forall ix off k, idx_mem k (names_map ix names off) = idx_mem k ix || existsb (okey_eqb k) names.
Proof.
  induction names as [|n t IH]; intros ix off k; simpl; [symmetry; apply orb_false_r|].
  rewrite IH, idx_mem_append. destruct (okey_eqb k n), (idx_mem k ix); reflexivity.
Qed.

Lemma idx_append_nonempty ix k p : Forall (fun kl => snd kl <> []) ix -> Forall (fun kl => snd kl <> []) (idx_append ix k p).
Proof.
  induction 1 as [|[k0 l0] t H0 Ht IH]; simpl.
  - constructor; [simpl; discriminate | constructor].
  - destruct (okey_eqb k k0); constructor; simpl in *; auto. destruct l0; discriminate.
Qed.

Lemma names_map_nonempty names : forall ix off, Forall (fun kl => snd kl <> []) ix -> Forall (fun kl => snd kl <> []) (names_map ix names off).
Proof. induction names; intros; simpl; [assumption|]. apply IHnames. apply idx_append_nonempty. assumption. Qed.

Lemma positions_spec k names : forall off p,
  In p (positions k names off) <-> exists i, nth_error names i = Some k /\ p = off + Z.of_nat i.
Proof.
  induction names as [|n t IH]; intros off p; simpl.
  - split; [intros [] | intros (i & H & _); destruct i; discriminate].
  - rewrite in_app_iff, IH. split.
    + intros [H|(i & H1 & H2)].
      * destruct (okey_eqb k n) eqn:E; [|destruct H]. destruct H as [<-|[]]. apply okey_eqb_eq in E. subst n.
        exists 0%nat. split; [reflexivity|lia].
      * exists (S i). split; [exact H1|lia].
    + intros ([|i] & H1 & H2).
      * simpl in H1. inv H1. rewrite okey_eqb_refl. left. left. lia.
      * right. exists i. split; [exact H1|lia].
Qed.

Lemma positions_lb k names : forall off p, In p (positions k names off) -> off <= p.
Proof. intros off p H. apply positions_spec in H. destruct H as (i & _ & ->). lia. Qed.

Lemma positions_sorted k names : forall off, ssorted (positions k names off).
Proof.
  unfold ssorted. induction names as [|n t IH]; intro off; simpl; [constructor|].
  destruct (okey_eqb k n); simpl; [|apply IH].
  constructor; [apply IH|]. rewrite Forall_forall. intros x Hx. apply positions_lb in Hx. lia.
Qed.

(* C05 index_complete, for one object satisfying the invariant *)
Lemma index_complete_obj bs o : obj_ok bs o ->
  (forall k, idx_get k (oindex o) = positions k (onames o) 0)
  /\ (forall k, idx_mem k (oindex o) = true <-> In k (onames o))
  /\ Forall (fun kl => snd kl <> []) (oindex o).
Proof.
  intros (_ & _ & _ & Hi). rewrite Hi. repeat split.
  - intro k. rewrite idx_get_names_map. reflexivity.
  - rewrite idx_mem_names_map. simpl. intro H. apply existsb_exists in H. destruct H as (x & Hx & E). apply okey_eqb_eq in E. subst. exact Hx.
  - intro H. rewrite idx_mem_names_map. simpl. apply existsb_exists. exists k. split; [exact H | apply okey_eqb_refl].
  - apply names_map_nonempty. constructor.
Qed.

(* ... after any history, for every database of the pool: index[k] lists exactly the rows named k, increasing; an entry
   exists iff some row carries the name; no entry is empty *)
Theorem index_complete ops : forall h d, handle_db (run init ops) h = Some d ->
  (forall k, idx_get k (dindex d) = positions k (dnames d) 0)
  /\ (forall k p, In p (positions k (dnames d) 0) <-> exists i, nth_error (dnames d) i = Some k /\ p = Z.of_nat i)
  /\ (forall k, ssorted (positions k (dnames d) 0))
  /\ (forall k, idx_mem k (dindex d) = true <-> In k (dnames d))
  /\ Forall (fun kl => snd kl <> []) (dindex d).
Proof.
  intros h d Hh. pose proof (run_ok ops init init_ok) as Hs.
  unfold handle_db in Hh. destruct (lookup (run init ops) h) as [[oid o]|] eqn:El; [|discriminate]. inv Hh.
  destruct (index_complete_obj _ _ (Hs _ _ (lookup_nth _ _ _ _ El))) as (H1 & H2 & H3). cbn [view dindex dnames].
  split; [exact H1|]. split.
  { intros k p. rewrite positions_spec. split; intros (i & Hi & ->); exists i; (split; [exact Hi | lia]). }
  split; [intro k; apply positions_sorted|]. split; [exact H2 | exact H3].
Qed.

(* C05 props_aligned / names aligned, after any history *)
Theorem props_aligned ops : forall h d, handle_db (run init ops) h = Some d ->
  length (dnames d) = fp_num d /\ forall k v, aget k (dprops d) = Some v -> length v = fp_num d.
Proof.
  intros h d Hh. pose proof (run_ok ops init init_ok) as Hs.
  unfold handle_db in Hh. destruct (lookup (run init ops) h) as [[oid o]|] eqn:El; [|discriminate]. inv Hh.
  destruct (Hs _ _ (lookup_nth _ _ _ _ El)) as (_ & Hf & Hn & _). split; [exact Hn|].
  intros k v Hk. rewrite <- Hn. cbn [view dprops] in Hk. eapply props_fit_len; eassumption.
Qed.

(* ---- db[i] *)
Theorem getitem_int_spec d b i :
  dbits d = Some b ->
  let n := Z.of_nat (fp_num d) in
  get_int d i =
    if (i <? - n) || (n <=? i) then Raises EIndex
    else let j := Z.to_nat (if i <? 0 then i + n else i) in
         Ok (OFp (row_fp (dkind d) b (dlevel d) (nth j (dnames d) None) (nth j (drows d) [])) (row_props d j)).
Proof. intros Hb n. unfold get_int. rewrite Hb. fold n. destruct ((i <? - n) || (n <=? i)); reflexivity. Qed.

(* ---- db[name] *)
Theorem getitem_name_spec s h oid o nm :
  state_ok s -> lookup s h = Some (oid, o) ->
  let d := view (bufs s) o in
  step s (OpGetName h nm) =
    (s, if existsb (okey_eqb (Some nm)) (dnames d)
        then match dbits d with
             | Some b => Ok (OFps (map (fun i => fprint_at d b (Z.to_nat i)) (positions (Some nm) (dnames d) 0)))
             | None => Raises EType
             end
        else Raises EKey).
Proof.
  intros Hs Hl. cbv zeta. pose proof (lookup_nth _ _ _ _ Hl) as Ho.
  destruct (Hs _ _ Ho) as (_ & _ & _ & Hi).
  cbn [step]. rewrite Hl. unfold h_getname.
  assert (Hm : idx_mem (Some nm) (oindex o) = existsb (okey_eqb (Some nm)) (dnames (view (bufs s) o))).
  { rewrite Hi, idx_mem_names_map. reflexivity. }
  rewrite <- Hm. destruct (idx_mem (Some nm) (oindex o)) eqn:Em; cbn [negb]; [|reflexivity].
  rewrite (dd_get_present _ _ Em), (same_state _ _ _ Ho).
  destruct (dbits (view (bufs s) o)); [|reflexivity].
  rewrite Hi at 1. rewrite idx_get_names_map. reflexivity.
Qed.

(* ---- as_type / copy *)
Definition astype_db (k : kind) (d : db) : db :=
  mkdb k (dlevel d) (dbits d) (if kind_eqb (dkind d) k then drows d else map (cast_row k) (drows d)) (dnames d) (dindex d) (dprops d).

Lemma lookup_pushed s bs o : lookup (push_obj s bs o) (length (pool s)) = Some (length (objs s), o).
Proof.
  unfold lookup, push_obj. cbn [pool objs]. rewrite nth_error_app2, Nat.sub_diag by lia. simpl.
  rewrite nth_error_app2, Nat.sub_diag by lia. reflexivity.
Qed.

Theorem as_type_casts s oid o k cp s' hn :
  state_ok s -> nth_error (objs s) oid = Some o ->
  h_astype s oid o k cp = (s', Ok (ONew hn)) ->
  handle_db s' hn = Some (if kind_eqb k (okind o) && negb cp then view (bufs s) o else astype_db k (view (bufs s) o)).
Proof.
  intros Hs Ho H. unfold h_astype in H.
  destruct (Hs _ _ Ho) as ((Hr1 & Hr2) & Hf & Hn & Hi).
  destruct (kind_eqb k (okind o) && negb cp) eqn:Ealias.
  - inv H. unfold handle_db, lookup, new_handle. cbn [pool objs bufs]. rewrite nth_error_app2, Nat.sub_diag by lia. simpl. rewrite Ho. reflexivity.
  - destruct (oarr o) as [c|] eqn:Ea; [|inv H].
    destruct (csr_astype (bufs s) c (okind o) k) as [bs1 c1] eqn:Ec.
    destruct (csr_astype_spec _ _ _ _ _ _ Ec Hr1) as (e & -> & Hc1 & Hp & Hii & Hb & Hq).
    unfold new_db_shared in H. destruct (negb (_ && props_fit _ _ _)); [inv H|]. inv H.
    unfold handle_db, new_handle. rewrite lookup_pushed. f_equal. unfold push_obj. cbn [bufs].
    unfold view, astype_db. cbn [okind olevel oarr onames oindex oprops dlevel dbits drows dnames dindex dprops dkind option_map].
    rewrite Ea. cbn [option_map]. rewrite Hb. f_equal.
    + unfold view_rows. rewrite Hp, Hii, Hq, !getZ_app by tauto.
      destruct (kind_eqb (okind o) k); [reflexivity|]. apply read_rows_cast.
    + symmetry. exact Hi.
    + apply map_ext_in. intros kc Hin. rewrite Forall_forall in Hr2. rewrite getP_app by (apply Hr2; exact Hin). reflexivity.
Qed.

(* copy.copy(db): same contents (and therefore ==), new object *)
Theorem copy_eq s oid o s' hn :
  state_ok s -> nth_error (objs s) oid = Some o ->
  h_astype s oid o (okind o) true = (s', Ok (ONew hn)) ->
  handle_db s' hn = Some (view (bufs s) o).
Proof.
  intros Hs Ho H. rewrite (as_type_casts _ _ _ _ _ _ _ Hs Ho H). rewrite andb_false_r. f_equal.
  unfold astype_db, view. cbn [dkind]. rewrite kind_eqb_refl. reflexivity.
Qed.

(* ---- add_fingerprints: rows and names are appended in batch order, each fingerprint cast to the database's type *)
Lemma collect_rows_names kd names fps : forall rs ns pvs,
  collect kd names fps = Ok (rs, ns, pvs) ->
  rs = map (fun f => fp_row kd (fi_fp f)) fps /\ ns = map (fun f => fname (fi_fp f)) fps.
Proof.
  induction fps as [|f t IH]; intros rs ns pvs H; simpl in H.
  - inv H. auto.
  - destruct (get_props names f); simpl in H; [|discriminate].
    destruct (collect kd names t) as [[[rs' ns'] pvs']|] eqn:E; simpl in H; [|discriminate]. inv H.
    destruct (IH _ _ _ eq_refl) as [-> ->]. auto.
Qed.

Theorem add_appends s h oid o fps s' :
  state_ok s -> lookup s h = Some (oid, o) ->
  step s (OpAdd h fps) = (s', Ok ONone) ->
  exists d', handle_db s' h = Some d'
    /\ drows d' = drows (view (bufs s) o) ++ map (fun f => fp_row (okind o) (fi_fp f)) fps
    /\ dnames d' = onames o ++ map (fun f => fname (fi_fp f)) fps
    /\ dkind d' = okind o /\ dlevel d' = olevel o.
Proof.
  intros Hs Hl H. pose proof (lookup_nth _ _ _ _ Hl) as Ho. cbn [step] in H. rewrite Hl in H.
  unfold h_add in H.
  destruct (add_precheck (view (bufs s) o) fps) as [p|] eqn:Hp; [|inv H].
  unfold add_precheck in Hp. destruct fps as [|f0 t]; [discriminate|].
  destruct (check_valid _ _ (f0 :: t)); [discriminate|].
  match type of Hp with context [collect ?k ?pn ?l] => destruct (collect k pn l) as [[[rs ns] pvs]|] eqn:Ec; simpl in Hp; [|discriminate] end.
  inv Hp. destruct (collect_rows_names _ _ _ _ _ _ Ec) as [Hrs Hns]. cbn [view dkind] in Hrs.
  cbn [ap_names ap_cols ap_rows ap_bits] in H. unfold alloc_csr in H. cbv beta iota zeta in H.
  destruct (prep_props _ _ _ true true) as [r|] eqn:Epp; [|inv H].
  match type of H with context [store_cols ?b ?pp ?rr] => destruct (store_cols_app rr b pp) as [e2 He2]; destruct (store_cols b pp rr) as [bs2 ps] eqn:Es end.
  simpl in He2. inv H.
  assert (Hlen : (oid < length (objs s))%nat) by (apply nth_error_Some; congruence).
  eexists. split.
  - unfold handle_db, lookup. cbn [pool objs bufs]. unfold lookup in Hl.
    destruct (nth_error (pool s) h) as [x|] eqn:E; [|discriminate]. destruct (nth_error (objs s) x) eqn:E2; [|discriminate]. inv Hl.
    rewrite set_obj_at by exact Hlen. reflexivity.
  - unfold view. cbn [drows dnames dkind dlevel oarr onames okind olevel].
    rewrite view_rows_alloc. auto.
Qed.

(* ---- concat: rows and names of the operands, in operand order *)
Lemma concat_loop_spec lv bits k : forall ds rows names props rows' names' props',
  concat_loop lv bits k ds rows names props = Ok (rows', names', props') ->
  rows' = rows ++ flat_map drows ds /\ names' = names ++ flat_map dnames ds.
Proof.
  induction ds as [|d t IH]; intros rows names props rows' names' props' H; simpl in H.
  - inv H. rewrite !app_nil_r. auto.
  - repeat (dmatch; [discriminate|]). destruct (IH _ _ _ _ _ _ H) as [-> ->]. simpl. rewrite !app_assoc. auto.
Qed.

Theorem concat_is_app s hs os s' hn :
  lookup_all s hs = Some os -> step s (OpConcat hs) = (s', Ok (ONew hn)) ->
  exists d', handle_db s' hn = Some d'
    /\ drows d' = flat_map (fun o => drows (view (bufs s) o)) os
    /\ dnames d' = flat_map onames os.
Proof.
  intros Hl H. cbn [step] in H. rewrite Hl in H. unfold h_concat in H.
  destruct (map (view (bufs s)) os) as [|d0 dt] eqn:Eds; [inv H|].
  destruct (concat_loop _ _ _ _ _ _ _) as [[[rows names] props]|] eqn:El; [|inv H].
  destruct (dbits d0); [|inv H]. destruct (negb _); [inv H|]. unfold alloc_csr in H.
  match type of H with context [alloc_cols ?b ?cs] => destruct (alloc_cols_app cs b) as [e He]; destruct (alloc_cols b cs) as [bs2 ps] eqn:Ea end.
  simpl in He. inv H. destruct (concat_loop_spec _ _ _ _ _ _ _ _ _ _ El) as [Hr Hn]. cbn [app] in Hr, Hn.
  eexists. split; [unfold handle_db, new_handle; rewrite lookup_pushed; reflexivity|].
  unfold push_obj. cbn [bufs]. unfold view at 1 2. cbn [drows dnames oarr onames]. rewrite view_rows_alloc.
  rewrite Hr, Hn, <- Eds. rewrite !flat_map_concat_map, !map_map. auto.
Qed.

(* ---- get_subset: for every requested name, in request order, the rows carrying it, in row order *)
Lemma subset_pairs_spec names : forall ix,
  forallb (fun x => idx_mem x ix) names = true ->
  snd (subset_pairs ix names) = flat_map (fun x => map (fun y => (y, x)) (idx_get x ix)) names.
Proof.
  induction names as [|x t IH]; intros ix H; simpl in *; [reflexivity|].
  apply andb_true_iff in H. destruct H as [H1 H2]. rewrite (dd_get_present _ _ H1). specialize (IH ix H2).
  destruct (subset_pairs ix t) as [ix2 r]. simpl in *. rewrite IH. reflexivity.
Qed.

Theorem subset_spec s h oid o names s' hn :
  state_ok s -> lookup s h = Some (oid, o) -> step s (OpSubset h names) = (s', Ok (ONew hn)) ->
  let d := view (bufs s) o in
  let pairs := flat_map (fun x => map (fun y => (y, x)) (positions x (dnames d) 0)) names in
  exists d', handle_db s' hn = Some d'
    /\ drows d' = map (fun p => nth_row (drows d) (fst p)) pairs
    /\ dnames d' = map snd pairs
    /\ dprops d' = map (take_col (map fst pairs)) (dprops d).
Proof.
  intros Hs Hl H d pairs. pose proof (lookup_nth _ _ _ _ Hl) as Ho. destruct (Hs _ _ Ho) as (_ & _ & _ & Hi).
  cbn [step] in H. rewrite Hl in H. unfold h_subset in H.
  destruct (existsb _ names) eqn:Ex; [inv H|]. apply existsb_negb_false in Ex.
  pose proof (subset_pairs_present names (oindex o) Ex) as Hp1. pose proof (subset_pairs_spec names (oindex o) Ex) as Hp2.
  destruct (subset_pairs (oindex o) names) as [ix1 prs]. simpl in Hp1, Hp2. subst ix1. rewrite (same_state _ _ _ Ho) in H.
  assert (Hprs : prs = pairs).
  { rewrite Hp2. subst pairs. apply flat_map_ext. intro x. rewrite Hi, idx_get_names_map. reflexivity. }
  destruct prs as [|p0 pt] eqn:Eprs; [inv H|]. rewrite <- Eprs in *.
  fold d in H. destruct (dbits d) as [b|]; [|inv H]. unfold new_db_fresh in H. destruct (negb _); [inv H|].
  unfold alloc_csr in H.
  match type of H with context [alloc_cols ?bb ?cs] => destruct (alloc_cols_app cs bb) as [e He]; destruct (alloc_cols_view cs bb (fst (alloc_cols bb cs)) (snd (alloc_cols bb cs)) []) as [Hv _]; [destruct (alloc_cols bb cs); reflexivity|]; destruct (alloc_cols bb cs) as [bs2 ps] eqn:Ea end.
  simpl in He, Hv. inv H. rewrite app_nil_r in Hv.
  eexists. split; [unfold handle_db, new_handle; rewrite lookup_pushed; reflexivity|].
  unfold push_obj. cbn [bufs]. unfold view at 1 2 3. cbn [drows dnames dprops oarr onames oprops].
  rewrite view_rows_alloc, Hv, map_map. rewrite Hprs. auto.
Qed.

(* ---- pickle / deepcopy / savez+load / save+load: a new database with the contents of the source *)
Lemma h_pickle_view s oid o s' hn :
  state_ok s -> nth_error (objs s) oid = Some o -> h_pickle s o = (s', Ok (ONew hn)) ->
  handle_db s' hn = Some (view (bufs s) o).
Proof.
  intros Hs Ho H. destruct (Hs _ _ Ho) as (_ & _ & _ & Hi). unfold h_pickle in H.
  destruct (dbits (view (bufs s) o)) as [b|] eqn:Eb.
  - unfold alloc_csr in H.
    match type of H with context [alloc_cols ?bb ?cs] =>
      destruct (alloc_cols_app cs bb) as [e He];
      destruct (alloc_cols_view cs bb (fst (alloc_cols bb cs)) (snd (alloc_cols bb cs)) []) as [Hv _]; [destruct (alloc_cols bb cs); reflexivity|];
      destruct (alloc_cols bb cs) as [bs2 ps] eqn:Ea end.
    simpl in He, Hv. rewrite app_nil_r in Hv. inv H.
    unfold handle_db, new_handle. rewrite lookup_pushed. f_equal. unfold push_obj. cbn [bufs].
    unfold view at 1. cbn [okind olevel oarr onames oindex oprops option_map cbits].
    rewrite view_rows_alloc, Hv, <- Hi, <- Eb. reflexivity.
  - match type of H with context [alloc_cols ?bb ?cs] =>
      destruct (alloc_cols_view cs bb (fst (alloc_cols bb cs)) (snd (alloc_cols bb cs)) []) as [Hv _]; [destruct (alloc_cols bb cs); reflexivity|];
      destruct (alloc_cols bb cs) as [bs2 ps] eqn:Ea end.
    simpl in Hv. rewrite app_nil_r in Hv. inv H.
    unfold handle_db, new_handle. rewrite lookup_pushed. f_equal. unfold push_obj. cbn [bufs].
    unfold view at 1. cbn [okind olevel oarr onames oindex oprops option_map].
    rewrite Hv, <- Hi. unfold view in Eb. cbn [dbits] in Eb. unfold view. destruct (oarr o); [discriminate|]. reflexivity.
Qed.

(* C05 reload_id: what is read back from a .fpz (savez/load) or .fps (save/load) file, or from a pickle, denotes the same
   abstract database - rows, names incl. None, name index, property columns, type, level, bits *)
Theorem reload_id s h oid o fpz s' hn :
  state_ok s -> lookup s h = Some (oid, o) -> step s (OpReload h fpz) = (s', Ok (ONew hn)) ->
  handle_db s' hn = Some (view (bufs s) o).
Proof.
  intros Hs Hl H. cbn [step] in H. rewrite Hl in H. destruct (fpz && _); [inv H|].
  eapply h_pickle_view; eauto using lookup_nth.
Qed.

Theorem pickle_id s h oid o s' hn :
  state_ok s -> lookup s h = Some (oid, o) -> step s (OpPickle h) = (s', Ok (ONew hn)) ->
  handle_db s' hn = Some (view (bufs s) o).
Proof.
  intros Hs Hl H. cbn [step] in H. rewrite Hl in H. eapply h_pickle_view; eauto using lookup_nth.
Qed.
