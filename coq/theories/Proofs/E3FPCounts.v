(* C17 on M1 - the bit fingerprint and the count fingerprint answered by the same fingerprinter state agree.

   `fingerprint_query o counts bits st req mask` (Model/E3FP.v) builds, from the shells answered by `shells_query`,
   the list ids = [unsigned32 (identifier)] and then either Fingerprint.from_indices(ids, bits=2^32).fold(bits) or
   CountFingerprint.from_indices(ids, bits=2^32).fold(bits).  For every state, level request, mask and fold length:
     count_bit_same_acceptance : one succeeds iff the other does (same exception otherwise)
     count_support_eq_bits     : same index array; a position has a non-zero count iff it is a set bit
     count_is_multiplicity     : the count of position j = number of answered shells with unsigned(ident) mod bits = j
     count_total               : the counts add up to the number of answered shells. *)
From Coq Require Import QArith ZArith List Bool Lia.
From E3FP Require Import Base.Prelude Base.ZSet Base.Murmur3 Model.Geometry Model.Stereo Model.Fprint Gen.Constants Model.E3FP
  Proofs.FprintOps Proofs.FprintFold.
Import ListNotations.
Open Scope Z_scope.

(* ---- integer sums over a partition into fibres ------------------------------------------------------------ *)
Definition zsum (l : list Z) : Z := fold_right Z.add 0 l.

Lemma qsum_inject (h : Z -> Z) l : qsum (map (fun i => inject_Z (h i)) l) = inject_Z (zsum (map h l)).
Proof.
  induction l as [|x l IH]; cbn [map qsum zsum fold_right]; [reflexivity|].
  fold (qsum (map (fun i => inject_Z (h i)) l)). rewrite IH. apply Qplus_inject_Z.
Qed.

Lemma zsum_indicator y J : NoDup J -> zsum (map (fun j => if y =? j then 1 else 0) J) = if zmem y J then 1 else 0.
Proof.
  induction J as [|j J IH]; cbn [map zsum fold_right zmem]; intro ND; [reflexivity|].
  inversion ND as [|? ? Hn ND']; subst. fold (zsum (map (fun j => if y =? j then 1 else 0) J)). rewrite (IH ND').
  destruct (y =? j) eqn:E; cbn [orb].
  - apply Z.eqb_eq in E. subst. rewrite (proj2 (zmem_false _ _) Hn). reflexivity.
  - destruct (zmem y J); reflexivity.
Qed.

Lemma zsum_map_plus {A} (g h : A -> Z) l : zsum (map (fun x => g x + h x) l) = zsum (map g l) + zsum (map h l).
Proof.
  induction l as [|x l IH]; cbn [map zsum fold_right]; [reflexivity|].
  fold (zsum (map (fun x => g x + h x) l)) (zsum (map g l)) (zsum (map h l)). rewrite IH. lia.
Qed.

Lemma zsum_map_ext {A} (g h : A -> Z) l : (forall x, g x = h x) -> zsum (map g l) = zsum (map h l).
Proof. intro H. f_equal. apply map_ext. exact H. Qed.

Lemma zsum_fibres {A} (f : A -> Z) (J : list Z) (l : list A) : NoDup J ->
  zsum (map (fun j => Z.of_nat (length (filter (fun x => f x =? j) l))) J)
  = Z.of_nat (length (filter (fun x => zmem (f x) J) l)).
Proof.
  intro ND. induction l as [|x l IH].
  - cbn [filter length]. induction J as [|j J IHJ]; cbn [map zsum fold_right]; [reflexivity|].
    inversion ND; subst. fold (zsum (map (fun _ : Z => Z.of_nat 0) J)). rewrite IHJ by assumption. reflexivity.
  - rewrite (zsum_map_ext _ (fun j => (if f x =? j then 1 else 0) + Z.of_nat (length (filter (fun y => f y =? j) l)))).
    + rewrite zsum_map_plus, IH, (zsum_indicator (f x) J ND). cbn [filter].
      destruct (zmem (f x) J); cbn [length]; lia.
    + intro j. cbn [filter]. destruct (f x =? j); cbn [length]; lia.
Qed.

Lemma length_filter_map {A B} (u : A -> B) (p : B -> bool) l :
  length (filter p (map u l)) = length (filter (fun x => p (u x)) l).
Proof. induction l as [|x l IH]; simpl; [reflexivity|]. destruct (p (u x)); simpl; rewrite IH; reflexivity. Qed.

Lemma length_filter_ext_In {A} (p q : A -> bool) l :
  (forall x, In x l -> p x = q x) -> length (filter p l) = length (filter q l).
Proof.
  induction l as [|x l IH]; simpl; intro H; [reflexivity|].
  rewrite (H x (or_introl eq_refl)). destruct (q x); simpl; rewrite IH; auto.
Qed.

Lemma length_filter_true {A} (p : A -> bool) l : (forall x, In x l -> p x = true) -> length (filter p l) = length l.
Proof.
  induction l as [|x l IH]; simpl; intro H; [reflexivity|].
  rewrite (H x (or_introl eq_refl)). simpl. rewrite IH; auto.
Qed.

(* ---- from_indices + fold, both kinds, on an arbitrary index list ------------------------------------------------ *)
Section Views.
Variable ids : list Z.
Variable B : Z.              (* bits of the unfolded fingerprint *)
Variable lbl : option Z.
Variable nb : Z.             (* fold length *)

Definition bit_view : result fp := rbind (mk_bit ids B lbl None) (fun f => fp_fold f nb 0).
Definition count_view : result fp := rbind (mk_count_from_indices KCount ids B lbl None) (fun f => fp_fold f nb 0).

Definition g_bit : fp := mkfp KBit B lbl (usort ids) [] None.
Definition g_cnt : fp := mkfp KCount B lbl (usort ids) (cbuild (usort ids) (fun i => inject_Z (count_occ_Z i ids))) None.

Definition folded_idx : list Z := usort (map (fun i => i mod nb) (usort ids)).
Definition mult (j : Z) : Z := Z.of_nat (length (filter (fun x => x mod nb =? j) ids)).

Lemma views_unfold :
  bit_view = (if existsb (fun i => B <=? i) ids then Raises EBits
              else match fold_check g_bit nb 0 with Some e => Raises e
                   | None => Ok (mkfp KBit nb lbl folded_idx [] None) end) /\
  count_view = (if existsb (fun i => B <=? i) ids then Raises EBits
              else match fold_check g_bit nb 0 with Some e => Raises e
                   | None => Ok (mkfp KCount nb lbl folded_idx
                       (cbuild folded_idx (fun j => cast_value KCount
                          (qsum (map (get_count g_cnt) (filter (fun i => i mod nb =? j) (usort ids)))))) None) end).
Proof.
  unfold bit_view, count_view, mk_bit, mk_count_from_indices.
  destruct (existsb (fun i => B <=? i) ids); [split; reflexivity|].
  cbn [rbind]. unfold fp_fold. fold g_bit g_cnt.
  change (fold_check g_cnt nb 0) with (fold_check g_bit nb 0).
  destruct (fold_check g_bit nb 0); split; reflexivity.
Qed.

Lemma count_occ_absent i : ~ In i ids -> count_occ_Z i ids = 0.
Proof.
  intro H. unfold count_occ_Z. replace (filter (Z.eqb i) ids) with (@nil Z); [reflexivity|].
  symmetry. induction ids as [|x l IH]; simpl; [reflexivity|].
  destruct (i =? x) eqn:E; [apply Z.eqb_eq in E; subst; exfalso; apply H; left; reflexivity|].
  apply IH. intro Hi. apply H. right. exact Hi.
Qed.

Lemma get_count_g_cnt i : get_count g_cnt i = inject_Z (count_occ_Z i ids).
Proof.
  unfold get_count, g_cnt; cbn [fkind fcnt]. rewrite cget_cbuild.
  destruct (zmem i (usort ids)) eqn:E; [reflexivity|].
  apply zmem_false in E. rewrite count_occ_absent; [reflexivity|]. intro H. apply E. apply In_usort. exact H.
Qed.

Lemma fibre_sum j :
  qsum (map (get_count g_cnt) (filter (fun i => i mod nb =? j) (usort ids))) = inject_Z (mult j).
Proof.
  rewrite (map_ext _ _ get_count_g_cnt). rewrite qsum_inject. f_equal.
  unfold count_occ_Z, mult.
  rewrite (zsum_map_ext _ (fun i => Z.of_nat (length (filter (fun x => x =? i) ids)))).
  2:{ intro i. f_equal. apply length_filter_ext_In. intros x _. apply Z.eqb_sym. }
  rewrite (zsum_fibres (fun x => x)).
  2:{ apply ssorted_NoDup, ssorted_filter, ssorted_usort. }
  f_equal. apply length_filter_ext_In. intros x Hx.
  destruct (x mod nb =? j) eqn:E.
  - apply zmem_In. apply filter_In. split; [apply In_usort; exact Hx | exact E].
  - apply zmem_false. intro H. apply filter_In in H. destruct H as [_ H]. congruence.
Qed.

Lemma mult_pos_iff j : 0 < mult j <-> In j folded_idx.
Proof.
  unfold mult, folded_idx. rewrite In_usort, in_map_iff. split.
  - intro H. destruct (filter (fun x => x mod nb =? j) ids) as [|x t] eqn:E; [simpl in H; lia|].
    assert (Hx : In x (filter (fun x => x mod nb =? j) ids)) by (rewrite E; left; reflexivity).
    apply filter_In in Hx. destruct Hx as [Hx Hj]. apply Z.eqb_eq in Hj. exists x. split; [exact Hj | apply In_usort; exact Hx].
  - intros [x [Hj Hx]]. rewrite In_usort in Hx.
    assert (Hin : In x (filter (fun x => x mod nb =? j) ids)) by (apply filter_In; split; [exact Hx | apply Z.eqb_eq; exact Hj]).
    destruct (filter (fun x => x mod nb =? j) ids); [contradiction | simpl; lia].
Qed.

Lemma mult_nonneg j : 0 <= mult j.
Proof. unfold mult. lia. Qed.

(* acceptance does not depend on the kind *)
Lemma views_same_acceptance :
  match bit_view, count_view with
  | Ok b, Ok c => fidx b = fidx c /\ fbits b = fbits c /\ flevel b = flevel c /\ fname b = fname c /\
                  fkind b = KBit /\ fkind c = KCount
  | Raises e, Raises e' => e = e'
  | _, _ => False
  end.
Proof.
  destruct views_unfold as [-> ->].
  destruct (existsb (fun i => B <=? i) ids); [reflexivity|].
  destruct (fold_check g_bit nb 0); [reflexivity|]. cbn. repeat split.
Qed.

Lemma count_view_ok c : count_view = Ok c ->
  fidx c = folded_idx /\ ckeys (fcnt c) = folded_idx /\ fkind c = KCount /\ fbits c = nb /\ flevel c = lbl /\
  forall j, get_count c j = inject_Z (mult j).
Proof.
  destruct views_unfold as [_ ->].
  destruct (existsb (fun i => B <=? i) ids); [discriminate|].
  destruct (fold_check g_bit nb 0); [discriminate|]. intro H. inversion H; subst; clear H. cbn [fidx fcnt fkind fbits flevel].
  split; [reflexivity|]. split; [apply ckeys_cbuild|]. split; [reflexivity|]. split; [reflexivity|]. split; [reflexivity|].
  intro j. unfold get_count; cbn [fkind fcnt]. rewrite cget_cbuild. rewrite fibre_sum. cbn [cast_value]. rewrite qtrunc_inject_Z.
  destruct (zmem j folded_idx) eqn:E; [reflexivity|].
  apply zmem_false in E. assert (H0 : mult j = 0).
  { pose proof (mult_nonneg j). destruct (Z.eq_dec (mult j) 0) as [|N]; [assumption|]. exfalso. apply E. apply mult_pos_iff. lia. }
  rewrite H0. reflexivity.
Qed.

Lemma bit_view_ok b : bit_view = Ok b -> fidx b = folded_idx /\ fkind b = KBit /\ fbits b = nb /\ flevel b = lbl.
Proof.
  destruct views_unfold as [-> _].
  destruct (existsb (fun i => B <=? i) ids); [discriminate|].
  destruct (fold_check g_bit nb 0); [discriminate|]. intro H. inversion H; subst. repeat split.
Qed.

Lemma inject_Z_zero_iff n : inject_Z n == 0 <-> n = 0.
Proof. unfold Qeq, inject_Z. simpl. lia. Qed.

Lemma count_view_total c : count_view = Ok c ->
  qsum (map snd (fcnt c)) = inject_Z (Z.of_nat (length ids)).
Proof.
  intro H. destruct (count_view_ok c H) as (Hi & Hk & Kc & _ & _ & Hg).
  rewrite qsum_vals_cget by (rewrite Hk; apply ssorted_NoDup, ssorted_usort).
  rewrite Hk.
  rewrite (map_ext (cget (fcnt c)) (fun j => inject_Z (mult j))).
  2:{ intro j. rewrite <- Hg. unfold get_count. rewrite Kc. reflexivity. }
  rewrite qsum_inject. f_equal. unfold mult.
  rewrite (zsum_fibres (fun x => x mod nb)) by (apply ssorted_NoDup, ssorted_usort).
  f_equal. apply length_filter_true.
  intros x Hx. apply zmem_In. unfold folded_idx. apply In_usort, in_map_iff. exists x. split; [reflexivity | apply In_usort; exact Hx].
Qed.
End Views.

(* ---- the two generators of the fingerprinter ------------------------------------------------------------------ *)
Definition query_ids (o : opts) (st : state) (req : option Z) (mask : list Z) : list Z :=
  map (fun s => unsigned32 (s_ident s)) (shells_query o st req mask).

Lemma fingerprint_query_views o bits st req mask :
  fingerprint_query o false bits st req mask
    = bit_view (query_ids o st req mask) fprinter_bits (snd (resolve_level o st req)) bits /\
  fingerprint_query o true bits st req mask
    = count_view (query_ids o st req mask) fprinter_bits (snd (resolve_level o st req)) bits.
Proof. split; reflexivity. Qed.

(* number of answered shells whose unsigned identifier folds to position j *)
Definition shells_at_position (o : opts) (st : state) (req : option Z) (mask : list Z) (bits j : Z) : Z :=
  Z.of_nat (length (filter (fun s => unsigned32 (s_ident s) mod bits =? j) (shells_query o st req mask))).

Theorem count_bit_same_acceptance o bits st req mask :
  match fingerprint_query o false bits st req mask, fingerprint_query o true bits st req mask with
  | Ok b, Ok c => fidx b = fidx c /\ fbits b = fbits c /\ flevel b = flevel c /\ fname b = fname c /\
                  fkind b = KBit /\ fkind c = KCount
  | Raises e, Raises e' => e = e'
  | _, _ => False
  end.
Proof. destruct (fingerprint_query_views o bits st req mask) as [-> ->]. apply views_same_acceptance. Qed.

Theorem count_is_multiplicity o bits st req mask c :
  fingerprint_query o true bits st req mask = Ok c ->
  forall j, get_count c j = inject_Z (shells_at_position o st req mask bits j).
Proof.
  destruct (fingerprint_query_views o bits st req mask) as [_ ->]. intros H j.
  destruct (count_view_ok _ _ _ _ c H) as (_ & _ & _ & _ & _ & Hg). rewrite Hg. f_equal.
  unfold mult, shells_at_position, query_ids. rewrite length_filter_map. reflexivity.
Qed.

Theorem count_support_eq_bits o bits st req mask b c :
  fingerprint_query o false bits st req mask = Ok b ->
  fingerprint_query o true bits st req mask = Ok c ->
  fidx c = fidx b /\ ckeys (fcnt c) = fidx b /\
  forall j, ~ (get_count c j == 0)%Q <-> In j (fidx b).
Proof.
  destruct (fingerprint_query_views o bits st req mask) as [-> ->]. intros Hb Hc.
  destruct (count_view_ok _ _ _ _ c Hc) as (Hi & Hk & _ & _ & _ & Hg).
  destruct (bit_view_ok _ _ _ _ b Hb) as (Hib & _).
  rewrite Hi, Hk, Hib. split; [reflexivity|]. split; [reflexivity|].
  intro j. rewrite Hg, inject_Z_zero_iff, <- mult_pos_iff.
  pose proof (mult_nonneg (query_ids o st req mask) bits j). lia.
Qed.

Theorem count_total o bits st req mask c :
  fingerprint_query o true bits st req mask = Ok c ->
  qsum (map snd (fcnt c)) = inject_Z (Z.of_nat (length (shells_query o st req mask))).
Proof.
  destruct (fingerprint_query_views o bits st req mask) as [_ ->]. intro H.
  rewrite (count_view_total _ _ _ _ c H). unfold query_ids. rewrite map_length. reflexivity.
Qed.

(* every count is a positive integer on the support, zero elsewhere *)
Corollary count_positive_on_support o bits st req mask c :
  fingerprint_query o true bits st req mask = Ok c ->
  forall j, In j (fidx c) <-> 0 < shells_at_position o st req mask bits j.
Proof.
  destruct (fingerprint_query_views o bits st req mask) as [_ ->]. intros H j.
  destruct (count_view_ok _ _ _ _ c H) as (Hi & _). rewrite Hi, <- mult_pos_iff.
  unfold mult, shells_at_position, query_ids. rewrite length_filter_map. reflexivity.
Qed.
