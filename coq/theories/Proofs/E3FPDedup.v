(* Proofs about the list machinery of the E3FP iteration (model M1, Model/E3FP.v):
   `sort_by` sorts (for a total preorder) and permutes; `dedup` = the duplicate-substructure filter, characterised
   exactly; `union_shells` extends its first argument at the tail; the atom mask is a filter on substructures.
   Used by Properties/C12.v and Properties/C02.v.  No scalar of the ring dictionary is inspected here. *)
From Coq Require Import ZArith List Bool Lia Sorted Permutation.
From E3FP Require Import Base.Prelude Base.ZSet Model.Geometry Model.Stereo Model.Fprint Model.E3FP.
Import ListNotations.
Open Scope Z_scope.

(* ---------------------------------------------------------------------------------------------- *)
(* sort_by: insertion sort                                                                          *)
Section SortBy.
Variable A : Type.
Variable leb : A -> A -> bool.
Definition le_of (x y : A) : Prop := leb x y = true.

Lemma insert_by_perm x l : Permutation (insert_by leb x l) (x :: l).
Proof.
  induction l as [|y t IH]; simpl.
  - reflexivity.
  - destruct (leb x y).
    + reflexivity.
    + eapply perm_trans. apply perm_skip. exact IH. apply perm_swap.
Qed.

Lemma sort_by_perm l : Permutation (sort_by leb l) l.
Proof.
  induction l as [|x t IH]; unfold sort_by in *; simpl.
  - reflexivity.
  - eapply perm_trans. apply insert_by_perm. apply perm_skip. exact IH.
Qed.

Lemma sort_by_In x l : In x (sort_by leb l) <-> In x l.
Proof.
  split; apply Permutation_in; [|apply Permutation_sym]; apply sort_by_perm.
Qed.

Lemma sort_by_length l : length (sort_by leb l) = length l.
Proof. apply Permutation_length, sort_by_perm. Qed.

Hypothesis leb_total : forall x y, leb x y = true \/ leb y x = true.
Hypothesis leb_trans : forall x y z, leb x y = true -> leb y z = true -> leb x z = true.

Lemma insert_by_sorted x l : StronglySorted le_of l -> StronglySorted le_of (insert_by leb x l).
Proof.
  induction l as [|y t IH]; simpl; intro H.
  - constructor; constructor.
  - inversion H as [|? ? Ht Hy]; subst. destruct (leb x y) eqn:E.
    + constructor. exact H. constructor. exact E.
      eapply Forall_impl; [|exact Hy]. intros z Hz. unfold le_of in *. eapply leb_trans; eauto.
    + constructor. apply IH; exact Ht.
      apply Forall_forall. intros z Hz.
      apply (Permutation_in _ (insert_by_perm x t)) in Hz. destruct Hz as [Hz|Hz].
      * subst z. unfold le_of. destruct (leb_total x y) as [T|T]; congruence.
      * rewrite Forall_forall in Hy. apply Hy; exact Hz.
Qed.

Lemma sort_by_sorted l : StronglySorted le_of (sort_by leb l).
Proof.
  induction l as [|x t IH]; unfold sort_by in *; simpl.
  - constructor.
  - apply insert_by_sorted; exact IH.
Qed.

Lemma StronglySorted_app_r (R : A -> A -> Prop) l1 l2 : StronglySorted R (l1 ++ l2) -> StronglySorted R l2.
Proof.
  induction l1 as [|x t IH]; simpl; intro H. exact H. inversion H; subst. apply IH; assumption.
Qed.
End SortBy.
Arguments le_of {A} leb x y.

(* the order used by Fingerprinter._shell_to_tuple: (identifier, centre atom) *)
Definition shell_key (s : shell) : Z * Z := (s_ident s, s_center s).
Definition shell_leb (x y : shell) : bool := zpair_leb (shell_key x) (shell_key y).

Lemma zpair_leb_total a b : zpair_leb a b = true \/ zpair_leb b a = true.
Proof.
  unfold zpair_leb. destruct a as [a1 a2], b as [b1 b2]; simpl.
  destruct (a1 <? b1) eqn:E1, (b1 <? a1) eqn:E2, (a1 =? b1) eqn:E3, (b1 =? a1) eqn:E4,
           (a2 <=? b2) eqn:E5, (b2 <=? a2) eqn:E6; simpl; auto; lia.
Qed.

Lemma zpair_leb_trans a b c : zpair_leb a b = true -> zpair_leb b c = true -> zpair_leb a c = true.
Proof.
  unfold zpair_leb. destruct a as [a1 a2], b as [b1 b2], c as [c1 c2]; simpl.
  destruct (a1 <? b1) eqn:E1, (b1 <? c1) eqn:E2, (a1 =? b1) eqn:E3, (b1 =? c1) eqn:E4,
           (a2 <=? b2) eqn:E5, (b2 <=? c2) eqn:E6, (a1 <? c1) eqn:E7, (a1 =? c1) eqn:E8, (a2 <=? c2) eqn:E9;
    simpl; auto; lia.
Qed.

Lemma zpair_leb_antisym a b : zpair_leb a b = true -> zpair_leb b a = true -> a = b.
Proof.
  unfold zpair_leb. destruct a as [a1 a2], b as [b1 b2]; simpl. intros H1 H2.
  assert (a1 = b1 /\ a2 = b2) as [-> ->]; [|reflexivity].
  destruct (a1 <? b1) eqn:E1, (b1 <? a1) eqn:E2, (a1 =? b1) eqn:E3, (b1 =? a1) eqn:E4,
           (a2 <=? b2) eqn:E5, (b2 <=? a2) eqn:E6; simpl in *; try discriminate; lia.
Qed.

Lemma shell_leb_total x y : shell_leb x y = true \/ shell_leb y x = true.
Proof. apply zpair_leb_total. Qed.
Lemma shell_leb_trans x y z : shell_leb x y = true -> shell_leb y z = true -> shell_leb x z = true.
Proof. apply zpair_leb_trans. Qed.

(* ---------------------------------------------------------------------------------------------- *)
(* dedup                                                                                            *)

Lemma zlist_eqb_eq a b : zlist_eqb a b = true <-> a = b.
Proof. apply list_eqb_Zeqb_eq. Qed.

Lemma zlist_eqb_refl a : zlist_eqb a a = true.
Proof. apply zlist_eqb_eq; reflexivity. Qed.

Lemma mem_sub_In s past : mem_sub s past = true <-> In s past.
Proof.
  unfold mem_sub. rewrite existsb_exists. split.
  - intros [x [Hx E]]. apply zlist_eqb_eq in E. subst; exact Hx.
  - intro H. exists s. split. exact H. apply zlist_eqb_refl.
Qed.

Lemma mem_sub_false s past : mem_sub s past = false <-> ~ In s past.
Proof. rewrite <- mem_sub_In. destruct (mem_sub s past); split; congruence. Qed.

(* `filter_hist p pre l`: keep the elements x of l for which `p (everything before x) x` holds *)
Fixpoint filter_hist {A} (p : list A -> A -> bool) (pre l : list A) : list A :=
  match l with
  | [] => []
  | x :: t => (if p pre x then [x] else []) ++ filter_hist p (pre ++ [x]) t
  end.

(* the substructure of s is in `past` or is the substructure of a candidate before s *)
Definition sub_seen (past : list (list Z)) (pre : list shell) (s : shell) : bool :=
  mem_sub (s_sub s) past || existsb (fun x => zlist_eqb (s_sub s) (s_sub x)) pre.

Definition dedup_ref (past : list (list Z)) (cands : list shell) : list shell :=
  filter_hist (fun pre s => negb (sub_seen past pre s)) [] cands.

Lemma filter_hist_In {A} (p : list A -> A -> bool) s : forall l pre,
  In s (filter_hist p pre l) <-> exists l1 l2, l = l1 ++ s :: l2 /\ p (pre ++ l1) s = true.
Proof.
  induction l as [|x t IH]; intro pre; simpl.
  - split. intros []. intros [l1 [l2 [E _]]]. destruct l1; discriminate.
  - rewrite in_app_iff, IH. split.
    + intros [H|[l1 [l2 [E P]]]].
      * destruct (p pre x) eqn:Px; simpl in H; [|contradiction]. destruct H as [H|[]]. subst x.
        exists [], t. rewrite app_nil_r. auto.
      * exists (x :: l1), l2. subst t. rewrite <- app_assoc in P. auto.
    + intros [l1 [l2 [E P]]]. destruct l1 as [|y l1]; simpl in E; inversion E; subst.
      * left. rewrite app_nil_r in P. rewrite P. left; reflexivity.
      * right. exists l1, l2. rewrite <- app_assoc. auto.
Qed.

Lemma filter_hist_sublist {A} (p : list A -> A -> bool) : forall l pre s, In s (filter_hist p pre l) -> In s l.
Proof.
  intros l pre s H. apply filter_hist_In in H. destruct H as [l1 [l2 [E _]]]. subst. apply in_or_app. right; left; reflexivity.
Qed.

Lemma dedup_fst_gen : forall cands pre past0 P,
  (forall s, mem_sub s P = mem_sub s past0 || existsb (fun x => zlist_eqb s (s_sub x)) pre) ->
  fst (dedup cands P) = filter_hist (fun pre s => negb (sub_seen past0 pre s)) pre cands.
Proof.
  induction cands as [|a t IH]; intros pre past0 P H; simpl.
  - reflexivity.
  - unfold sub_seen at 1. rewrite <- H. destruct (mem_sub (s_sub a) P) eqn:E; simpl.
    + apply IH. intro s. rewrite existsb_app. simpl. rewrite orb_false_r, orb_assoc, <- H.
      destruct (zlist_eqb s (s_sub a)) eqn:E2.
      * apply zlist_eqb_eq in E2. subst s. rewrite E. reflexivity.
      * rewrite orb_false_r. reflexivity.
    + specialize (IH (pre ++ [a]) past0 (s_sub a :: P)).
      destruct (dedup t (s_sub a :: P)) as [acc p] eqn:E3. simpl in *. f_equal. apply IH.
      intro s. rewrite existsb_app. simpl. rewrite orb_false_r, orb_assoc, <- H.
      unfold mem_sub. simpl. apply orb_comm.
Qed.

Lemma dedup_fst cands past : fst (dedup cands past) = dedup_ref past cands.
Proof. apply dedup_fst_gen. intro s. simpl. rewrite orb_false_r. reflexivity. Qed.

Lemma dedup_snd : forall cands past, snd (dedup cands past) = rev (map s_sub (fst (dedup cands past))) ++ past.
Proof.
  induction cands as [|a t IH]; intro past; simpl.
  - reflexivity.
  - destruct (mem_sub (s_sub a) past). apply IH.
    specialize (IH (s_sub a :: past)). destruct (dedup t (s_sub a :: past)) as [acc p]. simpl in *.
    rewrite IH, <- app_assoc. reflexivity.
Qed.

(* D.dedup_spec: the accepted list is exactly the sub-list of the candidates whose substructure is neither in
   `past` nor the substructure of an earlier candidate (equivalently, of an earlier *accepted* candidate: the first
   candidate carrying an unseen substructure is always accepted, see dedup_first_accepted), and the new `past` is
   the old one with the accepted substructures pushed in front (last accepted first). *)
Theorem dedup_spec : forall cands past acc past',
  dedup cands past = (acc, past') ->
  acc = dedup_ref past cands /\ past' = rev (map s_sub acc) ++ past.
Proof.
  intros cands past acc past' H. split.
  - rewrite <- dedup_fst, H. reflexivity.
  - pose proof (dedup_snd cands past) as S. rewrite H in S. exact S.
Qed.

(* membership form: s is accepted iff it occurs at a position of `cands` before which no candidate has its
   substructure, and its substructure is not in `past` *)
Theorem dedup_In : forall cands past acc past' s,
  dedup cands past = (acc, past') ->
  (In s acc <-> exists l1 l2, cands = l1 ++ s :: l2 /\ ~ In (s_sub s) past /\ forall x, In x l1 -> s_sub x <> s_sub s).
Proof.
  intros cands past acc past' s H. apply dedup_spec in H. destruct H as [-> _].
  unfold dedup_ref. rewrite filter_hist_In. simpl.
  split; intros [l1 [l2 [E P]]]; exists l1, l2; (split; [exact E|]).
  - apply negb_true_iff in P. unfold sub_seen in P. apply orb_false_iff in P. destruct P as [P1 P2].
    split. apply mem_sub_false; exact P1.
    intros x Hx Ex. assert (existsb (fun x => zlist_eqb (s_sub s) (s_sub x)) l1 = true); [|congruence].
    apply existsb_exists. exists x. split. exact Hx. apply zlist_eqb_eq. congruence.
  - destruct P as [P1 P2]. apply negb_true_iff. unfold sub_seen. apply orb_false_iff. split.
    apply mem_sub_false; exact P1.
    destruct (existsb _ l1) eqn:Ex; [|reflexivity]. apply existsb_exists in Ex. destruct Ex as [x [Hx Ex]].
    apply zlist_eqb_eq in Ex. exfalso. apply (P2 x Hx). congruence.
Qed.

Lemma dedup_sublist cands past acc past' s : dedup cands past = (acc, past') -> In s acc -> In s cands.
Proof.
  intros H Hs. apply (dedup_In _ _ _ _ s H) in Hs. destruct Hs as [l1 [l2 [E _]]]. subst.
  apply in_or_app. right; left; reflexivity.
Qed.

(* D.accepted_substructs_distinct *)
Theorem accepted_substructs_distinct : forall cands past acc past',
  dedup cands past = (acc, past') ->
  NoDup (map s_sub acc) /\ forall s, In s acc -> ~ In (s_sub s) past.
Proof.
  induction cands as [|a t IH]; intros past acc past' H; simpl in H.
  - inversion H; subst. split. constructor. intros s [].
  - destruct (mem_sub (s_sub a) past) eqn:E.
    + eapply IH; eauto.
    + destruct (dedup t (s_sub a :: past)) as [acc1 p1] eqn:E1. inversion H; subst. clear H.
      destruct (IH _ _ _ E1) as [N D]. split.
      * simpl. constructor; [|exact N]. intro I. apply in_map_iff in I. destruct I as [s [Es Hs]].
        apply (D s Hs). left. symmetry; exact Es.
      * intros s [->|Hs]. apply mem_sub_false; exact E. intro I. apply (D s Hs). right; exact I.
Qed.

(* every candidate's substructure is in the new `past`; `past` only grows *)
Lemma dedup_covers : forall cands past acc past',
  dedup cands past = (acc, past') ->
  (forall x, In x cands -> In (s_sub x) past') /\ (forall s, In s past -> In s past').
Proof.
  induction cands as [|a t IH]; intros past acc past' H; simpl in H.
  - inversion H; subst. split. intros x []. auto.
  - destruct (mem_sub (s_sub a) past) eqn:E.
    + destruct (IH _ _ _ H) as [I1 I2]. split; [|exact I2].
      intros x [->|Hx]. apply I2. apply mem_sub_In; exact E. apply I1; exact Hx.
    + destruct (dedup t (s_sub a :: past)) as [acc1 p1] eqn:E1. inversion H; subst. clear H.
      destruct (IH _ _ _ E1) as [I1 I2]. split.
      * intros x [->|Hx]. apply I2; left; reflexivity. apply I1; exact Hx.
      * intros s Hs. apply I2; right; exact Hs.
Qed.

(* the first candidate carrying an unseen substructure is accepted: each unseen substructure is represented *)
Lemma dedup_first_accepted : forall cands past acc past' x,
  dedup cands past = (acc, past') -> In x cands -> ~ In (s_sub x) past ->
  exists s, In s acc /\ s_sub s = s_sub x.
Proof.
  intros cands past acc past' x H Hx Np.
  destruct (dedup_covers _ _ _ _ H) as [I1 _]. specialize (I1 x Hx).
  destruct (dedup_spec _ _ _ _ H) as [_ ->]. apply in_app_or in I1. destruct I1 as [I|I]; [|contradiction].
  apply in_rev in I. apply in_map_iff in I. destruct I as [s [Es Hs]]. exists s. auto.
Qed.

(* D.dedup_keeps_min ("duplicate substructures are dropped in identifier order"): over candidates sorted by
   (identifier, centre), of all candidates sharing a substructure that is not in `past` exactly one is accepted,
   and it is a least one in the (identifier, centre) order. *)
Theorem dedup_keeps_min : forall l past acc past',
  dedup (sort_by shell_leb l) past = (acc, past') ->
  (forall s x, In s acc -> In x l -> s_sub x = s_sub s -> shell_leb s x = true) /\
  (forall x, In x l -> ~ In (s_sub x) past -> exists s, In s acc /\ s_sub s = s_sub x) /\
  (forall s s', In s acc -> In s' acc -> s_sub s = s_sub s' -> s = s') /\
  NoDup (map s_sub acc).
Proof.
  intros l past acc past' H.
  assert (ND : NoDup (map s_sub acc)) by (eapply accepted_substructs_distinct; eauto).
  split; [|split; [|split]]; [| | |exact ND].
  - intros s x Hs Hx E. apply (dedup_In _ _ _ _ s H) in Hs. destruct Hs as [l1 [l2 [Ec [_ P]]]].
    pose proof (sort_by_sorted _ shell_leb shell_leb_total shell_leb_trans l) as S. rewrite Ec in S.
    apply StronglySorted_app_r in S. inversion S as [|? ? _ F]; subst.
    apply (sort_by_In _ shell_leb) in Hx. rewrite Ec in Hx. apply in_app_or in Hx. destruct Hx as [Hx|[Hx|Hx]].
    + exfalso. apply (P x Hx E).
    + subst x. destruct (shell_leb_total s s); assumption.
    + rewrite Forall_forall in F. apply F; exact Hx.
  - intros x Hx Np. eapply dedup_first_accepted; eauto. apply sort_by_In; exact Hx.
  - intros s s' Hs Hs' E. clear H. induction acc as [|a t IH]; simpl in *. contradiction.
    inversion ND as [|? ? Na Nt]; subst. destruct Hs as [->|Hs], Hs' as [->|Hs'].
    + reflexivity.
    + exfalso. apply Na. rewrite E. apply in_map; exact Hs'.
    + exfalso. apply Na. rewrite <- E. apply in_map; exact Hs.
    + apply IH; assumption.
Qed.

(* ---------------------------------------------------------------------------------------------- *)
(* union_shells                                                                                     *)

(* level_shells[k] = level_shells[k-1] followed by those accepted shells that have no Shell.__eq__-equal
   (same centre, same member-set class) predecessor *)
Lemma union_shells_prefix : forall new old,
  exists ext, union_shells old new = old ++ ext /\ incl ext new.
Proof.
  induction new as [|s t IH]; intro old; simpl.
  - exists []. rewrite app_nil_r. split. reflexivity. intros x [].
  - destruct (existsb (same_shell s) old).
    + destruct (IH old) as [ext [E I]]. exists ext. split. exact E. intros x Hx; right; apply I; exact Hx.
    + destruct (IH (old ++ [s])) as [ext [E I]]. exists (s :: ext). split.
      * rewrite E, <- app_assoc. reflexivity.
      * intros x [->|Hx]. left; reflexivity. right; apply I; exact Hx.
Qed.

Lemma union_shells_length old new : (length old <= length (union_shells old new))%nat.
Proof. destruct (union_shells_prefix new old) as [ext [E _]]. rewrite E, app_length. lia. Qed.

Lemma union_shells_grows old new : length (union_shells old new) <> length old -> new <> [].
Proof. intros H E. subst new. simpl in H. congruence. Qed.

(* ---------------------------------------------------------------------------------------------- *)
(* atom masks                                                                                       *)

Lemma disjointb_spec a b : disjointb a b = true <-> forall x, In x a -> ~ In x b.
Proof.
  unfold disjointb. rewrite forallb_forall. split; intros H x Hx; specialize (H x Hx).
  - apply negb_true_iff in H. apply zmem_false; exact H.
  - apply negb_true_iff. apply zmem_false; exact H.
Qed.

Lemma disjointb_nil a : disjointb a [] = true.
Proof. apply disjointb_spec. intros x _ []. Qed.

Lemma filter_all {A} (f : A -> bool) l : (forall x, f x = true) -> filter f l = l.
Proof. intro H. induction l as [|x t IH]; simpl. reflexivity. rewrite H, IH. reflexivity. Qed.

Lemma filter_filter_same {A} (f g : A -> bool) l : (forall x, g x = true) -> filter f (filter g l) = filter f l.
Proof. intro H. rewrite (filter_all g l H). reflexivity. Qed.

(* C02.mask_exact: masking removes exactly the shells whose substructure touches the mask *)
Theorem mask_exact : forall o st req mask,
  shells_query o st req mask = filter (fun s => disjointb (s_sub s) mask) (shells_query o st req []).
Proof.
  intros. unfold shells_query. rewrite filter_filter_same. reflexivity. intro x. apply disjointb_nil.
Qed.

Theorem mask_exact_In : forall o st req mask s,
  In s (shells_query o st req mask) <->
  In s (shells_query o st req []) /\ forall x, In x (s_sub s) -> ~ In x mask.
Proof.
  intros. rewrite mask_exact, filter_In, disjointb_spec. reflexivity.
Qed.
