(* Structure of the E3FP iteration (model M1, Model/E3FP.v): the level cap is read only by the first test of
   `step`; a run with cap k is a prefix of a run with cap L >= k (or -1); levels nest; queries truncate
   consistently; level -1 is the limit.  For every ring dictionary, scene, option setting and constants;
   unbounded in the number of atoms and levels.  No scalar is inspected: `near`/`codes` stay opaque. *)
From Coq Require Import ZArith List Bool Lia.
From E3FP Require Import Base.Prelude Base.ZSet Base.Murmur3 Model.Geometry Model.Stereo Model.Fprint Model.E3FP
  Gen.Constants Proofs.E3FPDedup.
Import ListNotations.
Open Scope Z_scope.

(* the same options with another level cap *)
Definition o_with_level (o : opts) (L : Z) : opts :=
  mkopts L (o_mnum o) (o_mden o) (o_stereo o) (o_remdup o) (o_incl o) (o_rdkit o) (o_exfloat o).

Lemma o_with_level_id o : o_with_level o (o_level o) = o.
Proof. destruct o; reflexivity. Qed.

Lemma o_with_level_twice o L L' : o_with_level (o_with_level o L) L' = o_with_level o L'.
Proof. reflexivity. Qed.

(* what get_fingerprint_at_level builds from the resolved label and the selected shells *)
Definition fp_of_shells (counts : bool) (bits : Z) (label : option Z) (shells : list shell) : result fp :=
  let ids := map (fun s => unsigned32 (s_ident s)) shells in
  rbind (if counts then mk_count_from_indices KCount ids fprinter_bits label None
         else mk_bit ids fprinter_bits label None)
        (fun f => fp_fold f bits 0).

Lemma fingerprint_query_factor o counts bits st req mask :
  fingerprint_query o counts bits st req mask =
  fp_of_shells counts bits (snd (resolve_level o st req)) (shells_query o st req mask).
Proof. reflexivity. Qed.

(* ---------------------------------------------------------------------------------------------- *)
(* resolve_level                                                                                    *)

Lemma resolve_in_range o st j : 0 <= j <= st_k st -> resolve_level o st (Some j) = (j, Some j).
Proof.
  intro H. unfold resolve_level.
  destruct (j =? -1) eqn:E1; [lia|]. destruct (0 <=? j) eqn:E2; [|lia]. destruct (j <=? st_k st) eqn:E3; [|lia].
  reflexivity.
Qed.

Lemma resolve_beyond o st j : j <> -1 -> ~ (0 <= j <= st_k st) -> resolve_level o st (Some j) = (st_k st, Some j).
Proof.
  intros H1 H2. unfold resolve_level.
  destruct (j =? -1) eqn:E1; [lia|]. destruct (0 <=? j) eqn:E2, (j <=? st_k st) eqn:E3; simpl; try reflexivity. lia.
Qed.

Lemma resolve_default o st req : req = None \/ req = Some (-1) -> resolve_level o st req = (st_k st, req).
Proof. intros [->| ->]; reflexivity. Qed.

Lemma resolve_fst_indep o o' st req : fst (resolve_level o st req) = fst (resolve_level o' st req).
Proof. reflexivity. Qed.

Lemma shells_query_indep o o' st req mask : shells_query o st req mask = shells_query o' st req mask.
Proof. reflexivity. Qed.

(* B.label_is_requested.  The label component of `resolve_level` is the request itself, literally: `Some l` for an
   explicit level (generated or not), `Some (-1)` for -1 and `None` for None - the implementation hands the caller's
   `level` argument unchanged to the fingerprint constructor; only the level actually read is resolved. *)
Theorem label_spec : forall o st req, snd (resolve_level o st req) = req.
Proof.
  intros o st [l|]; unfold resolve_level; [|reflexivity].
  destruct ((l =? -1) || negb ((0 <=? l) && (l <=? st_k st))); reflexivity.
Qed.

Lemma fp_fold_level a nb m r : fp_fold a nb m = Ok r -> flevel r = flevel a.
Proof.
  unfold fp_fold. destruct (fold_check a nb m); [discriminate|].
  destruct (fkind a); intro H; inversion H; reflexivity.
Qed.

Lemma fp_of_shells_level counts bits label shells r :
  fp_of_shells counts bits label shells = Ok r -> flevel r = label.
Proof.
  unfold fp_of_shells. destruct counts.
  - unfold mk_count_from_indices. destruct (existsb _ _); simpl; [discriminate|].
    intro H. apply fp_fold_level in H. exact H.
  - unfold mk_bit. destruct (existsb _ _); simpl; [discriminate|].
    intro H. apply fp_fold_level in H. exact H.
Qed.

Theorem label_is_requested : forall o counts bits st req mask r,
  fingerprint_query o counts bits st req mask = Ok r -> flevel r = req.
Proof.
  intros o counts bits st req mask r H. rewrite fingerprint_query_factor in H.
  apply fp_of_shells_level in H. rewrite H. apply label_spec.
Qed.

(* ---------------------------------------------------------------------------------------------- *)
Section Iter.
Variable D : ringdict.
Variable C : sconsts.
Variable sc : scene D.

(* the step without a level cap *)
Definition ustep (o : opts) (st : state) : outcome := step D C (o_with_level o (-1)) sc st.

(* A. `o_level` is read only by the first test of `step`: everything else is blind to it *)
Lemma near_owl o L : near D (o_with_level o L) sc = near D o sc.
Proof. reflexivity. Qed.
Lemma nbrs_owl o L : nbrs D (o_with_level o L) sc = nbrs D o sc.
Proof. reflexivity. Qed.
Lemma ident_next_owl o L : ident_next D C (o_with_level o L) sc = ident_next D C o sc.
Proof. unfold ident_next. cbn [o_stereo o_with_level]. reflexivity. Qed.
Lemma next_level_owl o L k levels : next_level D C (o_with_level o L) sc k levels = next_level D C o sc k levels.
Proof. unfold next_level. rewrite nbrs_owl, ident_next_owl. reflexivity. Qed.

Lemma step_cap o L st :
  step D C (o_with_level o L) sc st =
  if negb (L =? -1) && (L <=? st_k st) then Stop st else ustep o st.
Proof.
  unfold ustep, step. destruct (st_levels st) as [|cur lr].
  - destruct (negb (L =? -1) && (L <=? st_k st)); reflexivity.
  - destruct (st_shells st) as [|cs sr].
    + destruct (negb (L =? -1) && (L <=? st_k st)); reflexivity.
    + cbn [o_level o_remdup o_with_level]. rewrite !next_level_owl.
      change (negb (-1 =? -1) && (-1 <=? st_k st)) with false. cbv iota.
      destruct (negb (L =? -1) && (L <=? st_k st)); reflexivity.
Qed.

Lemma step_general o st :
  step D C o sc st = if negb (o_level o =? -1) && (o_level o <=? st_k st) then Stop st else ustep o st.
Proof. rewrite <- (o_with_level_id o) at 1. apply step_cap. Qed.

Lemma step_stop_same o st s : step D C o sc st = Stop s -> s = st.
Proof.
  unfold step. destruct (st_levels st) as [|cur lr]; [intro H; inversion H; reflexivity|].
  destruct (st_shells st) as [|cs sr]; [intro H; inversion H; reflexivity|].
  destruct (negb (o_level o =? -1) && (o_level o <=? st_k st)); [intro H; inversion H; reflexivity|].
  destruct (o_remdup o && all_full D sc cur); [intro H; inversion H; reflexivity|].
  match goal with |- (let '(_, _) := ?X in _) = _ -> _ => destruct X as [acc past'] end.
  destruct (Nat.eqb _ _); intro H; inversion H; reflexivity.
Qed.

Definition cands_of (o : opts) (k' : Z) (levels : list lvl) : list shell :=
  sort_by shell_leb (map (shell_of (next_level D C o sc k' levels)) (sc_atoms D sc)).

(* everything a continuing step does *)
Lemma step_continue_inv o st s : step D C o sc st = Continue s ->
  exists cur lr cs sr acc past',
    st_levels st = cur :: lr /\ st_shells st = cs :: sr /\
    (o_remdup o && all_full D sc cur = false) /\
    (if o_remdup o then dedup (cands_of o (st_k st + 1) (st_levels st)) (st_past st)
     else (cands_of o (st_k st + 1) (st_levels st), st_past st)) = (acc, past') /\
    length (union_shells cs acc) <> length cs /\
    s = mkstate (st_k st + 1) (next_level D C o sc (st_k st + 1) (st_levels st) :: st_levels st) past'
                (union_shells cs acc :: st_shells st).
Proof.
  unfold step. destruct (st_levels st) as [|cur lr] eqn:EL; [discriminate|].
  destruct (st_shells st) as [|cs sr] eqn:ES; [discriminate|].
  destruct (negb (o_level o =? -1) && (o_level o <=? st_k st)); [discriminate|].
  destruct (o_remdup o && all_full D sc cur) eqn:EF; [discriminate|].
  change (sort_by (fun x y : shell => zpair_leb (s_ident x, s_center x) (s_ident y, s_center y))
            (map (shell_of (next_level D C o sc (st_k st + 1) (cur :: lr))) (sc_atoms D sc)))
    with (cands_of o (st_k st + 1) (cur :: lr)).
  destruct (if o_remdup o then dedup (cands_of o (st_k st + 1) (cur :: lr)) (st_past st)
            else (cands_of o (st_k st + 1) (cur :: lr), st_past st)) as [acc past'] eqn:ED.
  destruct (Nat.eqb (length (union_shells cs acc)) (length cs)) eqn:EN; [discriminate|].
  intro H. apply (f_equal (fun oc => match oc with Continue x => x | Stop x => x end)) in H. cbv beta iota in H.
  rename H into Hs. exists cur, lr, cs, sr, acc, past'.
  split; [reflexivity|]. split; [reflexivity|]. split; [exact EF|]. split; [reflexivity|].
  split; [apply Nat.eqb_neq; exact EN|]. symmetry; exact Hs.
Qed.

Lemma step_continue_k o st s : step D C o sc st = Continue s -> st_k s = st_k st + 1.
Proof. intro H. apply step_continue_inv in H. destruct H as (?&?&?&?&?&?&_&_&_&_&_&->). reflexivity. Qed.

(* ---- the uncapped trajectory ---------------------------------------------------------------- *)
(* at most n continuing steps, staying put once the uncapped step stops *)
Fixpoint usteps (o : opts) (n : nat) (st : state) : state :=
  match n with
  | O => st
  | S m => match ustep o st with Continue s => usteps o m s | Stop _ => st end
  end.

Definition stopped (o : opts) (st : state) : Prop := exists s, ustep o st = Stop s.

Lemma usteps_stopped o n st : stopped o st -> usteps o n st = st.
Proof. intros [s H]. destruct n; simpl. reflexivity. rewrite H. reflexivity. Qed.

Lemma usteps_add o : forall n m st, usteps o (n + m) st = usteps o m (usteps o n st).
Proof.
  induction n as [|n IH]; intros m st; simpl.
  - reflexivity.
  - destruct (ustep o st) as [s|s] eqn:E.
    + apply IH.
    + symmetry. apply usteps_stopped. exists s; exact E.
Qed.

Lemma usteps_k_bounds o : forall n st, st_k st <= st_k (usteps o n st) <= st_k st + Z.of_nat n.
Proof.
  induction n as [|n IH]; intro st; simpl usteps.
  - lia.
  - destruct (ustep o st) as [s|s] eqn:E.
    + apply step_continue_k in E. specialize (IH s). lia.
    + lia.
Qed.

Lemma usteps_k_or_stopped o : forall n st,
  st_k (usteps o n st) = st_k st + Z.of_nat n \/ stopped o (usteps o n st).
Proof.
  induction n as [|n IH]; intro st; simpl usteps.
  - left; lia.
  - destruct (ustep o st) as [s|s] eqn:E.
    + destruct (IH s) as [H|H]. left. apply step_continue_k in E. lia. right; exact H.
    + right. exists s; exact E.
Qed.

Lemma usteps_exact o : forall n st, usteps o n st = usteps o (Z.to_nat (st_k (usteps o n st) - st_k st)) st.
Proof.
  induction n as [|n IH]; intro st; simpl usteps.
  - rewrite Z.sub_diag. reflexivity.
  - destruct (ustep o st) as [s|s] eqn:E.
    + pose proof (usteps_k_bounds o n s) as B. pose proof (step_continue_k _ _ _ E) as K.
      replace (Z.to_nat (st_k (usteps o n s) - st_k st)) with (S (Z.to_nat (st_k (usteps o n s) - st_k s))) by lia.
      simpl usteps. rewrite E. apply IH.
    + rewrite Z.sub_diag. reflexivity.
Qed.

(* older levels never change *)
Lemma shells_at_usteps o : forall n st j, j <= st_k st -> shells_at_true (usteps o n st) j = shells_at_true st j.
Proof.
  induction n as [|n IH]; intros st j Hj; simpl usteps.
  - reflexivity.
  - destruct (ustep o st) as [s|s] eqn:E; [|reflexivity].
    pose proof (step_continue_k _ _ _ E) as K. rewrite IH by lia.
    apply step_continue_inv in E. destruct E as (cur&lr&cs&sr&acc&past'&_&_&_&_&_&->).
    unfold shells_at_true. cbn [st_k st_shells].
    replace (Z.to_nat (st_k st + 1 - j)) with (S (Z.to_nat (st_k st - j))) by lia. reflexivity.
Qed.

(* two points of the trajectory *)
Lemma usteps_compare o st n m :
  (n <= m)%nat \/ stopped o (usteps o m st) ->
  let a := usteps o n st in let b := usteps o m st in
  st_k a = Z.min (st_k st + Z.of_nat n) (st_k b) /\
  (forall j, j <= st_k a -> shells_at_true a j = shells_at_true b j) /\
  (st_k b <= st_k st + Z.of_nat n -> a = b).
Proof.
  intros H a b.
  assert (Hcase : b = usteps o (m - n) a \/ a = b).
  { destruct (Nat.le_gt_cases n m) as [Le|Gt].
    - left. unfold a, b. rewrite <- usteps_add. f_equal. lia.
    - right. destruct H as [H|H]; [lia|]. unfold a, b.
      replace n with (m + (n - m))%nat by lia. rewrite usteps_add. apply usteps_stopped; exact H. }
  pose proof (usteps_k_bounds o n st) as Ba. fold a in Ba.
  destruct Hcase as [Hb|Hab].
  - pose proof (usteps_k_bounds o (m - n) a) as Bb. rewrite <- Hb in Bb.
    destruct (usteps_k_or_stopped o n st) as [K|S]; fold a in K || fold a in S.
    + split; [lia|]. split.
      * intros j Hj. rewrite Hb. symmetry. apply shells_at_usteps; exact Hj.
      * intro Hle. rewrite Hb. rewrite (usteps_exact o (m - n) a). rewrite <- Hb.
        replace (st_k b - st_k a) with 0 by lia. reflexivity.
    + assert (b = a) as -> by (rewrite Hb; apply usteps_stopped; exact S).
      split; [lia|]. split; auto.
  - rewrite <- Hab. split; [lia|]. split; auto.
Qed.

(* ---- iterate in terms of the trajectory ----------------------------------------------------- *)
Lemma iterate_S o fuel st :
  iterate D C o sc (S fuel) st = match step D C o sc st with Stop s => Some s | Continue s => iterate D C o sc fuel s end.
Proof. reflexivity. Qed.

(* a finite cap: whatever the fuel, a result is the trajectory point after (cap - k) bounded steps *)
Lemma iterate_capped_some o L : forall fuel st s,
  L <> -1 -> st_k st <= L ->
  iterate D C (o_with_level o L) sc fuel st = Some s -> s = usteps o (Z.to_nat (L - st_k st)) st.
Proof.
  induction fuel as [|f IH]; intros st s HL Hk H; [discriminate|].
  rewrite iterate_S, step_cap in H.
  destruct (negb (L =? -1) && (L <=? st_k st)) eqn:Cap.
  - inversion H; subst s. replace (L - st_k st) with 0 by lia. reflexivity.
  - assert (Hlt : st_k st < L) by lia.
    replace (Z.to_nat (L - st_k st)) with (S (Z.to_nat (L - (st_k st + 1)))) by lia. simpl usteps.
    destruct (ustep o st) as [s1|s1] eqn:E.
    + pose proof (step_continue_k _ _ _ E) as K. apply IH in H; [|exact HL|lia]. rewrite K in H. exact H.
    + inversion H; subst s1. apply step_stop_same in E. exact E.
Qed.

(* ... and cap - k + 1 units of fuel suffice *)
Lemma iterate_capped o L : forall fuel st,
  L <> -1 -> st_k st <= L -> (Z.to_nat (L - st_k st) < fuel)%nat ->
  iterate D C (o_with_level o L) sc fuel st = Some (usteps o (Z.to_nat (L - st_k st)) st).
Proof.
  induction fuel as [|f IH]; intros st HL Hk Hf; [lia|].
  rewrite iterate_S, step_cap.
  destruct (negb (L =? -1) && (L <=? st_k st)) eqn:Cap.
  - replace (L - st_k st) with 0 by lia. reflexivity.
  - assert (Hlt : st_k st < L) by lia.
    replace (Z.to_nat (L - st_k st)) with (S (Z.to_nat (L - (st_k st + 1)))) by lia. simpl usteps.
    destruct (ustep o st) as [s1|s1] eqn:E.
    + pose proof (step_continue_k _ _ _ E) as K. rewrite <- K. apply IH; lia.
    + apply step_stop_same in E. subst s1. reflexivity.
Qed.

(* no cap: a result is the trajectory point after `fuel` bounded steps, and the step stops there *)
Lemma iterate_uncapped_some o : forall fuel st s,
  iterate D C (o_with_level o (-1)) sc fuel st = Some s -> s = usteps o fuel st /\ stopped o s.
Proof.
  induction fuel as [|f IH]; intros st s H; [discriminate|].
  rewrite iterate_S in H. fold (ustep o st) in H. simpl usteps.
  destruct (ustep o st) as [s1|s1] eqn:E.
  - apply IH; exact H.
  - inversion H; subst s1. pose proof (step_stop_same _ _ _ E) as ->. split. reflexivity. exists st; exact E.
Qed.

(* once the trajectory has stopped after n steps, any cap at or beyond that level (or none) and any fuel > n
   return that state *)
Lemma iterate_reaches o L : forall n fuel st,
  stopped o (usteps o n st) -> (n < fuel)%nat -> L = -1 \/ st_k (usteps o n st) <= L ->
  iterate D C (o_with_level o L) sc fuel st = Some (usteps o n st).
Proof.
  induction n as [|n IH]; intros fuel st S Hf HL; (destruct fuel as [|f]; [lia|]); rewrite iterate_S, step_cap.
  - simpl usteps in *. destruct S as [s E]. rewrite E. pose proof (step_stop_same _ _ _ E) as ->.
    destruct (negb (L =? -1) && (L <=? st_k st)); reflexivity.
  - simpl usteps in *. destruct (ustep o st) as [s1|s1] eqn:E.
    + pose proof (step_continue_k _ _ _ E) as K. pose proof (usteps_k_bounds o n s1) as B.
      destruct (negb (L =? -1) && (L <=? st_k st)) eqn:Cap; [lia|]. apply IH; [exact S|lia|exact HL].
    + pose proof (step_stop_same _ _ _ E) as ->. destruct (negb (L =? -1) && (L <=? st_k st)); reflexivity.
Qed.

(* any result of any run is a point of the uncapped trajectory *)
Lemma iterate_on_trajectory o L fuel st s :
  L = -1 \/ st_k st <= L ->
  iterate D C (o_with_level o L) sc fuel st = Some s ->
  exists n, s = usteps o n st /\ (stopped o s \/ (L <> -1 /\ n = Z.to_nat (L - st_k st))).
Proof.
  intros HL H. destruct (Z.eq_dec L (-1)) as [->|N].
  - apply iterate_uncapped_some in H. destruct H as [-> S]. exists fuel. auto.
  - destruct HL as [HL|HL]; [contradiction|]. apply iterate_capped_some in H; [|exact N|exact HL].
    exists (Z.to_nat (L - st_k st)). auto.
Qed.

(* ---- invariant: lengths, k >= 0, the shell lists form a chain of extensions ------------------ *)
Fixpoint chain (l : list (list shell)) : Prop :=
  match l with
  | new :: t => match t with old :: _ => (exists ext, new = old ++ ext) /\ chain t | [] => True end
  | [] => True
  end.

Definition inv (st : state) : Prop :=
  0 <= st_k st /\
  length (st_shells st) = S (Z.to_nat (st_k st)) /\
  length (st_levels st) = S (Z.to_nat (st_k st)) /\
  chain (st_shells st).

Lemma inv_init : inv (init_state D sc).
Proof. unfold inv, init_state; simpl. repeat split; lia. Qed.

Lemma inv_step o st s : inv st -> step D C o sc st = Continue s -> inv s.
Proof.
  intros (I1&I2&I3&I4) H. apply step_continue_inv in H.
  destruct H as (cur&lr&cs&sr&acc&past'&EL&ES&_&_&_&->). unfold inv. cbn [st_k st_shells st_levels].
  repeat split.
  - lia.
  - simpl length. rewrite I2. lia.
  - simpl length. rewrite I3. lia.
  - rewrite ES in *. simpl. split; [|exact I4].
    destruct (union_shells_prefix acc cs) as [ext [E _]]. exists ext; exact E.
Qed.

Lemma inv_iterate o : forall fuel st s, inv st -> iterate D C o sc fuel st = Some s -> inv s.
Proof.
  induction fuel as [|f IH]; intros st s I H; [discriminate|]. rewrite iterate_S in H.
  destruct (step D C o sc st) as [s1|s1] eqn:E.
  - eapply IH; [|exact H]. eapply inv_step; eauto.
  - inversion H; subst s1. apply step_stop_same in E. subst; exact I.
Qed.

Lemma inv_usteps o : forall n st, inv st -> inv (usteps o n st).
Proof.
  induction n as [|n IH]; intros st I; simpl. exact I.
  destruct (ustep o st) as [s1|s1] eqn:E; [|exact I]. apply IH. eapply inv_step; eauto.
Qed.

Lemma chain_nth : forall l i, chain l -> (S i < length l)%nat -> exists ext, nth i l [] = nth (S i) l [] ++ ext.
Proof.
  induction l as [|x t IH]; intros i Hc Hl; simpl in Hl; [lia|].
  destruct t as [|y t']; simpl in Hl; [lia|]. destruct Hc as [[ext E] Hc].
  destruct i as [|i].
  - exists ext. exact E.
  - change (nth (S i) (x :: y :: t') []) with (nth i (y :: t') []).
    change (nth (S (S i)) (x :: y :: t') []) with (nth (S i) (y :: t') []).
    apply IH. exact Hc. simpl; lia.
Qed.

(* B.levels_nest on the state: level_shells[j+1] = level_shells[j] ++ (newly accepted, not Shell-equal to one kept) *)
Lemma levels_nest_state st j : inv st -> 0 <= j -> j + 1 <= st_k st ->
  exists ext, shells_at_true st (j + 1) = shells_at_true st j ++ ext.
Proof.
  intros (I1&I2&_&I4) H0 H1. unfold shells_at_true.
  replace (Z.to_nat (st_k st - j)) with (S (Z.to_nat (st_k st - (j + 1)))) by lia.
  apply chain_nth. exact I4. rewrite I2. lia.
Qed.

End Iter.

(* ================================================================================================ *)
(* The theorems about runs from the initial state.                                                  *)
Section Runs.
Variable D : ringdict.
Variable C : sconsts.
Variable sc : scene D.
Notation init := (init_state D sc).
Notation iter o L fuel := (iterate D C (o_with_level o L) sc fuel (init_state D sc)).

Lemma init_k : st_k init = 0.
Proof. reflexivity. Qed.

(* A.run_prefix *)
Theorem run_prefix : forall o k L fuelL fuelk stL,
  0 <= k -> (k <= L \/ L = -1) ->
  iter o L fuelL = Some stL ->
  (Z.to_nat k < fuelk)%nat ->
  exists stk, iter o k fuelk = Some stk /\
    st_k stk = Z.min k (st_k stL) /\
    (forall j, j <= st_k stk -> shells_at_true stk j = shells_at_true stL j) /\
    (st_k stL <= k -> stk = stL).
Proof.
  intros o k L fuelL fuelk stL Hk HL HrunL Hf.
  exists (usteps D C sc o (Z.to_nat k) init).
  split. { pose proof (iterate_capped D C sc o k fuelk init) as P. rewrite init_k, Z.sub_0_r in P. apply P; lia. }
  assert (Hx : exists m, stL = usteps D C sc o m init /\ ((Z.to_nat k <= m)%nat \/ stopped D C sc o stL)).
  { destruct (Z.eq_dec L (-1)) as [->|N].
    - apply iterate_uncapped_some in HrunL. destruct HrunL as [E S]. exists fuelL. auto.
    - apply iterate_capped_some in HrunL; [|exact N|rewrite init_k; lia]. rewrite init_k, Z.sub_0_r in HrunL.
      exists (Z.to_nat L). split. exact HrunL. left. lia. }
  destruct Hx as [m [-> Hm]].
  pose proof (usteps_compare D C sc o init (Z.to_nat k) m Hm) as P. cbv zeta in P. rewrite init_k in P.
  rewrite Z2Nat.id in P by lia. simpl in P. exact P.
Qed.

(* B.levels_nest *)
Theorem levels_nest : forall o fuel st j mask,
  iterate D C o sc fuel init = Some st -> 0 <= j -> j + 1 <= st_k st ->
  exists ext, shells_query o st (Some (j + 1)) mask = shells_query o st (Some j) mask ++ ext.
Proof.
  intros o fuel st j mask H H0 H1.
  assert (I : inv st) by (eapply inv_iterate; [apply inv_init|exact H]).
  unfold shells_query. rewrite !resolve_in_range by lia. simpl fst.
  destruct (levels_nest_state st j I H0 H1) as [ext E]. rewrite E, filter_app. eexists; reflexivity.
Qed.

Definition ids_of (l : list shell) : list Z := map (fun s => unsigned32 (s_ident s)) l.

Lemma count_occ_Z_app i a b : count_occ_Z i (a ++ b) = count_occ_Z i a + count_occ_Z i b.
Proof. unfold count_occ_Z. rewrite filter_app, app_length. lia. Qed.

Lemma count_occ_Z_nonneg i a : 0 <= count_occ_Z i a.
Proof. unfold count_occ_Z. lia. Qed.

(* identifiers: set inclusion and multiset inclusion (the multiplicities stored by count fingerprints) *)
Theorem levels_nest_ids : forall o fuel st j mask,
  iterate D C o sc fuel init = Some st -> 0 <= j -> j + 1 <= st_k st ->
  (forall i, In i (ids_of (shells_query o st (Some j) mask)) -> In i (ids_of (shells_query o st (Some (j + 1)) mask))) /\
  (forall i, count_occ_Z i (ids_of (shells_query o st (Some j) mask)) <=
             count_occ_Z i (ids_of (shells_query o st (Some (j + 1)) mask))).
Proof.
  intros o fuel st j mask H H0 H1. destruct (levels_nest o fuel st j mask H H0 H1) as [ext E].
  rewrite E. unfold ids_of. rewrite map_app. split.
  - intros i Hi. apply in_or_app; left; exact Hi.
  - intro i. rewrite count_occ_Z_app. pose proof (count_occ_Z_nonneg i (map (fun s => unsigned32 (s_ident s)) ext)). lia.
Qed.

(* B.truncation *)
Theorem truncation : forall o k L fuelL fuelk stL stk mask,
  0 <= k <= L ->
  iter o L fuelL = Some stL ->
  iter o k fuelk = Some stk ->
  shells_query (o_with_level o L) stL (Some k) mask = shells_query (o_with_level o k) stk (Some k) mask /\
  forall counts bits,
    fingerprint_query (o_with_level o L) counts bits stL (Some k) mask =
    fingerprint_query (o_with_level o k) counts bits stk (Some k) mask.
Proof.
  intros o k L fuelL fuelk stL stk mask Hk HL Hkrun.
  assert (Hs : fst (resolve_level (o_with_level o L) stL (Some k)) = fst (resolve_level (o_with_level o k) stk (Some k)) /\
               shells_at_true stL (fst (resolve_level (o_with_level o L) stL (Some k))) =
               shells_at_true stk (fst (resolve_level (o_with_level o k) stk (Some k)))).
  { (* stk is the trajectory point after k steps, whatever fuelk was *)
    apply iterate_capped_some in Hkrun; [|lia|rewrite init_k; lia].
    destruct (run_prefix o k L fuelL (S (Z.to_nat k)) stL) as (stk'&R&K&P&Q); [lia|left; lia|exact HL|lia|].
    apply iterate_capped_some in R; [|lia|rewrite init_k; lia]. rewrite <- Hkrun in R. subst stk'.
    destruct (Z_le_gt_dec k (st_k stL)) as [Le|Gt].
    - rewrite !resolve_in_range by lia. simpl fst. split. reflexivity. symmetry. apply P. lia.
    - rewrite Q by lia. rewrite !resolve_beyond by lia. simpl fst. split; reflexivity. }
  destruct Hs as [Hf Hs].
  assert (Hq : shells_query (o_with_level o L) stL (Some k) mask = shells_query (o_with_level o k) stk (Some k) mask).
  { unfold shells_query. rewrite Hs. reflexivity. }
  split. exact Hq.
  intros counts bits. rewrite !fingerprint_query_factor, Hq. f_equal.
  rewrite !label_spec. reflexivity.
Qed.

(* B.beyond_convergence: if the uncapped run stops at level c, every run capped at L >= c ends in the same state
   (states do not mention the options), c+1 units of fuel suffice, and requests beyond c resolve to level c *)
Theorem beyond_convergence : forall o fuel sconv L,
  iter o (-1) fuel = Some sconv -> st_k sconv <= L ->
  (forall fuelL stL, iter o L fuelL = Some stL -> stL = sconv) /\
  (forall fuelL, (Z.to_nat (st_k sconv) < fuelL)%nat -> iter o L fuelL = Some sconv) /\
  (forall o' k, st_k sconv < k -> fst (resolve_level o' sconv (Some k)) = st_k sconv) /\
  (forall o' k mask, st_k sconv < k -> shells_query o' sconv (Some k) mask = shells_query o' sconv (Some (st_k sconv)) mask).
Proof.
  intros o fuel sconv L H HL.
  apply iterate_uncapped_some in H. destruct H as [E Hstop].
  assert (I : inv sconv) by (rewrite E; apply inv_usteps, inv_init). destruct I as (I1&_).
  (* canonical step count *)
  pose proof (usteps_exact D C sc o fuel init) as X. rewrite <- E, init_k, Z.sub_0_r in X.
  assert (R : forall fuelL, (Z.to_nat (st_k sconv) < fuelL)%nat -> iter o L fuelL = Some sconv).
  { intros fuelL Hf. rewrite X at 1. apply iterate_reaches.
    - rewrite <- X. exact Hstop.
    - exact Hf.
    - right. rewrite <- X. exact HL. }
  split; [|split; [exact R|split]].
  - intros fuelL stL HrL. apply iterate_capped_some in HrL; [|lia|rewrite init_k; lia].
    specialize (R (S (Z.to_nat (st_k sconv))) ltac:(lia)).
    apply iterate_capped_some in R; [|lia|rewrite init_k; lia]. congruence.
  - intros o' k Hk. rewrite resolve_beyond by lia. reflexivity.
  - intros o' k mask Hk. unfold shells_query. rewrite resolve_beyond by lia. rewrite resolve_in_range by lia. reflexivity.
Qed.

(* B.minus_one_is_limit: the run with level -1 and the run with any L at or beyond the convergence level end in
   the same state; hence every query (any request, any mask, any fold) returns the same shells and the same
   fingerprint, label included (the label is the request). *)
Theorem minus_one_is_limit : forall o fuel sconv L fuelL stL,
  iter o (-1) fuel = Some sconv -> st_k sconv <= L -> iter o L fuelL = Some stL ->
  stL = sconv /\
  (forall req mask, shells_query (o_with_level o L) stL req mask = shells_query (o_with_level o (-1)) sconv req mask) /\
  (forall counts bits req mask,
     fingerprint_query (o_with_level o L) counts bits stL req mask =
     fingerprint_query (o_with_level o (-1)) counts bits sconv req mask).
Proof.
  intros o fuel sconv L fuelL stL H HL HrL.
  destruct (beyond_convergence o fuel sconv L H HL) as (U&_&_&_). specialize (U _ _ HrL). subst stL.
  split. reflexivity. split.
  - intros. apply shells_query_indep.
  - intros counts bits req mask. rewrite !fingerprint_query_factor, !label_spec.
    rewrite (shells_query_indep (o_with_level o L) (o_with_level o (-1))). reflexivity.
Qed.

End Runs.
