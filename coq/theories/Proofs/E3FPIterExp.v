(* Termination of the E3FP iteration (model M1) with duplicate removal over an ARBITRARY ring dictionary, with no
   assumption on the comparison behind `near`: every continuing step records at least one substructure never
   recorded before, substructures are strictly increasing lists over the n retained atoms, so at most 2^n steps
   continue.  (The polynomial bound n^2 - n + 1 of E3FPIterTerm.v needs the neighbour test to be monotone in the
   level.) *)
From Coq Require Import ZArith List Bool Lia Sorted.
From E3FP Require Import Base.Prelude Base.ZSet Base.Murmur3 Model.Geometry Model.Stereo Model.Fprint Model.E3FP
  Gen.Constants Proofs.E3FPDedup Proofs.E3FPIter Proofs.E3FPIterTerm.
Import ListNotations.
Open Scope Z_scope.

Fixpoint sublists (l : list Z) : list (list Z) :=
  match l with
  | [] => [[]]
  | x :: t => map (cons x) (sublists t) ++ sublists t
  end.

Lemma sublists_length l : length (sublists l) = (2 ^ length l)%nat.
Proof.
  induction l as [|x t IH]. reflexivity.
  cbn [sublists length]. rewrite app_length, map_length, IH. cbn [Nat.pow]. lia.
Qed.

Lemma ssorted_in_sublists : forall U s, ssorted U -> ssorted s -> incl s U -> In s (sublists U).
Proof.
  induction U as [|u U' IH]; intros s SU Ss I.
  - destruct s as [|x s']. left; reflexivity. exfalso. apply (I x). left; reflexivity.
  - inversion SU as [|? ? SU' FU]; subst. rewrite Forall_forall in FU.
    cbn [sublists]. apply in_or_app.
    destruct s as [|x s'].
    + right. apply IH. exact SU'. constructor. intros y [].
    + inversion Ss as [|? ? Ss' Fs]; subst. rewrite Forall_forall in Fs.
      destruct (Z.eq_dec x u) as [->|N].
      * left. apply in_map. apply IH. exact SU'. exact Ss'.
        intros y Hy. destruct (I y (or_intror Hy)) as [E|H]. specialize (Fs y Hy). lia. exact H.
      * right. apply IH. exact SU'. exact Ss.
        assert (Hx : In x U') by (destruct (I x (or_introl eq_refl)) as [E|H]; [congruence|exact H]).
        specialize (FU x Hx).
        intros y [<-|Hy]. exact Hx.
        destruct (I y (or_intror Hy)) as [E|H]. specialize (Fs y Hy). lia. exact H.
Qed.

Lemma NoDup_app_intro {A} (a b : list A) : NoDup a -> NoDup b -> (forall x, In x a -> ~ In x b) -> NoDup (a ++ b).
Proof.
  induction a as [|x t IH]; intros Na Nb H; simpl. exact Nb.
  inversion Na; subst. constructor.
  - intro I. apply in_app_or in I. destruct I as [I|I]. contradiction. apply (H x (or_introl eq_refl) I).
  - apply IH; auto. intros y Hy. apply H. right; exact Hy.
Qed.

Section Exp.
Variable D : ringdict.
Variable C : sconsts.
Variable sc : scene D.
Variable o : opts.
Hypothesis remdup_on : o_remdup o = true.
Notation atoms := (sc_atoms D sc).
Notation init_past := (map (fun a => [a]) atoms).

Definition good_sub (x : list Z) : Prop := ssorted x /\ incl x atoms.

Definition einv (st : state) : Prop :=
  levels_wf D C sc o (st_k st) (st_levels st) /\
  exists added, st_past st = added ++ init_past /\ NoDup added /\ forall x, In x added -> good_sub x.

Lemma einv_init : einv (init_state D sc).
Proof. split. constructor. exists []. split. reflexivity. split. constructor. intros x []. Qed.

Lemma added_bound added : NoDup added -> (forall x, In x added -> good_sub x) ->
  (length added <= 2 ^ length atoms)%nat.
Proof.
  intros N G.
  assert (L1 : (length added <= length (sublists (usort atoms)))%nat).
  { apply NoDup_incl_length. exact N. intros x Hx. destruct (G x Hx) as [S I].
    apply ssorted_in_sublists. apply ssorted_usort. exact S. intros y Hy. apply (proj2 (In_usort y atoms)). apply I; exact Hy. }
  rewrite sublists_length in L1.
  assert (L2 : (length (usort atoms) <= length atoms)%nat).
  { apply NoDup_incl_length. apply ssorted_NoDup, ssorted_usort. intros y Hy. apply (proj1 (In_usort y atoms)). exact Hy. }
  pose proof (Nat.pow_le_mono_r 2 _ _ ltac:(lia) L2). lia.
Qed.

Lemma einv_past_bound st : einv st -> (length (st_past st) <= 2 ^ length atoms + length atoms)%nat.
Proof.
  intros [_ [added [E [N G]]]]. rewrite E, app_length, map_length. pose proof (added_bound added N G). lia.
Qed.

Lemma einv_step st s : einv st -> step D C o sc st = Continue s ->
  einv s /\ (length (st_past st) < length (st_past s))%nat.
Proof.
  intros [W [added [E [N G]]]] H. apply step_continue_inv in H.
  destruct H as (cur&lr&cs&sr&acc&past'&EL&ES&_&ED&EN&->). rewrite remdup_on in ED.
  destruct (dedup_spec _ _ _ _ ED) as [_ Ep]. destruct (accepted_substructs_distinct _ _ _ _ ED) as [Nacc Nin].
  cbn [st_k st_levels st_past]. split.
  - split. constructor. exact W.
    exists (rev (map s_sub acc) ++ added). split. rewrite Ep, E, app_assoc. reflexivity. split.
    + apply NoDup_app_intro. apply NoDup_rev; exact Nacc. exact N.
      intros x Hx Ha. apply in_rev in Hx. apply in_map_iff in Hx. destruct Hx as [s0 [<- Hs0]].
      apply (Nin s0 Hs0). rewrite E. apply in_or_app. left; exact Ha.
    + intros x Hx. apply in_app_or in Hx. destruct Hx as [Hx|Hx]; [|apply G; exact Hx].
      apply in_rev in Hx. apply in_map_iff in Hx. destruct Hx as [s0 [<- Hs0]].
      pose proof (dedup_sublist _ _ _ _ s0 ED Hs0) as Hin. unfold cands_of in Hin.
      apply sort_by_In in Hin. apply in_map_iff in Hin. destruct Hin as [a0 [<- I0]].
      assert (W' : levels_wf D C sc o (st_k st + 1) (next_level D C o sc (st_k st + 1) (st_levels st) :: st_levels st))
        by (constructor; exact W).
      destruct (wf_sub_props D C sc o _ _ W' _ _ eq_refl) as (P1&P2&_).
      split. apply P1. intros y Hy. eapply P2. exact Hy.
  - apply union_shells_grows in EN. rewrite Ep, app_length, rev_length, map_length.
    destruct acc; [congruence|]. simpl. lia.
Qed.

Lemma iterate_terminates_exp_from : forall fuel st, einv st ->
  (2 ^ length atoms + length atoms - length (st_past st) < fuel)%nat ->
  exists s, iterate D C o sc fuel st = Some s.
Proof.
  induction fuel as [|f IH]; intros st I Hf. lia.
  rewrite iterate_S. destruct (step D C o sc st) as [s1|s1] eqn:E.
  - destruct (einv_step _ _ I E) as [I1 M]. pose proof (einv_past_bound _ I1). apply IH. exact I1. lia.
  - exists s1; reflexivity.
Qed.

Theorem iterate_terminates_exp : forall fuel, (2 ^ length atoms < fuel)%nat ->
  exists s, iterate D C o sc fuel (init_state D sc) = Some s.
Proof.
  intros fuel Hf. apply iterate_terminates_exp_from. apply einv_init.
  unfold init_state. cbn [st_past]. rewrite map_length. lia.
Qed.
End Exp.

(* C02.run_terminates without any assumption on the dictionary: 2^n + 1 iterations of fuel are never exhausted *)
Theorem run_terminates_exp : forall D C fuel o m,
  o_remdup o = true -> (2 ^ length (retained D o m) < fuel)%nat ->
  run D C fuel o m <> Raises ERecursion.
Proof.
  intros D C fuel o m R Hf. apply run_not_recursion. intros sc E.
  apply iterate_terminates_exp. exact R.
  destruct (scene_of_ok D o m sc E) as [-> _]. rewrite map_length. exact Hf.
Qed.
