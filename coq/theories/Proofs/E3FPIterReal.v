(* The real-number dictionary `RD` (Proofs/GeomLaws.v): the neighbour test is monotone in the level from level 1 on
   whenever the squared length unit is not negative, hence the polynomial fuel bound of E3FPIterTerm.v holds over the
   reals as well.  (These two statements depend on the axioms of Coq's real numbers; nothing else does.) *)
From Coq Require Import ZArith List Bool Lia Reals.
From E3FP Require Import Base.Prelude Base.ZSet Model.Geometry Model.Stereo Model.Fprint Model.E3FP
  Proofs.GeomLaws Proofs.E3FPIterTerm.
Import ListNotations.
Open Scope Z_scope.

Lemma near_mono_RD (sc : scene RD) o : (0 <= sc_unit2 RD sc)%R ->
  forall k l, 1 <= k -> near RD o sc k l = true -> near RD o sc (k + 1) l = true.
Proof.
  intros Hu k l Hk. unfold near. cbn [fleb fmul fofZ RD F]. rewrite !andb_true_iff, !Z.leb_le. intros [H0 H].
  assert (Hm : 0 <= o_mnum o) by nia.
  split. nia.
  destruct (Rle_dec _ _) as [Le|_] in H; [clear H|discriminate].
  match goal with |- (if ?X then true else false) = true => destruct X as [_|N]; [reflexivity|exfalso; apply N] end.
  eapply Rle_trans. exact Le. apply Rmult_le_compat_r. exact Hu. apply IZR_le.
  apply Z.mul_le_mono_nonneg_r. nia. nia.
Qed.

Theorem run_terminates_RD : forall C fuel o m,
  o_remdup o = true -> (0 <= m_unit2 RD m)%R ->
  (length (retained RD o m) * length (retained RD o m) - length (retained RD o m) < fuel)%nat ->
  run RD C fuel o m <> Raises ERecursion.
Proof.
  intros C fuel o m R Hu Hf. apply run_terminates_gen; try assumption.
  intros sc E. apply near_mono_RD. destruct (scene_of_ok RD o m sc E) as [_ ->]. exact Hu.
Qed.
