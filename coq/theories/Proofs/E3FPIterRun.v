(* The C12 theorems at the level of `run` (molecule in, state out), the stopping rules of `step`, and the small
   concrete instances used by the `Example`s of Properties/C12.v and Properties/C02.v. *)
From Coq Require Import ZArith List Bool Lia.
From E3FP Require Import Base.Prelude Base.ZSet Base.Murmur3 Model.Geometry Model.Stereo Model.Fprint Model.E3FP
  Gen.Constants Gen.AngleTable Proofs.E3FPDedup Proofs.E3FPIter Proofs.E3FPIterTerm.
Import ListNotations.
Open Scope Z_scope.

(* ---- the three stopping rules (C02.stop_rules_spec) -------------------------------------------- *)
Lemma all_full_spec D sc l :
  all_full D sc l = true <->
  forall a, In a (sc_atoms D sc) -> length (sub_of l a) = length (sc_atoms D sc).
Proof.
  unfold all_full, sub_of. rewrite forallb_forall. split; intros H a Ha; specialize (H a Ha).
  - apply Nat.eqb_eq; exact H.
  - apply Nat.eqb_eq; exact H.
Qed.

(* the shells accepted at the next level: all candidates, or the duplicate-filtered ones *)
Definition accepted_next D C sc o (st : state) : list shell :=
  fst (if o_remdup o then dedup (cands_of D C sc o (st_k st + 1) (st_levels st)) (st_past st)
       else (cands_of D C sc o (st_k st + 1) (st_levels st), st_past st)).

(* `step` stops - returning the state unchanged - exactly when (1) a level cap is set and reached, or
   (2) duplicate removal is on and every current substructure contains all atoms, or (3) the accepted shells of
   the next level add nothing to the current level's shell set; otherwise it continues at level k+1 *)
Theorem stop_rules_spec : forall D C sc o st cur lr cs sr,
  st_levels st = cur :: lr -> st_shells st = cs :: sr ->
  (step D C o sc st = Stop st <->
     (o_level o <> -1 /\ o_level o <= st_k st) \/
     (o_remdup o = true /\ all_full D sc cur = true) \/
     length (union_shells cs (accepted_next D C sc o st)) = length cs) /\
  (step D C o sc st = Stop st \/ exists s, step D C o sc st = Continue s /\ st_k s = st_k st + 1).
Proof.
  intros D C sc o st cur lr cs sr EL ES. split.
  - unfold step, accepted_next. rewrite EL, ES.
    destruct (negb (o_level o =? -1) && (o_level o <=? st_k st)) eqn:Cap.
    { split; [intros _; left; lia|reflexivity]. }
    destruct (o_remdup o && all_full D sc cur) eqn:EF.
    { split; [intros _; right; left; apply andb_true_iff; exact EF|reflexivity]. }
    change (sort_by (fun x y : shell => zpair_leb (s_ident x, s_center x) (s_ident y, s_center y))
              (map (shell_of (next_level D C o sc (st_k st + 1) (cur :: lr))) (sc_atoms D sc)))
      with (cands_of D C sc o (st_k st + 1) (cur :: lr)).
    destruct (if o_remdup o then dedup (cands_of D C sc o (st_k st + 1) (cur :: lr)) (st_past st)
              else (cands_of D C sc o (st_k st + 1) (cur :: lr), st_past st)) as [acc past'].
    simpl fst. destruct (Nat.eqb (length (union_shells cs acc)) (length cs)) eqn:EN.
    { split; [intros _; right; right; apply Nat.eqb_eq; exact EN|reflexivity]. }
    split; [discriminate|]. intros [[H1 H2]|[[H1 H2]|H]].
    + lia.
    + rewrite H1, H2 in EF. discriminate.
    + apply Nat.eqb_neq in EN. contradiction.
  - destruct (step D C o sc st) as [s|s] eqn:E.
    + right. exists s. split. reflexivity. eapply step_continue_k; exact E.
    + left. apply step_stop_same in E. subst; reflexivity.
Qed.

(* ---- run-level forms ---------------------------------------------------------------------------- *)
Lemma scene_of_owl D o L m : scene_of D (o_with_level o L) m = scene_of D o m.
Proof. unfold scene_of, retained. cbn [o_exfloat o_rdkit o_with_level]. reflexivity. Qed.

Lemma check_opts_owl_nonneg o k : k <> -1 -> check_opts (o_with_level o k) = true.
Proof. intro H. unfold check_opts. cbn [o_level o_remdup o_with_level]. destruct (k =? -1) eqn:E; [lia|reflexivity]. Qed.

Lemma run_owl_iterate D C fuel o L m st : run D C fuel (o_with_level o L) m = Ok st ->
  check_opts (o_with_level o L) = true /\
  exists sc, scene_of D o m = Ok sc /\ iterate D C (o_with_level o L) sc fuel (init_state D sc) = Some st.
Proof.
  intro H. split.
  - unfold run in H. destruct (check_opts (o_with_level o L)); [reflexivity|discriminate].
  - apply run_ok_iterate in H. rewrite scene_of_owl in H. exact H.
Qed.

Lemma run_of_iterate D C fuel o' m sc st :
  check_opts o' = true -> scene_of D o' m = Ok sc -> iterate D C o' sc fuel (init_state D sc) = Some st ->
  run D C fuel o' m = Ok st.
Proof. intros H1 H2 H3. unfold run. rewrite H1, H2. simpl. rewrite H3. reflexivity. Qed.

Section RunLevel.
Variable D : ringdict.
Variable C : sconsts.

Theorem levels_nest_run : forall fuel o m st j mask,
  run D C fuel o m = Ok st -> 0 <= j -> j + 1 <= st_k st ->
  (exists ext, shells_query o st (Some (j + 1)) mask = shells_query o st (Some j) mask ++ ext) /\
  (forall i, In i (ids_of (shells_query o st (Some j) mask)) -> In i (ids_of (shells_query o st (Some (j + 1)) mask))) /\
  (forall i, count_occ_Z i (ids_of (shells_query o st (Some j) mask)) <=
             count_occ_Z i (ids_of (shells_query o st (Some (j + 1)) mask))).
Proof.
  intros fuel o m st j mask H H0 H1. apply run_ok_iterate in H. destruct H as [sc [_ H]].
  split. eapply levels_nest; eauto. eapply levels_nest_ids; eauto.
Qed.

Theorem run_prefix_run : forall o m k L fuelL fuelk stL,
  0 <= k -> (k <= L \/ L = -1) ->
  run D C fuelL (o_with_level o L) m = Ok stL ->
  (Z.to_nat k < fuelk)%nat ->
  exists stk, run D C fuelk (o_with_level o k) m = Ok stk /\
    st_k stk = Z.min k (st_k stL) /\
    (forall j, j <= st_k stk -> shells_at_true stk j = shells_at_true stL j) /\
    (st_k stL <= k -> stk = stL).
Proof.
  intros o m k L fuelL fuelk stL Hk HL H Hf. apply run_owl_iterate in H. destruct H as [_ [sc [Hsc H]]].
  destruct (run_prefix D C sc o k L fuelL fuelk stL Hk HL H Hf) as (stk&R&P).
  exists stk. split; [|exact P]. eapply run_of_iterate; [apply check_opts_owl_nonneg; lia| |exact R].
  rewrite scene_of_owl. exact Hsc.
Qed.

Theorem truncation_run : forall o m k L fuelL fuelk stL stk mask,
  0 <= k <= L ->
  run D C fuelL (o_with_level o L) m = Ok stL ->
  run D C fuelk (o_with_level o k) m = Ok stk ->
  shells_query (o_with_level o L) stL (Some k) mask = shells_query (o_with_level o k) stk (Some k) mask /\
  forall counts bits,
    fingerprint_query (o_with_level o L) counts bits stL (Some k) mask =
    fingerprint_query (o_with_level o k) counts bits stk (Some k) mask.
Proof.
  intros o m k L fuelL fuelk stL stk mask Hk HL Hkr.
  apply run_owl_iterate in HL. destruct HL as [_ [sc [Hsc HL]]].
  apply run_owl_iterate in Hkr. destruct Hkr as [_ [sc' [Hsc' Hkr]]].
  rewrite Hsc in Hsc'. inversion Hsc'; subst sc'.
  eapply truncation; eauto.
Qed.

Theorem minus_one_is_limit_run : forall o m fuel sconv L,
  run D C fuel (o_with_level o (-1)) m = Ok sconv -> st_k sconv <= L ->
  (forall fuelL, (Z.to_nat (st_k sconv) < fuelL)%nat -> run D C fuelL (o_with_level o L) m = Ok sconv) /\
  (forall fuelL stL, run D C fuelL (o_with_level o L) m = Ok stL ->
     stL = sconv /\
     forall counts bits req mask,
       shells_query (o_with_level o L) stL req mask = shells_query (o_with_level o (-1)) sconv req mask /\
       fingerprint_query (o_with_level o L) counts bits stL req mask =
       fingerprint_query (o_with_level o (-1)) counts bits sconv req mask).
Proof.
  intros o m fuel sconv L H HL. apply run_owl_iterate in H. destruct H as [Hchk [sc [Hsc H]]].
  split.
  - intros fuelL Hf. destruct (beyond_convergence D C sc o fuel sconv L H HL) as (_&R&_&_).
    eapply run_of_iterate; [| |apply R; exact Hf].
    + unfold check_opts in *. cbn [o_level o_remdup o_with_level] in *. simpl in Hchk.
      destruct (o_remdup o); [|discriminate]. simpl. rewrite andb_false_r. reflexivity.
    + rewrite scene_of_owl. exact Hsc.
  - intros fuelL stL HrL. apply run_owl_iterate in HrL. destruct HrL as [_ [sc' [Hsc' HrL]]].
    rewrite Hsc in Hsc'. inversion Hsc'; subst sc'.
    destruct (minus_one_is_limit D C sc o fuel sconv L fuelL stL H HL HrL) as (E&Q&F).
    split. exact E. intros. split. apply Q. apply F.
Qed.

(* a run with level -1 resolves every request beyond its convergence level to that level *)
Theorem beyond_convergence_run : forall o m fuel sconv k mask,
  run D C fuel (o_with_level o (-1)) m = Ok sconv -> st_k sconv < k ->
  forall o', shells_query o' sconv (Some k) mask = shells_query o' sconv (Some (st_k sconv)) mask.
Proof.
  intros o m fuel sconv k mask H Hk o'. apply run_owl_iterate in H. destruct H as [_ [sc [_ H]]].
  destruct (beyond_convergence D C sc o fuel sconv (st_k sconv) H (Z.le_refl _)) as (_&_&_&Q). apply Q; exact Hk.
Qed.
End RunLevel.

(* ---- concrete instance: four atoms on a line, 1 Angstrom = 10 units apart, radius multiplier 3/2 -------------- *)
Definition ex_link (a b : Z) : link ZD :=
  mklink ZD b ((b - a) * (b - a) * 100) (@mkvec ZD ((b - a) * 10) 0 0)
         (if Z.abs (b - a) =? 1 then 1 else 5) (Z.abs (b - a) =? 1).
Definition ex_scene : scene ZD :=
  mkscene ZD [0; 1; 2; 3] [(0, 11); (1, 22); (2, 22); (3, 11)]
    (map (fun a => (a, map (ex_link a) (filter (fun b => negb (b =? a)) [0; 1; 2; 3]))) [0; 1; 2; 3])
    100.
Definition ex_opts (L : Z) : opts := mkopts L 3 2 true true true false true.
Definition ex_atom (i : Z) : atom ZD :=
  mkatom ZD i 6 (if (i =? 0) || (i =? 3) then 1 else 2) 4 4 (if (i =? 0) || (i =? 3) then 3 else 2) 12 0 0 0
         (@mkvec ZD (i * 10) 0 0).
Definition ex_mol : mol ZD :=
  mkmol ZD (map ex_atom [0; 1; 2; 3]) [(0, 1, BtSingle); (1, 2, BtSingle); (2, 3, BtSingle)] 100.
Definition ex_run (L : Z) : result state := run ZD e3fp_consts 400 (ex_opts L) ex_mol.
Definition ex_iter (L : Z) : option state := iterate ZD e3fp_consts (ex_opts L) ex_scene 400 (init_state ZD ex_scene).
Definition ex_k (r : result state) : option Z := match r with Ok st => Some (st_k st) | Raises _ => None end.

(* C12: "running with level -1 always terminates" - n^2 - n + 1 iterations of fuel are never exhausted
   (n = number of retained atoms); an option setting with level -1 and duplicate removal off is refused by the
   constructor (EOther), which is not an out-of-fuel outcome either *)
Theorem minus_one_terminates : forall C fuel o m,
  o_level o = -1 -> 0 <= m_unit2 ZD m ->
  (length (retained ZD o m) * length (retained ZD o m) - length (retained ZD o m) < fuel)%nat ->
  run ZD C fuel o m <> Raises ERecursion.
Proof.
  intros C fuel o m HL Hu Hf. apply run_never_out_of_fuel. exact Hu. rewrite HL. exact Hf.
Qed.

(* shape of every state a run returns: level_shells and the level history have exactly current_level + 1 entries *)
Theorem run_state_shape : forall D C fuel o m st, run D C fuel o m = Ok st ->
  0 <= st_k st /\
  length (st_shells st) = S (Z.to_nat (st_k st)) /\
  length (st_levels st) = S (Z.to_nat (st_k st)).
Proof.
  intros D C fuel o m st H. apply run_ok_iterate in H. destruct H as [sc [_ H]].
  destruct (inv_iterate D C sc o fuel _ _ (inv_init D sc) H) as (I1&I2&I3&_). auto.
Qed.
