(* Termination of the E3FP iteration (model M1) and the substructure recursion.
   With duplicate-substructure removal a continuing step strictly enlarges the substructure of at least one
   centre atom while no substructure ever shrinks (given that neighbourhoods grow with the level: `near_mono`,
   proved for the integer dictionary with a non-negative unit; needed from level 1 on only), so at most n^2 - n steps continue:
   n^2 - n + 1 units of fuel always suffice.  With a level cap L >= 0, L + 1 units suffice, unconditionally. *)
From Coq Require Import ZArith List Bool Lia Sorted.
From E3FP Require Import Base.Prelude Base.ZSet Base.Murmur3 Model.Geometry Model.Stereo Model.Fprint Model.E3FP
  Gen.Constants Proofs.E3FPDedup Proofs.E3FPIter.
Import ListNotations.
Open Scope Z_scope.

(* ---- generic list facts ----------------------------------------------------------------------- *)
Lemma aget_map_in {A} (d : A) (f : Z -> A) : forall l a, In a l -> aget d (map (fun x => (x, f x)) l) a = f a.
Proof.
  induction l as [|x t IH]; intros a H; simpl in *. contradiction.
  destruct (a =? x) eqn:E. apply Z.eqb_eq in E. subst; reflexivity.
  destruct H as [H|H]. subst. rewrite Z.eqb_refl in E. discriminate. apply IH; exact H.
Qed.

Lemma aget_map_notin {A} (d : A) (f : Z -> A) : forall l a, ~ In a l -> aget d (map (fun x => (x, f x)) l) a = d.
Proof.
  induction l as [|x t IH]; intros a H; simpl in *. reflexivity.
  destruct (a =? x) eqn:E. apply Z.eqb_eq in E. subst. exfalso; apply H; left; reflexivity.
  apply IH. intro I; apply H; right; exact I.
Qed.

Lemma list_sum_le {A} (f g : A -> nat) : forall l, (forall a, In a l -> (f a <= g a)%nat) ->
  (list_sum (map f l) <= list_sum (map g l))%nat.
Proof.
  induction l as [|x t IH]; intro H; simpl. lia.
  pose proof (H x (or_introl eq_refl)). assert (list_sum (map f t) <= list_sum (map g t))%nat.
  { apply IH. intros a Ha. apply H. right; exact Ha. } lia.
Qed.

Lemma list_sum_lt {A} (f g : A -> nat) : forall l, (forall a, In a l -> (f a <= g a)%nat) ->
  (exists a, In a l /\ (f a < g a)%nat) -> (list_sum (map f l) < list_sum (map g l))%nat.
Proof.
  induction l as [|x t IH]; intros H [a [Ha Hlt]]; simpl in *. contradiction.
  pose proof (H x (or_introl eq_refl)).
  assert (Ht : forall a, In a t -> (f a <= g a)%nat) by (intros b Hb; apply H; right; exact Hb).
  destruct Ha as [->|Ha].
  - pose proof (list_sum_le f g t Ht). lia.
  - assert (list_sum (map f t) < list_sum (map g t))%nat by (apply IH; [exact Ht|exists a; auto]). lia.
Qed.

Lemma list_sum_bound {A} (f : A -> nat) (b : nat) : forall l, (forall a, In a l -> (f a <= b)%nat) ->
  (list_sum (map f l) <= length l * b)%nat.
Proof.
  induction l as [|x t IH]; intro H; simpl. lia.
  pose proof (H x (or_introl eq_refl)). assert (list_sum (map f t) <= length t * b)%nat.
  { apply IH. intros a Ha. apply H. right; exact Ha. } lia.
Qed.

(* a strictly sorted list included in another of the same length is equal to it *)
Lemma ssorted_incl_lt a b : ssorted a -> ssorted b -> incl a b -> a <> b -> (length a < length b)%nat.
Proof.
  intros Sa Sb I N. pose proof (NoDup_incl_length (ssorted_NoDup a Sa) I) as Le.
  destruct (Nat.eq_dec (length a) (length b)) as [E|E]; [|lia]. exfalso. apply N.
  apply ssorted_ext; try assumption. intro x. split. apply I.
  apply (NoDup_length_incl (ssorted_NoDup a Sa)). lia. exact I.
Qed.

(* ---------------------------------------------------------------------------------------------- *)
Section Term.
Variable D : ringdict.
Variable C : sconsts.
Variable sc : scene D.
Variable o : opts.
Notation atoms := (sc_atoms D sc).

(* substructure of atom a at a level *)
Definition sub_of (l : lvl) (a : Z) : list Z := aget [] (l_sub l) a.

Definition sub_next (k : Z) (prev : lvl) (a : Z) : list Z :=
  usort (a :: flat_map (fun l => sub_of prev (lk_b D l)) (nbrs D o sc k a)).

Lemma l_sub_next k prev rest :
  l_sub (next_level D C o sc k (prev :: rest)) = map (fun a => (a, sub_next k prev a)) atoms.
Proof. unfold next_level. cbn [l_sub]. rewrite map_map. reflexivity. Qed.

(* C02.substruct_rec: substruct (k+1) a = {a} U union of substruct k b over the neighbours b of a at radius k+1
   (as a strictly increasing list), and substruct 0 a = {a} *)
Lemma substruct_rec k prev rest a : In a atoms ->
  sub_of (next_level D C o sc k (prev :: rest)) a =
  usort (a :: flat_map (fun l => sub_of prev (lk_b D l)) (nbrs D o sc k a)).
Proof. intro H. unfold sub_of at 1. rewrite l_sub_next. rewrite (aget_map_in [] _ _ _ H). reflexivity. Qed.

Lemma sub_of_next_out k prev rest a : ~ In a atoms -> sub_of (next_level D C o sc k (prev :: rest)) a = [].
Proof. intro H. unfold sub_of. rewrite l_sub_next. apply aget_map_notin; exact H. Qed.

Lemma substruct_0 a : In a atoms -> sub_of (level0 D sc) a = [a].
Proof. intro H. unfold sub_of, level0. cbn [l_sub]. apply (aget_map_in [] (fun a => [a]) _ _ H). Qed.

Lemma sub_of_level0_out a : ~ In a atoms -> sub_of (level0 D sc) a = [].
Proof. intro H. unfold sub_of, level0. cbn [l_sub]. apply (aget_map_notin [] (fun a => [a]) _ _ H). Qed.

Lemma In_sub_next x k prev a :
  In x (sub_next k prev a) <-> x = a \/ exists l, In l (nbrs D o sc k a) /\ In x (sub_of prev (lk_b D l)).
Proof.
  unfold sub_next. rewrite In_usort. simpl. rewrite in_flat_map. split; intros [H|H]; auto.
Qed.

(* the level histories the iteration builds: level0, then next_level on top, one per level *)
Inductive levels_wf : Z -> list lvl -> Prop :=
| wf0 : levels_wf 0 [level0 D sc]
| wfS k levels : levels_wf k levels -> levels_wf (k + 1) (next_level D C o sc (k + 1) levels :: levels).

Lemma levels_wf_nonempty k levels : levels_wf k levels -> 0 <= k /\ exists cur rest, levels = cur :: rest.
Proof.
  induction 1 as [|k levels H [IH1 IH2]]. split. lia. eexists _, _; reflexivity.
  split. lia. eexists _, _; reflexivity.
Qed.

Lemma wf_sub_props k levels : levels_wf k levels -> forall cur rest, levels = cur :: rest ->
  (forall a, ssorted (sub_of cur a)) /\
  (forall a x, In x (sub_of cur a) -> In x atoms) /\
  (forall a, ~ In a atoms -> sub_of cur a = []).
Proof.
  induction 1 as [|k levels H IH]; intros cur rest E; inversion E; subst; clear E.
  - split; [|split].
    + intro a. destruct (in_dec Z.eq_dec a atoms) as [I|I].
      * rewrite (substruct_0 a I). repeat constructor.
      * rewrite (sub_of_level0_out a I). constructor.
    + intros a x Hx. destruct (in_dec Z.eq_dec a atoms) as [I|I].
      * rewrite (substruct_0 a I) in Hx. destruct Hx as [<-|[]]. exact I.
      * rewrite (sub_of_level0_out a I) in Hx. destruct Hx.
    + apply sub_of_level0_out.
  - destruct (levels_wf_nonempty _ _ H) as [_ [prev [rest' ->]]].
    destruct (IH prev rest' eq_refl) as (P1&P2&P3). split; [|split].
    + intro a. destruct (in_dec Z.eq_dec a atoms) as [I|I].
      * rewrite (substruct_rec _ _ _ a I). apply ssorted_usort.
      * rewrite (sub_of_next_out _ _ _ a I). constructor.
    + intros a x Hx. destruct (in_dec Z.eq_dec a atoms) as [I|I].
      * rewrite (substruct_rec _ _ _ a I) in Hx. apply In_sub_next in Hx. destruct Hx as [->|[l [_ Hl]]].
        exact I. eapply P2; exact Hl.
      * rewrite (sub_of_next_out _ _ _ a I) in Hx. destruct Hx.
    + intros a I. apply sub_of_next_out; exact I.
Qed.

(* every substructure has at most n atoms *)
Lemma wf_sub_length k cur rest a : levels_wf k (cur :: rest) -> (length (sub_of cur a) <= length atoms)%nat.
Proof.
  intro H. destruct (wf_sub_props _ _ H cur rest eq_refl) as (P1&P2&_).
  apply NoDup_incl_length. apply ssorted_NoDup, P1. intros x Hx. eapply P2; exact Hx.
Qed.

(* ---- what every reachable state consists of (no hypothesis) ------------------------------------- *)
(* the level history of a reachable state is the model's level sequence, and every stored shell is the shell of a
   retained atom at one of those levels: its substructure is that atom's substructure at that level (attribution) *)
Definition shells_attributed (st : state) : Prop :=
  forall S s, In S (st_shells st) -> In s S ->
    exists l a, In l (st_levels st) /\ In a atoms /\ s = shell_of l a.

Definition sinv (st : state) : Prop := levels_wf (st_k st) (st_levels st) /\ shells_attributed st.

Lemma sinv_init : sinv (init_state D sc).
Proof.
  split. constructor. intros S s HS Hs. unfold init_state in *. cbn [st_shells st_levels] in *.
  destruct HS as [<-|[]]. apply in_map_iff in Hs. destruct Hs as [a [E I]].
  exists (level0 D sc), a. split. left; reflexivity. auto.
Qed.

Lemma sinv_step st s : sinv st -> step D C o sc st = Continue s -> sinv s.
Proof.
  intros [W A] H. apply step_continue_inv in H.
  destruct H as (cur&lr&cs&sr&acc&past'&EL&ES&_&ED&_&->). split; cbn [st_k st_levels st_shells].
  - constructor. exact W.
  - intros S s HS Hs. cbn [st_shells st_levels] in *. destruct HS as [<-|HS].
    + destruct (union_shells_prefix acc cs) as [ext [E I]]. rewrite E in Hs. apply in_app_or in Hs.
      destruct Hs as [Hs|Hs].
      * destruct (A cs s) as (l&a&Hl&Ha&Es). rewrite ES; left; reflexivity. exact Hs.
        exists l, a. split. right; exact Hl. auto.
      * apply I in Hs.
        assert (Hc : In s (cands_of D C sc o (st_k st + 1) (st_levels st))).
        { destruct (o_remdup o). eapply dedup_sublist; eauto. inversion ED; subst; exact Hs. }
        unfold cands_of in Hc. apply sort_by_In in Hc. apply in_map_iff in Hc. destruct Hc as [a [Es Ha]].
        exists (next_level D C o sc (st_k st + 1) (st_levels st)), a. split. left; reflexivity. auto.
    + destruct (A S s HS Hs) as (l&a&Hl&Ha&Es). exists l, a. split. right; exact Hl. auto.
Qed.

Lemma sinv_iterate : forall fuel st s, sinv st -> iterate D C o sc fuel st = Some s -> sinv s.
Proof.
  induction fuel as [|f IH]; intros st s I H; [discriminate|]. rewrite iterate_S in H.
  destruct (step D C o sc st) as [s1|s1] eqn:E.
  - eapply IH; [|exact H]. eapply sinv_step; eauto.
  - inversion H; subst s1. apply step_stop_same in E. subst; exact I.
Qed.

Lemma sinv_run fuel st : iterate D C o sc fuel (init_state D sc) = Some st -> sinv st.
Proof. apply sinv_iterate, sinv_init. Qed.

(* ---- monotonicity, under the hypothesis that neighbourhoods grow with the level --------------- *)
Hypothesis near_mono : forall k l, 1 <= k -> near D o sc k l = true -> near D o sc (k + 1) l = true.

Lemma nbrs_mono k a l : 1 <= k -> In l (nbrs D o sc k a) -> In l (nbrs D o sc (k + 1) a).
Proof.
  intro Hk. unfold nbrs. rewrite !filter_In. intros [I H]. split. exact I.
  apply andb_true_iff in H. destruct H as [H1 H2]. rewrite (near_mono k l Hk H1), H2. reflexivity.
Qed.

(* C02.substruct_mono: substruct k a is included in substruct (k+1) a *)
Lemma substruct_mono k levels : levels_wf k levels -> forall cur rest, levels = cur :: rest ->
  forall a, incl (sub_of cur a) (sub_of (next_level D C o sc (k + 1) levels) a).
Proof.
  induction 1 as [|k levels H IH]; intros cur rest E a; inversion E; subst; clear E.
  - destruct (in_dec Z.eq_dec a atoms) as [I|I].
    + rewrite (substruct_0 a I), (substruct_rec _ _ _ a I). intros x [<-|[]]. apply In_sub_next. left; reflexivity.
    + rewrite (sub_of_level0_out a I). intros x [].
  - destruct (levels_wf_nonempty _ _ H) as [Hk [prev [rest' ->]]].
    specialize (IH prev rest' eq_refl).
    destruct (in_dec Z.eq_dec a atoms) as [I|I].
    + rewrite (substruct_rec (k + 1 + 1) _ _ a I), (substruct_rec (k + 1) _ _ a I). intros x Hx.
      apply In_sub_next in Hx. apply In_sub_next. destruct Hx as [->|[l [Hl Hx]]]. left; reflexivity.
      right. exists l. split. apply nbrs_mono. lia. exact Hl. apply (IH (lk_b D l)). exact Hx.
    + rewrite (sub_of_next_out (k + 1) _ _ a I). intros x [].
Qed.

(* ---- the termination measure ------------------------------------------------------------------ *)
Hypothesis remdup_on : o_remdup o = true.

Definition cur_of (st : state) : lvl := hd (level0 D sc) (st_levels st).
Definition measure (st : state) : nat := list_sum (map (fun a => length (sub_of (cur_of st) a)) atoms).

(* reachable-state invariant: the levels are the model's levels; every current substructure is in `past` *)
Definition tinv (st : state) : Prop :=
  levels_wf (st_k st) (st_levels st) /\
  forall a, In a atoms -> In (sub_of (cur_of st) a) (st_past st).

Lemma tinv_init : tinv (init_state D sc).
Proof.
  split. constructor. intros a I. unfold cur_of, init_state. cbn [st_levels st_past hd].
  rewrite (substruct_0 a I). apply (in_map (fun a => [a])). exact I.
Qed.

Lemma measure_init : measure (init_state D sc) = length atoms.
Proof.
  unfold measure, cur_of, init_state. cbn [st_levels hd].
  assert (G : forall l, (forall a, In a l -> In a atoms) ->
          list_sum (map (fun a => length (sub_of (level0 D sc) a)) l) = length l).
  { induction l as [|x t IH]; intro H; simpl. reflexivity.
    rewrite (substruct_0 x) by (apply H; left; reflexivity). simpl. rewrite IH. reflexivity.
    intros a Ha. apply H. right; exact Ha. }
  apply G. auto.
Qed.

Lemma measure_bound st : tinv st -> (measure st <= length atoms * length atoms)%nat.
Proof.
  intros [W _]. unfold measure. apply list_sum_bound. intros a _.
  destruct (levels_wf_nonempty _ _ W) as [_ [cur [rest E]]]. unfold cur_of. rewrite E in *. simpl hd.
  eapply wf_sub_length; exact W.
Qed.

Lemma s_sub_shell_of l a : s_sub (shell_of l a) = sub_of l a.
Proof. reflexivity. Qed.

(* a continuing step keeps the invariant and strictly increases the measure *)
Lemma tinv_step st s : tinv st -> step D C o sc st = Continue s -> tinv s /\ (measure st < measure s)%nat.
Proof.
  intros [W P] H. apply step_continue_inv in H.
  destruct H as (cur&lr&cs&sr&acc&past'&EL&ES&_&ED&EN&->).
  unfold cur_of in P. rewrite remdup_on in ED. rewrite EL in *. cbn [hd] in P.
  set (nl := next_level D C o sc (st_k st + 1) (cur :: lr)) in *.
  assert (Hc : forall a, In a atoms -> In (shell_of nl a) (cands_of D C sc o (st_k st + 1) (cur :: lr))).
  { intros a I. unfold cands_of. apply sort_by_In. apply in_map. exact I. }
  split.
  - split; cbn [st_k st_levels st_past].
    + constructor. exact W.
    + intros a I. unfold cur_of. cbn [st_levels hd].
      destruct (dedup_covers _ _ _ _ ED) as [Cov _]. rewrite <- s_sub_shell_of. apply Cov. apply Hc; exact I.
  - unfold measure, cur_of. cbn [st_levels hd]. rewrite EL. cbn [hd].
    apply list_sum_lt.
    + intros a _. apply NoDup_incl_length.
      * apply ssorted_NoDup. destruct (wf_sub_props _ _ W cur lr eq_refl) as (P1&_). apply P1.
      * apply (substruct_mono _ _ W cur lr eq_refl).
    + apply union_shells_grows in EN. destruct acc as [|s0 acc']; [congruence|].
      assert (Hs0 : In s0 (s0 :: acc')) by (left; reflexivity).
      pose proof (dedup_sublist _ _ _ _ s0 ED Hs0) as Hin.
      unfold cands_of in Hin. apply sort_by_In in Hin. apply in_map_iff in Hin. destruct Hin as [a0 [E0 I0]].
      destruct (accepted_substructs_distinct _ _ _ _ ED) as [_ Nin]. specialize (Nin s0 Hs0).
      exists a0. split. exact I0.
      apply ssorted_incl_lt.
      * destruct (wf_sub_props _ _ W cur lr eq_refl) as (P1&_). apply P1.
      * assert (W' : levels_wf (st_k st + 1) (nl :: cur :: lr)) by (constructor; exact W).
        destruct (wf_sub_props _ _ W' nl (cur :: lr) eq_refl) as (P1&_). apply P1.
      * apply (substruct_mono _ _ W cur lr eq_refl).
      * intro Eq. apply Nin. rewrite <- E0, s_sub_shell_of. fold nl. rewrite <- Eq.
        exact (P a0 I0).
Qed.

Lemma iterate_terminates_from : forall fuel st, tinv st ->
  (length atoms * length atoms - measure st < fuel)%nat ->
  exists s, iterate D C o sc fuel st = Some s.
Proof.
  induction fuel as [|f IH]; intros st I Hf. lia.
  rewrite iterate_S. destruct (step D C o sc st) as [s1|s1] eqn:E.
  - destruct (tinv_step _ _ I E) as [I1 M]. pose proof (measure_bound _ I1). apply IH. exact I1. lia.
  - exists s1; reflexivity.
Qed.

(* C02.run_terminates at the level of the scene: n^2 - n + 1 iterations of fuel always suffice *)
Theorem iterate_terminates : forall fuel,
  (length atoms * length atoms - length atoms < fuel)%nat ->
  exists s, iterate D C o sc fuel (init_state D sc) = Some s.
Proof.
  intros fuel Hf. apply iterate_terminates_from. apply tinv_init. rewrite measure_init. exact Hf.
Qed.

End Term.

(* ---- a level cap bounds the number of iterations, unconditionally ------------------------------ *)
Lemma iterate_capped_terminates D C sc o fuel :
  o_level o <> -1 -> (Z.to_nat (o_level o) < fuel)%nat ->
  exists s, iterate D C o sc fuel (init_state D sc) = Some s.
Proof.
  intros HL Hf. rewrite <- (o_with_level_id o). set (L := o_level o) in *.
  destruct (Z_le_gt_dec 0 L) as [Le|Gt].
  - eexists. apply iterate_capped. exact HL. exact Le. simpl st_k. rewrite Z.sub_0_r. exact Hf.
  - destruct fuel as [|f]; [lia|]. rewrite iterate_S, step_cap. simpl st_k.
    destruct (negb (L =? -1) && (L <=? 0)) eqn:Cap; [|lia]. eexists; reflexivity.
Qed.

(* ---- the integer dictionary: neighbourhoods grow with the level -------------------------------- *)
Lemma near_mono_ZD (sc : scene ZD) o : 0 <= sc_unit2 ZD sc ->
  forall k l, 1 <= k -> near ZD o sc k l = true -> near ZD o sc (k + 1) l = true.
Proof.
  intros Hu k l Hk. unfold near. cbn [fleb fmul fofZ ZD F]. rewrite !andb_true_iff, !Z.leb_le. intros [H0 H].
  (* a non-negative radius at level k >= 1 means a non-negative multiplier *)
  assert (Hm : 0 <= o_mnum o) by nia.
  split. nia.
  eapply Z.le_trans. exact H. apply Z.mul_le_mono_nonneg_r. exact Hu.
  apply Z.mul_le_mono_nonneg_r. nia. nia.
Qed.

(* ---- the run ---------------------------------------------------------------------------------- *)
Lemma scene_of_ok D o m sc : scene_of D o m = Ok sc ->
  sc_atoms D sc = map (a_idx D) (retained D o m) /\ sc_unit2 D sc = m_unit2 D m.
Proof.
  unfold scene_of. destruct (map (a_idx D) (retained D o m)) as [|i0 ids] eqn:E. discriminate.
  match goal with |- match ?X with Some _ => _ | None => _ end = _ -> _ => destruct X end; [|discriminate].
  intro H. inversion H. cbn [sc_atoms sc_unit2]. auto.
Qed.

Lemma scene_of_not_recursion D o m : scene_of D o m <> Raises ERecursion.
Proof.
  unfold scene_of. destruct (map (a_idx D) (retained D o m)) as [|i0 ids]. discriminate.
  match goal with |- match ?X with Some _ => _ | None => _ end <> _ => destruct X end; discriminate.
Qed.

Lemma run_not_recursion D C fuel o m :
  (forall sc, scene_of D o m = Ok sc -> exists s, iterate D C o sc fuel (init_state D sc) = Some s) ->
  run D C fuel o m <> Raises ERecursion.
Proof.
  intro H. unfold run. destruct (negb (check_opts o)); [discriminate|].
  destruct (scene_of D o m) as [sc|e] eqn:E; simpl.
  - destruct (H sc eq_refl) as [s ->]. discriminate.
  - intro X. inversion X. subst e. exact (scene_of_not_recursion D o m E).
Qed.

Lemma run_ok_iterate D C fuel o m st : run D C fuel o m = Ok st ->
  exists sc, scene_of D o m = Ok sc /\ iterate D C o sc fuel (init_state D sc) = Some st.
Proof.
  unfold run. destruct (negb (check_opts o)); [discriminate|].
  destruct (scene_of D o m) as [sc|e]; simpl; [|discriminate].
  destruct (iterate D C o sc fuel (init_state D sc)) as [s|] eqn:E; [|discriminate].
  intro H. inversion H; subst. exists sc. auto.
Qed.

(* C02.run_terminates, any dictionary in which neighbourhoods grow with the level *)
Theorem run_terminates_gen : forall D C fuel o m,
  o_remdup o = true ->
  (forall sc, scene_of D o m = Ok sc ->
     forall k l, 1 <= k -> near D o sc k l = true -> near D o sc (k + 1) l = true) ->
  (length (retained D o m) * length (retained D o m) - length (retained D o m) < fuel)%nat ->
  run D C fuel o m <> Raises ERecursion.
Proof.
  intros D C fuel o m R NM Hf. apply run_not_recursion. intros sc E.
  apply iterate_terminates. apply NM; exact E. exact R.
  destruct (scene_of_ok D o m sc E) as [-> _]. rewrite map_length. exact Hf.
Qed.

(* C02.run_terminates on the integer dictionary (the one the executable runs use) *)
Theorem run_terminates : forall C fuel o m,
  o_remdup o = true -> 0 <= m_unit2 ZD m ->
  (length (retained ZD o m) * length (retained ZD o m) - length (retained ZD o m) < fuel)%nat ->
  run ZD C fuel o m <> Raises ERecursion.
Proof.
  intros C fuel o m R Hu Hf. apply run_terminates_gen; try assumption.
  intros sc E. apply near_mono_ZD. destruct (scene_of_ok ZD o m sc E) as [_ ->]. exact Hu.
Qed.

Theorem run_terminates_capped : forall D C fuel o m,
  o_level o <> -1 -> (Z.to_nat (o_level o) < fuel)%nat ->
  run D C fuel o m <> Raises ERecursion.
Proof.
  intros D C fuel o m HL Hf. apply run_not_recursion. intros sc _. apply iterate_capped_terminates; assumption.
Qed.

(* every accepted option setting (level -1 requires duplicate removal: check_opts) *)
Theorem run_never_out_of_fuel : forall C fuel o m,
  0 <= m_unit2 ZD m ->
  (if o_level o =? -1
   then (length (retained ZD o m) * length (retained ZD o m) - length (retained ZD o m) < fuel)%nat
   else (Z.to_nat (o_level o) < fuel)%nat) ->
  run ZD C fuel o m <> Raises ERecursion.
Proof.
  intros C fuel o m Hu Hf. destruct (o_level o =? -1) eqn:E.
  - destruct (o_remdup o) eqn:R.
    + apply run_terminates; assumption.
    + unfold run, check_opts. rewrite E, R. simpl. discriminate.
  - apply run_terminates_capped. lia. exact Hf.
Qed.

(* positive form: when the scene can be built (at least one atom is retained and every bond type is in the table)
   and the options are accepted, the run returns a state *)
Theorem run_succeeds : forall C fuel o m sc,
  check_opts o = true -> scene_of ZD o m = Ok sc -> 0 <= m_unit2 ZD m ->
  (if o_level o =? -1
   then (length (retained ZD o m) * length (retained ZD o m) - length (retained ZD o m) < fuel)%nat
   else (Z.to_nat (o_level o) < fuel)%nat) ->
  exists st, run ZD C fuel o m = Ok st.
Proof.
  intros C fuel o m sc Hc Hs Hu Hf.
  pose proof (run_never_out_of_fuel C fuel o m Hu Hf) as N.
  unfold run in *. rewrite Hc, Hs in *. simpl in *.
  destruct (iterate ZD C o sc fuel (init_state ZD sc)) as [st|]. exists st; reflexivity. congruence.
Qed.

(* the same for any dictionary, given the iteration result (no fuel arithmetic): run = Ok whenever iterate does *)
Lemma run_succeeds_gen : forall D C fuel o m sc,
  check_opts o = true -> scene_of D o m = Ok sc ->
  (exists s, iterate D C o sc fuel (init_state D sc) = Some s) ->
  exists st, run D C fuel o m = Ok st.
Proof.
  intros D C fuel o m sc Hc Hs [s Hi]. exists s. unfold run. rewrite Hc, Hs. simpl. rewrite Hi. reflexivity.
Qed.

(* the fuel of the executable runs (Exec/RunM1.v: FUEL = Z.to_nat 20000) covers every molecule with at most 141
   retained atoms at level -1 (141^2 - 141 = 19740), and every level cap below 20000 for any number of atoms *)
Corollary fuel_exec_suffices : forall C o m,
  0 <= m_unit2 ZD m ->
  (if o_level o =? -1 then (length (retained ZD o m) <= 141)%nat else o_level o < 20000) ->
  run ZD C (Z.to_nat 20000) o m <> Raises ERecursion.
Proof.
  intros C o m Hu H. apply run_never_out_of_fuel. exact Hu.
  destruct (o_level o =? -1).
  - set (n := length (retained ZD o m)) in *. nia.
  - lia.
Qed.

Corollary exec_run_succeeds : forall C o m sc,
  check_opts o = true -> scene_of ZD o m = Ok sc -> 0 <= m_unit2 ZD m ->
  (if o_level o =? -1 then (length (retained ZD o m) <= 141)%nat else o_level o < 20000) ->
  exists st, run ZD C (Z.to_nat 20000) o m = Ok st.
Proof.
  intros C o m sc Hc Hs Hu H. apply (run_succeeds C _ o m sc Hc Hs Hu).
  destruct (o_level o =? -1).
  - set (n := length (retained ZD o m)) in *. nia.
  - lia.
Qed.
