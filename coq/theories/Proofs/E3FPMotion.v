(* C01, part 3: the whole run of the fingerprinter is unchanged when the conformer is moved by x |-> M x + t.

   `move M t m` changes `a_pos` of every atom and nothing else.  The scene of the moved molecule is the scene of the
   original with every link vector mapped by M (squared distances, bond codes, atoms, level-0 identifiers and the
   length unit are equal); the iteration reads link vectors only inside `Stereo.codes`, which is invariant for
   det M = 1 (StereoMotion.codes_equivariant) and is not called at all when stereo is off.  A `state` contains no
   vectors, so the conclusion is a Leibniz equality of results. *)
From Coq Require Import ZArith List Bool Ring QArith.
From E3FP Require Import Base.Prelude Base.ZSet Base.Murmur3 Model.Geometry Model.Stereo Model.Fprint Model.E3FP
  Gen.Constants Gen.AngleTable Proofs.GeomLaws Proofs.StereoMotion.
Import ListNotations.
Open Scope Z_scope.

Lemma filter_map_comm : forall {A B} (f : A -> B) (p : B -> bool) (q : A -> bool),
  (forall a, p (f a) = q a) -> forall l, filter p (map f l) = map f (filter q l).
Proof.
  intros A B f p q H l. induction l as [|a l IH]; cbn; [reflexivity|].
  rewrite H. destruct (q a); cbn; rewrite IH; reflexivity.
Qed.

Lemma aget_map : forall {A B} (f : A -> B) (d : A) (m : amap A) (k : Z),
  aget (f d) (map (fun kv => (fst kv, f (snd kv))) m) k = f (aget d m k).
Proof.
  intros A B f d m k. induction m as [|[k' v] m IH]; cbn; [reflexivity|].
  destruct (k =? k'); [reflexivity | exact IH].
Qed.

Section Motion.
Variable D : ringdict.
Hypothesis L : ringlaws D.
Variable C : sconsts.
Variable M : mat D.
Variable t : vec D.
Hypothesis HO : orth D M.

(* ---- the moved molecule ------------------------------------------------------------------------ *)
Definition mvatom (a : atom D) : atom D :=
  mkatom D (a_idx D a) (a_num D a) (a_deg D a) (a_tdeg D a) (a_tval D a) (a_nh D a) (a_mass D a) (a_charge D a)
         (a_ring D a) (a_dmass D a) (vadd D (mv D M (a_pos D a)) t).

Definition move (m : mol D) : mol D := mkmol D (map mvatom (m_atoms D m)) (m_bonds D m) (m_unit2 D m).

(* ---- the moved scene --------------------------------------------------------------------------- *)
Definition mvlink (l : link D) : link D :=
  mklink D (lk_b D l) (lk_d2 D l) (mv D M (lk_vec D l)) (lk_conn D l) (lk_bonded D l).

Definition mvscene (sc : scene D) : scene D :=
  mkscene D (sc_atoms D sc) (sc_ident0 D sc)
          (map (fun kv => (fst kv, map mvlink (snd kv))) (sc_links D sc)) (sc_unit2 D sc).

Lemma retained_move : forall o m, retained D o (move m) = map mvatom (retained D o m).
Proof.
  intros o m. unfold retained, move. cbn [m_atoms].
  rewrite (filter_map_comm mvatom (fun a => 1 <? a_num D a) (fun a => 1 <? a_num D a)) by reflexivity.
  rewrite (filter_map_comm mvatom (fun a => (1 <? a_num D a) && (0 <? a_deg D a))
                                  (fun a => (1 <? a_num D a) && (0 <? a_deg D a))) by reflexivity.
  rewrite map_length.
  destruct (o_exfloat o && (1 <? Z.of_nat (length (filter (fun a => 1 <? a_num D a) (m_atoms D m))))); reflexivity.
Qed.

(* the two folds of scene_of, named *)
Definition mk_links (m : mol D) (a : atom D) (bs : list (atom D)) : option (list (link D)) :=
  fold_right (fun b acc =>
    match acc with
    | None => None
    | Some l =>
      if a_idx D b =? a_idx D a then Some l
      else match conn_code D m (a_idx D a) (a_idx D b) with
           | None => None
           | Some c => let v := vsub D (a_pos D b) (a_pos D a) in
                       Some (mklink D (a_idx D b) (dot D v v) v c
                              (match bond_between D m (a_idx D a) (a_idx D b) with Some _ => true | None => false end) :: l)
           end
    end) (Some []) bs.

Definition all_links (m : mol D) (ats : list (atom D)) (l : list (atom D)) : option (amap (list (link D))) :=
  fold_right (fun a acc =>
    match acc, mk_links m a ats with
    | Some l, Some ls => Some ((a_idx D a, ls) :: l)
    | _, _ => None
    end) (Some []) l.

Lemma scene_of_unfold : forall o m,
  scene_of D o m =
  let ats := retained D o m in
  match map (a_idx D) ats with
  | [] => Raises EValue
  | ids =>
    match all_links m ats ats with
    | None => Raises EKey
    | Some ls =>
      Ok (mkscene D ids
            (map (fun a => (a_idx D a, hash_i64 mmh3_seed (if o_rdkit o then rdkit_inv D a else daylight_inv D a))) ats)
            ls (m_unit2 D m))
    end
  end.
Proof. intros. unfold scene_of. cbv zeta. destruct (map (a_idx D) (retained D o m)); reflexivity. Qed.

Lemma mk_links_move : forall m a bs,
  mk_links (move m) (mvatom a) (map mvatom bs) = option_map (map mvlink) (mk_links m a bs).
Proof.
  intros m a bs. induction bs as [|b bs IH]; [reflexivity|].
  unfold mk_links in *. cbn [map fold_right]. rewrite IH. clear IH.
  match goal with |- context [option_map _ (match ?X with _ => _ end)] => destruct X as [l|] end; [|reflexivity].
  cbn [option_map]. change (a_idx D (mvatom b)) with (a_idx D b). change (a_idx D (mvatom a)) with (a_idx D a).
  destruct (a_idx D b =? a_idx D a); [reflexivity|].
  change (conn_code D (move m)) with (conn_code D m). change (bond_between D (move m)) with (bond_between D m).
  destruct (conn_code D m (a_idx D a) (a_idx D b)) as [c|]; [|reflexivity].
  cbv zeta. cbn [a_pos mvatom]. rewrite (move_diff D L), (dot_mv D L) by exact HO. reflexivity.
Qed.

Lemma all_links_move : forall m ats l,
  all_links (move m) (map mvatom ats) (map mvatom l) =
  option_map (map (fun kv => (fst kv, map mvlink (snd kv)))) (all_links m ats l).
Proof.
  intros m ats l. induction l as [|a l IH]; [reflexivity|].
  unfold all_links in *. cbn [map fold_right]. rewrite IH, mk_links_move. clear IH.
  match goal with |- context [option_map _ (match ?X with _ => _ end)] => destruct X as [x|] end; [|reflexivity].
  cbn [option_map]. destruct (mk_links m a ats); reflexivity.
Qed.

(* scene of the moved molecule = moved scene of the molecule (same exceptions) *)
Theorem scene_of_move : forall o m,
  scene_of D o (move m) = match scene_of D o m with Ok sc => Ok (mvscene sc) | Raises e => Raises e end.
Proof.
  intros o m. rewrite !scene_of_unfold. cbv zeta. rewrite retained_move, all_links_move.
  rewrite !map_map. change (fun x => a_idx D (mvatom x)) with (a_idx D).
  destruct (map (a_idx D) (retained D o m)) as [|i ids]; [reflexivity|].
  destruct (all_links m (retained D o m) (retained D o m)) as [ls|]; reflexivity.
Qed.

(* ---- the iteration on the moved scene ---------------------------------------------------------- *)
Variable o : opts.
Hypothesis HS : o_stereo o = false \/ mdet D M = f1 D.

Lemma links_of_mv : forall sc a, links_of D (mvscene sc) a = map mvlink (links_of D sc a).
Proof. intros. unfold links_of, mvscene. cbn [sc_links]. apply (aget_map (map mvlink) []). Qed.

Lemma nbrs_mv : forall sc k a, nbrs D o (mvscene sc) k a = map mvlink (nbrs D o sc k a).
Proof.
  intros. unfold nbrs. rewrite links_of_mv. apply filter_map_comm. intro l. reflexivity.
Qed.

Lemma ident_next_mv : forall sc k prev a nl,
  ident_next D C o (mvscene sc) k prev a (map mvlink nl) = ident_next D C o sc k prev a nl.
Proof.
  intros. unfold ident_next. cbv zeta.
  rewrite map_map.
  change (map (fun x => mknb (lk_conn D (mvlink x)) (aget 0 (l_ident prev) (lk_b D (mvlink x))) (lk_vec D (mvlink x))) nl)
    with (map (fun x => mvnb D M (mknb (lk_conn D x) (aget 0 (l_ident prev) (lk_b D x)) (lk_vec D x))) nl).
  rewrite <- (map_map (fun x => mknb (lk_conn D x) (aget 0 (l_ident prev) (lk_b D x)) (lk_vec D x)) (mvnb D M)).
  rewrite (sort_by_map (mvnb D M) (fun x y => key2_leb (nb_key D x) (nb_key D y))
                                  (fun x y => key2_leb (nb_key D x) (nb_key D y))) by reflexivity.
  change (sc_unit2 D (mvscene sc)) with (sc_unit2 D sc).
  destruct (o_stereo o) eqn:Est.
  - destruct HS as [HS'|HD]; [discriminate|].
    rewrite (codes_equivariant D L C (sc_unit2 D sc) M HO HD).
    rewrite combine_map_l, map_map. reflexivity.
  - rewrite map_map. reflexivity.
Qed.

Lemma next_level_mv : forall sc k levels, next_level D C o (mvscene sc) k levels = next_level D C o sc k levels.
Proof.
  intros. unfold next_level. destruct levels as [|prev rest]; [reflexivity|].
  cbv zeta. change (sc_atoms D (mvscene sc)) with (sc_atoms D sc).
  assert (E : forall a,
    (a, (ident_next D C o (mvscene sc) k prev a (nbrs D o (mvscene sc) k a),
         usort (a :: flat_map (fun l => aget [] (l_sub prev) (lk_b D l)) (nbrs D o (mvscene sc) k a)),
         sort_by zpair_leb (map (fun l => (lk_b D l, aget 0 (l_canon prev) (lk_b D l))) (nbrs D o (mvscene sc) k a)),
         canon_search a (sort_by zpair_leb (map (fun l => (lk_b D l, aget 0 (l_canon prev) (lk_b D l)))
                                                (nbrs D o (mvscene sc) k a))) (rev (prev :: rest)) 0 k))
    =
    (a, (ident_next D C o sc k prev a (nbrs D o sc k a),
         usort (a :: flat_map (fun l => aget [] (l_sub prev) (lk_b D l)) (nbrs D o sc k a)),
         sort_by zpair_leb (map (fun l => (lk_b D l, aget 0 (l_canon prev) (lk_b D l))) (nbrs D o sc k a)),
         canon_search a (sort_by zpair_leb (map (fun l => (lk_b D l, aget 0 (l_canon prev) (lk_b D l)))
                                                (nbrs D o sc k a))) (rev (prev :: rest)) 0 k))).
  { intro a. rewrite nbrs_mv, ident_next_mv, flat_map_map, map_map. reflexivity. }
  rewrite (map_ext _ _ E). reflexivity.
Qed.

Lemma step_mv : forall sc st, step D C o (mvscene sc) st = step D C o sc st.
Proof.
  intros. unfold step. rewrite next_level_mv. reflexivity.
Qed.

Lemma iterate_mv : forall sc fuel st, iterate D C o (mvscene sc) fuel st = iterate D C o sc fuel st.
Proof.
  intros sc fuel. induction fuel as [|f IH]; intro st; cbn [iterate]; [reflexivity|].
  rewrite step_mv. destruct (step D C o sc st); [apply IH | reflexivity].
Qed.

Theorem run_move : forall fuel m, run D C fuel o (move m) = run D C fuel o m.
Proof.
  intros. unfold run. destruct (negb (check_opts o)); [reflexivity|].
  rewrite scene_of_move. destruct (scene_of D o m) as [sc|e]; [|reflexivity].
  cbn [rbind]. rewrite iterate_mv. reflexivity.
Qed.

End Motion.

(* ---- the two headline statements ---------------------------------------------------------------- *)
Section Headline.
Variable D : ringdict.
Hypothesis L : ringlaws D.
Variable C : sconsts.

(* proper rigid motions, every option setting *)
Theorem fp_rigid_invariant : forall (M : mat D) (t : vec D), orth D M -> mdet D M = f1 D ->
  forall (fuel : nat) (o : opts) (m : mol D), run D C fuel o (move D M t m) = run D C fuel o m.
Proof. intros M t HO HD fuel o m. apply (run_move D L C M t HO o); right; exact HD. Qed.

(* every isometry (reflections included) when stereo is off *)
Theorem fp_isometry_invariant_nostereo : forall (M : mat D) (t : vec D), orth D M ->
  forall (fuel : nat) (o : opts) (m : mol D), o_stereo o = false ->
  run D C fuel o (move D M t m) = run D C fuel o m.
Proof. intros M t HO fuel o m HS. apply (run_move D L C M t HO o); left; exact HS. Qed.

(* every fingerprint that can be requested from the run: any level request, fold size, bit or count, atom mask;
   also the shells themselves (identifier, centre, substructure) *)
Definition fp_of (fuel : nat) (o : opts) (m : mol D) (counts : bool) (bits : Z) (req : option Z) (mask : list Z)
  : result fp :=
  rbind (run D C fuel o m) (fun st => fingerprint_query o counts bits st req mask).

Definition shells_of (fuel : nat) (o : opts) (m : mol D) (req : option Z) (mask : list Z) : result (list shell) :=
  rbind (run D C fuel o m) (fun st => Ok (shells_query o st req mask)).

Corollary fingerprint_rigid_invariant : forall (M : mat D) (t : vec D), orth D M -> mdet D M = f1 D ->
  forall fuel o m counts bits req mask,
  fp_of fuel o (move D M t m) counts bits req mask = fp_of fuel o m counts bits req mask
  /\ shells_of fuel o (move D M t m) req mask = shells_of fuel o m req mask.
Proof. intros. unfold fp_of, shells_of. rewrite fp_rigid_invariant by assumption. split; reflexivity. Qed.

Corollary fingerprint_isometry_invariant_nostereo : forall (M : mat D) (t : vec D), orth D M ->
  forall fuel o m counts bits req mask, o_stereo o = false ->
  fp_of fuel o (move D M t m) counts bits req mask = fp_of fuel o m counts bits req mask
  /\ shells_of fuel o (move D M t m) req mask = shells_of fuel o m req mask.
Proof. intros. unfold fp_of, shells_of. rewrite fp_isometry_invariant_nostereo by assumption. split; reflexivity. Qed.

End Headline.

(* ---- non-vacuity: a chiral five-atom molecule (C bonded to F, Cl, Br, O-), coordinates in 1/1000 Angstrom ------- *)
Definition zv := @mkvec ZD.
Definition ex_mol : mol ZD := mkmol ZD
  [ mkatom ZD 0 6 4 4 4 0 12 0 0 0 (zv 0 0 0);
    mkatom ZD 1 9 1 1 1 0 18 0 0 0 (zv 1300 200 100);
    mkatom ZD 2 17 1 1 1 0 35 0 0 0 (zv (-500) 1500 (-300));
    mkatom ZD 3 35 1 1 1 0 79 0 0 0 (zv (-600) (-900) 1200);
    mkatom ZD 4 8 1 1 1 0 15 (-1) 0 0 (zv (-400) (-700) (-1100)) ]
  [ (0, 1, BtSingle); (0, 2, BtSingle); (0, 3, BtSingle); (0, 4, BtSingle) ]
  1000000.
(* level 2, radius multiplier 1.718 (the exact double), stereo, duplicate removal, disconnected atoms included *)
Definition ex_opts : opts := mkopts 2 483574009988907 281474976710656 true true true false true.
Definition ex_opts_nostereo : opts := mkopts 2 483574009988907 281474976710656 false true true false true.
(* the four neighbour vectors of the central atom with distinct identifiers *)
Definition ex_ns : list (nb ZD) :=
  [ mknb 1 10 (zv 1300 200 100); mknb 1 20 (zv (-500) 1500 (-300)); mknb 1 30 (zv (-600) (-900) 1200);
    mknb 1 40 (zv (-400) (-700) (-1100)) ].
Definition ex_t : vec ZD := zv 7 (-3) 11.

(* the stereo branch with a unique y and a unique z is taken: all four quadrant / pole codes occur *)
Example ex_codes : codes ZD e3fp_consts 1000000 ex_ns = [1; -2; -5; -3].
Proof. vm_compute. reflexivity. Qed.
(* a proper rotation keeps them (an instance of codes_equivariant, here by computation) ... *)
Example ex_codes_rot : codes ZD e3fp_consts 1000000 (map (mvnb ZD rotZperm) ex_ns) = [1; -2; -5; -3].
Proof. vm_compute. reflexivity. Qed.
(* ... and a reflection does not: the hypothesis det M = 1 of codes_equivariant cannot be dropped *)
Example ex_codes_refl : codes ZD e3fp_consts 1000000 (map (mvnb ZD reflZ) ex_ns) = [1; -2; -3; -5].
Proof. vm_compute. reflexivity. Qed.

(* the run succeeds on the example (the theorems are not about two exceptions being equal) *)
Example ex_run_ok : is_ok (run ZD e3fp_consts 50 ex_opts ex_mol) = true
                 /\ is_ok (run ZD e3fp_consts 50 ex_opts_nostereo ex_mol) = true.
Proof. vm_compute. split; reflexivity. Qed.

(* with stereo on, the mirror image has a different fingerprint: det M = 1 is necessary in fp_rigid_invariant *)
Example ex_reflection_changes_stereo_fp :
  orth ZD reflZ /\ run ZD e3fp_consts 50 ex_opts (move ZD reflZ ex_t ex_mol) <> run ZD e3fp_consts 50 ex_opts ex_mol.
Proof.
  split; [vm_compute; intuition reflexivity|].
  intro H.
  apply (f_equal (fun r => match r with Ok st => map (map s_ident) (st_shells st) | Raises _ => [] end)) in H.
  revert H. vm_compute. discriminate.
Qed.
