(* M1 is invariant under strictly increasing relabellings of the atom indices (the "monotone renaming" of DESIGN 5a).

   If rho : Z -> Z is strictly increasing, the run on the molecule whose atom indices (and bond end points) are replaced
   by their images under rho is the run on the original molecule with every stored atom index replaced by its image;
   identifiers are untouched, so every fingerprint is literally the same.  This covers RDKit's renumbering after
   RWMol.RemoveAtom: the new indices 0..n'-1 are contiguous and new -> old is strictly increasing on that interval, so it
   extends to a strictly increasing map on Z (extend_mono below); hence, together with Proofs/E3FPScene.v, the
   fingerprints of the molecule with its floating atoms *removed and renumbered* equal those of the original molecule
   when exclude_floating is on (deleted_renumbered_same_fingerprints). *)
From Coq Require Import ZArith List Bool Lia.
From E3FP Require Import Base.Prelude Base.ZSet Base.Murmur3 Model.Geometry Model.Stereo Model.Fprint Gen.Constants Model.E3FP
  Proofs.E3FPScene.
Import ListNotations.
Open Scope Z_scope.

(* ---- generic list facts -------------------------------------------------------------------------------- *)
Lemma find_map {A B} (g : A -> B) (p : B -> bool) l : find p (map g l) = option_map g (find (fun x => p (g x)) l).
Proof. induction l as [|x l IH]; simpl; [reflexivity|]. destruct (p (g x)); [reflexivity | exact IH]. Qed.

Lemma find_ext' {A} (p q : A -> bool) l : (forall x, p x = q x) -> find p l = find q l.
Proof. intro H. induction l as [|x l IH]; simpl; [reflexivity|]. rewrite H, IH. reflexivity. Qed.

Lemma fold_right_map_rel {A A' B B'} (g : A -> A') (R : B -> B' -> Prop) (f : A -> B -> B) (f' : A' -> B' -> B') i i' l :
  R i i' -> (forall x acc acc', R acc acc' -> R (f x acc) (f' (g x) acc')) ->
  R (fold_right f i l) (fold_right f' i' (map g l)).
Proof. intros Hi Hs. induction l as [|x l IH]; simpl; [exact Hi | apply Hs; exact IH]. Qed.

Lemma filter_map_comm2 {A B} (p : A -> bool) (q : B -> bool) (g : A -> B) l :
  (forall x, q (g x) = p x) -> filter q (map g l) = map g (filter p l).
Proof. intro H. induction l as [|x l IH]; simpl; [reflexivity|]. rewrite H. destruct (p x); simpl; congruence. Qed.

Lemma sort_by_map {A B} (g : A -> B) (leb : A -> A -> bool) (leb' : B -> B -> bool) l :
  (forall x y, leb' (g x) (g y) = leb x y) -> sort_by leb' (map g l) = map g (sort_by leb l).
Proof.
  intro H. unfold sort_by. induction l as [|x l IH]; simpl; [reflexivity|]. rewrite IH.
  generalize (fold_right (insert_by leb) [] l). intro s. induction s as [|y s IHs]; simpl; [reflexivity|].
  rewrite H. destruct (leb x y); simpl; [reflexivity | rewrite IHs; reflexivity].
Qed.

Lemma existsb_map {A B} (g : A -> B) (p : B -> bool) l : existsb p (map g l) = existsb (fun x => p (g x)) l.
Proof. induction l as [|x l IH]; simpl; [reflexivity | rewrite IH; reflexivity]. Qed.

Lemma forallb_map {A B} (g : A -> B) (p : B -> bool) l : forallb p (map g l) = forallb (fun x => p (g x)) l.
Proof. induction l as [|x l IH]; simpl; [reflexivity | rewrite IH; reflexivity]. Qed.

Lemma flat_map_map {A B C} (g : A -> B) (f : B -> list C) l : flat_map f (map g l) = flat_map (fun x => f (g x)) l.
Proof. induction l as [|x l IH]; simpl; [reflexivity | rewrite IH; reflexivity]. Qed.

Lemma map_flat_map {A B C} (g : B -> C) (f : A -> list B) l : map g (flat_map f l) = flat_map (fun x => map g (f x)) l.
Proof. induction l as [|x l IH]; simpl; [reflexivity | rewrite map_app, IH; reflexivity]. Qed.

Lemma list_eqb_map {A B} (g : A -> B) (e : A -> A -> bool) (e' : B -> B -> bool) :
  (forall x y, e' (g x) (g y) = e x y) -> forall a b, list_eqb e' (map g a) (map g b) = list_eqb e a b.
Proof.
  intro H. induction a as [|x a IH]; destruct b as [|y b]; simpl; try reflexivity. rewrite H, IH. reflexivity.
Qed.

Lemma existsb_ext' {A} (p q : A -> bool) l : (forall x, p x = q x) -> existsb p l = existsb q l.
Proof. intro H. induction l as [|x l IH]; simpl; [reflexivity | rewrite H, IH; reflexivity]. Qed.

Lemma forallb_ext' {A} (p q : A -> bool) l : (forall x, p x = q x) -> forallb p l = forallb q l.
Proof. intro H. induction l as [|x l IH]; simpl; [reflexivity | rewrite H, IH; reflexivity]. Qed.

Section Rename.
Variable D : ringdict.
Variable rho : Z -> Z.
Hypothesis rho_mono : forall x y, x < y -> rho x < rho y.

Lemma rho_inj x y : rho x = rho y -> x = y.
Proof.
  intro H. destruct (Z.lt_trichotomy x y) as [L|[E|L]]; [|exact E|]; apply rho_mono in L; lia.
Qed.

Lemma rho_eqb x y : (rho x =? rho y) = (x =? y).
Proof.
  destruct (x =? y) eqn:E; [apply Z.eqb_eq in E; subst; apply Z.eqb_refl|].
  apply Z.eqb_neq in E. apply Z.eqb_neq. intro H. apply E, rho_inj, H.
Qed.

Lemma rho_ltb x y : (rho x <? rho y) = (x <? y).
Proof.
  destruct (x <? y) eqn:E; [apply Z.ltb_lt in E; apply Z.ltb_lt, rho_mono, E|].
  apply Z.ltb_ge in E. apply Z.ltb_ge. destruct (Z.eq_dec x y) as [->|N]; [lia|].
  assert (L : y < x) by lia. apply rho_mono in L. lia.
Qed.

Lemma rho_leb x y : (rho x <=? rho y) = (x <=? y).
Proof.
  rewrite !Z.leb_antisym. rewrite rho_ltb. reflexivity.
Qed.

(* ---- association lists keyed by atom index ---------------------------------------------------------------- *)
Definition rk {A B} (f : A -> B) (m : amap A) : amap B := map (fun kv => (rho (fst kv), f (snd kv))) m.

Lemma aget_rk {A B} (f : A -> B) d (m : amap A) a : aget (f d) (rk f m) (rho a) = f (aget d m a).
Proof.
  induction m as [|[k v] m IH]; simpl; [reflexivity|]. rewrite rho_eqb. destruct (a =? k); [reflexivity | exact IH].
Qed.

Lemma rk_map {A B} (f : A -> B) (h : Z -> A) l :
  rk f (map (fun a => (a, h a)) l) = map (fun a => (rho a, f (h a))) l.
Proof. unfold rk. rewrite map_map. reflexivity. Qed.

Lemma usort_map_rho l : usort (map rho l) = map rho (usort l).
Proof.
  unfold usort. induction l as [|x l IH]; simpl; [reflexivity|]. rewrite IH.
  generalize (fold_right zinsert [] l). intro s. induction s as [|y s IHs]; simpl; [reflexivity|].
  rewrite rho_ltb, rho_eqb. destruct (x <? y); simpl; [reflexivity|]. destruct (x =? y); simpl; [reflexivity | rewrite IHs; reflexivity].
Qed.

Lemma zmem_map_rho x l : zmem (rho x) (map rho l) = zmem x l.
Proof. induction l as [|y l IH]; simpl; [reflexivity|]. rewrite rho_eqb, IH. reflexivity. Qed.

Lemma zlist_eqb_map_rho a b : zlist_eqb (map rho a) (map rho b) = zlist_eqb a b.
Proof. unfold zlist_eqb. apply list_eqb_map. apply rho_eqb. Qed.

(* ---- molecules ------------------------------------------------------------------------------------------------ *)
Definition ra (a : atom D) : atom D :=
  mkatom D (rho (a_idx D a)) (a_num D a) (a_deg D a) (a_tdeg D a) (a_tval D a) (a_nh D a) (a_mass D a) (a_charge D a)
         (a_ring D a) (a_dmass D a) (a_pos D a).

Definition rbond (e : Z * Z * bond_tag) : Z * Z * bond_tag := let '(x, y, t) := e in (rho x, rho y, t).

Definition rename_mol (m : mol D) : mol D := mkmol D (map ra (m_atoms D m)) (map rbond (m_bonds D m)) (m_unit2 D m).

Definition rl (l : link D) : link D := mklink D (rho (lk_b D l)) (lk_d2 D l) (lk_vec D l) (lk_conn D l) (lk_bonded D l).

Definition rename_scene (sc : scene D) : scene D :=
  mkscene D (map rho (sc_atoms D sc)) (rk (fun v => v) (sc_ident0 D sc)) (rk (map rl) (sc_links D sc)) (sc_unit2 D sc).

Lemma retained_rename o m : retained D o (rename_mol m) = map ra (retained D o m).
Proof.
  unfold retained, rename_mol; cbn [m_atoms].
  rewrite !(filter_map_comm2 (fun a => 1 <? a_num D a) (fun a => 1 <? a_num D a) ra) by reflexivity.
  rewrite map_length.
  rewrite (filter_map_comm2 (fun a => (1 <? a_num D a) && (0 <? a_deg D a)) (fun a => (1 <? a_num D a) && (0 <? a_deg D a)) ra)
    by reflexivity.
  destruct (_ && _); reflexivity.
Qed.

Lemma bond_between_rename m a b : bond_between D (rename_mol m) (rho a) (rho b) = bond_between D m a b.
Proof.
  unfold bond_between, rename_mol; cbn [m_bonds]. rewrite find_map.
  rewrite (find_ext' _ (fun e => let '(x, y, _) := e in ((x =? a) && (y =? b)) || ((x =? b) && (y =? a)))).
  2:{ intros [[x y] t]. cbn [rbond]. rewrite !rho_eqb. reflexivity. }
  destruct (find _ (m_bonds D m)) as [[[x y] t]|]; reflexivity.
Qed.

Lemma conn_code_rename m a b : conn_code D (rename_mol m) (rho a) (rho b) = conn_code D m a b.
Proof. unfold conn_code. rewrite bond_between_rename. reflexivity. Qed.

Lemma mk_links_rename m l a :
  mk_links D (rename_mol m) (map ra l) (ra a) = option_map (map rl) (mk_links D m l a).
Proof.
  unfold mk_links. symmetry.
  apply (fold_right_map_rel ra (fun acc acc' => option_map (map rl) acc = acc')); [reflexivity|].
  intros b acc acc' <-. destruct acc as [ls|]; cbn [option_map]; [|reflexivity].
  cbn [ra a_idx a_pos]. rewrite rho_eqb. destruct (a_idx D b =? a_idx D a); [reflexivity|].
  rewrite conn_code_rename, bond_between_rename. destruct (conn_code D m (a_idx D a) (a_idx D b)); reflexivity.
Qed.

Lemma all_links_rename m ats :
  all_links D (rename_mol m) (map ra ats) = option_map (rk (map rl)) (all_links D m ats).
Proof.
  unfold all_links. symmetry.
  apply (fold_right_map_rel ra (fun acc acc' => option_map (rk (map rl)) acc = acc')); [reflexivity|].
  intros a acc acc' <-. rewrite mk_links_rename.
  destruct acc as [l|]; cbn [option_map]; [|reflexivity].
  destruct (mk_links D m ats a); reflexivity.
Qed.

Definition rmap {A B} (f : A -> B) (r : result A) : result B := match r with Ok a => Ok (f a) | Raises e => Raises e end.

Theorem scene_of_rename o m : scene_of D o (rename_mol m) = rmap rename_scene (scene_of D o m).
Proof.
  rewrite !scene_of_eq. cbv zeta. rewrite retained_rename, all_links_rename.
  set (ats := retained D o m).
  assert (Hm : map (a_idx D) (map ra ats) = map rho (map (a_idx D) ats)) by (rewrite !map_map; reflexivity).
  assert (Hi : ident0_of D o (map ra ats) = rk (fun v => v) (ident0_of D o ats))
    by (unfold ident0_of, rk; rewrite !map_map; reflexivity).
  rewrite Hm, Hi.
  destruct (map (a_idx D) ats) as [|i js] eqn:E; [reflexivity|]. cbn [map].
  destruct (all_links D m ats) as [ls|]; reflexivity.
Qed.


(* ---- the iteration ------------------------------------------------------------------------------------------------ *)
Variable C : sconsts.
Variable o : opts.

Definition rpair (p : Z * Z) : Z * Z := (rho (fst p), snd p).

Definition rlvl (l : lvl) : lvl :=
  mklvl (rk (fun v => v) (l_ident l)) (rk (map rho) (l_sub l)) (rk (map rpair) (l_mem l)) (rk (fun v => v) (l_canon l)).

Definition rsh (s : shell) : shell := mkshell (rho (s_center s)) (s_canon s) (s_ident s) (map rho (s_sub s)).

Definition rstate (st : state) : state :=
  mkstate (st_k st) (map rlvl (st_levels st)) (map (map rho) (st_past st)) (map (map rsh) (st_shells st)).

Definition rout (x : outcome) : outcome := match x with Continue s => Continue (rstate s) | Stop s => Stop (rstate s) end.

Lemma links_of_rename sc a : links_of D (rename_scene sc) (rho a) = map rl (links_of D sc a).
Proof. unfold links_of, rename_scene; cbn [sc_links]. exact (aget_rk (map rl) [] _ a). Qed.

Lemma near_rename sc k l : near D o (rename_scene sc) k (rl l) = near D o sc k l.
Proof. reflexivity. Qed.

Lemma nbrs_rename sc k a : nbrs D o (rename_scene sc) k (rho a) = map rl (nbrs D o sc k a).
Proof. unfold nbrs. rewrite links_of_rename. apply filter_map_comm2. intro l. reflexivity. Qed.

Lemma level0_rename sc : level0 D (rename_scene sc) = rlvl (level0 D sc).
Proof.
  unfold level0, rlvl, rename_scene; cbn [sc_atoms sc_ident0 l_ident l_sub l_mem l_canon].
  rewrite !rk_map, !map_map. reflexivity.
Qed.

Lemma aget_ident_rlvl l a : aget 0 (l_ident (rlvl l)) (rho a) = aget 0 (l_ident l) a.
Proof. exact (aget_rk (fun v => v) 0 _ a). Qed.
Lemma aget_canon_rlvl l a : aget 0 (l_canon (rlvl l)) (rho a) = aget 0 (l_canon l) a.
Proof. exact (aget_rk (fun v => v) 0 _ a). Qed.
Lemma aget_sub_rlvl l a : aget [] (l_sub (rlvl l)) (rho a) = map rho (aget [] (l_sub l) a).
Proof. exact (aget_rk (map rho) [] _ a). Qed.
Lemma aget_mem_rlvl l a : aget [] (l_mem (rlvl l)) (rho a) = map rpair (aget [] (l_mem l) a).
Proof. exact (aget_rk (map rpair) [] _ a). Qed.

Lemma nbmap_rename prev nl :
  map (fun l => mknb (lk_conn D l) (aget 0 (l_ident (rlvl prev)) (lk_b D l)) (lk_vec D l)) (map rl nl)
  = map (fun l => mknb (lk_conn D l) (aget 0 (l_ident prev) (lk_b D l)) (lk_vec D l)) nl.
Proof. rewrite map_map. apply map_ext. intro l. cbn [rl lk_conn lk_b lk_vec]. rewrite aget_ident_rlvl. reflexivity. Qed.

Lemma ident_next_rename sc k prev a nl :
  ident_next D C o (rename_scene sc) k (rlvl prev) (rho a) (map rl nl) = ident_next D C o sc k prev a nl.
Proof.
  unfold ident_next. rewrite nbmap_rename, aget_ident_rlvl. reflexivity.
Qed.

Lemma zpair_eqb_rpair x y : zpair_eqb (rpair x) (rpair y) = zpair_eqb x y.
Proof. unfold zpair_eqb, rpair; cbn [fst snd]. rewrite rho_eqb. reflexivity. Qed.

Lemma zpair_leb_rpair x y : zpair_leb (rpair x) (rpair y) = zpair_leb x y.
Proof. unfold zpair_leb, rpair; cbn [fst snd]. rewrite rho_ltb, rho_eqb. reflexivity. Qed.

Lemma canon_search_rename a ms hist : forall j dflt,
  canon_search (rho a) (map rpair ms) (map rlvl hist) j dflt = canon_search a ms hist j dflt.
Proof.
  induction hist as [|l t IH]; intros j dflt; cbn [map canon_search]; [reflexivity|].
  rewrite aget_mem_rlvl, (list_eqb_map rpair zpair_eqb zpair_eqb zpair_eqb_rpair), IH. reflexivity.
Qed.

(* one row of next_level *)
Definition entry (sc : scene D) (k : Z) (levels : list lvl) (prev : lvl) (a : Z) : Z * (Z * list Z * list (Z * Z) * Z) :=
  let nl := nbrs D o sc k a in
  let ms := sort_by zpair_leb (map (fun l => (lk_b D l, aget 0 (l_canon prev) (lk_b D l))) nl) in
  (a, (ident_next D C o sc k prev a nl,
       usort (a :: flat_map (fun l => aget [] (l_sub prev) (lk_b D l)) nl),
       ms,
       canon_search a ms (rev levels) 0 k)).

Definition rentry (x : Z * (Z * list Z * list (Z * Z) * Z)) : Z * (Z * list Z * list (Z * Z) * Z) :=
  let '(a, (i, s, ms, c)) := x in (rho a, (i, map rho s, map rpair ms, c)).

Lemma next_level_eq sc k prev rest :
  next_level D C o sc k (prev :: rest) =
  let per := map (entry sc k (prev :: rest) prev) (sc_atoms D sc) in
  mklvl (map (fun x => (fst x, fst (fst (fst (snd x))))) per)
        (map (fun x => (fst x, snd (fst (fst (snd x))))) per)
        (map (fun x => (fst x, snd (fst (snd x)))) per)
        (map (fun x => (fst x, snd (snd x))) per).
Proof. reflexivity. Qed.

Lemma entry_rename sc k levels prev a :
  entry (rename_scene sc) k (map rlvl levels) (rlvl prev) (rho a) = rentry (entry sc k levels prev a).
Proof.
  unfold entry. cbv zeta. rewrite nbrs_rename. set (nl := nbrs D o sc k a).
  assert (Hms : sort_by zpair_leb (map (fun l => (lk_b D l, aget 0 (l_canon (rlvl prev)) (lk_b D l))) (map rl nl))
                = map rpair (sort_by zpair_leb (map (fun l => (lk_b D l, aget 0 (l_canon prev) (lk_b D l))) nl))).
  { rewrite <- (sort_by_map rpair zpair_leb zpair_leb _ zpair_leb_rpair). f_equal.
    rewrite !map_map. apply map_ext. intro l. cbn [rl lk_b]. rewrite aget_canon_rlvl. reflexivity. }
  rewrite Hms, ident_next_rename, <- map_rev, canon_search_rename.
  unfold rentry. f_equal. f_equal. f_equal. f_equal.
  rewrite flat_map_map.
  rewrite (flat_map_ext _ (fun l => map rho (aget [] (l_sub prev) (lk_b D l)))).
  2:{ intro l. cbn [rl lk_b]. apply aget_sub_rlvl. }
  rewrite <- map_flat_map. change (rho a :: map rho ?t) with (map rho (a :: t)). apply usort_map_rho.
Qed.

Lemma entries_rename sc k levels prev :
  map (entry (rename_scene sc) k (map rlvl levels) (rlvl prev)) (sc_atoms D (rename_scene sc))
  = map rentry (map (entry sc k levels prev) (sc_atoms D sc)).
Proof.
  unfold rename_scene at 2; cbn [sc_atoms]. rewrite !map_map. apply map_ext. intro a. apply entry_rename.
Qed.

Lemma next_level_rename sc k levels :
  next_level D C o (rename_scene sc) k (map rlvl levels) = rlvl (next_level D C o sc k levels).
Proof.
  destruct levels as [|prev rest]; [apply level0_rename|].
  cbn [map]. rewrite !next_level_eq. cbv zeta.
  change (rlvl prev :: map rlvl rest) with (map rlvl (prev :: rest)).
  rewrite entries_rename.
  unfold rlvl; cbn [l_ident l_sub l_mem l_canon]. unfold rk. rewrite !map_map.
  f_equal; apply map_ext; intro a; destruct (entry sc k (prev :: rest) prev a) as [x [[[i s] ms] c]]; reflexivity.
Qed.

Lemma shell_of_rename l a : shell_of (rlvl l) (rho a) = rsh (shell_of l a).
Proof. unfold shell_of, rsh; cbn [s_center s_canon s_ident s_sub]. rewrite aget_canon_rlvl, aget_ident_rlvl, aget_sub_rlvl. reflexivity. Qed.

Lemma shells_of_rename sc l :
  map (shell_of (rlvl l)) (sc_atoms D (rename_scene sc)) = map rsh (map (shell_of l) (sc_atoms D sc)).
Proof. unfold rename_scene; cbn [sc_atoms]. rewrite !map_map. apply map_ext. intro a. apply shell_of_rename. Qed.

Lemma init_state_rename sc : init_state D (rename_scene sc) = rstate (init_state D sc).
Proof.
  unfold init_state, rstate; cbn [st_k st_levels st_past st_shells map]. rewrite level0_rename, shells_of_rename.
  f_equal. unfold rename_scene; cbn [sc_atoms]. rewrite !map_map. reflexivity.
Qed.

Lemma mem_sub_rename s past : mem_sub (map rho s) (map (map rho) past) = mem_sub s past.
Proof.
  unfold mem_sub. rewrite existsb_map. induction past as [|p t IH]; simpl; [reflexivity|].
  rewrite zlist_eqb_map_rho, IH. reflexivity.
Qed.

Lemma dedup_rename cands : forall past,
  dedup (map rsh cands) (map (map rho) past) = (map rsh (fst (dedup cands past)), map (map rho) (snd (dedup cands past))).
Proof.
  induction cands as [|s t IH]; intro past; cbn [map dedup]; [reflexivity|].
  cbn [rsh s_sub]. rewrite mem_sub_rename. destruct (mem_sub (s_sub s) past); [apply IH|].
  change (map rho (s_sub s) :: map (map rho) past) with (map (map rho) (s_sub s :: past)). rewrite IH.
  destruct (dedup t (s_sub s :: past)) as [acc p]. reflexivity.
Qed.

Lemma same_shell_rename x y : same_shell (rsh x) (rsh y) = same_shell x y.
Proof. unfold same_shell, rsh; cbn [s_center s_canon]. rewrite rho_eqb. reflexivity. Qed.

Lemma union_shells_rename new : forall old, union_shells (map rsh old) (map rsh new) = map rsh (union_shells old new).
Proof.
  induction new as [|s t IH]; intro old; cbn [map union_shells]; [reflexivity|].
  rewrite existsb_map. rewrite (existsb_ext' _ (same_shell s)) by (intro x; apply same_shell_rename).
  destruct (existsb (same_shell s) old); [apply IH|].
  change [rsh s] with (map rsh [s]). rewrite <- map_app. apply IH.
Qed.

Lemma all_full_rename sc l : all_full D (rename_scene sc) (rlvl l) = all_full D sc l.
Proof.
  unfold all_full, rename_scene; cbn [sc_atoms]. rewrite forallb_map. rewrite map_length.
  apply forallb_ext'. intro a. rewrite aget_sub_rlvl, map_length. reflexivity.
Qed.

Lemma cand_leb_rename x y :
  zpair_leb (s_ident (rsh x), s_center (rsh x)) (s_ident (rsh y), s_center (rsh y))
  = zpair_leb (s_ident x, s_center x) (s_ident y, s_center y).
Proof. unfold zpair_leb, rsh; cbn [fst snd s_ident s_center]. rewrite rho_leb. reflexivity. Qed.

Lemma step_rename sc st : step D C o (rename_scene sc) (rstate st) = rout (step D C o sc st).
Proof.
  destruct st as [k levels past shells]. unfold step, rstate. cbn [st_levels st_shells st_k st_past].
  destruct levels as [|cur lv]; [reflexivity|]. cbn [map].
  destruct shells as [|cs rest]; [reflexivity|]. cbn [map].
  destruct (negb (o_level o =? -1) && (o_level o <=? k)); [reflexivity|].
  rewrite all_full_rename. destruct (o_remdup o && all_full D sc cur); [reflexivity|].
  change (rlvl cur :: map rlvl lv) with (map rlvl (cur :: lv)).
  rewrite next_level_rename, shells_of_rename.
  rewrite (sort_by_map rsh (fun x y => zpair_leb (s_ident x, s_center x) (s_ident y, s_center y))) by exact cand_leb_rename.
  set (cands := sort_by _ (map (shell_of (next_level D C o sc (k + 1) (cur :: lv))) (sc_atoms D sc))).
  destruct (o_remdup o).
  - rewrite dedup_rename. destruct (dedup cands past) as [acc p]. cbn [fst snd].
    rewrite union_shells_rename, !map_length. destruct (Nat.eqb (length (union_shells cs acc)) (length cs)); reflexivity.
  - rewrite union_shells_rename, !map_length. destruct (Nat.eqb (length (union_shells cs cands)) (length cs)); reflexivity.
Qed.

Lemma iterate_rename sc fuel : forall st,
  iterate D C o (rename_scene sc) fuel (rstate st) = option_map rstate (iterate D C o sc fuel st).
Proof.
  induction fuel as [|f IH]; intro st; cbn [iterate]; [reflexivity|].
  rewrite step_rename. destruct (step D C o sc st) as [s|s]; cbn [rout]; [apply IH | reflexivity].
Qed.

Theorem run_rename fuel m : run D C fuel o (rename_mol m) = rmap rstate (run D C fuel o m).
Proof.
  unfold run. destruct (negb (check_opts o)); [reflexivity|].
  rewrite scene_of_rename. destruct (scene_of D o m) as [sc|e]; cbn [rmap rbind]; [|reflexivity].
  rewrite init_state_rename, iterate_rename. destruct (iterate D C o sc fuel (init_state D sc)); reflexivity.
Qed.

(* ---- queries ---------------------------------------------------------------------------------------------------- *)
Lemma shells_at_true_rename st lv : shells_at_true (rstate st) lv = map rsh (shells_at_true st lv).
Proof. unfold shells_at_true, rstate; cbn [st_k st_shells]. exact (map_nth (map rsh) (st_shells st) [] _). Qed.

Lemma resolve_level_rename st req : resolve_level o (rstate st) req = resolve_level o st req.
Proof. reflexivity. Qed.

Lemma disjointb_rename s mask : disjointb (map rho s) (map rho mask) = disjointb s mask.
Proof. unfold disjointb. rewrite forallb_map. apply forallb_ext'. intro x. rewrite zmem_map_rho. reflexivity. Qed.

Theorem shells_query_rename st req mask :
  shells_query o (rstate st) req (map rho mask) = map rsh (shells_query o st req mask).
Proof.
  unfold shells_query. rewrite resolve_level_rename, shells_at_true_rename.
  apply filter_map_comm2. intro s. cbn [rsh s_sub]. apply disjointb_rename.
Qed.

Theorem fingerprint_query_rename counts bits st req mask :
  fingerprint_query o counts bits (rstate st) req (map rho mask) = fingerprint_query o counts bits st req mask.
Proof.
  unfold fingerprint_query. rewrite resolve_level_rename, shells_query_rename, map_map. reflexivity.
Qed.

End Rename.

(* ---- a strictly increasing map given on the contiguous indices 0 .. n-1 extends to all of Z --------------------------- *)
Definition extend (olds : list Z) (x : Z) : Z :=
  let n := Z.of_nat (length olds) in
  if x <? 0 then nth 0 olds 0 + x
  else if x <? n then nth (Z.to_nat x) olds 0
  else nth (length olds - 1) olds 0 + (x - n + 1).

Lemma ssorted_nth_lt l : ssorted l -> forall i j, (i < j < length l)%nat -> nth i l 0 < nth j l 0.
Proof.
  unfold ssorted. induction 1 as [|a l Hs IH Hall]; intros i j Hij; [simpl in Hij; lia|].
  destruct j as [|j]; [lia|]. destruct i as [|i]; cbn [nth].
  - rewrite Forall_forall in Hall. apply Hall. apply nth_In. simpl in Hij. lia.
  - apply IH. simpl in Hij. lia.
Qed.

Lemma ssorted_nth_le l : ssorted l -> forall i j, (i <= j < length l)%nat -> nth i l 0 <= nth j l 0.
Proof.
  intros Hs i j Hij. destruct (Nat.eq_dec i j) as [->|N]; [lia|].
  apply Z.lt_le_incl. apply ssorted_nth_lt; [exact Hs | lia].
Qed.

Lemma extend_nth olds i : (i < length olds)%nat -> extend olds (Z.of_nat i) = nth i olds 0.
Proof.
  intro H. unfold extend. cbv zeta.
  destruct (Z.of_nat i <? 0) eqn:E1; [apply Z.ltb_lt in E1; lia|].
  destruct (Z.of_nat i <? Z.of_nat (length olds)) eqn:E2; [rewrite Nat2Z.id; reflexivity | apply Z.ltb_ge in E2; lia].
Qed.

Theorem extend_mono olds : ssorted olds -> forall x y, x < y -> extend olds x < extend olds y.
Proof.
  intros Hs x y Hxy. unfold extend. cbv zeta. set (n := length olds).
  destruct (x <? 0) eqn:X0; [apply Z.ltb_lt in X0 | apply Z.ltb_ge in X0];
  destruct (y <? 0) eqn:Y0; try apply Z.ltb_lt in Y0; try apply Z.ltb_ge in Y0; try lia.
  - destruct (y <? Z.of_nat n) eqn:Yn; [apply Z.ltb_lt in Yn | apply Z.ltb_ge in Yn].
    + assert (nth 0 olds 0 <= nth (Z.to_nat y) olds 0) by (apply ssorted_nth_le; [exact Hs | fold n; lia]). lia.
    + destruct n as [|n'] eqn:En.
      * destruct olds; [simpl; lia | discriminate].
      * assert (nth 0 olds 0 <= nth (S n' - 1) olds 0) by (apply ssorted_nth_le; [exact Hs | fold n; lia]). lia.
  - destruct (x <? Z.of_nat n) eqn:Xn; [apply Z.ltb_lt in Xn | apply Z.ltb_ge in Xn];
    destruct (y <? Z.of_nat n) eqn:Yn; try apply Z.ltb_lt in Yn; try apply Z.ltb_ge in Yn; try lia.
    + apply ssorted_nth_lt; [exact Hs | fold n; lia].
    + assert (nth (Z.to_nat x) olds 0 <= nth (n - 1) olds 0) by (apply ssorted_nth_le; [exact Hs | fold n; lia]). lia.
Qed.

(* ---- C18 with RDKit's renumbering ------------------------------------------------------------------------------------- *)
Section Deleted.
Variable D : ringdict.
Variable C : sconsts.

(* m' is "m with its floating atoms removed and the remaining atoms renumbered": relabelling m' along the strictly
   increasing map rho (new index -> old index) gives back the retained part of m.  Then the run on m is the run on m'
   with the indices mapped back, and every fingerprint is the same. *)
Theorem deleted_renumbered_run rho fuel o (m m' : mol D) :
  (forall x y, x < y -> rho x < rho y) ->
  o_exfloat o = true -> (1 < length (heavy_atoms D m))%nat ->
  rename_mol D rho m' = delete_floating D m ->
  run D C fuel o m = rmap (rstate rho) (run D C fuel o m').
Proof.
  intros Hm Ho Hn E. rewrite (floating_excluded_eq_deleted_run D C fuel o m Ho Hn), <- E.
  apply run_rename. exact Hm.
Qed.

Theorem deleted_renumbered_same_fingerprints rho fuel o (m m' : mol D) :
  (forall x y, x < y -> rho x < rho y) ->
  o_exfloat o = true -> (1 < length (heavy_atoms D m))%nat ->
  rename_mol D rho m' = delete_floating D m ->
  match run D C fuel o m', run D C fuel o m with
  | Ok st', Ok st => forall counts bits req mask,
      fingerprint_query o counts bits st req (map rho mask) = fingerprint_query o counts bits st' req mask
  | Raises e', Raises e => e' = e
  | _, _ => False
  end.
Proof.
  intros Hm Ho Hn E. rewrite (deleted_renumbered_run rho fuel o m m' Hm Ho Hn E).
  destruct (run D C fuel o m') as [st'|e]; cbn [rmap]; [|reflexivity].
  intros. apply fingerprint_query_rename. exact Hm.
Qed.
End Deleted.
