(* C18 on M1 - what `scene_of` reads from a molecule.

   `E3FP.run` consults the molecule only through `scene_of` (Model/E3FP.v), and `scene_of` applies the heavy-atom
   filter (and, with exclude_floating, the degree filter) before any other lookup.  Hence:
     - atoms with atomic number <= 1 may change in every field, appear or disappear        (hydrogen_irrelevant)
     - with exclusion on, heavy atoms of degree 0 may be deleted or moved                  (floating_excluded_eq_deleted)
     - with exclusion off every heavy atom owns a level-0 shell in every state of the run  (floating_included_contributes)
   and the two corner cases that the property excludes are characterised (single_heavy_kept, all_floating_raises).

   Atoms are identified by their RDKit index (`a_idx`); the retained index list of the molecule with the floating atoms
   deleted is literally the same increasing list, so no renaming is needed inside the model.  RDKit itself renumbers
   the atoms after a deletion (RWMol.RemoveAtom): that renumbering is the monotone relabelling covered by C03's
   machinery and, on the implementation side, by the harness. *)
From Coq Require Import ZArith List Bool Lia.
From E3FP Require Import Base.Prelude Base.ZSet Base.Murmur3 Model.Geometry Model.Stereo Model.Fprint Gen.Constants Model.E3FP.
Import ListNotations.
Open Scope Z_scope.

(* ---- generic list facts ------------------------------------------------------------------------- *)
Lemma fold_right_ext_In {A B} (f g : A -> B -> B) (i : B) (l : list A) :
  (forall x acc, In x l -> f x acc = g x acc) -> fold_right f i l = fold_right g i l.
Proof.
  induction l as [|x l IH]; simpl; intro H; [reflexivity|].
  rewrite IH by (intros; apply H; right; assumption). apply H. left; reflexivity.
Qed.

Lemma filter_filter {A} (p q : A -> bool) l : filter p (filter q l) = filter (fun x => q x && p x) l.
Proof.
  induction l as [|x l IH]; simpl; [reflexivity|].
  destruct (q x); simpl; [destruct (p x); simpl; congruence | exact IH].
Qed.

Lemma filter_ext_In' {A} (p q : A -> bool) l : (forall x, In x l -> p x = q x) -> filter p l = filter q l.
Proof.
  induction l as [|x l IH]; simpl; intro H; [reflexivity|].
  rewrite (H x) by (left; reflexivity). rewrite IH by (intros; apply H; right; assumption). reflexivity.
Qed.

Lemma filter_map_comm {A} (p : A -> bool) (g : A -> A) l :
  (forall x, p (g x) = p x) -> filter p (map g l) = map g (filter p l).
Proof.
  intro H. induction l as [|x l IH]; simpl; [reflexivity|]. rewrite H. destruct (p x); simpl; congruence.
Qed.

Lemma map_id_In {A} (g : A -> A) l : (forall x, In x l -> g x = x) -> map g l = l.
Proof.
  induction l as [|x l IH]; simpl; intro H; [reflexivity|].
  rewrite H by (left; reflexivity). rewrite IH by (intros; apply H; right; assumption). reflexivity.
Qed.

Section Scene.
Variable D : ringdict.
Notation atom := (atom D).
Notation mol := (mol D).

Definition heavy (a : atom) : bool := 1 <? a_num D a.
(* a heavy atom without any bond (GetDegree() = 0; the code tests `GetDegree() > 0`, degrees are never negative) *)
Definition floating (a : atom) : bool := heavy a && negb (0 <? a_deg D a).
Definition heavy_atoms (m : mol) : list atom := filter heavy (m_atoms D m).

(* ---- scene_of, with its two folds named ------------------------------------------------------------ *)
Definition mk_links (m : mol) (ats : list atom) (a : atom) : option (list (link D)) :=
  fold_right (fun b acc =>
    match acc with
    | None => None
    | Some l =>
      if a_idx D b =? a_idx D a then Some l
      else match conn_code D m (a_idx D a) (a_idx D b) with
           | None => None
           | Some c => let v := vsub D (a_pos D b) (a_pos D a) in
                       Some (mklink D (a_idx D b) (dot D v v) v c
                              (match bond_between D m (a_idx D a) (a_idx D b) with Some _ => true | None => false end) :: l)
           end
    end) (Some []) ats.

Definition all_links (m : mol) (ats : list atom) : option (amap (list (link D))) :=
  fold_right (fun a acc =>
    match acc, mk_links m ats a with
    | Some l, Some ls => Some ((a_idx D a, ls) :: l)
    | _, _ => None
    end) (Some []) ats.

Definition inv_of (o : opts) (a : atom) : list Z := if o_rdkit o then rdkit_inv D a else daylight_inv D a.

Definition ident0_of (o : opts) (ats : list atom) : amap Z :=
  map (fun a => (a_idx D a, hash_i64 mmh3_seed (inv_of o a))) ats.

Lemma scene_of_eq o m :
  scene_of D o m =
  let ats := retained D o m in
  match map (a_idx D) ats with
  | [] => Raises EValue
  | _ => match all_links m ats with
         | None => Raises EKey
         | Some ls => Ok (mkscene D (map (a_idx D) ats) (ident0_of o ats) ls (m_unit2 D m))
         end
  end.
Proof. reflexivity. Qed.

(* ---- the retained atoms are a function of the heavy atoms ------------------------------------------ *)
Lemma retained_eq o m :
  retained D o m =
  if o_exfloat o && (1 <? Z.of_nat (length (heavy_atoms m)))
  then filter (fun a => 0 <? a_deg D a) (heavy_atoms m) else heavy_atoms m.
Proof.
  unfold retained, heavy_atoms. fold heavy.
  destruct (o_exfloat o && _); [|reflexivity].
  rewrite filter_filter. reflexivity.
Qed.

Lemma retained_heavy o m a : In a (retained D o m) -> In a (heavy_atoms m).
Proof.
  rewrite retained_eq. destruct (_ && _); [|tauto]. intro H. apply filter_In in H. tauto.
Qed.

Lemma retained_is_heavy o m a : In a (retained D o m) -> In a (m_atoms D m) /\ heavy a = true.
Proof. intro H. apply retained_heavy in H. unfold heavy_atoms in H. apply filter_In in H. exact H. Qed.

(* the bond queries of scene_of concern pairs of retained atoms only *)
Definition bonds_agree_on (ids : list Z) (m1 m2 : mol) : Prop :=
  forall a b, In a ids -> In b ids -> bond_between D m1 a b = bond_between D m2 a b.

Lemma conn_code_of_bond m1 m2 a b :
  bond_between D m1 a b = bond_between D m2 a b -> conn_code D m1 a b = conn_code D m2 a b.
Proof. unfold conn_code. intros ->. reflexivity. Qed.

Lemma mk_links_ext m1 m2 ats a :
  In a ats -> bonds_agree_on (map (a_idx D) ats) m1 m2 -> mk_links m1 ats a = mk_links m2 ats a.
Proof.
  intros Ha H. unfold mk_links. apply fold_right_ext_In. intros b acc Hb.
  assert (E : bond_between D m1 (a_idx D a) (a_idx D b) = bond_between D m2 (a_idx D a) (a_idx D b))
    by (apply H; apply in_map; assumption).
  rewrite (conn_code_of_bond _ _ _ _ E), E. reflexivity.
Qed.

Lemma all_links_ext m1 m2 ats :
  bonds_agree_on (map (a_idx D) ats) m1 m2 -> all_links m1 ats = all_links m2 ats.
Proof.
  intro H. unfold all_links. apply fold_right_ext_In. intros a acc Ha.
  rewrite (mk_links_ext m1 m2 ats a Ha H). reflexivity.
Qed.

(* scene_of reads: the retained atoms' records, the bonds among them, the length unit. Nothing else. *)
Theorem scene_of_ext o m1 m2 :
  retained D o m1 = retained D o m2 ->
  bonds_agree_on (map (a_idx D) (retained D o m1)) m1 m2 ->
  m_unit2 D m1 = m_unit2 D m2 ->
  scene_of D o m1 = scene_of D o m2.
Proof.
  intros Hr Hb Hu. rewrite !scene_of_eq. cbv zeta. rewrite <- Hr, <- Hu.
  rewrite (all_links_ext m1 m2 _ Hb). reflexivity.
Qed.

Lemma run_of_scene C fuel o m1 m2 : scene_of D o m1 = scene_of D o m2 -> run D C fuel o m1 = run D C fuel o m2.
Proof. intro H. unfold run. rewrite H. reflexivity. Qed.

(* ---- hydrogens (and anything else with atomic number <= 1) ------------------------------------------ *)
Theorem hydrogen_irrelevant o m1 m2 :
  heavy_atoms m1 = heavy_atoms m2 ->
  bonds_agree_on (map (a_idx D) (retained D o m1)) m1 m2 ->
  m_unit2 D m1 = m_unit2 D m2 ->
  scene_of D o m1 = scene_of D o m2.
Proof.
  intros Hh Hb Hu. apply scene_of_ext; try assumption. rewrite !retained_eq, Hh. reflexivity.
Qed.

(* the form with the bond condition on all heavy atoms (independent of the options) *)
Corollary hydrogen_irrelevant_heavy o m1 m2 :
  heavy_atoms m1 = heavy_atoms m2 ->
  bonds_agree_on (map (a_idx D) (heavy_atoms m1)) m1 m2 ->
  m_unit2 D m1 = m_unit2 D m2 ->
  scene_of D o m1 = scene_of D o m2.
Proof.
  intros Hh Hb Hu. apply hydrogen_irrelevant; try assumption.
  intros a b Ha Hb'. apply Hb.
  - apply in_map_iff in Ha. destruct Ha as [x [<- Hx]]. apply in_map. eapply retained_heavy; eassumption.
  - apply in_map_iff in Hb'. destruct Hb' as [x [<- Hx]]. apply in_map. eapply retained_heavy; eassumption.
Qed.

Corollary hydrogen_irrelevant_run C fuel o m1 m2 :
  heavy_atoms m1 = heavy_atoms m2 ->
  bonds_agree_on (map (a_idx D) (retained D o m1)) m1 m2 ->
  m_unit2 D m1 = m_unit2 D m2 ->
  run D C fuel o m1 = run D C fuel o m2.
Proof. intros. apply run_of_scene. apply hydrogen_irrelevant; assumption. Qed.

(* rewriting every light atom by an arbitrary function that keeps it light: e.g. moving it *)
Definition map_atoms (g : atom -> atom) (m : mol) : mol := mkmol D (map g (m_atoms D m)) (m_bonds D m) (m_unit2 D m).

Definition set_pos (a : atom) (p : vec D) : atom :=
  mkatom D (a_idx D a) (a_num D a) (a_deg D a) (a_tdeg D a) (a_tval D a) (a_nh D a) (a_mass D a) (a_charge D a)
         (a_ring D a) (a_dmass D a) p.

Lemma heavy_atoms_map_atoms g m :
  (forall a, heavy (g a) = heavy a) -> (forall a, heavy a = true -> g a = a) ->
  heavy_atoms (map_atoms g m) = heavy_atoms m.
Proof.
  intros H1 H2. unfold heavy_atoms, map_atoms; simpl. rewrite filter_map_comm by exact H1.
  apply map_id_In. intros x Hx. apply filter_In in Hx. apply H2. tauto.
Qed.

Theorem light_atoms_rewritten o g m :
  (forall a, heavy (g a) = heavy a) -> (forall a, heavy a = true -> g a = a) ->
  scene_of D o (map_atoms g m) = scene_of D o m.
Proof.
  intros H1 H2. apply hydrogen_irrelevant.
  - apply heavy_atoms_map_atoms; assumption.
  - intros a b _ _. reflexivity.
  - reflexivity.
Qed.

Theorem hydrogen_coords_irrelevant o (p : atom -> vec D) m :
  scene_of D o (map_atoms (fun a => if heavy a then a else set_pos a (p a)) m) = scene_of D o m.
Proof.
  apply light_atoms_rewritten; intros a; destruct (heavy a) eqn:E; try reflexivity; try exact E; try discriminate.
Qed.

(* ---- floating atoms, exclusion on -------------------------------------------------------------------- *)
Definition delete_floating (m : mol) : mol :=
  mkmol D (filter (fun a => negb (floating a)) (m_atoms D m)) (m_bonds D m) (m_unit2 D m).

Definition bonded_heavy (m : mol) : list atom := filter (fun a => 0 <? a_deg D a) (heavy_atoms m).

Lemma heavy_atoms_delete_floating m : heavy_atoms (delete_floating m) = bonded_heavy m.
Proof.
  unfold bonded_heavy, delete_floating, heavy_atoms; simpl. rewrite !filter_filter.
  apply filter_ext_In'. intros a _. unfold floating. destruct (heavy a), (0 <? a_deg D a); reflexivity.
Qed.

Lemma bonded_heavy_idem m : filter (fun a => 0 <? a_deg D a) (bonded_heavy m) = bonded_heavy m.
Proof.
  unfold bonded_heavy. rewrite filter_filter. apply filter_ext_In'. intros a _. destruct (0 <? a_deg D a); reflexivity.
Qed.

Lemma retained_exfloat o m :
  o_exfloat o = true -> (1 < length (heavy_atoms m))%nat -> retained D o m = bonded_heavy m.
Proof.
  intros Ho Hn. rewrite retained_eq, Ho. simpl.
  destruct (1 <? Z.of_nat (length (heavy_atoms m))) eqn:E; [reflexivity|]. apply Z.ltb_ge in E. lia.
Qed.

Lemma retained_delete_floating o m : retained D o (delete_floating m) = bonded_heavy m.
Proof.
  rewrite retained_eq, heavy_atoms_delete_floating. destruct (_ && _); [apply bonded_heavy_idem | reflexivity].
Qed.

(* With exclusion on and at least two heavy atoms the scene is that of the molecule without its floating atoms.
   (If every heavy atom floats both sides are Raises EValue: see all_floating_raises.) *)
Theorem floating_excluded_eq_deleted_gen o m :
  o_exfloat o = true -> (1 < length (heavy_atoms m))%nat ->
  scene_of D o m = scene_of D o (delete_floating m).
Proof.
  intros Ho Hn. apply scene_of_ext.
  - rewrite retained_delete_floating. apply retained_exfloat; assumption.
  - intros a b _ _. reflexivity.
  - reflexivity.
Qed.

Theorem floating_excluded_eq_deleted o m :
  o_exfloat o = true -> (1 < length (heavy_atoms m))%nat -> bonded_heavy m <> [] ->
  scene_of D o m = scene_of D o (delete_floating m) /\
  (forall sc, scene_of D o m = Ok sc -> sc_atoms D sc = map (a_idx D) (bonded_heavy m) /\ sc_atoms D sc <> []).
Proof.
  intros Ho Hn Hb. split; [apply floating_excluded_eq_deleted_gen; assumption|].
  intros sc. rewrite scene_of_eq. cbv zeta. rewrite (retained_exfloat o m Ho Hn).
  destruct (bonded_heavy m) as [|x l] eqn:E; [congruence|]. cbn [map].
  destruct (all_links m (x :: l)); [|discriminate]. intro H. inversion H; subst; simpl. split; [reflexivity | discriminate].
Qed.

Corollary floating_excluded_eq_deleted_run C fuel o m :
  o_exfloat o = true -> (1 < length (heavy_atoms m))%nat ->
  run D C fuel o m = run D C fuel o (delete_floating m).
Proof. intros. apply run_of_scene. apply floating_excluded_eq_deleted_gen; assumption. Qed.

(* the lone heavy atom is the only case in which deletion and exclusion differ: a molecule whose floating atoms are
   deleted never needs them *)
Lemma delete_floating_preserved g m :
  (forall a, floating (g a) = floating a) -> (forall a, floating a = false -> g a = a) ->
  delete_floating (map_atoms g m) = delete_floating m.
Proof.
  intros H1 H2. unfold delete_floating, map_atoms; simpl. f_equal.
  rewrite filter_map_comm by (intro x; rewrite H1; reflexivity).
  apply map_id_In. intros x Hx. apply filter_In in Hx. apply H2. destruct (floating x); [destruct Hx; discriminate | reflexivity].
Qed.

Lemma heavy_count_preserved g m :
  (forall a, floating (g a) = floating a) -> (forall a, floating a = false -> g a = a) ->
  length (heavy_atoms (map_atoms g m)) = length (heavy_atoms m).
Proof.
  intros H1 H2. unfold heavy_atoms, map_atoms; simpl.
  rewrite filter_map_comm; [apply map_length|].
  intro a. destruct (floating a) eqn:E.
  - assert (E' := H1 a). rewrite E in E'. unfold floating in E, E'. apply andb_true_iff in E, E'. destruct E as [-> _], E' as [-> _]. reflexivity.
  - rewrite H2 by exact E. reflexivity.
Qed.

(* floating atoms may be rewritten by any function that keeps them floating: e.g. moved *)
Theorem floating_atoms_rewritten o g m :
  o_exfloat o = true -> (1 < length (heavy_atoms m))%nat ->
  (forall a, floating (g a) = floating a) -> (forall a, floating a = false -> g a = a) ->
  scene_of D o (map_atoms g m) = scene_of D o m.
Proof.
  intros Ho Hn H1 H2.
  rewrite (floating_excluded_eq_deleted_gen o m Ho Hn).
  rewrite (floating_excluded_eq_deleted_gen o (map_atoms g m) Ho) by (rewrite heavy_count_preserved; assumption).
  rewrite delete_floating_preserved by assumption. reflexivity.
Qed.

Theorem floating_coords_irrelevant o (p : atom -> vec D) m :
  o_exfloat o = true -> (1 < length (heavy_atoms m))%nat ->
  scene_of D o (map_atoms (fun a => if floating a then set_pos a (p a) else a) m) = scene_of D o m.
Proof.
  intros Ho Hn. apply floating_atoms_rewritten; try assumption.
  - intro a. destruct (floating a) eqn:E; [|exact E]. exact E.
  - intros a E. rewrite E. reflexivity.
Qed.

Corollary floating_coords_irrelevant_run C fuel o (p : atom -> vec D) m :
  o_exfloat o = true -> (1 < length (heavy_atoms m))%nat ->
  run D C fuel o (map_atoms (fun a => if floating a then set_pos a (p a) else a) m) = run D C fuel o m.
Proof. intros. apply run_of_scene. apply floating_coords_irrelevant; assumption. Qed.

(* ---- the corners the property excludes ------------------------------------------------------------------ *)
Lemma single_heavy_retained o m a : heavy_atoms m = [a] -> retained D o m = [a].
Proof. intro H. rewrite retained_eq, H. simpl. rewrite andb_false_r. reflexivity. Qed.

(* exactly one heavy atom: it is kept whatever its degree and whatever the option *)
Theorem single_heavy_kept o m a :
  heavy_atoms m = [a] ->
  scene_of D o m = Ok (mkscene D [a_idx D a] [(a_idx D a, hash_i64 mmh3_seed (inv_of o a))] [(a_idx D a, [])] (m_unit2 D m)).
Proof.
  intro H. rewrite scene_of_eq. cbv zeta. rewrite (single_heavy_retained o m a H).
  unfold all_links, mk_links, ident0_of. simpl. rewrite Z.eqb_refl. reflexivity.
Qed.

(* ... so deleting a lone floating heavy atom is NOT the same as excluding it *)
Lemma single_floating_deleted_raises o m a :
  heavy_atoms m = [a] -> floating a = true -> scene_of D o (delete_floating m) = Raises EValue.
Proof.
  intros H Hf. rewrite scene_of_eq. cbv zeta. rewrite retained_delete_floating. unfold bonded_heavy. rewrite H. simpl.
  unfold floating in Hf. apply andb_true_iff in Hf. destruct Hf as [_ Hf]. apply negb_true_iff in Hf. rewrite Hf. reflexivity.
Qed.

(* two or more heavy atoms, all floating, exclusion on: ValueError (squareform of an empty distance list) *)
Theorem all_floating_raises o m :
  o_exfloat o = true -> (1 < length (heavy_atoms m))%nat ->
  (forall a, In a (heavy_atoms m) -> (0 <? a_deg D a) = false) ->
  scene_of D o m = Raises EValue.
Proof.
  intros Ho Hn Hall. rewrite scene_of_eq. cbv zeta. rewrite (retained_exfloat o m Ho Hn).
  unfold bonded_heavy.
  replace (filter (fun a => 0 <? a_deg D a) (heavy_atoms m)) with (@nil atom); [reflexivity|].
  symmetry. clear Hn. induction (heavy_atoms m) as [|x l IH]; simpl; [reflexivity|].
  rewrite (Hall x) by (left; reflexivity). apply IH. intros; apply Hall; right; assumption.
Qed.

Corollary all_floating_raises_run C fuel o m :
  o_exfloat o = true -> (1 < length (heavy_atoms m))%nat ->
  (forall a, In a (heavy_atoms m) -> (0 <? a_deg D a) = false) ->
  check_opts o = true ->
  run D C fuel o m = Raises EValue.
Proof.
  intros Ho Hn Hall Hc. unfold run. rewrite Hc. simpl. rewrite (all_floating_raises o m Ho Hn Hall). reflexivity.
Qed.

(* ---- floating atoms, exclusion off ------------------------------------------------------------------------ *)
Lemma retained_noexfloat o m : o_exfloat o = false -> retained D o m = heavy_atoms m.
Proof. intro Ho. rewrite retained_eq, Ho. reflexivity. Qed.

Lemma scene_of_ok_fields o m sc :
  scene_of D o m = Ok sc ->
  sc_atoms D sc = map (a_idx D) (retained D o m) /\ sc_ident0 D sc = ident0_of o (retained D o m).
Proof.
  rewrite scene_of_eq. cbv zeta. destruct (map (a_idx D) (retained D o m)) eqn:E; [discriminate|].
  destruct (all_links m (retained D o m)); [|discriminate]. intro H. inversion H; subst; simpl. split; reflexivity.
Qed.

Lemma aget_ident0 o ats a :
  NoDup (map (a_idx D) ats) -> In a ats ->
  aget 0 (ident0_of o ats) (a_idx D a) = hash_i64 mmh3_seed (inv_of o a).
Proof.
  induction ats as [|x l IH]; simpl; intros Hnd Hin; [contradiction|].
  inversion Hnd as [|? ? Hx Hl]; subst.
  destruct Hin as [->|Hin]; [rewrite Z.eqb_refl; reflexivity|].
  destruct (a_idx D a =? a_idx D x) eqn:E.
  - apply Z.eqb_eq in E. exfalso. apply Hx. rewrite <- E. apply in_map. exact Hin.
  - apply IH; assumption.
Qed.

Lemma NoDup_map_filter {A B} (f : A -> B) (p : A -> bool) l : NoDup (map f l) -> NoDup (map f (filter p l)).
Proof.
  induction l as [|x l IH]; simpl; intro H; [constructor|].
  inversion H as [|? ? Hx Hl]; subst. destruct (p x); simpl; [|auto].
  constructor; [|auto]. intro Hin. apply Hx. apply in_map_iff in Hin. destruct Hin as [y [E Hy]].
  apply filter_In in Hy. rewrite <- E. apply in_map. tauto.
Qed.

(* the level-0 shell of an atom *)
Definition shell0 (o : opts) (a : atom) : shell :=
  mkshell (a_idx D a) 0 (hash_i64 mmh3_seed (inv_of o a)) [a_idx D a].

Lemma aget_map_const {A} (d : A) (f : Z -> A) l i : In i l -> aget d (map (fun a => (a, f a)) l) i = f i.
Proof.
  induction l as [|x l IH]; simpl; intro H; [contradiction|].
  destruct (i =? x) eqn:E; [apply Z.eqb_eq in E; subst; reflexivity|].
  destruct H as [->|H]; [rewrite Z.eqb_refl in E; discriminate | auto].
Qed.

Lemma init_shell0 o m sc a :
  scene_of D o m = Ok sc -> NoDup (map (a_idx D) (m_atoms D m)) -> In a (retained D o m) ->
  In (shell0 o a) (map (shell_of (level0 D sc)) (sc_atoms D sc)).
Proof.
  intros Hs Hnd Ha. destruct (scene_of_ok_fields o m sc Hs) as [Hat Hid].
  apply in_map_iff. exists (a_idx D a). split; [|rewrite Hat; apply in_map; exact Ha].
  unfold shell_of, level0, shell0; simpl.
  assert (Hi : In (a_idx D a) (sc_atoms D sc)) by (rewrite Hat; apply in_map; exact Ha).
  rewrite !aget_map_const by exact Hi. rewrite Hid. rewrite aget_ident0; [reflexivity| |exact Ha].
  unfold retained. destruct (_ && _); apply NoDup_map_filter; exact Hnd.
Qed.

(* invariant of the iteration: every level's shell set extends the level-0 shell set, one set per level 0..k *)
Section Iter.
Variable C : sconsts.
Variable o : opts.
Variable sc : scene D.

Definition shells0 : list shell := map (shell_of (level0 D sc)) (sc_atoms D sc).

Definition inv_state (st : state) : Prop :=
  0 <= st_k st /\ length (st_shells st) = S (Z.to_nat (st_k st)) /\ Forall (fun l => incl shells0 l) (st_shells st).

Lemma incl_union_shells new : forall old, incl old (union_shells old new).
Proof.
  induction new as [|s t IH]; intros old; simpl; [apply incl_refl|].
  destruct (existsb (same_shell s) old); [apply IH|].
  eapply incl_tran; [|apply IH]. apply incl_appl, incl_refl.
Qed.

Lemma inv_init : inv_state (init_state D sc).
Proof.
  unfold inv_state, init_state; simpl. split; [lia|]. split; [reflexivity|].
  constructor; [apply incl_refl | constructor].
Qed.

Lemma inv_step st : inv_state st ->
  match step D C o sc st with Continue s => inv_state s | Stop s => inv_state s end.
Proof.
  intros I. unfold step.
  destruct (st_levels st) as [|cur ?]; [exact I|].
  destruct (st_shells st) as [|cur_shells rest] eqn:Es; [exact I|].
  destruct (_ && (o_level o <=? st_k st)); [exact I|].
  destruct (o_remdup o && _); [exact I|].
  match goal with |- context [let '(acc, past') := ?X in _] => destruct X as [acc past'] end.
  destruct (Nat.eqb _ _); [exact I|].
  destruct I as [Hk [Hl Hf]]. unfold inv_state; cbn [st_k st_shells]. split; [lia|]. split.
  - rewrite Es in Hl. cbn [length] in *. rewrite Hl. f_equal. rewrite Z2Nat.inj_add by lia. simpl. lia.
  - rewrite Es in Hf. constructor; [|exact Hf].
    inversion Hf; subst. eapply incl_tran; [eassumption | apply incl_union_shells].
Qed.

Lemma inv_iterate fuel : forall st st', inv_state st -> iterate D C o sc fuel st = Some st' -> inv_state st'.
Proof.
  induction fuel as [|f IH]; simpl; intros st st' I H; [discriminate|].
  pose proof (inv_step st I) as J. destruct (step D C o sc st) as [s|s].
  - eapply IH; eassumption.
  - inversion H; subst. exact J.
Qed.

Lemma resolve_level_range st req : 0 <= st_k st ->
  0 <= fst (resolve_level o st req) <= st_k st.
Proof.
  intro Hk. unfold resolve_level.
  destruct req as [l|]; simpl.
  - destruct ((l =? -1) || negb ((0 <=? l) && (l <=? st_k st))) eqn:E; simpl; [lia|].
    apply orb_false_iff in E. destruct E as [_ E]. apply negb_false_iff, andb_true_iff in E. lia.
  - lia.
Qed.

Lemma shells_at_true_incl st lv : inv_state st -> 0 <= lv <= st_k st -> incl shells0 (shells_at_true st lv).
Proof.
  intros [Hk [Hl Hf]] Hlv. unfold shells_at_true.
  rewrite Forall_forall in Hf. apply Hf. apply nth_In. rewrite Hl. lia.
Qed.
End Iter.

Lemma run_inv C fuel o m st :
  run D C fuel o m = Ok st -> exists sc, scene_of D o m = Ok sc /\ inv_state sc st.
Proof.
  unfold run. destruct (negb (check_opts o)); [discriminate|].
  destruct (scene_of D o m) as [sc|e]; simpl; [|discriminate].
  destruct (iterate D C o sc fuel (init_state D sc)) as [s|] eqn:E; [|discriminate].
  intro H. inversion H; subst. exists sc. split; [reflexivity|].
  eapply inv_iterate; [apply inv_init | exact E].
Qed.

Lemma disjointb_single x mask : disjointb [x] mask = negb (zmem x mask).
Proof. unfold disjointb. simpl. rewrite andb_true_r. reflexivity. Qed.

(* With exclusion off every heavy atom - bonded or not - owns its level-0 shell in the shell set of every level of
   every run, unless it is masked; so its identifier is a bit of every fingerprint of the run. *)
Theorem floating_included_shell C fuel o m st a req mask :
  o_exfloat o = false -> NoDup (map (a_idx D) (m_atoms D m)) ->
  run D C fuel o m = Ok st ->
  In a (m_atoms D m) -> heavy a = true -> ~ In (a_idx D a) mask ->
  In (shell0 o a) (shells_query o st req mask).
Proof.
  intros Ho Hnd Hrun Ha Hh Hm.
  destruct (run_inv C fuel o m st Hrun) as [sc [Hs I]].
  unfold shells_query. apply filter_In. split.
  - apply (shells_at_true_incl sc st _ I).
    + apply resolve_level_range. destruct I; assumption.
    + unfold shells0. eapply init_shell0; try eassumption.
      rewrite retained_noexfloat by exact Ho. unfold heavy_atoms. apply filter_In. split; assumption.
  - unfold shell0; cbn [s_sub]. rewrite disjointb_single. apply negb_true_iff. apply zmem_false. exact Hm.
Qed.

Lemma mk_bit_idx ids bits lv nm f : mk_bit ids bits lv nm = Ok f -> fidx f = usort ids /\ fbits f = bits.
Proof. unfold mk_bit. destruct (existsb _ ids); [discriminate|]. intro H; inversion H; subst. split; reflexivity. Qed.

Lemma mk_count_idx k ids bits lv nm f :
  mk_count_from_indices k ids bits lv nm = Ok f -> fidx f = usort ids /\ fbits f = bits.
Proof. unfold mk_count_from_indices. destruct (existsb _ ids); [discriminate|]. intro H; inversion H; subst. split; reflexivity. Qed.

Lemma fp_fold_idx a nb r : fp_fold a nb 0 = Ok r -> fidx r = usort (map (fun i => i mod nb) (fidx a)).
Proof.
  unfold fp_fold. destruct (fold_check a nb 0); [discriminate|].
  unfold fold_index. simpl. destruct (fkind a); intro H; inversion H; subst; reflexivity.
Qed.

Theorem floating_included_contributes C fuel o m st a req mask counts bits f :
  o_exfloat o = false -> NoDup (map (a_idx D) (m_atoms D m)) ->
  run D C fuel o m = Ok st ->
  In a (m_atoms D m) -> heavy a = true -> ~ In (a_idx D a) mask ->
  fingerprint_query o counts bits st req mask = Ok f ->
  In (unsigned32 (hash_i64 mmh3_seed (inv_of o a)) mod bits) (fidx f).
Proof.
  intros Ho Hnd Hrun Ha Hh Hm Hq.
  pose proof (floating_included_shell C fuel o m st a req mask Ho Hnd Hrun Ha Hh Hm) as Hs.
  unfold fingerprint_query in Hq.
  set (ids := map (fun s => unsigned32 (s_ident s)) (shells_query o st req mask)) in *.
  assert (Hi : In (unsigned32 (hash_i64 mmh3_seed (inv_of o a))) ids).
  { unfold ids. apply in_map_iff. exists (shell0 o a). split; [reflexivity | exact Hs]. }
  destruct (if counts then _ else _) as [g|e] eqn:Eg; simpl in Hq; [|discriminate].
  assert (Hg : fidx g = usort ids).
  { destruct counts; [apply mk_count_idx in Eg | apply mk_bit_idx in Eg]; tauto. }
  apply fp_fold_idx in Hq. rewrite Hq. apply In_usort. apply in_map_iff.
  eexists. split; [reflexivity|]. rewrite Hg. apply In_usort. exact Hi.
Qed.

End Scene.
