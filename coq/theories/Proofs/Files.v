(* Lemmas about Model/Files.v (M8), used by Properties/C19.v. *)
From Coq Require Import QArith Qround Qabs Sorting.Permutation Lia Lqa.
From E3FP Require Import Base.Prelude Model.Files.
Open Scope Z_scope.

(* ================================================================================================================== *)
(* energy codec                                                                                                        *)
Lemma round_half_even_comp x y : (x == y)%Q -> round_half_even x = round_half_even y.
Proof.
  intro H. unfold round_half_even. rewrite (Qfloor_comp _ _ H).
  assert (E : (x - inject_Z (Qfloor y) ?= 1 # 2)%Q = (y - inject_Z (Qfloor y) ?= 1 # 2)%Q).
  { apply Qcompare_comp; [rewrite H; reflexivity|reflexivity]. }
  rewrite E. reflexivity.
Qed.

Lemma round_half_even_Z n : round_half_even (inject_Z n) = n.
Proof.
  unfold round_half_even. rewrite Qfloor_Z.
  assert (E : (inject_Z n - inject_Z n ?= 1 # 2)%Q = Lt).
  { apply Qlt_alt. setoid_replace (inject_Z n - inject_Z n)%Q with 0%Q by ring. reflexivity. }
  rewrite E. reflexivity.
Qed.

Lemma fmt4_parse4 n : fmt4 (parse4 n) = n.
Proof.
  unfold fmt4, parse4. rewrite (round_half_even_comp _ (inject_Z n)); [apply round_half_even_Z|].
  unfold Qeq, Qmult, inject_Z. simpl. lia.
Qed.

Lemma energy_codec_idempotent q : parse4 (fmt4 (parse4 (fmt4 q))) = parse4 (fmt4 q).
Proof. rewrite fmt4_parse4. reflexivity. Qed.

(* rounding is to a nearest integer: the formatted value is within half a unit (5e-5) of the energy *)
Lemma round_half_even_near q : (Qabs (q - inject_Z (round_half_even q)) <= 1 # 2)%Q.
Proof.
  unfold round_half_even.
  pose proof (Qfloor_le q) as L. pose proof (Qlt_floor q) as U.
  set (f := Qfloor q) in *. rewrite inject_Z_plus in U.
  assert (I1 : inject_Z 1 == 1) by reflexivity.
  apply Qabs_Qle_condition.
  destruct (Qcompare_spec (q - inject_Z f) (1 # 2)) as [E|Lt|Gt].
  - destruct (Z.even f); [|rewrite inject_Z_plus]; split; lra.
  - split; lra.
  - rewrite inject_Z_plus. split; lra.
Qed.

Lemma fmt4_near q : (Qabs (q * 10000 - inject_Z (fmt4 q)) <= 1 # 2)%Q.
Proof. apply round_half_even_near. Qed.

(* ================================================================================================================== *)
(* property maps                                                                                                       *)
Lemma pget_pclear k k' p : pget k (pclear k' p) = if String.eqb k k' then None else pget k p.
Proof.
  induction p as [|[k0 v] p IH]; simpl.
  - destruct (String.eqb k k'); reflexivity.
  - destruct (String.eqb k' k0) eqn:E; simpl.
    + apply String.eqb_eq in E. subst k0. rewrite IH. destruct (String.eqb k k'); reflexivity.
    + rewrite IH. destruct (String.eqb k k0) eqn:E2; [|reflexivity].
      apply String.eqb_eq in E2. subst k0.
      destruct (String.eqb k k') eqn:E3; [|reflexivity]. apply String.eqb_eq in E3. subst k'.
      rewrite String.eqb_refl in E. discriminate.
Qed.

Lemma pget_pset k k' v p : pget k (pset k' v p) = if String.eqb k k' then Some v else pget k p.
Proof. unfold pset. simpl. rewrite pget_pclear. destruct (String.eqb k k'); reflexivity. Qed.

Lemma floats_canon ns : floats (map Canon ns) = Ok (map parse4 ns).
Proof. induction ns as [|n ns IH]; simpl; [reflexivity|]. rewrite IH. reflexivity. Qed.

Lemma join_parse4 ns : join_energies (map parse4 ns) = map Canon ns.
Proof.
  unfold join_energies, canon. rewrite map_map. apply map_ext. intro n. rewrite fmt4_parse4. reflexivity.
Qed.

Lemma skipn_nth_error_cons {A} (l : list A) : forall n e, nth_error l n = Some e -> skipn n l = e :: skipn (S n) l.
Proof.
  induction l as [|x l IH]; intros [|n] e H; simpl in *; try discriminate.
  - inversion H. reflexivity.
  - apply IH. assumption.
Qed.

Lemma In_firstn {A} k : forall (l : list A) x, In x (firstn k l) -> In x l.
Proof.
  induction k as [|k IH]; intros l x H; simpl in H; [destruct H|].
  destruct l as [|y l]; [destruct H|]. destruct H as [->|H]; [left; reflexivity|right; auto].
Qed.

Lemma firstn_cap {A} a : forall (l : list A), firstn (Nat.min a (length l)) l = firstn a l.
Proof.
  induction a as [|a IH]; intro l; [reflexivity|]. destruct l as [|x l]; [reflexivity|]. simpl. rewrite IH. reflexivity.
Qed.

Section SD.
  Variable G : Type.
  Variable C : Type.
  Variable rt4 : C -> C.
  Variable codec : props -> props.
  Hypothesis codec_safe : forall p, sd_safe p = true -> codec p = p.

  Notation conformer := (conformer C).
  Notation mol := (mol G C).
  Notation sdrec := (sdrec G C).
  Notation write_loop := (write_loop G C).
  Notation mol_to_sdf := (mol_to_sdf G C).
  Notation mol_from_sdf := (mol_from_sdf G C rt4 codec).
  Notation decode_rec := (decode_rec G C codec).

  (* ---- the write loop ------------------------------------------------------------------------------------------- *)
  (* how many conformers a limit lets through when j have been written already *)
  Definition room (lim : option Z) (j : Z) (n : nat) : nat :=
    if limit_active lim then Nat.min n (Z.to_nat (limit_val lim - j)) else n.

  Lemma write_loop_recs g es lim : forall cs p j, 0 <= j ->
    map (r_xyz G C) (snd (write_loop g es lim p j cs)) = map (c_xyz C) (firstn (room lim j (length cs)) cs) /\
    Forall (fun r => r_graph G C r = g) (snd (write_loop g es lim p j cs)).
  Proof.
    induction cs as [|c cs IH]; intros p j Hj.
    - simpl. unfold room. destruct (limit_active lim); simpl; split; constructor.
    - simpl. unfold room. destruct (limit_active lim) eqn:A; simpl.
      + destruct (j >=? limit_val lim) eqn:E.
        * replace (Z.to_nat (limit_val lim - j)) with 0%nat by lia. simpl. split; constructor.
        * set (p' := match es with Some l => match nth_error l (Z.to_nat j) with Some e => pset K_E (PE (canon e)) p | None => p end | None => p end).
          specialize (IH p' (j + 1) ltac:(lia)). destruct (write_loop g es lim p' (j + 1) cs) as [pf recs] eqn:W. simpl in *.
          destruct IH as [IH1 IH2]. split; [|constructor; [reflexivity|assumption]].
          unfold room in IH1. rewrite A in IH1.
          replace (Z.to_nat (limit_val lim - j)) with (S (Z.to_nat (limit_val lim - (j + 1)))) by lia.
          simpl. f_equal. exact IH1.
      + set (p' := match es with Some l => match nth_error l (Z.to_nat j) with Some e => pset K_E (PE (canon e)) p | None => p end | None => p end).
        specialize (IH p' (j + 1) ltac:(lia)). destruct (write_loop g es lim p' (j + 1) cs) as [pf recs] eqn:W. simpl in *.
        destruct IH as [IH1 IH2]. split; [|constructor; [reflexivity|assumption]].
        unfold room in IH1. rewrite A in IH1. rewrite firstn_all in IH1. simpl. f_equal. rewrite firstn_all. exact IH1.
  Qed.

  (* the loop only ever touches the Energy property *)
  Lemma write_loop_props g es lim : forall cs p j k, String.eqb k K_E = false ->
    pget k (fst (write_loop g es lim p j cs)) = pget k p /\
    Forall (fun r => pget k (r_props G C r) = pget k p) (snd (write_loop g es lim p j cs)).
  Proof.
    induction cs as [|c cs IH]; intros p j k Hk; simpl; [split; [reflexivity|constructor]|].
    destruct (limit_active lim && (j >=? limit_val lim)); simpl; [split; [reflexivity|constructor]|].
    set (p' := match es with Some l => match nth_error l (Z.to_nat j) with Some e => pset K_E (PE (canon e)) p | None => p end | None => p end).
    assert (Hp' : pget k p' = pget k p).
    { unfold p'. destruct es as [l|]; [|reflexivity]. destruct (nth_error l (Z.to_nat j)); [|reflexivity].
      rewrite pget_pset, Hk. reflexivity. }
    specialize (IH p' (j + 1) k Hk). destruct (write_loop g es lim p' (j + 1) cs) as [pf recs]. simpl in *.
    destruct IH as [IH1 IH2]. split; [congruence|]. constructor; [simpl; assumption|].
    eapply Forall_impl; [|exact IH2]. intros r Hr. simpl in Hr. congruence.
  Qed.

  (* with one energy per conformer, record i carries the i-th energy, formatted *)
  Definition carries (r : sdrec) (e : Q) : Prop := pget K_E (r_props G C r) = Some (PE (canon e)).

  Lemma write_loop_energies g l lim : forall cs p j, 0 <= j -> (Z.to_nat j + length cs <= length l)%nat ->
    Forall2 carries (snd (write_loop g (Some l) lim p j cs)) (firstn (room lim j (length cs)) (skipn (Z.to_nat j) l)).
  Proof.
    induction cs as [|c cs IH]; intros p j Hj Hlen.
    - simpl. unfold room. destruct (limit_active lim); simpl; constructor.
    - simpl. unfold room. simpl in Hlen.
      destruct (nth_error l (Z.to_nat j)) as [e|] eqn:N; [|apply nth_error_None in N; lia].
      specialize (IH (pset K_E (PE (canon e)) p) (j + 1) ltac:(lia) ltac:(lia)).
      unfold room in IH. replace (Z.to_nat (j + 1)) with (S (Z.to_nat j)) in IH by lia.
      rewrite (skipn_nth_error_cons _ _ _ N).
      destruct (limit_active lim) eqn:A; simpl.
      + destruct (j >=? limit_val lim) eqn:E.
        * replace (Z.to_nat (limit_val lim - j)) with 0%nat by lia. simpl. constructor.
        * destruct (write_loop g (Some l) lim (pset K_E (PE (canon e)) p) (j + 1) cs) as [pf recs] eqn:W. simpl in *.
          replace (Z.to_nat (limit_val lim - j)) with (S (Z.to_nat (limit_val lim - (j + 1)))) by lia. simpl.
          constructor; [|exact IH]. unfold carries; simpl; rewrite ?pget_pset, ?String.eqb_refl; reflexivity.
      + destruct (write_loop g (Some l) lim (pset K_E (PE (canon e)) p) (j + 1) cs) as [pf recs] eqn:W. simpl in *.
        constructor; [|exact IH]. unfold carries; simpl; rewrite ?pget_pset, ?String.eqb_refl; reflexivity.
  Qed.

  Lemma read_energies_carries recs es : Forall2 carries recs es ->
    read_energies G C recs = Ok (map (fun e => parse4 (fmt4 e)) es).
  Proof.
    induction 1 as [|r e recs es H _ IH]; simpl; [reflexivity|].
    unfold carries in H. rewrite H. simpl. rewrite IH. reflexivity.
  Qed.

  Lemma Forall2_firstn {A B} (R : A -> B -> Prop) k : forall a b, Forall2 R a b -> Forall2 R (firstn k a) (firstn k b).
  Proof.
    induction k as [|k IH]; intros a b H; simpl; [constructor|].
    destruct H; constructor; auto.
  Qed.

  Lemma Forall2_length {A B} (R : A -> B -> Prop) a b : Forall2 R a b -> length a = length b.
  Proof. induction 1; simpl; congruence. Qed.

  (* ---- property maps without line feeds pass the SD codec unchanged --------------------------------------------- *)
  Definition rec_safe (r : sdrec) : Prop := sd_safe (r_props G C r) = true.

  Lemma sd_safe_pclear k p : sd_safe p = true -> sd_safe (pclear k p) = true.
  Proof.
    unfold sd_safe, pclear. intro H. rewrite forallb_forall in *. intros e He. apply filter_In in He. apply H. tauto.
  Qed.

  Lemma sd_safe_pset_energy k t p : sd_safe p = true -> sd_safe (pset k (PE t) p) = true.
  Proof. intro H. unfold pset. simpl. apply sd_safe_pclear. assumption. Qed.

  Lemma write_loop_safe g es lim : forall cs p j, sd_safe p = true ->
    Forall rec_safe (snd (write_loop g es lim p j cs)).
  Proof.
    induction cs as [|c cs IH]; intros p j Hp; simpl; [constructor|].
    destruct (limit_active lim && (j >=? limit_val lim)); simpl; [constructor|].
    set (p' := match es with Some l => match nth_error l (Z.to_nat j) with Some e => pset K_E (PE (canon e)) p | None => p end | None => p end).
    assert (Hp' : sd_safe p' = true).
    { unfold p'. destruct es as [l|]; [|assumption]. destruct (nth_error l (Z.to_nat j)); [|assumption]. apply sd_safe_pset_energy. assumption. }
    specialize (IH p' (j + 1) Hp'). destruct (write_loop g es lim p' (j + 1) cs) as [pf recs]. simpl in *.
    constructor; [exact Hp'|exact IH].
  Qed.

  Lemma decode_safe recs : Forall rec_safe recs -> map decode_rec recs = recs.
  Proof.
    induction 1 as [|r recs Hr _ IH]; simpl; [reflexivity|]. rewrite IH. f_equal.
    unfold Files.decode_rec. rewrite (codec_safe _ Hr). destruct r; reflexivity.
  Qed.

  Lemma pget_In k v : forall p, pget k p = Some v -> In (k, v) p.
  Proof.
    induction p as [|[k' v'] p IH]; cbn [pget]; [discriminate|].
    destruct (String.eqb k k') eqn:E; intro H.
    - inversion H; subst. apply String.eqb_eq in E. subst. left. reflexivity.
    - right. auto.
  Qed.

  Lemma sd_safe_title p : sd_safe p = true -> title_ok p = true.
  Proof.
    unfold title_ok. intro H. destruct (pget K_NAME p) as [[s| |]|] eqn:E; try reflexivity.
    apply pget_In in E. unfold sd_safe in H. rewrite forallb_forall in H. apply (H _ E).
  Qed.

  (* ---- the two functions, inverted ------------------------------------------------------------------------------- *)
  Lemma mol_to_sdf_inv m wl m' recs : mol_to_sdf m wl = Ok (m', recs) ->
    exists es pf,
      get_conformer_energies (m_props G C m) = Ok es /\
      write_loop (m_graph G C m) es wl (pclear K_CE (m_props G C m)) 0 (m_confs G C m) = (pf, recs) /\
      m' = mkmol G C (m_graph G C m)
                 (match es with Some l => add_conformer_energies (pclear K_E pf) l | None => pclear K_E pf end)
                 (m_confs G C m) /\
      m_confs G C m <> [].
  Proof.
    unfold Files.mol_to_sdf. destruct (get_conformer_energies (m_props G C m)) as [es|e]; simpl; [|discriminate].
    destruct (write_loop (m_graph G C m) es wl (pclear K_CE (m_props G C m)) 0 (m_confs G C m)) as [pf rs] eqn:W.
    destruct (m_confs G C m) as [|c cs] eqn:Ec; [discriminate|].
    intro H. inversion H; subst. exists es, pf. repeat split; try reflexivity; try assumption. discriminate.
  Qed.

  Definition read_take {A} (rl : option Z) (l : list A) : list A :=
    match rl with None => l | Some n => if n <? 0 then l else firstn (Z.to_nat n) l end.

  Lemma read_take_map {A B} (f : A -> B) rl l : read_take rl (map f l) = map f (read_take rl l).
  Proof. unfold read_take. destruct rl as [n|]; [|reflexivity]. destruct (n <? 0); [reflexivity|apply firstn_map]. Qed.

  Lemma read_take_Forall {A} (P : A -> Prop) rl l : Forall P l -> Forall P (read_take rl l).
  Proof.
    intro H. unfold read_take. destruct rl as [n|]; [|assumption]. destruct (n <? 0); [assumption|].
    rewrite Forall_forall in *. intros x Hx. apply H. eapply In_firstn. exact Hx.
  Qed.

  Lemma mol_from_sdf_inv recs rl fb r : Forall rec_safe recs -> mol_from_sdf recs rl fb = Ok r ->
    exists r0 rest es,
      read_take rl recs = r0 :: rest /\ read_energies G C (r0 :: rest) = Ok es /\
      m_graph G C r = r_graph G C r0 /\ m_confs G C r = renumber G C rt4 0 (r0 :: rest) /\
      m_props G C r =
        (let p := reader_props (r_props G C r0) in
         let p := match pget K_NAME p with Some _ => p | None => pset K_NAME (PStr fb) p end in
         match es with [] => p | _ => pclear K_E (add_conformer_energies p es) end).
  Proof.
    intro Hs. unfold Files.mol_from_sdf. fold (read_take rl recs).
    rewrite (decode_safe _ (read_take_Forall _ rl recs Hs)).
    destruct (read_take rl recs) as [|r0 rest] eqn:T; [discriminate|].
    destruct (forallb (fun r1 => title_ok (r_props G C r1)) (r0 :: rest)); simpl negb; cbv iota; [|discriminate].
    destruct (read_energies G C (r0 :: rest)) as [es|e] eqn:RE; simpl; [|discriminate].
    intro H. inversion H; subst; clear H. exists r0, rest, es. repeat split; try reflexivity; exact RE.
  Qed.

  Lemma renumber_xyz : forall recs j, map (c_xyz C) (renumber G C rt4 j recs) = map rt4 (map (r_xyz G C) recs).
  Proof. induction recs as [|r recs IH]; intro j; simpl; [reflexivity|]. rewrite IH. reflexivity. Qed.

  Lemma renumber_ids : forall recs j,
    map (c_id C) (renumber G C rt4 j recs) = map (fun i => j + Z.of_nat i) (seq 0 (length recs)).
  Proof.
    induction recs as [|r recs IH]; intro j; simpl; [reflexivity|].
    f_equal; [lia|]. rewrite IH, <- seq_shift, map_map. apply map_ext. intro i. lia.
  Qed.

  Lemma renumber_length : forall recs j, length (renumber G C rt4 j recs) = length recs.
  Proof. induction recs as [|r recs IH]; intro j; simpl; [reflexivity|]. rewrite IH. reflexivity. Qed.

  (* ---- the statements ------------------------------------------------------------------------------------------- *)
  (* number and order of conformers: the first `write limit` of the molecule, then the first `read limit` of those *)
  Lemma sdf_count_order m wl rl fb m' recs r : sd_safe (m_props G C m) = true ->
    mol_to_sdf m wl = Ok (m', recs) -> mol_from_sdf recs rl fb = Ok r ->
    map (c_xyz C) (m_confs G C r) =
      map rt4 (map (c_xyz C) (read_take rl (firstn (room wl 0 (length (m_confs G C m))) (m_confs G C m)))) /\
    map (c_id C) (m_confs G C r) = map Z.of_nat (seq 0 (length (m_confs G C r))) /\
    m_graph G C r = m_graph G C m /\
    m_confs G C m' = m_confs G C m /\ m_graph G C m' = m_graph G C m.
  Proof.
    intros Hsd HW HR.
    destruct (mol_to_sdf_inv _ _ _ _ HW) as (es & pf & _ & W & -> & _).
    assert (Hsafe : Forall rec_safe recs).
    { pose proof (write_loop_safe (m_graph G C m) es wl (m_confs G C m) (pclear K_CE (m_props G C m)) 0 (sd_safe_pclear _ _ Hsd)) as Xs.
      rewrite W in Xs. exact Xs. }
    destruct (mol_from_sdf_inv _ _ _ _ Hsafe HR) as (r0 & rest & es' & T & _ & Gr & Cr & _).
    pose proof (write_loop_recs (m_graph G C m) es wl (m_confs G C m) (pclear K_CE (m_props G C m)) 0 ltac:(lia)) as [X Fg].
    rewrite W in X, Fg. simpl in X, Fg.
    split; [|split; [|split; [|split; reflexivity]]].
    - rewrite Cr, renumber_xyz, <- T, <- read_take_map, X, read_take_map. reflexivity.
    - rewrite Cr, renumber_ids, renumber_length. apply map_ext. intro i. lia.
    - rewrite Gr. assert (In r0 recs).
      { unfold read_take in T. destruct rl as [n|]; [destruct (n <? 0)|]; try (rewrite T; left; reflexivity).
        apply (In_firstn (Z.to_nat n) recs). rewrite T. left. reflexivity. }
      rewrite Forall_forall in Fg. auto.
  Qed.

  Lemma read_take_length {A} rl (l : list A) :
    length (read_take rl l) = match rl with None => length l | Some n => if n <? 0 then length l else Nat.min (Z.to_nat n) (length l) end.
  Proof. unfold read_take. destruct rl as [n|]; [|reflexivity]. destruct (n <? 0); [reflexivity|apply firstn_length]. Qed.

  (* the count as a minimum, limits None / -1 meaning "all" (a read limit < 0 never matches the counter) *)
  Lemma sdf_count m wl rl fb m' recs r : sd_safe (m_props G C m) = true ->
    mol_to_sdf m wl = Ok (m', recs) -> mol_from_sdf recs rl fb = Ok r ->
    length (m_confs G C r) =
      let n := length (m_confs G C m) in
      let w := if limit_active wl then Nat.min n (Z.to_nat (limit_val wl)) else n in
      match rl with None => w | Some k => if k <? 0 then w else Nat.min (Z.to_nat k) w end.
  Proof.
    intros Hsd HW HR. destruct (sdf_count_order _ _ _ _ _ _ _ Hsd HW HR) as (X & _).
    apply (f_equal (@length C)) in X. rewrite !map_length, read_take_length, firstn_length in X.
    rewrite X. unfold room. rewrite Z.sub_0_r.
    destruct (limit_active wl); simpl; destruct rl as [k|]; try destruct (k <? 0); lia.
  Qed.

  (* energies: with (at least) one energy per conformer the molecule read back carries the formatted energies of the
     conformers it received, in order, and no stray Energy property *)
  Lemma sdf_energies m wl rl fb m' recs r l : sd_safe (m_props G C m) = true ->
    get_conformer_energies (m_props G C m) = Ok (Some l) -> (length (m_confs G C m) <= length l)%nat ->
    mol_to_sdf m wl = Ok (m', recs) -> mol_from_sdf recs rl fb = Ok r ->
    pget K_CE (m_props G C r) = Some (PEn (map canon (firstn (length (m_confs G C r)) l))) /\
    pget K_E (m_props G C r) = None.
  Proof.
    intros Hsd HE Hlen HW HR.
    destruct (mol_to_sdf_inv _ _ _ _ HW) as (es & pf & HE' & W & _ & _).
    rewrite HE in HE'. inversion HE'; subst es; clear HE'.
    assert (Hsafe : Forall rec_safe recs).
    { pose proof (write_loop_safe (m_graph G C m) (Some l) wl (m_confs G C m) (pclear K_CE (m_props G C m)) 0 (sd_safe_pclear _ _ Hsd)) as Xs.
      rewrite W in Xs. exact Xs. }
    destruct (mol_from_sdf_inv _ _ _ _ Hsafe HR) as (r0 & rest & es' & T & RE & _ & Cr & Pr).
    pose proof (write_loop_energies (m_graph G C m) l wl (m_confs G C m) (pclear K_CE (m_props G C m)) 0 ltac:(lia) ltac:(simpl; lia)) as F.
    rewrite W in F. simpl in F.
    set (k := room wl 0 (length (m_confs G C m))) in *.
    assert (F' : Forall2 carries (r0 :: rest) (read_take rl (firstn k l))).
    { rewrite <- T. unfold read_take. destruct rl as [n|]; [destruct (n <? 0)|]; try exact F. apply Forall2_firstn. exact F. }
    rewrite (read_energies_carries _ _ F') in RE. inversion RE; subst es'; clear RE.
    assert (Lr : length (m_confs G C r) = length (read_take rl (firstn k l))).
    { rewrite Cr, renumber_length. apply (Forall2_length _ _ _ F'). }
    assert (Ex : read_take rl (firstn k l) = firstn (length (m_confs G C r)) l).
    { rewrite Lr. unfold read_take. destruct rl as [n|]; [destruct (n <? 0)|].
      - rewrite firstn_length, firstn_cap. reflexivity.
      - rewrite firstn_firstn, !firstn_length, firstn_cap. reflexivity.
      - rewrite firstn_length, firstn_cap. reflexivity. }
    rewrite Pr. cbv zeta.
    destruct (map (fun e => parse4 (fmt4 e)) (read_take rl (firstn k l))) as [|q qs] eqn:Em.
    { exfalso. inversion F'; subst. rewrite <- H1 in Em. discriminate. }
    rewrite <- Em. rewrite !pget_pclear. unfold add_conformer_energies. rewrite !pget_pset.
    split; [|reflexivity]. simpl String.eqb. cbv iota.
    f_equal. f_equal. unfold join_energies. rewrite map_map. rewrite Ex. apply map_ext. intro e. unfold canon. rewrite fmt4_parse4. reflexivity.
  Qed.

  (* the property map after the write, key by key *)
  Lemma write_props_general m wl m' recs es :
    get_conformer_energies (m_props G C m) = Ok es -> mol_to_sdf m wl = Ok (m', recs) ->
    forall k, pget k (m_props G C m') =
      if String.eqb k K_E then None
      else if String.eqb k K_CE then option_map (fun l => PEn (join_energies l)) es
      else pget k (m_props G C m).
  Proof.
    intros HE HW k.
    destruct (mol_to_sdf_inv _ _ _ _ HW) as (es' & pf & HE' & W & -> & _).
    rewrite HE in HE'. inversion HE'; subst es'; clear HE'. simpl.
    destruct (String.eqb k K_E) eqn:E1.
    - apply String.eqb_eq in E1. subst k. destruct es as [l|]; unfold add_conformer_energies; rewrite ?pget_pset, ?pget_pclear; reflexivity.
    - pose proof (write_loop_props (m_graph G C m) es wl (m_confs G C m) (pclear K_CE (m_props G C m)) 0 k E1) as [X _].
      rewrite W in X. simpl in X. rewrite pget_pclear in X.
      destruct es as [l|]; unfold add_conformer_energies; rewrite ?pget_pset, ?pget_pclear, E1, X; destruct (String.eqb k K_CE) eqn:E2; try reflexivity.
  Qed.

  (* writing leaves the property map as it was, when the molecule has no Energy property of its own and its energies (if any)
     are spelled the way "{:.4f}" spells them *)
  Lemma write_restores_props m wl m' recs :
    mol_to_sdf m wl = Ok (m', recs) -> pget K_E (m_props G C m) = None ->
    (pget K_CE (m_props G C m) = None \/ exists ns, pget K_CE (m_props G C m) = Some (PEn (map Canon ns))) ->
    (forall k, pget k (m_props G C m') = pget k (m_props G C m)) /\ m_confs G C m' = m_confs G C m /\ m_graph G C m' = m_graph G C m.
  Proof.
    intros HW HnoE HCE.
    destruct (mol_to_sdf_inv _ _ _ _ HW) as (es & pf & HE & _ & Em & _).
    split; [|subst m'; split; reflexivity].
    intro k. rewrite (write_props_general _ _ _ _ _ HE HW k).
    destruct (String.eqb k K_E) eqn:E1; [apply String.eqb_eq in E1; subst k; symmetry; assumption|].
    destruct (String.eqb k K_CE) eqn:E2; [|reflexivity].
    apply String.eqb_eq in E2. subst k.
    unfold get_conformer_energies in HE. destruct HCE as [H0|[ns H0]]; rewrite H0 in *.
    - inversion HE. reflexivity.
    - destruct ns as [|n ns]; [discriminate|]. change (Canon n :: map Canon ns) with (map Canon (n :: ns)) in *.
      rewrite floats_canon in HE. simpl in HE. inversion HE; subst es.
      change (parse4 n :: map parse4 ns) with (map parse4 (n :: ns)). unfold option_map. rewrite join_parse4. reflexivity.
  Qed.
End SD.

(* a molecule that carries its own Energy property loses it (outside the property's stated domain) *)
Lemma write_restores_props_refuted :
  exists (m m' : mol unit unit) recs,
    mol_to_sdf unit unit m None = Ok (m', recs) /\ pget K_E (m_props unit unit m) <> pget K_E (m_props unit unit m').
Proof.
  exists (mkmol unit unit tt [(K_E, PE (Raw (25 # 2)))] [mkconf unit 0 tt]).
  eexists. eexists. split; [vm_compute; reflexivity|]. vm_compute. discriminate.
Qed.

(* ================================================================================================================== *)
(* SMILES tables                                                                                                       *)
Lemma text_eqb_eq a : forall b, text_eqb a b = true <-> a = b.
Proof.
  induction a as [|x a IH]; destruct b as [|y b]; simpl; split; intro H; try discriminate; try reflexivity.
  - apply andb_true_iff in H. destruct H as [H1 H2]. apply Z.eqb_eq in H1. apply IH in H2. congruence.
  - inversion H; subst. rewrite Z.eqb_refl. simpl. apply IH. reflexivity.
Qed.

Lemma text_eqb_neq a b : a <> b -> text_eqb a b = false.
Proof. intro H. destruct (text_eqb a b) eqn:E; [|reflexivity]. apply text_eqb_eq in E. contradiction. Qed.

Lemma nl_is_ws c : is_nl c = true -> is_ws c = true.
Proof.
  unfold is_nl, is_ws. rewrite !orb_true_iff, !andb_true_iff, !Z.eqb_eq, !Z.leb_le. lia.
Qed.

Lemma split_on_clean p a : forallb (fun c => negb (p c)) a = true -> split_on p a = [a].
Proof.
  induction a as [|x a IH]; simpl; intro H; [reflexivity|].
  apply andb_true_iff in H. destruct H as [H1 H2]. apply negb_true_iff in H1. rewrite H1, (IH H2). reflexivity.
Qed.

Lemma split_on_app p a c r : forallb (fun c => negb (p c)) a = true -> p c = true ->
  split_on p (a ++ c :: r) = a :: split_on p r.
Proof.
  intros Ha Hc. induction a as [|x a IH]; simpl.
  - rewrite Hc. reflexivity.
  - simpl in Ha. apply andb_true_iff in Ha. destruct Ha as [H1 H2]. apply negb_true_iff in H1. rewrite H1, (IH H2). reflexivity.
Qed.

Definition smiles_generator_lines (ls : list text) : list (text * text) :=
  flat_map (fun l => match split_ws l with a :: b :: _ => [(a, b)] | _ => [] end) ls.

Definition good_entry (e : text * text) : Prop := good_token (fst e) /\ good_token (snd e).
Definition swap (e : text * text) : text * text := (snd e, fst e).

Definition tok_ok (c : Z) : bool := negb (is_ws c) && negb (is_uws_lead c).

Lemma tok_ok_ws t : forallb tok_ok t = true -> forallb (fun c => negb (is_ws c)) t = true.
Proof.
  intro H. rewrite forallb_forall in *. intros c Hc. specialize (H c Hc). unfold tok_ok in H.
  apply andb_true_iff in H. tauto.
Qed.

Lemma ws_free_nl_free t : forallb (fun c => negb (is_ws c)) t = true -> forallb (fun c => negb (is_nl c)) t = true.
Proof.
  intro H. rewrite forallb_forall in *. intros c Hc. specialize (H c Hc).
  apply negb_true_iff in H. apply negb_true_iff. destruct (is_nl c) eqn:E; [|reflexivity].
  apply nl_is_ws in E. congruence.
Qed.

(* a string without the four lead bytes holds no non-ASCII white space: normalisation leaves it alone *)
Lemma uws_len_nolead a t : is_uws_lead a = false -> uws_len (a :: t) = 0%nat.
Proof.
  unfold is_uws_lead. intro H. apply orb_false_iff in H. destruct H as [H H4]. apply orb_false_iff in H. destruct H as [H H3].
  apply orb_false_iff in H. destruct H as [H1 H2].
  unfold uws_len. destruct t as [|b r]; [reflexivity|]. rewrite H1, H2, H3, H4. simpl. destruct r; reflexivity.
Qed.

Lemma norm_ws_nolead t : forallb (fun c => negb (is_uws_lead c)) t = true -> norm_ws t = t.
Proof.
  unfold norm_ws. induction t as [|a t IH]; intro H; [reflexivity|].
  simpl in H. apply andb_true_iff in H. destruct H as [H1 H2]. apply negb_true_iff in H1.
  cbn [norm_ws_aux]. rewrite (uws_len_nolead a t H1). rewrite (IH H2). reflexivity.
Qed.

Lemma tok_ok_nolead t : forallb tok_ok t = true -> forallb (fun c => negb (is_uws_lead c)) t = true.
Proof.
  intro H. rewrite forallb_forall in *. intros c Hc. specialize (H c Hc). unfold tok_ok in H.
  apply andb_true_iff in H. tauto.
Qed.

Lemma split_ws_entry s n : good_token s -> good_token n -> split_ws (s ++ 32 :: n) = [s; n].
Proof.
  intros [Hs1 Hs2] [Hn1 Hn2]. fold tok_ok in Hs2, Hn2. unfold split_ws.
  rewrite norm_ws_nolead by (rewrite forallb_app; simpl; rewrite (tok_ok_nolead _ Hs2), (tok_ok_nolead _ Hn2); reflexivity).
  rewrite (split_on_app is_ws s 32 n (tok_ok_ws _ Hs2) eq_refl), (split_on_clean is_ws n (tok_ok_ws _ Hn2)). simpl.
  destruct s; [contradiction|]. destruct n; [contradiction|]. reflexivity.
Qed.

Lemma lines_entry s n rest : good_token s -> good_token n ->
  lines ((s ++ 32 :: n) ++ 10 :: rest) = (s ++ 32 :: n) :: lines rest.
Proof.
  intros [_ Hs] [_ Hn]. fold tok_ok in Hs, Hn. unfold lines. apply split_on_app; [|reflexivity].
  rewrite forallb_app. rewrite (ws_free_nl_free _ (tok_ok_ws _ Hs)). simpl. apply (ws_free_nl_free _ (tok_ok_ws _ Hn)).
Qed.

Lemma iter_cons e t : iter_to_smiles (e :: t) = (snd e ++ 32 :: fst e) ++ 10 :: iter_to_smiles t.
Proof.
  unfold iter_to_smiles. simpl. rewrite <- !app_assoc. simpl. rewrite <- app_assoc. reflexivity.
Qed.

Lemma smiles_generator_cons l rest :
  smiles_generator_lines (l :: rest) =
  (match split_ws l with a :: b :: _ => [(a, b)] | _ => [] end) ++ smiles_generator_lines rest.
Proof. reflexivity. Qed.

Lemma smiles_generator_eq s : smiles_generator s = smiles_generator_lines (lines s).
Proof. reflexivity. Qed.

Lemma smiles_generator_write t : Forall good_entry t -> smiles_generator (iter_to_smiles t) = map swap t.
Proof.
  induction 1 as [|e t [Hn Hs] _ IH]; [reflexivity|].
  rewrite iter_cons. rewrite smiles_generator_eq in *.
  rewrite (lines_entry _ _ _ Hs Hn), smiles_generator_cons, (split_ws_entry _ _ Hs Hn), IH. reflexivity.
Qed.

Lemma dset_fresh n v d : ~ In n (map fst d) -> dset n v d = d ++ [(n, v)].
Proof.
  induction d as [|[k w] d IH]; simpl; intro H; [reflexivity|].
  rewrite text_eqb_neq by (intro C; apply H; left; congruence).
  rewrite IH by (intro C; apply H; right; assumption). reflexivity.
Qed.

Lemma fold_dset_distinct t : forall acc, NoDup (map fst acc ++ map fst t) ->
  fold_left (fun d (e : text * text) => dset (snd e) (fst e) d) (map swap t) acc = acc ++ t.
Proof.
  induction t as [|e t IH]; intros acc N; simpl; [rewrite app_nil_r; reflexivity|].
  simpl in N. pose proof (NoDup_remove_2 _ _ _ N) as Hfresh.
  rewrite dset_fresh by (intro C; apply Hfresh; apply in_app_iff; left; assumption).
  rewrite IH.
  - rewrite <- app_assoc. destruct e. reflexivity.
  - rewrite map_app. simpl. rewrite <- app_assoc. simpl. exact N.
Qed.

(* iter_to_smiles then smiles_to_dict: the same entries, in the same order *)
Lemma smiles_table_rt_iter t : Forall good_entry t -> NoDup (map fst t) ->
  smiles_to_dict (iter_to_smiles t) false false = Ok t.
Proof.
  intros Hg N. unfold smiles_to_dict. rewrite (smiles_generator_write t Hg). simpl.
  rewrite (fold_dset_distinct t [] N). reflexivity.
Qed.

Lemma einsert_perm e l : Permutation (einsert e l) (e :: l).
Proof.
  induction l as [|x l IH]; simpl; [apply Permutation_refl|].
  destruct (entry_leb e x); [apply Permutation_refl|].
  eapply Permutation_trans; [apply perm_skip; exact IH|apply perm_swap].
Qed.

Lemma esort_perm l : Permutation (esort l) l.
Proof.
  induction l as [|x l IH]; simpl; [constructor|].
  eapply Permutation_trans; [apply einsert_perm|apply perm_skip; exact IH].
Qed.

(* dict_to_smiles then smiles_to_dict: the same table, listed by name *)
Lemma smiles_table_rt t : Forall good_entry t -> NoDup (map fst t) ->
  smiles_to_dict (dict_to_smiles t) false false = Ok (esort t) /\ Permutation (esort t) t.
Proof.
  intros Hg N. split; [|apply esort_perm]. unfold dict_to_smiles. apply smiles_table_rt_iter.
  - eapply Permutation_Forall; [apply Permutation_sym, esort_perm|assumption].
  - eapply Permutation_NoDup; [apply Permutation_map, Permutation_sym, esort_perm|assumption].
Qed.

(* ... and as a finite map: every name looks up the same SMILES *)
Lemma dget_perm a b : Permutation a b -> NoDup (map fst a) -> forall n, dget n a = dget n b.
Proof.
  induction 1 as [|[k v] a b P IH|[k v] [k' v'] a|a b c P1 IH1 P2 IH2]; intros N n; simpl.
  - reflexivity.
  - inversion N; subst. rewrite IH by assumption. reflexivity.
  - simpl in N. inversion N; subst. destruct (text_eqb n k') eqn:E1; destruct (text_eqb n k) eqn:E2; try reflexivity.
    apply text_eqb_eq in E1, E2. subst. exfalso. apply H1. left. reflexivity.
  - rewrite IH1 by assumption. apply IH2. eapply Permutation_NoDup; [apply Permutation_map; exact P1|assumption].
Qed.

Lemma smiles_table_rt_map t : Forall good_entry t -> NoDup (map fst t) ->
  exists d, smiles_to_dict (dict_to_smiles t) false false = Ok d /\ forall n, dget n d = dget n t.
Proof.
  intros Hg N. destruct (smiles_table_rt t Hg N) as [E P]. exists (esort t). split; [exact E|].
  intro n. apply dget_perm; [exact P|].
  eapply Permutation_NoDup; [apply Permutation_map, Permutation_sym; exact P|assumption].
Qed.

(* duplicates: without `unique` the last line with a given name wins *)
Lemma dget_dset n k v d : dget n (dset k v d) = if text_eqb n k then Some v else dget n d.
Proof.
  induction d as [|[k0 w] d IH]; simpl.
  - reflexivity.
  - destruct (text_eqb k k0) eqn:E; simpl.
    + apply text_eqb_eq in E. subst k0. destruct (text_eqb n k); reflexivity.
    + rewrite IH. destruct (text_eqb n k0) eqn:E2; [|reflexivity].
      apply text_eqb_eq in E2. subst k0. rewrite text_eqb_neq; [reflexivity|].
      intro C. subst. rewrite (proj2 (text_eqb_eq k k) eq_refl) in E. discriminate.
Qed.

Lemma dget_app n a b : dget n (a ++ b) = match dget n a with Some v => Some v | None => dget n b end.
Proof. induction a as [|[k v] a IH]; simpl; [reflexivity|]. destruct (text_eqb n k); [reflexivity|exact IH]. Qed.

Lemma fold_dset_last t n : forall acc,
  dget n (fold_left (fun d (e : text * text) => dset (snd e) (fst e) d) (map swap t) acc) =
  match dget n (rev t) with Some v => Some v | None => dget n acc end.
Proof.
  induction t as [|[k v] t IH]; intro acc; simpl; [reflexivity|].
  rewrite IH, dget_app, dget_dset. simpl.
  destruct (dget n (rev t)); [reflexivity|]. destruct (text_eqb n k); reflexivity.
Qed.

Lemma smiles_dup_last_wins t : Forall good_entry t ->
  exists d, smiles_to_dict (iter_to_smiles t) false false = Ok d /\ forall n, dget n d = dget n (rev t).
Proof.
  intro Hg. unfold smiles_to_dict. rewrite (smiles_generator_write t Hg). simpl. eexists. split; [reflexivity|].
  intro n. rewrite fold_dset_last. simpl. destruct (dget n (rev t)); reflexivity.
Qed.
