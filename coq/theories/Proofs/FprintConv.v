(* Lemmas about copying / converting fingerprints between kinds (`X.from_fingerprint(fp)`, Model/Fprint.v) and about the
   count fingerprint built from an index multiset.  Used by Properties/C09.v (copy_eq, convert_back_eq) and
   Properties/C17.v (convert_support, convert_values, count_is_multiplicity_fp). *)
From Coq Require Import QArith Qround.
From E3FP Require Import Base.Prelude Base.ZSet Model.Fprint Model.FprintIO Proofs.FprintEq.
Open Scope Z_scope.

(* ---- association lists --------------------------------------------------------------------------------- *)
Lemma ckeys_cbuild ks f : ckeys (cbuild ks f) = ks.
Proof. unfold ckeys, cbuild. rewrite map_map. simpl. apply map_id. Qed.

Lemma cget_cbuild_in ks f i : In i ks -> cget (cbuild ks f) i = f i.
Proof.
  induction ks as [|k t IH]; simpl; [tauto|]. intros [->|H].
  - rewrite Z.eqb_refl. reflexivity.
  - destruct (i =? k) eqn:E; [apply Z.eqb_eq in E; subst; reflexivity | auto].
Qed.

Lemma cget_cbuild_notin ks f i : ~ In i ks -> cget (cbuild ks f) i = 0%Q.
Proof.
  induction ks as [|k t IH]; simpl; intro H; [reflexivity|].
  destruct (i =? k) eqn:E; [apply Z.eqb_eq in E; subst; tauto | apply IH; tauto].
Qed.

Lemma cbuild_ext ks f g : (forall i, In i ks -> f i = g i) -> cbuild ks f = cbuild ks g.
Proof. intro H. unfold cbuild. apply map_ext_in. intros a Ha. rewrite H; auto. Qed.

Lemma cbuild_equiv ks f g : (forall i, In i ks -> (f i == g i)%Q) -> cmap_equiv (cbuild ks f) (cbuild ks g).
Proof.
  unfold cmap_equiv, cbuild. induction ks as [|k t IH]; intro H; simpl; constructor.
  - simpl. split; [reflexivity | apply H; left; reflexivity].
  - apply IH. intros i Hi. apply H. right. exact Hi.
Qed.

Lemma cget_in_keys m i : In i (ckeys m) -> In (i, cget m i) m.
Proof.
  induction m as [|[k v] t IH]; simpl; [tauto|]. intros [->|H].
  - rewrite Z.eqb_refl. left; reflexivity.
  - destruct (i =? k) eqn:E; [apply Z.eqb_eq in E; subst; left; reflexivity | right; auto].
Qed.

Lemma cget_notin_keys m i : ~ In i (ckeys m) -> cget m i = 0%Q.
Proof.
  induction m as [|[k v] t IH]; simpl; intro H; [reflexivity|].
  destruct (i =? k) eqn:E; [apply Z.eqb_eq in E; subst; tauto | apply IH; tauto].
Qed.

Lemma cbuild_cget_id m : NoDup (ckeys m) -> cbuild (ckeys m) (cget m) = m.
Proof.
  induction m as [|[k v] t IH]; intro H; [reflexivity|].
  change (ckeys ((k, v) :: t)) with (k :: ckeys t) in *. inversion H as [|? ? Hk Ht]; subst.
  change (cbuild (k :: ckeys t) (cget ((k, v) :: t)))
    with ((k, cget ((k, v) :: t) k) :: cbuild (ckeys t) (cget ((k, v) :: t))).
  f_equal.
  - simpl. rewrite Z.eqb_refl. reflexivity.
  - transitivity (cbuild (ckeys t) (cget t)); [|apply IH; exact Ht]. apply cbuild_ext. intros i Hi. simpl.
    destruct (i =? k) eqn:E; [|reflexivity]. apply Z.eqb_eq in E. subst. contradiction.
Qed.

Lemma filter_all {A} (p : A -> bool) l : (forall x, In x l -> p x = true) -> filter p l = l.
Proof.
  induction l as [|x t IH]; simpl; intro H; [reflexivity|].
  rewrite (H x (or_introl eq_refl)). f_equal. apply IH. auto.
Qed.

Lemma pos_filter_all (m : cmap) :
  (forall kv, In kv m -> (0 < snd kv)%Q) -> filter (fun kv => negb (Qle_bool (snd kv) 0)) m = m.
Proof.
  intro H. apply filter_all. intros x Hx. apply negb_true_iff, not_true_is_false. intro E.
  apply Qle_bool_iff in E. specialize (H x Hx). apply Qlt_not_le in H. contradiction.
Qed.

Lemma existsb_ge_false bits l : (forall i, In i l -> 0 <= i < bits) -> existsb (fun i => bits <=? i) l = false.
Proof.
  intro H. apply not_true_is_false. intro E. apply existsb_exists in E. destruct E as [x [Hx E]].
  apply Z.leb_le in E. specialize (H x Hx). lia.
Qed.

(* ---- int(v) --------------------------------------------------------------------------------------------- *)
Lemma qtrunc_canon v : Qden v = 1%positive -> qtrunc v = v.
Proof. destruct v as [n d]. simpl. intros ->. unfold qtrunc. simpl. rewrite Z.quot_1_r. reflexivity. Qed.

Lemma qtrunc_den v : Qden (qtrunc v) = 1%positive.
Proof. reflexivity. Qed.

(* a rational is kept by int() exactly when it is an integer *)
Lemma qtrunc_fixed_iff v : (qtrunc v == v)%Q <-> exists n, (v == inject_Z n)%Q.
Proof.
  split.
  - intro H. exists (Z.quot (Qnum v) (Zpos (Qden v))). apply Qeq_sym. exact H.
  - intros [n H]. unfold qtrunc. destruct v as [p d]. unfold Qeq in *. simpl in *.
    rewrite Z.mul_1_r in H. subst p. rewrite Z.quot_mul by discriminate. ring.
Qed.

(* ---- the counts view ------------------------------------------------------------------------------------ *)
Lemma cget_counts_of a i : cget (counts_of a) i = get_count a i.
Proof.
  unfold counts_of, get_count, bit_counts. destruct (fkind a); try reflexivity.
  destruct (zmem i (fidx a)) eqn:E.
  - apply zmem_In in E. rewrite cget_cbuild_in by exact E. reflexivity.
  - apply zmem_false in E. apply cget_cbuild_notin. exact E.
Qed.

Lemma counts_of_keys a : wf_fp_signed a -> ckeys (counts_of a) = fidx a.
Proof.
  intros [_ _ H _ _]. unfold counts_of, bit_counts. destruct (fkind a); [apply ckeys_cbuild | exact H | exact H].
Qed.

Lemma counts_of_pos a : wf_fp a -> forall kv, In kv (counts_of a) -> (0 < snd kv)%Q.
Proof.
  intros [_ _ _ H _ _] kv. unfold counts_of, bit_counts. destruct (fkind a); try apply H.
  unfold cbuild. intro Hin. apply in_map_iff in Hin. destruct Hin as [x [<- _]]. reflexivity.
Qed.

Lemma get_count_pos a i : wf_fp a -> In i (fidx a) -> (0 < get_count a i)%Q.
Proof.
  intros W Hi. rewrite <- cget_counts_of.
  apply (counts_of_pos a W (i, cget (counts_of a) i)). apply cget_in_keys.
  rewrite counts_of_keys by (apply wf_signed_of_wf; exact W). exact Hi.
Qed.

Lemma get_count_notin a i : wf_fp_signed a -> ~ In i (fidx a) -> get_count a i = 0%Q.
Proof.
  intros W Hi. rewrite <- cget_counts_of. apply cget_notin_keys. rewrite counts_of_keys by exact W. exact Hi.
Qed.

Lemma get_count_support a i : wf_fp a -> (In i (fidx a) <-> (0 < get_count a i)%Q).
Proof.
  intro W. split; [apply get_count_pos; exact W|].
  intro H. destruct (in_dec Z.eq_dec i (fidx a)) as [Hin|Hnot]; [exact Hin|].
  rewrite (get_count_notin a i (wf_signed_of_wf a W) Hnot) in H. discriminate.
Qed.

(* ---- X.from_fingerprint(a) for a well-formed a ------------------------------------------------------------ *)
Definition conv_counts (k : kind) (a : fp) : cmap :=
  match k with KBit => [] | _ => cbuild (fidx a) (fun i => cast_value k (get_count a i)) end.

Definition conv (k : kind) (a : fp) : fp := mkfp k (fbits a) (flevel a) (fidx a) (conv_counts k a) (fname a).

(* Fingerprint.from_fingerprint only looks at the index array *)
Lemma from_fingerprint_bit a :
  ssorted (fidx a) -> (forall i, In i (fidx a) -> 0 <= i < fbits a) -> from_fingerprint KBit a = Ok (conv KBit a).
Proof.
  intros S R. unfold from_fingerprint, mk_bit, conv, conv_counts.
  rewrite (existsb_ge_false _ _ R), (usort_id _ S). reflexivity.
Qed.

Lemma from_fingerprint_conv k a : wf_fp a -> from_fingerprint k a = Ok (conv k a).
Proof.
  intro W. pose proof (wf_signed_of_wf a W) as Ws.
  destruct k; [apply from_fingerprint_bit; [apply W | apply W] | |];
    unfold from_fingerprint, mk_from_counts, conv, conv_counts;
    rewrite (pos_filter_all _ (counts_of_pos a W)), (counts_of_keys a Ws), (usort_id _ (wf_sorted a W)),
      (existsb_ge_false _ _ (wf_range a W)); do 2 f_equal; apply cbuild_ext; intros i _; rewrite cget_counts_of; reflexivity.
Qed.

Lemma conv_same_kind a : wf_fp a -> conv (fkind a) a = a.
Proof.
  intros [S R K P I Bn]. destruct a as [k bits lv idx cnt nm]. unfold conv, conv_counts, get_count. simpl in *.
  destruct k; subst; f_equal.
  - transitivity (cbuild (ckeys cnt) (cget cnt)); [|apply cbuild_cget_id; apply ssorted_NoDup; exact S].
    apply cbuild_ext. intros i Hi. apply qtrunc_canon. apply (I eq_refl (i, cget cnt i)). apply cget_in_keys. exact Hi.
  - apply cbuild_cget_id. apply ssorted_NoDup. exact S.
Qed.

(* copying with the own class gives the same value back *)
Lemma from_fingerprint_copy a : wf_fp a -> from_fingerprint (fkind a) a = Ok a.
Proof. intro W. rewrite from_fingerprint_conv by exact W. rewrite conv_same_kind by exact W. reflexivity. Qed.

Lemma get_count_conv k a i :
  In i (fidx a) -> get_count (conv k a) i = match k with KBit => 1%Q | _ => cast_value k (get_count a i) end.
Proof.
  intro Hi. unfold get_count at 1. unfold conv, conv_counts. simpl.
  destruct k; [apply zmem_In in Hi; rewrite Hi; reflexivity | apply cget_cbuild_in; exact Hi ..].
Qed.

Lemma get_count_conv_notin k a i : ~ In i (fidx a) -> get_count (conv k a) i = 0%Q.
Proof.
  intro Hi. unfold get_count at 1. unfold conv, conv_counts. simpl.
  destruct k; [apply zmem_false in Hi; rewrite Hi; reflexivity | apply cget_cbuild_notin; exact Hi ..].
Qed.

Lemma wf_conv k a :
  wf_fp a -> (forall i, In i (fidx a) -> k <> KBit -> (0 < cast_value k (get_count a i))%Q) -> wf_fp (conv k a).
Proof.
  intros [S R K P I Bn] Hpos. constructor; simpl; try assumption.
  - destruct k; simpl; [reflexivity | apply ckeys_cbuild ..].
  - intros kv Hin. destruct k; simpl in Hin; [contradiction | |];
      unfold cbuild in Hin; apply in_map_iff in Hin; destruct Hin as [x [<- Hx]]; simpl; apply Hpos; first [exact Hx | discriminate].
  - intros -> kv Hin. simpl in Hin. unfold cbuild in Hin. apply in_map_iff in Hin. destruct Hin as [x [<- Hx]]. reflexivity.
Qed.

Lemma conv_conv k2 k1 a :
  (forall i, In i (fidx a) -> cast_value k2 (get_count (conv k1 a) i) = cast_value k2 (get_count a i)) ->
  conv k2 (conv k1 a) = conv k2 a.
Proof.
  intro H. unfold conv at 1 3. change (fidx (conv k1 a)) with (fidx a).
  change (fbits (conv k1 a)) with (fbits a). change (flevel (conv k1 a)) with (flevel a).
  change (fname (conv k1 a)) with (fname a). f_equal.
  unfold conv_counts. change (fidx (conv k1 a)) with (fidx a).
  destruct k2; [reflexivity | apply cbuild_ext; exact H ..].
Qed.

(* ---- C17: support and values under conversion -------------------------------------------------------------- *)
Lemma convert_support k a : wf_fp a ->
  exists r, from_fingerprint k a = Ok r /\ fkind r = k /\ fbits r = fbits a /\ flevel r = flevel a /\ fname r = fname a /\
            fidx r = fidx a /\ forall i, In i (fidx r) <-> (0 < get_count a i)%Q.
Proof.
  intro W. exists (conv k a). split; [apply from_fingerprint_conv; exact W|]. simpl. repeat split; try reflexivity.
  - apply get_count_pos; exact W.
  - apply get_count_support; exact W.
Qed.

Lemma convert_values k a r : wf_fp a -> from_fingerprint k a = Ok r ->
  forall i, get_count r i = match k with
                            | KBit => if zmem i (fidx a) then 1%Q else 0%Q
                            | _ => cast_value k (get_count a i)
                            end.
Proof.
  intros W H i. rewrite from_fingerprint_conv in H by exact W. inversion H; subst r. clear H.
  destruct (in_dec Z.eq_dec i (fidx a)) as [Hin|Hnot].
  - rewrite get_count_conv by exact Hin. destruct k; try reflexivity. apply zmem_In in Hin. rewrite Hin. reflexivity.
  - rewrite get_count_conv_notin by exact Hnot.
    rewrite (get_count_notin a i (wf_signed_of_wf a W) Hnot). apply zmem_false in Hnot.
    destruct k; [rewrite Hnot; reflexivity | reflexivity | reflexivity].
Qed.

(* count -> float keeps every value; float -> count truncates (kept exactly when integer-valued) *)
Lemma convert_values_count_float a r : wf_fp a -> from_fingerprint KFloat a = Ok r -> forall i, get_count r i = get_count a i.
Proof. intros W H i. apply (convert_values KFloat a r W H). Qed.

Lemma convert_values_to_count a r : wf_fp a -> from_fingerprint KCount a = Ok r ->
  forall i, get_count r i = qtrunc (get_count a i).
Proof. intros W H i. apply (convert_values KCount a r W H). Qed.

(* the positions holding a non-zero value are the indices, as long as no value is truncated to zero *)
Lemma convert_nz_support k a r : wf_fp a -> from_fingerprint k a = Ok r ->
  (forall i, In i (fidx a) -> ~ (cast_value k (get_count a i) == 0)%Q) -> nz_support r = fidx a.
Proof.
  intros W H Hnz. rewrite from_fingerprint_conv in H by exact W. inversion H; subst r. clear H.
  unfold nz_support. change (fidx (conv k a)) with (fidx a). apply filter_all. intros i Hi.
  rewrite get_count_conv by exact Hi. apply negb_true_iff, not_true_is_false. intro E. apply Qeq_bool_iff in E.
  destruct k; [discriminate | apply (Hnz i Hi E) ..].
Qed.

(* ---- C09: conversion to another kind and back ----------------------------------------------------------------- *)
Lemma bit_other_bit k a : wf_fp a -> fkind a = KBit ->
  exists r, from_fingerprint k a = Ok r /\ from_fingerprint KBit r = Ok a.
Proof.
  intros W K. exists (conv k a). split; [apply from_fingerprint_conv; exact W|].
  rewrite from_fingerprint_bit; simpl; [| apply W | apply W].
  destruct W as [S R Kk P I Bn]. destruct a as [ka bits lv idx cnt nm]. unfold conv, conv_counts. simpl in *. subst. simpl in *. subst. reflexivity.
Qed.

Lemma count_float_count a : wf_fp a -> fkind a = KCount ->
  exists r, from_fingerprint KFloat a = Ok r /\ from_fingerprint KCount r = Ok a.
Proof.
  intros W K. exists (conv KFloat a). split; [apply from_fingerprint_conv; exact W|].
  assert (W' : wf_fp (conv KFloat a)) by (apply wf_conv; [exact W | intros i Hi _; apply get_count_pos; assumption]).
  rewrite from_fingerprint_conv by exact W'. f_equal.
  rewrite <- (conv_same_kind a W) at 2. rewrite K. apply conv_conv.
  intros i Hi. rewrite get_count_conv by exact Hi. reflexivity.
Qed.

Lemma float_count_float a : wf_fp a -> fkind a = KFloat ->
  (forall kv, In kv (fcnt a) -> (qtrunc (snd kv) == snd kv)%Q) ->
  exists c r, from_fingerprint KCount a = Ok c /\ from_fingerprint KFloat c = Ok r /\ fp_same a r.
Proof.
  intros W K Hint.
  assert (Hv : forall i, In i (fidx a) -> (qtrunc (get_count a i) == get_count a i)%Q).
  { intros i Hi. unfold get_count. rewrite K. apply (Hint (i, cget (fcnt a) i)). apply cget_in_keys.
    destruct W as [_ _ Kk _ _ _]. rewrite K in Kk. rewrite Kk. exact Hi. }
  assert (W' : wf_fp (conv KCount a)).
  { apply wf_conv; [exact W|]. intros i Hi _. simpl. rewrite (Hv i Hi). apply get_count_pos; assumption. }
  exists (conv KCount a), (conv KFloat (conv KCount a)).
  split; [apply from_fingerprint_conv; exact W|]. split; [apply from_fingerprint_conv; exact W'|].
  rewrite <- (conv_same_kind a W) at 1. rewrite K.
  unfold fp_same, fp_content_same. repeat split.
  change (cmap_equiv (conv_counts KFloat a) (conv_counts KFloat (conv KCount a))).
  unfold conv_counts. change (fidx (conv KCount a)) with (fidx a). apply cbuild_equiv. intros i Hi.
  cbn [cast_value]. rewrite (get_count_conv KCount a i) by exact Hi. cbn [cast_value]. apply Qeq_sym. apply Hv. exact Hi.
Qed.

Lemma count_bit_count a : wf_fp a -> fkind a = KCount -> (forall kv, In kv (fcnt a) -> snd kv = 1%Q) ->
  exists r, from_fingerprint KBit a = Ok r /\ from_fingerprint KCount r = Ok a.
Proof.
  intros W K Hone. exists (conv KBit a). split; [apply from_fingerprint_conv; exact W|].
  assert (W' : wf_fp (conv KBit a)) by (apply wf_conv; [exact W | intros i Hi Hk; congruence]).
  rewrite from_fingerprint_conv by exact W'. f_equal.
  rewrite <- (conv_same_kind a W) at 2. rewrite K. apply conv_conv.
  intros i Hi. rewrite get_count_conv by exact Hi. unfold get_count. rewrite K.
  assert (E : cget (fcnt a) i = 1%Q).
  { apply (Hone (i, cget (fcnt a) i)). apply cget_in_keys. destruct W as [_ _ Kk _ _ _]. rewrite K in Kk. rewrite Kk. exact Hi. }
  rewrite E. reflexivity.
Qed.

(* ---- C17: a count fingerprint built from an index multiset --------------------------------------------------- *)
Lemma count_occ_notin i l : ~ In i l -> count_occ_Z i l = 0.
Proof.
  intro H. unfold count_occ_Z. replace (filter (Z.eqb i) l) with (@nil Z); [reflexivity|].
  symmetry. induction l as [|x t IH]; simpl; [reflexivity|].
  destruct (i =? x) eqn:E; [apply Z.eqb_eq in E; subst; exfalso; apply H; left; reflexivity | apply IH; intro; apply H; right; assumption].
Qed.

Lemma count_occ_in i l : In i l -> 1 <= count_occ_Z i l.
Proof.
  intro H. unfold count_occ_Z. induction l as [|x t IH]; simpl; [contradiction|].
  destruct (i =? x) eqn:E; simpl; [lia|]. destruct H as [->|H]; [rewrite Z.eqb_refl in E; discriminate | apply IH; exact H].
Qed.

Lemma count_is_multiplicity_fp k idx bits lv nm r :
  mk_count_from_indices k idx bits lv nm = Ok r ->
  fkind r = k /\ fbits r = bits /\ flevel r = lv /\
  fidx r = usort idx /\ (forall i, In i (fidx r) <-> In i idx) /\
  ckeys (fcnt r) = fidx r /\ forall i, cget (fcnt r) i = inject_Z (count_occ_Z i idx).
Proof.
  unfold mk_count_from_indices. destruct (existsb _ idx); intro H; [discriminate|]. inversion H; subst r; clear H. simpl.
  repeat split; try reflexivity.
  - apply In_usort.
  - apply In_usort.
  - apply ckeys_cbuild.
  - intro i. destruct (in_dec Z.eq_dec i idx) as [Hin|Hnot].
    + rewrite cget_cbuild_in by (apply In_usort; exact Hin). reflexivity.
    + rewrite cget_cbuild_notin by (rewrite In_usort; exact Hnot). rewrite count_occ_notin by exact Hnot. reflexivity.
Qed.

Lemma mk_count_from_indices_ok k idx bits lv nm :
  (forall i, In i idx -> i < bits) -> exists r, mk_count_from_indices k idx bits lv nm = Ok r.
Proof.
  intro H. unfold mk_count_from_indices. replace (existsb (fun i => bits <=? i) idx) with false; [eexists; reflexivity|].
  symmetry. apply not_true_is_false. intro E. apply existsb_exists in E. destruct E as [x [Hx E]].
  apply Z.leb_le in E. specialize (H x Hx). lia.
Qed.

Lemma mk_count_from_indices_wf k idx bits lv nm r : k <> KBit -> 0 <= bits ->
  (forall i, In i idx -> 0 <= i) -> mk_count_from_indices k idx bits lv nm = Ok r -> wf_fp r.
Proof.
  intros Kn Bn Hnn H. pose proof H as H0. unfold mk_count_from_indices in H0.
  destruct (existsb (fun i => bits <=? i) idx) eqn:E; [discriminate|]. inversion H0; subst r; clear H0.
  constructor; simpl.
  - apply ssorted_usort.
  - intros i Hi. apply (proj1 (In_usort i idx)) in Hi. split; [apply Hnn; exact Hi|].
    destruct (Z.ltb_spec i bits) as [L|L]; [exact L|]. exfalso.
    assert (existsb (fun i => bits <=? i) idx = true) by (apply existsb_exists; exists i; split; [exact Hi | apply Z.leb_le; exact L]). congruence.
  - destruct k; [congruence | apply ckeys_cbuild ..].
  - intros kv Hin. unfold cbuild in Hin. apply in_map_iff in Hin. destruct Hin as [x [<- Hx]]. simpl.
    apply (proj1 (In_usort x idx)) in Hx. pose proof (count_occ_in x idx Hx). unfold Qlt. simpl. lia.
  - intros _ kv Hin. unfold cbuild in Hin. apply in_map_iff in Hin. destruct Hin as [x [<- Hx]]. reflexivity.
  - exact Bn.
Qed.

(* ---- the executable well-formedness test is sound ------------------------------------------------------------------------------------- *)
Lemma sorted_ltb_sound l : sorted_ltb l = true -> ssorted l.
Proof.
  unfold ssorted. induction l as [|x t IH]; intro H; [constructor|].
  destruct t as [|y t'].
  - constructor; constructor.
  - cbn [sorted_ltb] in H. apply andb_true_iff in H. destruct H as [H1 H2]. apply Z.ltb_lt in H1.
    specialize (IH H2). constructor; [exact IH|].
    inversion IH as [|? ? _ Hall]; subst. constructor; [exact H1|].
    rewrite Forall_forall in *. intros z Hz. specialize (Hall z Hz). lia.
Qed.

Lemma wf_fpb_sound a : wf_fpb a = true -> wf_fp a.
Proof.
  unfold wf_fpb. rewrite !andb_true_iff. intros [[[[[H1 H2] H3] H4] H5] H6].
  constructor.
  - apply sorted_ltb_sound; exact H1.
  - intros i Hi. rewrite forallb_forall in H2. specialize (H2 i Hi). apply andb_true_iff in H2. destruct H2 as [A B].
    apply Z.leb_le in A. apply Z.ltb_lt in B. lia.
  - destruct (fkind a); [destruct (fcnt a); [reflexivity | discriminate] | apply list_eqb_Zeqb_eq; exact H3 ..].
  - intros kv Hin. rewrite forallb_forall in H4. specialize (H4 kv Hin). apply negb_true_iff in H4.
    apply Qnot_le_lt. intro L. apply Qle_bool_iff in L. congruence.
  - intros K kv Hin. rewrite K in H5. rewrite forallb_forall in H5. specialize (H5 kv Hin). apply Pos.eqb_eq. exact H5.
  - apply Z.leb_le. exact H6.
Qed.

(* ---- witnesses: what falls outside "where representable" / outside well-formedness ------------------------------------------------ *)
(* zero and negative counts (reachable through subtraction) are dropped by count/float from_fingerprint: the copy is not equal *)
Definition ex_count_zero : fp := mkfp KCount 8 minus1 [1; 3] [(1, 0%Q); (3, 2%Q)] None.
Definition ex_float_neg : fp := mkfp KFloat 8 minus1 [1; 3] [(1, Qmake (-1) 2); (3, 2%Q)] None.

Lemma ex_count_zero_signed : wf_fp_signed ex_count_zero.
Proof.
  constructor; cbn.
  - repeat constructor.
  - intros i [<-|[<-|[]]]; lia.
  - reflexivity.
  - intros _ kv [<-|[<-|[]]]; reflexivity.
  - lia.
Qed.

Lemma ex_float_neg_signed : wf_fp_signed ex_float_neg.
Proof.
  constructor; cbn.
  - repeat constructor.
  - intros i [<-|[<-|[]]]; lia.
  - reflexivity.
  - intro K; discriminate.
  - lia.
Qed.

Lemma copy_nonpositive_witness :
  exists a r, wf_fp_signed a /\ from_fingerprint (fkind a) a = Ok r /\ fp_eq a r = Ok false /\ fidx r <> fidx a.
Proof.
  exists ex_count_zero. eexists. split; [exact ex_count_zero_signed|]. split; [vm_compute; reflexivity|].
  split; [vm_compute; reflexivity | vm_compute; discriminate].
Qed.

Lemma copy_negative_float_witness :
  exists a r, wf_fp_signed a /\ from_fingerprint (fkind a) a = Ok r /\ fp_eq a r = Ok false /\ fidx r <> fidx a.
Proof.
  exists ex_float_neg. eexists. split; [exact ex_float_neg_signed|]. split; [vm_compute; reflexivity|].
  split; [vm_compute; reflexivity | vm_compute; discriminate].
Qed.

(* a bit fingerprint made from the same object keeps the positions whose count is zero *)
Lemma bit_of_zero_count_witness :
  exists a r, wf_fp_signed a /\ from_fingerprint KBit a = Ok r /\ In 1 (fidx r) /\ (get_count a 1 == 0)%Q.
Proof.
  exists ex_count_zero. eexists. split; [exact ex_count_zero_signed|]. split; [vm_compute; reflexivity|].
  split; [left; reflexivity | vm_compute; reflexivity].
Qed.

(* float -> count -> float loses non-integer values; count -> bit -> count loses counts other than 1 *)
Definition ex_float_frac : fp := mkfp KFloat 8 minus1 [1] [(1, Qmake 3 2)] None.
Definition ex_float_small : fp := mkfp KFloat 8 minus1 [1] [(1, Qmake 1 2)] None.
Definition ex_count_two : fp := mkfp KCount 8 minus1 [1] [(1, 2%Q)] None.

Lemma float_count_float_witness :
  exists a c r, wf_fp a /\ from_fingerprint KCount a = Ok c /\ from_fingerprint KFloat c = Ok r /\ fp_eq a r = Ok false.
Proof.
  exists ex_float_frac. do 2 eexists. split; [apply wf_fpb_sound; vm_compute; reflexivity|].
  split; [vm_compute; reflexivity|]. split; vm_compute; reflexivity.
Qed.

Lemma count_bit_count_witness :
  exists a c r, wf_fp a /\ from_fingerprint KBit a = Ok c /\ from_fingerprint KCount c = Ok r /\ fp_eq a r = Ok false.
Proof.
  exists ex_count_two. do 2 eexists. split; [apply wf_fpb_sound; vm_compute; reflexivity|].
  split; [vm_compute; reflexivity|]. split; vm_compute; reflexivity.
Qed.

(* a float value below 1 becomes a listed position with count 0 in the count fingerprint *)
Lemma convert_truncates_to_zero_witness :
  exists a r, wf_fp a /\ from_fingerprint KCount a = Ok r /\ fidx r = fidx a /\ nz_support r <> fidx r /\ ~ wf_fp r.
Proof.
  exists ex_float_small. eexists. split; [apply wf_fpb_sound; vm_compute; reflexivity|].
  split; [vm_compute; reflexivity|]. split; [reflexivity|]. split; [vm_compute; discriminate|].
  intros [_ _ _ P _ _]. specialize (P (1, 0%Q) (or_introl eq_refl)). vm_compute in P. discriminate.
Qed.

(* ---- C09: a copy is equal, in both orders, and keeps the name ---------------------------------------------------------------------- *)
Lemma copy_is_equal a : wf_fp a ->
  exists r, from_fingerprint (fkind a) a = Ok r /\ fp_eq a r = Ok true /\ fp_eq r a = Ok true /\ fname r = fname a.
Proof.
  intro W. exists a. split; [apply from_fingerprint_copy; exact W|]. split; [apply fp_eq_refl|]. split; [apply fp_eq_refl | reflexivity].
Qed.
