(* Lemmas about `==` / `!=` of fingerprints (Model/Fprint.v fp_eq, Model/FprintIO.v fp_ne, py_eq, py_ne); used by
   Properties/C09.v. *)
From Coq Require Import QArith.
From E3FP Require Import Base.Prelude Base.ZSet Model.Fprint Model.FprintIO.
Open Scope Z_scope.

(* ---- boolean tests vs equality -------------------------------------------------------------------- *)
Lemma option_eqb_Z_eq (a b : option Z) : option_eqb Z.eqb a b = true <-> a = b.
Proof.
  destruct a as [x|], b as [y|]; simpl; split; intro H; try congruence; try reflexivity.
  - apply Z.eqb_eq in H. congruence.
  - inversion H. apply Z.eqb_refl.
Qed.

Lemma kind_eqb_eq a b : kind_eqb a b = true <-> a = b.
Proof. destruct a, b; simpl; split; intro H; congruence. Qed.

Lemma cmap_eqb_equiv a : forall b, cmap_eqb a b = true <-> cmap_equiv a b.
Proof.
  unfold cmap_eqb, cmap_equiv. induction a as [|x a IH]; destruct b as [|y b]; simpl.
  - split; intro; [constructor | reflexivity].
  - split; intro H; [discriminate | inversion H].
  - split; intro H; [discriminate | inversion H].
  - rewrite !andb_true_iff, Z.eqb_eq, Qeq_bool_iff, IH. split.
    + intros [[H1 H2] H3]. constructor; auto.
    + intro H. inversion H; subst. tauto.
Qed.

Lemma cmap_equiv_refl a : cmap_equiv a a.
Proof. unfold cmap_equiv. induction a; constructor; auto. split; [reflexivity | apply Qeq_refl]. Qed.

Lemma cmap_equiv_sym a : forall b, cmap_equiv a b -> cmap_equiv b a.
Proof.
  unfold cmap_equiv. induction a; intros b H; inversion H; subst; constructor; auto.
  destruct H2 as [H2 H2']. split; [congruence | apply Qeq_sym; exact H2'].
Qed.

Lemma cmap_equiv_trans a : forall b c, cmap_equiv a b -> cmap_equiv b c -> cmap_equiv a c.
Proof.
  unfold cmap_equiv. induction a; intros b c H1 H2; inversion H1; subst; inversion H2; subst; constructor; eauto.
  destruct H3 as [A B], H4 as [C D]. split; [congruence | eapply Qeq_trans; eassumption].
Qed.

Lemma cmap_equiv_keys a : forall b, cmap_equiv a b -> ckeys a = ckeys b.
Proof.
  unfold cmap_equiv, ckeys. induction a; intros b H; inversion H; subst; simpl; [reflexivity|].
  destruct H2 as [H2 _]. f_equal; auto.
Qed.

(* ---- what `==` compares --------------------------------------------------------------------------- *)
Definition eq_content (a b : fp) : Prop :=
  flevel a = flevel b /\ fbits a = fbits b /\ fkind a = fkind b /\
  match fkind a with KBit => fidx a = fidx b | _ => cmap_equiv (fcnt a) (fcnt b) end.

Lemma fp_eq_true_iff a b : fp_eq a b = Ok true <-> eq_content a b.
Proof.
  unfold fp_eq, eq_content. destruct (fkind a) eqn:Ka.
  - split.
    + intro H. inversion H as [H']. rewrite !andb_true_iff in H'. destruct H' as [[[H1 H2] H3] H4].
      apply option_eqb_Z_eq in H1. apply Z.eqb_eq in H2. apply (kind_eqb_eq KBit) in H3. apply list_eqb_Zeqb_eq in H4. tauto.
    + intros (H1 & H2 & H3 & H4). f_equal. rewrite !andb_true_iff. repeat split.
      * apply option_eqb_Z_eq; exact H1.
      * apply Z.eqb_eq; exact H2.
      * apply (proj2 (kind_eqb_eq KBit (fkind b))); exact H3.
      * apply list_eqb_Zeqb_eq; exact H4.
  - unfold is_count_like. destruct (fkind b) eqn:Kb; simpl.
    + split; [discriminate | intros (_ & _ & H & _); discriminate].
    + split.
      * intro H. inversion H as [H']. rewrite !andb_true_iff in H'. destruct H' as [[[H1 H2] H3] H4].
        apply option_eqb_Z_eq in H1. apply Z.eqb_eq in H2. apply cmap_eqb_equiv in H3. tauto.
      * intros (H1 & H2 & H3 & H4). f_equal. rewrite !andb_true_iff. repeat split;
          [apply option_eqb_Z_eq | apply Z.eqb_eq | apply cmap_eqb_equiv]; assumption.
    + split; [|intros (_ & _ & H & _); discriminate].
      intro H. inversion H as [H']. rewrite !andb_true_iff in H'. destruct H' as [_ H4]. discriminate.
  - unfold is_count_like. destruct (fkind b) eqn:Kb; simpl.
    + split; [discriminate | intros (_ & _ & H & _); discriminate].
    + split; [|intros (_ & _ & H & _); discriminate].
      intro H. inversion H as [H']. rewrite !andb_true_iff in H'. destruct H' as [_ H4]. discriminate.
    + split.
      * intro H. inversion H as [H']. rewrite !andb_true_iff in H'. destruct H' as [[[H1 H2] H3] H4].
        apply option_eqb_Z_eq in H1. apply Z.eqb_eq in H2. apply cmap_eqb_equiv in H3. tauto.
      * intros (H1 & H2 & H3 & H4). f_equal. rewrite !andb_true_iff. repeat split;
          [apply option_eqb_Z_eq | apply Z.eqb_eq | apply cmap_eqb_equiv]; assumption.
Qed.

Lemma eq_content_refl a : eq_content a a.
Proof. unfold eq_content. repeat split. destruct (fkind a); [reflexivity | apply cmap_equiv_refl ..]. Qed.

Lemma eq_content_sym a b : eq_content a b -> eq_content b a.
Proof.
  unfold eq_content. intros (H1 & H2 & H3 & H4). repeat split; try congruence.
  rewrite <- H3. destruct (fkind a); [congruence | apply cmap_equiv_sym; exact H4 ..].
Qed.

Lemma eq_content_trans a b c : eq_content a b -> eq_content b c -> eq_content a c.
Proof.
  unfold eq_content. intros (H1 & H2 & H3 & H4) (G1 & G2 & G3 & G4). repeat split; try congruence.
  rewrite <- H3 in G4. destruct (fkind a); [congruence | eapply cmap_equiv_trans; eassumption ..].
Qed.

(* == never raises between fingerprints of the same kind; it raises exactly for count-like == bit *)
Lemma fp_eq_total a b : fkind a = fkind b -> exists r, fp_eq a b = Ok r.
Proof.
  intro H. unfold fp_eq, is_count_like. rewrite <- H. destruct (fkind a); simpl; eexists; reflexivity.
Qed.

Lemma fp_eq_raises_iff a b : (exists e, fp_eq a b = Raises e) <-> (fkind a <> KBit /\ fkind b = KBit).
Proof.
  unfold fp_eq, is_count_like. destruct (fkind a), (fkind b); simpl; split;
    try (intros [e H]; discriminate); try (intros [H1 H2]; congruence);
    try (intros _; split; congruence); try (intros _; eexists; reflexivity).
Qed.

Lemma fp_eq_raises_is_invalid a b e : fp_eq a b = Raises e -> e = EInvalidFp.
Proof.
  unfold fp_eq, is_count_like. destruct (fkind a), (fkind b); simpl; intro H; congruence.
Qed.

Lemma fp_eq_refl a : fp_eq a a = Ok true.
Proof. apply fp_eq_true_iff, eq_content_refl. Qed.

Lemma fp_eq_sym a b : fkind a = fkind b -> fp_eq a b = fp_eq b a.
Proof.
  intro K. destruct (fp_eq_total a b K) as [r Hr]. destruct (fp_eq_total b a (eq_sym K)) as [s Hs].
  rewrite Hr, Hs. f_equal.
  destruct r, s; try reflexivity.
  - apply fp_eq_true_iff, eq_content_sym, fp_eq_true_iff in Hr. congruence.
  - apply fp_eq_true_iff, eq_content_sym, fp_eq_true_iff in Hs. congruence.
Qed.

Lemma fp_eq_trans a b c : fp_eq a b = Ok true -> fp_eq b c = Ok true -> fp_eq a c = Ok true.
Proof.
  rewrite !fp_eq_true_iff. apply eq_content_trans.
Qed.

Lemma fp_eq_true_same_kind a b : fp_eq a b = Ok true -> fkind a = fkind b.
Proof. rewrite fp_eq_true_iff. unfold eq_content. tauto. Qed.

(* != is the negation of == (same outcome when == raises) *)
Lemma fp_ne_negb a b : fp_ne a b = match fp_eq a b with Ok r => Ok (negb r) | Raises e => Raises e end.
Proof. reflexivity. Qed.

Lemma fp_ne_iff a b r : fp_ne a b = Ok r <-> fp_eq a b = Ok (negb r).
Proof.
  unfold fp_ne. destruct (fp_eq a b) as [x|e]; simpl; split; intro H; try discriminate.
  - inversion H. rewrite negb_involutive. reflexivity.
  - inversion H. rewrite negb_involutive. reflexivity.
Qed.

(* the operators, for operands of one kind, are the methods *)
Lemma strict_subkind_irrefl k : strict_subkind k k = false.
Proof. destruct k; reflexivity. Qed.

Lemma py_eq_same_kind a b : fkind a = fkind b -> py_eq a b = fp_eq a b.
Proof. intro H. unfold py_eq. rewrite H, strict_subkind_irrefl. reflexivity. Qed.

Lemma py_ne_same_kind a b : fkind a = fkind b -> py_ne a b = fp_ne a b.
Proof. intro H. unfold py_ne. rewrite H, strict_subkind_irrefl. reflexivity. Qed.

Lemma py_ne_negb a b : py_ne a b = match py_eq a b with Ok r => Ok (negb r) | Raises e => Raises e end.
Proof. unfold py_ne, py_eq. destruct (strict_subkind (fkind b) (fkind a)); reflexivity. Qed.

(* ---- equality against the content of well-formed fingerprints ---------------------------------------- *)
Lemma wf_signed_of_wf a : wf_fp a -> wf_fp_signed a.
Proof. intros [H1 H2 H3 H4 H5 H6]. constructor; assumption. Qed.

Lemma eq_content_iff_same a b :
  wf_fp_signed a -> wf_fp_signed b -> (eq_content a b <-> fp_content_same a b).
Proof.
  intros [A1 A2 A3 A4 A5] [B1 B2 B3 B4 B5]. unfold eq_content, fp_content_same. split.
  - intros (H1 & H2 & H3 & H4). rewrite <- H3 in B3. destruct (fkind a) eqn:Ka.
    + repeat split; try assumption. rewrite A3, B3. constructor.
    + repeat split; try assumption. rewrite <- A3, <- B3. apply cmap_equiv_keys. exact H4.
    + repeat split; try assumption. rewrite <- A3, <- B3. apply cmap_equiv_keys. exact H4.
  - intros (H1 & H2 & H3 & H4 & H5). repeat split; try assumption. destruct (fkind a); assumption.
Qed.

Lemma fp_eq_spec a b :
  wf_fp_signed a -> wf_fp_signed b -> (fp_eq a b = Ok true <-> fp_content_same a b).
Proof. intros Ha Hb. rewrite fp_eq_true_iff. apply eq_content_iff_same; assumption. Qed.

Lemma fp_eq_false_iff a b :
  wf_fp_signed a -> wf_fp_signed b -> fkind a = fkind b -> (fp_eq a b = Ok false <-> ~ fp_content_same a b).
Proof.
  intros Ha Hb K. rewrite <- (fp_eq_spec a b Ha Hb). destruct (fp_eq_total a b K) as [r Hr]. rewrite Hr.
  destruct r; split; intro H; congruence.
Qed.

(* fp_obs_eqb (the comparison used by the correspondence) decides fp_same *)
Lemma list_eqb_string_eq (a : option string) b : option_eqb String.eqb a b = true <-> a = b.
Proof.
  destruct a as [x|], b as [y|]; simpl; split; intro H; try congruence; try reflexivity.
  - apply String.eqb_eq in H. congruence.
  - inversion H. apply String.eqb_refl.
Qed.
