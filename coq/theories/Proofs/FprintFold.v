(* Lemmas about folding in Model/Fprint.v (used by Properties/C07.v). *)
From Coq Require Import QArith ZArith Znumtheory List Bool Lia.
From E3FP Require Import Base.Prelude Base.ZSet Model.Fprint Proofs.FprintOps.
Open Scope Z_scope.

(* ============================================================================================== *)
(* acceptance                                                                                       *)
Lemma pow2_ratio_spec bits nb : pow2_ratio bits nb = true <-> 0 < nb /\ exists k, 0 <= k /\ bits = nb * 2 ^ k.
Proof.
  unfold pow2_ratio. rewrite andb_true_iff, Z.ltb_lt, Z.eqb_eq. split.
  - intros [H1 H2]. split; [exact H1|]. exists (Z.log2 (bits / nb)). split; [apply Z.log2_nonneg | exact H2].
  - intros [H1 [k [Hk E]]]. split; [exact H1|]. subst bits.
    rewrite (Z.mul_comm nb), Z.div_mul by lia. rewrite Z.log2_pow2 by lia. ring.
Qed.

(* the fuel-based test kept in the model for compatibility agrees with it whenever the exponent is below the fuel *)
Lemma pow2_ratio_fuel_spec fuel : forall bits nb, 0 < nb ->
  (pow2_ratio_fuel fuel bits nb = true <-> exists k : nat, (k < fuel)%nat /\ bits = nb * 2 ^ Z.of_nat k).
Proof.
  induction fuel as [|f IH]; intros bits nb Hnb; simpl.
  - split; [discriminate | intros [k [Hk _]]; lia].
  - destruct (bits =? nb) eqn:E1.
    + apply Z.eqb_eq in E1. split; [|reflexivity]. intros _. exists 0%nat. split; [lia|]. simpl. lia.
    + apply Z.eqb_neq in E1. destruct (bits <? nb) eqn:E2.
      * apply Z.ltb_lt in E2. split; [discriminate|]. intros [k [_ Hk]].
        assert (0 < 2 ^ Z.of_nat k) by (apply Z.pow_pos_nonneg; lia). nia.
      * apply Z.ltb_ge in E2. rewrite (IH bits (2 * nb)) by lia. split.
        -- intros [k [Hk E]]. exists (S k). split; [lia|]. rewrite Nat2Z.inj_succ, Z.pow_succ_r by lia. lia.
        -- intros [k [Hk E]]. destruct k as [|k].
           ++ simpl in E. lia.
           ++ exists k. split; [lia|]. rewrite Nat2Z.inj_succ, Z.pow_succ_r in E by lia. lia.
Qed.

Definition fold_ok (a : fp) (nb m : Z) : Prop :=
  0 < nb <= fbits a /\ (exists k, 0 <= k /\ fbits a = nb * 2 ^ k) /\ (m = 0 \/ m = 1).

Lemma fold_check_spec a nb m : fold_check a nb m = None <-> fold_ok a nb m.
Proof.
  unfold fold_check, fold_ok.
  destruct (fbits a <? nb) eqn:E1.
  { apply Z.ltb_lt in E1. split; [discriminate | intros [H _]; lia]. }
  apply Z.ltb_ge in E1.
  destruct (nb =? 0) eqn:E2.
  { apply Z.eqb_eq in E2. split; [discriminate | intros [H _]; lia]. }
  apply Z.eqb_neq in E2.
  destruct (pow2_ratio (fbits a) nb) eqn:E3; simpl.
  - apply pow2_ratio_spec in E3. destruct E3 as [Hnb Hk].
    destruct (m =? 0) eqn:M0; simpl.
    + apply Z.eqb_eq in M0. split; [intros _ | reflexivity]. repeat split; try lia. exact Hk.
    + destruct (m =? 1) eqn:M1; simpl.
      * apply Z.eqb_eq in M1. split; [intros _ | reflexivity]. repeat split; try lia. exact Hk.
      * apply Z.eqb_neq in M0. apply Z.eqb_neq in M1. split; [discriminate | intros (_ & _ & [H|H]); lia].
  - split; [discriminate|]. intros (H1 & H2 & _). exfalso.
    assert (X : pow2_ratio (fbits a) nb = true) by (apply pow2_ratio_spec; split; [lia | exact H2]). congruence.
Qed.

Lemma fold_accepts a nb m : fold_ok a nb m <-> exists r, fp_fold a nb m = Ok r.
Proof.
  rewrite <- fold_check_spec. unfold fp_fold. destruct (fold_check a nb m) eqn:E.
  - split; [discriminate | intros [r H]; discriminate].
  - split; [intros _ | reflexivity]. destruct (fkind a); eexists; reflexivity.
Qed.

(* which exception, in the order of the code's tests *)
Lemma fold_rejects a nb m :
  (fbits a < nb -> fp_fold a nb m = Raises EBits) /\
  (nb = 0 -> 0 <= fbits a -> fp_fold a nb m = Raises EOther) /\
  (nb <= fbits a -> nb <> 0 -> ~ (0 < nb /\ exists k, 0 <= k /\ fbits a = nb * 2 ^ k) -> fp_fold a nb m = Raises EBits) /\
  (0 < nb <= fbits a -> (exists k, 0 <= k /\ fbits a = nb * 2 ^ k) -> m <> 0 -> m <> 1 -> fp_fold a nb m = Raises EOption).
Proof.
  unfold fp_fold, fold_check. repeat split.
  - intro H. apply Z.ltb_lt in H. rewrite H. reflexivity.
  - intros H1 H2. subst nb. destruct (fbits a <? 0) eqn:E; [apply Z.ltb_lt in E; lia | reflexivity].
  - intros H1 H2 H3. apply Z.ltb_ge in H1. rewrite H1. apply Z.eqb_neq in H2. rewrite H2.
    destruct (pow2_ratio (fbits a) nb) eqn:E; [|reflexivity]. apply pow2_ratio_spec in E. tauto.
  - intros H1 H2 H3 H4. destruct (fbits a <? nb) eqn:E1; [apply Z.ltb_lt in E1; lia|].
    destruct (nb =? 0) eqn:E2; [apply Z.eqb_eq in E2; lia|].
    assert (X : pow2_ratio (fbits a) nb = true) by (apply pow2_ratio_spec; split; [lia | exact H2]). rewrite X. simpl.
    apply Z.eqb_neq in H3. apply Z.eqb_neq in H4. rewrite H3, H4. reflexivity.
Qed.

Lemma fold_total a nb m : exists x, fp_fold a nb m = x /\ (match x with Ok _ => fold_ok a nb m | Raises e => ~ fold_ok a nb m /\ (e = EBits \/ e = EOther \/ e = EOption) end).
Proof.
  eexists. split; [reflexivity|]. destruct (fp_fold a nb m) as [r|e] eqn:E.
  - apply fold_accepts. eauto.
  - split.
    + intro H. apply fold_accepts in H. destruct H as [r H]. congruence.
    + unfold fp_fold, fold_check in E.
      destruct (fbits a <? nb); [inversion E; auto|]. destruct (nb =? 0); [inversion E; auto|].
      destruct (negb (pow2_ratio (fbits a) nb)); [inversion E; auto|].
      destruct (negb ((m =? 0) || (m =? 1))); [inversion E; auto|]. destruct (fkind a); discriminate.
Qed.

(* ============================================================================================== *)
(* shape of an accepted fold                                                                        *)
Lemma fp_fold_ok a nb m r : fp_fold a nb m = Ok r ->
  fold_ok a nb m /\ fkind r = fkind a /\ fbits r = nb /\ flevel r = flevel a /\ fname r = fname a /\
  fidx r = usort (map (fold_index m (fbits a) nb) (fidx a)) /\
  fcnt r = match fkind a with
           | KBit => []
           | k => cbuild (fidx r) (fun j => cast_value k (qsum (map (get_count a) (fibre a nb m j))))
           end.
Proof.
  intro H. split; [apply fold_accepts; eauto|]. unfold fp_fold in H.
  destruct (fold_check a nb m); [discriminate|].
  destruct (fkind a) eqn:K; inversion H; subst; simpl; repeat split.
Qed.

Lemma fold_index_0 bits nb i : fold_index 0 bits nb i = i mod nb.
Proof. reflexivity. Qed.
Lemma fold_index_1 bits nb i : fold_index 1 bits nb i = i / (bits / nb).
Proof. reflexivity. Qed.

Lemma fold_keeps_level_bits_kind a nb m r : fp_fold a nb m = Ok r ->
  fkind r = fkind a /\ fbits r = nb /\ flevel r = flevel a /\ fname r = fname a /\ ssorted (fidx r) /\
  (is_count_like a = true -> ckeys (fcnt r) = fidx r) /\ (fkind a = KBit -> fcnt r = []).
Proof.
  intro H. destruct (fp_fold_ok a nb m r H) as (_ & K & B & L & N & I & C). repeat split; try assumption.
  - rewrite I. apply ssorted_usort.
  - intro Hc. rewrite C. unfold is_count_like in Hc. destruct (fkind a); [discriminate| |]; apply ckeys_cbuild.
  - intro Hk. rewrite C, Hk. reflexivity.
Qed.

Lemma fold_index_member a nb m r : fp_fold a nb m = Ok r ->
  forall j, In j (fidx r) <-> exists i, In i (fidx a) /\ fold_index m (fbits a) nb i = j.
Proof.
  intros H j. destruct (fp_fold_ok a nb m r H) as (_ & _ & _ & _ & _ & I & _). rewrite I, In_usort, in_map_iff.
  split; intros [i [H1 H2]]; exists i; tauto.
Qed.

Lemma fold_partition_spec a nb r : fp_fold a nb 0 = Ok r ->
  forall j, In j (fidx r) <-> exists i, In i (fidx a) /\ i mod nb = j.
Proof. intro H. exact (fold_index_member a nb 0 r H). Qed.

Lemma fold_compress_spec a nb r : fp_fold a nb 1 = Ok r ->
  forall j, In j (fidx r) <-> exists i, In i (fidx a) /\ i / (fbits a / nb) = j.
Proof. intro H. exact (fold_index_member a nb 1 r H). Qed.

(* positions within [0, length) *)
Definition wf_range (a : fp) : Prop := Forall (fun i => 0 <= i < fbits a) (fidx a).

Lemma fold_index_range m bits nb k i : 0 < nb -> 0 <= k -> bits = nb * 2 ^ k -> (m = 0 \/ m = 1) -> 0 <= i < bits ->
  0 <= fold_index m bits nb i < nb.
Proof.
  intros Hnb Hk E Hm Hi. destruct Hm as [-> | ->].
  - rewrite fold_index_0. apply Z.mod_pos_bound. exact Hnb.
  - rewrite fold_index_1. assert (P : 0 < 2 ^ k) by (apply Z.pow_pos_nonneg; lia).
    subst bits. rewrite (Z.mul_comm nb), Z.div_mul by lia. split.
    + apply Z.div_pos; lia.
    + apply Z.div_lt_upper_bound; lia.
Qed.

Lemma fold_result_in_range a nb m r : wf_range a -> fp_fold a nb m = Ok r -> wf_range r.
Proof.
  intros W H. destruct (fp_fold_ok a nb m r H) as ((Hnb & (k & Hk & E) & Hm) & _ & B & _).
  unfold wf_range in *. rewrite Forall_forall in *. intros j Hj.
  apply (fold_index_member a nb m r H) in Hj. destruct Hj as [i [Hi <-]]. rewrite B.
  apply (fold_index_range m (fbits a) nb k); try assumption; try lia. apply W. exact Hi.
Qed.

(* partition folding maps into [0, nb) whatever the sign of the position *)
Lemma fold_partition_in_range a nb r : fp_fold a nb 0 = Ok r -> Forall (fun j => 0 <= j < nb) (fidx r).
Proof.
  intro H. destruct (fp_fold_ok a nb 0 r H) as ((Hnb & _) & _). apply Forall_forall. intros j Hj.
  apply (fold_partition_spec a nb r H) in Hj. destruct Hj as [i [_ <-]]. apply Z.mod_pos_bound. lia.
Qed.

(* ============================================================================================== *)
(* bit fingerprints: collisions are combined with OR                                                *)
Lemma fold_bit_or a nb m r : fp_fold a nb m = Ok r -> fkind a = KBit ->
  forall j, get_count r j = if existsb (fun i => fold_index m (fbits a) nb i =? j) (fidx a) then 1%Q else 0%Q.
Proof.
  intros H K j. destruct (fp_fold_ok a nb m r H) as (_ & K' & _). unfold get_count. rewrite K', K.
  destruct (existsb _ (fidx a)) eqn:E.
  - apply existsb_exists in E. destruct E as [i [Hi Hj]]. apply Z.eqb_eq in Hj.
    assert (In j (fidx r)) by (apply (fold_index_member a nb m r H); eauto).
    rewrite (proj2 (zmem_In _ _) H0). reflexivity.
  - destruct (zmem j (fidx r)) eqn:M; [|reflexivity]. apply zmem_In in M.
    apply (fold_index_member a nb m r H) in M. destruct M as [i [Hi Hj]].
    assert (existsb (fun i => fold_index m (fbits a) nb i =? j) (fidx a) = true).
    { apply existsb_exists. exists i. split; [exact Hi | apply Z.eqb_eq; exact Hj]. }
    congruence.
Qed.

(* the two "array" readings: the source is cut into blocks of length nb that are OR-ed (partition), or every run of
   bits/nb adjacent positions is OR-ed (compression) *)
Lemma fold_bit_or_partition a nb r : fp_fold a nb 0 = Ok r -> forall j, 0 <= j < nb ->
  (In j (fidx r) <-> exists q, In (j + q * nb) (fidx a)).
Proof.
  intros H j Hj. rewrite (fold_partition_spec a nb r H). split.
  - intros [i [Hi E]]. exists (i / nb). replace (j + i / nb * nb) with i; [exact Hi|].
    rewrite <- E. rewrite (Z.div_mod i nb) at 1 by lia. lia.
  - intros [q Hq]. exists (j + q * nb). split; [exact Hq|]. rewrite Z.mod_add by lia. apply Z.mod_small. exact Hj.
Qed.

Lemma fold_bit_or_compress a nb r : fp_fold a nb 1 = Ok r -> forall j,
  (In j (fidx r) <-> exists t, 0 <= t < fbits a / nb /\ In (j * (fbits a / nb) + t) (fidx a)).
Proof.
  intros H j. destruct (fp_fold_ok a nb 1 r H) as ((Hnb & (k & Hk & E) & _) & _).
  assert (P : 0 < 2 ^ k) by (apply Z.pow_pos_nonneg; lia).
  assert (R : fbits a / nb = 2 ^ k) by (rewrite E, (Z.mul_comm nb), Z.div_mul by lia; reflexivity).
  rewrite (fold_compress_spec a nb r H), R. split.
  - intros [i [Hi Ei]]. exists (i mod 2 ^ k). split; [apply Z.mod_pos_bound; exact P|].
    replace (j * 2 ^ k + i mod 2 ^ k) with i; [exact Hi|]. rewrite <- Ei. rewrite (Z.div_mod i (2 ^ k)) at 1 by lia. lia.
  - intros [t [Ht Hi]]. exists (j * 2 ^ k + t). split; [exact Hi|].
    rewrite Z.add_comm, Z.div_add by lia. rewrite Z.div_small by lia. reflexivity.
Qed.

(* ============================================================================================== *)
(* sums over a partition                                                                            *)
Lemma qsum_map_ext_Qeq {A} (g h : A -> Q) l : (forall x, In x l -> g x == h x) -> qsum (map g l) == qsum (map h l).
Proof.
  induction l as [|x l IH]; simpl; intro H; [reflexivity|].
  rewrite (H x (or_introl eq_refl)), IH; [reflexivity|]. intros y Hy. apply H. right. exact Hy.
Qed.

Lemma qsum_map_plus {A} (g h : A -> Q) l : qsum (map (fun x => g x + h x)%Q l) == (qsum (map g l) + qsum (map h l))%Q.
Proof. induction l as [|x l IH]; simpl; [reflexivity|]. rewrite IH. ring. Qed.

Lemma qsum_map_zero {A} (l : list A) : qsum (map (fun _ => 0%Q) l) == 0.
Proof. induction l as [|x l IH]; simpl; [reflexivity|]. rewrite IH. reflexivity. Qed.

Lemma qsum_indicator y c J : NoDup J ->
  qsum (map (fun j => if y =? j then c else 0%Q) J) == if zmem y J then c else 0%Q.
Proof.
  induction J as [|j J IH]; simpl; intro ND; [reflexivity|]. inversion ND as [|? ? Hn ND']; subst.
  rewrite (IH ND'). destruct (y =? j) eqn:E; simpl.
  - apply Z.eqb_eq in E. subst. rewrite (proj2 (zmem_false _ _) Hn). ring.
  - ring.
Qed.

Lemma partition_sum (g : Z -> Q) (f : Z -> Z) J l : NoDup J -> (forall i, In i l -> In (f i) J) ->
  qsum (map (fun j => qsum (map g (filter (fun i => f i =? j) l))) J) == qsum (map g l).
Proof.
  intros ND. induction l as [|x l IH]; intro H.
  - simpl. apply qsum_map_zero.
  - rewrite (qsum_map_ext_Qeq _ (fun j => ((if f x =? j then g x else 0) + qsum (map g (filter (fun i => f i =? j) l)))%Q)).
    + rewrite qsum_map_plus, (qsum_indicator (f x) (g x) J ND).
      rewrite (proj2 (zmem_In _ _) (H x (or_introl eq_refl))), IH; [simpl; reflexivity|].
      intros i Hi. apply H. right. exact Hi.
    + intros j _. simpl. destruct (f x =? j); simpl; ring.
Qed.

Lemma filter_filter_sub {A} (p q : A -> bool) l : (forall x, In x l -> q x = true -> p x = true) ->
  filter q (filter p l) = filter q l.
Proof.
  induction l as [|x l IH]; simpl; intro H; [reflexivity|].
  destruct (p x) eqn:P; simpl.
  - rewrite IH; [reflexivity|]. intros y Hy. apply H. right. exact Hy.
  - destruct (q x) eqn:Qx.
    + rewrite (H x (or_introl eq_refl) Qx) in P. discriminate.
    + apply IH. intros y Hy. apply H. right. exact Hy.
Qed.

Lemma qsum_int {A} (g : A -> Q) l : (forall x, In x l -> exists n, g x = inject_Z n) -> exists n, qsum (map g l) = inject_Z n.
Proof.
  induction l as [|x l IH]; simpl; intro H.
  - exists 0. reflexivity.
  - destruct IH as [m Hm]; [intros y Hy; apply H; right; exact Hy|]. destruct (H x (or_introl eq_refl)) as [n Hn].
    exists (n + m). rewrite Hn, Hm. apply Qplus_inject_Z.
Qed.

Lemma qsum_vals_cget (m : cmap) : NoDup (ckeys m) -> qsum (map snd m) = qsum (map (cget m) (ckeys m)).
Proof.
  induction m as [|[k v] m IH]; simpl; intro ND; [reflexivity|]. inversion ND as [|? ? Hn ND']; subst.
  rewrite Z.eqb_refl. f_equal. rewrite (IH ND'). f_equal. apply map_ext_in. intros i Hi.
  destruct (i =? k) eqn:E; [|reflexivity]. apply Z.eqb_eq in E. subst. contradiction.
Qed.

(* ============================================================================================== *)
(* count / float fingerprints: every folded count is the sum over its fibre; the total is conserved  *)
Lemma In_fibre a nb m j i : In i (fibre a nb m j) <-> In i (fidx a) /\ fold_index m (fbits a) nb i = j.
Proof. unfold fibre. rewrite filter_In, Z.eqb_eq. tauto. Qed.

Lemma fibre_nil a nb m r j : fp_fold a nb m = Ok r -> ~ In j (fidx r) -> fibre a nb m j = [].
Proof.
  intros H Hj. destruct (fibre a nb m j) as [|i t] eqn:E; [reflexivity|]. exfalso. apply Hj.
  apply (fold_index_member a nb m r H). exists i. apply In_fibre. rewrite E. left. reflexivity.
Qed.

Lemma fibre_nonempty a nb m r j : fp_fold a nb m = Ok r -> In j (fidx r) -> fibre a nb m j <> [].
Proof.
  intros H Hj. apply (fold_index_member a nb m r H) in Hj. destruct Hj as [i Hi]. apply In_fibre in Hi.
  intro E. rewrite E in Hi. exact Hi.
Qed.

Lemma fold_count_value a nb m r : fp_fold a nb m = Ok r -> is_count_like a = true ->
  forall j, cget (fcnt r) j = cast_value (fkind a) (qsum (map (get_count a) (fibre a nb m j))).
Proof.
  intros H Hc j. destruct (fp_fold_ok a nb m r H) as (_ & _ & _ & _ & _ & _ & C).
  assert (C' : fcnt r = cbuild (fidx r) (fun j => cast_value (fkind a) (qsum (map (get_count a) (fibre a nb m j))))).
  { rewrite C. unfold is_count_like in Hc. destruct (fkind a); [discriminate| |]; reflexivity. }
  rewrite C', cget_cbuild. destruct (zmem j (fidx r)) eqn:M; [reflexivity|].
  apply zmem_false in M. rewrite (fibre_nil a nb m r j H M). simpl. destruct (fkind a); reflexivity.
Qed.

(* counts on which the class cast is the identity: float fingerprints, or integer-valued counts *)
Definition exact_counts (a : fp) : Prop := fkind a = KFloat \/ forall i, exists n, get_count a i = inject_Z n.

Lemma fold_count_value_sum a nb m r : fp_fold a nb m = Ok r -> is_count_like a = true -> exact_counts a ->
  forall j, cget (fcnt r) j = qsum (map (get_count a) (fibre a nb m j)).
Proof.
  intros H Hc X j. rewrite (fold_count_value a nb m r H Hc). destruct X as [K|X].
  - rewrite K. reflexivity.
  - destruct (qsum_int (get_count a) (fibre a nb m j)) as [n Hn]; [intros i _; apply X|]. rewrite Hn. apply cast_inject_Z.
Qed.

Lemma get_count_count_like a i : is_count_like a = true -> get_count a i = cget (fcnt a) i.
Proof. unfold is_count_like, get_count. destruct (fkind a); [discriminate| |]; reflexivity. Qed.

Lemma fold_is_count_like a nb m r : fp_fold a nb m = Ok r -> is_count_like r = is_count_like a.
Proof. intro H. destruct (fp_fold_ok a nb m r H) as (_ & K & _). unfold is_count_like. rewrite K. reflexivity. Qed.

Lemma fold_exact_counts a nb m r : fp_fold a nb m = Ok r -> is_count_like a = true -> exact_counts a -> exact_counts r.
Proof.
  intros H Hc X. destruct (fp_fold_ok a nb m r H) as (_ & K & _). destruct X as [Kf|X].
  - left. congruence.
  - right. intro j. rewrite get_count_count_like by (rewrite (fold_is_count_like a nb m r H); exact Hc).
    rewrite (fold_count_value_sum a nb m r H Hc (or_intror X)). apply qsum_int. intros i _. apply X.
Qed.

Lemma fold_count_total_idx a nb m r : fp_fold a nb m = Ok r -> is_count_like a = true -> exact_counts a ->
  qsum (map (cget (fcnt r)) (fidx r)) == qsum (map (get_count a) (fidx a)).
Proof.
  intros H Hc X.
  rewrite (map_ext _ _ (fold_count_value_sum a nb m r H Hc X)). unfold fibre.
  apply partition_sum.
  - apply ssorted_NoDup. apply (fold_keeps_level_bits_kind a nb m r H).
  - intros i Hi. apply (fold_index_member a nb m r H). eauto.
Qed.

(* consistent source (count keys = indices, as every constructor guarantees): the sum of all counts is conserved *)
Lemma fold_count_total a nb m r : fp_fold a nb m = Ok r -> is_count_like a = true -> exact_counts a ->
  ckeys (fcnt a) = fidx a -> NoDup (fidx a) ->
  qsum (map snd (fcnt r)) == qsum (map snd (fcnt a)).
Proof.
  intros H Hc X Hk ND.
  destruct (fold_keeps_level_bits_kind a nb m r H) as (_ & _ & _ & _ & S & Ck & _). specialize (Ck Hc).
  rewrite (qsum_vals_cget (fcnt r)), (qsum_vals_cget (fcnt a)); try (rewrite Hk; exact ND); try (rewrite Ck; apply ssorted_NoDup; exact S).
  rewrite Ck, Hk, (fold_count_total_idx a nb m r H Hc X).
  apply qsum_map_ext_Qeq. intros i _. rewrite (get_count_count_like a i Hc). reflexivity.
Qed.

(* ============================================================================================== *)
(* the recorded index maps                                                                          *)
Lemma unfold_map_spec a nb m r : fp_fold a nb m = Ok r ->
  map fst (unfold_map a nb m) = fidx r /\
  (forall j s, In (j, s) (unfold_map a nb m) -> s = fibre a nb m j /\ s <> [] /\
               forall i, In i s <-> In i (fidx a) /\ fold_index m (fbits a) nb i = j) /\
  (forall i, In i (fidx a) -> exists s, In (fold_index m (fbits a) nb i, s) (unfold_map a nb m) /\ In i s) /\
  (forall j j' s s' i, In (j, s) (unfold_map a nb m) -> In (j', s') (unfold_map a nb m) -> In i s -> In i s' -> j = j').
Proof.
  intro H. destruct (fp_fold_ok a nb m r H) as (_ & _ & _ & _ & _ & I & _).
  assert (P : forall j s, In (j, s) (unfold_map a nb m) -> In j (fidx r) /\ s = fibre a nb m j).
  { intros j s Hjs. unfold unfold_map in Hjs. apply in_map_iff in Hjs. destruct Hjs as [j0 [E Hj0]].
    inversion E; subst. rewrite I. split; [exact Hj0 | reflexivity]. }
  split; [|split; [|split]].
  - unfold unfold_map. rewrite map_map. simpl. rewrite map_id. symmetry. exact I.
  - intros j s Hjs. destruct (P j s Hjs) as [Hj ->]. split; [reflexivity|]. split.
    + apply (fibre_nonempty a nb m r j H Hj).
    + intro i. apply In_fibre.
  - intros i Hi. exists (fibre a nb m (fold_index m (fbits a) nb i)). split.
    + unfold unfold_map. apply in_map_iff. exists (fold_index m (fbits a) nb i). split; [reflexivity|].
      rewrite <- I. apply (fold_index_member a nb m r H). eauto.
    + apply In_fibre. auto.
  - intros j j' s s' i H1 H2 Hs Hs'. destruct (P j s H1) as [_ ->]. destruct (P j' s' H2) as [_ ->].
    apply In_fibre in Hs. apply In_fibre in Hs'. destruct Hs as [_ <-]. destruct Hs' as [_ <-]. reflexivity.
Qed.

Lemma folding_map_spec a nb m :
  map fst (folding_map a nb m) = fidx a /\
  forall i j, In (i, j) (folding_map a nb m) <-> In i (fidx a) /\ j = fold_index m (fbits a) nb i.
Proof.
  split.
  - unfold folding_map. rewrite map_map. simpl. apply map_id.
  - intros i j. unfold folding_map. rewrite in_map_iff. split.
    + intros [i0 [E Hi]]. inversion E; subst. auto.
    + intros [Hi ->]. exists i. auto.
Qed.

(* ============================================================================================== *)
(* two-step folding                                                                                 *)
Lemma fold_index_compose m bits mid nb k1 k2 i :
  0 < nb -> 0 <= k1 -> 0 <= k2 -> bits = mid * 2 ^ k1 -> mid = nb * 2 ^ k2 -> (m = 0 \/ m = 1) ->
  fold_index m mid nb (fold_index m bits mid i) = fold_index m bits nb i.
Proof.
  intros Hnb H1 H2 E1 E2 Hm.
  assert (P1 : 0 < 2 ^ k1) by (apply Z.pow_pos_nonneg; lia).
  assert (P2 : 0 < 2 ^ k2) by (apply Z.pow_pos_nonneg; lia).
  assert (Hmid : 0 < mid) by nia.
  destruct Hm as [-> | ->].
  - rewrite !fold_index_0. symmetry. apply Zmod_div_mod; try lia. exists (2 ^ k2). lia.
  - rewrite !fold_index_1.
    assert (R1 : bits / mid = 2 ^ k1) by (rewrite E1, (Z.mul_comm mid), Z.div_mul by lia; reflexivity).
    assert (R2 : mid / nb = 2 ^ k2) by (rewrite E2, (Z.mul_comm nb), Z.div_mul by lia; reflexivity).
    assert (R : bits / nb = 2 ^ k1 * 2 ^ k2).
    { rewrite E1, E2. replace (nb * 2 ^ k2 * 2 ^ k1) with (2 ^ k1 * 2 ^ k2 * nb) by ring. apply Z.div_mul. lia. }
    rewrite R1, R2, R. apply Z.div_div; lia.
Qed.

(* if both steps are accepted so is the direct fold *)
Lemma fold_compose_accepts a mid nb m x y : fp_fold a mid m = Ok x -> fp_fold x nb m = Ok y -> exists z, fp_fold a nb m = Ok z.
Proof.
  intros H1 H2. apply fold_accepts.
  destruct (fp_fold_ok a mid m x H1) as (((Hm1 & Hm2) & (k1 & Hk1 & E1) & Hm) & _ & B & _).
  destruct (fp_fold_ok x nb m y H2) as (((Hn1 & Hn2) & (k2 & Hk2 & E2) & _) & _).
  rewrite B in *. unfold fold_ok. split; [lia|]. split; [|exact Hm].
  exists (k2 + k1). split; [lia|]. rewrite Z.pow_add_r by lia. rewrite E1, E2. ring.
Qed.

(* ... and conversely every chain nb | mid | bits of power-of-two quotients is accepted step by step *)
Lemma fold_chain_accepts a mid nb m k1 k2 : 0 < nb -> 0 <= k1 -> 0 <= k2 -> fbits a = mid * 2 ^ k1 -> mid = nb * 2 ^ k2 ->
  (m = 0 \/ m = 1) -> exists x y z, fp_fold a mid m = Ok x /\ fp_fold x nb m = Ok y /\ fp_fold a nb m = Ok z.
Proof.
  intros Hnb H1 H2 E1 E2 Hm.
  assert (P1 : 0 < 2 ^ k1) by (apply Z.pow_pos_nonneg; lia).
  assert (P2 : 0 < 2 ^ k2) by (apply Z.pow_pos_nonneg; lia).
  assert (A1 : fold_ok a mid m). { unfold fold_ok. split; [nia|]. split; [exists k1; auto | exact Hm]. }
  apply fold_accepts in A1. destruct A1 as [x Hx].
  destruct (fp_fold_ok a mid m x Hx) as (_ & _ & B & _).
  assert (A2 : fold_ok x nb m). { unfold fold_ok. rewrite B. split; [nia|]. split; [exists k2; auto | exact Hm]. }
  apply fold_accepts in A2. destruct A2 as [y Hy].
  destruct (fold_compose_accepts a mid nb m x y Hx Hy) as [z Hz]. exists x, y, z. auto.
Qed.

Section Compose.
  Variables (a x y z : fp) (mid nb m : Z).
  Hypothesis H1 : fp_fold a mid m = Ok x.
  Hypothesis H2 : fp_fold x nb m = Ok y.
  Hypothesis H3 : fp_fold a nb m = Ok z.

  Let f1 := fold_index m (fbits a) mid.
  Let f2 := fold_index m mid nb.
  Let f := fold_index m (fbits a) nb.

  Lemma compose_index i : f2 (f1 i) = f i.
  Proof.
    destruct (fp_fold_ok a mid m x H1) as (((Hm1 & Hm2) & (k1 & Hk1 & E1) & Hm) & _ & B & _).
    destruct (fp_fold_ok x nb m y H2) as (((Hn1 & Hn2) & (k2 & Hk2 & E2) & _) & _).
    rewrite B in *. apply (fold_index_compose m (fbits a) mid nb k1 k2 i); assumption.
  Qed.

  Lemma compose_bits_x : fbits x = mid.
  Proof. apply (fp_fold_ok a mid m x H1). Qed.

  Lemma fold_compose_shape :
    fkind y = fkind z /\ fbits y = fbits z /\ flevel y = flevel z /\ fname y = fname z /\ fidx y = fidx z.
  Proof.
    destruct (fp_fold_ok a mid m x H1) as (_ & K1 & B1 & L1 & N1 & I1 & _).
    destruct (fp_fold_ok x nb m y H2) as (_ & K2 & B2 & L2 & N2 & I2 & _).
    destruct (fp_fold_ok a nb m z H3) as (_ & K3 & B3 & L3 & N3 & I3 & _).
    repeat split; try congruence.
    rewrite I2, I3, B1, I1. apply usort_ext. intro j. rewrite !in_map_iff. split.
    - intros [i' [E Hi']]. apply (proj1 (In_usort _ _)) in Hi'. apply in_map_iff in Hi'. destruct Hi' as [i [E' Hi]].
      exists i. split; [|exact Hi]. rewrite <- E, <- E'. symmetry. apply compose_index.
    - intros [i [E Hi]]. exists (f1 i). split; [rewrite <- E; apply compose_index|].
      apply (proj2 (In_usort _ _)). apply in_map_iff. exists i. auto.
  Qed.

  (* bit fingerprints: the two routes give the very same value *)
  Lemma fold_compose_bit : fkind a = KBit -> y = z.
  Proof.
    intro K. destruct fold_compose_shape as (Ky & By & Ly & Ny & Iy).
    destruct (fold_keeps_level_bits_kind a mid m x H1) as (Kx & _).
    destruct (fold_keeps_level_bits_kind x nb m y H2) as (_ & _ & _ & _ & _ & _ & Cy).
    destruct (fold_keeps_level_bits_kind a nb m z H3) as (_ & _ & _ & _ & _ & _ & Cz).
    specialize (Cz K). assert (Cy' : fcnt y = []) by (apply Cy; congruence).
    destruct y, z; simpl in *; subst; reflexivity.
  Qed.

  (* count / float fingerprints: same positions, and every count agrees (as a rational number) *)
  Lemma fold_compose_counts : is_count_like a = true -> exact_counts a ->
    forall j, cget (fcnt y) j == cget (fcnt z) j.
  Proof.
    intros Hc X j.
    assert (Hcx : is_count_like x = true) by (rewrite (fold_is_count_like a mid m x H1); exact Hc).
    assert (Xx : exact_counts x) by (apply (fold_exact_counts a mid m x H1 Hc X)).
    rewrite (fold_count_value_sum x nb m y H2 Hcx Xx j), (fold_count_value_sum a nb m z H3 Hc X j).
    unfold fibre. rewrite compose_bits_x. fold f2. fold f.
    (* rewrite each count of x as the sum over its fibre in a *)
    rewrite (qsum_map_ext_Qeq (get_count x)
               (fun i' => qsum (map (get_count a) (filter (fun i => f1 i =? i') (filter (fun i => f i =? j) (fidx a)))))).
    - apply partition_sum.
      + apply NoDup_filter. apply ssorted_NoDup. apply (fold_keeps_level_bits_kind a mid m x H1).
      + intros i Hi. apply filter_In in Hi. destruct Hi as [Hi Ej]. apply Z.eqb_eq in Ej.
        apply filter_In. split.
        * apply (fold_index_member a mid m x H1). exists i. auto.
        * apply Z.eqb_eq. rewrite compose_index. exact Ej.
    - intros i' Hi'. apply filter_In in Hi'. destruct Hi' as [_ E']. apply Z.eqb_eq in E'.
      rewrite (get_count_count_like x i' Hcx), (fold_count_value_sum a mid m x H1 Hc X i'). unfold fibre. fold f1.
      rewrite filter_filter_sub; [reflexivity|].
      intros i _ Ei. apply Z.eqb_eq in Ei. apply Z.eqb_eq. rewrite <- compose_index, Ei. exact E'.
  Qed.
End Compose.

(* ============================================================================================== *)
(* the counts_method option                                                                         *)
Lemma fp_fold_cm_sum a nb m : is_count_like a = true -> fp_fold_cm CMSum a nb m = fp_fold a nb m.
Proof.
  unfold fp_fold_cm, fp_fold, is_count_like. destruct (fkind a); [discriminate| |]; intros _; reflexivity.
Qed.

Lemma fp_fold_cm_bit cm a nb m : fkind a = KBit -> fp_fold_cm cm a nb m = Raises EType.
Proof. intro K. unfold fp_fold_cm. rewrite K. reflexivity. Qed.

(* the reducer changes the counts only: every other field, and acceptance, are those of the plain fold *)
Lemma fp_fold_cm_spec cm a nb m r : fp_fold_cm cm a nb m = Ok r ->
  is_count_like a = true /\
  exists r0, fp_fold a nb m = Ok r0 /\
    fkind r = fkind r0 /\ fbits r = fbits r0 /\ flevel r = flevel r0 /\ fname r = fname r0 /\ fidx r = fidx r0 /\
    ckeys (fcnt r) = fidx r /\
    forall j, In j (fidx r) -> cget (fcnt r) j = cast_value (fkind a) (creduce cm (map (get_count a) (fibre a nb m j))).
Proof.
  unfold fp_fold_cm, fp_fold, is_count_like. destruct (fkind a) eqn:K; [discriminate| |];
    (destruct (fold_check a nb m); [discriminate|]); intro H; inversion H; subst; clear H; simpl;
    (split; [reflexivity|]); eexists; (split; [reflexivity|]); simpl; repeat split;
    try apply ckeys_cbuild; intros j Hj; rewrite cget_cbuild, (proj2 (zmem_In _ _) Hj); reflexivity.
Qed.

(* max(list) / min(list) of a non-empty list: an element of the list that bounds all the others *)
Lemma fold_left_qmax t : forall x, In (fold_left qmax t x) (x :: t) /\ forall y, In y (x :: t) -> (y <= fold_left qmax t x)%Q.
Proof.
  induction t as [|z t IH]; intro x; simpl.
  - split; [left; reflexivity|]. intros y [<-|[]]. apply Qle_refl.
  - destruct (IH (qmax x z)) as [I1 I2].
    assert (Hx : (x <= qmax x z)%Q /\ (z <= qmax x z)%Q /\ (qmax x z = x \/ qmax x z = z)).
    { unfold qmax. destruct (Qle_bool x z) eqn:E.
      - apply Qle_bool_iff in E. split; [exact E|]. split; [apply Qle_refl | right; reflexivity].
      - split; [apply Qle_refl|]. split; [|left; reflexivity].
        apply Qlt_le_weak. apply Qnot_le_lt. intro H. apply Qle_bool_iff in H. congruence. }
    destruct Hx as (Hx1 & Hx2 & Hx3). split.
    + simpl in I1. destruct I1 as [I1|I1]; [|right; right; exact I1].
      rewrite <- I1. destruct Hx3 as [->| ->]; [left | right; left]; reflexivity.
    + intros y [<-|[<-|Hy]].
      * eapply Qle_trans; [exact Hx1|]. apply I2. left. reflexivity.
      * eapply Qle_trans; [exact Hx2|]. apply I2. left. reflexivity.
      * apply I2. right. exact Hy.
Qed.

Lemma fold_left_qmin t : forall x, In (fold_left qmin t x) (x :: t) /\ forall y, In y (x :: t) -> (fold_left qmin t x <= y)%Q.
Proof.
  induction t as [|z t IH]; intro x; simpl.
  - split; [left; reflexivity|]. intros y [<-|[]]. apply Qle_refl.
  - destruct (IH (qmin x z)) as [I1 I2].
    assert (Hx : (qmin x z <= x)%Q /\ (qmin x z <= z)%Q /\ (qmin x z = x \/ qmin x z = z)).
    { unfold qmin. destruct (Qle_bool x z) eqn:E.
      - apply Qle_bool_iff in E. split; [apply Qle_refl|]. split; [exact E | left; reflexivity].
      - split; [|split; [apply Qle_refl | right; reflexivity]].
        apply Qlt_le_weak. apply Qnot_le_lt. intro H. apply Qle_bool_iff in H. congruence. }
    destruct Hx as (Hx1 & Hx2 & Hx3). split.
    + simpl in I1. destruct I1 as [I1|I1]; [|right; right; exact I1].
      rewrite <- I1. destruct Hx3 as [->| ->]; [left | right; left]; reflexivity.
    + intros y [<-|[<-|Hy]].
      * eapply Qle_trans; [|exact Hx1]. apply I2. left. reflexivity.
      * eapply Qle_trans; [|exact Hx2]. apply I2. left. reflexivity.
      * apply I2. right. exact Hy.
Qed.

Lemma creduce_max_spec l : l <> [] -> In (creduce CMMax l) l /\ forall y, In y l -> (y <= creduce CMMax l)%Q.
Proof. destruct l as [|x t]; [congruence|]. intros _. apply fold_left_qmax. Qed.

Lemma creduce_min_spec l : l <> [] -> In (creduce CMMin l) l /\ forall y, In y l -> (creduce CMMin l <= y)%Q.
Proof. destruct l as [|x t]; [congruence|]. intros _. apply fold_left_qmin. Qed.

(* the list a reducer receives is never empty *)
Lemma fold_reducer_nonempty a nb m r j : fp_fold a nb m = Ok r -> In j (fidx r) -> map (get_count a) (fibre a nb m j) <> [].
Proof.
  intros H Hj E. apply map_eq_nil in E. exact (fibre_nonempty a nb m r j H Hj E).
Qed.
