(* Round-trip lemmas for the representations of Model/FprintIO.v (used by Properties/C10.v). *)
From Coq Require Import QArith Qround Ascii Sorting.Sorted.
From E3FP Require Import Base.Prelude Base.ZSet Model.Fprint Model.FprintIO Gen.Constants Proofs.FprintEq Proofs.FprintConv.
Open Scope Z_scope.

(* ---- positions ------------------------------------------------------------------------------------------- *)
Lemma In_zrange_from n : forall s i, In i (zrange_from s n) <-> s <= i < s + Z.of_nat n.
Proof.
  induction n as [|n IH]; intros s i.
  - simpl. lia.
  - cbn [zrange_from In]. rewrite IH. lia.
Qed.

Lemma ssorted_zrange_from n : forall s, ssorted (zrange_from s n).
Proof.
  unfold ssorted. induction n as [|n IH]; intro s; cbn [zrange_from]; constructor; [apply IH|].
  apply Forall_forall. intros x Hx. apply In_zrange_from in Hx. lia.
Qed.

Lemma length_zrange_from n : forall s, length (zrange_from s n) = n.
Proof. induction n as [|n IH]; intro s; cbn [zrange_from length]; [reflexivity | rewrite IH; reflexivity]. Qed.

Lemma In_zrange n i : In i (zrange n) <-> 0 <= i < n.
Proof. unfold zrange. rewrite In_zrange_from. lia. Qed.

Lemma ssorted_zrange n : ssorted (zrange n).
Proof. apply ssorted_zrange_from. Qed.

Lemma length_zrange n : 0 <= n -> Z.of_nat (length (zrange n)) = n.
Proof. intro H. unfold zrange. rewrite length_zrange_from. lia. Qed.

(* ---- list plumbing ------------------------------------------------------------------------------------------ *)
Lemma rmap_ok {A B} (f : A -> result B) (g : A -> B) l : (forall x, In x l -> f x = Ok (g x)) -> rmap f l = Ok (map g l).
Proof.
  induction l as [|x t IH]; intro H; [reflexivity|]. cbn [rmap map].
  rewrite (H x (or_introl eq_refl)). cbn [rbind]. rewrite IH by (intros y Hy; apply H; right; exact Hy). reflexivity.
Qed.

Lemma rmap_is_ok {A B} (f : A -> result B) l : is_ok (rmap f l) = true -> forall x, In x l -> is_ok (f x) = true.
Proof.
  induction l as [|x t IH]; intros H y Hy; [contradiction|]. cbn [rmap] in H.
  destruct (f x) as [b|e] eqn:E; cbn [rbind] in H; [|discriminate].
  destruct (rmap f t) as [bs|e] eqn:E'; cbn [rbind] in H; [|discriminate].
  destruct Hy as [<-|Hy]; [rewrite E; reflexivity | apply IH; [reflexivity | exact Hy]].
Qed.

Lemma combine_map_r {A B} (f : A -> B) l : combine l (map f l) = map (fun p => (p, f p)) l.
Proof. induction l as [|x t IH]; simpl; [reflexivity | rewrite IH; reflexivity]. Qed.

Lemma filter_map_comm {A B} (p : B -> bool) (g : A -> B) l : filter p (map g l) = map g (filter (fun x => p (g x)) l).
Proof. induction l as [|x t IH]; simpl; [reflexivity|]. destruct (p (g x)); simpl; rewrite IH; reflexivity. Qed.

Lemma map_fst_cbuild ks f : map fst (cbuild ks f) = ks.
Proof. apply ckeys_cbuild. Qed.

(* ---- dict(zip(indices, values)) on distinct indices ----------------------------------------------------------- *)
Lemma last_value_cbuild ks g : NoDup ks -> forall i, In i ks -> last_value (cbuild ks g) i = g i.
Proof.
  induction ks as [|k t IH]; intros N i Hi; [contradiction|]. inversion N as [|? ? Hk Ht]; subst.
  change (cbuild (k :: t) g) with ((k, g k) :: cbuild t g). cbn [last_value]. rewrite map_fst_cbuild.
  destruct (zmem i t) eqn:E.
  - apply IH; [exact Ht | apply zmem_In; exact E].
  - apply zmem_false in E. destruct Hi as [<-|Hi]; [rewrite Z.eqb_refl; reflexivity | contradiction].
Qed.

Lemma dict_of_cbuild ks g : ssorted ks -> dict_of (cbuild ks g) = cbuild ks g.
Proof.
  intro S. unfold dict_of. rewrite map_fst_cbuild, (usort_id _ S). apply cbuild_ext.
  apply last_value_cbuild. apply ssorted_NoDup. exact S.
Qed.

Lemma forallb_zmem_self l : forallb (fun x => zmem x l) l = true.
Proof. apply forallb_forall. intros x Hx. apply zmem_In. exact Hx. Qed.

(* ---- the constructors on well-formed data ------------------------------------------------------------------------ *)
Lemma mk_bit_sorted idx bits lv nm :
  ssorted idx -> (forall i, In i idx -> 0 <= i < bits) -> mk_bit idx bits lv nm = Ok (mkfp KBit bits lv idx [] nm).
Proof. intros S R. unfold mk_bit. rewrite (existsb_ge_false _ _ R), (usort_id _ S). reflexivity. Qed.

Lemma mk_count_cbuild k idx g bits lv nm :
  ssorted idx -> (forall i, In i idx -> 0 <= i < bits) ->
  mk_count k idx (cbuild idx g) bits lv nm = Ok (mkfp k bits lv idx (cbuild idx (fun i => cast_value k (g i))) nm).
Proof.
  intros S R. unfold mk_count. rewrite (existsb_ge_false _ _ R), (usort_id _ S), ckeys_cbuild, forallb_zmem_self. cbn [negb].
  rewrite (usort_id _ S). do 2 f_equal. apply cbuild_ext. intros i Hi. rewrite cget_cbuild_in by exact Hi. reflexivity.
Qed.

(* reading the entries (position, value of a) of a well-formed fingerprint with class k = converting a to kind k *)
Lemma from_entries_of k a lv nm : wf_fp a ->
  from_entries k (cbuild (fidx a) (get_count a)) (fbits a) lv nm = Ok (set_meta (conv k a) lv nm).
Proof.
  intros [S R K P I Bn]. unfold from_entries. rewrite map_fst_cbuild.
  destruct k.
  - rewrite mk_bit_sorted by assumption. reflexivity.
  - rewrite dict_of_cbuild by exact S. rewrite mk_count_cbuild by assumption. reflexivity.
  - rewrite dict_of_cbuild by exact S. rewrite mk_count_cbuild by assumption. reflexivity.
Qed.

Lemma set_meta_same a : set_meta a (flevel a) (fname a) = a.
Proof. destruct a; reflexivity. Qed.

(* ---- values that the default dtype of the class holds ---------------------------------------------------------------- *)
(* the only lossy default dtype is uint16 of CountFingerprint *)
Definition fits_dtype (a : fp) : Prop :=
  fkind a = KCount -> forall kv, In kv (fcnt a) -> (snd kv <= inject_Z count_dtype_max)%Q.

Lemma get_count_bit_cases a i : fkind a = KBit -> get_count a i = 0%Q \/ get_count a i = 1%Q.
Proof. intro K. unfold get_count. rewrite K. destruct (zmem i (fidx a)); auto. Qed.

Lemma cast_default_id a i : wf_fp a -> fits_dtype a ->
  cast_dtype (default_dtype (fkind a)) (get_count a i) = Ok (get_count a i).
Proof.
  intros W F. destruct (fkind a) eqn:K; cbn [default_dtype cast_dtype].
  - destruct (get_count_bit_cases a i K) as [E|E]; rewrite E; reflexivity.
  - destruct (in_dec Z.eq_dec i (fidx a)) as [Hin|Hnot].
    + pose proof (get_count_pos a i W Hin) as Hp.
      assert (Hle : (get_count a i <= inject_Z count_dtype_max)%Q).
      { unfold get_count. rewrite K. apply (F K (i, cget (fcnt a) i)). apply cget_in_keys.
        pose proof (wf_keys a W) as Kk. rewrite K in Kk. rewrite Kk. exact Hin. }
      apply Qlt_le_weak in Hp. apply Qle_bool_iff in Hp. apply Qle_bool_iff in Hle. rewrite Hp, Hle. reflexivity.
    + rewrite (get_count_notin a i (wf_signed_of_wf a W) Hnot). reflexivity.
  - reflexivity.
Qed.

Lemma counts_lookup_ok_wf a : wf_fp a -> counts_lookup_ok a = true.
Proof.
  intro W. unfold counts_lookup_ok. pose proof (wf_keys a W) as K. destruct (fkind a); [reflexivity | |]; rewrite K; apply forallb_zmem_self.
Qed.

Lemma dense_value_wf a p : wf_fp a -> 0 <= p < fbits a -> dense_value a p = get_count a p.
Proof.
  intros W Hp. unfold dense_value. destruct (zmem p (fidx a)) eqn:E; [reflexivity|].
  destruct (zmem (p - fbits a) (fidx a)) eqn:E2.
  - apply zmem_In in E2. apply (wf_range a W) in E2. lia.
  - apply zmem_false in E. symmetry. apply get_count_notin; [apply wf_signed_of_wf; exact W | exact E].
Qed.

Lemma index_guard_dense a : wf_fp a -> existsb (fun i => (fbits a <=? i) || (i <? - fbits a)) (fidx a) = false.
Proof.
  intro W. apply not_true_is_false. intro E. apply existsb_exists in E. destruct E as [x [Hx E]].
  apply (wf_range a W) in Hx. apply orb_true_iff in E. destruct E as [E|E]; [apply Z.leb_le in E | apply Z.ltb_lt in E]; lia.
Qed.

Lemma index_guard_csr a : wf_fp a -> existsb (fun i => (fbits a <=? i) || (i <? 0)) (fidx a) = false.
Proof.
  intro W. apply not_true_is_false. intro E. apply existsb_exists in E. destruct E as [x [Hx E]].
  apply (wf_range a W) in Hx. apply orb_true_iff in E. destruct E as [E|E]; [apply Z.leb_le in E | apply Z.ltb_lt in E]; lia.
Qed.

(* ---- dense vector --------------------------------------------------------------------------------------------------- *)
Lemma to_dense_wf a : wf_fp a -> fits_dtype a -> to_dense None a = Ok (map (get_count a) (zrange (fbits a))).
Proof.
  intros W F. unfold to_dense. rewrite (counts_lookup_ok_wf a W), (index_guard_dense a W). cbn [negb pick_dtype].
  rewrite (rmap_ok _ (fun q => q)) by (intros x Hx; apply in_map_iff in Hx; destruct Hx as [i [<- _]]; apply cast_default_id; assumption).
  cbn [rbind]. apply rmap_ok. intros p Hp. apply In_zrange in Hp. rewrite dense_value_wf by assumption. apply cast_default_id; assumption.
Qed.

Lemma nonzero_filter a : wf_fp a ->
  filter (fun p => negb (Qeq_bool (get_count a p) 0)) (zrange (fbits a)) = fidx a.
Proof.
  intro W. apply ssorted_ext; [apply ssorted_filter, ssorted_zrange | apply (wf_sorted a W) |].
  intro p. rewrite filter_In, In_zrange. split.
  - intros [_ H]. destruct (in_dec Z.eq_dec p (fidx a)) as [Hin|Hnot]; [exact Hin|].
    rewrite (get_count_notin a p (wf_signed_of_wf a W) Hnot) in H. discriminate.
  - intro Hin. split; [apply (wf_range a W); exact Hin|].
    apply negb_true_iff, not_true_is_false. intro E. apply Qeq_bool_iff in E.
    pose proof (get_count_pos a p W Hin) as Hp. rewrite E in Hp. discriminate.
Qed.

Lemma nonzero_entries_of a : wf_fp a ->
  nonzero_entries (map (get_count a) (zrange (fbits a))) = cbuild (fidx a) (get_count a).
Proof.
  intro W. unfold nonzero_entries. rewrite map_length, (length_zrange _ (wf_bits a W)), combine_map_r.
  rewrite filter_map_comm. cbn [snd]. rewrite (nonzero_filter a W). reflexivity.
Qed.

Lemma length_dense a : wf_fp a -> Z.of_nat (length (map (get_count a) (zrange (fbits a)))) = fbits a.
Proof. intro W. rewrite map_length. apply length_zrange. apply (wf_bits a W). Qed.

(* from_vector(to_vector(sparse=False)) with class k is the conversion to kind k (level / name: only what is passed) *)
Lemma dense_roundtrip_conv k a lv nm : wf_fp a -> fits_dtype a ->
  rbind (to_dense None a) (fun v => from_dense k v None lv nm) = Ok (set_meta (conv k a) (level_arg lv) (name_arg nm)).
Proof.
  intros W F. rewrite (to_dense_wf a W F). cbn [rbind]. unfold from_dense.
  rewrite (length_dense a W), (nonzero_entries_of a W). apply from_entries_of. exact W.
Qed.

Lemma dense_vector_rt a lv nm : wf_fp a -> fits_dtype a ->
  rbind (to_dense None a) (fun v => from_dense (fkind a) v None lv nm) = Ok (set_meta a (level_arg lv) (name_arg nm)).
Proof. intros W F. rewrite (dense_roundtrip_conv _ a lv nm W F), (conv_same_kind a W). reflexivity. Qed.

(* ---- CSR vector ------------------------------------------------------------------------------------------------------- *)
Lemma to_csr_wf a : wf_fp a -> fits_dtype a -> to_csr None a = Ok (mkcsr (fbits a) (cbuild (fidx a) (get_count a))).
Proof.
  intros W F. unfold to_csr. rewrite (counts_lookup_ok_wf a W), (index_guard_csr a W). cbn [negb pick_dtype].
  rewrite (rmap_ok _ (fun q => q)) by (intros x Hx; apply in_map_iff in Hx; destruct Hx as [i [<- _]]; apply cast_default_id; assumption).
  cbn [rbind]. rewrite map_id, combine_map_r. reflexivity.
Qed.

Lemma csr_roundtrip_conv k a lv nm : wf_fp a -> fits_dtype a ->
  rbind (to_csr None a) (fun m => from_csr k m None lv nm) = Ok (set_meta (conv k a) (level_arg lv) (name_arg nm)).
Proof.
  intros W F. rewrite (to_csr_wf a W F). cbn [rbind]. unfold from_csr. cbn [c_ncols c_entries]. apply from_entries_of. exact W.
Qed.

Lemma csr_vector_rt a lv nm : wf_fp a -> fits_dtype a ->
  rbind (to_csr None a) (fun m => from_csr (fkind a) m None lv nm) = Ok (set_meta a (level_arg lv) (name_arg nm)).
Proof. intros W F. rewrite (csr_roundtrip_conv _ a lv nm W F), (conv_same_kind a W). reflexivity. Qed.

(* ---- the uint16 limit --------------------------------------------------------------------------------------------------- *)
Lemma cget_of_in m : NoDup (ckeys m) -> forall k v, In (k, v) m -> cget m k = v.
Proof.
  induction m as [|[k0 v0] t IH]; intros N k v Hin; [contradiction|].
  change (ckeys ((k0, v0) :: t)) with (k0 :: ckeys t) in N. inversion N as [|? ? Hk Ht]; subst.
  cbn [cget]. destruct Hin as [E|Hin].
  - inversion E; subst. rewrite Z.eqb_refl. reflexivity.
  - destruct (k =? k0) eqn:E; [|apply IH; assumption].
    apply Z.eqb_eq in E. subst. exfalso. apply Hk. unfold ckeys. apply in_map_iff. exists (k0, v). split; [reflexivity | exact Hin].
Qed.

Lemma values_ok_fits a : wf_fp a -> fkind a = KCount ->
  is_ok (rmap (cast_dtype DUint16) (map (get_count a) (fidx a))) = true -> fits_dtype a.
Proof.
  intros W K H _ [k v] Hin. cbn [snd].
  pose proof (wf_keys a W) as Kk. rewrite K in Kk.
  assert (Hk : In k (fidx a)) by (rewrite <- Kk; unfold ckeys; apply in_map_iff; exists (k, v); split; [reflexivity | exact Hin]).
  pose proof (rmap_is_ok _ _ H (get_count a k) (in_map _ _ _ Hk)) as Hc.
  assert (E : get_count a k = v).
  { unfold get_count. rewrite K. apply cget_of_in; [|exact Hin]. rewrite Kk. apply ssorted_NoDup, (wf_sorted a W). }
  rewrite E in Hc. cbn [cast_dtype] in Hc.
  destruct (Qle_bool 0 v && Qle_bool v (inject_Z count_dtype_max)) eqn:B; [|discriminate].
  apply andb_true_iff in B. apply Qle_bool_iff. tauto.
Qed.

Lemma is_ok_rbind {A B} (r : result A) (f : A -> result B) : is_ok (rbind r f) = true -> is_ok r = true.
Proof. destruct r; [reflexivity | discriminate]. Qed.

Lemma count_dtype_limit_dense a : wf_fp a -> fkind a = KCount -> (is_ok (to_dense None a) = true <-> fits_dtype a).
Proof.
  intros W K. split.
  - unfold to_dense. rewrite (counts_lookup_ok_wf a W), (index_guard_dense a W). cbn [negb pick_dtype]. rewrite K. cbn [default_dtype].
    intro H. apply is_ok_rbind in H. apply values_ok_fits; assumption.
  - intro F. rewrite (to_dense_wf a W F). reflexivity.
Qed.

Lemma count_dtype_limit_csr a : wf_fp a -> fkind a = KCount -> (is_ok (to_csr None a) = true <-> fits_dtype a).
Proof.
  intros W K. split.
  - unfold to_csr. rewrite (counts_lookup_ok_wf a W), (index_guard_csr a W). cbn [negb pick_dtype]. rewrite K. cbn [default_dtype].
    intro H. apply is_ok_rbind in H. apply values_ok_fits; assumption.
  - intro F. rewrite (to_csr_wf a W F). reflexivity.
Qed.

(* the refusal is an OverflowError (EOther), nothing is silently wrapped *)
Lemma cast_uint16_raises q e : cast_dtype DUint16 q = Raises e -> e = EOther.
Proof. cbn [cast_dtype]. destruct (Qle_bool 0 q && Qle_bool q (inject_Z count_dtype_max)); congruence. Qed.

(* ---- fingerprints whose counts are all 1 (what a bit string or an RDKit vector can say) -------------------------------------- *)
Definition unit_counts (a : fp) : Prop := forall kv, In kv (fcnt a) -> snd kv = 1%Q.

Definition unit_fp (k : kind) (a : fp) : fp :=
  mkfp k (fbits a) (flevel a) (fidx a) (match k with KBit => [] | _ => cbuild (fidx a) (fun _ => 1%Q) end) (fname a).

Lemma count_occ_nodup l : NoDup l -> forall i, In i l -> count_occ_Z i l = 1.
Proof.
  induction l as [|x t IH]; intros N i Hi; [contradiction|]. inversion N as [|? ? Hx Ht]; subst.
  unfold count_occ_Z. cbn [filter]. destruct (i =? x) eqn:E.
  - apply Z.eqb_eq in E. subst. cbn [length]. pose proof (count_occ_notin x t Hx) as H0. unfold count_occ_Z in H0. lia.
  - destruct Hi as [<-|Hi]; [rewrite Z.eqb_refl in E; discriminate|]. apply (IH Ht i Hi).
Qed.

Lemma from_index_list_wf k a lv nm : wf_fp a ->
  from_index_list k (fidx a) (fbits a) lv nm = Ok (set_meta (unit_fp k a) lv nm).
Proof.
  intros [S R K P I Bn]. unfold from_index_list.
  destruct k; [rewrite mk_bit_sorted by assumption; reflexivity | |];
    unfold mk_count_from_indices; rewrite (existsb_ge_false _ _ R), (usort_id _ S); unfold set_meta, unit_fp; cbn;
    do 2 f_equal; apply cbuild_ext; intros i Hi; rewrite (count_occ_nodup _ (ssorted_NoDup _ S) i Hi); reflexivity.
Qed.

Lemma unit_fp_same a : wf_fp a -> unit_counts a -> unit_fp (fkind a) a = a.
Proof.
  intros [S R K P I Bn] U. destruct a as [k bits lv idx cnt nm]. unfold unit_fp, unit_counts in *. cbn in *.
  destruct k; subst; f_equal.
  - transitivity (cbuild (ckeys cnt) (cget cnt)); [|apply cbuild_cget_id, ssorted_NoDup; exact S].
    apply cbuild_ext. intros i Hi. symmetry. apply (U (i, cget cnt i)). apply cget_in_keys. exact Hi.
  - transitivity (cbuild (ckeys cnt) (cget cnt)); [|apply cbuild_cget_id, ssorted_NoDup; exact S].
    apply cbuild_ext. intros i Hi. symmetry. apply (U (i, cget cnt i)). apply cget_in_keys. exact Hi.
Qed.

Lemma unit_counts_bit a : wf_fp a -> fkind a = KBit -> unit_counts a.
Proof. intros W K kv Hin. pose proof (wf_keys a W) as Kk. rewrite K in Kk. rewrite Kk in Hin. contradiction. Qed.

(* ---- bit string ----------------------------------------------------------------------------------------------------------- *)
Definition bit_of (a : fp) (p : Z) : ascii := if Qeq_bool (get_count a p) 0 then "0"%char else "1"%char.

Lemma to_bitstring_wf a : wf_fp a -> to_bitstring a = Ok (string_of_list_ascii (map (bit_of a) (zrange (fbits a)))).
Proof.
  intro W. unfold to_bitstring, to_dense. rewrite (counts_lookup_ok_wf a W), (index_guard_dense a W). cbn [negb pick_dtype].
  rewrite (rmap_ok _ (fun q => if Qeq_bool q 0 then 0%Q else 1%Q)) by reflexivity. cbn [rbind].
  rewrite (rmap_ok _ (fun p => if Qeq_bool (get_count a p) 0 then 0%Q else 1%Q)).
  - cbn [rbind]. do 2 f_equal. rewrite map_map. apply map_ext. intro p. unfold bit_of, bit_char.
    destruct (Qeq_bool (get_count a p) 0); reflexivity.
  - intros p Hp. apply In_zrange in Hp. rewrite dense_value_wf by assumption. reflexivity.
Qed.

Lemma on_positions_of a : wf_fp a -> on_positions (map (bit_of a) (zrange (fbits a))) = fidx a.
Proof.
  intro W. unfold on_positions. rewrite map_length, (length_zrange _ (wf_bits a W)), combine_map_r, filter_map_comm, map_map.
  cbn [fst snd]. rewrite map_id. rewrite <- (nonzero_filter a W). apply filter_ext. intro p. unfold bit_of.
  destruct (Qeq_bool (get_count a p) 0); reflexivity.
Qed.

Lemma bitstring_roundtrip_unit k a lv nm : wf_fp a ->
  rbind (to_bitstring a) (fun s => from_bitstring k s None lv nm) = Ok (set_meta (unit_fp k a) (level_arg lv) (name_arg nm)).
Proof.
  intro W. rewrite (to_bitstring_wf a W). cbn [rbind]. unfold from_bitstring.
  rewrite list_ascii_of_string_of_list_ascii, map_length, (length_zrange _ (wf_bits a W)), (on_positions_of a W).
  apply from_index_list_wf. exact W.
Qed.

Lemma bitstring_rt a lv nm : wf_fp a -> unit_counts a ->
  rbind (to_bitstring a) (fun s => from_bitstring (fkind a) s None lv nm) = Ok (set_meta a (level_arg lv) (name_arg nm)).
Proof. intros W U. rewrite (bitstring_roundtrip_unit _ a lv nm W), (unit_fp_same a W U). reflexivity. Qed.

Lemma length_string_of_list_ascii l : String.length (string_of_list_ascii l) = length l.
Proof. induction l as [|c t IH]; cbn; [reflexivity | rewrite IH; reflexivity]. Qed.

Lemma to_bitstring_length a s : wf_fp a -> to_bitstring a = Ok s -> Z.of_nat (String.length s) = fbits a.
Proof.
  intros W H. rewrite (to_bitstring_wf a W) in H. inversion H; subst s. clear H.
  rewrite length_string_of_list_ascii, map_length. apply length_zrange. apply (wf_bits a W).
Qed.

(* ---- RDKit vector ------------------------------------------------------------------------------------------------------------ *)
Lemma rdkit_max_value : rdkit_max = 2147483647.
Proof. reflexivity. Qed.

Lemma to_rdkit_wf a : wf_fp a -> fbits a <= rdkit_max ->
  to_rdkit a = Ok (mkrdk (negb (fbits a <? rdkit_explicit_below)) (fbits a) (fidx a)).
Proof.
  intros W B. unfold to_rdkit. rewrite Z.min_l by exact B.
  assert (E : map (fun i => i mod rdkit_max) (fidx a) = fidx a).
  { rewrite <- (map_id (fidx a)) at 2. apply map_ext_in. intros i Hi. apply (wf_range a W) in Hi. apply Z.mod_small. lia. }
  rewrite E, (existsb_ge_false _ _ (wf_range a W)), (usort_id _ (wf_sorted a W)). reflexivity.
Qed.

Lemma rdkit_roundtrip_unit k a lv nm : wf_fp a -> fbits a <= rdkit_max ->
  rbind (to_rdkit a) (fun r => from_rdkit k r None lv nm) = Ok (set_meta (unit_fp k a) (level_arg lv) (name_arg nm)).
Proof.
  intros W B. rewrite (to_rdkit_wf a W B). cbn [rbind]. unfold from_rdkit. cbn [r_len r_on].
  replace (fbits a =? 2 ^ 32 - 1) with false by (symmetry; apply Z.eqb_neq; rewrite rdkit_max_value in B; change (2 ^ 32) with 4294967296; lia).
  apply from_index_list_wf. exact W.
Qed.

Lemma rdkit_rt a lv nm : wf_fp a -> fbits a <= rdkit_max -> unit_counts a ->
  rbind (to_rdkit a) (fun r => from_rdkit (fkind a) r None lv nm) = Ok (set_meta a (level_arg lv) (name_arg nm)).
Proof. intros W B U. rewrite (rdkit_roundtrip_unit _ a lv nm W B), (unit_fp_same a W U). reflexivity. Qed.

Lemma from_rdkit_bits_kw k r b lv nm : from_rdkit k r (Some b) lv nm = Raises EType.
Proof. reflexivity. Qed.

(* ---- pickle and files ------------------------------------------------------------------------------------------------------------ *)
Lemma pickle_rt x : wf_fp (xfp x) -> pickle_roundtrip x = x.
Proof.
  destruct x as [[k bits lv idx cnt nm] ps]. intros [S R K P I Bn]. cbn [xfp fkind fidx fcnt fbits] in *.
  cbv [pickle_roundtrip setstate getstate xfp xprops fkind fbits flevel fidx fcnt fname
       st_kind st_indices st_bits st_level st_counts st_name st_props].
  destruct k; [reflexivity | |]; rewrite K, (usort_id _ S); reflexivity.
Qed.

(* without any hypothesis: everything but the index array is kept, the index array is rebuilt from the counts *)
Lemma pickle_keeps x :
  let y := pickle_roundtrip x in
  fkind (xfp y) = fkind (xfp x) /\ fbits (xfp y) = fbits (xfp x) /\ flevel (xfp y) = flevel (xfp x) /\
  fcnt (xfp y) = fcnt (xfp x) /\ fname (xfp y) = fname (xfp x) /\ xprops y = xprops x /\
  fidx (xfp y) = match fkind (xfp x) with KBit => fidx (xfp x) | _ => usort (ckeys (fcnt (xfp x))) end.
Proof. destruct x as [[k bits lv idx cnt nm] ps]. cbn. repeat split. Qed.

Lemma file_rt u x : wf_fp (xfp x) -> file_roundtrip u x = Ok x.
Proof.
  intro W. unfold file_roundtrip. rewrite (pickle_rt x W). destruct u; [|reflexivity].
  unfold from_fingerprint_x. rewrite (from_fingerprint_copy _ W). cbn [rbind]. destruct x; reflexivity.
Qed.

Lemma filez_rt u xs : (forall x, In x xs -> wf_fp (xfp x)) -> filez_roundtrip u xs = Ok xs.
Proof.
  intro H. unfold filez_roundtrip. rewrite (rmap_ok _ (fun x => x)) by (intros x Hx; apply file_rt; apply H; exact Hx).
  rewrite map_id. reflexivity.
Qed.

(* the byte-level versions: what is assumed about pickle and about the file layer is a hypothesis of the statement *)
Lemma rmap_map {A B C} (f : B -> result C) (g : A -> B) l : rmap f (map g l) = rmap (fun x => f (g x)) l.
Proof. induction l as [|x t IH]; [reflexivity|]. cbn [map rmap]. rewrite IH. reflexivity. Qed.

Lemma rmap_ext {A B} (f g : A -> result B) l : (forall x, f x = g x) -> rmap f l = rmap g l.
Proof. intro H. induction l as [|x t IH]; [reflexivity|]. cbn [rmap]. rewrite H, IH. reflexivity. Qed.

Section CodecLemmas.
  Variables pbytes fbytes : Type.
  Variable pkl_dumps : pstate -> pbytes.
  Variable pkl_loads : pbytes -> pstate.
  Variable file_write : file_ext -> list pbytes -> fbytes.
  Variable file_read : file_ext -> fbytes -> list pbytes.
  Hypothesis pickle_inverts : forall s, pkl_loads (pkl_dumps s) = s.
  Hypothesis file_inverts : forall e l, file_read e (file_write e l) = l.

  Lemma pickle_via_is x : pickle_via pbytes pkl_dumps pkl_loads x = pickle_roundtrip x.
  Proof. unfold pickle_via, pickle_roundtrip. rewrite pickle_inverts. reflexivity. Qed.

  Lemma filez_via_is e u xs :
    filez_via pbytes fbytes pkl_dumps pkl_loads file_write file_read e u xs = filez_roundtrip u xs.
  Proof.
    unfold filez_via, filez_roundtrip. rewrite file_inverts, rmap_map. apply rmap_ext. intro x.
    rewrite pickle_inverts. reflexivity.
  Qed.

  Lemma pickle_rt_via x : wf_fp (xfp x) -> pickle_via pbytes pkl_dumps pkl_loads x = x.
  Proof. intro W. rewrite pickle_via_is. apply pickle_rt. exact W. Qed.

  Lemma pickle_keeps_via x :
    let y := pickle_via pbytes pkl_dumps pkl_loads x in
    fkind (xfp y) = fkind (xfp x) /\ fbits (xfp y) = fbits (xfp x) /\ flevel (xfp y) = flevel (xfp x) /\
    fcnt (xfp y) = fcnt (xfp x) /\ fname (xfp y) = fname (xfp x) /\ xprops y = xprops x /\
    fidx (xfp y) = match fkind (xfp x) with KBit => fidx (xfp x) | _ => usort (ckeys (fcnt (xfp x))) end.
  Proof. cbv zeta. rewrite pickle_via_is. apply pickle_keeps. Qed.

  Lemma filez_rt_via e u xs : (forall x, In x xs -> wf_fp (xfp x)) ->
    filez_via pbytes fbytes pkl_dumps pkl_loads file_write file_read e u xs = Ok xs.
  Proof. intro H. rewrite filez_via_is. apply filez_rt. exact H. Qed.

  Lemma file_rt_via e u x : wf_fp (xfp x) ->
    file_via pbytes fbytes pkl_dumps pkl_loads file_write file_read e u x = Ok (Some x).
  Proof.
    intro W. unfold file_via. rewrite filez_rt_via by (intros y [<-|[]]; exact W). reflexivity.
  Qed.

  (* pickle and files are the formats that carry level, name and props themselves *)
  Lemma file_carries_meta e u x y : wf_fp (xfp x) ->
    file_via pbytes fbytes pkl_dumps pkl_loads file_write file_read e u x = Ok (Some y) ->
    flevel (xfp y) = flevel (xfp x) /\ fname (xfp y) = fname (xfp x) /\ xprops y = xprops x.
  Proof. intros W H. rewrite (file_rt_via e u x W) in H. inversion H; subst y. repeat split. Qed.
End CodecLemmas.

(* level and name come back from the other formats exactly when the caller supplies them again *)
Lemma set_meta_resupplied a : fname a <> Some EmptyString ->
  set_meta a (level_arg (Some (flevel a))) (name_arg (fname a)) = a.
Proof.
  intro H. destruct a as [k b lv idx cnt nm]. unfold set_meta. cbn in *.
  destruct nm as [[|c s]|]; [congruence | reflexivity | reflexivity].
Qed.

Lemma level_not_carried a nm : flevel (set_meta a (level_arg None) nm) = Some (-1).
Proof. reflexivity. Qed.

(* ---- index array ------------------------------------------------------------------------------------------------------------------- *)
Lemma from_indices_of_conv a lv nm : wf_fp a ->
  from_indices_of a lv nm = Ok (set_meta (conv (fkind a) a) (level_arg lv) (name_arg nm)).
Proof.
  intro W. pose proof W as [S R K P I Bn]. unfold from_indices_of.
  destruct (fkind a) eqn:Ka.
  - rewrite mk_bit_sorted by assumption. reflexivity.
  - assert (E : fcnt a = cbuild (fidx a) (cget (fcnt a))) by (rewrite <- K; symmetry; apply cbuild_cget_id; rewrite K; apply ssorted_NoDup; exact S).
    rewrite E. rewrite mk_count_cbuild by assumption. unfold set_meta, conv, conv_counts, get_count. rewrite Ka. reflexivity.
  - assert (E : fcnt a = cbuild (fidx a) (cget (fcnt a))) by (rewrite <- K; symmetry; apply cbuild_cget_id; rewrite K; apply ssorted_NoDup; exact S).
    rewrite E. rewrite mk_count_cbuild by assumption. unfold set_meta, conv, conv_counts, get_count. rewrite Ka. reflexivity.
Qed.

Lemma indices_rt a lv nm : wf_fp a -> from_indices_of a lv nm = Ok (set_meta a (level_arg lv) (name_arg nm)).
Proof. intro W. rewrite (from_indices_of_conv a lv nm W), (conv_same_kind a W). reflexivity. Qed.

(* corollaries: with the fingerprint's own level and name passed again, the value itself comes back *)
Lemma indices_rt_resupplied a : wf_fp a -> fname a <> Some EmptyString ->
  from_indices_of a (Some (flevel a)) (fname a) = Ok a.
Proof. intros W N. rewrite (indices_rt a _ _ W), (set_meta_resupplied a N). reflexivity. Qed.

Lemma dense_vector_rt_resupplied a : wf_fp a -> fits_dtype a -> fname a <> Some EmptyString ->
  rbind (to_dense None a) (fun v => from_dense (fkind a) v None (Some (flevel a)) (fname a)) = Ok a.
Proof. intros W F N. rewrite (dense_vector_rt a _ _ W F), (set_meta_resupplied a N). reflexivity. Qed.

Lemma csr_vector_rt_resupplied a : wf_fp a -> fits_dtype a -> fname a <> Some EmptyString ->
  rbind (to_csr None a) (fun m => from_csr (fkind a) m None (Some (flevel a)) (fname a)) = Ok a.
Proof. intros W F N. rewrite (csr_vector_rt a _ _ W F), (set_meta_resupplied a N). reflexivity. Qed.

Lemma bitstring_rt_resupplied a : wf_fp a -> unit_counts a -> fname a <> Some EmptyString ->
  rbind (to_bitstring a) (fun s => from_bitstring (fkind a) s None (Some (flevel a)) (fname a)) = Ok a.
Proof. intros W U N. rewrite (bitstring_rt a _ _ W U), (set_meta_resupplied a N). reflexivity. Qed.

Lemma rdkit_rt_resupplied a : wf_fp a -> fbits a <= rdkit_max -> unit_counts a -> fname a <> Some EmptyString ->
  rbind (to_rdkit a) (fun r => from_rdkit (fkind a) r None (Some (flevel a)) (fname a)) = Ok a.
Proof. intros W B U N. rewrite (rdkit_rt a _ _ W B U), (set_meta_resupplied a N). reflexivity. Qed.

(* ---- above 2^31-1 the RDKit form is not injective (outside the property: "for lengths below 2^31") ------------------------------- *)
Definition ex_rdkit_a : fp := mkfp KBit (2 ^ 32) minus1 [0; 5] [] None.
Definition ex_rdkit_b : fp := mkfp KBit (2 ^ 32) minus1 [5; 2147483647] [] None.

Lemma rdkit_collides :
  wf_fp ex_rdkit_a /\ wf_fp ex_rdkit_b /\ fbits ex_rdkit_a = 2 ^ 32 /\ fbits ex_rdkit_b = 2 ^ 32 /\
  fidx ex_rdkit_a <> fidx ex_rdkit_b /\ to_rdkit ex_rdkit_a = to_rdkit ex_rdkit_b /\
  (forall lv nm r, rbind (to_rdkit ex_rdkit_b) (fun v => from_rdkit KBit v None lv nm) = Ok r ->
                   fbits r <> fbits ex_rdkit_b /\ fidx r <> fidx ex_rdkit_b).
Proof.
  split; [apply wf_fpb_sound; vm_compute; reflexivity|]. split; [apply wf_fpb_sound; vm_compute; reflexivity|].
  split; [reflexivity|]. split; [reflexivity|]. split; [vm_compute; discriminate|]. split; [vm_compute; reflexivity|].
  intros lv nm r H. vm_compute in H. inversion H; subst r. cbn [fbits fidx]. split; vm_compute; discriminate.
Qed.

(* the length 2^31 is already lost (the vector is one position shorter) *)
Definition ex_rdkit_c : fp := mkfp KBit (2 ^ 31) minus1 [7] [] None.
Lemma rdkit_length_lost :
  wf_fp ex_rdkit_c /\ forall lv nm r, rbind (to_rdkit ex_rdkit_c) (fun v => from_rdkit KBit v None lv nm) = Ok r -> fbits r = 2 ^ 31 - 1.
Proof.
  split; [apply wf_fpb_sound; vm_compute; reflexivity|]. intros lv nm r H. vm_compute in H. inversion H; subst r. reflexivity.
Qed.

(* ---- examples: the hypotheses are satisfiable ------------------------------------------------------------------------------------- *)
Definition ex_count : fp := mkfp KCount 4294967296 (Some 5) [3; 70; 4294967295] [(3, 2%Q); (70, 1%Q); (4294967295, 65535%Q)] (Some "mol_0"%string).
Definition ex_float : fp := mkfp KFloat 16 None [0; 9] [(0, Qmake 3 2); (9, 250%Q)] None.
Definition ex_bit : fp := mkfp KBit 1024 minus1 [0; 5; 1023] [] (Some "a"%string).
Definition ex_count_big : fp := mkfp KCount 8 minus1 [2] [(2, 65536%Q)] None.

Lemma ex_count_wf : wf_fp ex_count /\ fits_dtype ex_count.
Proof.
  split; [apply wf_fpb_sound; vm_compute; reflexivity|]. intros _ kv Hin.
  cbn in Hin. destruct Hin as [<-|[<-|[<-|[]]]]; vm_compute; discriminate.
Qed.
Lemma ex_float_wf : wf_fp ex_float /\ fits_dtype ex_float.
Proof. split; [apply wf_fpb_sound; vm_compute; reflexivity | intro K; discriminate]. Qed.
Lemma ex_bit_wf : wf_fp ex_bit /\ unit_counts ex_bit /\ fbits ex_bit <= rdkit_max.
Proof. split; [apply wf_fpb_sound; vm_compute; reflexivity|]. split; [intros kv []| vm_compute; discriminate]. Qed.
Lemma ex_count_big_limit : wf_fp ex_count_big /\ ~ fits_dtype ex_count_big /\ to_dense None ex_count_big = Raises EOther /\ to_csr None ex_count_big = Raises EOther.
Proof.
  split; [apply wf_fpb_sound; vm_compute; reflexivity|]. split.
  - intro F. specialize (F eq_refl (2, 65536%Q) (or_introl eq_refl)). vm_compute in F. apply F. reflexivity.
  - split; vm_compute; reflexivity.
Qed.

Lemma count_dtype_limit a : wf_fp a -> fkind a = KCount ->
  (is_ok (to_dense None a) = true <-> fits_dtype a) /\ (is_ok (to_csr None a) = true <-> fits_dtype a).
Proof. intros W K. split; [apply count_dtype_limit_dense | apply count_dtype_limit_csr]; assumption. Qed.
