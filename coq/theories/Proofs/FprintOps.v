(* Lemmas about the operator part of Model/Fprint.v (used by Properties/C11.v). *)
From Coq Require Import QArith.
From E3FP Require Import Base.Prelude Base.ZSet Model.Fprint.
Open Scope Z_scope.

Lemma mk_bit_ok idx bits lv nm r :
  mk_bit idx bits lv nm = Ok r ->
  fkind r = KBit /\ fbits r = bits /\ flevel r = lv /\ fidx r = usort idx /\ fname r = nm.
Proof.
  unfold mk_bit. destruct (existsb _ idx); intro H; [discriminate|].
  inversion H; subst; simpl. repeat split.
Qed.

Lemma bit_binop_ok op a b r :
  bit_binop op a b = Ok r ->
  fbits a = fbits b /\ fkind r = KBit /\ fbits r = fbits a /\ fidx r = usort (op (fidx a) (fidx b)).
Proof.
  unfold bit_binop. destruct (fbits a =? fbits b) eqn:E; simpl; [|discriminate].
  apply Z.eqb_eq in E. intro H. apply mk_bit_ok in H. intuition.
Qed.

Lemma bit_binop_mismatch op a b : fbits a <> fbits b -> bit_binop op a b = Raises EBits.
Proof. intro H. unfold bit_binop. apply Z.eqb_neq in H. rewrite H. reflexivity. Qed.

Lemma or_spec a b r :
  fp_or a b = Ok r -> fbits r = fbits a /\ forall i, In i (fidx r) <-> In i (fidx a) \/ In i (fidx b).
Proof.
  intro H. apply bit_binop_ok in H. destruct H as (_ & _ & Hb & Hi). split; [exact Hb|].
  intro i. rewrite Hi, In_usort. apply In_zunion.
Qed.

Lemma and_spec a b r :
  fp_and a b = Ok r -> fbits r = fbits a /\ forall i, In i (fidx r) <-> In i (fidx a) /\ In i (fidx b).
Proof.
  intro H. apply bit_binop_ok in H. destruct H as (_ & _ & Hb & Hi). split; [exact Hb|].
  intro i. rewrite Hi, In_usort. apply In_zinter.
Qed.

Lemma bit_sub_spec a b r :
  fp_bit_sub a b = Ok r -> fbits r = fbits a /\ forall i, In i (fidx r) <-> In i (fidx a) /\ ~ In i (fidx b).
Proof.
  intro H. apply bit_binop_ok in H. destruct H as (_ & _ & Hb & Hi). split; [exact Hb|].
  intro i. rewrite Hi, In_usort. apply In_zdiff.
Qed.

Lemma xor_spec a b r :
  fp_xor a b = Ok r ->
  fbits r = fbits a /\ forall i, In i (fidx r) <-> (In i (fidx a) /\ ~ In i (fidx b)) \/ (In i (fidx b) /\ ~ In i (fidx a)).
Proof.
  intro H. apply bit_binop_ok in H. destruct H as (_ & _ & Hb & Hi). split; [exact Hb|].
  intro i. rewrite Hi, In_usort. apply In_zxor.
Qed.

(* ============================================================================================== *)
(* generic list / set helpers                                                                      *)
Lemma existsb_ext_In {A} (p : A -> bool) l1 l2 : (forall x, In x l1 <-> In x l2) -> existsb p l1 = existsb p l2.
Proof.
  intro H. destruct (existsb p l1) eqn:E1; destruct (existsb p l2) eqn:E2; try reflexivity.
  - apply existsb_exists in E1. destruct E1 as [x [Hx Px]]. apply H in Hx.
    assert (existsb p l2 = true) by (apply existsb_exists; eauto). congruence.
  - apply existsb_exists in E2. destruct E2 as [x [Hx Px]]. apply H in Hx.
    assert (existsb p l1 = true) by (apply existsb_exists; eauto). congruence.
Qed.

Lemma existsb_false_Forall bits l : existsb (fun i => bits <=? i) l = false <-> Forall (fun i => i < bits) l.
Proof.
  induction l as [|x l IH]; simpl.
  - split; [constructor | reflexivity].
  - rewrite orb_false_iff, IH, Z.leb_gt. split.
    + intros [H1 H2]. constructor; assumption.
    + intro H. inversion H; subst. split; assumption.
Qed.

Lemma forallb_zmem_self l : forallb (fun x => zmem x l) l = true.
Proof. apply forallb_forall. intros x Hx. apply zmem_In. exact Hx. Qed.

Lemma usort_ext l1 l2 : (forall x, In x l1 <-> In x l2) -> usort l1 = usort l2.
Proof.
  intro H. apply ssorted_ext; try apply ssorted_usort. intro x. rewrite !In_usort. apply H.
Qed.

Lemma mk_bit_ext l1 l2 bits lv nm : (forall x, In x l1 <-> In x l2) -> mk_bit l1 bits lv nm = mk_bit l2 bits lv nm.
Proof.
  intro H. unfold mk_bit. rewrite (existsb_ext_In _ l1 l2 H), (usort_ext l1 l2 H). reflexivity.
Qed.

(* ============================================================================================== *)
(* set operators: + is |, commutativity (what the reflected forms rely on), totality               *)
Lemma add_bit_is_or a b : fp_bit_add a b = fp_or a b.
Proof. reflexivity. Qed.

Lemma fp_add_bit_is_or a b : fkind a = KBit -> fp_add a b = fp_or a b.
Proof. intro H. unfold fp_add. rewrite H. reflexivity. Qed.

Lemma fp_sub_bit_is_diff a b : fkind a = KBit -> fp_sub a b = fp_bit_sub a b.
Proof. intro H. unfold fp_sub. rewrite H. reflexivity. Qed.

Lemma bit_binop_comm op a b :
  (forall x, In x (op (fidx a) (fidx b)) <-> In x (op (fidx b) (fidx a))) -> bit_binop op a b = bit_binop op b a.
Proof.
  intro H. unfold bit_binop. rewrite (Z.eqb_sym (fbits b)).
  destruct (fbits a =? fbits b) eqn:E; simpl; [|reflexivity].
  apply Z.eqb_eq in E. rewrite <- E. apply mk_bit_ext. exact H.
Qed.

Lemma or_comm a b : fp_or b a = fp_or a b.
Proof. apply bit_binop_comm. intro x. rewrite !In_zunion. tauto. Qed.
Lemma and_comm a b : fp_and b a = fp_and a b.
Proof. apply bit_binop_comm. intro x. rewrite !In_zinter. tauto. Qed.
Lemma xor_comm a b : fp_xor b a = fp_xor a b.
Proof. apply bit_binop_comm. intro x. rewrite !In_zxor. tauto. Qed.
Lemma bit_add_comm a b : fp_bit_add b a = fp_bit_add a b.
Proof. apply or_comm. Qed.

(* well-formed: every stored position is below the length (what the constructor enforces; negative positions
   are not rejected by the code, so they are not excluded here either) *)
Definition wf_idx (a : fp) : Prop := Forall (fun i => i < fbits a) (fidx a).

Lemma bit_binop_total op a b :
  (forall x, In x (op (fidx a) (fidx b)) -> In x (fidx a) \/ In x (fidx b)) ->
  wf_idx a -> wf_idx b -> fbits a = fbits b ->
  bit_binop op a b = Ok (mkfp KBit (fbits a) minus1 (usort (op (fidx a) (fidx b))) [] None).
Proof.
  intros Hop Ha Hb E. unfold bit_binop. rewrite (proj2 (Z.eqb_eq _ _) E). simpl. unfold mk_bit.
  assert (X : existsb (fun i => fbits a <=? i) (op (fidx a) (fidx b)) = false).
  { apply existsb_false_Forall. apply Forall_forall. intros x Hx. unfold wf_idx in *. rewrite Forall_forall in Ha, Hb.
    destruct (Hop x Hx) as [H|H]; [apply Ha; exact H | rewrite E; apply Hb; exact H]. }
  rewrite X. reflexivity.
Qed.

Lemma set_ops_total a b : wf_idx a -> wf_idx b -> fbits a = fbits b ->
  (exists r, fp_or a b = Ok r) /\ (exists r, fp_bit_add a b = Ok r) /\ (exists r, fp_and a b = Ok r) /\
  (exists r, fp_bit_sub a b = Ok r) /\ (exists r, fp_xor a b = Ok r).
Proof.
  intros Ha Hb E. repeat split; eexists; apply bit_binop_total; try assumption; intro x.
  - rewrite In_zunion. tauto.
  - rewrite In_zunion. tauto.
  - rewrite In_zinter. tauto.
  - rewrite In_zdiff. tauto.
  - rewrite In_zxor. tauto.
Qed.

(* the result of a set operator on well-formed operands is again well-formed and strictly increasing *)
Lemma bit_binop_wf op a b r : bit_binop op a b = Ok r -> wf_idx r /\ ssorted (fidx r).
Proof.
  unfold bit_binop. destruct (fbits a =? fbits b); simpl; [|discriminate]. unfold mk_bit.
  destruct (existsb _ _) eqn:X; [discriminate|]. intro H. inversion H; subst; clear H. unfold wf_idx; simpl. split.
  - apply existsb_false_Forall in X. rewrite Forall_forall in *. intros x Hx. apply (proj1 (In_usort _ _)) in Hx. apply (X x Hx).
  - apply ssorted_usort.
Qed.

(* ============================================================================================== *)
(* count maps                                                                                       *)
Lemma ckeys_cbuild ks g : ckeys (cbuild ks g) = ks.
Proof. unfold ckeys, cbuild. rewrite map_map. simpl. apply map_id. Qed.

Lemma cget_cbuild ks g i : cget (cbuild ks g) i = if zmem i ks then g i else 0%Q.
Proof.
  induction ks as [|k ks IH]; simpl; [reflexivity|].
  destruct (i =? k) eqn:E; simpl; [apply Z.eqb_eq in E; subst; reflexivity | exact IH].
Qed.

Lemma cget_absent m i : ~ In i (ckeys m) -> cget m i = 0%Q.
Proof.
  induction m as [|[k v] m IH]; simpl; intro H; [reflexivity|].
  destruct (i =? k) eqn:E.
  - apply Z.eqb_eq in E. exfalso. apply H. left. symmetry. exact E.
  - apply IH. tauto.
Qed.

Lemma cbuild_ext ks g h : (forall i, In i ks -> g i = h i) -> cbuild ks g = cbuild ks h.
Proof. intro H. unfold cbuild. apply map_ext_in. intros i Hi. rewrite (H i Hi). reflexivity. Qed.

Lemma qtrunc_inject_Z n : qtrunc (inject_Z n) = inject_Z n.
Proof. unfold qtrunc. simpl. rewrite Z.quot_1_r. reflexivity. Qed.

Lemma cast_inject_Z k n : cast_value k (inject_Z n) = inject_Z n.
Proof. destruct k; simpl; try apply qtrunc_inject_Z. reflexivity. Qed.

Lemma Qplus_inject_Z n m : (inject_Z n + inject_Z m)%Q = inject_Z (n + m).
Proof. unfold Qplus, inject_Z. simpl. rewrite !Z.mul_1_r. reflexivity. Qed.

Lemma Qminus_inject_Z n m : (inject_Z n - inject_Z m)%Q = inject_Z (n - m).
Proof. unfold Qminus, Qplus, Qopp, inject_Z. simpl. rewrite !Z.mul_1_r. reflexivity. Qed.

(* the counts constructor applied to a dict built over a strictly increasing key list *)
Lemma mk_count_cbuild k ks g bits lv nm : ssorted ks ->
  mk_count k (ckeys (cbuild ks g)) (cbuild ks g) bits lv nm =
  if existsb (fun i => bits <=? i) ks then Raises EBits
  else Ok (mkfp k bits lv ks (cbuild ks (fun i => cast_value k (g i))) nm).
Proof.
  intro Hs. unfold mk_count. rewrite ckeys_cbuild, (usort_id ks Hs).
  destruct (existsb _ ks); [reflexivity|]. rewrite forallb_zmem_self. simpl.
  f_equal. f_equal. apply cbuild_ext. intros i Hi. rewrite cget_cbuild.
  rewrite (proj2 (zmem_In i ks) Hi). reflexivity.
Qed.

(* ============================================================================================== *)
(* count + and -                                                                                    *)
Lemma count_binop_inv f a b r : count_binop f a b = Ok r ->
  is_count_like a = true /\ is_count_like b = true /\ fbits a = fbits b.
Proof.
  unfold count_binop. destruct (is_count_like a); simpl; [|discriminate].
  destruct (is_count_like b); simpl; [|discriminate].
  destruct (fbits a =? fbits b) eqn:E; simpl; [|discriminate]. apply Z.eqb_eq in E. auto.
Qed.

Lemma count_binop_eq f a b : is_count_like a = true -> is_count_like b = true -> fbits a = fbits b ->
  count_binop f a b =
  let ks := zunion (ckeys (fcnt a)) (ckeys (fcnt b)) in
  if existsb (fun i => fbits a <=? i) ks then Raises EBits
  else Ok (mkfp (result_kind a b) (fbits a) (merged_level a b) ks
                (cbuild ks (fun i => cast_value (result_kind a b) (f (cget (fcnt a) i) (cget (fcnt b) i)))) None).
Proof.
  intros Ha Hb E. unfold count_binop. rewrite Ha, Hb, (proj2 (Z.eqb_eq _ _) E). simpl.
  unfold cmap_pointwise. apply mk_count_cbuild. apply ssorted_zunion.
Qed.

(* pointwise specification for any binary function with cast (f 0 0) = 0 *)
Lemma count_binop_spec f a b r :
  (forall k, cast_value k (f 0%Q 0%Q) = 0%Q) ->
  count_binop f a b = Ok r ->
  fbits r = fbits a /\ fkind r = result_kind a b /\ flevel r = merged_level a b /\ fname r = None /\
  fidx r = zunion (ckeys (fcnt a)) (ckeys (fcnt b)) /\ ckeys (fcnt r) = fidx r /\
  (forall i, In i (fidx r) <-> In i (ckeys (fcnt a)) \/ In i (ckeys (fcnt b))) /\
  (forall i, cget (fcnt r) i = cast_value (fkind r) (f (cget (fcnt a) i) (cget (fcnt b) i))).
Proof.
  intros Hf H. destruct (count_binop_inv _ _ _ _ H) as (Ha & Hb & E).
  rewrite (count_binop_eq f a b Ha Hb E) in H. cbv zeta in H.
  destruct (existsb _ _); [discriminate|]. inversion H; subst; clear H. simpl.
  repeat split; try reflexivity.
  - apply ckeys_cbuild.
  - apply In_zunion.
  - apply In_zunion.
  - intro i. rewrite cget_cbuild. destruct (zmem i _) eqn:M; [reflexivity|].
    apply zmem_false in M. rewrite In_zunion in M.
    rewrite (cget_absent (fcnt a) i), (cget_absent (fcnt b) i) by tauto. symmetry. apply Hf.
Qed.

Lemma count_add_spec a b r : count_binop Qplus a b = Ok r ->
  fbits r = fbits a /\ fkind r = result_kind a b /\ flevel r = merged_level a b /\ fname r = None /\
  fidx r = zunion (ckeys (fcnt a)) (ckeys (fcnt b)) /\ ckeys (fcnt r) = fidx r /\
  (forall i, In i (fidx r) <-> In i (ckeys (fcnt a)) \/ In i (ckeys (fcnt b))) /\
  (forall i, cget (fcnt r) i = cast_value (fkind r) (cget (fcnt a) i + cget (fcnt b) i)%Q).
Proof. apply count_binop_spec. intros [| |]; reflexivity. Qed.

Lemma count_sub_spec a b r : count_binop Qminus a b = Ok r ->
  fbits r = fbits a /\ fkind r = result_kind a b /\ flevel r = merged_level a b /\ fname r = None /\
  fidx r = zunion (ckeys (fcnt a)) (ckeys (fcnt b)) /\ ckeys (fcnt r) = fidx r /\
  (forall i, In i (fidx r) <-> In i (ckeys (fcnt a)) \/ In i (ckeys (fcnt b))) /\
  (forall i, cget (fcnt r) i = cast_value (fkind r) (cget (fcnt a) i - cget (fcnt b) i)%Q).
Proof. apply count_binop_spec. intros [| |]; reflexivity. Qed.

(* integer-valued counts: no truncation takes place, the result is the integer sum / difference *)
Lemma count_add_int a b r i n m : count_binop Qplus a b = Ok r ->
  cget (fcnt a) i = inject_Z n -> cget (fcnt b) i = inject_Z m -> cget (fcnt r) i = inject_Z (n + m).
Proof.
  intros H Ha Hb. destruct (count_add_spec a b r H) as (_ & _ & _ & _ & _ & _ & _ & Hp).
  rewrite Hp, Ha, Hb, Qplus_inject_Z. apply cast_inject_Z.
Qed.

Lemma count_sub_int a b r i n m : count_binop Qminus a b = Ok r ->
  cget (fcnt a) i = inject_Z n -> cget (fcnt b) i = inject_Z m -> cget (fcnt r) i = inject_Z (n - m).
Proof.
  intros H Ha Hb. destruct (count_sub_spec a b r H) as (_ & _ & _ & _ & _ & _ & _ & Hp).
  rewrite Hp, Ha, Hb, Qminus_inject_Z. apply cast_inject_Z.
Qed.

(* totality and rejection *)
Definition wf_cnt (a : fp) : Prop := Forall (fun i => i < fbits a) (ckeys (fcnt a)).

Lemma count_binop_total f a b : is_count_like a = true -> is_count_like b = true -> fbits a = fbits b ->
  wf_cnt a -> wf_cnt b -> exists r, count_binop f a b = Ok r.
Proof.
  intros Ha Hb E Wa Wb. rewrite (count_binop_eq f a b Ha Hb E). cbv zeta.
  assert (X : existsb (fun i => fbits a <=? i) (zunion (ckeys (fcnt a)) (ckeys (fcnt b))) = false).
  { apply existsb_false_Forall. apply Forall_forall. intros x Hx. apply In_zunion in Hx.
    unfold wf_cnt in *. rewrite Forall_forall in Wa, Wb. destruct Hx as [Hx|Hx]; [apply Wa | rewrite E; apply Wb]; exact Hx. }
  rewrite X. eexists. reflexivity.
Qed.

Lemma count_bits_mismatch_rejected f a b : is_count_like a = true -> is_count_like b = true ->
  fbits a <> fbits b -> count_binop f a b = Raises EBits.
Proof.
  intros Ha Hb E. unfold count_binop. rewrite Ha, Hb. simpl. apply Z.eqb_neq in E. rewrite E. reflexivity.
Qed.

Lemma count_with_bit_rejected f a b : is_count_like a = true -> fkind b = KBit -> count_binop f a b = Raises EInvalidFp.
Proof. intros Ha Hb. unfold count_binop, is_count_like in *. rewrite Hb. destruct (fkind a); try discriminate; reflexivity. Qed.

Lemma fp_add_count a b : is_count_like a = true -> fp_add a b = count_binop Qplus a b.
Proof. unfold fp_add, is_count_like. destruct (fkind a); [discriminate| |]; reflexivity. Qed.
Lemma fp_sub_count a b : is_count_like a = true -> fp_sub a b = count_binop Qminus a b.
Proof. unfold fp_sub, is_count_like. destruct (fkind a); [discriminate| |]; reflexivity. Qed.

(* ============================================================================================== *)
(* scalar * / //                                                                                    *)
Lemma ckeys_map_val (h : Q -> Q) (m : cmap) : ckeys (map (fun kv => (fst kv, h (snd kv))) m) = ckeys m.
Proof. unfold ckeys. rewrite map_map. reflexivity. Qed.

Lemma cget_map_val (h : Q -> Q) (m : cmap) i :
  cget (map (fun kv => (fst kv, h (snd kv))) m) i = if zmem i (ckeys m) then h (cget m i) else 0%Q.
Proof.
  induction m as [|[k v] m IH]; simpl; [reflexivity|].
  destruct (i =? k); simpl; [reflexivity | exact IH].
Qed.

Lemma from_fingerprint_count_ok k a cf : k <> KBit -> from_fingerprint k a = Ok cf ->
  fkind cf = k /\ fbits cf = fbits a /\ flevel cf = flevel a /\ fname cf = fname a /\
  fidx cf = usort (ckeys (filter (fun kv => negb (Qle_bool (snd kv) 0)) (counts_of a))).
Proof.
  intros Hk. unfold from_fingerprint. destruct k; [congruence| |]; unfold mk_from_counts;
  destruct (existsb _ _); try discriminate; intro H; inversion H; subst; simpl; repeat split.
Qed.

(* shape of the three scalar results *)
Lemma scalar_shape k a cf c :
  from_fingerprint k a = Ok cf -> k <> KBit ->
  let r := set_counts k cf c in
  fkind r = k /\ fbits r = fbits a /\ flevel r = flevel a /\ fname r = fname a /\
  ckeys (fcnt r) = ckeys c /\ forall i, cget (fcnt r) i = if zmem i (ckeys c) then cast_value k (cget c i) else 0%Q.
Proof.
  intros H Hk r. destruct (from_fingerprint_count_ok k a cf Hk H) as (K & B & L & N & _).
  unfold r, set_counts; simpl. repeat split; try assumption.
  - apply ckeys_cbuild.
  - intro i. apply cget_cbuild.
Qed.

Lemma is_count_like_not_bit a : is_count_like a = true -> fkind a <> KBit.
Proof. unfold is_count_like. destruct (fkind a); congruence. Qed.

Lemma mul_spec a x r : is_count_like a = true -> fp_mul a x = Ok r ->
  fkind r = fkind a /\ fbits r = fbits a /\ flevel r = flevel a /\ fname r = fname a /\
  ckeys (fcnt r) = ckeys (fcnt a) /\
  (forall i, In i (ckeys (fcnt a)) -> cget (fcnt r) i = cast_value (fkind a) (cget (fcnt a) i * x)%Q) /\
  (forall i, cget (fcnt r) i == cast_value (fkind a) (cget (fcnt a) i * x)%Q).
Proof.
  intros Hc. unfold fp_mul. destruct (from_fingerprint (fkind a) a) as [cf|e] eqn:F; simpl; [|discriminate].
  intro H. inversion H; subst; clear H.
  destruct (scalar_shape (fkind a) a cf (map (fun kv => (fst kv, (snd kv * x)%Q)) (fcnt a)) F (is_count_like_not_bit a Hc))
    as (K & B & L & N & Ks & P).
  rewrite (ckeys_map_val (fun v => (v * x)%Q)) in Ks, P.
  repeat split; try assumption.
  - intros i Hi. rewrite P, (cget_map_val (fun v => (v * x)%Q)). rewrite (proj2 (zmem_In _ _) Hi). reflexivity.
  - intro i. rewrite P, (cget_map_val (fun v => (v * x)%Q)). destruct (zmem i (ckeys (fcnt a))) eqn:M; [reflexivity|].
    apply zmem_false in M. rewrite (cget_absent _ _ M).
    destruct (fkind a); simpl; destruct x; reflexivity.
Qed.

Lemma div_spec a x r : is_count_like a = true -> fp_div a x = Ok r ->
  (x == 0 -> fcnt a = []) /\ fkind r = KFloat /\ fbits r = fbits a /\ flevel r = flevel a /\ fname r = fname a /\
  ckeys (fcnt r) = ckeys (fcnt a) /\
  (forall i, In i (ckeys (fcnt a)) -> cget (fcnt r) i = (cget (fcnt a) i / x)%Q) /\
  (forall i, cget (fcnt r) i == (cget (fcnt a) i / x)%Q).
Proof.
  intros Hc. unfold fp_div.
  destruct (from_fingerprint KFloat a) as [cf|e] eqn:F; cbn [rbind]; [|discriminate].
  destruct (Qeq_bool x 0 && _) eqn:X; [discriminate|].
  intro H. inversion H; subst; clear H.
  assert (NB : KFloat <> KBit) by discriminate.
  destruct (scalar_shape KFloat a cf (map (fun kv => (fst kv, (snd kv / x)%Q)) (fcnt a)) F NB) as (K & B & L & N & Ks & P).
  rewrite (ckeys_map_val (fun v => (v / x)%Q)) in Ks, P.
  split.
  { intro Hx. apply Qeq_bool_iff in Hx. rewrite Hx in X. simpl in X. destruct (fcnt a); [reflexivity | discriminate]. }
  repeat split; try assumption.
  - intros i Hi. rewrite P, (cget_map_val (fun v => (v / x)%Q)). rewrite (proj2 (zmem_In _ _) Hi). reflexivity.
  - intro i. rewrite P, (cget_map_val (fun v => (v / x)%Q)). destruct (zmem i (ckeys (fcnt a))) eqn:M; [reflexivity|].
    apply zmem_false in M. rewrite (cget_absent _ _ M). simpl. unfold Qdiv. rewrite Qmult_0_l. reflexivity.
Qed.

(* division by zero raises (ZeroDivisionError) as soon as there is a count to divide; an empty fingerprint is returned as is *)
Lemma div_by_zero a x cf : from_fingerprint KFloat a = Ok cf -> x == 0 ->
  fp_div a x = if match fcnt a with [] => true | _ => false end
               then Ok (set_counts KFloat cf []) else Raises EOther.
Proof.
  intros F Hx. unfold fp_div. rewrite F. cbn [rbind]. apply Qeq_bool_iff in Hx. rewrite Hx. simpl.
  destruct (fcnt a); reflexivity.
Qed.

(* ---- floor division: positions whose count is below the divisor are dropped ---------------------- *)
Lemma cget_In_first m i : In i (ckeys m) -> In (i, cget m i) m.
Proof.
  induction m as [|[k v] m IH]; simpl; [tauto|]. intro H.
  destruct (i =? k) eqn:E.
  - apply Z.eqb_eq in E. subst. left. reflexivity.
  - right. apply IH. destruct H as [H|H]; [apply Z.eqb_neq in E; congruence | exact H].
Qed.

Lemma cget_NoDup_In m i v : NoDup (ckeys m) -> In (i, v) m -> cget m i = v.
Proof.
  induction m as [|[k w] m IH]; simpl; intros ND H1; [tauto|]. inversion ND as [|? ? Hn ND']; subst.
  destruct H1 as [H1|H1].
  - inversion H1; subst. rewrite Z.eqb_refl. reflexivity.
  - destruct (i =? k) eqn:E; [|apply IH; assumption].
    apply Z.eqb_eq in E. subst. exfalso. apply Hn. unfold ckeys. apply in_map_iff. exists (k, v). tauto.
Qed.

Lemma ckeys_filter_sub (p : Z * Q -> bool) m i : In i (ckeys (filter p m)) -> In i (ckeys m).
Proof.
  unfold ckeys. rewrite !in_map_iff. intros [kv [E H]]. apply filter_In in H. exists kv. tauto.
Qed.

Lemma cget_filter_val (q : Q -> bool) m i : NoDup (ckeys m) ->
  cget (filter (fun kv => q (snd kv)) m) i = if zmem i (ckeys m) && q (cget m i) then cget m i else 0%Q.
Proof.
  induction m as [|[k v] m IH]; simpl; intro ND; [reflexivity|].
  inversion ND as [|? ? Hk ND']; subst. specialize (IH ND').
  destruct (i =? k) eqn:E; simpl.
  - apply Z.eqb_eq in E. subst i. destruct (q v) eqn:Qv; simpl.
    + rewrite Z.eqb_refl. reflexivity.
    + apply cget_absent. intro H. apply Hk. eapply ckeys_filter_sub. exact H.
  - destruct (q v); simpl; [rewrite E|]; exact IH.
Qed.

Lemma In_ckeys_filter_val (q : Q -> bool) m i :
  In i (ckeys (filter (fun kv => q (snd kv)) m)) <-> exists v, In (i, v) m /\ q v = true.
Proof.
  unfold ckeys. rewrite in_map_iff. split.
  - intros [[k v] [E H]]. simpl in E. subst k. apply filter_In in H. simpl in H. exists v. exact H.
  - intros [v [H Q]]. exists (i, v). split; [reflexivity|]. apply filter_In. simpl. tauto.
Qed.

Lemma floordiv_spec a x r : is_count_like a = true -> fp_floordiv a x = Ok r ->
  (x == 0 -> fidx r = []) /\ fkind r = KCount /\ fbits r = fbits a /\ flevel r = flevel a /\ fname r = fname a /\
  (* kept positions: exactly those holding a count v with x <= v; indices and count keys agree *)
  (forall i, In i (fidx r) <-> exists v, In (i, v) (fcnt a) /\ (x <= v)%Q) /\
  (forall i, In i (ckeys (fcnt r)) <-> In i (fidx r)) /\ ssorted (fidx r) /\
  (* values: truncated quotient where kept, 0 (absent) where dropped *)
  (NoDup (ckeys (fcnt a)) -> forall i,
     cget (fcnt r) i = if zmem i (ckeys (fcnt a)) && Qle_bool x (cget (fcnt a) i)
                       then qtrunc (cget (fcnt a) i / x)%Q else 0%Q).
Proof.
  intros Hc. unfold fp_floordiv.
  destruct (from_fingerprint KCount a) as [cf|e] eqn:F; cbn [rbind]; [|discriminate]. cbv zeta.
  set (kept := filter (fun kv => Qle_bool x (snd kv)) (fcnt a)).
  destruct (Qeq_bool x 0 && _) eqn:X; [discriminate|].
  intro H. inversion H; subst; clear H. simpl.
  assert (NB : KCount <> KBit) by discriminate.
  destruct (from_fingerprint_count_ok KCount a cf NB F) as (K & B & L & N & _).
  rewrite !ckeys_cbuild, !(ckeys_map_val (fun v => (v / x)%Q)).
  split.
  { intro Hx. apply Qeq_bool_iff in Hx. rewrite Hx in X. simpl in X. destruct kept; [reflexivity | discriminate]. }
  repeat split; try assumption.
  - rewrite In_usort. intro Hi. apply (In_ckeys_filter_val (Qle_bool x)) in Hi.
    destruct Hi as [v [H1 H2]]. exists v. split; [exact H1 | apply Qle_bool_iff; exact H2].
  - intros [v [H1 H2]]. rewrite In_usort. apply (In_ckeys_filter_val (Qle_bool x)). exists v.
    split; [exact H1 | apply Qle_bool_iff; exact H2].
  - rewrite In_usort. tauto.
  - rewrite In_usort. tauto.
  - apply ssorted_usort.
  - intros ND i. rewrite cget_cbuild, (cget_map_val (fun v => (v / x)%Q)).
    destruct (zmem i (ckeys kept)) eqn:M.
    + apply zmem_In in M. apply (In_ckeys_filter_val (Qle_bool x)) in M. destruct M as [v [H1 H2]].
      unfold kept. rewrite (cget_filter_val (Qle_bool x) (fcnt a) i ND).
      assert (Hk : In i (ckeys (fcnt a))). { unfold ckeys. apply in_map_iff. exists (i, v). tauto. }
      assert (Hv : cget (fcnt a) i = v) by (apply cget_NoDup_In; assumption).
      rewrite (proj2 (zmem_In _ _) Hk), Hv, H2. reflexivity.
    + apply zmem_false in M. unfold kept in M.
      destruct (zmem i (ckeys (fcnt a)) && Qle_bool x (cget (fcnt a) i)) eqn:C; [|reflexivity].
      exfalso. apply M. apply andb_true_iff in C. destruct C as [C1 C2]. apply zmem_In in C1.
      apply (In_ckeys_filter_val (Qle_bool x)). exists (cget (fcnt a) i). split; [apply cget_In_first; exact C1 | exact C2].
Qed.

(* floor division by zero raises (ZeroDivisionError) iff some count is >= 0 *)
Lemma floordiv_by_zero a x cf v i : from_fingerprint KCount a = Ok cf -> x == 0 -> In (i, v) (fcnt a) -> (0 <= v)%Q ->
  fp_floordiv a x = Raises EOther.
Proof.
  intros F Hx Hin Hv. unfold fp_floordiv. rewrite F. cbn [rbind]. cbv zeta.
  pose proof (proj2 (Qeq_bool_iff _ _) Hx) as Hb. rewrite Hb. simpl.
  destruct (filter (fun kv => Qle_bool x (snd kv)) (fcnt a)) eqn:E; [|reflexivity].
  exfalso. assert (In (i, v) (filter (fun kv => Qle_bool x (snd kv)) (fcnt a))).
  { apply filter_In. split; [exact Hin|]. simpl. apply Qle_bool_iff. rewrite Hx. exact Hv. }
  rewrite E in H. exact H.
Qed.

(* the two readings of "dropped iff v < x" for a dict with distinct keys *)
Lemma floordiv_kept a x r i : is_count_like a = true -> NoDup (ckeys (fcnt a)) -> fp_floordiv a x = Ok r ->
  In i (ckeys (fcnt a)) -> (x <= cget (fcnt a) i)%Q ->
  In i (fidx r) /\ cget (fcnt r) i = qtrunc (cget (fcnt a) i / x)%Q.
Proof.
  intros Hc ND H Hi Hx. destruct (floordiv_spec a x r Hc H) as (_ & _ & _ & _ & _ & Hk & _ & _ & Hv). split.
  - apply Hk. exists (cget (fcnt a) i). split; [apply cget_In_first; exact Hi | exact Hx].
  - rewrite (Hv ND i), (proj2 (zmem_In _ _) Hi), (proj2 (Qle_bool_iff _ _) Hx). reflexivity.
Qed.

Lemma floordiv_dropped a x r i : is_count_like a = true -> NoDup (ckeys (fcnt a)) -> fp_floordiv a x = Ok r ->
  (cget (fcnt a) i < x)%Q -> ~ In i (fidx r) /\ cget (fcnt r) i = 0%Q.
Proof.
  intros Hc ND H Hx. destruct (floordiv_spec a x r Hc H) as (_ & _ & _ & _ & _ & Hk & _ & _ & Hv).
  assert (Q : Qle_bool x (cget (fcnt a) i) = false).
  { destruct (Qle_bool x (cget (fcnt a) i)) eqn:E; [|reflexivity]. apply Qle_bool_iff in E.
    exfalso. apply (Qlt_not_le _ _ Hx). exact E. }
  split.
  - intro Hi. apply Hk in Hi. destruct Hi as [v [H1 H2]].
    assert (Hin : In i (ckeys (fcnt a))). { unfold ckeys. apply in_map_iff. exists (i, v). tauto. }
    assert (cget (fcnt a) i = v) by (apply cget_NoDup_In; assumption).
    subst v. apply (Qlt_not_le _ _ Hx). exact H2.
  - rewrite (Hv ND i), Q, andb_false_r. reflexivity.
Qed.

(* ============================================================================================== *)
(* batch sum and mean                                                                               *)
(* the plain position-wise sum over the batch *)
Definition csum (l : list fp) (i : Z) : Q := qsum (map (fun a => cget (counts_of a) i) l).

(* wsum is literally the sum of count * weight over the paired members *)
Lemma wsum_combine l w i :
  wsum l w i = qsum (map (fun aw => (cget (counts_of (fst aw)) i * snd aw)%Q) (combine l w)).
Proof.
  revert w. induction l as [|a l IH]; intros [|x w]; simpl; try reflexivity. rewrite IH. reflexivity.
Qed.

Lemma wsum_ones l i : wsum l (ones (length l)) i == csum l i.
Proof.
  unfold csum. induction l as [|a l IH]; simpl; [reflexivity|]. unfold ones in IH. rewrite IH, Qmult_1_r. reflexivity.
Qed.

Lemma In_all_keys l i : In i (all_keys l) <-> exists a, In a l /\ In i (ckeys (counts_of a)).
Proof.
  unfold all_keys. rewrite In_usort, in_concat. split.
  - intros [ks [H1 H2]]. apply in_map_iff in H1. destruct H1 as [a [E Ha]]. subst. eauto.
  - intros [a [Ha Hi]]. exists (ckeys (counts_of a)). split; [apply in_map_iff; eauto | exact Hi].
Qed.

Lemma wsum_ones_absent l i : ~ In i (all_keys l) -> wsum l (ones (length l)) i = 0%Q.
Proof.
  rewrite In_all_keys. induction l as [|a l IH]; simpl; intro H; [reflexivity|].
  unfold ones in IH. rewrite IH, (cget_absent (counts_of a) i).
  - reflexivity.
  - intro Hi. apply H. exists a. auto.
  - intros [b [Hb Hi]]. apply H. exists b. auto.
Qed.

Lemma wsum_absent l w i : ~ In i (all_keys l) -> wsum l w i == 0.
Proof.
  rewrite In_all_keys. revert w. induction l as [|a l IH]; intros [|x w] H; simpl; try reflexivity.
  rewrite IH, (cget_absent (counts_of a) i).
  - rewrite Qmult_0_l. reflexivity.
  - intro Hi. apply H. exists a. simpl. auto.
  - intros [b [Hb Hi]]. apply H. exists b. simpl. auto.
Qed.

Definition batch_kind (l : list fp) : kind := if any_float l then KFloat else KCount.

Lemma batch_add_unweighted_eq a0 l' : let l := a0 :: l' in batch_bits_ok l = true ->
  batch_add l None =
  if existsb (fun i => fbits a0 <=? i) (all_keys l) then Raises EBits
  else Ok (Some (mkfp (batch_kind l) (fbits a0) (flevel a0) (all_keys l)
                   (cbuild (all_keys l) (fun i => cast_value (batch_kind l) (wsum l (ones (length l)) i))) None)).
Proof.
  intros l Hb. unfold batch_add, l. cbv iota. fold l. fold (batch_kind l). rewrite Hb. cbn [negb].
  rewrite (mk_count_cbuild (batch_kind l) (all_keys l) (wsum l (ones (length l))) (fbits a0) (flevel a0) None (ssorted_usort _)).
  destruct (existsb _ _); reflexivity.
Qed.

Lemma batch_add_weighted_eq a0 l' ws : let l := a0 :: l' in batch_bits_ok l = true -> length ws = length l ->
  batch_add l (Some ws) =
  if existsb (fun i => fbits a0 <=? i) (all_keys l) then Raises EBits
  else Ok (Some (mkfp KFloat (fbits a0) (flevel a0) (all_keys l) (cbuild (all_keys l) (wsum l ws)) None)).
Proof.
  intros l Hb E. unfold batch_add, l. cbv iota. fold l. rewrite Hb, E, Nat.eqb_refl. simpl negb. cbv iota.
  rewrite (mk_count_cbuild KFloat (all_keys l) (wsum l ws) (fbits a0) (flevel a0) None (ssorted_usort _)).
  destruct (existsb _ _); reflexivity.
Qed.

(* the length check that precedes everything else *)
Lemma batch_bits_ok_spec a0 l' : batch_bits_ok (a0 :: l') = true <-> forall a, In a (a0 :: l') -> fbits a = fbits a0.
Proof.
  unfold batch_bits_ok. rewrite forallb_forall. split; intros H a Ha; [apply Z.eqb_eq | apply Z.eqb_eq]; apply H; exact Ha.
Qed.

Lemma batch_add_ok_bits l w r : batch_add l w = Ok r -> batch_bits_ok l = true.
Proof.
  destruct l as [|a0 l']; [reflexivity|]. unfold batch_add. destruct (batch_bits_ok (a0 :: l')); [reflexivity | discriminate].
Qed.

Lemma batch_bits_mismatch_add l w a : l <> [] -> In a l -> fbits a <> fbits (hd a l) -> batch_add l w = Raises EBits.
Proof.
  destruct l as [|a0 l']; [congruence|]. intros _ Ha Hne. simpl hd in Hne. unfold batch_add.
  destruct (batch_bits_ok (a0 :: l')) eqn:E; [|reflexivity].
  exfalso. apply Hne. apply (proj1 (batch_bits_ok_spec a0 l') E a Ha).
Qed.

(* unweighted sum: every position holds the (cast of the) sum over the batch; keys = union of the members' keys *)
Lemma batch_add_spec l r : batch_add l None = Ok (Some r) ->
  (exists a0 l', l = a0 :: l' /\ fbits r = fbits a0 /\ flevel r = flevel a0) /\ (forall a, In a l -> fbits a = fbits r) /\
  fkind r = batch_kind l /\ fname r = None /\
  fidx r = all_keys l /\ ckeys (fcnt r) = fidx r /\
  (forall i, In i (fidx r) <-> exists a, In a l /\ In i (ckeys (counts_of a))) /\
  (forall i, cget (fcnt r) i = cast_value (fkind r) (wsum l (ones (length l)) i)).
Proof.
  destruct l as [|a0 l']; [discriminate|]. intro H. pose proof (batch_add_ok_bits _ _ _ H) as Hb.
  rewrite (batch_add_unweighted_eq a0 l' Hb) in H. cbv zeta in H.
  destruct (existsb _ _); [discriminate|]. inversion H; subst; clear H. simpl fkind; simpl fname; simpl fidx; simpl fcnt; simpl fbits; simpl flevel.
  split; [exists a0, l'; auto|]. split; [exact (proj1 (batch_bits_ok_spec a0 l') Hb)|]. repeat split; try reflexivity.
  - apply ckeys_cbuild.
  - apply In_all_keys.
  - apply In_all_keys.
  - intro i. rewrite cget_cbuild. destruct (zmem i _) eqn:M; [reflexivity|].
    apply zmem_false in M. rewrite (wsum_ones_absent _ _ M). destruct (batch_kind (a0 :: l')); reflexivity.
Qed.

(* integer-valued members (bit fingerprints, count fingerprints): the sum is not affected by the int() cast *)
Definition int_counts (a : fp) : Prop := forall i, exists n, cget (counts_of a) i = inject_Z n.

Lemma wsum_ones_int l i : (forall a, In a l -> int_counts a) -> exists n, wsum l (ones (length l)) i = inject_Z n.
Proof.
  induction l as [|a l IH]; simpl; intro H.
  - exists 0. reflexivity.
  - destruct IH as [m Hm]; [intros b Hb; apply H; auto|]. destruct (H a (or_introl eq_refl) i) as [n Hn].
    exists (n + m). unfold ones in Hm. rewrite Hm, Hn. unfold Qplus, Qmult, inject_Z. simpl. rewrite !Z.mul_1_r. reflexivity.
Qed.

Lemma bit_int_counts a : fkind a = KBit -> int_counts a.
Proof.
  intros K i. unfold counts_of, bit_counts. rewrite K, cget_cbuild. destruct (zmem i (fidx a)); [exists 1 | exists 0]; reflexivity.
Qed.

Lemma batch_add_sum l r : batch_add l None = Ok (Some r) ->
  (any_float l = true \/ forall a, In a l -> int_counts a) ->
  forall i, cget (fcnt r) i == csum l i.
Proof.
  intros H C i. destruct (batch_add_spec l r H) as (_ & _ & K & _ & _ & _ & _ & P). rewrite P, K.
  destruct C as [C|C].
  - unfold batch_kind. rewrite C. simpl. apply wsum_ones.
  - destruct (wsum_ones_int l i C) as [n Hn]. rewrite <- (wsum_ones l i), Hn, cast_inject_Z. reflexivity.
Qed.

(* weighted sum *)
Lemma batch_add_weighted_spec l ws r : batch_add l (Some ws) = Ok (Some r) ->
  length ws = length l /\
  (exists a0 l', l = a0 :: l' /\ fbits r = fbits a0 /\ flevel r = flevel a0) /\ (forall a, In a l -> fbits a = fbits r) /\
  fkind r = KFloat /\ fname r = None /\ fidx r = all_keys l /\ ckeys (fcnt r) = fidx r /\
  (forall i, In i (fidx r) <-> exists a, In a l /\ In i (ckeys (counts_of a))) /\
  (forall i, In i (fidx r) -> cget (fcnt r) i = wsum l ws i) /\
  (forall i, cget (fcnt r) i == wsum l ws i).
Proof.
  destruct l as [|a0 l']; [discriminate|]. intro H. pose proof (batch_add_ok_bits _ _ _ H) as Hb.
  assert (E : length ws = length (a0 :: l')).
  { unfold batch_add in H. rewrite Hb in H. cbn [negb] in H.
    destruct (Nat.eqb (length ws) (length (a0 :: l'))) eqn:E; [|discriminate]. apply Nat.eqb_eq. exact E. }
  rewrite (batch_add_weighted_eq a0 l' ws Hb E) in H. cbv zeta in H.
  destruct (existsb _ _); [discriminate|]. inversion H; subst; clear H.
  simpl fkind; simpl fname; simpl fidx; simpl fcnt; simpl fbits; simpl flevel.
  split; [exact E|]. split; [exists a0, l'; auto|]. split; [exact (proj1 (batch_bits_ok_spec a0 l') Hb)|]. repeat split; try reflexivity.
  - apply ckeys_cbuild.
  - apply In_all_keys.
  - apply In_all_keys.
  - intros i Hi. rewrite cget_cbuild, (proj2 (zmem_In _ _) Hi). reflexivity.
  - intro i. rewrite cget_cbuild. destruct (zmem i _) eqn:M; [reflexivity|].
    apply zmem_false in M. rewrite (wsum_absent _ ws _ M). reflexivity.
Qed.

(* weighted mean: the weights are normalised by their sum *)
Lemma wsum_scale l ws s i : ~ s == 0 -> wsum l (map (fun x => (x / s)%Q) ws) i == (wsum l ws i / s)%Q.
Proof.
  intro Hs. revert ws. induction l as [|a l IH]; intros [|x ws]; simpl; try (unfold Qdiv; rewrite Qmult_0_l; reflexivity).
  rewrite IH. field. exact Hs.
Qed.

Lemma batch_mean_weighted_spec l ws r : batch_mean l (Some ws) = Ok (Some r) ->
  ~ qsum ws == 0 /\ length ws = length l /\ fkind r = KFloat /\ fidx r = all_keys l /\ ckeys (fcnt r) = fidx r /\
  (exists a0 l', l = a0 :: l' /\ fbits r = fbits a0 /\ flevel r = flevel a0) /\
  (forall i, cget (fcnt r) i == (wsum l ws i / qsum ws)%Q).
Proof.
  unfold batch_mean. destruct (Qeq_bool (qsum ws) 0) eqn:S; [discriminate|]. intro H.
  apply Qeq_bool_neq in S.
  destruct (batch_add_weighted_spec _ _ _ H) as (E & Hd & _ & K & _ & I & Ck & _ & _ & P).
  rewrite map_length in E. repeat split; try assumption.
  intro i. rewrite P. apply wsum_scale. exact S.
Qed.

(* unweighted mean = sum / n *)
Lemma batch_mean_spec l r : batch_mean l None = Ok (Some r) ->
  l <> [] /\ fkind r = KFloat /\ ckeys (fcnt r) = all_keys l /\
  (exists a0 l', l = a0 :: l' /\ fbits r = fbits a0 /\ flevel r = flevel a0) /\
  (forall i, cget (fcnt r) i ==
             (cast_value (batch_kind l) (wsum l (ones (length l)) i) / inject_Z (Z.of_nat (length l)))%Q).
Proof.
  unfold batch_mean. destruct l as [|a0 l']; [discriminate|]. set (l := a0 :: l').
  destruct (batch_add l None) as [[s|]|e] eqn:A; cbn [rbind]; try discriminate.
  destruct (fp_div s (inject_Z (Z.of_nat (length l)))) as [m|e] eqn:D; cbn [rbind]; [|discriminate].
  intro H. inversion H; subst; clear H.
  destruct (batch_add_spec l s A) as (Hd & _ & K & _ & I & Ck & _ & P).
  assert (Hc : is_count_like s = true). { unfold is_count_like. rewrite K. unfold batch_kind. destruct (any_float l); reflexivity. }
  destruct (div_spec s _ r Hc D) as (_ & K' & B' & L' & _ & Ck' & _ & P').
  split; [discriminate|]. split; [exact K'|]. split; [congruence|]. split.
  - destruct Hd as (b0 & bl & E & Hb & Hl). exists b0, bl. split; [exact E|]. split; congruence.
  - intro i. rewrite P', P, K. reflexivity.
Qed.

Lemma batch_mean_is_sum_over_n l r : batch_mean l None = Ok (Some r) ->
  (any_float l = true \/ forall a, In a l -> int_counts a) ->
  forall i, cget (fcnt r) i == (csum l i / inject_Z (Z.of_nat (length l)))%Q.
Proof.
  intros H C i. destruct (batch_mean_spec l r H) as (_ & _ & _ & _ & P). rewrite P.
  destruct C as [C|C].
  - unfold batch_kind. rewrite C. simpl. rewrite wsum_ones. reflexivity.
  - destruct (wsum_ones_int l i C) as [n Hn]. rewrite <- (wsum_ones l i), Hn, cast_inject_Z. reflexivity.
Qed.

Lemma batch_empty : batch_add [] None = Ok None /\ batch_mean [] None = Raises EType.
Proof. split; reflexivity. Qed.

Lemma batch_weights_length_rejected l ws : l <> [] -> batch_bits_ok l = true -> length ws <> length l ->
  batch_add l (Some ws) = Raises EValue.
Proof.
  intros Hl Hb H. destruct l as [|a l]; [congruence|]. unfold batch_add. rewrite Hb. apply Nat.eqb_neq in H. rewrite H. reflexivity.
Qed.

(* members of different lengths: rejected by the sum (weighted or not) and by the mean (a zero weight sum is reported first) *)
Lemma batch_bits_mismatch_rejected l a : l <> [] -> In a l -> fbits a <> fbits (hd a l) ->
  (forall w, batch_add l w = Raises EBits) /\ batch_mean l None = Raises EBits /\
  (forall ws, ~ qsum ws == 0 -> batch_mean l (Some ws) = Raises EBits).
Proof.
  intros Hl Ha Hne. split; [|split].
  - intro w. apply (batch_bits_mismatch_add l w a Hl Ha Hne).
  - unfold batch_mean. destruct l as [|a0 l']; [congruence|]. rewrite (batch_bits_mismatch_add _ None a Hl Ha Hne). reflexivity.
  - intros ws Hs. unfold batch_mean. destruct (Qeq_bool (qsum ws) 0) eqn:E; [apply Qeq_bool_iff in E; contradiction|].
    apply (batch_bits_mismatch_add l _ a Hl Ha Hne).
Qed.

Lemma batch_mean_zero_weights_rejected l ws : qsum ws == 0 -> batch_mean l (Some ws) = Raises EValue.
Proof. intro H. unfold batch_mean. apply Qeq_bool_iff in H. rewrite H. reflexivity. Qed.

(* ---- bundled forms used by Properties/C11.v ------------------------------------------------------ *)
Lemma add_dispatch_bit a b : fkind a = KBit -> fp_add a b = fp_or a b /\ fp_sub a b = fp_bit_sub a b.
Proof. intro H. split; [exact (fp_add_bit_is_or a b H) | exact (fp_sub_bit_is_diff a b H)]. Qed.

Lemma reflected_forms_equal_plain a b :
  fp_or b a = fp_or a b /\ fp_and b a = fp_and a b /\ fp_xor b a = fp_xor a b /\ fp_bit_add b a = fp_bit_add a b.
Proof. repeat split; [apply or_comm | apply and_comm | apply xor_comm | apply bit_add_comm]. Qed.

Lemma add_dispatch_count a b : is_count_like a = true ->
  fp_add a b = count_binop Qplus a b /\ fp_sub a b = count_binop Qminus a b.
Proof. intro H. split; [exact (fp_add_count a b H) | exact (fp_sub_count a b H)]. Qed.

Lemma batch_rejections :
  (batch_add [] None = Ok None /\ batch_mean [] None = Raises EType) /\
  (forall l ws, l <> [] -> batch_bits_ok l = true -> length ws <> length l -> batch_add l (Some ws) = Raises EValue) /\
  (forall l ws, qsum ws == 0 -> batch_mean l (Some ws) = Raises EValue).
Proof. split; [exact batch_empty|]. split; [exact batch_weights_length_rejected | exact batch_mean_zero_weights_rejected]. Qed.
