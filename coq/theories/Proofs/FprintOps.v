(* Lemmas about the operator part of Model/Fprint.v (used by Properties/C11.v). *)
From Coq Require Import QArith.
From E3FP Require Import Base.Prelude Base.ZSet Model.Fprint.
Open Scope Z_scope.

Lemma mk_bit_ok idx bits lv nm r :
  mk_bit idx bits lv nm = Ok r ->
  fkind r = KBit /\ fbits r = bits /\ flevel r = lv /\ fidx r = usort idx /\ fname r = nm.
Proof.
  unfold mk_bit. destruct (existsb _ idx); intro H; [discriminate|].
  inversion H; subst; simpl. repeat split.
Qed.

Lemma bit_binop_ok op a b r :
  bit_binop op a b = Ok r ->
  fbits a = fbits b /\ fkind r = KBit /\ fbits r = fbits a /\ fidx r = usort (op (fidx a) (fidx b)).
Proof.
  unfold bit_binop. destruct (fbits a =? fbits b) eqn:E; simpl; [|discriminate].
  apply Z.eqb_eq in E. intro H. apply mk_bit_ok in H. intuition.
Qed.

Lemma bit_binop_mismatch op a b : fbits a <> fbits b -> bit_binop op a b = Raises EBits.
Proof. intro H. unfold bit_binop. apply Z.eqb_neq in H. rewrite H. reflexivity. Qed.

Lemma or_spec a b r :
  fp_or a b = Ok r -> fbits r = fbits a /\ forall i, In i (fidx r) <-> In i (fidx a) \/ In i (fidx b).
Proof.
  intro H. apply bit_binop_ok in H. destruct H as (_ & _ & Hb & Hi). split; [exact Hb|].
  intro i. rewrite Hi, In_usort. apply In_zunion.
Qed.

Lemma and_spec a b r :
  fp_and a b = Ok r -> fbits r = fbits a /\ forall i, In i (fidx r) <-> In i (fidx a) /\ In i (fidx b).
Proof.
  intro H. apply bit_binop_ok in H. destruct H as (_ & _ & Hb & Hi). split; [exact Hb|].
  intro i. rewrite Hi, In_usort. apply In_zinter.
Qed.

Lemma bit_sub_spec a b r :
  fp_bit_sub a b = Ok r -> fbits r = fbits a /\ forall i, In i (fidx r) <-> In i (fidx a) /\ ~ In i (fidx b).
Proof.
  intro H. apply bit_binop_ok in H. destruct H as (_ & _ & Hb & Hi). split; [exact Hb|].
  intro i. rewrite Hi, In_usort. apply In_zdiff.
Qed.

Lemma xor_spec a b r :
  fp_xor a b = Ok r ->
  fbits r = fbits a /\ forall i, In i (fidx r) <-> (In i (fidx a) /\ ~ In i (fidx b)) \/ (In i (fidx b) /\ ~ In i (fidx a)).
Proof.
  intro H. apply bit_binop_ok in H. destruct H as (_ & _ & Hb & Hi). split; [exact Hb|].
  intro i. rewrite Hi, In_usort. apply In_zxor.
Qed.
