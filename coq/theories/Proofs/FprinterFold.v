(* C07, fingerprinter route: asking the fingerprinter for b bits = folding its 2^32-bit fingerprint to b. *)
From Coq Require Import QArith.
From E3FP Require Import Base.Prelude Base.ZSet Base.Murmur3 Model.Geometry Model.Stereo Model.Fprint Model.E3FP Gen.Constants
  Proofs.FprintFold.
Open Scope Z_scope.

(* the unfolded fingerprint the fingerprinter builds before folding *)
Definition unfolded_fp (o : opts) (counts : bool) (st : state) (req : option Z) (mask : list Z) : result fp :=
  let ids := map (fun s => unsigned32 (s_ident s)) (shells_query o st req mask) in
  if counts then mk_count_from_indices KCount ids fprinter_bits req None else mk_bit ids fprinter_bits req None.

Lemma fingerprint_query_unfold o counts bits st req mask :
  fingerprint_query o counts bits st req mask = rbind (unfolded_fp o counts st req mask) (fun f => fp_fold f bits 0).
Proof. unfold fingerprint_query, unfolded_fp, resolve_level.
  destruct (match req with | Some l => (l =? -1) || negb ((0 <=? l) && (l <=? st_k st)) | None => true end); destruct counts; destruct req; reflexivity.
Qed.

Lemma mk_count_from_indices_exact k idx bits lv nm r :
  k <> KBit -> mk_count_from_indices k idx bits lv nm = Ok r -> is_count_like r = true /\ exact_counts r.
Proof.
  intros Hk H. unfold mk_count_from_indices in H. destruct (existsb _ idx); [discriminate|]. inversion H; subst r; clear H.
  split; [destruct k; simpl; try reflexivity; exfalso; apply Hk; reflexivity|].
  right. intro i. unfold get_count; simpl.
  assert (G : exists n, cget (cbuild (usort idx) (fun i0 => inject_Z (count_occ_Z i0 idx))) i = inject_Z n).
  { unfold cbuild. induction (usort idx) as [|x l IH]; simpl; [exists 0; reflexivity|].
    destruct (i =? x); [eexists; reflexivity | exact IH]. }
  destruct k; [exfalso; apply Hk; reflexivity | exact G | exact G].
Qed.

(* Route 1: ask for `bits`.  Route 2: ask for the unfolded 2^32-bit fingerprint, fold it to `bits`.
   Whenever both succeed they have the same class, length, level, name and positions; bit fingerprints are the same
   value and count fingerprints agree count by count. *)
Theorem fprinter_bits_eq_fold o counts bits st req mask g y z :
  fingerprint_query o counts fprinter_bits st req mask = Ok g ->
  fp_fold g bits 0 = Ok y ->
  fingerprint_query o counts bits st req mask = Ok z ->
  fkind y = fkind z /\ fbits y = fbits z /\ flevel y = flevel z /\ fname y = fname z /\ fidx y = fidx z /\
  (counts = false -> y = z) /\ (forall j, cget (fcnt y) j == cget (fcnt z) j).
Proof.
  rewrite !fingerprint_query_unfold. destruct (unfolded_fp o counts st req mask) as [a|e] eqn:Ha; simpl; [|discriminate].
  intros Hg Hy Hz.
  pose proof (fold_compose_shape a g y z fprinter_bits bits 0 Hg Hy Hz) as (H1 & H2 & H3 & H4 & H5).
  repeat (split; [assumption|]). split.
  - intro Hc. subst counts. unfold unfolded_fp in Ha. apply (fold_compose_bit a g y z fprinter_bits bits 0 Hg Hy Hz).
    unfold mk_bit in Ha. destruct (existsb _ _); [discriminate|]. inversion Ha; reflexivity.
  - destruct counts.
    + unfold unfolded_fp in Ha. destruct (mk_count_from_indices_exact KCount _ _ _ _ a ltac:(discriminate) Ha) as [Hc He].
      exact (fold_compose_counts a g y z fprinter_bits bits 0 Hg Hy Hz Hc He).
    + intro j. assert (E : y = z).
      { apply (fold_compose_bit a g y z fprinter_bits bits 0 Hg Hy Hz). unfold unfolded_fp, mk_bit in Ha.
        destruct (existsb _ _); [discriminate|]. inversion Ha; reflexivity. }
      rewrite E. reflexivity.
Qed.

(* and whenever route 1 succeeds so does route 2's second step being composable: the direct request is accepted
   whenever the two-step one is *)
Theorem fprinter_two_step_accepts o counts bits st req mask g y :
  fingerprint_query o counts fprinter_bits st req mask = Ok g -> fp_fold g bits 0 = Ok y ->
  exists z, fingerprint_query o counts bits st req mask = Ok z.
Proof.
  rewrite !fingerprint_query_unfold. destruct (unfolded_fp o counts st req mask) as [a|e]; simpl; [|discriminate].
  intros Hg Hy. exact (fold_compose_accepts a fprinter_bits bits 0 g y Hg Hy).
Qed.
