(* C04: a Fingerprinter object's result does not depend on its history, as long as molecule objects are not mutated
   in place between runs (then molecule-level tables cached by identity would be stale: see the refuted statement).

   The object model (Model/Fprinter.v) keeps the conformer-level state explicitly: the dictionary `level_shells`,
   `past_substructs`, `current_level`.  History independence is therefore NOT true by the shape of the model: it holds
   because reset_conf() empties the dictionary before the iteration writes levels 0..k into it (`store_fresh`,
   `frun_levels_exact`); the variant that skips that clearing is refuted (`stale_levels_without_reset`). *)
From Coq Require Import QArith.
From E3FP Require Import Base.Prelude Base.ZSet Base.Murmur3 Model.Geometry Model.Stereo Model.Fprint Model.E3FP Gen.Constants
  Gen.AngleTable Proofs.E3FPIter Proofs.E3FPIterRun.
From E3FP Require Import Model.Fprinter.
Open Scope Z_scope.

(* ---- the dictionary ------------------------------------------------------------------------------------------ *)
Fixpoint zseq (l : Z) (n : nat) : list Z := match n with O => [] | S n' => l :: zseq (l + 1) n' end.

Section DictLemmas.
Context {A : Type}.
Implicit Types (d : list (Z * A)) (vs : list A).

Lemma dget_dset k j (v : A) d : dget j (dset k v d) = if j =? k then Some v else dget j d.
Proof.
  induction d as [|[k' v'] t IH]; simpl.
  - reflexivity.
  - destruct (k =? k') eqn:E; simpl.
    + apply Z.eqb_eq in E. subst k'. destruct (j =? k); reflexivity.
    + rewrite IH. destruct (j =? k') eqn:E1; [|reflexivity].
      destruct (j =? k) eqn:E2; [|reflexivity]. apply Z.eqb_eq in E1, E2. apply Z.eqb_neq in E. congruence.
Qed.

Lemma dset_fresh k (v : A) d : dget k d = None -> dset k v d = d ++ [(k, v)].
Proof.
  induction d as [|[k' v'] t IH]; simpl; intro H; [reflexivity|].
  destruct (k =? k'); [discriminate|]. rewrite IH by exact H. reflexivity.
Qed.

Lemma dget_app_none j d d' : dget j d = None -> dget j (d ++ d') = dget j d'.
Proof.
  induction d as [|[k' v'] t IH]; simpl; intro H; [reflexivity|].
  destruct (j =? k'); [discriminate|]. apply IH. exact H.
Qed.

(* writing l, l+1, ... into a dictionary that has no key >= l appends exactly these entries *)
Lemma dset_from_fresh vs : forall l d, (forall j, l <= j -> dget j d = None) -> dset_from l vs d = d ++ enum_from l vs.
Proof.
  induction vs as [|v t IH]; intros l d H; simpl; [rewrite app_nil_r; reflexivity|].
  rewrite dset_fresh by (apply H; lia). rewrite IH.
  - rewrite <- app_assoc. reflexivity.
  - intros j Hj. rewrite dget_app_none by (apply H; lia). simpl.
    destruct (j =? l) eqn:E; [apply Z.eqb_eq in E; lia | reflexivity].
Qed.

Lemma dset_from_empty vs l : dset_from l vs ([] : list (Z * A)) = enum_from l vs.
Proof. apply (dset_from_fresh vs l []). reflexivity. Qed.

Lemma dget_enum_from vs : forall l j, dget j (enum_from l vs) = if l <=? j then nth_error vs (Z.to_nat (j - l)) else None.
Proof.
  induction vs as [|v t IH]; intros l j; simpl.
  - destruct (l <=? j); [destruct (Z.to_nat (j - l)); reflexivity | reflexivity].
  - destruct (j =? l) eqn:E.
    + apply Z.eqb_eq in E. subst j. rewrite Z.leb_refl, Z.sub_diag. reflexivity.
    + apply Z.eqb_neq in E. rewrite IH.
      destruct (l <=? j) eqn:E1; destruct (l + 1 <=? j) eqn:E2;
        try apply Z.leb_le in E1; try apply Z.leb_le in E2; try apply Z.leb_gt in E1; try apply Z.leb_gt in E2; try lia; [|reflexivity].
      replace (Z.to_nat (j - l)) with (S (Z.to_nat (j - (l + 1)))) by lia. reflexivity.
Qed.

Lemma keys_enum_from vs : forall l, map fst (enum_from l vs) = zseq l (length vs).
Proof. induction vs as [|v t IH]; intro l; simpl; [reflexivity|]. rewrite IH. reflexivity. Qed.

(* the dictionary keeps stale keys: a write does not remove any *)
Lemma dget_dset_from_stale vs : forall l d j, j < l -> dget j (dset_from l vs d) = dget j d.
Proof.
  induction vs as [|v t IH]; intros l d j H; simpl; [reflexivity|].
  rewrite IH by lia. rewrite dget_dset. destruct (j =? l) eqn:E; [apply Z.eqb_eq in E; lia | reflexivity].
Qed.

Lemma dget_dset_from_beyond vs : forall l d j, l + Z.of_nat (length vs) <= j -> dget j (dset_from l vs d) = dget j d.
Proof.
  induction vs as [|v t IH]; intros l d j H; simpl in *; [reflexivity|].
  rewrite IH by lia. rewrite dget_dset. destruct (j =? l) eqn:E; [apply Z.eqb_eq in E; lia | reflexivity].
Qed.
End DictLemmas.

Section History.
Variable D : ringdict.
Variable C : sconsts.
Variable fuel : nat.

(* ---- what one iteration leaves in an EMPTY dictionary --------------------------------------------------------- *)
Lemma store_fresh (st : state) : store st [] = enum_from 0 (rev (st_shells st)).
Proof. unfold store. apply dset_from_empty. Qed.

(* ... and in a dictionary that was not emptied: keys beyond the level reached survive *)
Lemma store_keeps_stale (st : state) d j :
  Z.of_nat (length (st_shells st)) <= j -> dget j (store st d) = dget j d.
Proof. intro H. unfold store. apply dget_dset_from_beyond. rewrite rev_length. lia. Qed.

Definition shaped (st : state) : Prop := 0 <= st_k st /\ length (st_shells st) = S (Z.to_nat (st_k st)).

Lemma run_shaped o m st : run D C fuel o m = Ok st -> shaped st.
Proof. intro H. destruct (run_state_shape D C fuel o m st H) as (H1 & H2 & _). split; assumption. Qed.

Lemma dget_store_fresh st l : shaped st ->
  dget l (store st []) = if (0 <=? l) && (l <=? st_k st) then Some (shells_at_true st l) else None.
Proof.
  intros [Hk Hl]. rewrite store_fresh, dget_enum_from. unfold shells_at_true.
  destruct (0 <=? l) eqn:E0; simpl; [|reflexivity]. apply Z.leb_le in E0. rewrite Z.sub_0_r.
  destruct (l <=? st_k st) eqn:E1.
  - apply Z.leb_le in E1.
    assert (Hlt : (Z.to_nat l < length (rev (st_shells st)))%nat) by (rewrite rev_length, Hl; lia).
    rewrite (nth_error_nth' _ [] Hlt). f_equal.
    rewrite rev_nth by (rewrite Hl; lia). f_equal. rewrite Hl. lia.
  - apply Z.leb_gt in E1. apply nth_error_None. rewrite rev_length, Hl. lia.
Qed.

Lemma keys_store_fresh st : shaped st -> map fst (store st []) = zseq 0 (S (Z.to_nat (st_k st))).
Proof. intros [_ Hl]. rewrite store_fresh, keys_enum_from, rev_length, Hl. reflexivity. Qed.

(* the object holds exactly the outcome of a run on an emptied conformer-level state *)
Definition holds_run (f : fprinter D) (st : state) : Prop :=
  f_level_shells D f = store st [] /\ f_past D f = st_past st /\ f_cur D f = Some (st_k st) /\ f_exn D f = None /\ shaped st.

Lemma frun_opts (f : fprinter D) id m : f_opts D (frun D C fuel f id m) = f_opts D f.
Proof.
  unfold frun, iterate_conf. destruct (same_mol D f id); simpl.
  - destruct (f_tables D f); simpl; [|reflexivity]. destruct (run D C fuel (f_opts D f) _); reflexivity.
  - destruct (run D C fuel (f_opts D f) _); reflexivity.
Qed.

(* every run() that returns normally, from ANY previous object state (stale dictionary entries included) *)
Lemma frun_ok (f : fprinter D) id m :
  f_exn D (frun D C fuel f id m) = None ->
  exists base st, f_tables D (frun D C fuel f id m) = Some base /\
                  run D C fuel (f_opts D f) (with_positions D base m) = Ok st /\
                  holds_run (frun D C fuel f id m) st.
Proof.
  unfold frun, iterate_conf.
  destruct (same_mol D f id); simpl.
  - destruct (f_tables D f) as [base|]; simpl; [|discriminate].
    destruct (run D C fuel (f_opts D f) (with_positions D base m)) as [st|e] eqn:R; simpl; [|discriminate].
    intros _. exists base, st. destruct (run_shaped _ _ _ R) as [S1 S2]. split; [reflexivity|]. split; [exact R|]. unfold holds_run, shaped; simpl. repeat split; solve [reflexivity | assumption].
  - destruct (run D C fuel (f_opts D f) (with_positions D m m)) as [st|e] eqn:R; simpl; [|discriminate].
    intros _. exists m, st. destruct (run_shaped _ _ _ R) as [S1 S2]. split; [reflexivity|]. split; [exact R|]. unfold holds_run, shaped; simpl. repeat split; solve [reflexivity | assumption].
Qed.

Lemma holds_levels_exact f st : holds_run f st ->
  map fst (f_level_shells D f) = zseq 0 (S (Z.to_nat (st_k st))) /\
  (forall l, dget l (f_level_shells D f) = if (0 <=? l) && (l <=? st_k st) then Some (shells_at_true st l) else None) /\
  f_cur D f = Some (st_k st) /\ f_past D f = st_past st.
Proof.
  intros (H1 & H2 & H3 & _ & Hs). rewrite H1. repeat split.
  - apply keys_store_fresh; exact Hs.
  - intro l. apply dget_store_fresh; exact Hs.
  - exact H3.
  - exact H2.
Qed.

Theorem frun_levels_exact (f : fprinter D) id m :
  f_exn D (frun D C fuel f id m) = None ->
  exists base st, f_tables D (frun D C fuel f id m) = Some base /\
    run D C fuel (f_opts D f) (with_positions D base m) = Ok st /\
    map fst (f_level_shells D (frun D C fuel f id m)) = zseq 0 (S (Z.to_nat (st_k st))) /\
    (forall l, dget l (f_level_shells D (frun D C fuel f id m))
               = if (0 <=? l) && (l <=? st_k st) then Some (shells_at_true st l) else None) /\
    f_cur D (frun D C fuel f id m) = Some (st_k st) /\ f_past D (frun D C fuel f id m) = st_past st.
Proof.
  intro H. destruct (frun_ok f id m H) as (base & st & Ht & Hr & Hh). exists base, st.
  split; [exact Ht|]. split; [exact Hr|]. apply holds_levels_exact. exact Hh.
Qed.

(* ---- the dictionary-based query is the range-based query of Model/E3FP.v -------------------------------------- *)
Lemma holds_query f st counts bits req mask : holds_run f st ->
  fquery D f counts bits req mask = fingerprint_query (f_opts D f) counts bits st req mask.
Proof.
  intro Hh. destruct (holds_levels_exact f st Hh) as (Hkeys & Hget & Hcur & _).
  destruct Hh as (_ & _ & _ & _ & Hk & Hl).
  assert (Hne : exists x t, f_level_shells D f = x :: t).
  { destruct (f_level_shells D f) as [|x t]; [simpl in Hkeys; discriminate|]. exists x, t. reflexivity. }
  assert (Hcurget : dget (st_k st) (f_level_shells D f) = Some (shells_at_true st (st_k st))).
  { rewrite Hget. replace (0 <=? st_k st) with true by (symmetry; apply Z.leb_le; lia). rewrite Z.leb_refl. reflexivity. }
  assert (Hvia : forall (r : option Z) (unres : bool),
    unres = true ->
    fquery D f counts bits r mask
    = rbind (match f_level_shells D f with
             | [] => Raises EIndex
             | _ :: _ => match f_cur D f with
                         | Some c => match dget c (f_level_shells D f) with Some s => Ok s | None => Raises EKey end
                         | None => Raises EKey end end)
        (fun shells => rbind (if counts then mk_count_from_indices KCount (map (fun s => unsigned32 (s_ident s)) (filter (fun s => disjointb (s_sub s) mask) shells)) fprinter_bits r None
                              else mk_bit (map (fun s => unsigned32 (s_ident s)) (filter (fun s => disjointb (s_sub s) mask) shells)) fprinter_bits r None)
                             (fun x => fp_fold x bits 0)) ->
    fquery D f counts bits r mask
    = rbind (if counts then mk_count_from_indices KCount (map (fun s => unsigned32 (s_ident s)) (filter (fun s => disjointb (s_sub s) mask) (shells_at_true st (st_k st)))) fprinter_bits r None
             else mk_bit (map (fun s => unsigned32 (s_ident s)) (filter (fun s => disjointb (s_sub s) mask) (shells_at_true st (st_k st)))) fprinter_bits r None)
            (fun x => fp_fold x bits 0)).
  { intros r unres _ E. rewrite E. destruct Hne as (x & t & Ex). rewrite Ex at 1. rewrite Hcur, Hcurget. reflexivity. }
  unfold fingerprint_query, shells_query, resolve_level.
  destruct req as [l|].
  - destruct (l =? -1) eqn:Em1.
    + simpl. apply (Hvia (Some l) true eq_refl). unfold fquery, fshells. rewrite Em1. reflexivity.
    + simpl orb. unfold fquery, fshells, dmem. rewrite Em1, Hget. simpl orb.
      destruct ((0 <=? l) && (l <=? st_k st)) eqn:Er; simpl.
      * reflexivity.
      * destruct Hne as (x & t & Ex). rewrite Ex at 1. rewrite Hcur, Hcurget. reflexivity.
  - simpl. apply (Hvia None true eq_refl). reflexivity.
Qed.

Theorem fquery_eq_fingerprint_query (f : fprinter D) id m :
  f_exn D (frun D C fuel f id m) = None ->
  exists base st, f_tables D (frun D C fuel f id m) = Some base /\
    run D C fuel (f_opts D f) (with_positions D base m) = Ok st /\
    forall counts bits req mask,
      fquery D (frun D C fuel f id m) counts bits req mask = fingerprint_query (f_opts D f) counts bits st req mask.
Proof.
  intro H. destruct (frun_ok f id m H) as (base & st & Ht & Hr & Hh). exists base, st.
  split; [exact Ht|]. split; [exact Hr|]. intros counts bits req mask.
  rewrite (holds_query _ st counts bits req mask Hh), frun_opts. reflexivity.
Qed.

(* ---- molecule-level tables: identity-keyed cache --------------------------------------------------------------- *)
Definition akey (x : atom D) := (a_idx D x, a_num D x, a_deg D x, a_tdeg D x, a_tval D x, a_nh D x, a_mass D x, a_charge D x, a_ring D x, a_dmass D x).

Definition wf_mol (m : mol D) : Prop := NoDup (map (a_idx D) (m_atoms D m)).

Lemma same_topology_sym a b : same_topology D a b -> same_topology D b a.
Proof. intros [H1 H2]. split; symmetry; assumption. Qed.

Lemma same_topology_refl a : same_topology D a a.
Proof. split; reflexivity. Qed.

Lemma pos_of_nodup (l : list (atom D)) c :
  NoDup (map (a_idx D) l) -> In c l -> pos_of D l (a_idx D c) = a_pos D c.
Proof.
  unfold pos_of. induction l as [|x l IH]; intros Hnd Hin; [destruct Hin|].
  simpl in *. inversion Hnd as [|? ? Hx Hnd']; subst.
  destruct Hin as [->|Hin].
  - rewrite Z.eqb_refl. reflexivity.
  - destruct (a_idx D x =? a_idx D c) eqn:E.
    + apply Z.eqb_eq in E. exfalso. apply Hx. rewrite E. apply in_map. exact Hin.
    + apply IH; assumption.
Qed.

Lemma rebuild_eq (full la lc : list (atom D)) :
  map akey la = map akey lc ->
  (forall c, In c lc -> pos_of D full (a_idx D c) = a_pos D c) ->
  map (fun a => mkatom D (a_idx D a) (a_num D a) (a_deg D a) (a_tdeg D a) (a_tval D a) (a_nh D a) (a_mass D a) (a_charge D a)
                  (a_ring D a) (a_dmass D a) (pos_of D full (a_idx D a))) la = lc.
Proof.
  revert lc. induction la as [|a la IH]; intros [|c lc] Hk Hp; simpl in *; try discriminate; [reflexivity|].
  inversion Hk as [[H1 H2 H3 H4 H5 H6 H7 H8 H9 H10 Hrest]].
  f_equal.
  - rewrite H1, H2, H3, H4, H5, H6, H7, H8, H9, H10. rewrite (Hp c (or_introl eq_refl)). destruct c; reflexivity.
  - apply IH; [exact Hrest | intros c' Hc'; apply Hp; right; exact Hc'].
Qed.

Lemma with_positions_id (base cur : mol D) :
  wf_mol cur -> same_topology D base cur -> with_positions D base cur = cur.
Proof.
  intros Hwf [Hb Ha]. unfold with_positions. destruct cur as [atoms bonds u]; simpl in *.
  rewrite Hb. f_equal. apply rebuild_eq; [exact Ha|]. intros c Hc. apply pos_of_nodup; assumption.
Qed.

(* no molecule object is mutated in place: the same identity always carries the same molecule-level data *)
Definition consistent (h : list (Z * mol D)) : Prop :=
  (forall i m m', In (i, m) h -> In (i, m') h -> same_topology D m m') /\ (forall i m, In (i, m) h -> wf_mol m).

(* the cached tables are those of the molecule whose identity the object holds *)
Definition Inv (h : list (Z * mol D)) (f : fprinter D) : Prop :=
  match f_mol D f with
  | None => True
  | Some i => exists b, f_tables D f = Some b /\ forall m, In (i, m) h -> same_topology D b m
  end.

Lemma frun_step h f i m :
  consistent h -> In (i, m) h -> Inv h f ->
  Inv h (frun D C fuel f i m) /\
  conf_state D (frun D C fuel f i m) = fresh_state (run D C fuel (f_opts D f) m) /\
  f_opts D (frun D C fuel f i m) = f_opts D f.
Proof.
  intros [Hc Hw] Hin HI. unfold frun, same_mol, Inv in *. destruct (f_mol D f) as [i'|] eqn:Em.
  - destruct (i =? i') eqn:E.
    + apply Z.eqb_eq in E. subst i'. destruct HI as (b & Hb & HI).
      unfold iterate_conf, reset_conf. cbn [f_tables f_opts f_mol f_level_shells f_past f_cur f_exn]. rewrite Hb.
      rewrite (with_positions_id b m (Hw i m Hin) (HI m Hin)).
      destruct (run D C fuel (f_opts D f) m) as [st|e]; unfold conf_state, fresh_state; simpl; rewrite ?Em.
      * split; [exists b; split; [reflexivity|exact HI] | split; reflexivity].
      * split; [exists b; split; [assumption || reflexivity|exact HI] | split; reflexivity].
    + unfold iterate_conf, initialize_mol, reset_mol, reset_conf. cbn [f_tables f_opts f_mol f_level_shells f_past f_cur f_exn].
      rewrite (with_positions_id m m (Hw i m Hin) (same_topology_refl m)).
      destruct (run D C fuel (f_opts D f) m) as [st|e]; unfold conf_state, fresh_state; simpl.
      * split; [exists m; split; [reflexivity | intros m' Hm'; apply (Hc i); assumption] | split; reflexivity].
      * split; [exists m; split; [reflexivity | intros m' Hm'; apply (Hc i); assumption] | split; reflexivity].
  - unfold iterate_conf, initialize_mol, reset_mol, reset_conf. cbn [f_tables f_opts f_mol f_level_shells f_past f_cur f_exn].
    rewrite (with_positions_id m m (Hw i m Hin) (same_topology_refl m)).
    destruct (run D C fuel (f_opts D f) m) as [st|e]; unfold conf_state, fresh_state; simpl.
    * split; [exists m; split; [reflexivity | intros m' Hm'; apply (Hc i); assumption] | split; reflexivity].
    * split; [exists m; split; [reflexivity | intros m' Hm'; apply (Hc i); assumption] | split; reflexivity].
Qed.

Lemma frun_all_inv h : forall p f,
  consistent h -> (forall x, In x p -> In x h) -> Inv h f ->
  Inv h (frun_all D C fuel f p) /\ f_opts D (frun_all D C fuel f p) = f_opts D f.
Proof.
  induction p as [|[i m] p IH]; intros f Hc Hsub HI; simpl; [split; [exact HI|reflexivity]|].
  destruct (frun_step h f i m Hc (Hsub _ (or_introl eq_refl)) HI) as (HI' & _ & Ho).
  destruct (IH (frun D C fuel f i m) Hc (fun x Hx => Hsub x (or_intror Hx)) HI') as [H1 H2].
  split; [exact H1 | rewrite H2; exact Ho].
Qed.

Lemma frun_all_snoc f p i m : frun_all D C fuel f (p ++ [(i, m)]) = frun D C fuel (frun_all D C fuel f p) i m.
Proof. unfold frun_all. rewrite fold_left_app. reflexivity. Qed.

(* the conformer-level state after the last run of ANY history is that of a fresh fingerprinter's run on the same input:
   level_shells = {0: .., .., k: ..} of that run and nothing else, its past_substructs, its current_level, its exception *)
Theorem history_independent (o : opts) (p : list (Z * mol D)) (i : Z) (m : mol D) :
  consistent (p ++ [(i, m)]) ->
  conf_state D (frun_all D C fuel (new_fprinter D o) (p ++ [(i, m)])) = fresh_state (run D C fuel o m)
  /\ f_opts D (frun_all D C fuel (new_fprinter D o) (p ++ [(i, m)])) = o.
Proof.
  intro Hc. rewrite frun_all_snoc.
  destruct (frun_all_inv (p ++ [(i, m)]) p (new_fprinter D o) Hc) as [HI Ho].
  - intros x Hx. apply in_or_app. left. exact Hx.
  - exact I.
  - destruct (frun_step (p ++ [(i, m)]) (frun_all D C fuel (new_fprinter D o) p) i m Hc) as (_ & Hl & Ho').
    + apply in_or_app. right. left. reflexivity.
    + exact HI.
    + rewrite Hl, Ho', Ho. split; reflexivity.
Qed.

Lemma fquery_ext (f g : fprinter D) counts bits req mask :
  f_opts D f = f_opts D g -> conf_state D f = conf_state D g ->
  fquery D f counts bits req mask = fquery D g counts bits req mask.
Proof.
  unfold conf_state. intros _ H. inversion H as [[H1 H2 H3 H4]]. unfold fquery, fshells. rewrite H1, H3. reflexivity.
Qed.

Lemma consistent_last p i m : consistent (p ++ [(i, m)]) -> consistent [(i, m)].
Proof.
  intros [H1 H2]. split.
  - intros j a b [Ha|[]] [Hb|[]]. inversion Ha; inversion Hb; subst. apply same_topology_refl.
  - intros j a [Ha|[]]. inversion Ha; subst. eapply H2. apply in_or_app. right. left. reflexivity.
Qed.

(* every query after any history = the query on a fresh object *)
Corollary query_history_independent (o : opts) p i m counts bits req mask :
  consistent (p ++ [(i, m)]) ->
  fquery D (frun_all D C fuel (new_fprinter D o) (p ++ [(i, m)])) counts bits req mask
  = fquery D (frun D C fuel (new_fprinter D o) i m) counts bits req mask.
Proof.
  intro Hc. destruct (history_independent o p i m Hc) as [Hs Ho].
  destruct (history_independent o [] i m (consistent_last p i m Hc)) as [Hs1 Ho1]. simpl in Hs1, Ho1.
  apply fquery_ext; [rewrite Ho, Ho1; reflexivity | rewrite Hs, Hs1; reflexivity].
Qed.

(* ... and, when the run succeeds, the query of Model/E3FP.v on that run's state *)
Corollary query_history_is_run_query (o : opts) p i m st counts bits req mask :
  consistent (p ++ [(i, m)]) -> run D C fuel o m = Ok st ->
  fquery D (frun_all D C fuel (new_fprinter D o) (p ++ [(i, m)])) counts bits req mask
  = fingerprint_query o counts bits st req mask.
Proof.
  intros Hc Hr. destruct (history_independent o p i m Hc) as [Hs Ho].
  rewrite Hr in Hs. unfold conf_state, fresh_state in Hs. inversion Hs as [[H1 H2 H3 H4]].
  rewrite <- Ho at 2. apply holds_query. destruct (run_shaped _ _ _ Hr) as [S1 S2]. unfold holds_run, shaped. repeat split; assumption.
Qed.
End History.

(* ---- witnesses on the executed instance (Z coordinates, the shipped constants, Exec/RunM1.v's fuel) ------------ *)
From E3FP Require Import Exec.RunM1.

Definition w_atom (i num mass : Z) (x : Z) : atom ZD :=
  mkatom ZD i num 1 1 1 0 mass 0 0 0 (mkvec (D:=ZD) x 0 0).
Definition w_mol (num2 mass2 : Z) : mol ZD :=
  mkmol ZD [w_atom 0 6 12 0; w_atom 1 num2 mass2 90000] [(0, 1, BtSingle)] 4294967296.
Definition w_opts : opts := mkopts 2 1718 1000 true true true false true.

(* three atoms C-O-N on a line (unit 2^16 per Angstrom): at 1.5 A spacing the run reaches level 1, at ~6 A spacing
   nothing is within the level-1 radius and the run stops at level 0 *)
Definition w3 (x1 x2 : Z) : mol ZD :=
  mkmol ZD [w_atom 0 6 12 0; w_atom 1 8 15 x1; w_atom 2 7 14 x2] [(0, 1, BtSingle); (1, 2, BtSingle)] 4294967296.
Definition w3_opts : opts := mkopts 5 1718 1000 true true true false true.

(* The full statement (no hypothesis on the history) is FALSE of the faithful model: a molecule object edited in place
   between two runs is fingerprinted with the tables cached for its identity.  Witness: C-O, then the same object with
   the oxygen turned into sulfur. *)
Lemma history_independent_refuted_w :
  exists (h : list (Z * mol ZD)) (i : Z) (m : mol ZD),
    result_eqb fp_obs_eqb
      (fquery ZD (frun_allZ (new_fprinter ZD w_opts) (h ++ [(i, m)])) false 4294967296 None [])
      (fquery ZD (frunZ (new_fprinter ZD w_opts) i m) false 4294967296 None []) = false.
Proof. exists [(7, w_mol 8 15)], 7, (w_mol 16 32). vm_compute. reflexivity. Qed.

Lemma consistent_two_conformers x1 x2 y1 y2 : consistent ZD [(7, w3 x1 x2); (7, w3 y1 y2)].
Proof.
  split.
  - intros i a b Ha Hb. simpl in Ha, Hb.
    destruct Ha as [Ha|[Ha|[]]]; destruct Hb as [Hb|[Hb|[]]]; inversion Ha; inversion Hb; subst; split; reflexivity.
  - intros i a Ha. simpl in Ha. destruct Ha as [Ha|[Ha|[]]]; inversion Ha; subst;
      unfold wf_mol; simpl; repeat constructor; simpl; intuition discriminate.
Qed.

(* WITHOUT the clearing of level_shells in reset_conf (the seeded-bug variant frun_noreset) the statement fails even
   on consistent histories: two conformers of one molecule object, the second stops at level 0 < L = 1; the key 1 of
   the first conformer is still in the dictionary, so the explicit query for level 1 returns the FIRST conformer's
   shells, which is not what a fresh object (or the faithful model after the same history) answers. *)
Lemma stale_levels_without_reset_w :
  exists (o : opts) (i : Z) (mA mB : mol ZD) (L : Z),
    let f1 := frun_noresetZ (new_fprinter ZD o) i mA in
    let f2 := frun_noresetZ f1 i mB in
    consistent ZD [(i, mA); (i, mB)] /\
    f_exn ZD f2 = None /\ f_cur ZD f2 = Some 0 /\ 0 < L /\
    dmem L (f_level_shells ZD f2) = true /\
    fshells ZD f2 (Some L) = fshells ZD f1 (Some L) /\
    result_eqb fp_obs_eqb (fquery ZD f2 false 1024 (Some L) [])
                          (fquery ZD (frunZ (new_fprinter ZD o) i mB) false 1024 (Some L) []) = false /\
    result_eqb fp_obs_eqb (fquery ZD (frun_allZ (new_fprinter ZD o) [(i, mA); (i, mB)]) false 1024 (Some L) [])
                          (fquery ZD (frunZ (new_fprinter ZD o) i mB) false 1024 (Some L) []) = true.
Proof.
  exists w3_opts, 7, (w3 98304 196608), (w3 400000 800000), 1.
  split; [apply consistent_two_conformers|].
  vm_compute. repeat split; reflexivity.
Qed.

(* non-vacuity: a history that reuses a molecule object with another conformer, and another molecule in between, is consistent *)
Lemma consistent_history_exists_w :
  consistent ZD ([(7, w_mol 8 15); (9, w_mol 16 32)] ++ [(7, mkmol ZD [w_atom 0 6 12 5; w_atom 1 8 15 70000] [(0, 1, BtSingle)] 4294967296)]).
Proof.
  split.
  - intros i a b Ha Hb. simpl in Ha, Hb.
    destruct Ha as [Ha|[Ha|[Ha|[]]]]; destruct Hb as [Hb|[Hb|[Hb|[]]]]; inversion Ha; inversion Hb; subst;
      try discriminate; split; reflexivity.
  - intros i a Ha. simpl in Ha. destruct Ha as [Ha|[Ha|[Ha|[]]]]; inversion Ha; subst;
      unfold wf_mol; simpl; repeat constructor; simpl; intuition discriminate.
Qed.

(* non-vacuity of frun_levels_exact / fquery_eq_fingerprint_query: a run that returns normally, on a stale object *)
Lemma frun_ok_exists_w :
  f_exn ZD (frunZ (frunZ (new_fprinter ZD w3_opts) 7 (w3 98304 196608)) 7 (w3 400000 800000)) = None.
Proof. vm_compute. reflexivity. Qed.
