(* C04: a Fingerprinter object's result does not depend on its history, as long as molecule objects are not mutated
   in place between runs (then molecule-level tables cached by identity would be stale: see the refuted statement). *)
From Coq Require Import QArith.
From E3FP Require Import Base.Prelude Model.Geometry Model.Stereo Model.Fprint Model.E3FP Model.Fprinter.
Open Scope Z_scope.

Section History.
Variable D : ringdict.
Variable C : sconsts.
Variable fuel : nat.

Definition akey (x : atom D) := (a_idx D x, a_num D x, a_deg D x, a_tdeg D x, a_tval D x, a_nh D x, a_mass D x, a_charge D x, a_ring D x, a_dmass D x).

Definition wf_mol (m : mol D) : Prop := NoDup (map (a_idx D) (m_atoms D m)).

Lemma same_topology_sym a b : same_topology D a b -> same_topology D b a.
Proof. intros [H1 H2]. split; symmetry; assumption. Qed.

Lemma same_topology_refl a : same_topology D a a.
Proof. split; reflexivity. Qed.

Lemma pos_of_nodup (l : list (atom D)) c :
  NoDup (map (a_idx D) l) -> In c l -> pos_of D l (a_idx D c) = a_pos D c.
Proof.
  unfold pos_of. induction l as [|x l IH]; intros Hnd Hin; [destruct Hin|].
  simpl in *. inversion Hnd as [|? ? Hx Hnd']; subst.
  destruct Hin as [->|Hin].
  - rewrite Z.eqb_refl. reflexivity.
  - destruct (a_idx D x =? a_idx D c) eqn:E.
    + apply Z.eqb_eq in E. exfalso. apply Hx. rewrite E. apply in_map. exact Hin.
    + apply IH; assumption.
Qed.

Lemma rebuild_eq (full la lc : list (atom D)) :
  map akey la = map akey lc ->
  (forall c, In c lc -> pos_of D full (a_idx D c) = a_pos D c) ->
  map (fun a => mkatom D (a_idx D a) (a_num D a) (a_deg D a) (a_tdeg D a) (a_tval D a) (a_nh D a) (a_mass D a) (a_charge D a)
                  (a_ring D a) (a_dmass D a) (pos_of D full (a_idx D a))) la = lc.
Proof.
  revert lc. induction la as [|a la IH]; intros [|c lc] Hk Hp; simpl in *; try discriminate; [reflexivity|].
  inversion Hk as [[H1 H2 H3 H4 H5 H6 H7 H8 H9 H10 Hrest]].
  f_equal.
  - rewrite H1, H2, H3, H4, H5, H6, H7, H8, H9, H10. rewrite (Hp c (or_introl eq_refl)). destruct c; reflexivity.
  - apply IH; [exact Hrest | intros c' Hc'; apply Hp; right; exact Hc'].
Qed.

Lemma with_positions_id (base cur : mol D) :
  wf_mol cur -> same_topology D base cur -> with_positions D base cur = cur.
Proof.
  intros Hwf [Hb Ha]. unfold with_positions. destruct cur as [atoms bonds u]; simpl in *.
  rewrite Hb. f_equal. apply rebuild_eq; [exact Ha|]. intros c Hc. apply pos_of_nodup; assumption.
Qed.

(* no molecule object is mutated in place: the same identity always carries the same molecule-level data *)
Definition consistent (h : list (Z * mol D)) : Prop :=
  (forall i m m', In (i, m) h -> In (i, m') h -> same_topology D m m') /\ (forall i m, In (i, m) h -> wf_mol m).

Definition Inv (h : list (Z * mol D)) (f : fprinter D) : Prop :=
  match f_mol D f with
  | None => True
  | Some (i, b) => forall m, In (i, m) h -> same_topology D b m
  end.

Lemma frun_step h f i m :
  consistent h -> In (i, m) h -> Inv h f ->
  Inv h (frun D C fuel f i m) /\ f_last D (frun D C fuel f i m) = Some (run D C fuel (f_opts D f) m) /\
  f_opts D (frun D C fuel f i m) = f_opts D f.
Proof.
  intros [Hc Hw] Hin HI. unfold frun, Inv in *. destruct (f_mol D f) as [[i' b]|]; simpl.
  - destruct (i =? i') eqn:E.
    + apply Z.eqb_eq in E. subst i'. split; [|split; [|reflexivity]].
      * intros m' Hm'. apply HI. exact Hm'.
      * rewrite with_positions_id; [reflexivity | apply (Hw i); exact Hin | apply HI; exact Hin].
    + split; [|split; [|reflexivity]].
      * intros m' Hm'. apply (Hc i); assumption.
      * rewrite with_positions_id; [reflexivity | apply (Hw i); exact Hin | apply same_topology_refl].
  - split; [|split; [|reflexivity]].
    + intros m' Hm'. apply (Hc i); assumption.
    + rewrite with_positions_id; [reflexivity | apply (Hw i); exact Hin | apply same_topology_refl].
Qed.

Lemma frun_all_inv h : forall p f,
  consistent h -> (forall x, In x p -> In x h) -> Inv h f ->
  Inv h (frun_all D C fuel f p) /\ f_opts D (frun_all D C fuel f p) = f_opts D f.
Proof.
  induction p as [|[i m] p IH]; intros f Hc Hsub HI; simpl; [split; [exact HI|reflexivity]|].
  destruct (frun_step h f i m Hc (Hsub _ (or_introl eq_refl)) HI) as (HI' & _ & Ho).
  destruct (IH (frun D C fuel f i m) Hc (fun x Hx => Hsub x (or_intror Hx)) HI') as [H1 H2].
  split; [exact H1 | rewrite H2; exact Ho].
Qed.

(* the result of the last run of ANY history equals the result of a fresh fingerprinter on the same input *)
Theorem history_independent (o : opts) (p : list (Z * mol D)) (i : Z) (m : mol D) :
  consistent (p ++ [(i, m)]) ->
  f_last D (frun_all D C fuel (new_fprinter D o) (p ++ [(i, m)])) = Some (run D C fuel o m).
Proof.
  intro Hc.
  assert (Happ : frun_all D C fuel (new_fprinter D o) (p ++ [(i, m)])
                 = frun D C fuel (frun_all D C fuel (new_fprinter D o) p) i m).
  { unfold frun_all. rewrite fold_left_app. reflexivity. }
  rewrite Happ.
  destruct (frun_all_inv (p ++ [(i, m)]) p (new_fprinter D o) Hc) as [HI Ho].
  - intros x Hx. apply in_or_app. left. exact Hx.
  - exact I.
  - destruct (frun_step (p ++ [(i, m)]) (frun_all D C fuel (new_fprinter D o) p) i m Hc) as (_ & Hl & _).
    + apply in_or_app. right. left. reflexivity.
    + exact HI.
    + rewrite Hl, Ho. reflexivity.
Qed.

(* every query after any history = the query on a fresh object *)
Corollary query_history_independent (o : opts) p i m counts bits req mask :
  consistent (p ++ [(i, m)]) ->
  fquery D (frun_all D C fuel (new_fprinter D o) (p ++ [(i, m)])) counts bits req mask
  = fquery D (frun D C fuel (new_fprinter D o) i m) counts bits req mask.
Proof.
  intro Hc. unfold fquery.
  assert (Ho : f_opts D (frun_all D C fuel (new_fprinter D o) (p ++ [(i, m)])) = o).
  { destruct (frun_all_inv (p ++ [(i, m)]) (p ++ [(i, m)]) (new_fprinter D o) Hc (fun x H => H) I) as [_ H]. exact H. }
  rewrite Ho, (history_independent o p i m Hc).
  assert (Hc1 : consistent [(i, m)]).
  { destruct Hc as [H1 H2]. split.
    - intros j a b [Ha|[]] [Hb|[]]. inversion Ha; inversion Hb; subst. apply same_topology_refl.
    - intros j a [Ha|[]]. inversion Ha; subst. eapply H2. apply in_or_app. right. left. reflexivity. }
  destruct (frun_step [(i, m)] (new_fprinter D o) i m Hc1 (or_introl eq_refl) I) as (_ & Hl & Ho1).
  rewrite Hl, Ho1. reflexivity.
Qed.
End History.
